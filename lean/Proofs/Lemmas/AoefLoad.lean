/-
  C01 — the registration steps of the loader fill the ideal tables; the three shared loaders
  and the evaluation loader return the relocated members.
-/
import Proofs.Lemmas.AoefSave
import Proofs.Lemmas.AoefOrder
namespace SE.Aoef
open SE.Paths

/-- every reachable recording has a stored path -/
def PathsOK (sd : Option PPath) (os : List Obj) : Prop := ∀ r, Obj.recording r ∈ os → PathOK sd r

section reg
variable {os : List Obj} {sd ld : Option PPath}

theorem regUsers_ok (f : PPath → PPath) (st : Stores) (d : Doc) (he : st.users = [])
    (hd : lst d.users = (dedupBy (·.uuid) (usersOf os)).map encUser) :
    regUsers st d = .ok { st with users := (ideal os f).users } := by
  have h := addAll_map' (·.uuid) (·.uuid) encUser id
    (fun (_ : Store Atom User) o => (pure (decUser o) : Except Err User))
    (dedupBy (·.uuid) (usersOf os)) (fun _ => rfl) (dedupBy_nodup_keys _ _) (fun _ x _ => rfl)
  rw [regUsers, he, hd, h]; rfl

theorem regTags_ok (f : PPath → PPath) (st : Stores) (d : Doc) (he : st.tags = [])
    (hd : lst d.tags = encTags (tagTable os)) :
    regTags st d = .ok { st with tags := (ideal os f).tags } := by
  have h := addAll_map' (β := Tag × Nat) (·.id) (·.2)
    (fun x => (⟨x.2, x.1.key, x.1.value⟩ : TagObj)) (·.1)
    (fun (_ : Store Nat Tag) o => (pure (decTag o) : Except Err Tag))
    (tagTable os).zipIdx (fun _ => rfl)
    (by rw [List.zipIdx_map_snd]; exact List.nodup_range')
    (fun _ x _ => rfl)
  have he' : encTags (tagTable os)
      = (tagTable os).zipIdx.map (fun x => (⟨x.2, x.1.key, x.1.value⟩ : TagObj)) := rfl
  rw [regTags, he, hd, he', h]; rfl

variable (cx : Ctx os)
include cx

theorem regRecs_ok (hp : PathsOK sd os) (st : Stores) (d : Doc) (he : st.recs = [])
    (hd : lst d.recordings = (dedupBy (·.uuid) (recsOf os)).map (encRecordingT (tagTable os) sd))
    (hU : UsersOK os st) (hT : TagsOK os st) :
    regRecs st ld d = .ok { st with recs := (ideal os (relocated sd ld)).recs } := by
  have h := addAll_map' (·.uuid) (·.uuid) (encRecordingT (tagTable os) sd)
    (Recording.mapPath (relocated sd ld))
    (fun (_ : Store Atom Recording) o => (pure (decRecording st ld o) : Except Err Recording))
    (dedupBy (·.uuid) (recsOf os)) (fun _ => rfl) (dedupBy_nodup_keys _ _)
    (fun _ x hx => by
      have hx' := recsOf_mem.1 (dedupBy_subset _ hx)
      exact congrArg Except.ok (decRecording_enc cx hU hT hx' (hp x hx')))
  rw [regRecs, he, hd, h]; rfl

theorem regClips_ok (st : Stores) (d : Doc) (he : st.clips = [])
    (hd : lst d.clips = (dedupBy (·.uuid) (clipsOf os)).map encClip)
    (hR : RecsOK (relocated sd ld) os st) :
    regClips st d = .ok { st with clips := (ideal os (relocated sd ld)).clips } := by
  have h := addAll_map' (·.uuid) (·.uuid) encClip (Clip.mapPath (relocated sd ld))
    (fun (_ : Store Atom Clip) o => decClip st o)
    (dedupBy (·.uuid) (clipsOf os)) (fun _ => rfl) (dedupBy_nodup_keys _ _)
    (fun _ x hx => decClip_enc cx hR (clipsOf_mem.1 (dedupBy_subset _ hx)))
  rw [regClips, he, hd, h]; rfl

theorem regSes_ok (st : Stores) (d : Doc) (he : st.ses = [])
    (hd : lst d.sound_events = (dedupBy (·.uuid) (sesOf os)).map encSoundEvent)
    (hR : RecsOK (relocated sd ld) os st) :
    regSes st d = .ok { st with ses := (ideal os (relocated sd ld)).ses } := by
  have h := addAll_map' (·.uuid) (·.uuid) encSoundEvent (SoundEvent.mapPath (relocated sd ld))
    (fun (_ : Store Atom SoundEvent) o => decSoundEvent st o)
    (dedupBy (·.uuid) (sesOf os)) (fun _ => rfl) (dedupBy_nodup_keys _ _)
    (fun _ x hx => decSoundEvent_enc cx hR (sesOf_mem.1 (dedupBy_subset _ hx)))
  rw [regSes, he, hd, h]; rfl

theorem regSeqs_ok (hpb : SeqPB [] os) (st : Stores) (d : Doc) (he : st.seqs = [])
    (hd : lst d.sequences = (dedupBy (·.uuid) (seqsOf os)).map encSequence)
    (hS : SesOK (relocated sd ld) os st) :
    regSeqs st d = .ok { st with seqs := (ideal os (relocated sd ld)).seqs } := by
  have hnd := dedupBy_nodup_keys (fun s : Sequence => s.uuid) (seqsOf os)
  have hrb := reqBefore_dedupBy (fun s : Sequence => s.uuid) (seqsOf os) (seqs_reqBefore hpb)
  have h := addAll_map (·.uuid) (fun s : Sequence => s.uuid) encSequence
    (Sequence.mapPath (relocated sd ld))
    (fun (seqs : Store Atom Sequence) o => (pure (decSequence st seqs o) : Except Err Sequence))
    (dedupBy (·.uuid) (seqsOf os)) (fun _ => rfl) hnd
    (fun p x q hD => by
      have hxD : x ∈ dedupBy (fun s : Sequence => s.uuid) (seqsOf os) := by rw [hD]; simp
      have hx := seqsOf_mem.1 (dedupBy_subset _ hxD)
      refine congrArg Except.ok (decSequence_enc cx hS hx _ ?_)
      intro a as hanc
      rcases hrb p x q a.uuid hD (by simp [seqReq, hanc]) with ⟨s', hs'p, hk⟩
      have hs'L : s' ∈ seqsOf os := dedupBy_subset _ (by rw [hD]; exact List.mem_append.2 (Or.inl hs'p))
      have hparL : (⟨a, as⟩ : Sequence) ∈ seqsOf os := by
        apply seqsOf_mem.2
        apply cx.closed _ hx
        rcases x with ⟨n, anc⟩
        simp only at hanc
        subst hanc
        simp [children, Sequence.parent]
      have hs' : s' = ⟨a, as⟩ := cx.seqs s' hs'L _ hparL hk
      subst hs'
      have hndp : (p.map (fun s : Sequence => s.uuid)).Nodup := by
        rw [hD, List.map_append] at hnd
        exact (List.nodup_append.1 hnd).1
      exact find_map_of_nodup (fun s : Sequence => s.uuid) _ p hndp hs'p)
  rw [regSeqs, he, hd, h]; rfl

theorem regSeas_ok (st : Stores) (d : Doc) (he : st.seas = [])
    (hd : lst d.sound_event_annotations = (dedupBy (·.uuid) (seasOf os)).map (encSEA (tagTable os)))
    (hU : UsersOK os st) (hT : TagsOK os st) (hS : SesOK (relocated sd ld) os st) :
    regSeas st d = .ok { st with seas := (ideal os (relocated sd ld)).seas } := by
  have h := addAll_map' (·.uuid) (·.uuid) (encSEA (tagTable os))
    (SoundEventAnnotation.mapPath (relocated sd ld))
    (fun (_ : Store Atom SoundEventAnnotation) o => decSEA st o)
    (dedupBy (·.uuid) (seasOf os)) (fun _ => rfl) (dedupBy_nodup_keys _ _)
    (fun _ x hx => decSEA_enc cx hU hT hS (seasOf_mem.1 (dedupBy_subset _ hx)))
  rw [regSeas, he, hd, h]; rfl

theorem regSqas_ok (st : Stores) (d : Doc) (he : st.sqas = [])
    (hd : lst d.sequence_annotations = (dedupBy (·.uuid) (sqasOf os)).map (encSQA (tagTable os)))
    (hU : UsersOK os st) (hT : TagsOK os st) (hS : SeqsOK (relocated sd ld) os st) :
    regSqas st d = .ok { st with sqas := (ideal os (relocated sd ld)).sqas } := by
  have h := addAll_map' (·.uuid) (·.uuid) (encSQA (tagTable os))
    (SequenceAnnotation.mapPath (relocated sd ld))
    (fun (_ : Store Atom SequenceAnnotation) o => decSQA st o)
    (dedupBy (·.uuid) (sqasOf os)) (fun _ => rfl) (dedupBy_nodup_keys _ _)
    (fun _ x hx => decSQA_enc cx hU hT hS (sqasOf_mem.1 (dedupBy_subset _ hx)))
  rw [regSqas, he, hd, h]; rfl

theorem regSeps_ok (st : Stores) (d : Doc) (he : st.seps = [])
    (hd : lst d.sound_event_predictions = (dedupBy (·.uuid) (sepsOf os)).map (encSEP (tagTable os)))
    (hT : TagsOK os st) (hS : SesOK (relocated sd ld) os st) :
    regSeps st d = .ok { st with seps := (ideal os (relocated sd ld)).seps } := by
  have h := addAll_map' (·.uuid) (·.uuid) (encSEP (tagTable os))
    (SoundEventPrediction.mapPath (relocated sd ld))
    (fun (_ : Store Atom SoundEventPrediction) o => decSEP st o)
    (dedupBy (·.uuid) (sepsOf os)) (fun _ => rfl) (dedupBy_nodup_keys _ _)
    (fun _ x hx => decSEP_enc cx hT hS (sepsOf_mem.1 (dedupBy_subset _ hx)))
  rw [regSeps, he, hd, h]; rfl

theorem regSqps_ok (st : Stores) (d : Doc) (he : st.sqps = [])
    (hd : lst d.sequence_predictions = (dedupBy (·.uuid) (sqpsOf os)).map (encSQP (tagTable os)))
    (hT : TagsOK os st) (hS : SeqsOK (relocated sd ld) os st) :
    regSqps st d = .ok { st with sqps := (ideal os (relocated sd ld)).sqps } := by
  have h := addAll_map' (·.uuid) (·.uuid) (encSQP (tagTable os))
    (SequencePrediction.mapPath (relocated sd ld))
    (fun (_ : Store Atom SequencePrediction) o => decSQP st o)
    (dedupBy (·.uuid) (sqpsOf os)) (fun _ => rfl) (dedupBy_nodup_keys _ _)
    (fun _ x hx => decSQP_enc cx hT hS (sqpsOf_mem.1 (dedupBy_subset _ hx)))
  rw [regSqps, he, hd, h]; rfl

theorem regCas_ok (st : Stores) (d : Doc) (he : st.cas = [])
    (hd : lst d.clip_annotations = (dedupBy (·.uuid) (casOf os)).map (encCA (tagTable os)))
    (hU : UsersOK os st) (hT : TagsOK os st) (hC : ClipsOK (relocated sd ld) os st)
    (hA : SeasOK (relocated sd ld) os st) (hQ : SqasOK (relocated sd ld) os st) :
    regCas st d = .ok { st with cas := (ideal os (relocated sd ld)).cas } := by
  have h := addAll_map' (·.uuid) (·.uuid) (encCA (tagTable os))
    (ClipAnnotation.mapPath (relocated sd ld))
    (fun (_ : Store Atom ClipAnnotation) o => decCA st o)
    (dedupBy (·.uuid) (casOf os)) (fun _ => rfl) (dedupBy_nodup_keys _ _)
    (fun _ x hx => decCA_enc cx hU hT hC hA hQ (casOf_mem.1 (dedupBy_subset _ hx)))
  rw [regCas, he, hd, h]; rfl

theorem regCps_ok (st : Stores) (d : Doc) (he : st.cps = [])
    (hd : lst d.clip_predictions = (dedupBy (·.uuid) (cpsOf os)).map (encCP (tagTable os)))
    (hT : TagsOK os st) (hC : ClipsOK (relocated sd ld) os st)
    (hA : SepsOK (relocated sd ld) os st) (hQ : SqpsOK (relocated sd ld) os st) :
    regCps st d = .ok { st with cps := (ideal os (relocated sd ld)).cps } := by
  have h := addAll_map' (·.uuid) (·.uuid) (encCP (tagTable os))
    (ClipPrediction.mapPath (relocated sd ld))
    (fun (_ : Store Atom ClipPrediction) o => decCP st o)
    (dedupBy (·.uuid) (cpsOf os)) (fun _ => rfl) (dedupBy_nodup_keys _ _)
    (fun _ x hx => decCP_enc cx hT hC hA hQ (cpsOf_mem.1 (dedupBy_subset _ hx)))
  rw [regCps, he, hd, h]; rfl

theorem regMatches_ok (st : Stores) (d : Doc) (he : st.ms = [])
    (hd : lst d.«matches» = (dedupBy (·.uuid) (matchesOf os)).map encMatch)
    (hP : SepsOK (relocated sd ld) os st) (hA : SeasOK (relocated sd ld) os st) :
    regMatches st d = .ok { st with ms := (ideal os (relocated sd ld)).ms } := by
  have h := addAll_map' (·.uuid) (·.uuid) encMatch (Match.mapPath (relocated sd ld))
    (fun (_ : Store Atom Match) o => (pure (decMatch st o) : Except Err Match))
    (dedupBy (·.uuid) (matchesOf os)) (fun _ => rfl) (dedupBy_nodup_keys _ _)
    (fun _ x hx => congrArg Except.ok (decMatch_enc cx hP hA (matchesOf_mem.1 (dedupBy_subset _ hx))))
  rw [regMatches, he, hd, h]; rfl

end reg

/-! ### what the shared part of a written document contains -/
structure SharedFields (os : List Obj) (sd : Option PPath) (d : Doc) : Prop where
  users : lst d.users = (dedupBy (·.uuid) (usersOf os)).map encUser
  tags : lst d.tags = encTags (tagTable os)
  recs : lst d.recordings = (dedupBy (·.uuid) (recsOf os)).map (encRecordingT (tagTable os) sd)
  clips : lst d.clips = (dedupBy (·.uuid) (clipsOf os)).map encClip
  ses : lst d.sound_events = (dedupBy (·.uuid) (sesOf os)).map encSoundEvent
  seqs : lst d.sequences = (dedupBy (·.uuid) (seqsOf os)).map encSequence

structure AnnFields (os : List Obj) (d : Doc) : Prop where
  seas : lst d.sound_event_annotations = (dedupBy (·.uuid) (seasOf os)).map (encSEA (tagTable os))
  sqas : lst d.sequence_annotations = (dedupBy (·.uuid) (sqasOf os)).map (encSQA (tagTable os))

structure PredFields (os : List Obj) (d : Doc) : Prop where
  seps : lst d.sound_event_predictions = (dedupBy (·.uuid) (sepsOf os)).map (encSEP (tagTable os))
  sqps : lst d.sequence_predictions = (dedupBy (·.uuid) (sqpsOf os)).map (encSQP (tagTable os))

/-! ### stages of the loaders -/
namespace LP
def s1 (os : List Obj) (f : PPath → PPath) : Stores := { tags := (ideal os f).tags }
def s2 (os : List Obj) (f : PPath → PPath) : Stores := { s1 os f with users := (ideal os f).users }
def s3 (os : List Obj) (f : PPath → PPath) : Stores := { s2 os f with recs := (ideal os f).recs }
def s4 (os : List Obj) (f : PPath → PPath) : Stores := { s3 os f with ses := (ideal os f).ses }
def s5 (os : List Obj) (f : PPath → PPath) : Stores := { s4 os f with seqs := (ideal os f).seqs }
def s6 (os : List Obj) (f : PPath → PPath) : Stores := { s5 os f with clips := (ideal os f).clips }
def s7 (os : List Obj) (f : PPath → PPath) : Stores := { s6 os f with seps := (ideal os f).seps }
def s8 (os : List Obj) (f : PPath → PPath) : Stores := { s7 os f with sqps := (ideal os f).sqps }
end LP

namespace LE
def s1 (os : List Obj) (f : PPath → PPath) : Stores := { users := (ideal os f).users }
def s2 (os : List Obj) (f : PPath → PPath) : Stores := { s1 os f with tags := (ideal os f).tags }
def s3 (os : List Obj) (f : PPath → PPath) : Stores := { s2 os f with recs := (ideal os f).recs }
def s4 (os : List Obj) (f : PPath → PPath) : Stores := { s3 os f with ses := (ideal os f).ses }
def s5 (os : List Obj) (f : PPath → PPath) : Stores := { s4 os f with seqs := (ideal os f).seqs }
def s6 (os : List Obj) (f : PPath → PPath) : Stores := { s5 os f with clips := (ideal os f).clips }
def s7 (os : List Obj) (f : PPath → PPath) : Stores := { s6 os f with seas := (ideal os f).seas }
def s8 (os : List Obj) (f : PPath → PPath) : Stores := { s7 os f with sqas := (ideal os f).sqas }
def s9 (os : List Obj) (f : PPath → PPath) : Stores := { s8 os f with cas := (ideal os f).cas }
def s10 (os : List Obj) (f : PPath → PPath) : Stores := { s9 os f with seps := (ideal os f).seps }
def s11 (os : List Obj) (f : PPath → PPath) : Stores := { s10 os f with sqps := (ideal os f).sqps }
def s12 (os : List Obj) (f : PPath → PPath) : Stores := { s11 os f with cps := (ideal os f).cps }
def s13 (os : List Obj) (f : PPath → PPath) : Stores := { s12 os f with ms := (ideal os f).ms }
end LE

namespace LA
def s1 (os : List Obj) (f : PPath → PPath) : Stores := { users := (ideal os f).users }
def s2 (os : List Obj) (f : PPath → PPath) : Stores := { s1 os f with tags := (ideal os f).tags }
def s3 (os : List Obj) (f : PPath → PPath) : Stores := { s2 os f with recs := (ideal os f).recs }
def s4 (os : List Obj) (f : PPath → PPath) : Stores := { s3 os f with clips := (ideal os f).clips }
def s5 (os : List Obj) (f : PPath → PPath) : Stores := { s4 os f with ses := (ideal os f).ses }
def s6 (os : List Obj) (f : PPath → PPath) : Stores := { s5 os f with seqs := (ideal os f).seqs }
def s7 (os : List Obj) (f : PPath → PPath) : Stores := { s6 os f with seas := (ideal os f).seas }
def s8 (os : List Obj) (f : PPath → PPath) : Stores := { s7 os f with sqas := (ideal os f).sqas }
end LA

section loaders
variable {os : List Obj} {sd ld : Option PPath} (cx : Ctx os) (hpb : SeqPB [] os) (hp : PathsOK sd os)
include cx hpb hp

theorem loadAnnotations_ok (d : Doc) (cas : List ClipAnnotation)
    (hs : SharedFields os sd d) (ha : AnnFields os d)
    (hcas : lst d.clip_annotations = cas.map (encCA (tagTable os)))
    (hmem : ∀ a ∈ cas, Obj.clipAnn a ∈ os) (hnd : (cas.map (·.uuid)).Nodup) :
    ∃ st, loadAnnotations d ld = .ok (st, cas.map (·.mapPath (relocated sd ld)))
      ∧ UsersOK os st ∧ TagsOK os st ∧ ClipsOK (relocated sd ld) os st := by
  have e1 : regUsers {} d = .ok (LA.s1 os (relocated sd ld)) := regUsers_ok _ {} d rfl hs.users
  have e2 : regTags (LA.s1 os (relocated sd ld)) d = .ok (LA.s2 os (relocated sd ld)) :=
    regTags_ok _ _ d rfl hs.tags
  have e3 : regRecs (LA.s2 os (relocated sd ld)) ld d = .ok (LA.s3 os (relocated sd ld)) :=
    regRecs_ok cx hp _ d rfl hs.recs (usersOK_of cx rfl) (tagsOK_of rfl)
  have e4 : regClips (LA.s3 os (relocated sd ld)) d = .ok (LA.s4 os (relocated sd ld)) :=
    regClips_ok cx _ d rfl hs.clips (recsOK_of cx rfl)
  have e5 : regSes (LA.s4 os (relocated sd ld)) d = .ok (LA.s5 os (relocated sd ld)) :=
    regSes_ok cx _ d rfl hs.ses (recsOK_of cx rfl)
  have e6 : regSeqs (LA.s5 os (relocated sd ld)) d = .ok (LA.s6 os (relocated sd ld)) :=
    regSeqs_ok cx hpb _ d rfl hs.seqs (sesOK_of cx rfl)
  have e7 : regSeas (LA.s6 os (relocated sd ld)) d = .ok (LA.s7 os (relocated sd ld)) :=
    regSeas_ok cx _ d rfl ha.seas (usersOK_of cx rfl) (tagsOK_of rfl) (sesOK_of cx rfl)
  have e8 : regSqas (LA.s7 os (relocated sd ld)) d = .ok (LA.s8 os (relocated sd ld)) :=
    regSqas_ok cx _ d rfl ha.sqas (usersOK_of cx rfl) (tagsOK_of rfl) (seqsOK_of cx rfl)
  have e9 : convAll (·.uuid) (fun _ o => decCA (LA.s8 os (relocated sd ld)) o)
      (LA.s8 os (relocated sd ld)).cas (lst d.clip_annotations)
      = .ok (cas.map (fun y => (y.uuid, y.mapPath (relocated sd ld))),
             cas.map (·.mapPath (relocated sd ld))) := by
    have : (LA.s8 os (relocated sd ld)).cas = [] := rfl
    rw [this, hcas]
    exact convAll_map (·.uuid) (·.uuid) (encCA (tagTable os)) _ _ cas (fun _ => rfl) hnd
      (fun _ x hx => decCA_enc cx (usersOK_of cx rfl) (tagsOK_of rfl) (clipsOK_of cx rfl)
        (seasOK_of cx rfl) (sqasOK_of cx rfl) (hmem x hx))
  refine ⟨{ LA.s8 os (relocated sd ld) with
            cas := cas.map (fun y => (y.uuid, y.mapPath (relocated sd ld))) }, ?_,
          usersOK_of cx rfl, tagsOK_of rfl, clipsOK_of cx rfl⟩
  simp only [loadAnnotations, e1, e2, e3, e4, e5, e6, e7, e8, e9, bind, Except.bind, pure, Except.pure]

theorem loadPredictions_ok (d : Doc) (cps : List ClipPrediction)
    (hs : SharedFields os sd d) (ha : PredFields os d)
    (hcps : lst d.clip_predictions = cps.map (encCP (tagTable os)))
    (hmem : ∀ a ∈ cps, Obj.clipPred a ∈ os) (hnd : (cps.map (·.uuid)).Nodup) :
    ∃ st, loadPredictions d ld = .ok (st, cps.map (·.mapPath (relocated sd ld))) := by
  have e1 : regTags {} d = .ok (LP.s1 os (relocated sd ld)) := regTags_ok _ {} d rfl hs.tags
  have e2 : regUsers (LP.s1 os (relocated sd ld)) d = .ok (LP.s2 os (relocated sd ld)) :=
    regUsers_ok _ _ d rfl hs.users
  have e3 : regRecs (LP.s2 os (relocated sd ld)) ld d = .ok (LP.s3 os (relocated sd ld)) :=
    regRecs_ok cx hp _ d rfl hs.recs (usersOK_of cx rfl) (tagsOK_of rfl)
  have e4 : regSes (LP.s3 os (relocated sd ld)) d = .ok (LP.s4 os (relocated sd ld)) :=
    regSes_ok cx _ d rfl hs.ses (recsOK_of cx rfl)
  have e5 : regSeqs (LP.s4 os (relocated sd ld)) d = .ok (LP.s5 os (relocated sd ld)) :=
    regSeqs_ok cx hpb _ d rfl hs.seqs (sesOK_of cx rfl)
  have e6 : regClips (LP.s5 os (relocated sd ld)) d = .ok (LP.s6 os (relocated sd ld)) :=
    regClips_ok cx _ d rfl hs.clips (recsOK_of cx rfl)
  have e7 : regSeps (LP.s6 os (relocated sd ld)) d = .ok (LP.s7 os (relocated sd ld)) :=
    regSeps_ok cx _ d rfl ha.seps (tagsOK_of rfl) (sesOK_of cx rfl)
  have e8 : regSqps (LP.s7 os (relocated sd ld)) d = .ok (LP.s8 os (relocated sd ld)) :=
    regSqps_ok cx _ d rfl ha.sqps (tagsOK_of rfl) (seqsOK_of cx rfl)
  have e9 : convAll (·.uuid) (fun _ o => decCP (LP.s8 os (relocated sd ld)) o)
      (LP.s8 os (relocated sd ld)).cps (lst d.clip_predictions)
      = .ok (cps.map (fun y => (y.uuid, y.mapPath (relocated sd ld))),
             cps.map (·.mapPath (relocated sd ld))) := by
    have : (LP.s8 os (relocated sd ld)).cps = [] := rfl
    rw [this, hcps]
    exact convAll_map (·.uuid) (·.uuid) (encCP (tagTable os)) _ _ cps (fun _ => rfl) hnd
      (fun _ x hx => decCP_enc cx (tagsOK_of rfl) (clipsOK_of cx rfl)
        (sepsOK_of cx rfl) (sqpsOK_of cx rfl) (hmem x hx))
  refine ⟨{ LP.s8 os (relocated sd ld) with
            cps := cps.map (fun y => (y.uuid, y.mapPath (relocated sd ld))) }, ?_⟩
  simp only [loadPredictions, e1, e2, e3, e4, e5, e6, e7, e8, e9, bind, Except.bind, pure, Except.pure]

omit hpb in
theorem loadRecordings_ok (d : Doc) (recs : List Recording)
    (husers : lst d.users = (dedupBy (·.uuid) (usersOf os)).map encUser)
    (htags : lst d.tags = encTags (tagTable os))
    (hrecs : d.recordings = some (recs.map (encRecordingT (tagTable os) sd)))
    (hmem : ∀ a ∈ recs, Obj.recording a ∈ os) (hnd : (recs.map (·.uuid)).Nodup) :
    ∃ st, loadRecordings d ld = .ok (st, recs.map (·.mapPath (relocated sd ld))) := by
  have e1 : regTags {} d = .ok (LP.s1 os (relocated sd ld)) := regTags_ok _ {} d rfl htags
  have e2 : regUsers (LP.s1 os (relocated sd ld)) d = .ok (LP.s2 os (relocated sd ld)) :=
    regUsers_ok _ _ d rfl husers
  have e9 : convAll (·.uuid) (fun _ o => (Except.ok (decRecording (LP.s2 os (relocated sd ld)) ld o) : Except Err Recording))
      (LP.s2 os (relocated sd ld)).recs (recs.map (encRecordingT (tagTable os) sd))
      = .ok (recs.map (fun y => (y.uuid, y.mapPath (relocated sd ld))),
             recs.map (·.mapPath (relocated sd ld))) := by
    have : (LP.s2 os (relocated sd ld)).recs = [] := rfl
    rw [this]
    exact convAll_map (·.uuid) (·.uuid) (encRecordingT (tagTable os) sd)
      (Recording.mapPath (relocated sd ld))
      (fun _ o => (Except.ok (decRecording (LP.s2 os (relocated sd ld)) ld o) : Except Err Recording))
      recs (fun _ => rfl) hnd
      (fun _ x hx => congrArg Except.ok
        (decRecording_enc cx (usersOK_of cx rfl) (tagsOK_of rfl) (hmem x hx) (hp x (hmem x hx))))
  refine ⟨{ LP.s2 os (relocated sd ld) with
            recs := recs.map (fun y => (y.uuid, y.mapPath (relocated sd ld))) }, ?_⟩
  simp only [loadRecordings, e1, e2, hrecs, strict, e9, bind, Except.bind, pure, Except.pure]

theorem load_evaluation_ok (d : Doc) (ces : List ClipEvaluation) (task : Atom)
    (hty : d.collection_type = "evaluation") (htask : d.evaluation_task = some task)
    (hs : SharedFields os sd d) (ha : AnnFields os d) (hpf : PredFields os d)
    (hcas : lst d.clip_annotations = (dedupBy (·.uuid) (casOf os)).map (encCA (tagTable os)))
    (hcps : lst d.clip_predictions = (dedupBy (·.uuid) (cpsOf os)).map (encCP (tagTable os)))
    (hms : lst d.«matches» = (dedupBy (·.uuid) (matchesOf os)).map encMatch)
    (hces : lst d.clip_evaluations = ces.map encCE)
    (hmem : ∀ a ∈ ces, Obj.clipEval a ∈ os) (hnd : (ces.map (·.uuid)).Nodup) :
    load d ld = .ok (.evaluation ⟨d.uuid, d.created_on.getD nowTok, task,
      ces.map (·.mapPath (relocated sd ld)), items d.metrics, d.score⟩) := by
  have e1 : regUsers {} d = .ok (LE.s1 os (relocated sd ld)) := regUsers_ok _ {} d rfl hs.users
  have e2 : regTags (LE.s1 os (relocated sd ld)) d = .ok (LE.s2 os (relocated sd ld)) :=
    regTags_ok _ _ d rfl hs.tags
  have e3 : regRecs (LE.s2 os (relocated sd ld)) ld d = .ok (LE.s3 os (relocated sd ld)) :=
    regRecs_ok cx hp _ d rfl hs.recs (usersOK_of cx rfl) (tagsOK_of rfl)
  have e4 : regSes (LE.s3 os (relocated sd ld)) d = .ok (LE.s4 os (relocated sd ld)) :=
    regSes_ok cx _ d rfl hs.ses (recsOK_of cx rfl)
  have e5 : regSeqs (LE.s4 os (relocated sd ld)) d = .ok (LE.s5 os (relocated sd ld)) :=
    regSeqs_ok cx hpb _ d rfl hs.seqs (sesOK_of cx rfl)
  have e6 : regClips (LE.s5 os (relocated sd ld)) d = .ok (LE.s6 os (relocated sd ld)) :=
    regClips_ok cx _ d rfl hs.clips (recsOK_of cx rfl)
  have e7 : regSeas (LE.s6 os (relocated sd ld)) d = .ok (LE.s7 os (relocated sd ld)) :=
    regSeas_ok cx _ d rfl ha.seas (usersOK_of cx rfl) (tagsOK_of rfl) (sesOK_of cx rfl)
  have e8 : regSqas (LE.s7 os (relocated sd ld)) d = .ok (LE.s8 os (relocated sd ld)) :=
    regSqas_ok cx _ d rfl ha.sqas (usersOK_of cx rfl) (tagsOK_of rfl) (seqsOK_of cx rfl)
  have e9 : regCas (LE.s8 os (relocated sd ld)) d = .ok (LE.s9 os (relocated sd ld)) :=
    regCas_ok cx _ d rfl hcas (usersOK_of cx rfl) (tagsOK_of rfl) (clipsOK_of cx rfl)
      (seasOK_of cx rfl) (sqasOK_of cx rfl)
  have e10 : regSeps (LE.s9 os (relocated sd ld)) d = .ok (LE.s10 os (relocated sd ld)) :=
    regSeps_ok cx _ d rfl hpf.seps (tagsOK_of rfl) (sesOK_of cx rfl)
  have e11 : regSqps (LE.s10 os (relocated sd ld)) d = .ok (LE.s11 os (relocated sd ld)) :=
    regSqps_ok cx _ d rfl hpf.sqps (tagsOK_of rfl) (seqsOK_of cx rfl)
  have e12 : regCps (LE.s11 os (relocated sd ld)) d = .ok (LE.s12 os (relocated sd ld)) :=
    regCps_ok cx _ d rfl hcps (tagsOK_of rfl) (clipsOK_of cx rfl) (sepsOK_of cx rfl) (sqpsOK_of cx rfl)
  have e13 : regMatches (LE.s12 os (relocated sd ld)) d = .ok (LE.s13 os (relocated sd ld)) :=
    regMatches_ok cx _ d rfl hms (sepsOK_of cx rfl) (seasOK_of cx rfl)
  have e14 : convAll (·.uuid) (fun _ o => decCE (LE.s13 os (relocated sd ld)) o)
      [] (lst d.clip_evaluations)
      = .ok (ces.map (fun y => (y.uuid, y.mapPath (relocated sd ld))),
             ces.map (·.mapPath (relocated sd ld))) := by
    rw [hces]
    exact convAll_map (·.uuid) (·.uuid) encCE _ _ ces (fun _ => rfl) hnd
      (fun _ x hx => decCE_enc cx (casOK_of cx rfl) (cpsOK_of cx rfl) (msOK_of cx rfl) (hmem x hx))
  simp only [load, hty, htask, strict, e1, e2, e3, e4, e5, e6, e7, e8, e9, e10, e11, e12, e13, e14,
    bind, Except.bind, pure, Except.pure]

end loaders
