/-
  Helper lemmas for C07 (`Proofs/C07.lean`): the brute-force optimum bounds every
  partial injection and is attained; the loop of `_select_matches` in closed form;
  the cover lemma.
-/
import SoundeventModel.Matching
namespace SE.Matching

/-! ### sums and permutations -/

theorem sum_perm {xs ys : List Rat} (h : xs.Perm ys) : xs.sum = ys.sum := by
  induction h with
  | nil => rfl
  | cons x _ ih => simp [ih]
  | swap x y l => simp only [List.sum_cons]; grind
  | trans _ _ ih1 ih2 => exact ih1.trans ih2

theorem value_perm (aff : Mat) {ps qs : List (Nat × Nat)} (h : ps.Perm qs) :
    value aff ps = value aff qs := by
  unfold value
  exact sum_perm (h.map _)

theorem value_nil (aff : Mat) : value aff [] = 0 := by simp [value]

theorem value_cons (aff : Mat) (p : Nat × Nat) (ps : List (Nat × Nat)) :
    value aff (p :: ps) = aff p.1 p.2 + value aff ps := by simp [value]

/-! ### `maxOver` -/

theorem le_maxOver_base (base : Rat) (xs : List Rat) : base ≤ maxOver base xs := by
  induction xs generalizing base with
  | nil => simp [maxOver]
  | cons x xs ih =>
    simp only [maxOver, List.foldl_cons]
    exact Rat.le_trans (by grind) (ih (max base x))

theorem le_maxOver_mem (base : Rat) (xs : List Rat) (x : Rat) (h : x ∈ xs) : x ≤ maxOver base xs := by
  induction xs generalizing base with
  | nil => cases h
  | cons y ys ih =>
    simp only [maxOver, List.foldl_cons]
    rcases List.mem_cons.1 h with h | h
    · subst h; exact Rat.le_trans (by grind) (le_maxOver_base (max base x) ys)
    · exact ih (max base y) h

theorem maxOver_eq_base_or_mem (base : Rat) (xs : List Rat) :
    maxOver base xs = base ∨ maxOver base xs ∈ xs := by
  induction xs generalizing base with
  | nil => left; simp [maxOver]
  | cons x xs ih =>
    simp only [maxOver, List.foldl_cons]
    rcases ih (max base x) with h | h
    · simp only [maxOver] at h
      rw [h]
      by_cases hx : base ≤ x
      · right; rw [Rat.max_def]; simp [hx]
      · left; rw [Rat.max_def]; simp [hx]
    · right; exact List.mem_cons_of_mem _ h

/-! ### partial injections -/

/-- a one-to-one pairing of rows `< k` with columns `< m` that avoids the columns in `used` -/
structure Matching (k m : Nat) (used : List Nat) (ps : List (Nat × Nat)) : Prop where
  rows_lt : ∀ p ∈ ps, p.1 < k
  cols_lt : ∀ p ∈ ps, p.2 < m
  cols_free : ∀ p ∈ ps, p.2 ∉ used
  rows_nodup : (ps.map Prod.fst).Nodup
  cols_nodup : (ps.map Prod.snd).Nodup

/-- a partial injection from `{0..n-1}` to `{0..m-1}`, as a list of pairs: the candidates
    of the optimality statement, and scipy's contract for its answer -/
structure PartialInjection (n m : Nat) (ps : List (Nat × Nat)) : Prop where
  rows_lt : ∀ p ∈ ps, p.1 < n
  cols_lt : ∀ p ∈ ps, p.2 < m
  rows_nodup : (ps.map Prod.fst).Nodup
  cols_nodup : (ps.map Prod.snd).Nodup

theorem PartialInjection.matching {n m ps} (h : PartialInjection n m ps) : Matching n m [] ps :=
  ⟨h.rows_lt, h.cols_lt, fun _ _ => by simp, h.rows_nodup, h.cols_nodup⟩

theorem Matching.partialInjection {k m used ps} (h : Matching k m used ps) : PartialInjection k m ps :=
  ⟨h.rows_lt, h.cols_lt, h.rows_nodup, h.cols_nodup⟩

theorem best_upper (aff : Mat) (m : Nat) : ∀ (k : Nat) (used : List Nat) (ps : List (Nat × Nat)),
    Matching k m used ps → value aff ps ≤ best aff m k used := by
  intro k
  induction k with
  | zero =>
    intro used ps h
    have : ps = [] := by
      cases ps with
      | nil => rfl
      | cons p ps => exact absurd (h.rows_lt p (by simp)) (by omega)
    subst this; simp [value, best]
  | succ k ih =>
    intro used ps h
    by_cases hk : ∃ p ∈ ps, p.1 = k
    · obtain ⟨p, hp, hpk⟩ := hk
      obtain ⟨qs, hperm⟩ : ∃ qs, ps.Perm (p :: qs) := ⟨ps.erase p, List.perm_cons_erase hp⟩
      have hval : value aff ps = aff p.1 p.2 + value aff qs := by
        rw [value_perm aff hperm]; simp [value]
      have hrows : ((p :: qs).map Prod.fst).Nodup := (hperm.map _).nodup_iff.1 h.rows_nodup
      have hcols : ((p :: qs).map Prod.snd).Nodup := (hperm.map _).nodup_iff.1 h.cols_nodup
      have hq : Matching k m (p.2 :: used) qs := by
        refine ⟨?_, ?_, ?_, ?_, ?_⟩
        · intro q hq
          have h1 := h.rows_lt q (hperm.mem_iff.2 (List.mem_cons_of_mem _ hq))
          have h2 : q.1 ≠ p.1 := by
            intro e
            simp only [List.map_cons, List.nodup_cons, List.mem_map] at hrows
            exact hrows.1 ⟨q, hq, e⟩
          omega
        · intro q hq; exact h.cols_lt q (hperm.mem_iff.2 (List.mem_cons_of_mem _ hq))
        · intro q hq
          have h1 := h.cols_free q (hperm.mem_iff.2 (List.mem_cons_of_mem _ hq))
          have h2 : q.2 ≠ p.2 := by
            intro e
            simp only [List.map_cons, List.nodup_cons, List.mem_map] at hcols
            exact hcols.1 ⟨q, hq, e⟩
          simp [h1, h2]
        · simp only [List.map_cons, List.nodup_cons] at hrows; exact hrows.2
        · simp only [List.map_cons, List.nodup_cons] at hcols; exact hcols.2
      have hrec := ih (p.2 :: used) qs hq
      have hmem : aff k p.2 + best aff m k (p.2 :: used) ∈
          (((List.range m).filter (fun j => !used.contains j)).map
            (fun j => aff k j + best aff m k (j :: used))) := by
        refine List.mem_map.2 ⟨p.2, ?_, rfl⟩
        simp [List.mem_filter, h.cols_lt p hp, h.cols_free p hp]
      have := le_maxOver_mem (best aff m k used) _ _ hmem
      rw [hval, hpk]
      simp only [best]
      grind
    · have hq : Matching k m used ps := by
        refine ⟨?_, h.cols_lt, h.cols_free, h.rows_nodup, h.cols_nodup⟩
        intro p hp
        have := h.rows_lt p hp
        have : p.1 ≠ k := fun e => hk ⟨p, hp, e⟩
        omega
      have := ih used ps hq
      simp only [best]
      exact Rat.le_trans this (le_maxOver_base _ _)

theorem Matching.mono_rows {k m used ps} (h : Matching k m used ps) : Matching (k + 1) m used ps :=
  ⟨fun p hp => Nat.lt_succ_of_lt (h.rows_lt p hp), h.cols_lt, h.cols_free, h.rows_nodup, h.cols_nodup⟩

/-- the brute-force value is the value of some partial injection -/
theorem best_attained (aff : Mat) (m : Nat) : ∀ (k : Nat) (used : List Nat),
    ∃ ps, Matching k m used ps ∧ value aff ps = best aff m k used := by
  intro k
  induction k with
  | zero =>
    intro used
    exact ⟨[], ⟨by simp, by simp, by simp, by simp, by simp⟩, by simp [value, best]⟩
  | succ k ih =>
    intro used
    simp only [best]
    rcases maxOver_eq_base_or_mem (best aff m k used)
      (((List.range m).filter (fun j => !used.contains j)).map
        (fun j => aff k j + best aff m k (j :: used))) with h | h
    · obtain ⟨ps, hps, hv⟩ := ih used
      exact ⟨ps, hps.mono_rows, by rw [h, hv]⟩
    · obtain ⟨j, hj, hje⟩ := List.mem_map.1 h
      simp only [List.mem_filter, List.mem_range, Bool.not_eq_true', List.contains_eq_mem,
        decide_eq_false_iff_not] at hj
      obtain ⟨ps, hps, hv⟩ := ih (j :: used)
      refine ⟨(k, j) :: ps, ⟨?_, ?_, ?_, ?_, ?_⟩, ?_⟩
      · intro p hp
        rcases List.mem_cons.1 hp with rfl | hp
        · exact Nat.lt_succ_self _
        · exact Nat.lt_succ_of_lt (hps.rows_lt p hp)
      · intro p hp
        rcases List.mem_cons.1 hp with rfl | hp
        · exact hj.1
        · exact hps.cols_lt p hp
      · intro p hp
        rcases List.mem_cons.1 hp with rfl | hp
        · exact hj.2
        · have := hps.cols_free p hp
          simp only [List.mem_cons, not_or] at this
          exact this.2
      · simp only [List.map_cons, List.nodup_cons, List.mem_map, not_exists, not_and]
        refine ⟨?_, hps.rows_nodup⟩
        intro q hq e
        have := hps.rows_lt q hq
        omega
      · simp only [List.map_cons, List.nodup_cons, List.mem_map, not_exists, not_and]
        refine ⟨?_, hps.cols_nodup⟩
        intro q hq e
        have := hps.cols_free q hq
        simp only [List.mem_cons, not_or] at this
        exact this.1 e
      · rw [value_cons, hv, ← hje]

/-! ### scipy's contract, executable and as a proposition -/

theorem nodupB_iff (l : List Nat) : nodupB l = true ↔ l.Nodup := by
  induction l with
  | nil => simp [nodupB]
  | cons x xs ih => simp [nodupB, ih]

theorem validAssignment_iff (n m : Nat) (ps : List (Nat × Nat)) :
    validAssignment n m ps = true ↔ PartialInjection n m ps := by
  unfold validAssignment
  simp only [Bool.and_eq_true, List.all_eq_true, decide_eq_true_eq, nodupB_iff]
  constructor
  · rintro ⟨⟨h1, h2⟩, h3⟩
    exact ⟨fun p hp => (h1 p hp).1, fun p hp => (h1 p hp).2, h2, h3⟩
  · intro h
    exact ⟨⟨fun p hp => ⟨h.rows_lt p hp, h.cols_lt p hp⟩, h.rows_nodup⟩, h.cols_nodup⟩

/-! ### the loop of `_select_matches` -/

theorem keptPairs_cons_neg (aff : Mat) (p : Nat × Nat) (rest) (h : aff p.1 p.2 ≤ 0) :
    keptPairs aff (p :: rest) = keptPairs aff rest := by
  have : ¬ (0 < aff p.1 p.2) := Rat.not_lt.2 h
  simp [keptPairs, this]

theorem keptPairs_cons_pos (aff : Mat) (p : Nat × Nat) (rest) (h : ¬ aff p.1 p.2 ≤ 0) :
    keptPairs aff (p :: rest) = p :: keptPairs aff rest := by
  have : 0 < aff p.1 p.2 := Rat.not_le.1 h
  simp [keptPairs, this]

theorem keptPairs_sublist (aff : Mat) (ps) : (keptPairs aff ps).Sublist ps := by
  unfold keptPairs; exact List.filter_sublist

/-- the loop of `_select_matches` in closed form, for a valid assignment whose rows and
    columns are all still available -/
theorem assignLoop_closed (n m : Nat) (aff : Mat) : ∀ (assigned : List (Nat × Nat)) (rows cols : List Nat),
    (∀ p ∈ assigned, p.1 < n ∧ p.2 < m) →
    (assigned.map Prod.fst).Nodup → (assigned.map Prod.snd).Nodup →
    rows.Nodup → cols.Nodup →
    (∀ p ∈ assigned, p.1 ∈ rows ∧ p.2 ∈ cols) →
    assignLoop n m aff assigned rows cols =
      .ok (keptPairs aff assigned,
           rows.filter (fun i => !((keptPairs aff assigned).map Prod.fst).contains i),
           cols.filter (fun j => !((keptPairs aff assigned).map Prod.snd).contains j)) := by
  intro assigned
  induction assigned with
  | nil =>
    intro rows cols _ _ _ _ _ _
    have ht : ∀ l : List Nat, l.filter (fun _ => true) = l := fun l => List.filter_eq_self.2 (by simp)
    simp [assignLoop, keptPairs, ht]
  | cons p rest ih =>
    intro rows cols hlt hr hc hrows hcols hmem
    obtain ⟨r, c⟩ := p
    have hrc := hlt (r, c) (by simp)
    have hlt' : ∀ p ∈ rest, p.1 < n ∧ p.2 < m := fun p hp => hlt p (List.mem_cons_of_mem _ hp)
    simp only [List.map_cons, List.nodup_cons] at hr hc
    have hng : ¬ (n ≤ r ∨ m ≤ c) := by omega
    simp only [assignLoop, hng, if_false]
    by_cases hz : aff r c ≤ 0
    · simp only [hz, if_true]
      rw [keptPairs_cons_neg aff (r, c) rest hz]
      exact ih rows cols hlt' hr.2 hc.2 hrows hcols (fun p hp => hmem p (List.mem_cons_of_mem _ hp))
    · have hrin := (hmem (r, c) (by simp)).1
      have hcin := (hmem (r, c) (by simp)).2
      simp only [hz, if_false, List.contains_eq_mem, hrin, hcin, decide_true, Bool.not_true,
        Bool.false_eq_true]
      rw [keptPairs_cons_pos aff (r, c) rest hz]
      have hmem' : ∀ p ∈ rest, p.1 ∈ rows.erase r ∧ p.2 ∈ cols.erase c := by
        intro p hp
        have h1 : p.1 ≠ r := fun e => hr.1 (List.mem_map.2 ⟨p, hp, e⟩)
        have h2 : p.2 ≠ c := fun e => hc.1 (List.mem_map.2 ⟨p, hp, e⟩)
        have := hmem p (List.mem_cons_of_mem _ hp)
        exact ⟨(List.mem_erase_of_ne h1).2 this.1, (List.mem_erase_of_ne h2).2 this.2⟩
      rw [ih (rows.erase r) (cols.erase c) hlt' hr.2 hc.2 (hrows.erase r) (hcols.erase c) hmem']
      simp only [hrows.erase_eq_filter, hcols.erase_eq_filter, List.filter_filter, List.map_cons]
      congr 3
      · apply List.filter_congr; intro i _; simp; grind
      · apply List.filter_congr; intro i _; simp; grind

theorem PartialInjection.sublist {n m ps qs} (h : PartialInjection n m ps) (hs : qs.Sublist ps) :
    PartialInjection n m qs :=
  ⟨fun p hp => h.rows_lt p (hs.subset hp), fun p hp => h.cols_lt p (hs.subset hp),
   (h.rows_nodup).sublist (hs.map _), (h.cols_nodup).sublist (hs.map _)⟩

theorem selectMatches_eq_closed (n m : Nat) (aff : Mat) (assigned : List (Nat × Nat))
    (h : PartialInjection n m assigned) :
    selectMatches n m aff assigned = .ok (closedForm n m aff assigned) := by
  unfold selectMatches closedForm
  rw [assignLoop_closed n m aff assigned (List.range n) (List.range m)
    (fun p hp => ⟨h.rows_lt p hp, h.cols_lt p hp⟩) h.rows_nodup h.cols_nodup
    List.nodup_range List.nodup_range
    (fun p hp => ⟨List.mem_range.2 (h.rows_lt p hp), List.mem_range.2 (h.cols_lt p hp)⟩)]

theorem srcs_emit (aff : Mat) (ps : List (Nat × Nat)) (rows cols : List Nat) :
    srcs (emit aff ps rows cols) = ps.map Prod.fst ++ rows := by
  simp [srcs, emit, List.filterMap_append, List.filterMap_map, Function.comp_def, pairEntry, srcOnly, tgtOnly]

theorem tgts_emit (aff : Mat) (ps : List (Nat × Nat)) (rows cols : List Nat) :
    tgts (emit aff ps rows cols) = ps.map Prod.snd ++ cols := by
  simp [tgts, emit, List.filterMap_append, List.filterMap_map, Function.comp_def, pairEntry, srcOnly, tgtOnly]

theorem perm_append_filter_not_mem (l xs : List Nat) (hl : l.Nodup) (hxs : xs.Nodup)
    (hsub : ∀ a ∈ l, a ∈ xs) : (l ++ xs.filter (fun i => !l.contains i)).Perm xs := by
  refine (List.perm_ext_iff_of_nodup ?_ hxs).2 ?_
  · refine List.nodup_append.2 ⟨hl, hxs.sublist List.filter_sublist, ?_⟩
    intro a ha b hb e
    subst e
    simp [List.mem_filter] at hb
    exact hb.2 ha
  · intro a
    simp only [List.mem_append, List.mem_filter, List.contains_eq_mem, Bool.not_eq_true',
      decide_eq_false_iff_not]
    constructor
    · rintro (h | h)
      · exact hsub a h
      · exact h.1
    · intro h
      by_cases ha : a ∈ l
      · exact Or.inl ha
      · exact Or.inr ⟨h, ha⟩

theorem sum_map_zero {α} (l : List α) : (l.map (fun _ => (0 : Rat))).sum = 0 := by
  induction l with
  | nil => rfl
  | cons x xs ih => simp only [List.map_cons, List.sum_cons, ih]; grind

theorem total_emit (aff : Mat) (ps : List (Nat × Nat)) (rows cols : List Nat) :
    total (emit aff ps rows cols) = value aff ps := by
  simp only [total, emit, value, List.map_append, List.map_map, List.sum_append, Function.comp_def,
    pairEntry, srcOnly, tgtOnly, sum_map_zero]
  grind

theorem value_le_keptPairs (aff : Mat) (ps : List (Nat × Nat)) :
    value aff ps ≤ value aff (keptPairs aff ps) := by
  induction ps with
  | nil => simp [keptPairs, value]
  | cons p ps ih =>
    by_cases hz : aff p.1 p.2 ≤ 0
    · rw [keptPairs_cons_neg aff p ps hz, value_cons]; grind
    · rw [keptPairs_cons_pos aff p ps hz, value_cons, value_cons]; grind

theorem keptPairs_pos (aff : Mat) (ps : List (Nat × Nat)) : ∀ p ∈ keptPairs aff ps, 0 < aff p.1 p.2 := by
  intro p hp
  simp [keptPairs, List.mem_filter] at hp
  exact hp.2

/-! ### review additions: duality certificate, matrix-fill loop -/
theorem sum_nonneg (l : List Rat) (h : ∀ x ∈ l, 0 ≤ x) : 0 ≤ l.sum := by
  induction l with
  | nil => simp
  | cons x xs ih =>
    have h1 := h x (by simp)
    have h2 := ih (fun y hy => h y (List.mem_cons_of_mem _ hy))
    simp only [List.sum_cons]; grind

theorem sum_map_le_sumRange (f : Nat → Rat) (n : Nat) (l : List Nat) (hl : l.Nodup)
    (hlt : ∀ a ∈ l, a < n) (hf : ∀ i, i < n → 0 ≤ f i) : (l.map f).sum ≤ sumRange n f := by
  have hp := perm_append_filter_not_mem l (List.range n) hl List.nodup_range
    (fun a ha => List.mem_range.2 (hlt a ha))
  have hs := sum_perm (hp.map f)
  simp only [List.map_append, List.sum_append] at hs
  have hrest : 0 ≤ (((List.range n).filter (fun i => !l.contains i)).map f).sum := by
    apply sum_nonneg
    intro x hx
    obtain ⟨i, hi, rfl⟩ := List.mem_map.1 hx
    exact hf i (List.mem_range.1 (List.mem_filter.1 hi).1)
  unfold sumRange; grind

theorem value_le_potentials (aff : Mat) (u v : Nat → Rat) (M : List (Nat × Nat))
    (h : ∀ p ∈ M, aff p.1 p.2 ≤ u p.1 + v p.2) :
    value aff M ≤ ((M.map Prod.fst).map u).sum + ((M.map Prod.snd).map v).sum := by
  induction M with
  | nil => simp [value]; grind
  | cons p ps ih =>
    have h1 := h p (by simp)
    have h2 := ih (fun q hq => h q (List.mem_cons_of_mem _ hq))
    rw [value_cons]
    simp only [List.map_cons, List.sum_cons]
    grind

theorem dualFeasible_iff (n m : Nat) (aff : Mat) (u v : Nat → Rat) :
    dualFeasible n m aff u v = true ↔
      (∀ i, i < n → 0 ≤ u i) ∧ (∀ j, j < m → 0 ≤ v j) ∧ (∀ i j, i < n → j < m → aff i j ≤ u i + v j) := by
  simp only [dualFeasible, Bool.and_eq_true, List.all_eq_true, List.mem_range, decide_eq_true_eq]
  constructor
  · rintro ⟨⟨h1, h2⟩, h3⟩; exact ⟨h1, h2, fun i j hi hj => h3 i hi j hj⟩
  · rintro ⟨h1, h2, h3⟩; exact ⟨⟨h1, h2⟩, fun i hi j hj => h3 i j hi hj⟩

/-- weak duality: feasible non-negative potentials bound every one-to-one pairing -/
theorem weak_duality (n m : Nat) (aff : Mat) (u v : Nat → Rat) (M : List (Nat × Nat))
    (hf : dualFeasible n m aff u v = true) (hM : PartialInjection n m M) :
    value aff M ≤ dualBound n m u v := by
  obtain ⟨hu, hv, huv⟩ := (dualFeasible_iff n m aff u v).1 hf
  have h1 := value_le_potentials aff u v M (fun p hp => huv p.1 p.2 (hM.rows_lt p hp) (hM.cols_lt p hp))
  have h2 := sum_map_le_sumRange u n (M.map Prod.fst) hM.rows_nodup
    (fun a ha => by obtain ⟨p, hp, rfl⟩ := List.mem_map.1 ha; exact hM.rows_lt p hp) hu
  have h3 := sum_map_le_sumRange v m (M.map Prod.snd) hM.cols_nodup
    (fun a ha => by obtain ⟨p, hp, rfl⟩ := List.mem_map.1 ha; exact hM.cols_lt p hp) hv
  unfold dualBound; grind



/-! ### the matrix-fill loop -/

structure Shape (n m : Nat) (g : Grid) : Prop where
  rows : g.length = n
  cols : ∀ r ∈ g, r.length = m

theorem shape_zeros (n m : Nat) : Shape n m (zeros n m) := by
  constructor
  · simp [zeros]
  · intro r hr; simp [zeros] at hr; rw [hr.2]; simp

theorem shape_setCell {n m g} (h : Shape n m g) (i j : Nat) (x : Rat) : Shape n m (setCell g i j x) := by
  constructor
  · simp [setCell, h.rows]
  · intro r hr
    obtain ⟨k, hk, rfl⟩ := List.getElem_of_mem hr
    have hk' : k < g.length := by simpa [setCell] using hk
    have := List.getElem?_modify (fun r => r.set j x) i g k
    have hg : (setCell g i j x)[k]? = some ((setCell g i j x)[k]) := List.getElem?_eq_getElem hk
    simp only [setCell] at hg ⊢
    rw [this, List.getElem?_eq_getElem hk'] at hg
    simp only [Option.map_eq_map, Option.map_some, Option.some.injEq] at hg
    rw [← hg]
    split <;> simp [h.cols _ (List.getElem_mem hk')]

theorem read_setCell (g : Grid) (i j i' j' : Nat) (x : Rat) :
    matOfRows (setCell g i j x) i' j' =
      if i = i' ∧ j = j' ∧ i < g.length ∧ j < (g.getD i []).length then x else matOfRows g i' j' := by
  simp only [matOfRows, setCell, List.getD_eq_getElem?_getD, List.getElem?_modify]
  by_cases hi : i = i'
  · subst hi
    by_cases hlt : i < g.length
    · simp only [List.getElem?_eq_getElem hlt, Option.map_eq_map, Option.map_some, if_true,
        Option.getD_some, List.getElem?_set]
      by_cases hj : j = j'
      · subst hj; by_cases hjl : j < g[i].length <;> simp [hlt, hjl]
      · simp [hj]
    · have : g[i]? = none := List.getElem?_eq_none (by omega)
      simp [hlt]
  · have : (fun a : List Rat => if i = i' then a.set j x else a) = id := by funext a; simp [hi]
    simp [hi]

theorem fold_read_untouched (cells : List (Nat × Nat × Rat)) (g : Grid) (i j : Nat)
    (h : ∀ c ∈ cells, ¬ (c.1 = i ∧ c.2.1 = j)) :
    matOfRows (cells.foldl (fun g c => setCell g c.1 c.2.1 c.2.2) g) i j = matOfRows g i j := by
  induction cells generalizing g with
  | nil => rfl
  | cons c cs ih =>
    simp only [List.foldl_cons]
    rw [ih _ (fun d hd => h d (List.mem_cons_of_mem _ hd)), read_setCell]
    have := h c (by simp)
    simp only [ite_eq_right_iff]
    intro hh; exact absurd ⟨hh.1, hh.2.1⟩ this

theorem fold_read_written (n m : Nat) (cells : List (Nat × Nat × Rat)) (g : Grid) (i j : Nat) (x : Rat)
    (hg : Shape n m g) (hi : i < n) (hj : j < m)
    (hmem : ∃ c ∈ cells, c.1 = i ∧ c.2.1 = j)
    (huniq : ∀ c ∈ cells, c.1 = i → c.2.1 = j → c.2.2 = x) :
    matOfRows (cells.foldl (fun g c => setCell g c.1 c.2.1 c.2.2) g) i j = x := by
  induction cells generalizing g with
  | nil => obtain ⟨c, hc, _⟩ := hmem; cases hc
  | cons c cs ih =>
    simp only [List.foldl_cons]
    by_cases hrest : ∃ d ∈ cs, d.1 = i ∧ d.2.1 = j
    · exact ih _ (shape_setCell hg _ _ _) hrest (fun d hd => huniq d (List.mem_cons_of_mem _ hd))
    · have hc : c.1 = i ∧ c.2.1 = j := by
        obtain ⟨d, hd, hd'⟩ := hmem
        rcases List.mem_cons.1 hd with rfl | hd
        · exact hd'
        · exact absurd ⟨d, hd, hd'⟩ hrest
      rw [fold_read_untouched cs _ i j (fun d hd hh => hrest ⟨d, hd, hh⟩), read_setCell]
      have hx := huniq c (by simp) hc.1 hc.2
      have hlen : i < g.length := by rw [hg.rows]; exact hi
      have hrow : (g.getD i []).length = m := by
        rw [List.getD_eq_getElem?_getD, List.getElem?_eq_getElem hlen]
        exact hg.cols _ (List.getElem_mem hlen)
      rw [if_pos]
      · exact hx
      · exact ⟨hc.1, hc.2, by rw [hc.1]; exact hlen, by rw [hc.1, hc.2, hrow]; exact hj⟩

theorem mem_fillCells {G : Type} (affinity : G → G → Rat) (src tgt : List G) (c : Nat × Nat × Rat) :
    c ∈ fillCells affinity src tgt ↔
      ∃ a b, src[c.1]? = some a ∧ tgt[c.2.1]? = some b ∧ c.2.2 = affinity a b := by
  simp only [fillCells, List.mem_flatMap, List.mem_map, List.mem_zipIdx_iff_getElem?, Prod.exists]
  constructor
  · rintro ⟨a, i, ha, b, j, hb, rfl⟩; exact ⟨a, b, ha, hb, rfl⟩
  · rintro ⟨a, b, ha, hb, hc⟩
    exact ⟨a, c.1, ha, b, c.2.1, hb, by rw [← hc]⟩

/-- the filled matrix is the table of affinities -/
theorem fillMatrix_read {G : Type} (affinity : G → G → Rat) (src tgt : List G) (i j : Nat)
    (hi : i < src.length) (hj : j < tgt.length) :
    matOfRows (fillMatrix affinity src tgt) i j = affinity src[i] tgt[j] := by
  unfold fillMatrix
  apply fold_read_written src.length tgt.length _ _ i j _ (shape_zeros _ _) hi hj
  · refine ⟨(i, j, affinity src[i] tgt[j]), ?_, rfl, rfl⟩
    rw [mem_fillCells]
    exact ⟨src[i], tgt[j], List.getElem?_eq_getElem hi, List.getElem?_eq_getElem hj, rfl⟩
  · intro c hc h1 h2
    rw [mem_fillCells] at hc
    obtain ⟨a, b, ha, hb, hv⟩ := hc
    rw [h1, List.getElem?_eq_getElem hi] at ha
    rw [h2, List.getElem?_eq_getElem hj] at hb
    cases ha; cases hb; exact hv

end SE.Matching
