/-
  Helper lemmas for C18 (second review): well-formedness of what `parse` produces and of what
  `relativeTo` / `join` make of well-formed paths, so that `parse ∘ render` is the identity on every
  path the recording adapter writes to / reads from a document.
-/
import Proofs.Lemmas.Paths
namespace SE.Paths

/-- no piece of `splitOnP p` contains an element satisfying `p` -/
theorem splitOnP_no_sep {α : Type} (p : α → Bool) :
    ∀ (xs : List α), ∀ l ∈ xs.splitOnP p, ∀ x ∈ l, p x = false
  | [] => by
    intro l hl x hx
    rw [List.splitOnP_nil] at hl
    simp only [List.mem_singleton] at hl
    subst hl
    cases hx
  | y :: ys => by
    intro l hl x hx
    have ih := splitOnP_no_sep p ys
    rw [List.splitOnP_cons_eq_if_modifyHead] at hl
    by_cases hy : p y = true
    · rw [if_pos hy] at hl
      rcases List.mem_cons.1 hl with rfl | hl
      · cases hx
      · exact ih l hl x hx
    · rw [if_neg hy] at hl
      cases hs : ys.splitOnP p with
      | nil => exact absurd hs (List.splitOnP_ne_nil p ys)
      | cons h0 t =>
        rw [hs] at hl ih
        simp only [List.modifyHead_cons] at hl
        rcases List.mem_cons.1 hl with rfl | hl
        · rcases List.mem_cons.1 hx with rfl | hx
          · simpa using hy
          · exact ih h0 List.mem_cons_self x hx
        · exact ih l (List.mem_cons_of_mem _ hl) x hx

/-- every part `parse` yields is a well-formed part: not empty, not ".", without '/' -/
theorem parse_partOk (str : String) : ∀ s ∈ (parse str).parts, PartOk s := by
  intro s hs
  have h12 := parse_parts_ok str s hs
  refine ⟨h12.1, h12.2, ?_⟩
  simp only [parse, List.mem_filter] at hs
  have hmem := hs.1
  rw [splitOn_slash] at hmem
  obtain ⟨l, hl, rfl⟩ := List.mem_map.1 hmem
  rw [String.toList_ofList]
  intro hin
  rw [List.splitOn_eq_splitOnP] at hl
  have := splitOnP_no_sep (· == '/') str.toList l hl '/' hin
  simp at this

theorem parse_wf (str : String) : (parse str).WF := ⟨parse_root_ok str, parse_partOk str⟩

theorem relativeTo_wf {p A q : PPath} (hp : p.WF) (h : relativeTo p A = .ok q) : q.WF := by
  obtain ⟨_, rfl⟩ := (relativeTo_ok_iff p A q).1 h
  exact ⟨Or.inl rfl, fun s hs => hp.parts_ok s (List.mem_of_mem_drop hs)⟩

theorem join_wf {A x : PPath} (hA : A.WF) (hx : x.WF) : (join A x).WF := by
  unfold join
  by_cases h : x.root ≠ ""
  · rw [if_pos h]; exact hx
  · rw [if_neg h]
    refine ⟨hA.root_ok, fun s hs => ?_⟩
    rcases List.mem_append.1 hs with hs | hs
    · exact hA.parts_ok s hs
    · exact hx.parts_ok s hs

/-- `str` is injective on well-formed paths: comparing rendered strings compares paths -/
theorem render_injective {p q : PPath} (hp : p.WF) (hq : q.WF) (h : render p = render q) : p = q := by
  rw [← parse_render p hp, ← parse_render q hq, h]

/-- `Path(str(Path(s))) == Path(s)` -/
theorem parse_render_parse (str : String) : parse (render (parse str)) = parse str :=
  parse_render _ (parse_wf str)

end SE.Paths
