/- helper lemmas for C17: label lookup (`reindex`), cropping, extension of a regular axis -/
import SoundeventModel.Axis
import Proofs.Lemmas.Axis
namespace SE.Axis

/-- membership of a coordinate in the requested interval, closed or open at each end as asked -/
def inside (s e : Rat) (lc rc : Bool) (c : Rat) : Bool :=
  (if lc then decide (s ≤ c) else decide (s < c)) && (if rc then decide (c ≤ e) else decide (c < e))

/-! ### `reindex` -/

theorem coordsOf_reindex {α} (a : Samples α) (cs : List Rat) (fill : α) :
    coordsOf (reindex a cs fill) = cs := by
  simp [coordsOf, reindex, Function.comp_def]

theorem reindex_length {α} (a : Samples α) (cs : List Rat) (fill : α) :
    (reindex a cs fill).length = cs.length := by simp [reindex]

theorem reindex_append {α} (a : Samples α) (l r : List Rat) (fill : α) :
    reindex a (l ++ r) fill = reindex a l fill ++ reindex a r fill := by
  simp [reindex]

theorem find_of_mem_nodup {α} {a : Samples α} {c : Rat} {d : α} (hnd : (coordsOf a).Nodup)
    (hm : (c, d) ∈ a) : a.find? (fun p => p.1 == c) = some (c, d) := by
  induction a with
  | nil => simp at hm
  | cons p ps ih =>
    simp only [coordsOf, List.map_cons, List.nodup_cons] at hnd
    rcases List.mem_cons.mp hm with h | h
    · subst h; simp
    · have hne : p.1 ≠ c := by
        intro he
        exact hnd.1 (List.mem_map.mpr ⟨(c, d), h, he.symm⟩)
      simp [hne]
      exact ih hnd.2 h

theorem find_none_of_not_mem {α} {a : Samples α} {c : Rat} (h : c ∉ coordsOf a) :
    a.find? (fun p => p.1 == c) = none := by
  rw [List.find?_eq_none]
  intro p hp he
  exact h (List.mem_map.mpr ⟨p, hp, by simpa using he⟩)

theorem reindex_self {α} (a : Samples α) (fill : α) (hnd : (coordsOf a).Nodup) :
    reindex a (coordsOf a) fill = a := by
  simp only [reindex, coordsOf, List.map_map]
  conv => rhs; rw [← List.map_id a]
  apply List.map_congr_left
  intro p hp
  simp only [Function.comp]
  rw [find_of_mem_nodup (c := p.1) (d := p.2) hnd hp]
  rfl

theorem reindex_disjoint {α} (a : Samples α) (l : List Rat) (fill : α)
    (h : ∀ c ∈ l, c ∉ coordsOf a) : reindex a l fill = l.map (fun c => (c, fill)) := by
  simp only [reindex]
  apply List.map_congr_left
  intro c hc
  rw [find_none_of_not_mem (h c hc)]

/-! ### regular axes -/

theorem lattice_cons (a s : Rat) (n : Nat) : lattice a s (n + 1) = a :: lattice (a + s) s n := by
  apply List.ext_getElem
  · simp
  · intro i h1 h2
    cases i with
    | zero => simp [lattice_getElem]; grind
    | succ k => simp [lattice_getElem]; grind

theorem lattice_sorted (a s : Rat) (n : Nat) (hs : 0 ≤ s) : Sorted (lattice a s n) := by
  rw [Sorted, List.pairwise_iff_getElem]
  intro i j hi hj hij
  simp only [lattice_getElem]
  have : (i : Rat) ≤ (j : Rat) := Rat.natCast_le_natCast.mpr (by omega)
  have := Rat.mul_le_mul_of_nonneg_right this hs
  grind

theorem lattice_getLast? (a s : Rat) (n : Nat) :
    (lattice a s (n + 1)).getLast? = some (a + (n : Rat) * s) := by
  simp [lattice_succ]

theorem lattice_head? (a s : Rat) (n : Nat) : (lattice a s (n + 1)).head? = some a := by
  simp [lattice_cons]

theorem listMin_lattice (a s : Rat) (n : Nat) (hs : 0 ≤ s) : listMin (lattice a s (n + 1)) = some a := by
  have h := lattice_sorted a s (n + 1) hs
  rw [lattice_cons] at h ⊢
  exact listMin_sorted h

theorem listMax_lattice (a s : Rat) (n : Nat) (hs : 0 ≤ s) :
    listMax (lattice a s (n + 1)) = some (a + (n : Rat) * s) := by
  have h := lattice_sorted a s (n + 1) hs
  have hl := lattice_getLast? a s n
  rw [lattice_cons] at h hl ⊢
  rw [listMax_sorted h]
  rw [List.getLast?_eq_some_getLast (by simp)] at hl
  exact hl

/-- number of new coordinates `extend_dim` generates below the axis start `a0`,
    `s'` being the requested start after the `eps` shift -/
def leftCount (a0 step s' : Rat) : Nat :=
  if s' ≤ a0 - step then arangeLen (a0 - step) s' (-step) else 0

/-- number of new coordinates generated above the last coordinate -/
def rightCount (last step e' : Rat) : Nat :=
  if e' ≥ last then arangeLen last e' step - 1 else 0

theorem one_le_natCast {j : Nat} (hj : 1 ≤ j) : (1 : Rat) ≤ (j : Rat) := by
  have : ((1 : Nat) : Rat) ≤ (j : Rat) := Rat.natCast_le_natCast.mpr hj
  simpa using this

/-- the `j`-th lattice point below the axis start is generated iff it lies above the shifted start -/
theorem le_leftCount_iff (a0 step s' : Rat) (hs : 0 < step) (j : Nat) (hj : 1 ≤ j) :
    j ≤ leftCount a0 step s' ↔ s' < a0 - (j : Rat) * step := by
  have hj1 := one_le_natCast hj
  have hjs : step ≤ (j : Rat) * step := by
    have := Rat.mul_le_mul_of_nonneg_right hj1 (Rat.le_of_lt hs); simpa using this
  unfold leftCount
  split
  · have h1 : j ≤ arangeLen (a0 - step) s' (-step) ↔ j - 1 < arangeLen (a0 - step) s' (-step) := by omega
    rw [h1, lt_arangeLen_iff, div_neg _ _ (by grind), Rat.lt_div_iff hs, natCast_pred (by omega)]
    constructor <;> intro h <;> grind
  · constructor
    · intro h; omega
    · intro h; grind

/-- the `i`-th lattice point above the last coordinate is generated iff it lies below the shifted stop -/
theorem le_rightCount_iff (last step e' : Rat) (hs : 0 < step) (i : Nat) (hi : 1 ≤ i) :
    i ≤ rightCount last step e' ↔ last + (i : Rat) * step < e' := by
  have hi1 := one_le_natCast hi
  have his : step ≤ (i : Rat) * step := by
    have := Rat.mul_le_mul_of_nonneg_right hi1 (Rat.le_of_lt hs); simpa using this
  unfold rightCount
  split
  · have h1 : i ≤ arangeLen last e' step - 1 ↔ i < arangeLen last e' step := by omega
    rw [h1, lt_arangeLen_iff, Rat.lt_div_iff hs]
    constructor <;> intro h <;> grind
  · constructor
    · intro h; omega
    · intro h; grind

/-- `extend_dim` on a regular axis: the result is the re-indexing onto one contiguous lattice -/
theorem extendDim_regular {α} (a : Samples α) (attr start stop : Option Rat) (fill : α) (eps : Rat)
    (lc rc : Bool) (a0 step : Rat) (n : Nat) (hreg : coordsOf a = lattice a0 step (n + 1)) (hs : 0 < step)
    (hstep : dimStep attr (coordsOf a) = .ok (some step))
    (hse : start.getD a0 ≤ stop.getD (a0 + (n : Rat) * step)) :
    extendDim a attr start stop fill eps lc rc =
      .ok (reindex a
        (lattice (a0 - (leftCount a0 step (if lc then start.getD a0 - eps else start.getD a0 + eps) : Rat) * step)
          step
          (leftCount a0 step (if lc then start.getD a0 - eps else start.getD a0 + eps) + (n + 1) +
            rightCount (a0 + (n : Rat) * step) step
              (if rc then stop.getD (a0 + (n : Rat) * step) + eps else stop.getD (a0 + (n : Rat) * step) - eps)))
        fill) := by
  have hne : step ≠ 0 := by grind
  have hnot : ¬ (start.getD a0 > stop.getD (a0 + (n : Rat) * step)) := by grind
  simp only [extendDim]
  rw [hstep, hreg]
  simp only [listMin_lattice a0 step n (Rat.le_of_lt hs), listMax_lattice a0 step n (Rat.le_of_lt hs),
    lattice_getLast?, hnot, if_false, hne]
  generalize hs' : (if lc then start.getD a0 - eps else start.getD a0 + eps) = s'
  generalize he' : (if rc then stop.getD (a0 + (n : Rat) * step) + eps
      else stop.getD (a0 + (n : Rat) * step) - eps) = e'
  -- the two generated pieces as lattices
  have hleft : (if s' ≤ a0 - step then (Except.ok (arange (a0 - step) s' (-step)).reverse : Except AErr _)
        else .ok []) = .ok (lattice (a0 - (leftCount a0 step s' : Rat) * step) step (leftCount a0 step s')) := by
    unfold leftCount
    split
    · simp only [arange, lattice_neg_reverse]
      congr 2; grind
    · simp [lattice]
  have hright : (if e' ≥ a0 + (n : Rat) * step then
        (Except.ok ((arange (a0 + (n : Rat) * step) e' step).drop 1) : Except AErr _) else .ok [])
      = .ok (lattice (a0 + (n : Rat) * step + step) step (rightCount (a0 + (n : Rat) * step) step e')) := by
    unfold rightCount
    split
    · simp only [arange, lattice_drop]
      congr 2; simp
    · simp [lattice]
  rw [hleft, hright]
  simp only
  congr 2
  have e1 : a0 = a0 - (leftCount a0 step s' : Rat) * step + (leftCount a0 step s' : Rat) * step := by grind
  have e2 : a0 + (n : Rat) * step + step =
      a0 - (leftCount a0 step s' : Rat) * step + ((leftCount a0 step s' + (n + 1) : Nat) : Rat) * step := by
    simp; grind
  conv => lhs; arg 1; arg 2; rw [e1]
  rw [lattice_append, e2, lattice_append]

/-! ### the estimated step of a regular axis -/

theorem diffs_lattice (a s : Rat) (k : Nat) : diffs (lattice a s (k + 1)) = List.replicate k s := by
  induction k generalizing a with
  | zero => simp [lattice, diffs]
  | succ k ih =>
    rw [lattice_cons, lattice_cons, diffs, ← lattice_cons, ih, List.replicate_succ]
    congr 1; grind

theorem foldl_add_replicate (acc s : Rat) (m : Nat) :
    (List.replicate m s).foldl (· + ·) acc = acc + (m : Rat) * s := by
  induction m generalizing acc with
  | zero => simp; grind
  | succ m ih => simp [List.replicate_succ, ih]; grind

theorem dimStep_lattice (a s : Rat) (k : Nat) :
    dimStep none (lattice a s (k + 2)) = .ok (some s) := by
  have hk : ((k + 1 : Nat) : Rat) ≠ 0 := by simp; grind [natCast_nonneg]
  simp only [dimStep, diffs_lattice, sumRat, foldl_add_replicate, List.length_replicate]
  have hmean : (0 + ((k + 1 : Nat) : Rat) * s) / ((k + 1 : Nat) : Rat) = s := by
    rw [Rat.zero_add, Rat.mul_comm, Rat.mul_div_cancel hk]
  rw [hmean]
  have h0 : (s - s).abs = 0 := by simp [Rat.sub_self]
  have hat : (0 : Rat) ≤ defaultAtol := by decide +kernel
  have hrt : (0 : Rat) ≤ defaultRtol := by decide +kernel
  have hall : (List.replicate (k + 1) s).all
      (fun d => decide ((d - s).abs ≤ defaultAtol + defaultRtol * s.abs)) = true := by
    rw [List.all_eq_true]
    intro d hd
    rw [List.eq_of_mem_replicate hd, h0]
    have := Rat.mul_nonneg hrt (Rat.abs_nonneg (x := s))
    simp; grind
  simp [hall]

/-! ### widths -/

/-- index of the first kept sample when an axis of `n` samples is cropped to `w` -/
def cropOffset (n w : Nat) : Pos → Nat
  | .start => 0
  | .center => n / 2 - w / 2
  | .end => n - w

/-- number of new samples placed before the original data when `extra` samples are added -/
def padLeft (extra : Nat) : Pos → Nat
  | .start => 0
  | .center => extra / 2
  | .end => extra

theorem padLeft_le (extra : Nat) (pos : Pos) : padLeft extra pos ≤ extra := by
  cases pos <;> simp [padLeft]; omega

theorem natCast_eq_of_mul {i j : Rat} {s : Rat} (hs : s ≠ 0) (h : (i - j) * s = 0) : i = j := by
  rcases Rat.mul_eq_zero.mp h with h | h
  · grind
  · exact absurd h hs

/-- lattice points generated below the start are not coordinates of the axis -/
theorem before_disjoint (a0 s : Rat) (k m : Nat) (hs : s ≠ 0) :
    ∀ c ∈ lattice (a0 - (k : Rat) * s) s k, c ∉ lattice a0 s m := by
  intro c hc hm
  obtain ⟨i, hi, rfl⟩ := mem_lattice.mp hc
  obtain ⟨j, _, hj⟩ := mem_lattice.mp hm
  have h1 : (((i : Rat)) - ((k + j : Nat) : Rat)) * s = 0 := by simp; grind
  have := Rat.natCast_inj.mp (natCast_eq_of_mul hs h1)
  omega

/-- lattice points generated above the end are not coordinates of the axis -/
theorem after_disjoint (a0 s : Rat) (k m : Nat) (hs : s ≠ 0) :
    ∀ c ∈ lattice (a0 + (m : Rat) * s) s k, c ∉ lattice a0 s m := by
  intro c hc hm
  obtain ⟨i, hi, rfl⟩ := mem_lattice.mp hc
  obtain ⟨j, hj, hj'⟩ := mem_lattice.mp hm
  have h1 : ((((m + i : Nat) : Rat)) - (j : Rat)) * s = 0 := by simp; grind
  have := Rat.natCast_inj.mp (natCast_eq_of_mul hs h1)
  omega

theorem coordsOf_length {α} (a : Samples α) : (coordsOf a).length = a.length := by simp [coordsOf]

theorem coordsOf_drop_take {α} (a : Samples α) (k w : Nat) :
    coordsOf ((a.drop k).take w) = ((coordsOf a).drop k).take w := by
  simp [coordsOf, List.map_take, List.map_drop]

end SE.Axis
