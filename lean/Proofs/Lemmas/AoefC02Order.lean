/-
  Helper lemmas for C02: the order of the sequence list (parents first) and the tag table
  (dense ids, one entry per content).
-/
import Proofs.Lemmas.AoefClosure
import Std.Data.String.ToNat
namespace SE.Aoef
open SE.Paths

/-! ### the tag table -/

theorem encTags_ids (tids : List Tag) : (encTags tids).map (·.id) = List.range tids.length := by
  unfold encTags
  rw [List.map_map]
  have : ((fun o : TagObj => o.id) ∘ fun x : Tag × Nat => (⟨x.2, x.1.key, x.1.value⟩ : TagObj)) = Prod.snd := rfl
  rw [this, List.zipIdx_map_snd, List.range_eq_range']

theorem encTags_length (tids : List Tag) : (encTags tids).length = tids.length := by
  unfold encTags; simp only [List.length_map, List.length_zipIdx]

theorem mem_encTags {tids : List Tag} {o : TagObj} :
    o ∈ encTags tids ↔ tids[o.id]? = some ⟨o.key, o.value⟩ := by
  unfold encTags
  rw [List.mem_map]
  constructor
  · rintro ⟨⟨t, i⟩, hm, rfl⟩
    exact List.mem_zipIdx_iff_getElem?.1 hm
  · intro h
    exact ⟨(⟨o.key, o.value⟩, o.id), List.mem_zipIdx_iff_getElem?.2 h, rfl⟩

/-- ids are allocated per distinct content: two entries with the same key and value coincide -/
theorem encTags_by_content {tids : List Tag} (hn : tids.Nodup) {o1 o2 : TagObj}
    (h1 : o1 ∈ encTags tids) (h2 : o2 ∈ encTags tids) (hk : o1.key = o2.key) (hv : o1.value = o2.value) :
    o1 = o2 := by
  rw [mem_encTags] at h1 h2
  have hlt : o1.id < tids.length := (List.getElem?_eq_some_iff.1 h1).1
  have : o1.id = o2.id := by
    apply (List.getElem?_inj hlt hn).1
    rw [h1, h2, hk, hv]
  cases o1; cases o2
  simp only at hk hv this
  subst hk; subst hv; subst this; rfl

theorem tid_injective {m n : Nat} (h : tid m = tid n) : m = n := Nat.repr_injective h

theorem encTags_defs (tids : List Tag) :
    (encTags tids).map (fun o => tid o.id) = (List.range tids.length).map tid := by
  rw [← encTags_ids, List.map_map]; rfl

theorem encTags_defs_nodup (tids : List Tag) : ((encTags tids).map (fun o => tid o.id)).Nodup := by
  rw [encTags_defs]
  exact List.Pairwise.map tid (fun a b hab h => hab (tid_injective h)) List.nodup_range

/-- the id written for a tag of the table is defined -/
theorem tagId_defined {tids : List Tag} {t : Tag} (h : t ∈ tids) :
    tid (tagId tids t) ∈ (encTags tids).map (fun o => tid o.id) := by
  rw [encTags_defs]
  exact List.mem_map.2 ⟨_, List.mem_range.2 (List.idxOf_lt_length_of_mem h), rfl⟩

theorem encTags_contents (tids : List Tag) (f : String → String → String) :
    (encTags tids).map (fun o => f o.key o.value) = tids.map (fun t => f t.key t.value) := by
  unfold encTags
  rw [List.map_map]
  have : ((fun o : TagObj => f o.key o.value) ∘ fun x : Tag × Nat => (⟨x.2, x.1.key, x.1.value⟩ : TagObj))
      = (fun t : Tag => f t.key t.value) ∘ Prod.fst := rfl
  rw [this, ← List.map_map, List.zipIdx_map_fst]

theorem tagTable_nodup (os : List Obj) : (tagTable os).Nodup := dedupBy_id_nodup _

theorem mem_tagTable {os : List Obj} {t : Tag} : t ∈ tagTable os ↔ Obj.tag t ∈ os := by
  unfold tagTable; rw [mem_dedupBy_id, mem_tagsOf]

/-! ### parents first -/

section pf
variable {α : Type} (key : α → String) (par : α → Option String)

/-- `parentFirstAux` on an abstract list: `par s`, when present, is among the keys seen so far -/
def pfAux (seen : List String) : List α → Bool
  | [] => true
  | s :: rest =>
    (match par s with
     | none => true
     | some p => seen.contains p) && pfAux (seen ++ [key s]) rest

theorem pfAux_mono {seen seen' : List String} {l : List α} (h : ∀ k ∈ seen, k ∈ seen')
    (hp : pfAux key par seen l = true) : pfAux key par seen' l = true := by
  induction l generalizing seen seen' with
  | nil => rfl
  | cons s rest ih =>
    simp only [pfAux, Bool.and_eq_true] at hp ⊢
    refine ⟨?_, ih ?_ hp.2⟩
    · cases hs : par s with
      | none => rfl
      | some p =>
        have h1 := hp.1
        rw [hs] at h1
        simp only [List.contains_eq_mem, decide_eq_true_eq] at h1 ⊢
        exact h p h1
    · intro k hk
      rcases List.mem_append.1 hk with hk | hk
      · exact List.mem_append.2 (Or.inl (h k hk))
      · exact List.mem_append.2 (Or.inr hk)

theorem pfAux_filter {seen : List String} {l : List α} {k : String} (hk : k ∈ seen)
    (hp : pfAux key par seen l = true) :
    pfAux key par seen (l.filter (fun y => key y ≠ k)) = true := by
  induction l generalizing seen with
  | nil => rfl
  | cons s rest ih =>
    simp only [pfAux, Bool.and_eq_true] at hp
    by_cases hs : key s = k
    · rw [List.filter_cons_of_neg (by simpa using hs)]
      apply pfAux_mono key par _ (ih (List.mem_append.2 (Or.inl hk)) hp.2)
      intro k' hk'
      rcases List.mem_append.1 hk' with h | h
      · exact h
      · have : k' = key s := by simpa using h
        rw [this, hs]; exact hk
    · rw [List.filter_cons_of_pos (by simpa using hs)]
      simp only [pfAux, Bool.and_eq_true]
      exact ⟨hp.1, ih (List.mem_append.2 (Or.inl hk)) hp.2⟩

theorem pfAux_dedup {seen : List String} {l : List α} (hp : pfAux key par seen l = true) :
    pfAux key par seen (dedupBy key l) = true := by
  induction l generalizing seen with
  | nil => rfl
  | cons s rest ih =>
    simp only [pfAux, Bool.and_eq_true] at hp
    simp only [dedupBy, pfAux, Bool.and_eq_true]
    exact ⟨hp.1, pfAux_filter key par (List.mem_append.2 (Or.inr (List.mem_singleton.2 rfl))) (ih hp.2)⟩

theorem pfAux_append {seen : List String} {a b : List α} :
    pfAux key par seen (a ++ b) = (pfAux key par seen a && pfAux key par (seen ++ a.map key) b) := by
  induction a generalizing seen with
  | nil => simp [pfAux]
  | cons s rest ih =>
    simp only [List.cons_append, pfAux, ih, List.map_cons, Bool.and_assoc, List.append_assoc,
      List.cons_append, List.nil_append]

end pf

def seqKey (s : Sequence) : String := s.uuid
def seqPar (s : Sequence) : Option String := s.ancestors.head?.map (·.uuid)

theorem parentFirstAux_map (seen : List String) (l : List Sequence) :
    parentFirstAux seen (l.map encSequence) = pfAux (fun s : Sequence => s.uuid) seqPar seen l := by
  induction l generalizing seen with
  | nil => rfl
  | cons s rest ih =>
    simp only [List.map_cons, parentFirstAux, pfAux, ih]
    rfl

/-- a list of objects whose sequences come parents first, whatever was seen before -/
def Good (os : List Obj) : Prop := ∀ seen, pfAux (fun s : Sequence => s.uuid) seqPar seen (seqsOf os) = true

theorem seqsOf_append (a b : List Obj) : seqsOf (a ++ b) = seqsOf a ++ seqsOf b := by
  unfold seqsOf; exact List.filterMap_append

theorem good_nil : Good [] := fun _ => rfl

theorem good_append {a b : List Obj} (ha : Good a) (hb : Good b) : Good (a ++ b) := by
  intro seen
  rw [seqsOf_append, pfAux_append, ha seen, hb]; rfl

theorem good_flatMap {β} (f : β → List Obj) (xs : List β) (h : ∀ x ∈ xs, Good (f x)) :
    Good (xs.flatMap f) := by
  induction xs with
  | nil => exact good_nil
  | cons x xs ih =>
    rw [List.flatMap_cons]
    exact good_append (h x List.mem_cons_self) (ih (fun y hy => h y (List.mem_cons_of_mem _ hy)))

theorem good_of_kinds {ks : List Kind} {os : List Obj} (h : KindsIn ks os)
    (hn : ks.contains Kind.sequence = false) : Good os := by
  intro seen; rw [seqsOf_nil h hn]; rfl

theorem seqsOf_snoc_other {os : List Obj} {o : Obj} (h : [Kind.sequence].contains o.kind = false) :
    seqsOf (os ++ [o]) = seqsOf os := by
  rw [seqsOf_append]
  have : seqsOf [o] = [] := by
    cases o <;> first | rfl | (exfalso; exact absurd h (by simp [Obj.kind]))
  rw [this, List.append_nil]

theorem good_snoc_other {os : List Obj} {o : Obj} (ha : Good os)
    (h : [Kind.sequence].contains o.kind = false) : Good (os ++ [o]) := by
  intro seen; rw [seqsOf_snoc_other h]; exact ha seen

theorem good_seqAllAux (n : SeqNode) (as : List SeqNode) : Good (seqAllAux n as) := by
  have hses : ∀ ses : List SoundEvent, Good (ses.flatMap seAll) := fun ses =>
    good_of_kinds (KindsIn.flatMap (fun _ _ => kindsIn_seAll _)) rfl
  induction as generalizing n with
  | nil =>
    unfold seqAllAux
    intro seen
    rw [seqsOf_append, pfAux_append, hses _ seen]
    rfl
  | cons a as ih =>
    unfold seqAllAux
    intro seen
    rw [seqsOf_append, pfAux_append, good_append (ih a) (hses _) seen]
    have hmem : a.uuid ∈ (seqsOf (seqAllAux a as ++ n.sound_events.flatMap seAll)).map (fun s : Sequence => s.uuid) := by
      rw [seqsOf_append]
      exact List.mem_map.2 ⟨⟨a, as⟩, List.mem_append.2 (Or.inl (mem_seqsOf.2 (self_mem_seqAllAux a as))), rfl⟩
    simp only [seqsOf, List.filterMap_cons, List.filterMap_nil, pfAux, seqPar, List.head?_cons, Option.map_some,
      List.contains_eq_mem, List.mem_append, Bool.and_true, Bool.true_and, decide_eq_true_eq]
    exact Or.inr hmem

theorem good_seqAll (s : Sequence) : Good (seqAll s) := good_seqAllAux _ _

theorem good_tagsAll (ts : List Tag) : Good (tagsAll ts) := good_of_kinds (kindsIn_tagsAll ts) rfl
theorem good_ptagsAll (ts : List PredictedTag) : Good (ptagsAll ts) := good_of_kinds (kindsIn_ptagsAll ts) rfl
theorem good_notesAll (ns : List Note) : Good (notesAll ns) := good_of_kinds (kindsIn_notesAll ns) rfl
theorem good_optUser (u : Option User) : Good (optUser u) := good_of_kinds (kindsIn_optUser u) rfl
theorem good_clipAll (c : Clip) : Good (clipAll c) := good_of_kinds (kindsIn_clipAll c) rfl
theorem good_seaAll (a : SoundEventAnnotation) : Good (seaAll a) := good_of_kinds (kindsIn_seaAll a) rfl
theorem good_sepAll (a : SoundEventPrediction) : Good (sepAll a) := good_of_kinds (kindsIn_sepAll a) rfl
theorem good_taskAll (a : AnnotationTask) : Good (taskAll a) := good_of_kinds (kindsIn_taskAll a) rfl
theorem good_recAll (a : Recording) : Good (recAll a) := good_of_kinds (kindsIn_recAll a) rfl

theorem good_sqaAll (a : SequenceAnnotation) : Good (sqaAll a) := by
  unfold sqaAll
  exact good_snoc_other (good_append (good_append (good_append (good_seqAll _) (good_notesAll _))
    (good_tagsAll _)) (good_optUser _)) rfl

theorem good_sqpAll (a : SequencePrediction) : Good (sqpAll a) := by
  unfold sqpAll
  exact good_snoc_other (good_append (good_seqAll _) (good_ptagsAll _)) rfl

theorem good_caAll (a : ClipAnnotation) : Good (caAll a) := by
  unfold caAll
  exact good_snoc_other (good_append (good_append (good_append (good_append (good_clipAll _)
    (good_tagsAll _)) (good_flatMap _ _ (fun x _ => good_seaAll x)))
    (good_flatMap _ _ (fun x _ => good_sqaAll x))) (good_notesAll _)) rfl

theorem good_cpAll (a : ClipPrediction) : Good (cpAll a) := by
  unfold cpAll
  exact good_snoc_other (good_append (good_append (good_append (good_clipAll _)
    (good_flatMap _ _ (fun x _ => good_sepAll x)))
    (good_flatMap _ _ (fun x _ => good_sqpAll x))) (good_ptagsAll _)) rfl

theorem good_matchAll (m : Match) : Good (matchAll m) := good_of_kinds (kindsIn_matchAll m) rfl

theorem good_ceAll (e : ClipEvaluation) : Good (ceAll e) := by
  unfold ceAll
  exact good_snoc_other (good_append (good_append (good_caAll _) (good_cpAll _))
    (good_flatMap _ _ (fun x _ => good_matchAll x))) rfl

theorem good_trav (c : Collection) : Good c.trav := by
  cases c with
  | recordingSet x => exact good_flatMap _ _ (fun r _ => good_recAll r)
  | dataset x => exact good_flatMap _ _ (fun r _ => good_recAll r)
  | annotationSet x => exact good_flatMap _ _ (fun r _ => good_caAll r)
  | annotationProject x =>
    exact good_append (good_append (good_flatMap _ _ (fun r _ => good_taskAll r))
      (good_tagsAll _)) (good_flatMap _ _ (fun r _ => good_caAll r))
  | evaluationSet x =>
    exact good_append (good_flatMap _ _ (fun r _ => good_caAll r)) (good_tagsAll _)
  | predictionSet x => exact good_flatMap _ _ (fun r _ => good_cpAll r)
  | modelRun x => exact good_flatMap _ _ (fun r _ => good_cpAll r)
  | evaluation x => exact good_flatMap _ _ (fun r _ => good_ceAll r)

/-- the de-duplicated, encoded sequence list of a traversal lists parents first -/
theorem parentFirstAux_trav (c : Collection) :
    parentFirstAux [] ((dedupBy (·.uuid) (seqsOf c.trav)).map encSequence) = true := by
  rw [parentFirstAux_map]
  exact pfAux_dedup _ _ (good_trav c [])

end SE.Aoef
