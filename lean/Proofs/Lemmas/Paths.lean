/-
  Helper lemmas for C18: POSIX pure paths (`relativeTo`, `join`, `inside`, `parse`).
-/
import SoundeventModel.Paths
import Batteries.Data.String.Lemmas
namespace SE.Paths

instance decInsideP2 (p d : PPath) : Decidable (inside p d) := by unfold inside; exact inferInstance

theorem isPrefixOf_iff {a b : List String} : a.isPrefixOf b = true ↔ a <+: b :=
  List.isPrefixOf_iff_prefix

/-- `relative_to` succeeds exactly on the paths inside the directory, with the remaining parts -/
theorem relativeTo_ok_iff (p A q : PPath) :
    relativeTo p A = .ok q ↔ (inside p A ∧ q = ⟨"", p.parts.drop A.parts.length⟩) := by
  unfold relativeTo inside
  simp only [isPrefixOf_iff]
  by_cases h : p.root = A.root ∧ A.parts <+: p.parts
  · rw [if_pos h]
    constructor
    · intro hq; cases hq; exact ⟨h, rfl⟩
    · rintro ⟨_, rfl⟩; rfl
  · rw [if_neg h]
    constructor
    · intro hq; cases hq
    · rintro ⟨h', _⟩; exact absurd h' h

theorem relativeTo_not_inside (p A : PPath) (h : ¬ inside p A) : relativeTo p A = .error .invalid := by
  unfold relativeTo
  unfold inside at h
  simp only [isPrefixOf_iff]
  rw [if_neg h]

/-- the only error of `relative_to` is `ValueError` -/
theorem relativeTo_error (p A : PPath) (e : Err) (h : relativeTo p A = .error e) :
    e = .invalid ∧ ¬ inside p A := by
  unfold relativeTo at h
  unfold inside
  simp only [isPrefixOf_iff] at h
  by_cases hc : p.root = A.root ∧ A.parts <+: p.parts
  · rw [if_pos hc] at h; cases h
  · rw [if_neg hc] at h; cases h; exact ⟨rfl, hc⟩

theorem relativeTo_inside (p A : PPath) (h : inside p A) :
    relativeTo p A = .ok ⟨"", p.parts.drop A.parts.length⟩ :=
  (relativeTo_ok_iff p A _).2 ⟨h, rfl⟩

theorem join_relative_root (A x : PPath) (hx : x.root = "") :
    join A x = ⟨A.root, A.parts ++ x.parts⟩ := by
  unfold join
  rw [if_neg (by rw [hx]; exact fun h => h rfl)]

theorem inside_join (A x : PPath) (hx : x.root = "") : inside (join A x) A := by
  rw [join_relative_root A x hx]
  exact ⟨rfl, List.prefix_append _ _⟩

theorem relativeTo_join (A x : PPath) (hx : x.root = "") : relativeTo (join A x) A = .ok x := by
  rw [relativeTo_ok_iff]
  refine ⟨inside_join A x hx, ?_⟩
  rw [join_relative_root A x hx]
  cases x with
  | mk r ps =>
    simp only at hx
    subst hx
    simp only [List.drop_left]

theorem join_relativeTo (p A q : PPath) (h : relativeTo p A = .ok q) : join A q = p := by
  rw [relativeTo_ok_iff] at h
  obtain ⟨⟨hr, hp⟩, rfl⟩ := h
  rw [join_relative_root _ _ rfl]
  obtain ⟨t, ht⟩ := hp
  cases p with
  | mk r ps =>
    simp only at hr ht ⊢
    subst hr
    subst ht
    simp only [List.drop_left]

/-! ### `parse` -/

theorem parse_parts_ok (str : String) : ∀ s ∈ (parse str).parts, s ≠ "" ∧ s ≠ "." := by
  intro s hs
  simp only [parse, List.mem_filter, goodPart, Bool.and_eq_true, bne_iff_ne, ne_eq] at hs
  exact hs.2

theorem rootOf_cases (str : String) : rootOf str = "" ∨ rootOf str = "/" ∨ rootOf str = "//" := by
  unfold rootOf
  split
  · exact Or.inl rfl
  · exact Or.inr (Or.inr rfl)
  · exact Or.inr (Or.inl rfl)

theorem parse_root_ok (str : String) :
    (parse str).root = "" ∨ (parse str).root = "/" ∨ (parse str).root = "//" := rootOf_cases str

instance decPartOkP2 (s : String) : Decidable (PartOk s) := by unfold PartOk; exact inferInstance

/-! ### `String.splitOn "/"` is `List.splitOn '/'` on the characters

`String.splitOn` is the legacy byte-position loop `splitOnAux`; for the one-character separator
`"/"` it is related to the list function by the invariant below (the analogue of Batteries'
`splitAux_of_valid`, which covers `String.split` only). -/

section
open String

theorem slash_eq : "/" = String.ofList ['/'] := by decide
theorem get0 : (0 : Pos.Raw).get "/" = '/' := by
  rw [slash_eq]; exact get_of_valid [] ['/']
theorem next0 : (0 : Pos.Raw).next "/" = ⟨1⟩ := by
  rw [slash_eq]; exact next_of_valid [] '/' []
theorem atEnd1 : (⟨1⟩ : Pos.Raw).atEnd "/" = true := by
  rw [slash_eq]; exact (atEnd_of_valid ['/'] []).2 rfl

theorem splitOnAux_slash (l m r : List Char) (acc : List String) :
    splitOnAux (ofList (l ++ m ++ r)) "/" ⟨utf8Len l⟩ ⟨utf8Len l + utf8Len m⟩ 0 acc =
      acc.reverse ++ (List.splitOnPPrepend (· == '/') r m.reverse).map ofList := by
  unfold splitOnAux
  simp only [List.append_assoc, atEnd_iff, rawEndPos_ofList, utf8Len_append, Pos.Raw.mk_le_mk,
    Nat.add_le_add_iff_left, (by omega : utf8Len m + utf8Len r ≤ utf8Len m ↔ utf8Len r = 0),
    utf8Len_eq_zero, List.reverse_cons, get0, next0]
  split
  · subst r
    simpa using extract_of_valid l m []
  · obtain ⟨c, r, rfl⟩ := r.exists_cons_of_ne_nil ‹_›
    simp only [by
      simpa [-ofList_append] using
        (⟨get_of_valid (l ++ m) (c :: r), next_of_valid (l ++ m) c r,
            extract_of_valid l m (c :: r)⟩ :
          _ ∧ _ ∧ _)]
    have hend : "/".rawEndPos ≤ (⟨1⟩ : Pos.Raw) := by
      rw [slash_eq, rawEndPos_ofList]; exact Nat.le_refl _
    have hun0 : ∀ p : Pos.Raw, p.unoffsetBy 0 = p := fun p => rfl
    simp only [hend, if_true, hun0]
    split <;> rename_i h
    · have hc : c = '/' := by simpa using h
      subst hc
      have hsz : ('/' : Char).utf8Size = 1 := by decide
      have hun : (⟨utf8Len l + utf8Len m + ('/' : Char).utf8Size⟩ : Pos.Raw).unoffsetBy ⟨1⟩
          = ⟨utf8Len l + utf8Len m⟩ := by
        rw [hsz]; simp [Pos.Raw.unoffsetBy]
      rw [hun]
      have hex := extract_of_valid l m ('/' :: r)
      simp only [List.append_assoc] at hex
      rw [hex]
      simpa [Nat.add_assoc, List.splitOnPPrepend_cons_eq_if] using
        splitOnAux_slash (l ++ m ++ ['/']) [] r ((ofList m) :: acc)
    · have hn := next_of_valid (l ++ m) c r
      simp only [List.append_assoc, utf8Len_append] at hn
      rw [hn]
      simpa [List.splitOnPPrepend_cons_eq_if, h, Nat.add_assoc] using
        splitOnAux_slash l (m ++ [c]) r acc
termination_by r.length

theorem splitOn_slash (s : String) : s.splitOn "/" = (s.toList.splitOn '/').map ofList := by
  unfold String.splitOn
  rw [if_neg (by decide)]
  have := splitOnAux_slash [] [] s.toList []
  simpa [List.splitOn_eq_splitOnP] using this


/-! `parse (render p) = p` -/

theorem leadingSlashes_cons_slash (cs : List Char) : leadingSlashes ('/' :: cs) = leadingSlashes cs + 1 := by
  simp [leadingSlashes]

theorem leadingSlashes_of_head {cs : List Char} (h : ∀ c, cs.head? = some c → c ≠ '/') :
    leadingSlashes cs = 0 := by
  cases cs with
  | nil => simp [leadingSlashes]
  | cons c cs =>
    have : c ≠ '/' := h c rfl
    unfold leadingSlashes
    split
    · rename_i heq; cases heq; exact absurd rfl this
    · rfl

/-- the character lists of well-formed parts -/
def PartsOk (P : List (List Char)) : Prop := ∀ l ∈ P, l ≠ [] ∧ l ≠ ['.'] ∧ '/' ∉ l

theorem head_intercalate {P : List (List Char)} (h : PartsOk P) :
    ∀ c, (['/'].intercalate P).head? = some c → c ≠ '/' := by
  intro c hc
  cases P with
  | nil => simp at hc
  | cons l ls =>
    obtain ⟨hne, _, hns⟩ := h l List.mem_cons_self
    cases l with
    | nil => exact absurd rfl hne
    | cons x xs =>
      rw [List.intercalate_cons_cons_left] at hc
      simp only [List.head?_cons, Option.some.injEq] at hc
      subst hc
      intro h'; subst h'; exact hns List.mem_cons_self

theorem goodPart_ofList {l : List Char} (h1 : l ≠ []) (h2 : l ≠ ['.']) : goodPart (ofList l) = true := by
  unfold goodPart
  simp only [Bool.and_eq_true, bne_iff_ne, ne_eq]
  constructor
  · intro h
    have := congrArg String.toList h
    rw [String.toList_ofList] at this
    exact h1 (by rw [this]; decide)
  · intro h
    have := congrArg String.toList h
    rw [String.toList_ofList] at this
    exact h2 (by rw [this]; decide)

theorem filter_good {P : List (List Char)} (h : PartsOk P) :
    (P.map ofList).filter goodPart = P.map ofList := by
  rw [List.filter_eq_self]
  intro s hs
  obtain ⟨l, hl, rfl⟩ := List.mem_map.1 hs
  exact goodPart_ofList (h l hl).1 (h l hl).2.1

theorem goodPart_empty : goodPart (ofList []) = false := by decide

/-- splitting `root ++ '/'.join(parts)` and dropping the empty pieces gives the parts back -/
theorem split_filter {P : List (List Char)} (h : PartsOk P) (hP : P ≠ []) :
    ((((['/'].intercalate P).splitOn '/').map ofList).filter goodPart) = P.map ofList := by
  rw [List.splitOn_intercalate '/' (fun l hl => (h l hl).2.2) hP]
  exact filter_good h

theorem splitOn_slash_cons (cs : List Char) : ('/' :: cs).splitOn '/' = [] :: cs.splitOn '/' := by
  rw [List.splitOn_cons_eq_if_modifyHead]; simp

theorem PartOk_toList {parts : List String} (h : ∀ s ∈ parts, PartOk s) : PartsOk (parts.map String.toList) := by
  intro l hl
  obtain ⟨s, hs, rfl⟩ := List.mem_map.1 hl
  obtain ⟨h1, h2, h3⟩ := h s hs
  refine ⟨?_, ?_, h3⟩
  · intro h; exact h1 (String.toList_eq_nil_iff.1 h)
  · intro h; apply h2; apply String.toList_inj.1; rw [h]; decide

theorem map_ofList_toList (parts : List String) : (parts.map String.toList).map ofList = parts := by
  rw [List.map_map]
  conv => rhs; rw [← List.map_id parts]
  exact List.map_congr_left (fun s _ => String.ofList_toList)

theorem parse_render (p : PPath) (h : p.WF) : parse (render p) = p := by
  obtain ⟨root, parts⟩ := p
  obtain ⟨hroot, hparts⟩ := h
  simp only at hroot hparts
  have hP := PartOk_toList hparts
  have hslash : "/".toList = ['/'] := by decide
  unfold render parse
  simp only
  by_cases hcase : (root == "" && parts.isEmpty) = true
  · rw [if_pos hcase]
    simp only [Bool.and_eq_true, beq_iff_eq, List.isEmpty_iff] at hcase
    obtain ⟨rfl, rfl⟩ := hcase
    rw [splitOn_slash]
    have h1 : rootOf "." = "" := by
      unfold rootOf
      have : ".".toList = ['.'] := by decide
      rw [this]; rfl
    have h2 : List.filter goodPart (List.map ofList (".".toList.splitOn '/')) = [] := by
      have : ".".toList = ['.'] := by decide
      rw [this]; decide
    rw [h1, h2]
  · rw [if_neg hcase]
    rw [splitOn_slash]
    have htl : (root ++ "/".intercalate parts).toList
        = root.toList ++ ['/'].intercalate (parts.map String.toList) := by
      rw [String.toList_append, String.toList_intercalate, hslash]
    have hhead := head_intercalate hP
    congr 1
    · -- the root
      unfold rootOf
      rw [htl]
      rcases hroot with rfl | rfl | rfl
      · have : "".toList = [] := by decide
        rw [this, List.nil_append, leadingSlashes_of_head hhead]; rfl
      · have : "/".toList = ['/'] := by decide
        rw [this, List.singleton_append, leadingSlashes_cons_slash, leadingSlashes_of_head hhead]; rfl
      · have : "//".toList = ['/', '/'] := by decide
        rw [this]
        simp only [List.cons_append, List.nil_append]
        rw [leadingSlashes_cons_slash, leadingSlashes_cons_slash, leadingSlashes_of_head hhead]; rfl
    · -- the parts
      rw [htl]
      by_cases hpe : parts = []
      · subst hpe
        simp only [List.map_nil, List.intercalate_nil, List.append_nil]
        rcases hroot with rfl | rfl | rfl
        · simp at hcase
        · have : "/".toList = ['/'] := by decide
          rw [this]; decide
        · have : "//".toList = ['/', '/'] := by decide
          rw [this]; decide
      · have hPne : parts.map String.toList ≠ [] := by simpa using hpe
        have hmain := split_filter hP hPne
        rw [map_ofList_toList] at hmain
        rcases hroot with rfl | rfl | rfl
        · have : "".toList = [] := by decide
          rw [this, List.nil_append]; exact hmain
        · have : "/".toList = ['/'] := by decide
          rw [this, List.singleton_append, splitOn_slash_cons, List.map_cons, List.filter_cons_of_neg (by decide)]
          exact hmain
        · have : "//".toList = ['/', '/'] := by decide
          rw [this]
          simp only [List.cons_append, List.nil_append]
          rw [splitOn_slash_cons, splitOn_slash_cons, List.map_cons, List.map_cons,
            List.filter_cons_of_neg (by decide), List.filter_cons_of_neg (by decide)]
          exact hmain


end

end SE.Paths
