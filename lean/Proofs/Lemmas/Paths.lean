/-
  Helper lemmas for C18: POSIX pure paths (`relativeTo`, `join`, `inside`, `parse`).
-/
import SoundeventModel.Paths
namespace SE.Paths

instance (p d : PPath) : Decidable (inside p d) := by unfold inside; exact inferInstance

theorem isPrefixOf_iff {a b : List String} : a.isPrefixOf b = true ↔ a <+: b :=
  List.isPrefixOf_iff_prefix

/-- `relative_to` succeeds exactly on the paths inside the directory, with the remaining parts -/
theorem relativeTo_ok_iff (p A q : PPath) :
    relativeTo p A = .ok q ↔ (inside p A ∧ q = ⟨"", p.parts.drop A.parts.length⟩) := by
  unfold relativeTo inside
  simp only [isPrefixOf_iff]
  by_cases h : p.root = A.root ∧ A.parts <+: p.parts
  · rw [if_pos h]
    constructor
    · intro hq; cases hq; exact ⟨h, rfl⟩
    · rintro ⟨_, rfl⟩; rfl
  · rw [if_neg h]
    constructor
    · intro hq; cases hq
    · rintro ⟨h', _⟩; exact absurd h' h

theorem relativeTo_not_inside (p A : PPath) (h : ¬ inside p A) : relativeTo p A = .error .invalid := by
  unfold relativeTo
  unfold inside at h
  simp only [isPrefixOf_iff]
  rw [if_neg h]

/-- the only error of `relative_to` is `ValueError` -/
theorem relativeTo_error (p A : PPath) (e : Err) (h : relativeTo p A = .error e) :
    e = .invalid ∧ ¬ inside p A := by
  unfold relativeTo at h
  unfold inside
  simp only [isPrefixOf_iff] at h
  by_cases hc : p.root = A.root ∧ A.parts <+: p.parts
  · rw [if_pos hc] at h; cases h
  · rw [if_neg hc] at h; cases h; exact ⟨rfl, hc⟩

theorem relativeTo_inside (p A : PPath) (h : inside p A) :
    relativeTo p A = .ok ⟨"", p.parts.drop A.parts.length⟩ :=
  (relativeTo_ok_iff p A _).2 ⟨h, rfl⟩

theorem join_relative_root (A x : PPath) (hx : x.root = "") :
    join A x = ⟨A.root, A.parts ++ x.parts⟩ := by
  unfold join
  rw [if_neg (by rw [hx]; exact fun h => h rfl)]

theorem inside_join (A x : PPath) (hx : x.root = "") : inside (join A x) A := by
  rw [join_relative_root A x hx]
  exact ⟨rfl, List.prefix_append _ _⟩

theorem relativeTo_join (A x : PPath) (hx : x.root = "") : relativeTo (join A x) A = .ok x := by
  rw [relativeTo_ok_iff]
  refine ⟨inside_join A x hx, ?_⟩
  rw [join_relative_root A x hx]
  cases x with
  | mk r ps =>
    simp only at hx
    subst hx
    simp only [List.drop_left]

theorem join_relativeTo (p A q : PPath) (h : relativeTo p A = .ok q) : join A q = p := by
  rw [relativeTo_ok_iff] at h
  obtain ⟨⟨hr, hp⟩, rfl⟩ := h
  rw [join_relative_root _ _ rfl]
  obtain ⟨t, ht⟩ := hp
  cases p with
  | mk r ps =>
    simp only at hr ht ⊢
    subst hr
    subst ht
    simp only [List.drop_left]

/-! ### `parse` -/

theorem parse_parts_ok (str : String) : ∀ s ∈ (parse str).parts, s ≠ "" ∧ s ≠ "." := by
  intro s hs
  simp only [parse, List.mem_filter, goodPart, Bool.and_eq_true, bne_iff_ne, ne_eq] at hs
  exact hs.2

theorem rootOf_cases (str : String) : rootOf str = "" ∨ rootOf str = "/" ∨ rootOf str = "//" := by
  unfold rootOf
  split
  · exact Or.inl rfl
  · exact Or.inr (Or.inr rfl)
  · exact Or.inr (Or.inl rfl)

theorem parse_root_ok (str : String) :
    (parse str).root = "" ∨ (parse str).root = "/" ∨ (parse str).root = "//" := rootOf_cases str

end SE.Paths
