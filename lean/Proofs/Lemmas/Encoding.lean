/- Helper lemmas for C19 (dictionary as association list, fill loops). -/
import SoundeventModel.Encoding
namespace SE.Proofs.Lemmas.Encoding
open SE SE.Encoding

theorem dictGet_dictSet {κ ν} [DecidableEq κ] (d : List (κ × ν)) (k : κ) (v : ν) (k' : κ) :
    dictGet (dictSet d k v) k' = if k = k' then some v else dictGet d k' := by
  induction d with
  | nil => simp [dictSet, dictGet]
  | cons p d ih =>
    obtain ⟨a, b⟩ := p
    by_cases h : a = k
    · subst h; by_cases h' : a = k' <;> simp [dictSet, dictGet, h']
    · by_cases h' : a = k'
      · subst h'
        have : ¬ k = a := fun e => h e.symm
        simp [dictSet, dictGet, h, this]
      · simp [dictSet, dictGet, h, h', ih]

theorem key_inj {a b : Tag} : key a = key b ↔ a = b := by
  cases a; cases b; simp [key]

theorem dictGet_buildFrom (d : List ((Term × String) × Nat)) (i : Nat) (ts : List Tag) (t : Tag) :
    dictGet (buildFrom d i ts) (key t) =
      match lastIdx t ts with
      | some j => some (i + j)
      | none => dictGet d (key t) := by
  induction ts generalizing d i with
  | nil => simp [buildFrom, lastIdx]
  | cons x xs ih =>
    simp only [buildFrom, lastIdx]
    rw [ih]
    cases hl : lastIdx t xs with
    | some j => simp; omega
    | none =>
      simp only [dictGet_dictSet, key_inj]
      by_cases h : x = t <;> simp [h]

theorem encode_eq_lastIdx (vocab : List Tag) (t : Tag) : encode vocab t = lastIdx t vocab := by
  unfold encode mapping
  rw [dictGet_buildFrom]
  cases lastIdx t vocab <;> simp [dictGet]

theorem lastIdx_none {t : Tag} {xs : List Tag} : lastIdx t xs = none ↔ t ∉ xs := by
  induction xs with
  | nil => simp [lastIdx]
  | cons x xs ih =>
    simp only [lastIdx]
    cases hl : lastIdx t xs with
    | some j =>
      have : ¬ (t ∉ xs) := fun h => by rw [ih.mpr h] at hl; cases hl
      simp at this; simp [this]
    | none =>
      have := ih.mp hl
      by_cases h : x = t
      · subst h; simp
      · have h' : ¬ t = x := fun e => h e.symm
        simp [h, h', this]

theorem lastIdx_some {t : Tag} {xs : List Tag} {i : Nat} :
    lastIdx t xs = some i ↔ xs[i]? = some t ∧ ∀ j, i < j → xs[j]? ≠ some t := by
  induction xs generalizing i with
  | nil => simp [lastIdx]
  | cons x xs ih =>
    simp only [lastIdx]
    cases hl : lastIdx t xs with
    | some j =>
      have hj := ih.mp hl
      constructor
      · intro h
        cases h
        refine ⟨by simpa using hj.1, ?_⟩
        intro k hk
        cases k with
        | zero => omega
        | succ k => simpa using hj.2 k (by omega)
      · rintro ⟨h1, h2⟩
        cases i with
        | zero => exact absurd (by simpa using hj.1) (h2 (j + 1) (by omega))
        | succ i =>
          have h1' : xs[i]? = some t := by simpa using h1
          have : lastIdx t xs = some i := ih.mpr ⟨h1', fun k hk => by simpa using h2 (k + 1) (by omega)⟩
          rw [hl] at this; cases this; rfl
    | none =>
      have hn := lastIdx_none.mp hl
      have hno : ∀ k, xs[k]? ≠ some t := fun k hk => hn (List.mem_of_getElem? hk)
      by_cases h : x = t
      · subst h
        constructor
        · intro h; simp at h; subst h
          refine ⟨by simp, ?_⟩
          intro k hk
          cases k with
          | zero => omega
          | succ k => simpa using hno k
        · rintro ⟨h1, _⟩
          cases i with
          | zero => simp
          | succ i => exact absurd (by simpa using h1) (hno i)
      · simp only [h, if_false]
        constructor
        · intro h; cases h
        · rintro ⟨h1, _⟩
          cases i with
          | zero => simp at h1; exact absurd h1 h
          | succ i => exact absurd (by simpa using h1) (hno i)

theorem searchIdx_none {t : Tag} {xs : List Tag} : searchIdx t xs = none ↔ t ∉ xs := by
  induction xs with
  | nil => simp [searchIdx]
  | cons x xs ih =>
    by_cases h : x = t
    · subst h; simp [searchIdx]
    · have h' : ¬ t = x := fun e => h e.symm
      simp [searchIdx, h, h', ih]

theorem searchIdx_some {t : Tag} {xs : List Tag} {i : Nat} :
    searchIdx t xs = some i ↔ xs[i]? = some t ∧ ∀ j, j < i → xs[j]? ≠ some t := by
  induction xs generalizing i with
  | nil => simp [searchIdx]
  | cons x xs ih =>
    by_cases h : x = t
    · subst h
      simp only [searchIdx, if_true]
      constructor
      · intro h; cases h; simp
      · rintro ⟨_, h2⟩
        cases i with
        | zero => rfl
        | succ i => exact absurd (by simp) (h2 0 (by omega))
    · simp only [searchIdx, h, if_false, Option.map_eq_some_iff]
      constructor
      · rintro ⟨k, hk, rfl⟩
        have := ih.mp hk
        refine ⟨by simpa using this.1, ?_⟩
        intro j hj
        cases j with
        | zero => simpa using h
        | succ j => simpa using this.2 j (by omega)
      · rintro ⟨h1, h2⟩
        cases i with
        | zero => simp at h1; exact absurd h1 h
        | succ i =>
          exact ⟨i, ih.mpr ⟨by simpa using h1, fun j hj => by simpa using h2 (j + 1) (by omega)⟩, rfl⟩

/-- on a duplicate-free list the last and the first position coincide -/
theorem lastIdx_eq_searchIdx {t : Tag} {xs : List Tag} (h : xs.Nodup) : lastIdx t xs = searchIdx t xs := by
  induction xs with
  | nil => rfl
  | cons x xs ih =>
    have hx : x ∉ xs := (List.nodup_cons.mp h).1
    have hxs := (List.nodup_cons.mp h).2
    simp only [lastIdx, searchIdx, ih hxs]
    by_cases hxt : x = t
    · subst hxt
      simp [searchIdx_none.mpr hx]
    · cases hs : searchIdx t xs <;> simp [hxt]

/-! ### fill loops -/

theorem store_length {α} (acc : List α) (idx : Option Nat) (v : α) : (store acc idx v).length = acc.length := by
  cases idx <;> simp [store]

theorem store_get {α} (acc : List α) (idx : Option Nat) (v : α) (i : Nat) (hi : i < acc.length) :
    (store acc idx v)[i]? = if idx = some i then some v else acc[i]? := by
  cases idx with
  | none => simp [store]
  | some j =>
    simp only [store, List.getElem?_set, Option.some.injEq]
    by_cases h : j = i <;> simp [h, hi]

theorem fill_length {α β} (f : β → Option Nat) (g : β → α) (xs : List β) (init : List α) :
    (xs.foldl (fun acc x => store acc (f x) (g x)) init).length = init.length := by
  induction xs generalizing init with
  | nil => rfl
  | cons x xs ih => simp [List.foldl_cons, ih, store_length]

/-- after a fill loop entry `i` holds the value of the last store to `i`, else the initial value -/
theorem fill_get {α β} (f : β → Option Nat) (g : β → α) (xs : List β) (init : List α) (i : Nat)
    (hi : i < init.length) :
    (xs.foldl (fun acc x => store acc (f x) (g x)) init)[i]? =
      match lastWhere (fun x => f x == some i) xs with
      | some x => some (g x)
      | none => init[i]? := by
  induction xs generalizing init with
  | nil => simp [lastWhere]
  | cons x xs ih =>
    simp only [List.foldl_cons, lastWhere]
    rw [ih _ (by rw [store_length]; exact hi)]
    cases lastWhere (fun x => f x == some i) xs with
    | some y => rfl
    | none =>
      simp only [store_get _ _ _ _ hi]
      by_cases h : f x = some i <;> simp [h]

theorem lastWhere_eq_find_reverse {α} (p : α → Bool) (xs : List α) :
    lastWhere p xs = xs.reverse.find? p := by
  induction xs with
  | nil => rfl
  | cons x xs ih =>
    simp only [lastWhere, List.reverse_cons, List.find?_append, ih]
    cases xs.reverse.find? p with
    | some y => rfl
    | none => by_cases h : p x <;> simp [h]

theorem lastWhere_none {α} {p : α → Bool} {xs : List α} : lastWhere p xs = none ↔ ∀ x ∈ xs, p x = false := by
  rw [lastWhere_eq_find_reverse]; simp

theorem lastWhere_some_mem {α} {p : α → Bool} {xs : List α} {y : α} (h : lastWhere p xs = some y) :
    y ∈ xs ∧ p y = true := by
  rw [lastWhere_eq_find_reverse] at h
  exact ⟨by simpa using List.mem_of_find?_eq_some h, List.find?_some h⟩

theorem lastWhere_congr {α} {p q : α → Bool} {xs : List α} (h : ∀ x ∈ xs, p x = q x) :
    lastWhere p xs = lastWhere q xs := by
  induction xs with
  | nil => rfl
  | cons x xs ih =>
    simp only [lastWhere]
    rw [ih (fun y hy => h y (List.mem_cons_of_mem _ hy)), h x (List.mem_cons_self ..)]

theorem lastWhere_filter {α} (p q : α → Bool) (xs : List α) (h : ∀ x ∈ xs, p x = true → q x = true) :
    lastWhere p (xs.filter q) = lastWhere p xs := by
  induction xs with
  | nil => rfl
  | cons x xs ih =>
    have ih' := ih (fun y hy => h y (List.mem_cons_of_mem _ hy))
    by_cases hq : q x = true
    · simp only [List.filter_cons, hq, if_true, lastWhere, ih']
    · have hp : p x = false := by
        cases hpx : p x with
        | false => rfl
        | true => exact absurd (h x (List.mem_cons_self ..) hpx) hq
      have hq' : q x = false := by simpa using hq
      simp only [List.filter_cons, hq', lastWhere, hp, Bool.false_eq_true, if_false]
      rw [ih']
      cases lastWhere p xs <;> simp

/-! ### review additions: fill loops over any encoder (numpy index rule) -/

theorem normIdx_lt {n : Nat} {i : Int} {k : Nat} (h : normIdx n i = some k) : k < n := by
  unfold normIdx at h
  split at h
  · split at h <;> simp at h; omega
  · split at h <;> simp at h; omega

theorem storeI_ok {α β} (enc : α → Option Int) (acc : List β) (x : α) (v : β) (h : oor enc acc.length x = false) :
    storeI acc (enc x) v = some (store acc (slot enc acc.length x) v) := by
  unfold oor at h
  unfold storeI slot
  cases he : enc x with
  | none => simp [store]
  | some i =>
    rw [he] at h
    cases hn : normIdx acc.length i with
    | none => simp [hn] at h
    | some k => simp [store, hn]

theorem storeI_bad {α β} (enc : α → Option Int) (acc : List β) (x : α) (v : β) (h : oor enc acc.length x = true) :
    storeI acc (enc x) v = none := by
  unfold oor at h
  unfold storeI
  cases he : enc x with
  | none => simp [he] at h
  | some i =>
    rw [he] at h
    cases hn : normIdx acc.length i with
    | none => simp [hn]
    | some k => simp [hn] at h

/-- the fill loop raises iff some element's index is out of range, and otherwise is the
    total fill loop over the normalised indices -/
theorem fillM_eq {α β} (enc : α → Option Int) (val : α → β) (xs : List α) (init : List β) :
    xs.foldlM (fun acc x => storeI acc (enc x) (val x)) init =
      if xs.any (oor enc init.length) then none
      else some (xs.foldl (fun acc x => store acc (slot enc init.length x) (val x)) init) := by
  induction xs generalizing init with
  | nil => simp
  | cons x xs ih =>
    simp only [List.foldlM_cons, List.any_cons, List.foldl_cons]
    by_cases hb : oor enc init.length x = true
    · rw [storeI_bad enc init x (val x) hb]; simp [hb]
    · have hb' : oor enc init.length x = false := by simpa using hb
      rw [storeI_ok enc init x (val x) hb']
      simp only [Option.bind_eq_bind, Option.bind_some, hb', Bool.false_or]
      rw [ih, store_length]


theorem normIdx_ofNat (n k : Nat) : normIdx n (k : Int) = if k < n then some k else none := by
  simp [normIdx]

theorem normIdx_none_iff (n : Nat) (i : Int) : normIdx n i = none ↔ i < -(n : Int) ∨ (n : Int) ≤ i := by
  unfold normIdx
  split
  · split <;> simp <;> omega
  · split <;> simp <;> omega

theorem normIdx_neg (n k : Nat) (h0 : 0 < k) (hk : k ≤ n) : normIdx n (-(k : Int)) = some (n - k) := by
  unfold normIdx
  have : ¬ (0 : Int) ≤ -(k : Int) := by omega
  simp only [this, if_false]
  have : -(n : Int) ≤ -(k : Int) := by omega
  simp only [this, if_true]
  congr 1; omega


/-! ### review additions: hash table vs association list; raw Python values -/

theorem hd_eq_ad {ρ ν} (eqv : ρ → ρ → Bool) (h : ρ → Int) (hc : ∀ a b, eqv a b = true → h a = h b)
    (d : List (ρ × ν)) (k : ρ) :
    (∀ v, hdSet eqv h d k v = adSet eqv d k v) ∧ hdGet eqv h d k = adGet eqv d k := by
  induction d with
  | nil => exact ⟨fun _ => rfl, rfl⟩
  | cons p d ih =>
    obtain ⟨k', v'⟩ := p
    have hcond : (decide (h k' = h k) && eqv k' k) = eqv k' k := by
      cases he : eqv k' k with
      | false => simp
      | true => simp [hc k' k he]
    refine ⟨fun v => ?_, ?_⟩
    · simp only [hdSet, adSet, hcond, ih.1]
    · simp only [hdGet, adGet, hcond, ih.2]

theorem hdBuild_eq_adBuild {ρ} (eqv : ρ → ρ → Bool) (h : ρ → Int) (hc : ∀ a b, eqv a b = true → h a = h b)
    (d : List (ρ × Nat)) (i : Nat) (ks : List ρ) : hdBuild eqv h d i ks = adBuild eqv d i ks := by
  induction ks generalizing d i with
  | nil => rfl
  | cons k ks ih => simp only [hdBuild, adBuild, (hd_eq_ad eqv h hc d k).1, ih]

theorem adSet_eq_dictSet {κ ν} [DecidableEq κ] (d : List (κ × ν)) (k : κ) (v : ν) :
    adSet (fun a b => decide (a = b)) d k v = dictSet d k v := by
  induction d with
  | nil => rfl
  | cons p d ih => obtain ⟨k', v'⟩ := p; simp only [adSet, dictSet, decide_eq_true_eq, ih]

theorem adGet_eq_dictGet {κ ν} [DecidableEq κ] (d : List (κ × ν)) (k : κ) :
    adGet (fun a b => decide (a = b)) d k = dictGet d k := by
  induction d with
  | nil => rfl
  | cons p d ih => obtain ⟨k', v'⟩ := p; simp only [adGet, dictGet, decide_eq_true_eq, ih]

theorem adBuild_eq_buildFrom (d : List ((Term × String) × Nat)) (i : Nat) (ts : List Tag) :
    adBuild (fun a b => decide (a = b)) d i (ts.map key) = buildFrom d i ts := by
  induction ts generalizing d i with
  | nil => rfl
  | cons t ts ih => simp only [List.map_cons, adBuild, buildFrom, adSet_eq_dictSet, ih]

mutual
theorem pybeq_canon : ∀ (a b : PyVal), PyVal.beq a b = Val.beq a.canon b.canon
  | .none, b => by cases b <;> simp [PyVal.beq, PyVal.canon, Val.beq]
  | .bool x, b => by cases b <;> simp [PyVal.beq, PyVal.canon, Val.beq]
  | .str x, b => by cases b <;> simp [PyVal.beq, PyVal.canon, Val.beq]
  | .int x, b => by
    cases b <;> simp [PyVal.beq, PyVal.canon, Val.beq]
    rename_i n
    by_cases h : x = n
    · simp [h]
    · have : ¬ (x : Rat) = (n : Rat) := fun e => h (Rat.intCast_inj.mp e)
      rw [beq_eq_false_iff_ne.mpr h, beq_eq_false_iff_ne.mpr this]
  | .float x _, b => by cases b <;> simp [PyVal.beq, PyVal.canon, Val.beq]
  | .list xs, b => by
    cases b <;> simp [PyVal.beq, PyVal.canon, Val.beq]
    exact pybeqList_canon xs _
  | .tuple xs, b => by
    cases b <;> simp [PyVal.beq, PyVal.canon, Val.beq]
    exact pybeqList_canon xs _
  | .obj c n xs, b => by
    cases b <;> simp [PyVal.beq, PyVal.canon, Val.beq]
    rw [pybeqList_canon xs _]
theorem pybeqList_canon : ∀ (a b : List PyVal), PyVal.beqList a b = Val.beqList (PyVal.canon.canonList a) (PyVal.canon.canonList b)
  | [], b => by cases b <;> simp [PyVal.beqList, PyVal.canon.canonList, Val.beqList]
  | x :: xs, b => by
    cases b with
    | nil => simp [PyVal.beqList, PyVal.canon.canonList, Val.beqList]
    | cons y ys => simp [PyVal.beqList, PyVal.canon.canonList, Val.beqList, pybeq_canon x y, pybeqList_canon xs ys]
end

mutual
theorem pyhash_respects (hf : String → Option (List String)) (H : PyHasher) (hfi : ∀ n : Int, H.float n = H.int n) :
    ∀ (a b : PyVal), PyVal.beq a b = true → pyHash hf H a = pyHash hf H b
  | .none, b => by cases b <;> simp [PyVal.beq, pyHash]
  | .bool x, b => by
    cases b <;> simp [PyVal.beq, pyHash]
    intro h; rw [h]
  | .str x, b => by
    cases b <;> simp [PyVal.beq, pyHash]
    intro h; rw [h]
  | .int x, b => by
    cases b <;> simp [PyVal.beq, pyHash]
    · intro h; rw [h]
    · intro h; rw [← h, hfi]
  | .float x _, b => by
    cases b <;> simp [PyVal.beq, pyHash]
    · intro h; rw [h, hfi]
    · intro h; rw [h]
  | .list xs, b => by cases b <;> simp [PyVal.beq, pyHash]
  | .tuple xs, b => by
    cases b <;> simp [PyVal.beq, pyHash]
    intro h; rw [pyhashList_respects hf H hfi xs _ h]
  | .obj c n xs, b => by
    cases b <;> simp [PyVal.beq, pyHash]
    intro h1 h2 h3
    subst h1; subst h2
    rw [pyhashList_respects hf H hfi xs _ h3]
theorem pyhashList_respects (hf : String → Option (List String)) (H : PyHasher) (hfi : ∀ n : Int, H.float n = H.int n) :
    ∀ (a b : List PyVal), PyVal.beqList a b = true → pyHashList hf H a = pyHashList hf H b
  | [], b => by cases b <;> simp [PyVal.beqList, pyHashList]
  | x :: xs, b => by
    cases b with
    | nil => simp [PyVal.beqList]
    | cons y ys =>
      simp only [PyVal.beqList, Bool.and_eq_true, pyHashList, List.cons.injEq]
      exact fun ⟨h1, h2⟩ => ⟨pyhash_respects hf H hfi x y h1, pyhashList_respects hf H hfi xs ys h2⟩
end



/-- the identity-keyed table is the content-keyed one when, on the vocabulary, "same term object as the probe" and
    "equal term content" coincide -/
theorem lastIdxById_eq (t : TagObj) (vocab : List TagObj)
    (h : ∀ x ∈ vocab, (x.term.id = t.term.id ↔ x.term.val = t.term.val)) :
    lastIdxById t.term.id t.value vocab = lastIdx t.content (vocab.map TagObj.content) := by
  induction vocab with
  | nil => rfl
  | cons x xs ih =>
    have ih' := ih (fun y hy => h y (List.mem_cons_of_mem _ hy))
    have hx := h x List.mem_cons_self
    simp only [lastIdxById, List.map_cons, lastIdx, ih']
    cases lastIdx t.content (xs.map TagObj.content) with
    | some j => rfl
    | none =>
      have : (x.term.id = t.term.id ∧ x.value = t.value) ↔ x.content = t.content := by
        rw [hx]
        cases x with | mk xt xv => cases t with | mk tt tv => simp [TagObj.content]
      by_cases hc : x.content = t.content
      · simp [hc, this.mpr hc]
      · have hn : ¬ (x.term.id = t.term.id ∧ x.value = t.value) := fun h => hc (this.mp h)
        simp [hc, hn]

end SE.Proofs.Lemmas.Encoding
