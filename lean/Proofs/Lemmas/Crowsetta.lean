/-
  Helper lemmas for C10: `List.mapM` in `Except`, the `collect` loop, `pyInt`, small `Rat` facts.
-/
import SoundeventModel.Crowsetta
namespace SE.Proofs.Lemmas.Crowsetta
open SE SE.Crowsetta

/-- decidable equality of results (for the `decide` examples); defined under this namespace so that
    it cannot clash with an instance another property's lemma file may declare -/
instance exceptDecEq {ε α} [DecidableEq ε] [DecidableEq α] : DecidableEq (Except ε α) := fun a b =>
  match a, b with
  | .ok x, .ok y => if h : x = y then isTrue (by rw [h]) else isFalse (fun h' => h (by cases h'; rfl))
  | .error x, .error y => if h : x = y then isTrue (by rw [h]) else isFalse (fun h' => h (by cases h'; rfl))
  | .ok _, .error _ => isFalse (fun h => by cases h)
  | .error _, .ok _ => isFalse (fun h => by cases h)

/-- `mapM` in `Except` succeeds with `bs` iff every element succeeds with the corresponding result -/
theorem mapM_ok_iff {α β} (f : α → Except Err β) (l : List α) (bs : List β) :
    l.mapM f = .ok bs ↔ l.map f = bs.map Except.ok := by
  induction l generalizing bs with
  | nil => cases bs <;> simp [pure, Except.pure]
  | cons a l ih =>
    simp only [List.mapM_cons, List.map_cons]
    cases bs with
    | nil => cases hfa : f a <;> cases hl : l.mapM f <;> simp [bind, Except.bind, pure, Except.pure]
    | cons b' bs' =>
      cases hfa : f a with
      | error e => simp [bind, Except.bind]
      | ok b =>
        cases hl : l.mapM f with
        | error e =>
          have : ¬ (l.map f = bs'.map .ok) := fun h => by rw [(ih bs').mpr h] at hl; cases hl
          simp [bind, Except.bind, this]
        | ok bs0 =>
          simp only [bind, Except.bind, pure, Except.pure, List.map_cons, List.cons.injEq, Except.ok.injEq]
          rw [← ih bs', hl]
          simp

theorem mapM_ok_length {α β} {f : α → Except Err β} {l : List α} {bs : List β}
    (h : l.mapM f = .ok bs) : bs.length = l.length := by
  have := congrArg List.length ((mapM_ok_iff f l bs).mp h)
  simpa using this.symm

theorem mapM_ok_get {α β} {f : α → Except Err β} {l : List α} {bs : List β}
    (h : l.mapM f = .ok bs) (i : Nat) (hi : i < l.length) (hb : i < bs.length) :
    f l[i] = .ok bs[i] := by
  have h' := (mapM_ok_iff f l bs).mp h
  have := congrArg (fun xs => xs[i]?) h'
  simpa [List.getElem?_map, List.getElem?_eq_getElem hi, List.getElem?_eq_getElem hb] using this

/-- when every element succeeds `mapM` is `map` -/
theorem mapM_of_all_ok {α β} (f : α → Except Err β) (g : α → β) (l : List α)
    (h : ∀ a ∈ l, f a = .ok (g a)) : l.mapM f = .ok (l.map g) := by
  rw [mapM_ok_iff]
  simp only [List.map_map]
  exact List.map_congr_left (fun a ha => by simp [h a ha])

/-- the first error of `mapM` is raised -/
theorem mapM_error_iff {α β} (f : α → Except Err β) (l : List α) (e : Err) :
    l.mapM f = .error e ↔
      ∃ pre a post, l = pre ++ a :: post ∧ f a = .error e ∧ ∀ x ∈ pre, ∃ b, f x = .ok b := by
  induction l with
  | nil => simp [pure, Except.pure]
  | cons a l ih =>
    rw [List.mapM_cons]
    cases hfa : f a with
    | error e' =>
      simp only [bind, Except.bind]
      constructor
      · intro h; cases h; exact ⟨[], a, l, rfl, hfa, by simp⟩
      · rintro ⟨pre, a', post, hl, he, hpre⟩
        cases pre with
        | nil => simp at hl; obtain ⟨rfl, _⟩ := hl; rw [hfa] at he; cases he; rfl
        | cons p pre =>
          simp at hl; obtain ⟨rfl, _⟩ := hl
          obtain ⟨b, hb⟩ := hpre a (by simp)
          rw [hfa] at hb; cases hb
    | ok b =>
      cases hl : l.mapM f with
      | error e' =>
        simp only [bind, Except.bind]
        have := ih.mp
        constructor
        · intro h; cases h
          obtain ⟨pre, a', post, rfl, he, hpre⟩ := (hl ▸ ih).mp rfl
          exact ⟨a :: pre, a', post, rfl, he, by
            intro x hx; simp at hx; rcases hx with rfl | hx
            · exact ⟨b, hfa⟩
            · exact hpre x hx⟩
        · rintro ⟨pre, a', post, hl', he, hpre⟩
          cases pre with
          | nil => simp at hl'; obtain ⟨rfl, _⟩ := hl'; rw [hfa] at he; cases he
          | cons p pre =>
            simp at hl'; obtain ⟨rfl, rfl⟩ := hl'
            have : List.mapM f (pre ++ a' :: post) = .error e :=
              ih.mpr ⟨pre, a', post, rfl, he, fun x hx => hpre x (by simp [hx])⟩
            rw [hl] at this; cases this; rfl
      | ok bs =>
        simp only [bind, Except.bind, pure, Except.pure]
        constructor
        · intro h; cases h
        · rintro ⟨pre, a', post, hl', he, hpre⟩
          cases pre with
          | nil => simp at hl'; obtain ⟨rfl, _⟩ := hl'; rw [hfa] at he; cases he
          | cons p pre =>
            simp at hl'; obtain ⟨rfl, rfl⟩ := hl'
            have : List.mapM f (pre ++ a' :: post) = .error e :=
              ih.mpr ⟨pre, a', post, rfl, he, fun x hx => hpre x (by simp [hx])⟩
            rw [hl] at this; cases this

/-! ### the `collect` loop (`ignore_errors`) -/

@[simp] theorem toOption_ok {α} (a : α) : (Except.ok a : Except Err α).toOption = some a := rfl
@[simp] theorem toOption_error {α} (e : Err) : (Except.error e : Except Err α).toOption = none := rfl

theorem filterMap_cons_ok {α β} (f : α → Except Err β) (a : α) (as : List α) (b : β) (h : f a = .ok b) :
    (a :: as).filterMap (fun a => (f a).toOption) = b :: as.filterMap (fun a => (f a).toOption) := by
  rw [List.filterMap_cons]; simp only [h, toOption_ok]

theorem filterMap_cons_error {α β} (f : α → Except Err β) (a : α) (as : List α) (e : Err) (h : f a = .error e) :
    (a :: as).filterMap (fun a => (f a).toOption) = as.filterMap (fun a => (f a).toOption) := by
  rw [List.filterMap_cons]; simp only [h, toOption_error]

theorem collect_ok_filterMap {α β} (f : α → Except Err β) (ignore : Bool) (as : List α) (bs : List β)
    (h : collect f ignore as = .ok bs) : bs = as.filterMap (fun a => (f a).toOption) := by
  induction as generalizing bs with
  | nil => simp [collect] at h; simp [h]
  | cons a as ih =>
    unfold collect at h
    cases hfa : f a with
    | ok b =>
      rw [hfa] at h
      cases hc : collect f ignore as with
      | ok bs' =>
        rw [hc] at h; simp at h; subst h
        rw [filterMap_cons_ok f a as b hfa, ← ih bs' hc]
      | error e => rw [hc] at h; simp at h
    | error e =>
      rw [hfa] at h
      dsimp only at h
      by_cases hc : e = .invalid ∧ ignore = true
      · rw [if_pos hc] at h
        rw [filterMap_cons_error f a as e hfa]; exact ih bs h
      · rw [if_neg hc] at h; cases h

theorem collect_ignore_ok_iff {α β} (f : α → Except Err β) (as : List α) (bs : List β) :
    collect f true as = .ok bs ↔
      (∀ a ∈ as, ∀ e, f a = .error e → e = .invalid) ∧ bs = as.filterMap (fun a => (f a).toOption) := by
  induction as generalizing bs with
  | nil => simp [collect]
  | cons a as ih =>
    unfold collect
    cases hfa : f a with
    | ok b =>
      rw [filterMap_cons_ok f a as b hfa]
      cases hc : collect f true as with
      | ok bs' =>
        obtain ⟨hall, hbs⟩ := (ih bs').mp hc
        simp only [Except.ok.injEq]
        constructor
        · rintro rfl
          refine ⟨?_, by rw [← hbs]⟩
          intro x hx e he
          rcases List.mem_cons.mp hx with rfl | hx
          · rw [hfa] at he; cases he
          · exact hall x hx e he
        · rintro ⟨_, rfl⟩; rw [← hbs]
      | error e =>
        simp only [reduceCtorEq, false_iff, not_and]
        intro hall _
        have := (ih (as.filterMap (fun a => (f a).toOption))).mpr
          ⟨fun x hx e he => hall x (List.mem_cons_of_mem _ hx) e he, rfl⟩
        rw [hc] at this; cases this
    | error e =>
      rw [filterMap_cons_error f a as e hfa]
      dsimp only
      by_cases he : e = .invalid
      · subst he
        rw [if_pos ⟨rfl, rfl⟩, ih bs]
        constructor
        · rintro ⟨hall, hbs⟩
          refine ⟨?_, hbs⟩
          intro x hx e he
          rcases List.mem_cons.mp hx with rfl | hx
          · rw [hfa] at he; cases he; rfl
          · exact hall x hx e he
        · rintro ⟨hall, hbs⟩
          exact ⟨fun x hx e he => hall x (List.mem_cons_of_mem _ hx) e he, hbs⟩
      · rw [if_neg (fun h => he h.1)]
        simp only [reduceCtorEq, false_iff, not_and]
        intro hall
        exact absurd (hall a (List.mem_cons_self) e hfa) he

theorem collect_raise_eq_mapM {α β} (f : α → Except Err β) (as : List α) :
    collect f false as = as.mapM f := by
  induction as with
  | nil => simp [collect, pure, Except.pure]
  | cons a as ih =>
    rw [List.mapM_cons]
    unfold collect
    cases hfa : f a with
    | ok b => rw [ih]; cases as.mapM f <;> simp [bind, Except.bind, pure, Except.pure]
    | error e => simp [bind, Except.bind]

theorem collect_all_ok {α β} (f : α → Except Err β) (g : α → β) (ignore : Bool) (as : List α)
    (h : ∀ a ∈ as, f a = .ok (g a)) : collect f ignore as = .ok (as.map g) := by
  induction as with
  | nil => simp [collect]
  | cons a as ih =>
    unfold collect
    rw [h a (by simp), ih (fun x hx => h x (by simp [hx]))]
    simp

/-- a raised error is the error of the first element that fails with something the policy
    does not skip -/
theorem collect_error_iff {α β} (f : α → Except Err β) (ignore : Bool) (as : List α) (e : Err) :
    collect f ignore as = .error e ↔
      ∃ pre a post, as = pre ++ a :: post ∧ f a = .error e ∧ ¬ (e = .invalid ∧ ignore = true) ∧
        ∀ x ∈ pre, (∃ b, f x = .ok b) ∨ (f x = .error .invalid ∧ ignore = true) := by
  induction as with
  | nil => simp [collect]
  | cons a as ih =>
    unfold collect
    constructor
    · intro h
      cases hfa : f a with
      | ok b =>
        rw [hfa] at h
        cases hc : collect f ignore as with
        | ok bs => rw [hc] at h; simp at h
        | error e' =>
          rw [hc] at h; simp at h; subst h
          obtain ⟨pre, a', post, rfl, he, hne, hpre⟩ := ih.mp hc
          refine ⟨a :: pre, a', post, rfl, he, hne, ?_⟩
          intro x hx; simp at hx; rcases hx with rfl | hx
          · exact Or.inl ⟨b, hfa⟩
          · exact hpre x hx
      | error e' =>
        rw [hfa] at h
        dsimp only at h
        by_cases hc : e' = .invalid ∧ ignore = true
        · rw [if_pos hc] at h
          obtain ⟨pre, a', post, rfl, he, hne, hpre⟩ := ih.mp h
          refine ⟨a :: pre, a', post, rfl, he, hne, ?_⟩
          intro x hx; simp at hx; rcases hx with rfl | hx
          · exact Or.inr ⟨by rw [hfa, hc.1], hc.2⟩
          · exact hpre x hx
        · rw [if_neg hc] at h; cases h
          exact ⟨[], a, as, rfl, hfa, hc, by simp⟩
    · rintro ⟨pre, a', post, hl, he, hne, hpre⟩
      cases pre with
      | nil =>
        simp at hl; obtain ⟨rfl, rfl⟩ := hl
        rw [he]; simp [hne]
      | cons p pre =>
        simp at hl; obtain ⟨rfl, rfl⟩ := hl
        have hrest : collect f ignore (pre ++ a' :: post) = .error e :=
          ih.mpr ⟨pre, a', post, rfl, he, hne, fun x hx => hpre x (by simp [hx])⟩
        rcases hpre a (by simp) with ⟨b, hb⟩ | ⟨hb, hi⟩
        · rw [hb]; dsimp only; rw [hrest]
        · rw [hb]; dsimp only; rw [if_pos ⟨rfl, hi⟩, hrest]

/-- converting every element and collecting the conversions back: when each element survives both
    steps nothing is lost and the order is kept, whatever the error policy -/
theorem mapM_collect_roundtrip {α β γ} (f : α → Except Err β) (g : β → Except Err γ) (c : α → γ)
    (ignore : Bool) (l : List α) (h : ∀ a ∈ l, ∃ b, f a = .ok b ∧ g b = .ok (c a)) :
    ∃ bs, l.mapM f = .ok bs ∧ collect g ignore bs = .ok (l.map c) := by
  induction l with
  | nil => exact ⟨[], by simp [pure, Except.pure], by simp [collect]⟩
  | cons a l ih =>
    obtain ⟨b, hb, hg⟩ := h a (by simp)
    obtain ⟨bs, hbs, hc⟩ := ih (fun x hx => h x (by simp [hx]))
    refine ⟨b :: bs, ?_, ?_⟩
    · rw [List.mapM_cons, hb, hbs]; rfl
    · unfold collect; rw [hg, hc]; rfl

/-! ### numbers -/

theorem pyInt_of_nonneg (q : Rat) (h : 0 ≤ q) : pyInt q = q.floor := by
  simp [pyInt, h]

theorem pyInt_intCast (n : Int) : pyInt (n : Rat) = n := by
  unfold pyInt
  split
  · exact Rat.floor_intCast n
  · exact Rat.ceil_intCast n

/-! ### model-specific helpers -/

theorem bounds_timeInterval (s e : Rat) (h : s ≤ e) :
    (Geom.timeInterval s e).bounds = some ⟨s, 0, e, MAXF⟩ := by
  simp only [Geom.bounds, Geom.boundPts, ptsBounds, List.foldl, MAXF]
  have h1 : min s e = s := by grind
  have h2 : max s e = e := by grind
  have h3 : min (0 : Rat) 5000000 = 0 := by decide +kernel
  have h4 : max (0 : Rat) 5000000 = 5000000 := by decide +kernel
  simp [h1, h2, h3, h4]

/-- `int(t * samplerate)` of a non-negative product is its floor: the integer `n` with
    `n ≤ t * samplerate < n + 1` -/
theorem timeToSample_floor (sr t : Rat) (h : 0 ≤ t * sr) :
    timeToSample sr t = (t * sr).floor ∧
      ((timeToSample sr t : Int) : Rat) ≤ t * sr ∧ t * sr < ((timeToSample sr t : Int) : Rat) + 1 := by
  have e : timeToSample sr t = (t * sr).floor := pyInt_of_nonneg _ h
  refine ⟨e, ?_, ?_⟩
  · rw [e]; exact Rat.floor_le _
  · rw [e]
    have := Rat.lt_floor_add_one (t * sr)
    simpa [Rat.intCast_add] using this

theorem importSeqs_ok_iff (o : LabelOpts) (adjust : Bool) (r : Rec) (seqs : List (List Segment))
    (res : List (List Ann)) :
    importSeqs o adjust r seqs = .ok res ↔ seqs.map (importSequence o adjust r) = res.map Except.ok := by
  induction seqs generalizing res with
  | nil => cases res <;> simp [importSeqs]
  | cons s ss ih =>
    unfold importSeqs
    cases hs : importSequence o adjust r s with
    | error e => cases res <;> simp [bind, Except.bind, hs]
    | ok a =>
      cases hss : importSeqs o adjust r ss with
      | error e =>
        cases res with
        | nil => simp [bind, Except.bind]
        | cons x xs =>
          have : ¬ (ss.map (importSequence o adjust r) = xs.map Except.ok) := fun h => by
            rw [(ih xs).mpr h] at hss; cases hss
          simp [bind, Except.bind, hs, this]
      | ok as =>
        cases res with
        | nil => simp [bind, Except.bind, pure, Except.pure]
        | cons x xs =>
          simp only [bind, Except.bind, pure, Except.pure, List.map_cons, List.cons.injEq, Except.ok.injEq, hs]
          rw [← ih xs, hss]; simp

theorem importSeqs_lengths (o : LabelOpts) (adjust : Bool) (r : Rec) (ss : List (List Segment))
    (res : List (List Ann)) (h : ss.map (importSequence o adjust r) = res.map Except.ok) :
    res.map List.length = ss.map List.length := by
  induction ss generalizing res with
  | nil => cases res <;> simp at h ⊢
  | cons s ss ih =>
    cases res with
    | nil => simp at h
    | cons x xs =>
      simp only [List.map_cons, List.cons.injEq] at h ⊢
      exact ⟨mapM_ok_length h.1, ih xs h.2⟩

/-- the function rung falls through exactly when there is no function or it raised `ValueError` -/
theorem fnRung_none_iff (o : LabelOpts) (label : String) :
    fnRung o label = none ↔ o.tagFn = none ∨ ∃ f, o.tagFn = some f ∧ f label = .error .invalid := by
  unfold fnRung
  cases hf : o.tagFn with
  | none => simp
  | some f =>
    cases hr : f label with
    | ok r => simp [hr]
    | error e => cases e <;> simp [hr]

theorem bounds_boundingBox (s l e h : Rat) (hse : s ≤ e) (hlh : l ≤ h) :
    (Geom.boundingBox s l e h).bounds = some ⟨s, l, e, h⟩ := by
  simp only [Geom.bounds, Geom.boundPts, ptsBounds, List.foldl]
  have h1 : min s e = s := by grind
  have h2 : max s e = e := by grind
  have h3 : min l h = l := by grind
  have h4 : max l h = h := by grind
  simp [h1, h2, h3, h4]

theorem timeToSample_div (sr : Rat) (hsr : sr ≠ 0) (n : Int) : timeToSample sr (ratOfInt n / sr) = n := by
  have : ratOfInt n / sr * sr = (n : Rat) := by simp only [ratOfInt]; grind
  rw [timeToSample, this]; exact pyInt_intCast n

theorem termFromKey_inj (a b : String) : termFromKey a = termFromKey b ↔ a = b := by
  constructor
  · intro h; exact congrArg Term.label h
  · rintro rfl; rfl

end SE.Proofs.Lemmas.Crowsetta
