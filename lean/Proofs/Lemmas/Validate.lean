/-
  Helper lemmas for C03 (property theorems are in Proofs/C03.lean).
-/
import SoundeventModel.Validate
set_option linter.unusedSimpArgs false
namespace SE.Validate

/-! ### `Except` plumbing -/

theorem bind_ok {α β} (x : R α) (f : α → R β) (b : β) :
    (x >>= f) = .ok b ↔ ∃ a, x = .ok a ∧ f a = .ok b := by
  cases x <;> simp [bind, Except.bind]

theorem bind_crash {α β} (x : R α) (f : α → R β) :
    (x >>= f) = .error .crash ↔ x = .error .crash ∨ ∃ a, x = .ok a ∧ f a = .error .crash := by
  cases x <;> simp [bind, Except.bind]

/-- a parser `f` with inverse `e` (it succeeds exactly on the encodings) lifts to lists -/
theorem mapE_ok {α β} (f : α → R β) (e : β → α) (h : ∀ x y, f x = .ok y ↔ x = e y)
    (xs : List α) (ys : List β) :
    mapE f xs = .ok ys ↔ xs = ys.map e := by
  induction xs generalizing ys with
  | nil => cases ys <;> simp [mapE]
  | cons x xs ih =>
    simp only [mapE]
    cases hx : f x with
    | error err =>
      cases ys with
      | nil => simp
      | cons y' ys' =>
        simp only [reduceCtorEq, List.map_cons, List.cons.injEq, false_iff, not_and]
        intro hxe
        rw [← h] at hxe
        simp [hx] at hxe
    | ok y =>
      have hy := (h x y).1 hx
      cases hxs : mapE f xs with
      | error err =>
        cases ys with
        | nil => simp
        | cons y' ys' =>
          simp only [reduceCtorEq, List.map_cons, List.cons.injEq, false_iff, not_and]
          intro _ h2
          rw [← ih] at h2
          simp [hxs] at h2
      | ok ys0 =>
        have h0 := (ih ys0).1 hxs
        cases ys with
        | nil => simp
        | cons y' ys' =>
          simp only [Except.ok.injEq, List.cons.injEq, List.map_cons]
          constructor
          · rintro ⟨rfl, rfl⟩; exact ⟨hy, h0⟩
          · rintro ⟨h1, h2⟩
            have e1 := (h x y').2 h1
            rw [hx] at e1
            have e2 := (ih ys').2 h2
            rw [hxs] at e2
            simp_all

/-- errors of a list parse are errors of an item parse -/
theorem mapE_err {α β} (f : α → R β) (xs : List α) (err : VErr) :
    mapE f xs = .error err → ∃ x ∈ xs, f x = .error err := by
  induction xs with
  | nil => simp [mapE]
  | cons x xs ih =>
    simp only [mapE]
    cases hx : f x with
    | error e => intro h; simp at h; exact ⟨x, by simp, by rw [hx, h]⟩
    | ok y =>
      cases hxs : mapE f xs with
      | error e =>
        intro h; simp at h; subst h
        obtain ⟨x', hm, hc⟩ := ih hxs
        exact ⟨x', by simp [hm], hc⟩
      | ok ys => simp

theorem forE_ok {α} (f : α → R Unit) (xs : List α) :
    forE f xs = .ok () ↔ ∀ x ∈ xs, f x = .ok () := by
  induction xs with
  | nil => simp [forE]
  | cons x xs ih =>
    simp only [forE]
    cases hx : f x with
    | error e => simp [hx]
    | ok u => cases u; simp [hx, ih]

theorem forE_err {α} (f : α → R Unit) (xs : List α) (err : VErr) :
    forE f xs = .error err → ∃ x ∈ xs, f x = .error err := by
  induction xs with
  | nil => simp [forE]
  | cons x xs ih =>
    simp only [forE]
    cases hx : f x with
    | error e => intro h; simp at h; exact ⟨x, by simp, by rw [hx, h]⟩
    | ok u =>
      cases u
      intro h
      obtain ⟨x', hm, hc⟩ := ih h
      exact ⟨x', by simp [hm], hc⟩

/-! ### Layer 1: the typed parse succeeds exactly on the encodings of typed values -/

def enc1 (v : L1) : Raw := .arr (v.map .num)
def enc2 (v : L2) : Raw := .arr (v.map enc1)
def enc3 (v : L3) : Raw := .arr (v.map enc2)
def enc4 (v : L4) : Raw := .arr (v.map enc3)

theorem pNum_ok (r : Raw) (q : Rat) : pNum r = .ok q ↔ r = .num q := by
  cases r <;> simp [pNum, bad]

theorem pNum_err (r : Raw) (e : VErr) : pNum r = .error e → e = .invalid := by
  cases r <;> simp [pNum, bad] <;> exact fun h => h.symm

theorem pList_ok {α} (p : Raw → R α) (e : α → Raw) (h : ∀ r a, p r = .ok a ↔ r = e a)
    (r : Raw) (as : List α) : pList p r = .ok as ↔ r = .arr (as.map e) := by
  cases r with
  | num q => simp [pList, bad]
  | arr xs => simp [pList, mapE_ok p e h]

theorem pList_err {α} (p : Raw → R α) (h : ∀ r e, p r = .error e → e = .invalid)
    (r : Raw) (e : VErr) : pList p r = .error e → e = .invalid := by
  cases r with
  | num q => simp [pList, bad]; exact fun h => h.symm
  | arr xs =>
    intro he
    obtain ⟨x, _, hx⟩ := mapE_err p xs e he
    exact h x e hx

theorem pL1_ok (r : Raw) (v : L1) : pL1 r = .ok v ↔ r = enc1 v := pList_ok _ _ pNum_ok r v
theorem pL2_ok (r : Raw) (v : L2) : pL2 r = .ok v ↔ r = enc2 v := pList_ok _ _ pL1_ok r v
theorem pL3_ok (r : Raw) (v : L3) : pL3 r = .ok v ↔ r = enc3 v := pList_ok _ _ pL2_ok r v
theorem pL4_ok (r : Raw) (v : L4) : pL4 r = .ok v ↔ r = enc4 v := pList_ok _ _ pL3_ok r v
theorem pL1_err (r : Raw) (e : VErr) : pL1 r = .error e → e = .invalid := pList_err _ pNum_err r e
theorem pL2_err (r : Raw) (e : VErr) : pL2 r = .error e → e = .invalid := pList_err _ pL1_err r e
theorem pL3_err (r : Raw) (e : VErr) : pL3 r = .error e → e = .invalid := pList_err _ pL2_err r e
theorem pL4_err (r : Raw) (e : VErr) : pL4 r = .error e → e = .invalid := pList_err _ pL3_err r e

/-! ### points as two-entry lists -/

def ptL (p : Pt) : L1 := [p.1, p.2]
def ptsL (ps : List Pt) : L2 := ps.map ptL
def ringsL (rs : List (List Pt)) : L3 := rs.map ptsL
def polysL (ps : List (List (List Pt))) : L4 := ps.map ringsL

theorem enc1_ptL (p : Pt) : enc1 (ptL p) = encPt p := by simp [enc1, ptL, encPt]
theorem enc2_ptsL (ps : List Pt) : enc2 (ptsL ps) = encPts ps := by
  simp [enc2, ptsL, encPts, List.map_map, Function.comp_def, enc1_ptL]
theorem enc3_ringsL (rs : List (List Pt)) : enc3 (ringsL rs) = encRings rs := by
  simp [enc3, ringsL, encRings, List.map_map, Function.comp_def, enc2_ptsL]
theorem enc4_polysL (ps : List (List (List Pt))) : enc4 (polysL ps) = encPolys ps := by
  simp [enc4, polysL, encPolys, List.map_map, Function.comp_def, enc3_ringsL]

theorem toPt_ok (v : L1) (p : Pt) : toPt v = .ok p ↔ v = ptL p := by
  unfold toPt ptL
  split
  · rename_i t f
    simp only [Except.ok.injEq, List.cons.injEq, and_true]
    constructor
    · rintro rfl; simp
    · rintro ⟨rfl, rfl⟩; rfl
  · rename_i h
    simp only [crash, reduceCtorEq, false_iff]
    intro hv
    exact h _ _ hv

theorem toPts_ok (v : L2) (ps : List Pt) : toPts v = .ok ps ↔ v = ptsL ps := mapE_ok _ _ toPt_ok v ps
theorem toRings_ok (v : L3) (rs : List (List Pt)) : toRings v = .ok rs ↔ v = ringsL rs :=
  mapE_ok _ _ toPts_ok v rs
theorem toPolys_ok (v : L4) (ps : List (List (List Pt))) : toPolys v = .ok ps ↔ v = polysL ps :=
  mapE_ok _ _ toRings_ok v ps

/-- items that are all encodings of good values form the encoding of a list of good values -/
theorem forall_enc {α β} (e : β → α) (P : β → Prop) (xs : List α) :
    (∀ x ∈ xs, ∃ y, x = e y ∧ P y) ↔ ∃ ys : List β, xs = ys.map e ∧ ∀ y ∈ ys, P y := by
  induction xs with
  | nil => simp
  | cons x xs ih =>
    constructor
    · intro h
      obtain ⟨y, hy, hp⟩ := h x (by simp)
      obtain ⟨ys, hys, hps⟩ := ih.1 (fun x' hx' => h x' (by simp [hx']))
      refine ⟨y :: ys, by simp [hy, hys], ?_⟩
      intro y' hy'
      rcases List.mem_cons.1 hy' with rfl | hm
      · exact hp
      · exact hps y' hm
    · rintro ⟨ys, hys, hps⟩
      cases ys with
      | nil => simp at hys
      | cons y ys =>
        simp only [List.map_cons, List.cons.injEq] at hys
        intro x' hx'
        rcases List.mem_cons.1 hx' with rfl | hm
        · exact ⟨y, hys.1, hps y (by simp)⟩
        · exact ih.2 ⟨ys, hys.2, fun y' hy' => hps y' (by simp [hy'])⟩ x' hm

/-! ### Layer 2: the field validators -/

theorem chkPoint_ok (v : L1) : chkPoint v = .ok () ↔ ∃ p : Pt, v = ptL p ∧ PtOk p := by
  unfold chkPoint
  split
  · rename_i t f
    simp only [ptL, PtOk, TimeOk, FreqOk, bad]
    constructor
    · intro h
      refine ⟨(t, f), rfl, ?_⟩
      by_cases h1 : t < 0
      · simp [h1] at h
      · by_cases h2 : f < 0 ∨ f > MAXF
        · simp [h1, h2] at h
        · simp only [not_or, Rat.not_lt] at h1 h2
          exact ⟨h1, h2.1, h2.2⟩
    · rintro ⟨p, hp, h1, h2, h3⟩
      simp only [List.cons.injEq, and_true] at hp
      obtain ⟨rfl, rfl⟩ := hp
      have : ¬ (p.1 < 0) := Rat.not_lt.2 h1
      have : ¬ (p.2 < 0 ∨ p.2 > MAXF) := by
        simp only [not_or, Rat.not_lt]; exact ⟨h2, h3⟩
      simp [*]
  · rename_i h
    simp only [bad, reduceCtorEq, false_iff, not_exists, not_and]
    intro p hp
    exact absurd hp (h _ _)

theorem chkPoint_err (v : L1) (e : VErr) : chkPoint v = .error e → e = .invalid := by
  unfold chkPoint
  split
  · split
    · simp [bad]; exact fun h => h.symm
    · split
      · simp [bad]; exact fun h => h.symm
      · simp
  · simp [bad]; exact fun h => h.symm

theorem points_ok (v : L2) :
    forE chkPoint v = .ok () ↔ ∃ ps, v = ptsL ps ∧ ∀ p ∈ ps, PtOk p := by
  rw [forE_ok]
  simp only [chkPoint_ok]
  exact forall_enc ptL PtOk v

theorem points_err (v : L2) (e : VErr) : forE chkPoint v = .error e → e = .invalid := by
  intro h
  obtain ⟨x, _, hx⟩ := forE_err _ _ _ h
  exact chkPoint_err x e hx

theorem ptsL_length (ps : List Pt) : (ptsL ps).length = ps.length := by simp [ptsL]

/-- shared shape of `LineString._validate_coordinates` and `MultiPoint._validate_coordinates` -/
theorem pointList_ok (n : Nat) (v v' : L2) :
    (if v.length < n then (bad : R L2) else
      match forE chkPoint v with
      | .error e => .error e
      | .ok () => .ok v) = .ok v' ↔
    v' = v ∧ ∃ ps, v = ptsL ps ∧ n ≤ ps.length ∧ ∀ p ∈ ps, PtOk p := by
  by_cases hlen : v.length < n
  · simp only [hlen, if_true, bad, reduceCtorEq, false_iff, not_and, not_exists]
    rintro _ ps rfl h
    rw [ptsL_length] at hlen
    omega
  · simp only [hlen, if_false]
    cases hf : forE chkPoint v with
    | error e =>
      simp only [reduceCtorEq, false_iff, not_and, not_exists]
      rintro _ ps hps _ hok
      have := (points_ok v).2 ⟨ps, hps, hok⟩
      simp [hf] at this
    | ok u =>
      cases u
      obtain ⟨ps, hps, hok⟩ := (points_ok v).1 hf
      simp only [Except.ok.injEq]
      constructor
      · rintro rfl
        refine ⟨rfl, ps, hps, ?_, hok⟩
        rw [hps, ptsL_length] at hlen
        omega
      · rintro ⟨rfl, _⟩; rfl

theorem pointList_err (n : Nat) (v : L2) (e : VErr) :
    (if v.length < n then (bad : R L2) else
      match forE chkPoint v with
      | .error e => .error e
      | .ok () => .ok v) = .error e → e = .invalid := by
  by_cases hlen : v.length < n
  · simp [hlen, bad]; exact fun h => h.symm
  · simp only [hlen, if_false]
    cases hf : forE chkPoint v with
    | error e' => simp; rintro rfl; exact points_err v _ hf
    | ok u => cases u; simp

/-- shared shape of the ring / line checks inside the polygonal and multi-line validators -/
theorem pointListU_ok (n : Nat) (v : L2) :
    (if v.length < n then (bad : R Unit) else forE chkPoint v) = .ok () ↔
    ∃ ps, v = ptsL ps ∧ n ≤ ps.length ∧ ∀ p ∈ ps, PtOk p := by
  by_cases hlen : v.length < n
  · simp only [hlen, if_true, bad, reduceCtorEq, false_iff, not_exists, not_and]
    rintro ps rfl h
    rw [ptsL_length] at hlen
    omega
  · simp only [hlen, if_false, points_ok]
    constructor
    · rintro ⟨ps, hps, hok⟩
      refine ⟨ps, hps, ?_, hok⟩
      rw [hps, ptsL_length] at hlen
      omega
    · rintro ⟨ps, hps, _, hok⟩; exact ⟨ps, hps, hok⟩

theorem pointListU_err (n : Nat) (v : L2) (e : VErr) :
    (if v.length < n then (bad : R Unit) else forE chkPoint v) = .error e → e = .invalid := by
  by_cases hlen : v.length < n
  · simp [hlen, bad]; exact fun h => h.symm
  · simp only [hlen, if_false]; exact points_err v e

theorem chkRing_ok (v : L2) : chkRing v = .ok () ↔ ∃ ps, v = ptsL ps ∧ RingOk ps :=
  pointListU_ok 3 v
theorem chkRing_err (v : L2) (e : VErr) : chkRing v = .error e → e = .invalid := pointListU_err 3 v e

theorem rings_ok (v : L3) :
    forE chkRing v = .ok () ↔ ∃ rs, v = ringsL rs ∧ ∀ ring ∈ rs, RingOk ring := by
  rw [forE_ok]
  simp only [chkRing_ok]
  exact forall_enc ptsL RingOk v

theorem rings_err (v : L3) (e : VErr) : forE chkRing v = .error e → e = .invalid := by
  intro h
  obtain ⟨x, _, hx⟩ := forE_err _ _ _ h
  exact chkRing_err x e hx

theorem ringsL_length (rs : List (List Pt)) : (ringsL rs).length = rs.length := by simp [ringsL]
theorem polysL_length (ps : List (List (List Pt))) : (polysL ps).length = ps.length := by simp [polysL]

theorem chkPoly_ok (v : L3) : chkPoly v = .ok () ↔ ∃ rs, v = ringsL rs ∧ PolyOk rs := by
  unfold chkPoly PolyOk
  by_cases hlen : v.length < 1
  · simp only [hlen, if_true, bad, reduceCtorEq, false_iff, not_exists, not_and]
    rintro rs rfl h
    rw [ringsL_length] at hlen
    omega
  · simp only [hlen, if_false, rings_ok]
    constructor
    · rintro ⟨rs, hrs, hok⟩
      refine ⟨rs, hrs, ?_, hok⟩
      rw [hrs, ringsL_length] at hlen
      omega
    · rintro ⟨rs, hrs, _, hok⟩; exact ⟨rs, hrs, hok⟩

theorem chkPoly_err (v : L3) (e : VErr) : chkPoly v = .error e → e = .invalid := by
  unfold chkPoly
  by_cases hlen : v.length < 1
  · simp [hlen, bad]; exact fun h => h.symm
  · simp only [hlen, if_false]; exact rings_err v e

theorem vPolygon_ok (v v' : L3) :
    vPolygon v = .ok v' ↔ v' = v ∧ ∃ rs, v = ringsL rs ∧ PolyOk rs := by
  have h := chkPoly_ok v
  unfold chkPoly at h
  unfold vPolygon
  by_cases hlen : v.length < 1
  · simp only [hlen, if_true, bad, reduceCtorEq, false_iff] at h ⊢
    rintro ⟨_, hx⟩; exact h hx
  · simp only [hlen, if_false] at h ⊢
    cases hf : forE chkRing v with
    | error e => simp only [hf, reduceCtorEq, false_iff] at h ⊢; rintro ⟨_, hx⟩; exact h hx
    | ok u =>
      cases u
      simp only [hf, true_iff] at h
      simp only [Except.ok.injEq]
      exact ⟨fun hh => ⟨hh.symm, h⟩, fun hh => hh.1.symm⟩

theorem vPolygon_err (v : L3) (e : VErr) : vPolygon v = .error e → e = .invalid := by
  unfold vPolygon
  by_cases hlen : v.length < 1
  · simp [hlen, bad]; exact fun h => h.symm
  · simp only [hlen, if_false]
    cases hf : forE chkRing v with
    | error e' => simp; rintro rfl; exact rings_err v _ hf
    | ok u => cases u; simp

theorem polys_ok (v : L4) :
    forE chkPoly v = .ok () ↔ ∃ ps, v = polysL ps ∧ ∀ poly ∈ ps, PolyOk poly := by
  rw [forE_ok]
  simp only [chkPoly_ok]
  exact forall_enc ringsL PolyOk v

theorem polys_err (v : L4) (e : VErr) : forE chkPoly v = .error e → e = .invalid := by
  intro h
  obtain ⟨x, _, hx⟩ := forE_err _ _ _ h
  exact chkPoly_err x e hx

theorem vMultiPolygon_ok (v v' : L4) :
    vMultiPolygon v = .ok v' ↔
      v' = v ∧ ∃ ps, v = polysL ps ∧ 1 ≤ ps.length ∧ ∀ poly ∈ ps, PolyOk poly := by
  unfold vMultiPolygon
  by_cases hlen : v.length < 1
  · simp only [hlen, if_true, bad, reduceCtorEq, false_iff, not_and, not_exists]
    rintro _ ps rfl h
    rw [polysL_length] at hlen
    omega
  · simp only [hlen, if_false]
    cases hf : forE chkPoly v with
    | error e =>
      simp only [reduceCtorEq, false_iff, not_and, not_exists]
      rintro _ ps hps _ hok
      have := (polys_ok v).2 ⟨ps, hps, hok⟩
      simp [hf] at this
    | ok u =>
      cases u
      obtain ⟨ps, hps, hok⟩ := (polys_ok v).1 hf
      simp only [Except.ok.injEq]
      constructor
      · rintro rfl
        refine ⟨rfl, ps, hps, ?_, hok⟩
        rw [hps, polysL_length] at hlen
        omega
      · rintro ⟨rfl, _⟩; rfl

theorem vMultiPolygon_err (v : L4) (e : VErr) : vMultiPolygon v = .error e → e = .invalid := by
  unfold vMultiPolygon
  by_cases hlen : v.length < 1
  · simp [hlen, bad]; exact fun h => h.symm
  · simp only [hlen, if_false]
    cases hf : forE chkPoly v with
    | error e' => simp; rintro rfl; exact polys_err v _ hf
    | ok u => cases u; simp

/-! ### time ordering of lines -/

theorem firstTime_ptsL (ps : List Pt) :
    firstTime (ptsL ps) = match ps.head? with | some p => .ok p.1 | none => crash := by
  cases ps <;> simp [firstTime, ptsL, ptL]

theorem lastTime_ptsL (ps : List Pt) :
    lastTime (ptsL ps) = match ps.getLast? with | some p => .ok p.1 | none => crash := by
  unfold lastTime ptsL
  rw [List.getLast?_map]
  cases ps.getLast? <;> simp [ptL]

theorem head?_getLast?_of_ne_nil {α} (l : List α) (h : l ≠ []) :
    ∃ p q, l.head? = some p ∧ l.getLast? = some q := by
  cases l with
  | nil => exact absurd rfl h
  | cons x xs => exact ⟨x, (x :: xs).getLast (by simp), by simp, List.getLast?_eq_some_getLast (by simp)⟩

theorem vLineString2_ptsL (ps : List Pt) (h : ps ≠ []) :
    vLineString2 (ptsL ps) = .ok (ptsL (orient ps)) := by
  obtain ⟨p, q, hp, hq⟩ := head?_getLast?_of_ne_nil ps h
  unfold vLineString2 orient
  rw [firstTime_ptsL, lastTime_ptsL, hp, hq]
  simp only
  by_cases hpq : p.1 > q.1
  · simp [hpq, ptsL, List.map_reverse]
  · simp [hpq]

theorem chkForward_ptsL (ps : List Pt) (h : ps ≠ []) :
    (chkForward (ptsL ps) = .ok () ↔ Forward ps) ∧
    (∀ e, chkForward (ptsL ps) = .error e → e = .invalid) := by
  obtain ⟨p, q, hp, hq⟩ := head?_getLast?_of_ne_nil ps h
  unfold chkForward Forward
  rw [firstTime_ptsL, lastTime_ptsL, hp, hq]
  simp only
  by_cases hpq : p.1 < q.1
  · simp [hpq]
  · simp [hpq, bad]

theorem chkLine_ok (v : L2) :
    chkLine v = .ok () ↔ ∃ ps, v = ptsL ps ∧ 2 ≤ ps.length ∧ ∀ p ∈ ps, PtOk p :=
  pointListU_ok 2 v
theorem chkLine_err (v : L2) (e : VErr) : chkLine v = .error e → e = .invalid := pointListU_err 2 v e

theorem vMultiLineString1_ok (v v' : L3) :
    vMultiLineString1 v = .ok v' ↔
      v' = v ∧ ∃ ls, v = ringsL ls ∧ 1 ≤ ls.length ∧
        ∀ l ∈ ls, 2 ≤ l.length ∧ ∀ p ∈ l, PtOk p := by
  have key : forE chkLine v = .ok () ↔
      ∃ ls, v = ringsL ls ∧ ∀ l ∈ ls, 2 ≤ l.length ∧ ∀ p ∈ l, PtOk p := by
    rw [forE_ok]
    simp only [chkLine_ok]
    exact forall_enc ptsL (fun l => 2 ≤ l.length ∧ ∀ p ∈ l, PtOk p) v
  unfold vMultiLineString1
  by_cases hlen : v.length < 1
  · simp only [hlen, if_true, bad, reduceCtorEq, false_iff, not_and, not_exists]
    rintro _ ls rfl h
    rw [ringsL_length] at hlen
    omega
  · simp only [hlen, if_false]
    cases hf : forE chkLine v with
    | error e =>
      simp only [reduceCtorEq, false_iff, not_and, not_exists]
      rintro _ ls hls _ hok
      have := key.2 ⟨ls, hls, hok⟩
      simp [hf] at this
    | ok u =>
      cases u
      obtain ⟨ls, hls, hok⟩ := key.1 hf
      simp only [Except.ok.injEq]
      constructor
      · rintro rfl
        refine ⟨rfl, ls, hls, ?_, hok⟩
        rw [hls, ringsL_length] at hlen
        omega
      · rintro ⟨rfl, _⟩; rfl

theorem vMultiLineString1_err (v : L3) (e : VErr) :
    vMultiLineString1 v = .error e → e = .invalid := by
  unfold vMultiLineString1
  by_cases hlen : v.length < 1
  · simp [hlen, bad]; exact fun h => h.symm
  · simp only [hlen, if_false]
    cases hf : forE chkLine v with
    | error e' =>
      simp; rintro rfl
      obtain ⟨x, _, hx⟩ := forE_err _ _ _ hf
      exact chkLine_err x _ hx
    | ok u => cases u; simp

/-- on lines that passed the first validator the second one tests `Forward` and cannot crash -/
theorem vMultiLineString2_ringsL (ls : List (List Pt)) (hne : ∀ l ∈ ls, l ≠ []) :
    (∀ v', vMultiLineString2 (ringsL ls) = .ok v' ↔ v' = ringsL ls ∧ ∀ l ∈ ls, Forward l) ∧
    (∀ e, vMultiLineString2 (ringsL ls) = .error e → e = .invalid) := by
  unfold vMultiLineString2
  cases hf : forE chkForward (ringsL ls) with
  | error e =>
    constructor
    · intro v'
      simp only [reduceCtorEq, false_iff, not_and]
      intro _ hfw
      have : forE chkForward (ringsL ls) = .ok () := by
        rw [forE_ok]
        intro x hx
        simp only [ringsL, List.mem_map] at hx
        obtain ⟨l, hl, rfl⟩ := hx
        exact ((chkForward_ptsL l (hne l hl)).1).2 (hfw l hl)
      simp [hf] at this
    · intro e'
      simp only [Except.error.injEq]
      rintro rfl
      obtain ⟨x, hx, hxe⟩ := forE_err _ _ _ hf
      simp only [ringsL, List.mem_map] at hx
      obtain ⟨l, hl, rfl⟩ := hx
      exact (chkForward_ptsL l (hne l hl)).2 _ hxe
  | ok u =>
    cases u
    constructor
    · intro v'
      simp only [Except.ok.injEq]
      rw [forE_ok] at hf
      constructor
      · rintro rfl
        refine ⟨rfl, fun l hl => ?_⟩
        exact ((chkForward_ptsL l (hne l hl)).1).1 (hf _ (by simp only [ringsL, List.mem_map]; exact ⟨l, hl, rfl⟩))
      · rintro ⟨rfl, _⟩; rfl
    · simp

/-! ### `orient`, `normalise`, `Normal` -/

theorem orient_notBackward (ps : List Pt) : NotBackward (orient ps) := by
  unfold orient
  cases hp : ps.head? with
  | none => simp only; intro p q h1; simp [hp] at h1
  | some p =>
    cases hq : ps.getLast? with
    | none => simp only; intro p' q' _ h2; simp [hq] at h2
    | some q =>
      simp only
      by_cases hpq : p.1 > q.1
      · simp only [hpq, if_true]
        intro p' q' h1 h2
        rw [List.head?_reverse, hq] at h1
        rw [List.getLast?_reverse, hp] at h2
        simp only [Option.some.injEq] at h1 h2
        subst h1 h2
        exact Rat.le_of_lt hpq
      · simp only [hpq, if_false]
        intro p' q' h1 h2
        rw [hp] at h1; rw [hq] at h2
        simp only [Option.some.injEq] at h1 h2
        subst h1 h2
        exact Rat.not_lt.1 hpq

theorem orient_of_notBackward (ps : List Pt) (h : NotBackward ps) : orient ps = ps := by
  unfold orient
  cases hp : ps.head? with
  | none => rfl
  | some p =>
    cases hq : ps.getLast? with
    | none => rfl
    | some q =>
      have := h p q hp hq
      have : ¬ (p.1 > q.1) := Rat.not_lt.2 this
      simp [this]

theorem orient_length (ps : List Pt) : (orient ps).length = ps.length := by
  unfold orient
  split
  · split <;> simp
  · rfl

theorem orient_mem (ps : List Pt) (p : Pt) : p ∈ orient ps ↔ p ∈ ps := by
  unfold orient
  split
  · split <;> simp
  · rfl

theorem bind_err {α β} (x : R α) (f : α → R β) (e : VErr) :
    (x >>= f) = .error e ↔ x = .error e ∨ ∃ a, x = .ok a ∧ f a = .error e := by
  cases x <;> simp [bind, Except.bind]

/-! ### flat types at the typed level -/

theorem timeInterval_typed (v : L1) :
    (∀ g, (fvTimeInterval v >>= mkTimeInterval) = .ok g ↔
      ∃ s e, v = [s, e] ∧ TimeOk s ∧ TimeOk e ∧ s ≤ e ∧ g = .timeInterval s e) ∧
    (∀ err, (fvTimeInterval v >>= mkTimeInterval) = .error err → err = .invalid) := by
  rcases v with _ | ⟨a, _ | ⟨b, _ | ⟨c, v⟩⟩⟩
  · simp [fvTimeInterval, vTimeInterval1, vTimeInterval2, mkTimeInterval, bind, Except.bind, bad]
  · simp [fvTimeInterval, vTimeInterval1, vTimeInterval2, mkTimeInterval, bind, Except.bind, bad]
  · simp only [fvTimeInterval, vTimeInterval1, vTimeInterval2, mkTimeInterval, bind, Except.bind, bad, TimeOk]
    by_cases h1 : a > b
    · simp [h1]; grind
    · by_cases h2 : a < 0
      · simp [h1, h2]; grind
      · by_cases h3 : b < 0
        · simp [h1, h2, h3]; grind
        · simp [h1, h2, h3, mkTimeInterval]; grind
  · simp [fvTimeInterval, vTimeInterval1, vTimeInterval2, mkTimeInterval, bind, Except.bind, bad]

theorem point_typed (v : L1) :
    (∀ g, (vPoint v >>= mkPoint) = .ok g ↔
      ∃ t f, v = [t, f] ∧ TimeOk t ∧ FreqOk f ∧ g = .point t f) ∧
    (∀ err, (vPoint v >>= mkPoint) = .error err → err = .invalid) := by
  rcases v with _ | ⟨a, _ | ⟨b, _ | ⟨c, v⟩⟩⟩
  · simp [vPoint, mkPoint, bind, Except.bind, bad]
  · simp [vPoint, mkPoint, bind, Except.bind, bad]
  · simp only [vPoint, mkPoint, bind, Except.bind, bad, TimeOk, FreqOk]
    by_cases h1 : a < 0
    · simp [h1]; grind
    · by_cases h2 : b < 0 ∨ b > MAXF
      · simp [h1, h2]; grind
      · simp [h1, h2, mkPoint]; grind
  · simp [vPoint, mkPoint, bind, Except.bind, bad]

theorem boundingBox_typed (v : L1) :
    (∀ g, (vBoundingBox v >>= mkBoundingBox) = .ok g ↔
      ∃ s l e h, v = [s, l, e, h] ∧ TimeOk s ∧ FreqOk l ∧ TimeOk e ∧ FreqOk h ∧
        g = .boundingBox (min s e) (min l h) (max s e) (max l h)) ∧
    (∀ err, (vBoundingBox v >>= mkBoundingBox) = .error err → err = .invalid) := by
  rcases v with _ | ⟨a, _ | ⟨b, _ | ⟨c, _ | ⟨d, _ | ⟨x, v⟩⟩⟩⟩⟩
  · simp [vBoundingBox, mkBoundingBox, bind, Except.bind, bad]
  · simp [vBoundingBox, mkBoundingBox, bind, Except.bind, bad]
  · simp [vBoundingBox, mkBoundingBox, bind, Except.bind, bad]
  · simp [vBoundingBox, mkBoundingBox, bind, Except.bind, bad]
  · simp only [vBoundingBox, mkBoundingBox, bind, Except.bind, bad, TimeOk, FreqOk]
    by_cases h1 : a < 0
    · simp [h1]; grind
    · by_cases h2 : b < 0 ∨ b > MAXF
      · simp [h1, h2]; grind
      · by_cases h3 : c < 0
        · simp [h1, h2, h3]; grind
        · by_cases h4 : d < 0 ∨ d > MAXF
          · simp [h1, h2, h3, h4]; grind
          · by_cases h5 : a > c <;> by_cases h6 : b > d <;>
              simp [h1, h2, h3, h4, h5, h6, mkBoundingBox] <;> grind
  · simp [vBoundingBox, mkBoundingBox, bind, Except.bind, bad]

theorem enc1_inj {v w : L1} (h : enc1 v = enc1 w) : v = w := by
  have a := (pL1_ok (enc1 v) v).2 rfl
  have b := (pL1_ok (enc1 v) w).2 h
  rw [a] at b; injection b
theorem enc2_inj {v w : L2} (h : enc2 v = enc2 w) : v = w := by
  have a := (pL2_ok (enc2 v) v).2 rfl
  have b := (pL2_ok (enc2 v) w).2 h
  rw [a] at b; injection b
theorem enc3_inj {v w : L3} (h : enc3 v = enc3 w) : v = w := by
  have a := (pL3_ok (enc3 v) v).2 rfl
  have b := (pL3_ok (enc3 v) w).2 h
  rw [a] at b; injection b
theorem enc4_inj {v w : L4} (h : enc4 v = enc4 w) : v = w := by
  have a := (pL4_ok (enc4 v) v).2 rfl
  have b := (pL4_ok (enc4 v) w).2 h
  rw [a] at b; injection b
theorem ptsL_inj {v w : List Pt} (h : ptsL v = ptsL w) : v = w := by
  have a := (toPts_ok (ptsL v) v).2 rfl
  have b := (toPts_ok (ptsL v) w).2 h
  rw [a] at b; injection b
theorem ringsL_inj {v w : List (List Pt)} (h : ringsL v = ringsL w) : v = w := by
  have a := (toRings_ok (ringsL v) v).2 rfl
  have b := (toRings_ok (ringsL v) w).2 h
  rw [a] at b; injection b
theorem polysL_inj {v w : List (List (List Pt))} (h : polysL v = polysL w) : v = w := by
  have a := (toPolys_ok (polysL v) v).2 rfl
  have b := (toPolys_ok (polysL v) w).2 h
  rw [a] at b; injection b

/-- what `C03_result` says, per class -/
def ResultSpec (ty : GType) (r : Raw) : Prop :=
  (∀ g, validate ty r = .ok g ↔
    ∃ c, GType.of c = ty ∧ r = dump c ∧ Admissible c ∧ g = normalise c) ∧
  (∀ err, validate ty r = .error err → err = .invalid)

theorem spec_timeInterval (r : Raw) : ResultSpec .timeInterval r := by
  unfold ResultSpec validate
  cases hp : pL1 r with
  | error e0 =>
    have := pL1_err r e0 hp; subst this
    simp only [hp, bind, Except.bind]
    refine ⟨fun g => ?_, fun _ h => by simpa using h.symm⟩
    simp only [reduceCtorEq, false_iff, not_exists, not_and]
    intro c hc hd
    cases c <;> simp [GType.of] at hc
    rename_i s e
    have : pL1 r = .ok [s, e] := (pL1_ok r _).2 (by rw [hd]; simp [dump, enc1])
    rw [hp] at this; cases this
  | ok v =>
    have hr := (pL1_ok r v).1 hp
    obtain ⟨h1, h2⟩ := timeInterval_typed v
    simp only [hp, bind, Except.bind] at h1 h2 ⊢
    refine ⟨fun g => ?_, h2⟩
    rw [h1 g]
    constructor
    · rintro ⟨s, e, rfl, hs, he, hse, rfl⟩
      exact ⟨.timeInterval s e, rfl, by simp [hr, enc1, dump], ⟨hs, he, hse⟩, rfl⟩
    · rintro ⟨c, hc, hd, ha, rfl⟩
      cases c <;> simp [GType.of] at hc
      rename_i s e
      have : v = [s, e] := enc1_inj (by rw [← hr, hd]; simp [dump, enc1])
      exact ⟨s, e, this, ha.1, ha.2.1, ha.2.2, rfl⟩

theorem spec_point (r : Raw) : ResultSpec .point r := by
  unfold ResultSpec validate
  cases hp : pL1 r with
  | error e0 =>
    have := pL1_err r e0 hp; subst this
    simp only [hp, bind, Except.bind]
    refine ⟨fun g => ?_, fun _ h => by simpa using h.symm⟩
    simp only [reduceCtorEq, false_iff, not_exists, not_and]
    intro c hc hd
    cases c <;> simp [GType.of] at hc
    rename_i s e
    have : pL1 r = .ok [s, e] := (pL1_ok r _).2 (by rw [hd]; simp [dump, enc1, encPt])
    rw [hp] at this; cases this
  | ok v =>
    have hr := (pL1_ok r v).1 hp
    obtain ⟨h1, h2⟩ := point_typed v
    simp only [hp, bind, Except.bind] at h1 h2 ⊢
    refine ⟨fun g => ?_, h2⟩
    rw [h1 g]
    constructor
    · rintro ⟨s, e, rfl, hs, he, rfl⟩
      exact ⟨.point s e, rfl, by simp [hr, enc1, dump, encPt], ⟨hs, he⟩, rfl⟩
    · rintro ⟨c, hc, hd, ha, rfl⟩
      cases c <;> simp [GType.of] at hc
      rename_i s e
      have : v = [s, e] := enc1_inj (by rw [← hr, hd]; simp [dump, enc1, encPt])
      exact ⟨s, e, this, ha.1, ha.2, rfl⟩

theorem spec_boundingBox (r : Raw) : ResultSpec .boundingBox r := by
  unfold ResultSpec validate
  cases hp : pL1 r with
  | error e0 =>
    have := pL1_err r e0 hp; subst this
    simp only [hp, bind, Except.bind]
    refine ⟨fun g => ?_, fun _ h => by simpa using h.symm⟩
    simp only [reduceCtorEq, false_iff, not_exists, not_and]
    intro c hc hd
    cases c <;> simp [GType.of] at hc
    rename_i s l e h
    have : pL1 r = .ok [s, l, e, h] := (pL1_ok r _).2 (by rw [hd]; simp [dump, enc1])
    rw [hp] at this; cases this
  | ok v =>
    have hr := (pL1_ok r v).1 hp
    obtain ⟨h1, h2⟩ := boundingBox_typed v
    simp only [hp, bind, Except.bind] at h1 h2 ⊢
    refine ⟨fun g => ?_, h2⟩
    rw [h1 g]
    constructor
    · rintro ⟨s, l, e, h, rfl, hs, hl, he, hh, rfl⟩
      exact ⟨.boundingBox s l e h, rfl, by simp [hr, enc1, dump], ⟨hs, hl, he, hh⟩, rfl⟩
    · rintro ⟨c, hc, hd, ha, rfl⟩
      cases c <;> simp [GType.of] at hc
      rename_i s l e h
      have : v = [s, l, e, h] := enc1_inj (by rw [← hr, hd]; simp [dump, enc1])
      exact ⟨s, l, e, h, this, ha.1, ha.2.1, ha.2.2.1, ha.2.2.2, rfl⟩

theorem spec_timeStamp (r : Raw) : ResultSpec .timeStamp r := by
  unfold ResultSpec validate
  cases r with
  | arr xs =>
    simp only [pNum, bad, bind, Except.bind]
    refine ⟨fun g => ?_, fun _ h => by simpa using h.symm⟩
    simp only [reduceCtorEq, false_iff, not_exists, not_and]
    intro c hc hd
    cases c <;> simp [GType.of] at hc
    simp [dump] at hd
  | num q =>
    simp only [pNum, vTimeStamp, bad, bind, Except.bind]
    by_cases h : q < 0
    · simp only [h, if_true]
      refine ⟨fun g => ?_, fun _ h => by simpa using h.symm⟩
      simp only [reduceCtorEq, false_iff, not_exists, not_and]
      intro c hc hd ha
      cases c <;> simp [GType.of] at hc
      simp only [dump, Raw.num.injEq] at hd
      subst hd
      simp only [Admissible, TimeOk] at ha
      exact absurd h (Rat.not_lt.2 ha)
    · simp only [h, if_false]
      refine ⟨fun g => ?_, fun _ h => by simp at h⟩
      simp only [Except.ok.injEq]
      constructor
      · rintro rfl
        exact ⟨.timeStamp q, rfl, rfl, Rat.not_lt.1 h, rfl⟩
      · rintro ⟨c, hc, hd, _, rfl⟩
        cases c <;> simp [GType.of] at hc
        simp only [dump, Raw.num.injEq] at hd
        subst hd
        rfl

theorem spec_multiPoint (r : Raw) : ResultSpec .multiPoint r := by
  unfold ResultSpec validate
  cases hp : pL2 r with
  | error e0 =>
    have := pL2_err r e0 hp; subst this
    simp only [hp, bind, Except.bind]
    refine ⟨fun g => ?_, fun _ h => by simpa using h.symm⟩
    simp only [reduceCtorEq, false_iff, not_exists, not_and]
    intro c hc hd
    cases c <;> simp [GType.of] at hc
    rename_i ps
    have : pL2 r = .ok (ptsL ps) := (pL2_ok r _).2 (by rw [hd, enc2_ptsL]; rfl)
    rw [hp] at this; cases this
  | ok v =>
    have hr := (pL2_ok r v).1 hp
    simp only [hp, bind, Except.bind]
    cases hv : vMultiPoint v with
    | error e1 =>
      have := pointList_err 1 v e1 hv; subst this
      simp only
      refine ⟨fun g => ?_, fun _ h => by simpa using h.symm⟩
      simp only [reduceCtorEq, false_iff, not_exists, not_and]
      intro c hc hd ha
      cases c <;> simp [GType.of] at hc
      rename_i ps
      have hvp : v = ptsL ps := enc2_inj (by rw [← hr, hd, enc2_ptsL]; rfl)
      have : vMultiPoint v = .ok v := (pointList_ok 1 v v).2 ⟨rfl, ps, hvp, ha.1, ha.2⟩
      rw [hv] at this; cases this
    | ok v' =>
      obtain ⟨rfl, ps, hps, hlen, hok⟩ := (pointList_ok 1 v v').1 hv
      have ht : toPts v' = .ok ps := (toPts_ok _ _).2 hps
      simp only [ht]
      refine ⟨fun g => ?_, fun _ h => by simp at h⟩
      simp only [Except.ok.injEq]
      constructor
      · rintro rfl
        exact ⟨.multiPoint ps, rfl, by rw [hr, hps, enc2_ptsL]; rfl, ⟨hlen, hok⟩, rfl⟩
      · rintro ⟨c, hc, hd, hadm, rfl⟩
        cases c <;> simp [GType.of] at hc
        rename_i ps'
        have : ps = ps' := ptsL_inj (by rw [← hps]; exact enc2_inj (by rw [← hr, hd, enc2_ptsL]; rfl))
        subst this; rfl

theorem spec_lineString (r : Raw) : ResultSpec .lineString r := by
  unfold ResultSpec validate
  cases hp : pL2 r with
  | error e0 =>
    have := pL2_err r e0 hp; subst this
    simp only [hp, bind, Except.bind]
    refine ⟨fun g => ?_, fun _ h => by simpa using h.symm⟩
    simp only [reduceCtorEq, false_iff, not_exists, not_and]
    intro c hc hd
    cases c <;> simp [GType.of] at hc
    rename_i ps
    have : pL2 r = .ok (ptsL ps) := (pL2_ok r _).2 (by rw [hd, enc2_ptsL]; rfl)
    rw [hp] at this; cases this
  | ok v =>
    have hr := (pL2_ok r v).1 hp
    simp only [hp, fvLineString, bind, Except.bind]
    cases hv : vLineString1 v with
    | error e1 =>
      have := pointList_err 2 v e1 hv; subst this
      simp only
      refine ⟨fun g => ?_, fun _ h => by simpa using h.symm⟩
      simp only [reduceCtorEq, false_iff, not_exists, not_and]
      intro c hc hd ha
      cases c <;> simp [GType.of] at hc
      rename_i ps
      have hvp : v = ptsL ps := enc2_inj (by rw [← hr, hd, enc2_ptsL]; rfl)
      have : vLineString1 v = .ok v := (pointList_ok 2 v v).2 ⟨rfl, ps, hvp, ha.1, ha.2⟩
      rw [hv] at this; cases this
    | ok v' =>
      obtain ⟨rfl, ps, hps, hlen, hok⟩ := (pointList_ok 2 v v').1 hv
      have hne : ps ≠ [] := by rintro rfl; simp at hlen
      have h2 : vLineString2 v' = .ok (ptsL (orient ps)) := by rw [hps]; exact vLineString2_ptsL ps hne
      have ht : toPts (ptsL (orient ps)) = .ok (orient ps) := (toPts_ok _ _).2 rfl
      simp only [h2, ht]
      refine ⟨fun g => ?_, fun _ h => by simp at h⟩
      simp only [Except.ok.injEq]
      constructor
      · rintro rfl
        exact ⟨.lineString ps, rfl, by rw [hr, hps, enc2_ptsL]; rfl, ⟨hlen, hok⟩, rfl⟩
      · rintro ⟨c, hc, hd, hadm, rfl⟩
        cases c <;> simp [GType.of] at hc
        rename_i ps'
        have : ps = ps' := ptsL_inj (by rw [← hps]; exact enc2_inj (by rw [← hr, hd, enc2_ptsL]; rfl))
        subst this; rfl

theorem spec_polygon (r : Raw) : ResultSpec .polygon r := by
  unfold ResultSpec validate
  cases hp : pL3 r with
  | error e0 =>
    have := pL3_err r e0 hp; subst this
    simp only [hp, bind, Except.bind]
    refine ⟨fun g => ?_, fun _ h => by simpa using h.symm⟩
    simp only [reduceCtorEq, false_iff, not_exists, not_and]
    intro c hc hd
    cases c <;> simp [GType.of] at hc
    rename_i rs
    have : pL3 r = .ok (ringsL rs) := (pL3_ok r _).2 (by rw [hd, enc3_ringsL]; rfl)
    rw [hp] at this; cases this
  | ok v =>
    have hr := (pL3_ok r v).1 hp
    simp only [hp, bind, Except.bind]
    cases hv : vPolygon v with
    | error e1 =>
      have := vPolygon_err v e1 hv; subst this
      simp only
      refine ⟨fun g => ?_, fun _ h => by simpa using h.symm⟩
      simp only [reduceCtorEq, false_iff, not_exists, not_and]
      intro c hc hd ha
      cases c <;> simp [GType.of] at hc
      rename_i rs
      have hvp : v = ringsL rs := enc3_inj (by rw [← hr, hd, enc3_ringsL]; rfl)
      have : vPolygon v = .ok v := (vPolygon_ok v v).2 ⟨rfl, rs, hvp, ha⟩
      rw [hv] at this; cases this
    | ok v' =>
      obtain ⟨rfl, rs, hrs, hok⟩ := (vPolygon_ok v v').1 hv
      have ht : toRings v' = .ok rs := (toRings_ok _ _).2 hrs
      simp only [ht]
      refine ⟨fun g => ?_, fun _ h => by simp at h⟩
      simp only [Except.ok.injEq]
      constructor
      · rintro rfl
        exact ⟨.polygon rs, rfl, by rw [hr, hrs, enc3_ringsL]; rfl, hok, rfl⟩
      · rintro ⟨c, hc, hd, hadm, rfl⟩
        cases c <;> simp [GType.of] at hc
        rename_i rs'
        have : rs = rs' := ringsL_inj (by rw [← hrs]; exact enc3_inj (by rw [← hr, hd, enc3_ringsL]; rfl))
        subst this; rfl

theorem spec_multiPolygon (r : Raw) : ResultSpec .multiPolygon r := by
  unfold ResultSpec validate
  cases hp : pL4 r with
  | error e0 =>
    have := pL4_err r e0 hp; subst this
    simp only [hp, bind, Except.bind]
    refine ⟨fun g => ?_, fun _ h => by simpa using h.symm⟩
    simp only [reduceCtorEq, false_iff, not_exists, not_and]
    intro c hc hd
    cases c <;> simp [GType.of] at hc
    rename_i ps
    have : pL4 r = .ok (polysL ps) := (pL4_ok r _).2 (by rw [hd, enc4_polysL]; rfl)
    rw [hp] at this; cases this
  | ok v =>
    have hr := (pL4_ok r v).1 hp
    simp only [hp, bind, Except.bind]
    cases hv : vMultiPolygon v with
    | error e1 =>
      have := vMultiPolygon_err v e1 hv; subst this
      simp only
      refine ⟨fun g => ?_, fun _ h => by simpa using h.symm⟩
      simp only [reduceCtorEq, false_iff, not_exists, not_and]
      intro c hc hd ha
      cases c <;> simp [GType.of] at hc
      rename_i ps
      have hvp : v = polysL ps := enc4_inj (by rw [← hr, hd, enc4_polysL]; rfl)
      have : vMultiPolygon v = .ok v := (vMultiPolygon_ok v v).2 ⟨rfl, ps, hvp, ha.1, ha.2⟩
      rw [hv] at this; cases this
    | ok v' =>
      obtain ⟨rfl, ps, hps, hlen, hok⟩ := (vMultiPolygon_ok v v').1 hv
      have ht : toPolys v' = .ok ps := (toPolys_ok _ _).2 hps
      simp only [ht]
      refine ⟨fun g => ?_, fun _ h => by simp at h⟩
      simp only [Except.ok.injEq]
      constructor
      · rintro rfl
        exact ⟨.multiPolygon ps, rfl, by rw [hr, hps, enc4_polysL]; rfl, ⟨hlen, hok⟩, rfl⟩
      · rintro ⟨c, hc, hd, hadm, rfl⟩
        cases c <;> simp [GType.of] at hc
        rename_i ps'
        have : ps = ps' := polysL_inj (by rw [← hps]; exact enc4_inj (by rw [← hr, hd, enc4_polysL]; rfl))
        subst this; rfl

theorem spec_multiLineString (r : Raw) : ResultSpec .multiLineString r := by
  unfold ResultSpec validate
  cases hp : pL3 r with
  | error e0 =>
    have := pL3_err r e0 hp; subst this
    simp only [hp, bind, Except.bind]
    refine ⟨fun g => ?_, fun _ h => by simpa using h.symm⟩
    simp only [reduceCtorEq, false_iff, not_exists, not_and]
    intro c hc hd
    cases c <;> simp [GType.of] at hc
    rename_i ls
    have : pL3 r = .ok (ringsL ls) := (pL3_ok r _).2 (by rw [hd, enc3_ringsL]; rfl)
    rw [hp] at this; cases this
  | ok v =>
    have hr := (pL3_ok r v).1 hp
    simp only [hp, fvMultiLineString, bind, Except.bind]
    cases hv : vMultiLineString1 v with
    | error e1 =>
      have := vMultiLineString1_err v e1 hv; subst this
      simp only
      refine ⟨fun g => ?_, fun _ h => by simpa using h.symm⟩
      simp only [reduceCtorEq, false_iff, not_exists, not_and]
      intro c hc hd ha
      cases c <;> simp [GType.of] at hc
      rename_i ls
      have hvp : v = ringsL ls := enc3_inj (by rw [← hr, hd, enc3_ringsL]; rfl)
      have : vMultiLineString1 v = .ok v :=
        (vMultiLineString1_ok v v).2 ⟨rfl, ls, hvp, ha.1, fun l hl => ⟨(ha.2 l hl).1, (ha.2 l hl).2.1⟩⟩
      rw [hv] at this; cases this
    | ok v' =>
      obtain ⟨rfl, ls, hls, hlen, hok⟩ := (vMultiLineString1_ok v v').1 hv
      have hne : ∀ l ∈ ls, l ≠ [] := by
        intro l hl h0; have := (hok l hl).1; rw [h0] at this; simp at this
      obtain ⟨k1, k2⟩ := vMultiLineString2_ringsL ls hne
      rw [← hls] at k1 k2
      cases hw : vMultiLineString2 v' with
      | error e2 =>
        have := k2 e2 hw; subst this
        simp only [hw]
        refine ⟨fun g => ?_, fun _ h => by simpa using h.symm⟩
        simp only [reduceCtorEq, false_iff, not_exists, not_and]
        intro c hc hd ha
        cases c <;> simp [GType.of] at hc
        rename_i ls'
        have : ls = ls' := ringsL_inj (by rw [← hls]; exact enc3_inj (by rw [← hr, hd, enc3_ringsL]; rfl))
        subst this
        have : vMultiLineString2 v' = .ok v' := (k1 v').2 ⟨rfl, fun l hl => (ha.2 l hl).2.2⟩
        rw [hw] at this; cases this
      | ok v'' =>
        obtain ⟨rfl, hfw⟩ := (k1 v'').1 hw
        have ht : toRings v'' = .ok ls := (toRings_ok _ _).2 hls
        simp only [hw, ht]
        refine ⟨fun g => ?_, fun _ h => by simp at h⟩
        simp only [Except.ok.injEq]
        constructor
        · rintro rfl
          exact ⟨.multiLineString ls, rfl, by rw [hr, hls, enc3_ringsL]; rfl,
            ⟨hlen, fun l hl => ⟨(hok l hl).1, (hok l hl).2, hfw l hl⟩⟩, rfl⟩
        · rintro ⟨c, hc, hd, hadm, rfl⟩
          cases c <;> simp [GType.of] at hc
          rename_i ls'
          have : ls = ls' := ringsL_inj (by rw [← hls]; exact enc3_inj (by rw [← hr, hd, enc3_ringsL]; rfl))
          subst this; rfl

theorem validate_spec (ty : GType) (r : Raw) : ResultSpec ty r := by
  cases ty
  · exact spec_timeStamp r
  · exact spec_timeInterval r
  · exact spec_point r
  · exact spec_lineString r
  · exact spec_polygon r
  · exact spec_boundingBox r
  · exact spec_multiPoint r
  · exact spec_multiLineString r
  · exact spec_multiPolygon r

/-! ### normalisation -/

theorem of_normalise (c : Geom) : GType.of (normalise c) = GType.of c := by
  cases c <;> rfl

theorem tag_eq (g : Geom) : g.tag = (GType.of g).tag := by cases g <;> rfl

theorem normalise_valid (c : Geom) (h : Admissible c) : Valid (normalise c) := by
  cases c with
  | boundingBox s l e hh =>
    simp only [Admissible, TimeOk, FreqOk] at h
    simp only [normalise, Valid, Admissible, Normal, TimeOk, FreqOk]
    grind
  | lineString ps =>
    simp only [Admissible] at h
    simp only [normalise, Valid, Admissible, Normal]
    refine ⟨⟨by rw [orient_length]; exact h.1, fun p hp => h.2 p ((orient_mem ps p).1 hp)⟩,
      orient_notBackward ps⟩
  | _ => exact ⟨h, trivial⟩

theorem normalise_of_valid (g : Geom) (h : Valid g) : normalise g = g := by
  cases g with
  | boundingBox s l e hh =>
    simp only [Valid, Admissible, Normal] at h
    simp only [normalise]
    have h1 : min s e = s := by grind
    have h2 : max s e = e := by grind
    have h3 : min l hh = l := by grind
    have h4 : max l hh = hh := by grind
    rw [h1, h2, h3, h4]
  | lineString ps =>
    simp only [Valid, Normal] at h
    simp only [normalise, orient_of_notBackward ps h.2]
  | _ => rfl

/-! ### `decode` is the inverse of `dump` -/

theorem mapO_some {α β} (d : α → Option β) (e : β → α) (h : ∀ x y, d x = some y ↔ x = e y)
    (xs : List α) (ys : List β) : mapO d xs = some ys ↔ xs = ys.map e := by
  induction xs generalizing ys with
  | nil => cases ys <;> simp [mapO]
  | cons x xs ih =>
    simp only [mapO]
    cases hx : d x with
    | none =>
      cases ys with
      | nil => simp
      | cons y' ys' =>
        simp only [reduceCtorEq, List.map_cons, List.cons.injEq, false_iff, not_and]
        intro hxe
        have := (h x y').2 hxe
        simp [hx] at this
    | some y =>
      have hy := (h x y).1 hx
      cases hxs : mapO d xs with
      | none =>
        cases ys with
        | nil => simp
        | cons y' ys' =>
          simp only [reduceCtorEq, List.map_cons, List.cons.injEq, false_iff, not_and]
          intro _ h2
          have := (ih ys').2 h2
          simp [hxs] at this
      | some ys0 =>
        have h0 := (ih ys0).1 hxs
        cases ys with
        | nil => simp
        | cons y' ys' =>
          simp only [Option.some.injEq, List.cons.injEq, List.map_cons]
          constructor
          · rintro ⟨rfl, rfl⟩; exact ⟨hy, h0⟩
          · rintro ⟨h1, h2⟩
            have e1 := (h x y').2 h1
            rw [hx] at e1
            have e2 := (ih ys').2 h2
            rw [hxs] at e2
            simp_all

theorem dPt_some (r : Raw) (p : Pt) : dPt r = some p ↔ r = encPt p := by
  unfold dPt encPt
  split
  · rename_i t f
    simp only [Option.some.injEq, Raw.arr.injEq, List.cons.injEq, Raw.num.injEq, and_true]
    constructor
    · rintro rfl; simp
    · rintro ⟨h1, h2⟩; exact Prod.ext h1 h2
  · rename_i h
    simp only [reduceCtorEq, false_iff]
    intro hr
    exact h _ _ hr

theorem dList_some {α} (d : Raw → Option α) (e : α → Raw) (h : ∀ r a, d r = some a ↔ r = e a)
    (r : Raw) (as : List α) : dList d r = some as ↔ r = .arr (as.map e) := by
  cases r with
  | num q => simp [dList]
  | arr xs => simp [dList, mapO_some d e h]

theorem dPts_some (r : Raw) (ps : List Pt) : dList dPt r = some ps ↔ r = encPts ps :=
  dList_some _ _ dPt_some r ps
theorem dRings_some (r : Raw) (rs : List (List Pt)) : dList (dList dPt) r = some rs ↔ r = encRings rs :=
  dList_some _ _ dPts_some r rs
theorem dPolys_some (r : Raw) (ps : List (List (List Pt))) :
    dList (dList (dList dPt)) r = some ps ↔ r = encPolys ps :=
  dList_some _ _ dRings_some r ps

theorem decode_dump (c : Geom) : decode (GType.of c) (dump c) = some c := by
  cases c with
  | timeStamp t => rfl
  | timeInterval s e => rfl
  | point t f => rfl
  | boundingBox s l e h => rfl
  | lineString ps => simp only [GType.of, dump, decode, (dPts_some _ ps).2 rfl, Option.map]
  | multiPoint ps => simp only [GType.of, dump, decode, (dPts_some _ ps).2 rfl, Option.map]
  | polygon rs => simp only [GType.of, dump, decode, (dRings_some _ rs).2 rfl, Option.map]
  | multiLineString rs => simp only [GType.of, dump, decode, (dRings_some _ rs).2 rfl, Option.map]
  | multiPolygon ps => simp only [GType.of, dump, decode, (dPolys_some _ ps).2 rfl, Option.map]

theorem decode_some (ty : GType) (r : Raw) (c : Geom) :
    decode ty r = some c ↔ GType.of c = ty ∧ r = dump c := by
  constructor
  · intro h
    unfold decode at h
    split at h
    all_goals first
      | (simp only [reduceCtorEq] at h; done)
      | (simp only [Option.some.injEq] at h; subst h; exact ⟨rfl, rfl⟩)
      | (simp only [Option.map_eq_some_iff] at h
         obtain ⟨x, hx, rfl⟩ := h
         first
           | exact ⟨rfl, (dPts_some _ _).1 hx⟩
           | exact ⟨rfl, (dRings_some _ _).1 hx⟩
           | exact ⟨rfl, (dPolys_some _ _).1 hx⟩)
  · rintro ⟨rfl, rfl⟩; exact decode_dump c

/-! ### the Boolean forms decide the declarative ones -/

theorem timeOkB_iff (t : Rat) : timeOkB t = true ↔ TimeOk t := by simp [timeOkB, TimeOk]
theorem freqOkB_iff (f : Rat) : freqOkB f = true ↔ FreqOk f := by simp [freqOkB, FreqOk]
theorem ptOkB_iff (p : Pt) : ptOkB p = true ↔ PtOk p := by
  simp [ptOkB, PtOk, timeOkB_iff, freqOkB_iff]
theorem allPtOkB_iff (ps : List Pt) : ps.all ptOkB = true ↔ ∀ p ∈ ps, PtOk p := by
  simp [List.all_eq_true, ptOkB_iff]
theorem ringOkB_iff (ring : List Pt) : ringOkB ring = true ↔ RingOk ring := by
  simp only [ringOkB, RingOk, Bool.and_eq_true, decide_eq_true_eq, allPtOkB_iff]
theorem polyOkB_iff (rs : List (List Pt)) : polyOkB rs = true ↔ PolyOk rs := by
  simp only [polyOkB, PolyOk, Bool.and_eq_true, decide_eq_true_eq, List.all_eq_true, ringOkB_iff]
theorem forwardB_iff (line : List Pt) : forwardB line = true ↔ Forward line := by
  unfold forwardB Forward
  cases hp : line.head? with
  | none => simp
  | some p =>
    cases hq : line.getLast? with
    | none => simp
    | some q => simp
theorem lineOkB_iff (line : List Pt) : lineOkB line = true ↔ LineOk line := by
  simp only [lineOkB, LineOk, Bool.and_eq_true, decide_eq_true_eq, allPtOkB_iff, forwardB_iff, and_assoc]
theorem notBackwardB_iff (line : List Pt) : notBackwardB line = true ↔ NotBackward line := by
  unfold notBackwardB NotBackward
  cases hp : line.head? with
  | none => simp
  | some p =>
    cases hq : line.getLast? with
    | none => simp
    | some q => simp

theorem admissibleB_iff (c : Geom) : admissibleB c = true ↔ Admissible c := by
  cases c <;>
    simp only [admissibleB, Admissible, Bool.and_eq_true, decide_eq_true_eq, timeOkB_iff, freqOkB_iff,
      allPtOkB_iff, polyOkB_iff, List.all_eq_true, lineOkB_iff, ptOkB_iff, and_assoc]

theorem normalB_iff (g : Geom) : normalB g = true ↔ Normal g := by
  cases g <;> simp [normalB, Normal, notBackwardB_iff]

theorem specB_iff (ty : GType) (r : Raw) : specB ty r = true ↔ Spec ty r := by
  unfold specB Spec
  cases hd : decode ty r with
  | none =>
    simp only [Bool.false_eq_true, false_iff, not_exists, not_and]
    intro c hc hr
    have := (decode_some ty r c).2 ⟨hc, hr⟩
    rw [hd] at this; cases this
  | some c =>
    obtain ⟨hc, hr⟩ := (decode_some ty r c).1 hd
    simp only [admissibleB_iff]
    constructor
    · intro h; exact ⟨c, hc, hr, h⟩
    · rintro ⟨c', hc', hr', h⟩
      have := (decode_some ty r c').2 ⟨hc', hr'⟩
      rw [hd] at this
      cases this
      exact h

/-! ### the tag table -/

theorem ofTag_some (s : String) (ty : GType) : GType.ofTag s = some ty ↔ ty.tag = s := by
  constructor
  · intro h
    have := List.find?_some h
    simpa using this
  · rintro rfl
    cases ty <;> decide

theorem lookup_mem {α} (tbl : List (String × α)) (k : String) (c : α) :
    tbl.lookup k = some c → (k, c) ∈ tbl := by
  induction tbl with
  | nil => simp [List.lookup]
  | cons kc tbl ih =>
    obtain ⟨k', c'⟩ := kc
    simp only [List.lookup]
    by_cases hk : k = k'
    · subst hk; simp; exact fun h => Or.inl h.symm
    · have : (k == k') = false := by simpa using hk
      simp only [this]
      intro h
      exact List.mem_cons_of_mem _ (ih h)

theorem all_mem (ty : GType) : ty ∈ GType.all := by cases ty <;> decide

theorem wellFormedB_sound (tbl : Table) (h : wellFormedB tbl = true) : WellFormed tbl := by
  unfold wellFormedB at h
  simp only [Bool.and_eq_true, List.all_eq_true, beq_iff_eq] at h
  refine ⟨fun ty => h.1 ty (all_mem ty), fun k c hk => ?_⟩
  exact h.2 (k, c) (lookup_mem tbl k c hk)

/-- a well-formed table behaves like the ideal one on every tag -/
theorem lookup_of_wellFormed (tbl : Table) (h : WellFormed tbl) (t : String) :
    tbl.lookup t = (GType.ofTag t).map fun ty => ⟨ty, ty.tag, ty.tag⟩ := by
  cases ht : GType.ofTag t with
  | some ty =>
    have := (ofTag_some t ty).1 ht
    subst this
    simp only [Option.map]
    exact h.1 ty
  | none =>
    simp only [Option.map]
    cases hl : tbl.lookup t with
    | none => rfl
    | some c =>
      have := h.2 t c hl
      rw [ht] at this; cases this

theorem classValidate_ideal (ty : GType) (fa : Bool) (src : Source) :
    classValidate ⟨ty, ty.tag, ty.tag⟩ fa src =
      match src with
      | .mapping t (some r) =>
        if t = none ∨ t = some ty.tag then (validate ty r).map fun g => (ty.tag, g) else .error .invalid
      | .object t (some r) =>
        if fa = true ∧ (t = none ∨ t = some ty.tag) then (validate ty r).map fun g => (ty.tag, g)
        else .error .invalid
      | _ => .error .invalid := by
  rcases src with ⟨_ | t, _ | r⟩ | ⟨_ | t, _ | r⟩ | _ <;> cases fa <;>
    simp only [classValidate, classValidate.fields, bad, true_or, if_true, reduceCtorEq,
      false_or, Option.some.injEq, Bool.false_eq_true, if_false, false_and, true_and] <;>
    (try rfl) <;>
    (by_cases h : t = ty.tag <;> simp [h])

/-! ### `geom_type()`, the construction of the table, the `Geometry` union (review additions) -/

theorem tag_inj {a b : GType} (h : a.tag = b.tag) : a = b := by
  have h1 := (ofTag_some a.tag a).2 rfl
  have h2 := (ofTag_some a.tag b).2 h.symm
  rw [h1] at h2
  injection h2

theorem membersOkB_sound (members : List Cls) (h : membersOkB members = true) : MembersOk members := by
  unfold membersOkB at h
  simp only [Bool.and_eq_true, List.all_eq_true, beq_iff_eq, List.contains_iff_mem] at h
  exact ⟨fun c hc => h.1 c hc, fun ty => h.2 ty (all_mem ty)⟩

theorem lookup_ideal (l : List (String × Cls))
    (h : ∀ kc ∈ l, kc.2 = ⟨kc.2.ty, kc.2.ty.tag, kc.2.ty.tag⟩ ∧ kc.1 = kc.2.ty.tag)
    (ty : GType) (hmem : (ty.tag, (⟨ty, ty.tag, ty.tag⟩ : Cls)) ∈ l) :
    l.lookup ty.tag = some ⟨ty, ty.tag, ty.tag⟩ := by
  induction l with
  | nil => cases hmem
  | cons kc l ih =>
    obtain ⟨k, c⟩ := kc
    have hh := h (k, c) (by simp)
    simp only at hh
    simp only [List.lookup]
    by_cases hk : ty.tag = k
    · have : (ty.tag == k) = true := by simpa using hk
      simp only [this]
      have hty : ty = c.ty := tag_inj (hk.trans hh.2)
      rw [hh.1, ← hty]
    · have : (ty.tag == k) = false := by simpa using hk
      simp only [this]
      apply ih (fun kc hkc => h kc (List.mem_cons_of_mem _ hkc))
      rcases List.mem_cons.1 hmem with h1 | h1
      · injection h1 with h1 _; exact absurd h1 hk
      · exact h1

theorem buildTable_wellFormed (classes : List Cls) (h : MembersOk classes) :
    WellFormed (buildTable classes) := by
  have hall : ∀ kc ∈ buildTable classes,
      kc.2 = ⟨kc.2.ty, kc.2.ty.tag, kc.2.ty.tag⟩ ∧ kc.1 = kc.2.ty.tag := by
    intro kc hkc
    simp only [buildTable, List.mem_reverse, List.mem_map] at hkc
    obtain ⟨c, hc, rfl⟩ := hkc
    have := h.1 c hc
    refine ⟨this, ?_⟩
    simp only [Cls.geomType]
    rw [this]
  refine ⟨fun ty => lookup_ideal _ hall ty ?_, fun k c hk => ?_⟩
  · simp only [buildTable, List.mem_reverse, List.mem_map]
    exact ⟨⟨ty, ty.tag, ty.tag⟩, h.2 ty, rfl⟩
  · have := hall (k, c) (lookup_mem _ k c hk)
    simp only at this
    exact (ofTag_some k c.ty).2 this.2.symm

/-- if every member's outcome is either `X` or a validation error, nothing crashes, and the union
    returns `X` as soon as one member's outcome is `X` -/
theorem pickUnion_spec (X : R Obj) (hX : X ≠ .error .crash) (rs : List (R Obj))
    (h : ∀ r ∈ rs, r = X ∨ r = .error .invalid) :
    pickUnion rs = X ∨ (pickUnion rs = .error .invalid ∧ ∀ r ∈ rs, r = .error .invalid) := by
  induction rs with
  | nil => right; exact ⟨rfl, fun r hr => by cases hr⟩
  | cons r rs ih =>
    have ih' := ih (fun r' hr' => h r' (List.mem_cons_of_mem _ hr'))
    rcases h r (by simp) with hr | hr
    · -- the head is X
      subst hr
      left
      cases hx : r with
      | ok o =>
        rcases ih' with h1 | ⟨h1, _⟩
        · rw [hx] at h1; simp only [pickUnion, h1]
        · simp only [pickUnion, h1]
      | error e =>
        cases e with
        | crash => exact absurd hx hX
        | invalid =>
          rcases ih' with h1 | ⟨h1, _⟩
          · rw [hx] at h1; simp only [pickUnion, h1]
          · simp only [pickUnion, h1]
    · subst hr
      rcases ih' with h1 | ⟨h1, h2⟩
      · left
        cases hx : X with
        | ok o => rw [hx] at h1; simp only [pickUnion, h1]
        | error e =>
          cases e with
          | crash => exact absurd hx hX
          | invalid => rw [hx] at h1; simp only [pickUnion, h1]
      · right
        refine ⟨by simp only [pickUnion, h1], fun r' hr' => ?_⟩
        rcases List.mem_cons.1 hr' with h3 | h3
        · exact h3
        · exact h2 r' h3

theorem pickUnion_of_mem (X : R Obj) (hX : X ≠ .error .crash) (rs : List (R Obj))
    (h : ∀ r ∈ rs, r = X ∨ r = .error .invalid) (hex : X ∈ rs) : pickUnion rs = X := by
  rcases pickUnion_spec X hX rs h with h1 | ⟨h1, h2⟩
  · exact h1
  · rw [h1]; exact (h2 X hex).symm

/-- what one member class of the union does with a tagged mapping -/
theorem member_outcome (ty : GType) (t : String) (r : Raw) :
    classValidate ⟨ty, ty.tag, ty.tag⟩ false (.mapping (some t) (some r)) =
      if ty.tag = t then (validate ty r).map fun g => (t, g) else .error .invalid := by
  rw [classValidate_ideal]
  by_cases h : ty.tag = t
  · subst h; simp
  · have : ¬ (some t = some ty.tag) := fun h' => h (by injection h' with h'; exact h'.symm)
    simp [h, this]

/-! ### call signatures (follow-up: construction paths) -/

/-- the bindings the leftover parameters contribute when each has a default -/
def defaultsOf {α} (xs : Sig) : List (String × Arg α) :=
  xs.filterMap fun p => p.dflt.map fun d => (p.name, .dflt d)

theorem bindDefaults_eq {α} (xs : Sig) (h : xs.all (·.dflt.isSome) = true) :
    bindDefaults (α := α) xs = some (defaultsOf xs) := by
  induction xs with
  | nil => rfl
  | cons x xs ih =>
    simp only [List.all_cons, Bool.and_eq_true] at h
    obtain ⟨d, hd⟩ := Option.isSome_iff_exists.1 h.1
    simp [bindDefaults, hd, ih h.2, defaultsOf]

theorem bindDefaults_filter {α} (xs : Sig) (f : Param → Bool) (h : xs.all (·.dflt.isSome) = true) :
    bindDefaults (α := α) (xs.filter f) = some (defaultsOf (xs.filter f)) := by
  apply bindDefaults_eq
  rw [List.all_eq_true] at h ⊢
  intro p hp
  exact h p (List.mem_filter.1 hp).1

end SE.Validate
