/-
  Helper lemmas for C02 / C18: `dedupBy`, `nodupB`, `mapM` in `Except`, the kinds of objects a
  traversal contains, and the *shape* of a saved document (`SaveSpec`): every top-level list of
  `save c dir` as an explicit function of the traversal `c.trav`.
-/
import Proofs.Lemmas.AoefTrav
import Proofs.Lemmas.Paths
namespace SE.Aoef
open SE.Paths

/-! ### `Except` and `mapM` -/

/-- decidable equality of results (for the `decide` examples) -/
instance exceptDecEqP2 {ε α} [DecidableEq ε] [DecidableEq α] : DecidableEq (Except ε α) := fun a b =>
  match a, b with
  | .ok x, .ok y => if h : x = y then isTrue (by rw [h]) else isFalse (fun h' => h (by cases h'; rfl))
  | .error x, .error y => if h : x = y then isTrue (by rw [h]) else isFalse (fun h' => h (by cases h'; rfl))
  | .ok _, .error _ => isFalse (fun h => by cases h)
  | .error _, .ok _ => isFalse (fun h => by cases h)

theorem bind_eq_ok {ε α β} {x : Except ε α} {f : α → Except ε β} {b : β} :
    (x >>= f) = .ok b ↔ ∃ a, x = .ok a ∧ f a = .ok b := by
  cases x with
  | error e => simp [bind, Except.bind]
  | ok a => simp [bind, Except.bind]

/-- pointwise relation of two lists -/
inductive All2 {α β} (R : α → β → Prop) : List α → List β → Prop
  | nil : All2 R [] []
  | cons {a b as bs} : R a b → All2 R as bs → All2 R (a :: as) (b :: bs)

theorem mapM_ok_forall₂ {ε α β} {f : α → Except ε β} {xs : List α} {ys : List β} :
    xs.mapM f = .ok ys ↔ All2 (fun x y => f x = .ok y) xs ys := by
  induction xs generalizing ys with
  | nil =>
    simp only [List.mapM_nil, pure, Except.pure, Except.ok.injEq]
    constructor
    · intro h; subst h; exact .nil
    · intro h; cases h; rfl
  | cons x xs ih =>
    rw [List.mapM_cons]
    constructor
    · intro h
      obtain ⟨y, hy, h⟩ := bind_eq_ok.1 h
      obtain ⟨ys', hys, h⟩ := bind_eq_ok.1 h
      simp only [pure, Except.pure, Except.ok.injEq] at h
      subst h
      exact .cons hy (ih.1 hys)
    · intro h
      cases h with
      | cons hy hys =>
        rw [hy, ih.2 hys]; rfl

theorem forall₂_mem_right {α β} {R : α → β → Prop} {xs : List α} {ys : List β}
    (h : All2 R xs ys) : ∀ y ∈ ys, ∃ x ∈ xs, R x y := by
  induction h with
  | nil => intro y hy; cases hy
  | cons hxy _ ih =>
    intro y hy
    rcases List.mem_cons.1 hy with rfl | hy
    · exact ⟨_, List.mem_cons_self, hxy⟩
    · obtain ⟨x, hx, hr⟩ := ih y hy
      exact ⟨x, List.mem_cons_of_mem _ hx, hr⟩

theorem forall₂_mem_left {α β} {R : α → β → Prop} {xs : List α} {ys : List β}
    (h : All2 R xs ys) : ∀ x ∈ xs, ∃ y ∈ ys, R x y := by
  induction h with
  | nil => intro y hy; cases hy
  | cons hxy _ ih =>
    intro x hx
    rcases List.mem_cons.1 hx with rfl | hx
    · exact ⟨_, List.mem_cons_self, hxy⟩
    · obtain ⟨y, hy, hr⟩ := ih x hx
      exact ⟨y, List.mem_cons_of_mem _ hy, hr⟩

/-- if `R` determines a key of the right element from the left one, the key lists agree -/
theorem forall₂_map_eq {α β γ} {R : α → β → Prop} {f : α → γ} {g : β → γ} {xs : List α} {ys : List β}
    (h : All2 R xs ys) (hk : ∀ x y, R x y → g y = f x) : ys.map g = xs.map f := by
  induction h with
  | nil => rfl
  | cons hxy _ ih => simp only [List.map_cons, hk _ _ hxy, ih]

/-- `mapM` succeeds when every element does -/
theorem mapM_ok_of_forall {ε α β} {f : α → Except ε β} {xs : List α}
    (h : ∀ x ∈ xs, ∃ y, f x = .ok y) : ∃ ys, xs.mapM f = .ok ys := by
  induction xs with
  | nil => exact ⟨[], rfl⟩
  | cons x xs ih =>
    obtain ⟨y, hy⟩ := h x List.mem_cons_self
    obtain ⟨ys, hys⟩ := ih (fun x hx => h x (List.mem_cons_of_mem _ hx))
    exact ⟨y :: ys, by rw [List.mapM_cons, hy, hys]; rfl⟩

/-- `mapM` fails when some element does; with the only possible error when all errors agree -/
theorem mapM_error_of_exists {ε α β} {f : α → Except ε β} {xs : List α} {e0 : ε}
    (hall : ∀ x ∈ xs, ∀ e, f x = .error e → e = e0)
    (h : ∃ x ∈ xs, ∃ e, f x = .error e) : xs.mapM f = .error e0 := by
  induction xs with
  | nil => obtain ⟨x, hx, _⟩ := h; cases hx
  | cons x xs ih =>
    rw [List.mapM_cons]
    cases hfx : f x with
    | error e =>
      have := hall x List.mem_cons_self e hfx
      subst this; rfl
    | ok y =>
      have hxs : xs.mapM f = .error e0 := by
        apply ih (fun x hx => hall x (List.mem_cons_of_mem _ hx))
        obtain ⟨x', hx', e, he⟩ := h
        rcases List.mem_cons.1 hx' with rfl | hx'
        · rw [hfx] at he; cases he
        · exact ⟨x', hx', e, he⟩
      rw [hxs]; rfl

/-! ### `dedupBy` -/

section dedup
variable {α κ : Type} [DecidableEq κ] (key : α → κ)

theorem mem_dedupBy {xs : List α} {x : α} (h : x ∈ dedupBy key xs) : x ∈ xs := by
  induction xs generalizing x with
  | nil => cases h
  | cons y ys ih =>
    simp only [dedupBy, List.mem_cons, List.mem_filter] at h
    rcases h with rfl | ⟨h, _⟩
    · exact List.mem_cons_self
    · exact List.mem_cons_of_mem _ (ih h)

/-- every key of the list survives de-duplication -/
theorem key_mem_dedupBy {xs : List α} {x : α} (h : x ∈ xs) :
    ∃ y ∈ dedupBy key xs, key y = key x := by
  induction xs with
  | nil => cases h
  | cons z zs ih =>
    rcases List.mem_cons.1 h with rfl | h
    · exact ⟨x, by simp [dedupBy], rfl⟩
    · obtain ⟨y, hy, hk⟩ := ih h
      by_cases hz : key y = key z
      · exact ⟨z, by simp [dedupBy], by rw [← hz, hk]⟩
      · exact ⟨y, by simp [dedupBy, hy, hz], hk⟩

theorem dedupBy_keys_nodup (xs : List α) : ((dedupBy key xs).map key).Nodup := by
  induction xs with
  | nil => exact List.nodup_nil
  | cons z zs ih =>
    simp only [dedupBy, List.map_cons, List.nodup_cons, List.mem_map, List.mem_filter]
    refine ⟨?_, ?_⟩
    · rintro ⟨y, ⟨_, hy⟩, hk⟩
      simp only [ne_eq, decide_eq_true_eq] at hy
      exact hy hk
    · exact (List.filter_sublist.map key).nodup ih

theorem mem_keys_dedupBy {xs : List α} {k : κ} :
    k ∈ (dedupBy key xs).map key ↔ k ∈ xs.map key := by
  simp only [List.mem_map]
  constructor
  · rintro ⟨x, hx, rfl⟩; exact ⟨x, mem_dedupBy key hx, rfl⟩
  · rintro ⟨x, hx, rfl⟩; exact key_mem_dedupBy key hx

/-- under coherence the de-duplicated list has the same members -/
theorem mem_dedupBy_of_coherent {xs : List α} (hc : CoherentBy key xs) {x : α} (h : x ∈ xs) :
    x ∈ dedupBy key xs := by
  obtain ⟨y, hy, hk⟩ := key_mem_dedupBy key h
  have := hc y (mem_dedupBy key hy) x h hk
  subst this; exact hy

theorem dedupBy_id_nodup {α : Type} [DecidableEq α] (xs : List α) : (dedupBy id xs).Nodup := by
  have := dedupBy_keys_nodup id xs
  rwa [List.map_id] at this

theorem mem_dedupBy_id {α : Type} [DecidableEq α] {xs : List α} {x : α} :
    x ∈ dedupBy id xs ↔ x ∈ xs := by
  have := mem_keys_dedupBy id (xs := xs) (k := x)
  rwa [List.map_id, List.map_id] at this

theorem dedupBy_nil_iff {xs : List α} : dedupBy key xs = [] ↔ xs = [] := by
  cases xs <;> simp [dedupBy]

end dedup

/-! ### `nodupB` -/

theorem nodupB_iff {α} [BEq α] [LawfulBEq α] (xs : List α) : nodupB xs = true ↔ xs.Nodup := by
  induction xs with
  | nil => simp [nodupB]
  | cons x xs ih =>
    simp only [nodupB, Bool.and_eq_true, Bool.not_eq_true', List.contains_eq_mem, decide_eq_false_iff_not,
      List.nodup_cons, ih]

/-! ### `wfB` -/

theorem coherentByB_iff {α κ} [DecidableEq α] [DecidableEq κ] (key : α → κ) (xs : List α) :
    coherentByB key xs = true ↔ CoherentBy key xs := by
  unfold coherentByB CoherentBy
  simp only [List.all_eq_true, Bool.or_eq_true, decide_eq_true_eq, beq_iff_eq, ne_eq]
  constructor
  · intro h x hx y hy hk
    rcases h x hx y hy with h | h
    · exact absurd hk h
    · exact h
  · intro h x hx y hy
    by_cases hk : key x = key y
    · exact Or.inr (h x hx y hy hk)
    · exact Or.inl hk

/-- the executable well-formedness check implies `WF` -/
theorem WF_of_wfB {c : Collection} (h : wfB c = true) : WF c := by
  simp only [wfB, Bool.and_eq_true, coherentByB_iff, List.all_eq_true, nodupB_iff] at h
  obtain ⟨⟨⟨⟨⟨⟨⟨⟨⟨⟨⟨⟨⟨⟨⟨⟨h1, h2⟩, h3⟩, h4⟩, h5⟩, h6⟩, h7⟩, h8⟩, h9⟩, h10⟩, h11⟩, h12⟩, h13⟩, h14⟩, h15⟩, h16⟩, h17⟩ := h
  exact ⟨h1, h2, h3, h4, h5, h6, h7, h8, h9, h10, h11, h12, h13, h14, h15, h16, h17⟩

/-! ### `lst` / `listOpt` -/

@[simp] theorem lst_listOpt {α} (xs : List α) : lst (listOpt xs) = xs := by
  cases xs <;> rfl

@[simp] theorem lst_some {α} (xs : List α) : lst (some xs) = xs := rfl
@[simp] theorem lst_none {α} : lst (none : Option (List α)) = [] := rfl

/-! ### the kinds of objects a traversal contains -/

def Obj.kind : Obj → Kind
  | .user _ => .user | .tag _ => .tag | .recording _ => .recording | .clip _ => .clip
  | .soundEvent _ => .soundEvent | .sequence _ => .sequence | .seAnn _ => .seAnn
  | .seqAnn _ => .seqAnn | .clipAnn _ => .clipAnn | .sePred _ => .sePred | .seqPred _ => .seqPred
  | .clipPred _ => .clipPred | .task _ => .task | .mtch _ => .mtch | .clipEval _ => .clipEval

def KindsIn (ks : List Kind) (os : List Obj) : Prop := ∀ o ∈ os, o.kind ∈ ks

theorem KindsIn.nil (ks : List Kind) : KindsIn ks [] := by intro o h; cases h

theorem KindsIn.append {ks a b} (ha : KindsIn ks a) (hb : KindsIn ks b) : KindsIn ks (a ++ b) := by
  intro o ho
  rcases List.mem_append.1 ho with h | h
  · exact ha o h
  · exact hb o h

theorem KindsIn.flatMap {ks} {α} {f : α → List Obj} {xs : List α} (h : ∀ x ∈ xs, KindsIn ks (f x)) :
    KindsIn ks (xs.flatMap f) := by
  intro o ho
  obtain ⟨x, hx, hox⟩ := List.mem_flatMap.1 ho
  exact h x hx o hox

theorem KindsIn.map {ks} {α} {f : α → Obj} {xs : List α} (h : ∀ x, (f x).kind ∈ ks) :
    KindsIn ks (xs.map f) := by
  intro o ho
  obtain ⟨x, _, rfl⟩ := List.mem_map.1 ho
  exact h x

theorem KindsIn.single {ks} {o : Obj} (h : o.kind ∈ ks) : KindsIn ks [o] := by
  intro o' ho
  have : o' = o := by simpa using ho
  subst this; exact h

theorem KindsIn.mono {ks ks' os} (h : KindsIn ks os) (hs : ∀ k ∈ ks, k ∈ ks') : KindsIn ks' os :=
  fun o ho => hs _ (h o ho)

theorem kmem {k : Kind} {ks : List Kind} (h : ks.contains k = true) : k ∈ ks := by simpa using h

def kRec : List Kind := [.user, .tag, .recording]
def kClip : List Kind := .clip :: kRec
def kSe : List Kind := .soundEvent :: kRec
def kSeq : List Kind := .sequence :: kSe
def kSea : List Kind := .seAnn :: kSe
def kSqa : List Kind := .seqAnn :: kSeq
def kCa : List Kind := [.clipAnn, .seAnn, .seqAnn, .sequence, .soundEvent, .clip] ++ kRec
def kSep : List Kind := .sePred :: kSe
def kSqp : List Kind := .seqPred :: kSeq
def kCp : List Kind := [.clipPred, .sePred, .seqPred, .sequence, .soundEvent, .clip] ++ kRec
def kTask : List Kind := .task :: kClip
def kMatch : List Kind := [.mtch, .sePred, .seAnn, .soundEvent] ++ kRec
def kCe : List Kind :=
  [.clipEval, .mtch, .clipPred, .sePred, .seqPred, .clipAnn, .seAnn, .seqAnn, .sequence, .soundEvent,
   .clip] ++ kRec

theorem kindsIn_tagsAll (ts : List Tag) : KindsIn [.tag] (tagsAll ts) := .map (fun _ => kmem rfl)
theorem kindsIn_ptagsAll (ts : List PredictedTag) : KindsIn [.tag] (ptagsAll ts) :=
  .map (fun _ => kmem rfl)
theorem kindsIn_users (us : List User) : KindsIn [.user] (us.map Obj.user) := .map (fun _ => kmem rfl)
theorem kindsIn_optUser (u : Option User) : KindsIn [.user] (optUser u) := kindsIn_users _
theorem kindsIn_notesAll (ns : List Note) : KindsIn [.user] (notesAll ns) :=
  .flatMap (fun _ _ => kindsIn_optUser _)
theorem kindsIn_badges (bs : List StatusBadge) : KindsIn [.user] (bs.flatMap badgeAll) :=
  .flatMap (fun _ _ => kindsIn_optUser _)

theorem kindsIn_recAll (r : Recording) : KindsIn kRec (recAll r) :=
  .append (.append (.append ((kindsIn_tagsAll _).mono (by decide)) ((kindsIn_notesAll _).mono (by decide)))
    ((kindsIn_users _).mono (by decide))) (.single (kmem rfl))

theorem kindsIn_clipAll (c : Clip) : KindsIn kClip (clipAll c) :=
  .append ((kindsIn_recAll _).mono (by decide)) (.single (kmem rfl))

theorem kindsIn_seAll (s : SoundEvent) : KindsIn kSe (seAll s) :=
  .append ((kindsIn_recAll _).mono (by decide)) (.single (kmem rfl))

theorem kindsIn_seqAllAux (n : SeqNode) (as : List SeqNode) : KindsIn kSeq (seqAllAux n as) := by
  induction as generalizing n with
  | nil =>
    unfold seqAllAux
    exact .append (.flatMap (fun _ _ => (kindsIn_seAll _).mono (by decide))) (.single (kmem rfl))
  | cons a as ih =>
    unfold seqAllAux
    exact .append (.append (ih a) (.flatMap (fun _ _ => (kindsIn_seAll _).mono (by decide))))
      (.single (kmem rfl))

theorem kindsIn_seqAll (s : Sequence) : KindsIn kSeq (seqAll s) := kindsIn_seqAllAux _ _

theorem kindsIn_seaAll (a : SoundEventAnnotation) : KindsIn kSea (seaAll a) :=
  .append (.append (.append (.append ((kindsIn_seAll _).mono (by decide))
    ((kindsIn_notesAll _).mono (by decide))) ((kindsIn_tagsAll _).mono (by decide)))
    ((kindsIn_optUser _).mono (by decide))) (.single (kmem rfl))

theorem kindsIn_sqaAll (a : SequenceAnnotation) : KindsIn kSqa (sqaAll a) :=
  .append (.append (.append (.append ((kindsIn_seqAll _).mono (by decide))
    ((kindsIn_notesAll _).mono (by decide))) ((kindsIn_tagsAll _).mono (by decide)))
    ((kindsIn_optUser _).mono (by decide))) (.single (kmem rfl))

theorem kindsIn_caAll (a : ClipAnnotation) : KindsIn kCa (caAll a) :=
  .append (.append (.append (.append (.append ((kindsIn_clipAll _).mono (by decide))
    ((kindsIn_tagsAll _).mono (by decide)))
    (.flatMap (fun _ _ => (kindsIn_seaAll _).mono (by decide))))
    (.flatMap (fun _ _ => (kindsIn_sqaAll _).mono (by decide))))
    ((kindsIn_notesAll _).mono (by decide))) (.single (kmem rfl))

theorem kindsIn_sepAll (p : SoundEventPrediction) : KindsIn kSep (sepAll p) :=
  .append (.append ((kindsIn_seAll _).mono (by decide)) ((kindsIn_ptagsAll _).mono (by decide)))
    (.single (kmem rfl))

theorem kindsIn_sqpAll (p : SequencePrediction) : KindsIn kSqp (sqpAll p) :=
  .append (.append ((kindsIn_seqAll _).mono (by decide)) ((kindsIn_ptagsAll _).mono (by decide)))
    (.single (kmem rfl))

theorem kindsIn_cpAll (p : ClipPrediction) : KindsIn kCp (cpAll p) :=
  .append (.append (.append (.append ((kindsIn_clipAll _).mono (by decide))
    (.flatMap (fun _ _ => (kindsIn_sepAll _).mono (by decide))))
    (.flatMap (fun _ _ => (kindsIn_sqpAll _).mono (by decide))))
    ((kindsIn_ptagsAll _).mono (by decide))) (.single (kmem rfl))

theorem kindsIn_taskAll (t : AnnotationTask) : KindsIn kTask (taskAll t) :=
  .append (.append ((kindsIn_badges _).mono (by decide)) ((kindsIn_clipAll _).mono (by decide)))
    (.single (kmem rfl))

theorem kindsIn_matchAll (m : Match) : KindsIn kMatch (matchAll m) := by
  unfold matchAll
  refine .append (.append ?_ ?_) (.single (kmem rfl))
  · cases m.source with
    | none => exact .nil _
    | some p => exact (kindsIn_sepAll p).mono (by decide)
  · cases m.target with
    | none => exact .nil _
    | some a => exact (kindsIn_seaAll a).mono (by decide)

theorem kindsIn_ceAll (e : ClipEvaluation) : KindsIn kCe (ceAll e) :=
  .append (.append (.append ((kindsIn_caAll _).mono (by decide)) ((kindsIn_cpAll _).mono (by decide)))
    (.flatMap (fun _ _ => (kindsIn_matchAll _).mono (by decide)))) (.single (kmem rfl))

/-- the kinds of objects the traversal of each collection type contains -/
def Collection.kinds : Collection → List Kind
  | .recordingSet _ => kRec
  | .dataset _ => kRec
  | .annotationSet _ => kCa
  | .annotationProject _ => .task :: kCa
  | .evaluationSet _ => kCa
  | .predictionSet _ => kCp
  | .modelRun _ => kCp
  | .evaluation _ => kCe

theorem trav_kinds (c : Collection) : KindsIn c.kinds c.trav := by
  cases c with
  | recordingSet x => exact .flatMap (fun _ _ => kindsIn_recAll _)
  | dataset x => exact .flatMap (fun _ _ => kindsIn_recAll _)
  | annotationSet x => exact .flatMap (fun _ _ => kindsIn_caAll _)
  | annotationProject x =>
    show KindsIn (.task :: kCa) _
    exact .append (.append (.flatMap (fun _ _ => (kindsIn_taskAll _).mono (by decide)))
      ((kindsIn_tagsAll _).mono (by decide))) (.flatMap (fun _ _ => (kindsIn_caAll _).mono (by decide)))
  | evaluationSet x =>
    show KindsIn kCa _
    exact .append (.flatMap (fun _ _ => kindsIn_caAll _)) ((kindsIn_tagsAll _).mono (by decide))
  | predictionSet x => exact .flatMap (fun _ _ => kindsIn_cpAll _)
  | modelRun x => exact .flatMap (fun _ _ => kindsIn_cpAll _)
  | evaluation x => exact .flatMap (fun _ _ => kindsIn_ceAll _)

/-! ### per-kind projections: membership and emptiness -/

theorem mem_usersOf {os : List Obj} {x : User} : x ∈ usersOf os ↔ Obj.user x ∈ os := by
  unfold usersOf; rw [List.mem_filterMap]
  constructor
  · rintro ⟨o, ho, h⟩
    cases o <;> first | (simp at h; done) | (simp at h; subst h; exact ho)
  · intro h; exact ⟨_, h, rfl⟩

theorem usersOf_nil {ks : List Kind} {os : List Obj} (h : KindsIn ks os) (hn : ks.contains Kind.user = false) :
    usersOf os = [] := by
  rw [List.eq_nil_iff_forall_not_mem]
  intro x hx
  have := h _ (mem_usersOf.1 hx)
  have : ks.contains Kind.user = true := by simpa [Obj.kind] using this
  rw [hn] at this; cases this

theorem mem_tagsOf {os : List Obj} {x : Tag} : x ∈ tagsOf os ↔ Obj.tag x ∈ os := by
  unfold tagsOf; rw [List.mem_filterMap]
  constructor
  · rintro ⟨o, ho, h⟩
    cases o <;> first | (simp at h; done) | (simp at h; subst h; exact ho)
  · intro h; exact ⟨_, h, rfl⟩

theorem tagsOf_nil {ks : List Kind} {os : List Obj} (h : KindsIn ks os) (hn : ks.contains Kind.tag = false) :
    tagsOf os = [] := by
  rw [List.eq_nil_iff_forall_not_mem]
  intro x hx
  have := h _ (mem_tagsOf.1 hx)
  have : ks.contains Kind.tag = true := by simpa [Obj.kind] using this
  rw [hn] at this; cases this

theorem mem_recsOf {os : List Obj} {x : Recording} : x ∈ recsOf os ↔ Obj.recording x ∈ os := by
  unfold recsOf; rw [List.mem_filterMap]
  constructor
  · rintro ⟨o, ho, h⟩
    cases o <;> first | (simp at h; done) | (simp at h; subst h; exact ho)
  · intro h; exact ⟨_, h, rfl⟩

theorem recsOf_nil {ks : List Kind} {os : List Obj} (h : KindsIn ks os) (hn : ks.contains Kind.recording = false) :
    recsOf os = [] := by
  rw [List.eq_nil_iff_forall_not_mem]
  intro x hx
  have := h _ (mem_recsOf.1 hx)
  have : ks.contains Kind.recording = true := by simpa [Obj.kind] using this
  rw [hn] at this; cases this

theorem mem_clipsOf {os : List Obj} {x : Clip} : x ∈ clipsOf os ↔ Obj.clip x ∈ os := by
  unfold clipsOf; rw [List.mem_filterMap]
  constructor
  · rintro ⟨o, ho, h⟩
    cases o <;> first | (simp at h; done) | (simp at h; subst h; exact ho)
  · intro h; exact ⟨_, h, rfl⟩

theorem clipsOf_nil {ks : List Kind} {os : List Obj} (h : KindsIn ks os) (hn : ks.contains Kind.clip = false) :
    clipsOf os = [] := by
  rw [List.eq_nil_iff_forall_not_mem]
  intro x hx
  have := h _ (mem_clipsOf.1 hx)
  have : ks.contains Kind.clip = true := by simpa [Obj.kind] using this
  rw [hn] at this; cases this

theorem mem_sesOf {os : List Obj} {x : SoundEvent} : x ∈ sesOf os ↔ Obj.soundEvent x ∈ os := by
  unfold sesOf; rw [List.mem_filterMap]
  constructor
  · rintro ⟨o, ho, h⟩
    cases o <;> first | (simp at h; done) | (simp at h; subst h; exact ho)
  · intro h; exact ⟨_, h, rfl⟩

theorem sesOf_nil {ks : List Kind} {os : List Obj} (h : KindsIn ks os) (hn : ks.contains Kind.soundEvent = false) :
    sesOf os = [] := by
  rw [List.eq_nil_iff_forall_not_mem]
  intro x hx
  have := h _ (mem_sesOf.1 hx)
  have : ks.contains Kind.soundEvent = true := by simpa [Obj.kind] using this
  rw [hn] at this; cases this

theorem mem_seqsOf {os : List Obj} {x : Sequence} : x ∈ seqsOf os ↔ Obj.sequence x ∈ os := by
  unfold seqsOf; rw [List.mem_filterMap]
  constructor
  · rintro ⟨o, ho, h⟩
    cases o <;> first | (simp at h; done) | (simp at h; subst h; exact ho)
  · intro h; exact ⟨_, h, rfl⟩

theorem seqsOf_nil {ks : List Kind} {os : List Obj} (h : KindsIn ks os) (hn : ks.contains Kind.sequence = false) :
    seqsOf os = [] := by
  rw [List.eq_nil_iff_forall_not_mem]
  intro x hx
  have := h _ (mem_seqsOf.1 hx)
  have : ks.contains Kind.sequence = true := by simpa [Obj.kind] using this
  rw [hn] at this; cases this

theorem mem_seasOf {os : List Obj} {x : SoundEventAnnotation} : x ∈ seasOf os ↔ Obj.seAnn x ∈ os := by
  unfold seasOf; rw [List.mem_filterMap]
  constructor
  · rintro ⟨o, ho, h⟩
    cases o <;> first | (simp at h; done) | (simp at h; subst h; exact ho)
  · intro h; exact ⟨_, h, rfl⟩

theorem seasOf_nil {ks : List Kind} {os : List Obj} (h : KindsIn ks os) (hn : ks.contains Kind.seAnn = false) :
    seasOf os = [] := by
  rw [List.eq_nil_iff_forall_not_mem]
  intro x hx
  have := h _ (mem_seasOf.1 hx)
  have : ks.contains Kind.seAnn = true := by simpa [Obj.kind] using this
  rw [hn] at this; cases this

theorem mem_sqasOf {os : List Obj} {x : SequenceAnnotation} : x ∈ sqasOf os ↔ Obj.seqAnn x ∈ os := by
  unfold sqasOf; rw [List.mem_filterMap]
  constructor
  · rintro ⟨o, ho, h⟩
    cases o <;> first | (simp at h; done) | (simp at h; subst h; exact ho)
  · intro h; exact ⟨_, h, rfl⟩

theorem sqasOf_nil {ks : List Kind} {os : List Obj} (h : KindsIn ks os) (hn : ks.contains Kind.seqAnn = false) :
    sqasOf os = [] := by
  rw [List.eq_nil_iff_forall_not_mem]
  intro x hx
  have := h _ (mem_sqasOf.1 hx)
  have : ks.contains Kind.seqAnn = true := by simpa [Obj.kind] using this
  rw [hn] at this; cases this

theorem mem_casOf {os : List Obj} {x : ClipAnnotation} : x ∈ casOf os ↔ Obj.clipAnn x ∈ os := by
  unfold casOf; rw [List.mem_filterMap]
  constructor
  · rintro ⟨o, ho, h⟩
    cases o <;> first | (simp at h; done) | (simp at h; subst h; exact ho)
  · intro h; exact ⟨_, h, rfl⟩

theorem casOf_nil {ks : List Kind} {os : List Obj} (h : KindsIn ks os) (hn : ks.contains Kind.clipAnn = false) :
    casOf os = [] := by
  rw [List.eq_nil_iff_forall_not_mem]
  intro x hx
  have := h _ (mem_casOf.1 hx)
  have : ks.contains Kind.clipAnn = true := by simpa [Obj.kind] using this
  rw [hn] at this; cases this

theorem mem_sepsOf {os : List Obj} {x : SoundEventPrediction} : x ∈ sepsOf os ↔ Obj.sePred x ∈ os := by
  unfold sepsOf; rw [List.mem_filterMap]
  constructor
  · rintro ⟨o, ho, h⟩
    cases o <;> first | (simp at h; done) | (simp at h; subst h; exact ho)
  · intro h; exact ⟨_, h, rfl⟩

theorem sepsOf_nil {ks : List Kind} {os : List Obj} (h : KindsIn ks os) (hn : ks.contains Kind.sePred = false) :
    sepsOf os = [] := by
  rw [List.eq_nil_iff_forall_not_mem]
  intro x hx
  have := h _ (mem_sepsOf.1 hx)
  have : ks.contains Kind.sePred = true := by simpa [Obj.kind] using this
  rw [hn] at this; cases this

theorem mem_sqpsOf {os : List Obj} {x : SequencePrediction} : x ∈ sqpsOf os ↔ Obj.seqPred x ∈ os := by
  unfold sqpsOf; rw [List.mem_filterMap]
  constructor
  · rintro ⟨o, ho, h⟩
    cases o <;> first | (simp at h; done) | (simp at h; subst h; exact ho)
  · intro h; exact ⟨_, h, rfl⟩

theorem sqpsOf_nil {ks : List Kind} {os : List Obj} (h : KindsIn ks os) (hn : ks.contains Kind.seqPred = false) :
    sqpsOf os = [] := by
  rw [List.eq_nil_iff_forall_not_mem]
  intro x hx
  have := h _ (mem_sqpsOf.1 hx)
  have : ks.contains Kind.seqPred = true := by simpa [Obj.kind] using this
  rw [hn] at this; cases this

theorem mem_cpsOf {os : List Obj} {x : ClipPrediction} : x ∈ cpsOf os ↔ Obj.clipPred x ∈ os := by
  unfold cpsOf; rw [List.mem_filterMap]
  constructor
  · rintro ⟨o, ho, h⟩
    cases o <;> first | (simp at h; done) | (simp at h; subst h; exact ho)
  · intro h; exact ⟨_, h, rfl⟩

theorem cpsOf_nil {ks : List Kind} {os : List Obj} (h : KindsIn ks os) (hn : ks.contains Kind.clipPred = false) :
    cpsOf os = [] := by
  rw [List.eq_nil_iff_forall_not_mem]
  intro x hx
  have := h _ (mem_cpsOf.1 hx)
  have : ks.contains Kind.clipPred = true := by simpa [Obj.kind] using this
  rw [hn] at this; cases this

theorem mem_tasksOf {os : List Obj} {x : AnnotationTask} : x ∈ tasksOf os ↔ Obj.task x ∈ os := by
  unfold tasksOf; rw [List.mem_filterMap]
  constructor
  · rintro ⟨o, ho, h⟩
    cases o <;> first | (simp at h; done) | (simp at h; subst h; exact ho)
  · intro h; exact ⟨_, h, rfl⟩

theorem tasksOf_nil {ks : List Kind} {os : List Obj} (h : KindsIn ks os) (hn : ks.contains Kind.task = false) :
    tasksOf os = [] := by
  rw [List.eq_nil_iff_forall_not_mem]
  intro x hx
  have := h _ (mem_tasksOf.1 hx)
  have : ks.contains Kind.task = true := by simpa [Obj.kind] using this
  rw [hn] at this; cases this

theorem mem_matchesOf {os : List Obj} {x : Match} : x ∈ matchesOf os ↔ Obj.mtch x ∈ os := by
  unfold matchesOf; rw [List.mem_filterMap]
  constructor
  · rintro ⟨o, ho, h⟩
    cases o <;> first | (simp at h; done) | (simp at h; subst h; exact ho)
  · intro h; exact ⟨_, h, rfl⟩

theorem matchesOf_nil {ks : List Kind} {os : List Obj} (h : KindsIn ks os) (hn : ks.contains Kind.mtch = false) :
    matchesOf os = [] := by
  rw [List.eq_nil_iff_forall_not_mem]
  intro x hx
  have := h _ (mem_matchesOf.1 hx)
  have : ks.contains Kind.mtch = true := by simpa [Obj.kind] using this
  rw [hn] at this; cases this

theorem mem_cesOf {os : List Obj} {x : ClipEvaluation} : x ∈ cesOf os ↔ Obj.clipEval x ∈ os := by
  unfold cesOf; rw [List.mem_filterMap]
  constructor
  · rintro ⟨o, ho, h⟩
    cases o <;> first | (simp at h; done) | (simp at h; subst h; exact ho)
  · intro h; exact ⟨_, h, rfl⟩

theorem cesOf_nil {ks : List Kind} {os : List Obj} (h : KindsIn ks os) (hn : ks.contains Kind.clipEval = false) :
    cesOf os = [] := by
  rw [List.eq_nil_iff_forall_not_mem]
  intro x hx
  have := h _ (mem_cesOf.1 hx)
  have : ks.contains Kind.clipEval = true := by simpa [Obj.kind] using this
  rw [hn] at this; cases this

/-! ### the recording encoder -/

/-- the encoded recording, given the stored path -/
def encRecordingWith (tids : List Tag) (r : Recording) (path : PPath) : RecordingObj :=
  { uuid := r.uuid, path := path, duration := r.duration, channels := r.channels,
    samplerate := r.samplerate,
    time_expansion := if r.time_expansion ≠ oneTok then some r.time_expansion else none,
    hash := r.hash, date := r.date, time := r.time, latitude := r.latitude,
    longitude := r.longitude,
    tags := listOpt (r.tags.map (tagId tids)),
    features := dictOpt r.features,
    notes := listOpt (r.notes.map encNote),
    owners := some (r.owners.map (·.uuid)),
    rights := r.rights,
    license := r.license }

theorem encRecording_eq (tids : List Tag) (dir : Option PPath) (r : Recording) :
    encRecording tids dir r = (storedPath dir r.path >>= fun q => pure (encRecordingWith tids r q)) := rfl

theorem encRecording_ok_iff {tids : List Tag} {dir : Option PPath} {r : Recording} {o : RecordingObj} :
    encRecording tids dir r = .ok o ↔ ∃ q, storedPath dir r.path = .ok q ∧ o = encRecordingWith tids r q := by
  rw [encRecording_eq, bind_eq_ok]
  constructor
  · rintro ⟨q, hq, h⟩
    simp only [pure, Except.pure, Except.ok.injEq] at h
    exact ⟨q, hq, h.symm⟩
  · rintro ⟨q, hq, rfl⟩; exact ⟨q, hq, rfl⟩

theorem encRecording_error {tids : List Tag} {dir : Option PPath} {r : Recording} {e : Err}
    (h : encRecording tids dir r = .error e) : storedPath dir r.path = .error e := by
  rw [encRecording_eq] at h
  cases hs : storedPath dir r.path with
  | error e' => rw [hs] at h; cases h; rfl
  | ok q => rw [hs] at h; cases h

theorem encRecording_of_error {tids : List Tag} {dir : Option PPath} {r : Recording} {e : Err}
    (h : storedPath dir r.path = .error e) : encRecording tids dir r = .error e := by
  rw [encRecording_eq, h]; rfl

/-! ### the shape of a saved document -/

/-- the recordings that are encoded: the member list for recording sets and datasets, the distinct
    reachable recordings otherwise -/
def recSrc : Collection → List Recording
  | .recordingSet x => x.recordings
  | .dataset x => x.recordings
  | c => dedupBy (·.uuid) (recsOf c.trav)

def caSrc : Collection → List ClipAnnotation
  | .annotationSet x => x.clip_annotations
  | .annotationProject x => x.clip_annotations
  | .evaluationSet x => x.clip_annotations
  | c => dedupBy (·.uuid) (casOf c.trav)

def cpSrc : Collection → List ClipPrediction
  | .predictionSet x => x.clip_predictions
  | .modelRun x => x.clip_predictions
  | c => dedupBy (·.uuid) (cpsOf c.trav)

def taskSrc : Collection → List AnnotationTask
  | .annotationProject x => x.tasks
  | c => dedupBy (·.uuid) (tasksOf c.trav)

def projTags : Collection → List Tag
  | .annotationProject x => x.annotation_tags
  | _ => []

def evalTags : Collection → List Tag
  | .evaluationSet x => x.evaluation_tags
  | _ => []

structure SaveSpec (c : Collection) (d : Doc) (rs : List RecordingObj) : Prop where
  users : lst d.users = (dedupBy (·.uuid) (usersOf c.trav)).map encUser
  tags : lst d.tags = encTags (tagTable c.trav)
  recordings : lst d.recordings = rs
  clips : lst d.clips = (dedupBy (·.uuid) (clipsOf c.trav)).map encClip
  ses : lst d.sound_events = (dedupBy (·.uuid) (sesOf c.trav)).map encSoundEvent
  seqs : lst d.sequences = (dedupBy (·.uuid) (seqsOf c.trav)).map encSequence
  seas : lst d.sound_event_annotations = (dedupBy (·.uuid) (seasOf c.trav)).map (encSEA (tagTable c.trav))
  sqas : lst d.sequence_annotations = (dedupBy (·.uuid) (sqasOf c.trav)).map (encSQA (tagTable c.trav))
  cas : lst d.clip_annotations = (caSrc c).map (encCA (tagTable c.trav))
  seps : lst d.sound_event_predictions = (dedupBy (·.uuid) (sepsOf c.trav)).map (encSEP (tagTable c.trav))
  sqps : lst d.sequence_predictions = (dedupBy (·.uuid) (sqpsOf c.trav)).map (encSQP (tagTable c.trav))
  cps : lst d.clip_predictions = (cpSrc c).map (encCP (tagTable c.trav))
  ces : lst d.clip_evaluations = (dedupBy (·.uuid) (cesOf c.trav)).map encCE
  ms : lst d.«matches» = (dedupBy (·.uuid) (matchesOf c.trav)).map encMatch
  tasks : lst d.tasks = (taskSrc c).map encTask
  ptags : lst d.project_tags = (projTags c).map (tagId (tagTable c.trav))
  etags : lst d.evaluation_tags = (evalTags c).map (tagId (tagTable c.trav))

set_option linter.unusedSimpArgs false in
theorem save_shape (c : Collection) (dir : Option PPath) :
    ∃ mk : List RecordingObj → Doc,
      save c dir = ((recSrc c).mapM (encRecording (tagTable c.trav) dir) >>= fun rs => pure (mk rs)) ∧
      ∀ rs, SaveSpec c (mk rs) rs := by
  have hk := trav_kinds c
  cases c with
  | recordingSet x =>
    refine ⟨_, by simp only [save, recordingDoc, recSrc, bind_assoc, pure_bind]; rfl, fun rs => ?_⟩
    constructor <;>
      simp only [lst_listOpt, lst_some, lst_none, caSrc, cpSrc, taskSrc, projTags, evalTags,
        clipsOf_nil hk rfl, sesOf_nil hk rfl, seqsOf_nil hk rfl, seasOf_nil hk rfl, sqasOf_nil hk rfl, casOf_nil hk rfl, sepsOf_nil hk rfl, sqpsOf_nil hk rfl, cpsOf_nil hk rfl, tasksOf_nil hk rfl, matchesOf_nil hk rfl, cesOf_nil hk rfl, dedupBy, List.map_nil]
  | dataset x =>
    refine ⟨_, by simp only [save, recordingDoc, recSrc, bind_assoc, pure_bind]; rfl, fun rs => ?_⟩
    constructor <;>
      simp only [lst_listOpt, lst_some, lst_none, caSrc, cpSrc, taskSrc, projTags, evalTags,
        clipsOf_nil hk rfl, sesOf_nil hk rfl, seqsOf_nil hk rfl, seasOf_nil hk rfl, sqasOf_nil hk rfl, casOf_nil hk rfl, sepsOf_nil hk rfl, sqpsOf_nil hk rfl, cpsOf_nil hk rfl, tasksOf_nil hk rfl, matchesOf_nil hk rfl, cesOf_nil hk rfl, dedupBy, List.map_nil]
  | annotationSet x =>
    refine ⟨_, by simp only [save, annotationDoc, shared, annotationLists, recSrc, bind_assoc, pure_bind]; rfl, fun rs => ?_⟩
    constructor <;>
      simp only [lst_listOpt, lst_some, lst_none, caSrc, cpSrc, taskSrc, projTags, evalTags,
        sepsOf_nil hk rfl, sqpsOf_nil hk rfl, cpsOf_nil hk rfl, tasksOf_nil hk rfl, matchesOf_nil hk rfl, cesOf_nil hk rfl, dedupBy, List.map_nil]
  | annotationProject x =>
    refine ⟨_, by simp only [save, annotationDoc, shared, annotationLists, recSrc, bind_assoc, pure_bind]; rfl, fun rs => ?_⟩
    constructor <;>
      simp only [lst_listOpt, lst_some, lst_none, caSrc, cpSrc, taskSrc, projTags, evalTags,
        sepsOf_nil hk rfl, sqpsOf_nil hk rfl, cpsOf_nil hk rfl, matchesOf_nil hk rfl, cesOf_nil hk rfl, dedupBy, List.map_nil]
  | evaluationSet x =>
    refine ⟨_, by simp only [save, annotationDoc, shared, annotationLists, recSrc, bind_assoc, pure_bind]; rfl, fun rs => ?_⟩
    constructor <;>
      simp only [lst_listOpt, lst_some, lst_none, caSrc, cpSrc, taskSrc, projTags, evalTags,
        sepsOf_nil hk rfl, sqpsOf_nil hk rfl, cpsOf_nil hk rfl, tasksOf_nil hk rfl, matchesOf_nil hk rfl, cesOf_nil hk rfl, dedupBy, List.map_nil]
  | predictionSet x =>
    refine ⟨_, by simp only [save, predictionDoc, shared, predictionLists, recSrc, bind_assoc, pure_bind]; rfl, fun rs => ?_⟩
    constructor <;>
      simp only [lst_listOpt, lst_some, lst_none, caSrc, cpSrc, taskSrc, projTags, evalTags,
        seasOf_nil hk rfl, sqasOf_nil hk rfl, casOf_nil hk rfl, tasksOf_nil hk rfl, matchesOf_nil hk rfl, cesOf_nil hk rfl, dedupBy, List.map_nil]
  | modelRun x =>
    refine ⟨_, by simp only [save, predictionDoc, shared, predictionLists, recSrc, bind_assoc, pure_bind]; rfl, fun rs => ?_⟩
    constructor <;>
      simp only [lst_listOpt, lst_some, lst_none, caSrc, cpSrc, taskSrc, projTags, evalTags,
        seasOf_nil hk rfl, sqasOf_nil hk rfl, casOf_nil hk rfl, tasksOf_nil hk rfl, matchesOf_nil hk rfl, cesOf_nil hk rfl, dedupBy, List.map_nil]
  | evaluation x =>
    refine ⟨_, by simp only [save, shared, annotationLists, predictionLists, recSrc, bind_assoc, pure_bind]; rfl, fun rs => ?_⟩
    constructor <;>
      simp only [lst_listOpt, lst_some, lst_none, caSrc, cpSrc, taskSrc, projTags, evalTags,
        tasksOf_nil hk rfl, dedupBy, List.map_nil]

theorem save_spec {c : Collection} {dir : Option PPath} {d : Doc} (h : save c dir = .ok d) :
    ∃ rs, (recSrc c).mapM (encRecording (tagTable c.trav) dir) = .ok rs ∧ SaveSpec c d rs := by
  obtain ⟨mk, hs, hspec⟩ := save_shape c dir
  rw [hs] at h
  obtain ⟨rs, hrs, hd⟩ := bind_eq_ok.1 h
  simp only [pure, Except.pure, Except.ok.injEq] at hd
  subst hd
  exact ⟨rs, hrs, hspec rs⟩

theorem save_ok {c : Collection} {dir : Option PPath} {rs : List RecordingObj}
    (h : (recSrc c).mapM (encRecording (tagTable c.trav) dir) = .ok rs) :
    ∃ d, save c dir = .ok d ∧ SaveSpec c d rs := by
  obtain ⟨mk, hs, hspec⟩ := save_shape c dir
  exact ⟨mk rs, by rw [hs, h]; rfl, hspec rs⟩

theorem save_error {c : Collection} {dir : Option PPath} {e : Err}
    (h : (recSrc c).mapM (encRecording (tagTable c.trav) dir) = .error e) : save c dir = .error e := by
  obtain ⟨mk, hs, _⟩ := save_shape c dir
  rw [hs, h]; rfl

/-! ### member lists and sources -/

theorem KindsIn.not_mem {ks os} {o : Obj} (h : KindsIn ks os) (hn : ks.contains o.kind = false) : o ∉ os := by
  intro ho
  have := h o ho
  have : ks.contains o.kind = true := by simpa using this
  rw [hn] at this; cases this

theorem mem_recAll_recording {r r' : Recording} (h : Obj.recording r ∈ recAll r') : r = r' := by
  unfold recAll at h
  rcases List.mem_append.1 h with h | h
  · have hk : KindsIn [.user, .tag] (tagsAll r'.tags ++ notesAll r'.notes ++ r'.owners.map .user) :=
      .append (.append ((kindsIn_tagsAll _).mono (by decide)) ((kindsIn_notesAll _).mono (by decide)))
        ((kindsIn_users _).mono (by decide))
    exact absurd h (hk.not_mem rfl)
  · simpa using h

theorem mem_caAll_clipAnn {a b : ClipAnnotation} (h : Obj.clipAnn a ∈ caAll b) : a = b := by
  unfold caAll at h
  rcases List.mem_append.1 h with h | h
  · have hk : KindsIn ([.seAnn, .seqAnn, .sequence, .soundEvent, .clip] ++ kRec)
        (clipAll b.clip ++ tagsAll b.tags ++ b.sound_events.flatMap seaAll ++ b.sequences.flatMap sqaAll
          ++ notesAll b.notes) :=
      .append (.append (.append (.append ((kindsIn_clipAll _).mono (by decide))
        ((kindsIn_tagsAll _).mono (by decide)))
        (.flatMap (fun _ _ => (kindsIn_seaAll _).mono (by decide))))
        (.flatMap (fun _ _ => (kindsIn_sqaAll _).mono (by decide))))
        ((kindsIn_notesAll _).mono (by decide))
    exact absurd h (hk.not_mem rfl)
  · simpa using h

theorem mem_cpAll_clipPred {a b : ClipPrediction} (h : Obj.clipPred a ∈ cpAll b) : a = b := by
  unfold cpAll at h
  rcases List.mem_append.1 h with h | h
  · have hk : KindsIn ([.sePred, .seqPred, .sequence, .soundEvent, .clip] ++ kRec)
        (clipAll b.clip ++ b.sound_events.flatMap sepAll ++ b.sequences.flatMap sqpAll ++ ptagsAll b.tags) :=
      .append (.append (.append ((kindsIn_clipAll _).mono (by decide))
        (.flatMap (fun _ _ => (kindsIn_sepAll _).mono (by decide))))
        (.flatMap (fun _ _ => (kindsIn_sqpAll _).mono (by decide))))
        ((kindsIn_ptagsAll _).mono (by decide))
    exact absurd h (hk.not_mem rfl)
  · simpa using h

theorem mem_taskAll_task {a b : AnnotationTask} (h : Obj.task a ∈ taskAll b) : a = b := by
  unfold taskAll at h
  rcases List.mem_append.1 h with h | h
  · have hk : KindsIn kClip (b.status_badges.flatMap badgeAll ++ clipAll b.clip) :=
      .append ((kindsIn_badges _).mono (by decide)) (kindsIn_clipAll _)
    exact absurd h (hk.not_mem rfl)
  · simpa using h

/-! the member lists are exactly the objects of their kind in the traversal -/

theorem recording_mem_flatMap_recAll {rs : List Recording} {r : Recording} :
    Obj.recording r ∈ rs.flatMap recAll ↔ r ∈ rs := by
  constructor
  · intro h
    obtain ⟨r', hr', h⟩ := List.mem_flatMap.1 h
    rw [mem_recAll_recording h]; exact hr'
  · intro h; exact List.mem_flatMap.2 ⟨r, h, self_mem_recAll r⟩

theorem clipAnn_mem_flatMap_caAll {as : List ClipAnnotation} {a : ClipAnnotation} :
    Obj.clipAnn a ∈ as.flatMap caAll ↔ a ∈ as := by
  constructor
  · intro h
    obtain ⟨r', hr', h⟩ := List.mem_flatMap.1 h
    rw [mem_caAll_clipAnn h]; exact hr'
  · intro h; exact List.mem_flatMap.2 ⟨a, h, self_mem_caAll a⟩

theorem clipPred_mem_flatMap_cpAll {as : List ClipPrediction} {a : ClipPrediction} :
    Obj.clipPred a ∈ as.flatMap cpAll ↔ a ∈ as := by
  constructor
  · intro h
    obtain ⟨r', hr', h⟩ := List.mem_flatMap.1 h
    rw [mem_cpAll_clipPred h]; exact hr'
  · intro h; exact List.mem_flatMap.2 ⟨a, h, self_mem_cpAll a⟩

theorem task_mem_flatMap_taskAll {as : List AnnotationTask} {a : AnnotationTask} :
    Obj.task a ∈ as.flatMap taskAll ↔ a ∈ as := by
  constructor
  · intro h
    obtain ⟨r', hr', h⟩ := List.mem_flatMap.1 h
    rw [mem_taskAll_task h]; exact hr'
  · intro h; exact List.mem_flatMap.2 ⟨a, h, self_mem_taskAll a⟩

theorem clipAnn_mem_project {x : AnnotationProject} {a : ClipAnnotation} :
    Obj.clipAnn a ∈ (Collection.annotationProject x).trav ↔ a ∈ x.clip_annotations := by
  simp only [Collection.trav, List.mem_append, clipAnn_mem_flatMap_caAll]
  constructor
  · rintro ((h | h) | h)
    · exact absurd h ((KindsIn.flatMap (fun _ _ => kindsIn_taskAll _)).not_mem rfl)
    · exact absurd h ((kindsIn_tagsAll _).not_mem rfl)
    · exact h
  · exact Or.inr

theorem task_mem_project {x : AnnotationProject} {a : AnnotationTask} :
    Obj.task a ∈ (Collection.annotationProject x).trav ↔ a ∈ x.tasks := by
  simp only [Collection.trav, List.mem_append, task_mem_flatMap_taskAll]
  constructor
  · rintro ((h | h) | h)
    · exact h
    · exact absurd h ((kindsIn_tagsAll _).not_mem rfl)
    · exact absurd h ((KindsIn.flatMap (fun _ _ => kindsIn_caAll _)).not_mem rfl)
  · exact fun h => Or.inl (Or.inl h)

theorem clipAnn_mem_evalSet {x : EvaluationSet} {a : ClipAnnotation} :
    Obj.clipAnn a ∈ (Collection.evaluationSet x).trav ↔ a ∈ x.clip_annotations := by
  simp only [Collection.trav, List.mem_append, clipAnn_mem_flatMap_caAll]
  constructor
  · rintro (h | h)
    · exact h
    · exact absurd h ((kindsIn_tagsAll _).not_mem rfl)
  · exact Or.inl

/-- the encoded recordings are the recordings of the traversal, as sets -/
theorem recSrc_iff_of_coherent {c : Collection} (hc : CoherentBy (·.uuid) (recsOf c.trav)) {r : Recording} :
    r ∈ recSrc c ↔ r ∈ recsOf c.trav := by
  cases c with
  | recordingSet x => simp only [recSrc, mem_recsOf, Collection.trav, recording_mem_flatMap_recAll]
  | dataset x => simp only [recSrc, mem_recsOf, Collection.trav, recording_mem_flatMap_recAll]
  | _ => exact ⟨mem_dedupBy _, mem_dedupBy_of_coherent _ hc⟩

theorem recSrc_subset {c : Collection} {r : Recording} (h : r ∈ recSrc c) : r ∈ recsOf c.trav := by
  cases c with
  | recordingSet x => simpa only [recSrc, mem_recsOf, Collection.trav, recording_mem_flatMap_recAll] using h
  | dataset x => simpa only [recSrc, mem_recsOf, Collection.trav, recording_mem_flatMap_recAll] using h
  | _ => exact mem_dedupBy _ h

theorem recSrc_keys {c : Collection} {k : Atom} :
    k ∈ (recSrc c).map (·.uuid) ↔ k ∈ (recsOf c.trav).map (·.uuid) := by
  cases c with
  | recordingSet x => simp only [recSrc, List.mem_map, mem_recsOf, Collection.trav, recording_mem_flatMap_recAll]
  | dataset x => simp only [recSrc, List.mem_map, mem_recsOf, Collection.trav, recording_mem_flatMap_recAll]
  | _ => exact mem_keys_dedupBy _

theorem caSrc_subset {c : Collection} {r : ClipAnnotation} (h : r ∈ caSrc c) : r ∈ casOf c.trav := by
  cases c with
  | annotationSet x => simpa only [caSrc, mem_casOf, Collection.trav, clipAnn_mem_flatMap_caAll] using h
  | annotationProject x => simpa only [caSrc, mem_casOf, clipAnn_mem_project] using h
  | evaluationSet x => simpa only [caSrc, mem_casOf, clipAnn_mem_evalSet] using h
  | _ => exact mem_dedupBy _ h

theorem caSrc_keys {c : Collection} {k : Atom} :
    k ∈ (caSrc c).map (·.uuid) ↔ k ∈ (casOf c.trav).map (·.uuid) := by
  cases c with
  | annotationSet x => simp only [caSrc, List.mem_map, mem_casOf, Collection.trav, clipAnn_mem_flatMap_caAll]
  | annotationProject x => simp only [caSrc, List.mem_map, mem_casOf, clipAnn_mem_project]
  | evaluationSet x => simp only [caSrc, List.mem_map, mem_casOf, clipAnn_mem_evalSet]
  | _ => exact mem_keys_dedupBy _

theorem cpSrc_subset {c : Collection} {r : ClipPrediction} (h : r ∈ cpSrc c) : r ∈ cpsOf c.trav := by
  cases c with
  | predictionSet x => simpa only [cpSrc, mem_cpsOf, Collection.trav, clipPred_mem_flatMap_cpAll] using h
  | modelRun x => simpa only [cpSrc, mem_cpsOf, Collection.trav, clipPred_mem_flatMap_cpAll] using h
  | _ => exact mem_dedupBy _ h

theorem cpSrc_keys {c : Collection} {k : Atom} :
    k ∈ (cpSrc c).map (·.uuid) ↔ k ∈ (cpsOf c.trav).map (·.uuid) := by
  cases c with
  | predictionSet x => simp only [cpSrc, List.mem_map, mem_cpsOf, Collection.trav, clipPred_mem_flatMap_cpAll]
  | modelRun x => simp only [cpSrc, List.mem_map, mem_cpsOf, Collection.trav, clipPred_mem_flatMap_cpAll]
  | _ => exact mem_keys_dedupBy _

theorem taskSrc_subset {c : Collection} {r : AnnotationTask} (h : r ∈ taskSrc c) : r ∈ tasksOf c.trav := by
  cases c with
  | annotationProject x => simpa only [taskSrc, mem_tasksOf, task_mem_project] using h
  | _ => exact mem_dedupBy _ h

theorem taskSrc_keys {c : Collection} {k : Atom} :
    k ∈ (taskSrc c).map (·.uuid) ↔ k ∈ (tasksOf c.trav).map (·.uuid) := by
  cases c with
  | annotationProject x => simp only [taskSrc, List.mem_map, mem_tasksOf, task_mem_project]
  | _ => exact mem_keys_dedupBy _

/-! distinct keys of the sources (member lists: `WF.members`) -/
theorem recSrc_nodup {c : Collection} (h : WF c) : ((recSrc c).map (·.uuid)).Nodup := by
  cases c with
  | recordingSet x => exact h.members (x.recordings.map (·.uuid)) (by simp [Collection.memberKeys])
  | dataset x => exact h.members (x.recordings.map (·.uuid)) (by simp [Collection.memberKeys])
  | _ => exact dedupBy_keys_nodup _ _

theorem caSrc_nodup {c : Collection} (h : WF c) : ((caSrc c).map (·.uuid)).Nodup := by
  cases c with
  | annotationSet x => exact h.members (x.clip_annotations.map (·.uuid)) (by simp [Collection.memberKeys])
  | annotationProject x => exact h.members (x.clip_annotations.map (·.uuid)) (by simp [Collection.memberKeys])
  | evaluationSet x => exact h.members (x.clip_annotations.map (·.uuid)) (by simp [Collection.memberKeys])
  | _ => exact dedupBy_keys_nodup _ _

theorem cpSrc_nodup {c : Collection} (h : WF c) : ((cpSrc c).map (·.uuid)).Nodup := by
  cases c with
  | predictionSet x => exact h.members (x.clip_predictions.map (·.uuid)) (by simp [Collection.memberKeys])
  | modelRun x => exact h.members (x.clip_predictions.map (·.uuid)) (by simp [Collection.memberKeys])
  | _ => exact dedupBy_keys_nodup _ _

theorem taskSrc_nodup {c : Collection} (h : WF c) : ((taskSrc c).map (·.uuid)).Nodup := by
  cases c with
  | annotationProject x => exact h.members (x.tasks.map (·.uuid)) (by simp [Collection.memberKeys])
  | _ => exact dedupBy_keys_nodup _ _


end SE.Aoef
