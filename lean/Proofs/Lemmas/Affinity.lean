/-
  Helper definitions and lemmas for C06 (`Proofs/C06.lean`): the contracts on the GEOS
  parameter, `_prepare_geometry` by cases, rectangle arithmetic, and the rectangle
  instance `boxGeos` that shows the contracts are satisfiable.
-/
import Mathlib.Tactic.Linarith
import Mathlib.Tactic.Ring
import Mathlib.Algebra.Order.Field.Basic
import SoundeventModel.Affinity
namespace SE.Affinity
variable {σ : Type}

/-! ### contracts on what GEOS returns -/

/-- what even binary64 GEOS results satisfy (checked exactly at run time): enough for the
    range of the repaired code -/
structure Sane (G : Geos σ) : Prop where
  inter_nonneg : ∀ x y, 0 ≤ G.inter x y
  inter_le_sum : ∀ x y, G.inter x y ≤ G.area x + G.area y
  bounds_ordered : ∀ x, G.st x ≤ G.en x

/-- exact plane geometry: `inter` is the area of the intersection (checked at run time up
    to a relative 2⁻⁴⁰, GEOS computes in binary64) -/
structure Sound (G : Geos σ) : Prop where
  inter_nonneg : ∀ x y, 0 ≤ G.inter x y
  inter_le_left : ∀ x y, G.inter x y ≤ G.area x
  inter_symm : ∀ x y, G.inter x y = G.inter y x
  inter_self : ∀ x, G.inter x x = G.area x
  inter_disjoint : ∀ x y, G.en x ≤ G.st y → G.inter x y = 0
  bounds_ordered : ∀ x, G.st x ≤ G.en x
  box_bounds : ∀ s l e h, s ≤ e → G.st (G.ofGeom (.boundingBox s l e h)) = s ∧
      G.en (G.ofGeom (.boundingBox s l e h)) = e

theorem Sound.inter_le_right {G : Geos σ} (h : Sound G) (x y : σ) : G.inter x y ≤ G.area y := by
  rw [h.inter_symm]; exact h.inter_le_left y x

theorem Sound.area_nonneg {G : Geos σ} (h : Sound G) (x : σ) : 0 ≤ G.area x := by
  rw [← h.inter_self]; exact h.inter_nonneg x x

theorem Sound.sane {G : Geos σ} (h : Sound G) : Sane G :=
  ⟨h.inter_nonneg, fun x y => by
      have := h.inter_le_left x y; have := h.area_nonneg y; linarith, h.bounds_ordered⟩

/-- GEOS is exact on axis-parallel rectangles -/
structure BoxExact (G : Geos σ) : Prop where
  area_box : ∀ s l e h, s ≤ e → l ≤ h → G.area (G.ofGeom (.boundingBox s l e h)) = boxArea s l e h
  inter_box : ∀ s1 l1 e1 h1 s2 l2 e2 h2, s1 ≤ e1 → l1 ≤ h1 → s2 ≤ e2 → l2 ≤ h2 →
    G.inter (G.ofGeom (.boundingBox s1 l1 e1 h1)) (G.ofGeom (.boundingBox s2 l2 e2 h2))
      = boxInter s1 l1 e1 h1 s2 l2 e2 h2

/-- the clamp `max(start - time_buffer, 0)` of the buffers is inactive before and after a
    shift by `d` -/
def NoClamp (g : Geom) (tb d : Rat) : Prop := ∀ b, g.bounds = some b → tb ≤ b.st ∧ tb ≤ b.st + d

/-- translation in time by `d` acts on shapely geometries as `τ` and GEOS commutes with it
    (for geometries that have at least one point: an empty geometry does not move) -/
structure ShiftInv (G : Geos σ) (d : Rat) (τ : σ → σ) : Prop where
  ofGeom_shift : ∀ g, g.bounds.isSome → G.ofGeom (g.shift d) = τ (G.ofGeom g)
  buffered_shift : ∀ g tb fb, g.bounds.isSome → NoClamp g tb d →
    G.buffered (g.shift d) tb fb = τ (G.buffered g tb fb)
  area_shift : ∀ x, G.area (τ x) = G.area x
  inter_shift : ∀ x y, G.inter (τ x) (τ y) = G.inter x y
  st_shift : ∀ x, G.st (τ x) = G.st x + d
  en_shift : ∀ x, G.en (τ x) = G.en x + d

/-- the part of geometry validation (C03) the time branch relies on -/
def WF : Geom → Prop
  | .timeStamp t => 0 ≤ t
  | .timeInterval s e => s ≤ e
  | .boundingBox s l e h => s ≤ e ∧ l ≤ h
  | _ => True

/-- duration (time branch) or area (area branch) of a prepared geometry -/
def extent (G : Geos σ) (p : Prep σ) : Rat :=
  if isTime p then (timeBounds G p).2 - (timeBounds G p).1 else G.area (toShape G p)

/-! ### `_prepare_geometry` by cases -/

theorem prepare_spec (G : Geos σ) (g : Geom) (tb fb : Rat) :
    prepare G g tb fb = match g with
      | .timeStamp t => if tb < 0 ∨ fb < 0 then .error .invalid
                        else .ok (.interval "TimeInterval" (max (t - tb) 0) (t + tb))
      | .timeInterval s e => .ok (.interval "TimeInterval" s e)
      | .boundingBox s l e h => .ok (.box s l e h)
      | .polygon r => .ok (.shape "Polygon" (G.ofGeom (.polygon r)))
      | .multiPolygon r => .ok (.shape "MultiPolygon" (G.ofGeom (.multiPolygon r)))
      | g => if tb < 0 ∨ fb < 0 then .error .invalid else .ok (.shape "Polygon" (G.buffered g tb fb)) := by
  cases g <;> simp [prepare, bufferGeometry, asPrep, Geom.tag, bufferTypes]

/-- the shapes `_prepare_geometry` can return -/
inductive Prepared : Prep σ → Prop
  | interval (s e : Rat) : Prepared (.interval "TimeInterval" s e)
  | box (s l e h : Rat) : Prepared (.box s l e h)
  | poly (x : σ) : Prepared (.shape "Polygon" x)
  | mpoly (x : σ) : Prepared (.shape "MultiPolygon" x)

theorem prepare_prepared (G : Geos σ) (g : Geom) (tb fb : Rat) (p : Prep σ)
    (h : prepare G g tb fb = .ok p) : Prepared p := by
  rw [prepare_spec] at h
  cases g <;> simp only at h <;> (try split at h) <;> cases h <;> constructor

theorem prepare_error (G : Geos σ) (g : Geom) (tb fb : Rat) (e : Err)
    (h : prepare G g tb fb = .error e) : e = .invalid ∧ (tb < 0 ∨ fb < 0) := by
  rw [prepare_spec] at h
  cases g <;> simp only at h <;> (try split at h) <;> cases h <;> exact ⟨rfl, by assumption⟩

theorem isTime_interval (s e : Rat) : isTime (Prep.interval (σ := σ) "TimeInterval" s e) = true := by
  simp [isTime, timeTypes, Prep.tag]

theorem isTime_box (s l e h : Rat) : isTime (Prep.box (σ := σ) s l e h) = false := by
  simp [isTime, timeTypes, Prep.tag]

theorem isTime_poly (x : σ) : isTime (Prep.shape "Polygon" x) = false := by
  simp [isTime, timeTypes, Prep.tag]

theorem isTime_mpoly (x : σ) : isTime (Prep.shape "MultiPolygon" x) = false := by
  simp [isTime, timeTypes, Prep.tag]

/-- a time-only geometry is prepared as a time interval -/
theorem prepare_time_only (G : Geos σ) (g : Geom) (tb fb : Rat) (p : Prep σ)
    (ht : timeTypes.contains g.tag = true) (h : prepare G g tb fb = .ok p) : isTime p = true := by
  rw [prepare_spec] at h
  cases g <;> simp [timeTypes, Geom.tag] at ht <;> simp only at h
  · split at h <;> cases h; exact isTime_interval _ _
  · cases h; exact isTime_interval _ _

/-- the time extent of a prepared geometry is ordered -/
theorem prepare_ordered (G : Geos σ) (hG : ∀ x, G.st x ≤ G.en x) (g : Geom) (tb fb : Rat) (p : Prep σ)
    (hw : WF g) (h : prepare G g tb fb = .ok p) : (timeBounds G p).1 ≤ (timeBounds G p).2 := by
  rw [prepare_spec] at h
  cases g <;> simp only at h <;> (try split at h) <;> cases h <;> simp only [timeBounds] <;> (try exact hG _)
  · rename_i t hneg
    simp only [WF] at hw
    have h1 : ¬ tb < 0 := fun c => hneg (Or.inl c)
    apply max_le <;> linarith [not_lt.1 h1]
  · exact hw
  · exact hw.1

/-- in the area branch the shapely bounds of a prepared geometry are its time extent -/
theorem toShape_bounds (G : Geos σ) (hG : Sound G) (g : Geom) (tb fb : Rat) (p : Prep σ) (hw : WF g)
    (h : prepare G g tb fb = .ok p) (hn : isTime p = false) :
    G.st (toShape G p) = (timeBounds G p).1 ∧ G.en (toShape G p) = (timeBounds G p).2 := by
  rw [prepare_spec] at h
  cases g <;> simp only at h <;> (try split at h) <;> cases h <;>
    first
      | exact ⟨rfl, rfl⟩
      | (simp [isTime_interval] at hn)
      | exact hG.box_bounds _ _ _ _ hw.1

/-! ### small facts used by the dispatcher theorems -/

theorem timeInter_bounds (s1 e1 s2 e2 : Rat) (h1 : s1 ≤ e1) (h2 : s2 ≤ e2) :
    0 ≤ max 0 (min e1 e2 - max s1 s2) ∧ max 0 (min e1 e2 - max s1 s2) ≤ e1 - s1 ∧
    max 0 (min e1 e2 - max s1 s2) ≤ e2 - s2 := by
  refine ⟨le_max_left _ _, max_le (by linarith) ?_, max_le (by linarith) ?_⟩
  · have := min_le_left e1 e2; have := le_max_left s1 s2; linarith
  · have := min_le_right e1 e2; have := le_max_right s1 s2; linarith

theorem affinity_eq (G : Geos σ) (g1 g2 : Geom) (tb fb : Rat) (p1 p2 : Prep σ)
    (h1 : prepare G g1 tb fb = .ok p1) (h2 : prepare G g2 tb fb = .ok p2) :
    affinity G g1 g2 tb fb = .ok (affinityP G p1 p2) := by
  unfold affinity; rw [h1, h2]

theorem affinity_ok_prepared (G : Geos σ) (g1 g2 : Geom) (tb fb v : Rat)
    (h : affinity G g1 g2 tb fb = .ok v) :
    ∃ p1 p2, prepare G g1 tb fb = .ok p1 ∧ prepare G g2 tb fb = .ok p2 ∧ v = affinityP G p1 p2 := by
  unfold affinity at h
  rcases h1 : prepare G g1 tb fb with e1 | p1 <;> rw [h1] at h <;> simp only at h
  · cases h
  · rcases h2 : prepare G g2 tb fb with e2 | p2 <;> rw [h2] at h <;> simp only at h
    · cases h
    · cases h; exact ⟨p1, p2, rfl, rfl, rfl⟩

/-! ### rectangles -/

theorem boxInter_bounds (s1 l1 e1 h1 s2 l2 e2 h2 : Rat) (a1 : s1 ≤ e1) (b1 : l1 ≤ h1) (a2 : s2 ≤ e2)
    (b2 : l2 ≤ h2) :
    0 ≤ boxInter s1 l1 e1 h1 s2 l2 e2 h2 ∧
    boxInter s1 l1 e1 h1 s2 l2 e2 h2 ≤ boxArea s1 l1 e1 h1 ∧
    boxInter s1 l1 e1 h1 s2 l2 e2 h2 ≤ boxArea s2 l2 e2 h2 := by
  unfold boxInter boxArea
  have t0 : 0 ≤ max 0 (min e1 e2 - max s1 s2) := le_max_left _ _
  have f0 : 0 ≤ max 0 (min h1 h2 - max l1 l2) := le_max_left _ _
  have t1 : max 0 (min e1 e2 - max s1 s2) ≤ e1 - s1 := by
    apply max_le (by linarith); have := min_le_left e1 e2; have := le_max_left s1 s2; linarith
  have t2 : max 0 (min e1 e2 - max s1 s2) ≤ e2 - s2 := by
    apply max_le (by linarith); have := min_le_right e1 e2; have := le_max_right s1 s2; linarith
  have f1 : max 0 (min h1 h2 - max l1 l2) ≤ h1 - l1 := by
    apply max_le (by linarith); have := min_le_left h1 h2; have := le_max_left l1 l2; linarith
  have f2 : max 0 (min h1 h2 - max l1 l2) ≤ h2 - l2 := by
    apply max_le (by linarith); have := min_le_right h1 h2; have := le_max_right l1 l2; linarith
  exact ⟨mul_nonneg t0 f0, mul_le_mul t1 f1 f0 (by linarith), mul_le_mul t2 f2 f0 (by linarith)⟩

theorem timeFactor_zero (s1 e1 s2 e2 : Rat) (h : e1 ≤ s2 ∨ e2 ≤ s1) : max 0 (min e1 e2 - max s1 s2) = 0 := by
  apply max_eq_left
  rcases h with h | h
  · have := min_le_left e1 e2; have := le_max_right s1 s2; linarith
  · have := min_le_right e1 e2; have := le_max_left s1 s2; linarith



/-! ### bounds commute with a time shift -/

def shiftB (d : Rat) (b : Bounds) : Bounds := ⟨b.st + d, b.lo, b.en + d, b.hi⟩

theorem foldl_bounds_shift (d : Rat) (ps : List Pt) (b : Bounds) :
    (shiftPts d ps).foldl (fun b q =>
      { st := min b.st q.1, lo := min b.lo q.2, en := max b.en q.1, hi := max b.hi q.2 }) (shiftB d b)
    = shiftB d (ps.foldl (fun b q =>
      { st := min b.st q.1, lo := min b.lo q.2, en := max b.en q.1, hi := max b.hi q.2 }) b) := by
  induction ps generalizing b with
  | nil => rfl
  | cons q qs ih =>
    simp only [shiftPts, List.map_cons, List.foldl_cons] at ih ⊢
    rw [← ih]
    congr 1
    simp only [shiftB, min_add_add_right, max_add_add_right]

theorem ptsBounds_shift (d : Rat) (ps : List Pt) :
    ptsBounds (shiftPts d ps) = (ptsBounds ps).map (shiftB d) := by
  cases ps with
  | nil => rfl
  | cons p ps =>
    simp only [shiftPts, List.map_cons, ptsBounds, Option.map_some, Option.some.injEq]
    exact foldl_bounds_shift d ps ⟨p.1, p.2, p.1, p.2⟩

theorem headD_map_shift (d : Rat) (rings : List (List Pt)) :
    (rings.map (shiftPts d)).headD [] = shiftPts d (rings.headD []) := by
  cases rings <;> rfl

theorem shiftPts_flatten (d : Rat) (ls : List (List Pt)) :
    (ls.map (shiftPts d)).flatten = shiftPts d ls.flatten := by
  unfold shiftPts; exact (List.map_flatten).symm

theorem boundPts_shift (d : Rat) (g : Geom) : (g.shift d).boundPts = shiftPts d g.boundPts := by
  cases g <;> simp only [Geom.shift, Geom.boundPts]
  case timeStamp t => simp [shiftPts]
  case timeInterval s e => simp [shiftPts]
  case point t f => simp [shiftPts]
  case polygon r => exact headD_map_shift d r
  case boundingBox s l e h => simp [shiftPts]
  case multiLineString ls => exact shiftPts_flatten d ls
  case multiPolygon ps =>
    rw [← shiftPts_flatten, List.map_map, List.map_map]
    congr 1
    apply List.map_congr_left
    intro rings _
    exact headD_map_shift d rings

theorem bounds_shift (d : Rat) (g : Geom) : (g.shift d).bounds = g.bounds.map (shiftB d) := by
  simp only [Geom.bounds, boundPts_shift, ptsBounds_shift]

theorem shift_tag (d : Rat) (g : Geom) : (g.shift d).tag = g.tag := by cases g <;> rfl

/-! ### the rectangle instance satisfies `BoxExact` and `ShiftInv` -/

theorem boxGeos_boxExact : BoxExact boxGeos := by
  constructor
  · intro s l e h hse hlh
    simp [boxGeos, Geom.bounds, Geom.boundPts, ptsBounds, boxArea, hse, hlh]
  · intro s1 l1 e1 h1 s2 l2 e2 h2 a1 b1 a2 b2
    simp [boxGeos, Geom.bounds, Geom.boundPts, ptsBounds, a1, b1, a2, b2]

def shiftRect (d : Rat) (x : Rat × Rat × Rat × Rat) : Rat × Rat × Rat × Rat :=
  (x.1 + d, x.2.1, x.2.2.1 + d, x.2.2.2)

theorem boxGeos_shiftInv (d : Rat) : ShiftInv boxGeos d (shiftRect d) := by
  refine ⟨?_, ?_, ?_, ?_, ?_, ?_⟩
  · intro g hp
    simp only [boxGeos, bounds_shift]
    rcases hb : g.bounds with _ | b
    · simp [hb] at hp
    · simp [shiftRect, shiftB]
  · intro g tb fb hp hc
    simp only [boxGeos, bounds_shift]
    rcases hb : g.bounds with _ | b
    · simp [hb] at hp
    · obtain ⟨c1, c2⟩ := hc b hb
      have e1 : max (b.st + d - tb) 0 = b.st + d - tb := max_eq_left (by linarith)
      have e2 : max (b.st - tb) 0 = b.st - tb := max_eq_left (by linarith)
      simp only [Option.map_some, shiftB, shiftRect, e1, e2]
      congr 1
      · ring
      · congr 2; ring
  · intro x; simp only [boxGeos, shiftRect]; congr 2; ring
  · intro x y
    simp only [boxGeos, shiftRect, boxInter, min_add_add_right, max_add_add_right]
    congr 2; ring
  · intro x; simp only [boxGeos, shiftRect, min_add_add_right]
  · intro x; simp only [boxGeos, shiftRect, max_add_add_right]



/-! ### time shift -/

def shiftPrep (τ : σ → σ) (d : Rat) : Prep σ → Prep σ
  | .interval tag s e => .interval tag (s + d) (e + d)
  | .box s l e h => .box (s + d) l (e + d) h
  | .shape tag x => .shape tag (τ x)

theorem bounds_timeStamp (t : Rat) : (Geom.timeStamp t).bounds = some ⟨t, 0, t, MAXF⟩ := by
  simp [Geom.bounds, Geom.boundPts, ptsBounds, MAXF]

theorem bounds_timeInterval (s e : Rat) : (Geom.timeInterval s e).bounds.isSome := by
  simp [Geom.bounds, Geom.boundPts, ptsBounds]

theorem bounds_boundingBox (s l e h : Rat) : (Geom.boundingBox s l e h).bounds.isSome := by
  simp [Geom.bounds, Geom.boundPts, ptsBounds]

theorem prepare_shift (G : Geos σ) (d : Rat) (τ : σ → σ) (hS : ShiftInv G d τ) (g : Geom) (tb fb : Rat)
    (hp : g.bounds.isSome) (hc : NoClamp g tb d) :
    prepare G (g.shift d) tb fb = (prepare G g tb fb).map (shiftPrep τ d) := by
  rw [prepare_spec, prepare_spec]
  cases g <;> simp only [Geom.shift]
  case timeStamp t =>
    obtain ⟨c1, c2⟩ := hc _ (bounds_timeStamp t)
    simp only at c1 c2
    split
    · rfl
    · simp only [Except.map, shiftPrep]
      rw [max_eq_left (by linarith), max_eq_left (by linarith)]
      congr 2 <;> ring
  case timeInterval s e => rfl
  case boundingBox s l e h => rfl
  case polygon r =>
    simp only [Except.map, shiftPrep]
    rw [← hS.ofGeom_shift _ hp]; rfl
  case multiPolygon r =>
    simp only [Except.map, shiftPrep]
    rw [← hS.ofGeom_shift _ hp]; rfl
  all_goals
    split
    · rfl
    · simp only [Except.map, shiftPrep]
      rw [← hS.buffered_shift _ tb fb hp hc]; rfl

theorem isTime_shiftPrep (τ : σ → σ) (d : Rat) (p : Prep σ) : isTime (shiftPrep τ d p) = isTime p := by
  cases p <;> rfl

theorem timeBounds_shiftPrep (G : Geos σ) (d : Rat) (τ : σ → σ) (hS : ShiftInv G d τ) (p : Prep σ) :
    timeBounds G (shiftPrep τ d p) = ((timeBounds G p).1 + d, (timeBounds G p).2 + d) := by
  cases p <;> simp [shiftPrep, timeBounds, hS.st_shift, hS.en_shift]

theorem toShape_shiftPrep (G : Geos σ) (d : Rat) (τ : σ → σ) (hS : ShiftInv G d τ) (p : Prep σ) :
    toShape G (shiftPrep τ d p) = τ (toShape G p) := by
  cases p <;> simp only [shiftPrep, toShape]
  · rw [← hS.ofGeom_shift _ (bounds_timeInterval _ _)]; rfl
  · rw [← hS.ofGeom_shift _ (bounds_boundingBox _ _ _ _)]; rfl

/-! ### the rectangle instance satisfies every contract -/

theorem boxGeos_sound : Sound boxGeos := by
  refine ⟨?_, ?_, ?_, ?_, ?_, ?_, ?_⟩
  · intro x y
    exact mul_nonneg (le_max_left _ _) (le_max_left _ _)
  · intro x y
    simp only [boxGeos, boxInter]
    apply mul_le_mul _ _ (le_max_left _ _) (le_max_left _ _)
    · apply max_le (le_max_left _ _)
      have := min_le_left x.2.2.1 y.2.2.1; have := le_max_left x.1 y.1
      exact le_trans (by linarith) (le_max_right _ _)
    · apply max_le (le_max_left _ _)
      have := min_le_left x.2.2.2 y.2.2.2; have := le_max_left x.2.1 y.2.1
      exact le_trans (by linarith) (le_max_right _ _)
  · intro x y
    simp only [boxGeos, boxInter]
    rw [min_comm x.2.2.1 y.2.2.1, max_comm x.1 y.1, min_comm x.2.2.2 y.2.2.2, max_comm x.2.1 y.2.1]
  · intro x
    simp only [boxGeos, boxInter, min_self, max_self]
  · intro x y h
    simp only [boxGeos] at h ⊢
    unfold boxInter
    have : max 0 (min x.2.2.1 y.2.2.1 - max x.1 y.1) = 0 := by
      apply max_eq_left
      have := min_le_left x.2.2.1 y.2.2.1; have := le_max_right x.1 y.1
      have := le_max_right x.1 x.2.2.1; have := min_le_left y.1 y.2.2.1
      linarith
    rw [this, zero_mul]
  · intro x; exact le_trans (min_le_left _ _) (le_max_left _ _)
  · intro s l e h hse
    simp [boxGeos, Geom.bounds, Geom.boundPts, ptsBounds, hse]

/-! ### review additions: exact bounds, the route, rounding arithmetics -/

/-- `geometry_to_shapely g .bounds` is the coordinate-wise minimum / maximum (`Geom.bounds`); these are
    comparisons only, exact in binary64 (checked exactly at run time on every measured shape) -/
structure BoundsExact (G : Geos σ) : Prop where
  st_ofGeom : ∀ g b, g.bounds = some b → G.st (G.ofGeom g) = b.st
  en_ofGeom : ∀ g b, g.bounds = some b → G.en (G.ofGeom g) = b.en

/-- the laws of a rounding arithmetic that the range / symmetry / self / disjoint clauses need:
    monotone, exact on 0 and 1, idempotent, doubling of a representable number is exact
    (binary64 round-to-nearest without overflow obeys them) -/
structure IsRounding (rnd : Rat → Rat) : Prop where
  mono : ∀ x y, x ≤ y → rnd x ≤ rnd y
  zero : rnd 0 = 0
  one : rnd 1 = 1
  idem : ∀ x, rnd (rnd x) = rnd x
  dbl : ∀ x, rnd x = x → rnd (2 * x) = 2 * x

/-- what GEOS returns are numbers of the arithmetic -/
structure Representable (rnd : Rat → Rat) (G : Geos σ) : Prop where
  area : ∀ x, rnd (G.area x) = G.area x
  inter : ∀ x y, rnd (G.inter x y) = G.inter x y

theorem isRounding_id : IsRounding id :=
  ⟨fun _ _ h => h, rfl, rfl, fun _ => rfl, fun _ _ => rfl⟩

theorem IsRounding.nonneg {rnd : Rat → Rat} (R : IsRounding rnd) (x : Rat) (h : 0 ≤ x) : 0 ≤ rnd x := by
  have := R.mono 0 x h; rwa [R.zero] at this

theorem IsRounding.nonpos {rnd : Rat → Rat} (R : IsRounding rnd) (x : Rat) (h : x ≤ 0) : rnd x ≤ 0 := by
  have := R.mono x 0 h; rwa [R.zero] at this

/-- the rounded overlap `i`, and the rounded union `u ≥ i`, of two ordered extents -/
theorem timeR_facts {rnd : Rat → Rat} (R : IsRounding rnd) (s1 e1 s2 e2 : Rat) (h1 : s1 ≤ e1) (h2 : s2 ≤ e2) :
    0 ≤ max 0 (rnd (min e1 e2 - max s1 s2)) ∧
    max 0 (rnd (min e1 e2 - max s1 s2)) ≤
      rnd (rnd (rnd (e1 - s1) + rnd (e2 - s2)) - max 0 (rnd (min e1 e2 - max s1 s2))) := by
  have hm1 : min e1 e2 - max s1 s2 ≤ e1 - s1 := by
    have := min_le_left e1 e2; have := le_max_left s1 s2; linarith
  have hm2 : min e1 e2 - max s1 s2 ≤ e2 - s2 := by
    have := min_le_right e1 e2; have := le_max_right s1 s2; linarith
  have d1 : 0 ≤ rnd (e1 - s1) := R.nonneg _ (by linarith)
  have d2 : 0 ≤ rnd (e2 - s2) := R.nonneg _ (by linarith)
  generalize hi : max 0 (rnd (min e1 e2 - max s1 s2)) = i
  have i0 : 0 ≤ i := by rw [← hi]; exact le_max_left _ _
  have ir : rnd i = i := by
    rw [← hi]
    rcases max_cases 0 (rnd (min e1 e2 - max s1 s2)) with ⟨h, _⟩ | ⟨h, _⟩ <;> rw [h]
    · exact R.zero
    · exact R.idem _
  have i1 : i ≤ rnd (e1 - s1) := by rw [← hi]; exact max_le d1 (R.mono _ _ hm1)
  have i2 : i ≤ rnd (e2 - s2) := by rw [← hi]; exact max_le d2 (R.mono _ _ hm2)
  have hS : 2 * i ≤ rnd (rnd (e1 - s1) + rnd (e2 - s2)) := by
    have := R.mono (2 * i) (rnd (e1 - s1) + rnd (e2 - s2)) (by linarith)
    rwa [R.dbl i ir] at this
  refine ⟨i0, ?_⟩
  have := R.mono i (rnd (rnd (e1 - s1) + rnd (e2 - s2)) - i) (by linarith)
  rwa [ir] at this

theorem prepareR_spec (rnd : Rat → Rat) (G : Geos σ) (g : Geom) (tb fb : Rat) :
    prepareR rnd G g tb fb = match g with
      | .timeStamp t => if tb < 0 ∨ fb < 0 then .error .invalid
                        else .ok (.interval "TimeInterval" (max (rnd (t - tb)) 0) (rnd (t + tb)))
      | g => prepare G g tb fb := by
  cases g <;> simp [prepareR, prepare, bufferGeometryR, bufferGeometry, asPrep, Geom.tag, bufferTypes]

theorem prepareR_id (G : Geos σ) (g : Geom) (tb fb : Rat) : prepareR id G g tb fb = prepare G g tb fb := by
  rw [prepareR_spec]; cases g <;> simp only [prepare_spec, id]

/-- a prepared geometry that is not a time interval was prepared without arithmetic -/
theorem prepareR_nontime (rnd : Rat → Rat) (G : Geos σ) (g : Geom) (tb fb : Rat) (p : Prep σ)
    (h : prepareR rnd G g tb fb = .ok p) (hn : isTime p = false) : prepare G g tb fb = .ok p := by
  rw [prepareR_spec] at h
  cases g <;> simp only at h <;> try exact h
  split at h
  · cases h
  · cases h; simp [isTime_interval] at hn

theorem prepareR_error (rnd : Rat → Rat) (G : Geos σ) (g : Geom) (tb fb : Rat) (e : Err)
    (h : prepareR rnd G g tb fb = .error e) : e = .invalid ∧ (tb < 0 ∨ fb < 0) := by
  rw [prepareR_spec] at h
  cases g <;> simp only at h <;> try exact prepare_error G _ tb fb e h
  split at h
  · cases h; exact ⟨rfl, by assumption⟩
  · cases h

theorem prepareR_ordered {rnd : Rat → Rat} (R : IsRounding rnd) (G : Geos σ) (hG : ∀ x, G.st x ≤ G.en x)
    (g : Geom) (tb fb : Rat) (p : Prep σ) (hw : WF g) (h : prepareR rnd G g tb fb = .ok p) :
    (timeBounds G p).1 ≤ (timeBounds G p).2 := by
  rw [prepareR_spec] at h
  cases g <;> simp only at h <;> try exact prepare_ordered G hG _ tb fb p hw h
  rename_i t
  split at h
  · cases h
  · rename_i hneg
    cases h
    simp only [timeBounds, WF] at hw ⊢
    have h1 : ¬ tb < 0 := fun c => hneg (Or.inl c)
    have h1 := not_lt.1 h1
    exact max_le (R.mono _ _ (by linarith)) (R.nonneg _ (by linarith))

theorem affinityR_eq (rnd : Rat → Rat) (G : Geos σ) (g1 g2 : Geom) (tb fb : Rat) (p1 p2 : Prep σ)
    (h1 : prepareR rnd G g1 tb fb = .ok p1) (h2 : prepareR rnd G g2 tb fb = .ok p2) :
    affinityR rnd G g1 g2 tb fb = .ok (affinityPR rnd G p1 p2) := by
  unfold affinityR; rw [h1, h2]

theorem affinityR_ok_prepared (rnd : Rat → Rat) (G : Geos σ) (g1 g2 : Geom) (tb fb v : Rat)
    (h : affinityR rnd G g1 g2 tb fb = .ok v) :
    ∃ p1 p2, prepareR rnd G g1 tb fb = .ok p1 ∧ prepareR rnd G g2 tb fb = .ok p2 ∧ v = affinityPR rnd G p1 p2 := by
  unfold affinityR at h
  rcases h1 : prepareR rnd G g1 tb fb with e1 | p1 <;> rw [h1] at h <;> simp only at h
  · cases h
  · rcases h2 : prepareR rnd G g2 tb fb with e2 | p2 <;> rw [h2] at h <;> simp only at h
    · cases h
    · cases h; exact ⟨p1, p2, rfl, rfl, rfl⟩

/-- duration (time branch, as the arithmetic computes it) or area of a prepared geometry -/
def extentR (rnd : Rat → Rat) (G : Geos σ) (p : Prep σ) : Rat :=
  if isTime p then rnd ((timeBounds G p).2 - (timeBounds G p).1) else G.area (toShape G p)

/-- the time extent of a geometry that `_prepare_geometry` leaves alone or buffers in closed form -/
def closedExtent (g : Geom) (tb : Rat) : Option (Rat × Rat) :=
  match g with
  | .timeStamp t => some (max (t - tb) 0, t + tb)
  | .timeInterval s e => some (s, e)
  | .boundingBox s _ e _ => some (s, e)
  | .polygon r => (Geom.polygon r).bounds.map (fun b => (b.st, b.en))
  | .multiPolygon r => (Geom.multiPolygon r).bounds.map (fun b => (b.st, b.en))
  | _ => none


end SE.Affinity
