import SoundeventModel.AffinityCall
import Proofs.Lemmas.History

/-! Helper lemmas of C06, follow-up 3: a cache keyed by something that determines the answer is history free;
    a memo that is dropped on update is history free; binding the optional tail of a signature succeeds. -/
namespace SE.Affinity
open SE.History

section cache
variable {α β κ : Type} [DecidableEq κ]

/-- every entry of the cache is the right answer for every input with that key -/
def CacheSound (key : α → κ) (f : α → β) (cache : List (κ × β)) : Prop :=
  ∀ x v, cache.lookup (key x) = some v → v = f x

theorem cacheSound_nil (key : α → κ) (f : α → β) : CacheSound key f [] := by
  intro x v h; simp [List.lookup] at h

theorem keyedCacheStep_sound (key : α → κ) (f : α → β) (hkey : ∀ x y, key x = key y → f x = f y)
    (cache : List (κ × β)) (h : CacheSound key f cache) (x : α) :
    CacheSound key f (keyedCacheStep key f cache x).1 ∧ (keyedCacheStep key f cache x).2 = f x := by
  unfold keyedCacheStep
  cases hl : cache.lookup (key x) with
  | some v => exact ⟨h, h x v hl⟩
  | none =>
    refine ⟨?_, rfl⟩
    intro y v hv
    simp only [List.lookup_cons] at hv
    by_cases hk : key y = key x
    · simp [hk] at hv
      rw [← hv]; exact (hkey y x hk).symm
    · have : (key y == key x) = false := by simp [hk]
      rw [this] at hv
      exact h y v hv

theorem keyedCache_stateAfter_sound (key : α → κ) (f : α → β) (hkey : ∀ x y, key x = key y → f x = f y)
    (xs : List α) : ∀ cache, CacheSound key f cache → CacheSound key f (stateAfter (keyedCacheStep key f) cache xs) := by
  induction xs with
  | nil => intro c h; exact h
  | cons x xs ih =>
    intro c h
    exact ih _ (keyedCacheStep_sound key f hkey c h x).1

/-- a cache keyed by anything that determines the answer never changes an answer -/
theorem keyedCache_historyFree (key : α → κ) (f : α → β) (hkey : ∀ x y, key x = key y → f x = f y) :
    HistoryFree (keyedCacheStep key f) [] f := by
  intro s ⟨xs, hs⟩ x
  have hsound := keyedCache_stateAfter_sound key f hkey xs [] (cacheSound_nil key f)
  rw [hs] at hsound
  exact (keyedCacheStep_sound key f hkey s hsound x).2

end cache

/-- parameters that all have defaults always bind -/
theorem bindFrom_optional (pos : List Arg) (kw : List (String × Arg)) (rest : Sig)
    (hd : rest.all (fun p => p.2.isSome) = true) : ∀ i, ∃ as, bindFrom pos kw i rest = .ok as := by
  induction rest with
  | nil => intro i; exact ⟨[], rfl⟩
  | cons p ps ih =>
    intro i
    simp only [List.all_cons, Bool.and_eq_true] at hd
    obtain ⟨as, has⟩ := ih hd.2 (i + 1)
    have h1 : ∃ a, bindOne pos kw i p = .ok a := by
      unfold bindOne
      cases pos[i]? with
      | some a => exact ⟨a, rfl⟩
      | none =>
        cases kw.lookup p.1 with
        | some a => exact ⟨a, rfl⟩
        | none =>
          cases hp : p.2 with
          | some d => exact ⟨d, by simp⟩
          | none => simp [hp] at hd
    obtain ⟨a, ha⟩ := h1
    exact ⟨(p.1, a) :: as, by simp [bindFrom, ha, has]⟩

/-- the shape of a well-formed signature -/
theorem wellFormedSig_shape (sig : Sig) (h : WellFormedSig sig = true) :
    ∃ dt df rest, sig = ("geometry1", none) :: ("geometry2", none) :: ("time_buffer", some (.num dt)) ::
        ("freq_buffer", some (.num df)) :: rest ∧ 0 ≤ dt ∧ 0 ≤ df ∧ rest.all (fun p => p.2.isSome) = true := by
  unfold WellFormedSig at h
  split at h
  · rename_i n1 n2 n3 d3 n4 d4 rest
    simp only [Bool.and_eq_true, beq_iff_eq] at h
    obtain ⟨⟨⟨⟨⟨⟨⟨h1, h2⟩, h3⟩, h4⟩, h5⟩, h6⟩, h7⟩, _⟩ := h
    subst h1 h2 h3 h4
    match d3, d4, h5, h6 with
    | some (.num dt), some (.num df), h5, h6 =>
      simp only [Arg.nonnegNum, decide_eq_true_eq] at h5 h6
      exact ⟨dt, df, rest, rfl, h5, h6, h7⟩
    | some (.geom _), _, h5, _ => simp [Arg.nonnegNum] at h5
    | none, _, h5, _ => simp [Arg.nonnegNum] at h5
    | some (.num _), some (.geom _), _, h6 => simp [Arg.nonnegNum] at h6
    | some (.num _), none, _, h6 => simp [Arg.nonnegNum] at h6
  · simp at h

end SE.Affinity
