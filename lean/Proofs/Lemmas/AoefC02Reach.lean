/-
  Helper lemmas for C02: every element of `…All x` is reachable from `x` along `children`
  (nothing unreachable is in the traversal).
-/
import Proofs.Lemmas.AoefTrav
namespace SE.Aoef
set_option linter.unusedSimpArgs false

theorem ReachFrom.trans {a b c : Obj} (hab : ReachFrom a b) (hbc : ReachFrom b c) : ReachFrom a c := by
  induction hbc with
  | refl => exact hab
  | step _ hch ih => exact .step ih hch

theorem ReachFrom.child {r ch : Obj} (h : ch ∈ children r) : ReachFrom r ch := .step (.refl r) h

/-- every object of the list is reachable from `r` -/
def ReachL (r : Obj) (os : List Obj) : Prop := ∀ o ∈ os, ReachFrom r o

theorem reachL_append {r a b} (ha : ReachL r a) (hb : ReachL r b) : ReachL r (a ++ b) := by
  intro o ho
  rcases List.mem_append.1 ho with h | h
  · exact ha o h
  · exact hb o h

theorem reachL_self (r : Obj) : ReachL r [r] := by
  intro o ho
  have : o = r := by simpa using ho
  subst this; exact .refl _

theorem reachL_nil (r : Obj) : ReachL r [] := by intro o ho; cases ho

theorem reachL_direct {r os} (h : ∀ o ∈ os, o ∈ children r) : ReachL r os :=
  fun o ho => .child (h o ho)

theorem reachL_sub {r ch os} (hch : ch ∈ children r) (h : ReachL ch os) : ReachL r os :=
  fun o ho => (ReachFrom.child hch).trans (h o ho)

theorem reachL_flatMap_sub {α} {r : Obj} {f : α → List Obj} {g : α → Obj} {xs : List α}
    (hch : ∀ x ∈ xs, g x ∈ children r) (h : ∀ x, ReachL (g x) (f x)) : ReachL r (xs.flatMap f) := by
  intro o ho
  obtain ⟨x, hx, hox⟩ := List.mem_flatMap.1 ho
  exact (ReachFrom.child (hch x hx)).trans (h x o hox)

theorem reachL_recAll (r : Recording) : ReachL (.recording r) (recAll r) := by
  unfold recAll
  exact reachL_append (reachL_direct (fun o ho => ho)) (reachL_self _)

theorem reachL_clipAll (c : Clip) : ReachL (.clip c) (clipAll c) := by
  unfold clipAll
  exact reachL_append (reachL_sub (by simp [children]) (reachL_recAll _)) (reachL_self _)

theorem reachL_seAll (s : SoundEvent) : ReachL (.soundEvent s) (seAll s) := by
  unfold seAll
  exact reachL_append (reachL_sub (by simp [children]) (reachL_recAll _)) (reachL_self _)

theorem reachL_seqAllAux (n : SeqNode) (as : List SeqNode) :
    ReachL (.sequence ⟨n, as⟩) (seqAllAux n as) := by
  induction as generalizing n with
  | nil =>
    unfold seqAllAux
    refine reachL_append (reachL_flatMap_sub (g := Obj.soundEvent) ?_ reachL_seAll) (reachL_self _)
    intro s hs
    simp only [children, List.mem_append, List.mem_map]
    exact Or.inl ⟨s, hs, rfl⟩
  | cons a as ih =>
    unfold seqAllAux
    refine reachL_append (reachL_append (reachL_sub ?_ (ih a))
      (reachL_flatMap_sub (g := Obj.soundEvent) ?_ reachL_seAll)) (reachL_self _)
    · simp [children, Sequence.parent]
    · intro s hs
      simp only [children, List.mem_append, List.mem_map]
      exact Or.inl ⟨s, hs, rfl⟩

theorem reachL_seqAll (s : Sequence) : ReachL (.sequence s) (seqAll s) := reachL_seqAllAux _ _

theorem reachL_seaAll (a : SoundEventAnnotation) : ReachL (.seAnn a) (seaAll a) := by
  unfold seaAll
  refine reachL_append (reachL_append (reachL_append (reachL_append
    (reachL_sub (by simp [children]) (reachL_seAll _)) (reachL_direct ?_)) (reachL_direct ?_))
    (reachL_direct ?_)) (reachL_self _)
  all_goals (intro o ho; simp only [children, List.mem_append, List.mem_singleton]; simp only [ho, true_or, or_true])

theorem reachL_sqaAll (a : SequenceAnnotation) : ReachL (.seqAnn a) (sqaAll a) := by
  unfold sqaAll
  refine reachL_append (reachL_append (reachL_append (reachL_append
    (reachL_sub (by simp [children]) (reachL_seqAll _)) (reachL_direct ?_)) (reachL_direct ?_))
    (reachL_direct ?_)) (reachL_self _)
  all_goals (intro o ho; simp only [children, List.mem_append, List.mem_singleton]; simp only [ho, true_or, or_true])

theorem reachL_caAll (a : ClipAnnotation) : ReachL (.clipAnn a) (caAll a) := by
  unfold caAll
  refine reachL_append (reachL_append (reachL_append (reachL_append (reachL_append
    (reachL_sub (by simp [children]) (reachL_clipAll _)) (reachL_direct ?_))
    (reachL_flatMap_sub (g := Obj.seAnn) ?_ reachL_seaAll))
    (reachL_flatMap_sub (g := Obj.seqAnn) ?_ reachL_sqaAll)) (reachL_direct ?_)) (reachL_self _)
  · intro o ho; simp only [children, List.mem_append, List.mem_singleton]; simp only [ho, true_or, or_true]
  · intro x hx; simp only [children, List.mem_append, List.mem_map]
    exact Or.inl (Or.inl (Or.inr ⟨x, hx, rfl⟩))
  · intro x hx; simp only [children, List.mem_append, List.mem_map]
    exact Or.inl (Or.inr ⟨x, hx, rfl⟩)
  · intro o ho; simp only [children, List.mem_append, List.mem_singleton]; simp only [ho, true_or, or_true]

theorem reachL_sepAll (p : SoundEventPrediction) : ReachL (.sePred p) (sepAll p) := by
  unfold sepAll
  refine reachL_append (reachL_append (reachL_sub (by simp [children]) (reachL_seAll _))
    (reachL_direct ?_)) (reachL_self _)
  intro o ho; simp only [children, List.mem_append, List.mem_singleton]; simp only [ho, true_or, or_true]

theorem reachL_sqpAll (p : SequencePrediction) : ReachL (.seqPred p) (sqpAll p) := by
  unfold sqpAll
  refine reachL_append (reachL_append (reachL_sub (by simp [children]) (reachL_seqAll _))
    (reachL_direct ?_)) (reachL_self _)
  intro o ho; simp only [children, List.mem_append, List.mem_singleton]; simp only [ho, true_or, or_true]

theorem reachL_cpAll (p : ClipPrediction) : ReachL (.clipPred p) (cpAll p) := by
  unfold cpAll
  refine reachL_append (reachL_append (reachL_append (reachL_append
    (reachL_sub (by simp [children]) (reachL_clipAll _))
    (reachL_flatMap_sub (g := Obj.sePred) ?_ reachL_sepAll))
    (reachL_flatMap_sub (g := Obj.seqPred) ?_ reachL_sqpAll)) (reachL_direct ?_)) (reachL_self _)
  · intro x hx; simp only [children, List.mem_append, List.mem_map]
    exact Or.inl (Or.inl (Or.inr ⟨x, hx, rfl⟩))
  · intro x hx; simp only [children, List.mem_append, List.mem_map]
    exact Or.inl (Or.inr ⟨x, hx, rfl⟩)
  · intro o ho; simp only [children, List.mem_append, List.mem_singleton]; simp only [ho, true_or, or_true]

theorem reachL_taskAll (t : AnnotationTask) : ReachL (.task t) (taskAll t) := by
  unfold taskAll
  refine reachL_append (reachL_append (reachL_direct ?_)
    (reachL_sub (by simp [children]) (reachL_clipAll _))) (reachL_self _)
  intro o ho; simp only [children, List.mem_append, List.mem_singleton]; simp only [ho, true_or, or_true]

theorem reachL_matchAll (m : Match) : ReachL (.mtch m) (matchAll m) := by
  unfold matchAll
  refine reachL_append (reachL_append ?_ ?_) (reachL_self _)
  · cases hs : m.source with
    | none => exact reachL_nil _
    | some p => exact reachL_sub (by simp [children, hs]) (reachL_sepAll p)
  · cases ht : m.target with
    | none => exact reachL_nil _
    | some a => exact reachL_sub (by simp [children, ht]) (reachL_seaAll a)

theorem reachL_ceAll (e : ClipEvaluation) : ReachL (.clipEval e) (ceAll e) := by
  unfold ceAll
  refine reachL_append (reachL_append (reachL_append
    (reachL_sub (by simp [children]) (reachL_caAll _))
    (reachL_sub (by simp [children]) (reachL_cpAll _)))
    (reachL_flatMap_sub (g := Obj.mtch) ?_ reachL_matchAll)) (reachL_self _)
  intro x hx; simp only [children, List.mem_append, List.mem_map]
  exact Or.inr ⟨x, hx, rfl⟩

theorem reachable_of_flatMap {α} {c : Collection} {f : α → List Obj} {g : α → Obj} {xs : List α}
    (hroot : ∀ x ∈ xs, g x ∈ c.roots) (h : ∀ x, ReachL (g x) (f x)) :
    ∀ o ∈ xs.flatMap f, Reachable c o := by
  intro o ho
  obtain ⟨x, hx, hox⟩ := List.mem_flatMap.1 ho
  exact ⟨g x, hroot x hx, h x o hox⟩

/-- nothing unreachable is in the traversal -/
theorem mem_trav_reachable (c : Collection) (o : Obj) (h : o ∈ c.trav) : Reachable c o := by
  cases c with
  | recordingSet x =>
    exact reachable_of_flatMap (g := Obj.recording) (fun r hr => List.mem_map.2 ⟨r, hr, rfl⟩) reachL_recAll o h
  | dataset x =>
    exact reachable_of_flatMap (g := Obj.recording) (fun r hr => List.mem_map.2 ⟨r, hr, rfl⟩) reachL_recAll o h
  | annotationSet x =>
    exact reachable_of_flatMap (g := Obj.clipAnn) (fun r hr => List.mem_map.2 ⟨r, hr, rfl⟩) reachL_caAll o h
  | annotationProject x =>
    simp only [Collection.trav, List.mem_append] at h
    rcases h with (h | h) | h
    · refine reachable_of_flatMap (g := Obj.task) (fun r hr => ?_) reachL_taskAll o h
      simp only [Collection.roots, List.mem_append, List.mem_map]
      exact Or.inl (Or.inl ⟨r, hr, rfl⟩)
    · exact ⟨o, by simp only [Collection.roots, List.mem_append]; exact Or.inl (Or.inr h), .refl _⟩
    · refine reachable_of_flatMap (g := Obj.clipAnn) (fun r hr => ?_) reachL_caAll o h
      simp only [Collection.roots, List.mem_append, List.mem_map]
      exact Or.inr ⟨r, hr, rfl⟩
  | evaluationSet x =>
    simp only [Collection.trav, List.mem_append] at h
    rcases h with h | h
    · refine reachable_of_flatMap (g := Obj.clipAnn) (fun r hr => ?_) reachL_caAll o h
      simp only [Collection.roots, List.mem_append, List.mem_map]
      exact Or.inl ⟨r, hr, rfl⟩
    · exact ⟨o, by simp only [Collection.roots, List.mem_append]; exact Or.inr h, .refl _⟩
  | predictionSet x =>
    exact reachable_of_flatMap (g := Obj.clipPred) (fun r hr => List.mem_map.2 ⟨r, hr, rfl⟩) reachL_cpAll o h
  | modelRun x =>
    exact reachable_of_flatMap (g := Obj.clipPred) (fun r hr => List.mem_map.2 ⟨r, hr, rfl⟩) reachL_cpAll o h
  | evaluation x =>
    exact reachable_of_flatMap (g := Obj.clipEval) (fun r hr => List.mem_map.2 ⟨r, hr, rfl⟩) reachL_ceAll o h

end SE.Aoef
