/-
  Helper lemmas for the call / history part of C07 (`SoundeventModel/MatchCall.lean`).
-/
import SoundeventModel.MatchCall
import Proofs.Lemmas.Matching
namespace SE.MatchCall
open SE SE.Matching

/-! ### binding -/

theorem lookup_zip_mem {V} (names : List String) (vals : List V) (k : String) (v : V)
    (h : (names.zip vals).lookup k = some v) : k ∈ names := by
  induction names generalizing vals with
  | nil => simp at h
  | cons n ns ih =>
    cases vals with
    | nil => simp at h
    | cons x xs =>
      simp only [List.zip_cons_cons, List.lookup_cons] at h
      by_cases hk : k == n
      · simp at hk; subst hk; simp
      · simp [hk] at h
        exact List.mem_cons_of_mem _ (ih xs h)

theorem positionalNames_sub {V} (sig : List (Param V)) : ∀ k ∈ positionalNames sig, k ∈ sig.map (·.name) := by
  intro k hk
  simp only [positionalNames, List.mem_map, List.mem_filter] at hk ⊢
  obtain ⟨p, ⟨hp, _⟩, rfl⟩ := hk
  exact ⟨p, hp, rfl⟩

theorem resolve_append {V} (bp kw : List (String × V)) (p : Param V) :
    resolve [] (bp ++ kw) p = resolve bp kw p := by
  unfold resolve
  simp only [List.lookup_nil, List.lookup_append]
  cases h : bp.lookup p.name <;> simp

/-! ### memoised implementations -/

theorem lookup_mem {K Y} [DecidableEq K] (tbl : List (K × Y)) (k : K) (y : Y)
    (h : tbl.lookup k = some y) : (k, y) ∈ tbl := by
  induction tbl with
  | nil => simp [List.lookup] at h
  | cons e es ih =>
    obtain ⟨k', y'⟩ := e
    simp only [List.lookup_cons] at h
    by_cases hk : k == k'
    · simp [hk] at h
      have : k = k' := by simpa using hk
      subst this; subst h; simp
    · simp [hk] at h
      exact List.mem_cons_of_mem _ (ih h)

theorem memoRun_sound {X K Y : Type} [DecidableEq K] (key : X → K) (f : X → Y)
    (hkey : ∀ x x', key x = key x' → f x = f x') :
    ∀ (xs : List X) (tbl : List (K × Y)), (∀ e ∈ tbl, ∃ x, key x = e.1 ∧ f x = e.2) →
      memoRun key f tbl xs = xs.map f := by
  intro xs
  induction xs with
  | nil => intro tbl _; simp [memoRun]
  | cons x xs ih =>
    intro tbl htbl
    unfold memoRun
    cases hl : tbl.lookup (key x) with
    | some y =>
      simp only [List.map_cons]
      obtain ⟨x', hk, hf⟩ := htbl _ (lookup_mem tbl (key x) y hl)
      have : f x = y := by
        have h1 : f x = f x' := hkey x x' hk.symm
        rw [h1]; exact hf
      rw [ih tbl htbl, this]
    | none =>
      simp only [List.map_cons]
      rw [ih ((key x, f x) :: tbl)]
      intro e he
      rcases List.mem_cons.1 he with rfl | he
      · exact ⟨x, rfl, rfl⟩
      · exact htbl e he

/-! ### closed-form affinities never raise for non-negative buffers -/

theorem prepare_ok {σ} (G : Affinity.Geos σ) (g : Geom) (tb fb : Rat) (htb : 0 ≤ tb) (hfb : 0 ≤ fb) :
    ∃ p, Affinity.prepare G g tb fb = .ok p := by
  unfold Affinity.prepare
  split
  · unfold Affinity.bufferGeometry
    have h : ¬ (tb < 0 ∨ fb < 0) := by
      intro h
      rcases h with h | h
      · exact absurd htb (Rat.not_le.2 h)
      · exact absurd hfb (Rat.not_le.2 h)
    rw [if_neg h]
    cases g <;> exact ⟨_, rfl⟩
  · exact ⟨_, rfl⟩

theorem closedAffinity_ok (tb fb : Rat) (g h : Geom) (htb : 0 ≤ tb) (hfb : 0 ≤ fb) :
    ∃ a, closedAffinity tb fb g h = .ok a := by
  unfold closedAffinity Affinity.affinity
  obtain ⟨p1, h1⟩ := prepare_ok Affinity.boxGeos g tb fb htb hfb
  obtain ⟨p2, h2⟩ := prepare_ok Affinity.boxGeos h tb fb htb hfb
  rw [h1, h2]
  exact ⟨_, rfl⟩

theorem callError_none (c : Call) (htb : 0 ≤ c.tb) (hfb : 0 ≤ c.fb) : callError c = none := by
  unfold callError
  rw [List.findSome?_eq_none_iff]
  intro r hr
  simp only [List.mem_flatMap, List.mem_map] at hr
  obtain ⟨g, _, h, _, rfl⟩ := hr
  obtain ⟨a, ha⟩ := closedAffinity_ok c.tb c.fb g h htb hfb
  rw [ha]

/-! ### perturbation of the matrix -/

theorem value_perturb (τ : Rat) (n m : Nat) (a b : Mat)
    (hclose : ∀ i j, i < n → j < m → a i j - b i j ≤ τ) :
    ∀ (M : List (Nat × Nat)), (∀ p ∈ M, p.1 < n ∧ p.2 < m) → value a M ≤ value b M + (M.length : Rat) * τ := by
  intro M
  induction M with
  | nil => intro _; simp [value]; grind
  | cons p ps ih =>
    intro hM
    have h1 := ih (fun q hq => hM q (List.mem_cons_of_mem _ hq))
    have h2 := hclose p.1 p.2 (hM p List.mem_cons_self).1 (hM p List.mem_cons_self).2
    rw [value_cons, value_cons]
    have : ((p :: ps).length : Rat) = (ps.length : Rat) + 1 := by simp
    rw [this]
    grind

theorem snap_within (τ : Rat) (hτ : 0 ≤ τ) (a : Mat) (out : List Entry) (i j : Nat) :
    a i j - snap τ a out i j ≤ τ ∧ snap τ a out i j - a i j ≤ τ := by
  unfold snap
  split
  · split
    · assumption
    · constructor <;> grind
  · constructor <;> grind

theorem snap_close (τ : Rat) (hτ : 0 ≤ τ) (n m : Nat) (a : Mat) (out : List Entry) :
    closeWithin τ n m a (snap τ a out) = true := by
  simp only [closeWithin, List.all_eq_true, List.mem_range, Bool.and_eq_true, decide_eq_true_eq]
  intro i _ j _
  exact snap_within τ hτ a out i j

end SE.MatchCall
