/-
  Helper lemmas for C18 (second review): the recordings reachable from `c.mapPath f` are the recordings
  reachable from `c` with `f` applied to their paths — whatever the route (clip, sound event, sequence
  or one of its ancestors, annotation, prediction, task, match, clip evaluation).
-/
import Proofs.Lemmas.AoefRoundtrip
namespace SE.Aoef
open SE.Paths
set_option linter.unusedSimpArgs false

theorem recsOf_append (a b : List Obj) : recsOf (a ++ b) = recsOf a ++ recsOf b := by
  simp [recsOf, List.filterMap_append]

theorem recsOf_nil' : recsOf [] = [] := rfl

theorem recsOf_flatMap {α : Type} (g : α → List Obj) (xs : List α) :
    recsOf (xs.flatMap g) = xs.flatMap fun x => recsOf (g x) := by
  induction xs with
  | nil => rfl
  | cons x xs ih => simp only [List.flatMap_cons, recsOf_append, ih]

theorem recsOf_none_of {os : List Obj} (h : ∀ r, Obj.recording r ∉ os) : recsOf os = [] := by
  induction os with
  | nil => rfl
  | cons o os ih =>
    have ih' := ih (fun r hr => h r (List.mem_cons_of_mem _ hr))
    cases o with
    | recording x => exact absurd List.mem_cons_self (h x)
    | _ => simpa [recsOf] using ih'

theorem recsOf_tagsAll (ts : List Tag) : recsOf (tagsAll ts) = [] :=
  recsOf_none_of (by intro r h; simp [tagsAll] at h)
theorem recsOf_ptagsAll (ts : List PredictedTag) : recsOf (ptagsAll ts) = [] :=
  recsOf_none_of (by intro r h; simp [ptagsAll] at h)
theorem recsOf_users (us : List User) : recsOf (us.map Obj.user) = [] :=
  recsOf_none_of (by intro r h; simp at h)
theorem recsOf_optUser (u : Option User) : recsOf (optUser u) = [] := recsOf_users _
theorem recsOf_notesAll (ns : List Note) : recsOf (notesAll ns) = [] :=
  recsOf_none_of (by intro r h; simp [notesAll, noteAll, optUser] at h)
theorem recsOf_badges (bs : List StatusBadge) : recsOf (bs.flatMap badgeAll) = [] :=
  recsOf_none_of (by intro r h; simp [badgeAll, optUser] at h)

theorem recsOf_single_rec (r : Recording) : recsOf [Obj.recording r] = [r] := rfl
theorem recsOf_single_clip (x : Clip) : recsOf [Obj.clip x] = [] := rfl
theorem recsOf_single_se (x : SoundEvent) : recsOf [Obj.soundEvent x] = [] := rfl
theorem recsOf_single_seq (x : Sequence) : recsOf [Obj.sequence x] = [] := rfl
theorem recsOf_single_sea (x : SoundEventAnnotation) : recsOf [Obj.seAnn x] = [] := rfl
theorem recsOf_single_sqa (x : SequenceAnnotation) : recsOf [Obj.seqAnn x] = [] := rfl
theorem recsOf_single_ca (x : ClipAnnotation) : recsOf [Obj.clipAnn x] = [] := rfl
theorem recsOf_single_sep (x : SoundEventPrediction) : recsOf [Obj.sePred x] = [] := rfl
theorem recsOf_single_sqp (x : SequencePrediction) : recsOf [Obj.seqPred x] = [] := rfl
theorem recsOf_single_cp (x : ClipPrediction) : recsOf [Obj.clipPred x] = [] := rfl
theorem recsOf_single_task (x : AnnotationTask) : recsOf [Obj.task x] = [] := rfl
theorem recsOf_single_match (x : Match) : recsOf [Obj.mtch x] = [] := rfl
theorem recsOf_single_ce (x : ClipEvaluation) : recsOf [Obj.clipEval x] = [] := rfl

variable (f : PPath → PPath)

/-- the recordings of a traversal with `f` applied to their paths -/
abbrev mp (os : List Obj) : List Recording := (recsOf os).map (Recording.mapPath f)

theorem flatMap_mp {α : Type} (g : α → α) (h : α → List Obj) (xs : List α)
    (hx : ∀ x ∈ xs, recsOf (h (g x)) = mp f (h x)) :
    recsOf ((xs.map g).flatMap h) = mp f (xs.flatMap h) := by
  induction xs with
  | nil => rfl
  | cons x xs ih =>
    simp only [List.map_cons, List.flatMap_cons, recsOf_append, List.map_append, mp]
    rw [hx x List.mem_cons_self, ih (fun y hy => hx y (List.mem_cons_of_mem _ hy))]

theorem recsOf_recAll (r : Recording) : recsOf (recAll (r.mapPath f)) = mp f (recAll r) := by
  simp only [recAll, Recording.mapPath, recsOf_append, recsOf_tagsAll, recsOf_notesAll, recsOf_users,
    recsOf_single_rec, List.nil_append, List.map_cons, List.map_nil, mp]

theorem recsOf_clipAll (c : Clip) : recsOf (clipAll (c.mapPath f)) = mp f (clipAll c) := by
  simp only [clipAll, Clip.mapPath, recsOf_append, recsOf_recAll, recsOf_single_clip, List.map_append,
    List.append_nil, List.map_nil, mp]

theorem recsOf_seAll (s : SoundEvent) : recsOf (seAll (s.mapPath f)) = mp f (seAll s) := by
  simp only [seAll, SoundEvent.mapPath, recsOf_append, recsOf_recAll, recsOf_single_se, List.map_append,
    List.append_nil, List.map_nil, mp]

theorem recsOf_sesAll (ss : List SoundEvent) :
    recsOf ((ss.map (·.mapPath f)).flatMap seAll) = mp f (ss.flatMap seAll) :=
  flatMap_mp f _ _ ss (fun s _ => recsOf_seAll f s)

theorem recsOf_seqAllAux (n : SeqNode) (as : List SeqNode) :
    recsOf (seqAllAux (n.mapPath f) (as.map (·.mapPath f))) = mp f (seqAllAux n as) := by
  induction as generalizing n with
  | nil =>
    simp only [List.map_nil, seqAllAux, SeqNode.mapPath, recsOf_append, recsOf_sesAll, recsOf_single_seq,
      List.append_nil, List.map_append, List.map_nil, mp]
  | cons a as ih =>
    simp only [List.map_cons, seqAllAux, recsOf_append, ih a, recsOf_single_seq, List.append_nil,
      List.map_append, List.map_nil, mp]
    simp only [SeqNode.mapPath, recsOf_sesAll, mp]

theorem recsOf_seqAll (s : Sequence) : recsOf (seqAll (s.mapPath f)) = mp f (seqAll s) :=
  recsOf_seqAllAux f s.node s.ancestors

theorem recsOf_seaAll (a : SoundEventAnnotation) : recsOf (seaAll (a.mapPath f)) = mp f (seaAll a) := by
  simp only [seaAll, SoundEventAnnotation.mapPath, recsOf_append, recsOf_seAll, recsOf_notesAll,
    recsOf_tagsAll, recsOf_optUser, recsOf_single_sea, List.append_nil, List.map_append, List.map_nil, mp]

theorem recsOf_sqaAll (a : SequenceAnnotation) : recsOf (sqaAll (a.mapPath f)) = mp f (sqaAll a) := by
  simp only [sqaAll, SequenceAnnotation.mapPath, recsOf_append, recsOf_seqAll, recsOf_notesAll,
    recsOf_tagsAll, recsOf_optUser, recsOf_single_sqa, List.append_nil, List.map_append, List.map_nil, mp]

theorem recsOf_caAll (a : ClipAnnotation) : recsOf (caAll (a.mapPath f)) = mp f (caAll a) := by
  simp only [caAll, ClipAnnotation.mapPath, recsOf_append, recsOf_clipAll, recsOf_notesAll,
    recsOf_tagsAll, recsOf_single_ca, List.append_nil, List.map_append, List.map_nil, mp,
    flatMap_mp f _ seaAll a.sound_events (fun s _ => recsOf_seaAll f s),
    flatMap_mp f _ sqaAll a.sequences (fun s _ => recsOf_sqaAll f s)]

theorem recsOf_sepAll (p : SoundEventPrediction) : recsOf (sepAll (p.mapPath f)) = mp f (sepAll p) := by
  simp only [sepAll, SoundEventPrediction.mapPath, recsOf_append, recsOf_seAll, recsOf_ptagsAll,
    recsOf_single_sep, List.append_nil, List.map_append, List.map_nil, mp]

theorem recsOf_sqpAll (p : SequencePrediction) : recsOf (sqpAll (p.mapPath f)) = mp f (sqpAll p) := by
  simp only [sqpAll, SequencePrediction.mapPath, recsOf_append, recsOf_seqAll, recsOf_ptagsAll,
    recsOf_single_sqp, List.append_nil, List.map_append, List.map_nil, mp]

theorem recsOf_cpAll (p : ClipPrediction) : recsOf (cpAll (p.mapPath f)) = mp f (cpAll p) := by
  simp only [cpAll, ClipPrediction.mapPath, recsOf_append, recsOf_clipAll, recsOf_ptagsAll,
    recsOf_single_cp, List.append_nil, List.map_append, List.map_nil, mp,
    flatMap_mp f _ sepAll p.sound_events (fun s _ => recsOf_sepAll f s),
    flatMap_mp f _ sqpAll p.sequences (fun s _ => recsOf_sqpAll f s)]

theorem recsOf_taskAll (t : AnnotationTask) : recsOf (taskAll (t.mapPath f)) = mp f (taskAll t) := by
  simp only [taskAll, AnnotationTask.mapPath, recsOf_append, recsOf_clipAll, recsOf_badges,
    recsOf_single_task, List.append_nil, List.nil_append, List.map_append, List.map_nil, mp]

theorem recsOf_matchAll (m : Match) : recsOf (matchAll (m.mapPath f)) = mp f (matchAll m) := by
  obtain ⟨u, src, tgt, a, s, ms⟩ := m
  cases src <;> cases tgt <;>
    simp only [matchAll, Match.mapPath, Option.map, recsOf_append, recsOf_sepAll, recsOf_seaAll,
      recsOf_single_match, recsOf_nil', List.append_nil, List.nil_append, List.map_append, List.map_nil, mp]

theorem recsOf_ceAll (e : ClipEvaluation) : recsOf (ceAll (e.mapPath f)) = mp f (ceAll e) := by
  simp only [ceAll, ClipEvaluation.mapPath, recsOf_append, recsOf_caAll, recsOf_cpAll,
    recsOf_single_ce, List.append_nil, List.map_append, List.map_nil, mp,
    flatMap_mp f _ matchAll e.«matches» (fun s _ => recsOf_matchAll f s)]

/-- the recordings reachable from the relocated collection are the relocated recordings of the
    collection, in the same order, by whatever route they are reached -/
theorem recsOf_trav_mapPath (c : Collection) :
    recsOf (c.mapPath f).trav = (recsOf c.trav).map (Recording.mapPath f) := by
  cases c with
  | recordingSet x =>
    simp only [Collection.mapPath, Collection.trav]
    exact flatMap_mp f _ recAll x.recordings (fun r _ => recsOf_recAll f r)
  | dataset x =>
    simp only [Collection.mapPath, Collection.trav]
    exact flatMap_mp f _ recAll x.recordings (fun r _ => recsOf_recAll f r)
  | annotationSet x =>
    simp only [Collection.mapPath, Collection.trav]
    exact flatMap_mp f _ caAll x.clip_annotations (fun r _ => recsOf_caAll f r)
  | annotationProject x =>
    simp only [Collection.mapPath, Collection.trav, recsOf_append, recsOf_tagsAll, List.append_nil,
      List.map_append,
      flatMap_mp f _ caAll x.clip_annotations (fun r _ => recsOf_caAll f r),
      flatMap_mp f _ taskAll x.tasks (fun r _ => recsOf_taskAll f r), mp]
  | evaluationSet x =>
    simp only [Collection.mapPath, Collection.trav, recsOf_append, recsOf_tagsAll, List.append_nil,
      List.map_append,
      flatMap_mp f _ caAll x.clip_annotations (fun r _ => recsOf_caAll f r), mp]
  | predictionSet x =>
    simp only [Collection.mapPath, Collection.trav]
    exact flatMap_mp f _ cpAll x.clip_predictions (fun r _ => recsOf_cpAll f r)
  | modelRun x =>
    simp only [Collection.mapPath, Collection.trav]
    exact flatMap_mp f _ cpAll x.clip_predictions (fun r _ => recsOf_cpAll f r)
  | evaluation x =>
    simp only [Collection.mapPath, Collection.trav]
    exact flatMap_mp f _ ceAll x.clip_evaluations (fun r _ => recsOf_ceAll f r)

end SE.Aoef
