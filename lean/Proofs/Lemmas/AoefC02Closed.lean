/-
  Helper lemmas for C02: every identifier a saved document mentions is defined.
  Each encoded object `enc x` comes from an object `x` of the traversal; what it mentions are the
  keys of `children x`, which are in the traversal (`trav_closed`), hence defined (`srcKeys_mem`).
-/
import Proofs.Lemmas.AoefC02Keys
namespace SE.Aoef
open SE.Paths

/-- the hypotheses shared by all lemmas of this file: `d` is the saved document of `c` -/
structure Saved (c : Collection) (dir : Option PPath) (d : Doc) (rs : List RecordingObj) : Prop where
  hrs : (recSrc c).mapM (encRecording (tagTable c.trav) dir) = .ok rs
  spec : SaveSpec c d rs

theorem saved_of_save {c : Collection} {dir : Option PPath} {d : Doc} (h : save c dir = .ok d) :
    ∃ rs, Saved c dir d rs := by
  obtain ⟨rs, hrs, spec⟩ := save_spec h
  exact ⟨rs, ⟨hrs, spec⟩⟩

section
variable {c : Collection} {dir : Option PPath} {d : Doc} {rs : List RecordingObj}

theorem Saved.defined (S : Saved c dir d rs) {k : Kind} (hk : k ≠ .tag) {key : String}
    (h : key ∈ reachKeys c.trav k) : key ∈ defs d k := by
  rw [defs_eq_srcKeys S.hrs S.spec k]; exact (srcKeys_mem hk).2 h

theorem Saved.tag_defined (S : Saved c dir d rs) {t : Tag} (h : Obj.tag t ∈ c.trav) :
    tid (tagId (tagTable c.trav) t) ∈ defs d .tag := by
  simp only [defs, S.spec.tags]
  exact tagId_defined (mem_tagTable.2 h)

/-! the objects behind the entries of each top-level list -/

theorem mem_map_dedup {α β κ : Type} [DecidableEq κ] {enc : α → β} {key : α → κ} {xs : List α} {o : β}
    (h : o ∈ (dedupBy key xs).map enc) : ∃ x ∈ xs, o = enc x := by
  obtain ⟨x, hx, rfl⟩ := List.mem_map.1 h
  exact ⟨x, mem_dedupBy key hx, rfl⟩

theorem Saved.mem_recs (S : Saved c dir d rs) {o : RecordingObj} (h : o ∈ lst d.recordings) :
    ∃ r q, Obj.recording r ∈ c.trav ∧ o = encRecordingWith (tagTable c.trav) r q := by
  rw [S.spec.recordings] at h
  obtain ⟨r, hr, henc⟩ := forall₂_mem_right (mapM_ok_forall₂.1 S.hrs) o h
  obtain ⟨q, _, rfl⟩ := encRecording_ok_iff.1 henc
  exact ⟨r, q, mem_recsOf.1 (recSrc_subset hr), rfl⟩

theorem Saved.mem_clips (S : Saved c dir d rs) {o : ClipObj} (h : o ∈ lst d.clips) :
    ∃ x, Obj.clip x ∈ c.trav ∧ o = encClip x := by
  rw [S.spec.clips] at h
  obtain ⟨x, hx, rfl⟩ := mem_map_dedup h
  exact ⟨x, mem_clipsOf.1 hx, rfl⟩

theorem Saved.mem_ses (S : Saved c dir d rs) {o : SoundEventObj} (h : o ∈ lst d.sound_events) :
    ∃ x, Obj.soundEvent x ∈ c.trav ∧ o = encSoundEvent x := by
  rw [S.spec.ses] at h
  obtain ⟨x, hx, rfl⟩ := mem_map_dedup h
  exact ⟨x, mem_sesOf.1 hx, rfl⟩

theorem Saved.mem_seqs (S : Saved c dir d rs) {o : SequenceObj} (h : o ∈ lst d.sequences) :
    ∃ x, Obj.sequence x ∈ c.trav ∧ o = encSequence x := by
  rw [S.spec.seqs] at h
  obtain ⟨x, hx, rfl⟩ := mem_map_dedup h
  exact ⟨x, mem_seqsOf.1 hx, rfl⟩

theorem Saved.mem_seas (S : Saved c dir d rs) {o : SoundEventAnnotationObj}
    (h : o ∈ lst d.sound_event_annotations) :
    ∃ x, Obj.seAnn x ∈ c.trav ∧ o = encSEA (tagTable c.trav) x := by
  rw [S.spec.seas] at h
  obtain ⟨x, hx, rfl⟩ := mem_map_dedup h
  exact ⟨x, mem_seasOf.1 hx, rfl⟩

theorem Saved.mem_sqas (S : Saved c dir d rs) {o : SequenceAnnotationObj}
    (h : o ∈ lst d.sequence_annotations) :
    ∃ x, Obj.seqAnn x ∈ c.trav ∧ o = encSQA (tagTable c.trav) x := by
  rw [S.spec.sqas] at h
  obtain ⟨x, hx, rfl⟩ := mem_map_dedup h
  exact ⟨x, mem_sqasOf.1 hx, rfl⟩

theorem Saved.mem_cas (S : Saved c dir d rs) {o : ClipAnnotationsObj} (h : o ∈ lst d.clip_annotations) :
    ∃ x, Obj.clipAnn x ∈ c.trav ∧ o = encCA (tagTable c.trav) x := by
  rw [S.spec.cas] at h
  obtain ⟨x, hx, rfl⟩ := List.mem_map.1 h
  exact ⟨x, mem_casOf.1 (caSrc_subset hx), rfl⟩

theorem Saved.mem_seps (S : Saved c dir d rs) {o : SoundEventPredictionObj}
    (h : o ∈ lst d.sound_event_predictions) :
    ∃ x, Obj.sePred x ∈ c.trav ∧ o = encSEP (tagTable c.trav) x := by
  rw [S.spec.seps] at h
  obtain ⟨x, hx, rfl⟩ := mem_map_dedup h
  exact ⟨x, mem_sepsOf.1 hx, rfl⟩

theorem Saved.mem_sqps (S : Saved c dir d rs) {o : SequencePredictionObj}
    (h : o ∈ lst d.sequence_predictions) :
    ∃ x, Obj.seqPred x ∈ c.trav ∧ o = encSQP (tagTable c.trav) x := by
  rw [S.spec.sqps] at h
  obtain ⟨x, hx, rfl⟩ := mem_map_dedup h
  exact ⟨x, mem_sqpsOf.1 hx, rfl⟩

theorem Saved.mem_cps (S : Saved c dir d rs) {o : ClipPredictionsObj} (h : o ∈ lst d.clip_predictions) :
    ∃ x, Obj.clipPred x ∈ c.trav ∧ o = encCP (tagTable c.trav) x := by
  rw [S.spec.cps] at h
  obtain ⟨x, hx, rfl⟩ := List.mem_map.1 h
  exact ⟨x, mem_cpsOf.1 (cpSrc_subset hx), rfl⟩

theorem Saved.mem_ces (S : Saved c dir d rs) {o : ClipEvaluationObj} (h : o ∈ lst d.clip_evaluations) :
    ∃ x, Obj.clipEval x ∈ c.trav ∧ o = encCE x := by
  rw [S.spec.ces] at h
  obtain ⟨x, hx, rfl⟩ := mem_map_dedup h
  exact ⟨x, mem_cesOf.1 hx, rfl⟩

theorem Saved.mem_ms (S : Saved c dir d rs) {o : MatchObj} (h : o ∈ lst d.«matches») :
    ∃ x, Obj.mtch x ∈ c.trav ∧ o = encMatch x := by
  rw [S.spec.ms] at h
  obtain ⟨x, hx, rfl⟩ := mem_map_dedup h
  exact ⟨x, mem_matchesOf.1 hx, rfl⟩

theorem Saved.mem_tasks (S : Saved c dir d rs) {o : AnnotationTaskObj} (h : o ∈ lst d.tasks) :
    ∃ x, Obj.task x ∈ c.trav ∧ o = encTask x := by
  rw [S.spec.tasks] at h
  obtain ⟨x, hx, rfl⟩ := List.mem_map.1 h
  exact ⟨x, mem_tasksOf.1 (taskSrc_subset hx), rfl⟩

/-- a direct reference of an object of the traversal is in the traversal -/
theorem child_mem {o ch : Obj} (ho : o ∈ c.trav) (hch : ch ∈ children o) : ch ∈ c.trav :=
  trav_closed c o ho ch hch

end

/-! keys of objects of a list are reachable keys -/
theorem rk_user {os : List Obj} {x : User} (h : Obj.user x ∈ os) : x.uuid ∈ reachKeys os .user :=
  List.mem_map.2 ⟨x, mem_usersOf.2 h, rfl⟩
theorem rk_recording {os : List Obj} {x : Recording} (h : Obj.recording x ∈ os) :
    x.uuid ∈ reachKeys os .recording := List.mem_map.2 ⟨x, mem_recsOf.2 h, rfl⟩
theorem rk_clip {os : List Obj} {x : Clip} (h : Obj.clip x ∈ os) : x.uuid ∈ reachKeys os .clip :=
  List.mem_map.2 ⟨x, mem_clipsOf.2 h, rfl⟩
theorem rk_se {os : List Obj} {x : SoundEvent} (h : Obj.soundEvent x ∈ os) :
    x.uuid ∈ reachKeys os .soundEvent := List.mem_map.2 ⟨x, mem_sesOf.2 h, rfl⟩
theorem rk_seq {os : List Obj} {x : Sequence} (h : Obj.sequence x ∈ os) :
    x.uuid ∈ reachKeys os .sequence := List.mem_map.2 ⟨x, mem_seqsOf.2 h, rfl⟩
theorem rk_sea {os : List Obj} {x : SoundEventAnnotation} (h : Obj.seAnn x ∈ os) :
    x.uuid ∈ reachKeys os .seAnn := List.mem_map.2 ⟨x, mem_seasOf.2 h, rfl⟩
theorem rk_sqa {os : List Obj} {x : SequenceAnnotation} (h : Obj.seqAnn x ∈ os) :
    x.uuid ∈ reachKeys os .seqAnn := List.mem_map.2 ⟨x, mem_sqasOf.2 h, rfl⟩
theorem rk_ca {os : List Obj} {x : ClipAnnotation} (h : Obj.clipAnn x ∈ os) :
    x.uuid ∈ reachKeys os .clipAnn := List.mem_map.2 ⟨x, mem_casOf.2 h, rfl⟩
theorem rk_sep {os : List Obj} {x : SoundEventPrediction} (h : Obj.sePred x ∈ os) :
    x.uuid ∈ reachKeys os .sePred := List.mem_map.2 ⟨x, mem_sepsOf.2 h, rfl⟩
theorem rk_sqp {os : List Obj} {x : SequencePrediction} (h : Obj.seqPred x ∈ os) :
    x.uuid ∈ reachKeys os .seqPred := List.mem_map.2 ⟨x, mem_sqpsOf.2 h, rfl⟩
theorem rk_cp {os : List Obj} {x : ClipPrediction} (h : Obj.clipPred x ∈ os) :
    x.uuid ∈ reachKeys os .clipPred := List.mem_map.2 ⟨x, mem_cpsOf.2 h, rfl⟩
theorem rk_match {os : List Obj} {x : Match} (h : Obj.mtch x ∈ os) :
    x.uuid ∈ reachKeys os .mtch := List.mem_map.2 ⟨x, mem_matchesOf.2 h, rfl⟩

/-! what the encoded sub-structures mention -/

theorem noteUsers_enc {ns : List Note} {u : String} (h : u ∈ noteUsers (listOpt (ns.map encNote))) :
    ∃ usr : User, Obj.user usr ∈ notesAll ns ∧ usr.uuid = u := by
  unfold noteUsers at h
  rw [lst_listOpt, List.mem_filterMap] at h
  obtain ⟨no, hno, h⟩ := h
  obtain ⟨n, hn, rfl⟩ := List.mem_map.1 hno
  simp only [encNote] at h
  cases hcb : n.created_by with
  | none => rw [hcb] at h; cases h
  | some usr =>
    rw [hcb] at h
    simp only [Option.map_some, Option.some.injEq] at h
    refine ⟨usr, ?_, h⟩
    unfold notesAll
    exact List.mem_flatMap.2 ⟨n, hn, by simp [noteAll, optUser, hcb]⟩

theorem optUser_enc {cb : Option User} {u : String} (h : u ∈ (cb.map (·.uuid)).toList) :
    ∃ usr : User, Obj.user usr ∈ optUser cb ∧ usr.uuid = u := by
  cases cb with
  | none => cases h
  | some usr =>
    have : u = usr.uuid := by simpa using h
    exact ⟨usr, by simp [optUser], this.symm⟩

theorem badges_enc {bs : List StatusBadge} {u : String}
    (h : u ∈ (lst (listOpt (bs.map encBadge))).filterMap (·.owner)) :
    ∃ usr : User, Obj.user usr ∈ bs.flatMap badgeAll ∧ usr.uuid = u := by
  rw [lst_listOpt, List.mem_filterMap] at h
  obtain ⟨bo, hbo, h⟩ := h
  obtain ⟨b, hb, rfl⟩ := List.mem_map.1 hbo
  simp only [encBadge] at h
  cases hcb : b.owner with
  | none => rw [hcb] at h; cases h
  | some usr =>
    rw [hcb] at h
    simp only [Option.map_some, Option.some.injEq] at h
    exact ⟨usr, List.mem_flatMap.2 ⟨b, hb, by simp [badgeAll, optUser, hcb]⟩, h⟩

theorem tagRefs_enc {tids : List Tag} {ts : List Tag} {r : String}
    (h : r ∈ tagRefs (listOpt (ts.map (tagId tids)))) : ∃ t ∈ ts, r = tid (tagId tids t) := by
  unfold tagRefs at h
  rw [lst_listOpt, List.map_map] at h
  obtain ⟨t, ht, rfl⟩ := List.mem_map.1 h
  exact ⟨t, ht, rfl⟩

theorem tagRefs_enc_some {tids : List Tag} {ts : List Tag} {r : String}
    (h : r ∈ tagRefs (some (ts.map (tagId tids)))) : ∃ t ∈ ts, r = tid (tagId tids t) := by
  unfold tagRefs at h
  rw [lst_some, List.map_map] at h
  obtain ⟨t, ht, rfl⟩ := List.mem_map.1 h
  exact ⟨t, ht, rfl⟩

theorem ptagRefs_enc {tids : List Tag} {ts : List PredictedTag} {r : String}
    (h : r ∈ ptagRefs (encPTags tids ts)) : ∃ p ∈ ts, r = tid (tagId tids p.tag) := by
  unfold ptagRefs encPTags at h
  rw [lst_listOpt, List.map_map] at h
  obtain ⟨t, ht, rfl⟩ := List.mem_map.1 h
  exact ⟨t, ht, rfl⟩

theorem projTags_mem {c : Collection} {t : Tag} (h : t ∈ projTags c) : Obj.tag t ∈ c.trav := by
  cases c with
  | annotationProject x =>
    simp only [Collection.trav, List.mem_append]
    exact Or.inl (Or.inr (List.mem_map.2 ⟨t, h, rfl⟩))
  | _ => cases h

theorem evalTags_mem {c : Collection} {t : Tag} (h : t ∈ evalTags c) : Obj.tag t ∈ c.trav := by
  cases c with
  | evaluationSet x =>
    simp only [Collection.trav, List.mem_append]
    exact Or.inr (List.mem_map.2 ⟨t, h, rfl⟩)
  | _ => cases h

/-! ### per kind: every reference is defined -/

section
variable {c : Collection} {dir : Option PPath} {d : Doc} {rs : List RecordingObj}

theorem Saved.closed_recording (S : Saved c dir d rs) : ∀ r ∈ refs d .recording, r ∈ defs d .recording := by
  intro r hr
  apply S.defined (by decide)
  simp only [refs, List.mem_append, List.mem_map] at hr
  rcases hr with ⟨o, ho, rfl⟩ | ⟨o, ho, rfl⟩
  · obtain ⟨x, hx, rfl⟩ := S.mem_clips ho
    exact rk_recording (child_mem hx (by simp [children]))
  · obtain ⟨x, hx, rfl⟩ := S.mem_ses ho
    exact rk_recording (child_mem hx (by simp [children]))

theorem Saved.closed_clip (S : Saved c dir d rs) : ∀ r ∈ refs d .clip, r ∈ defs d .clip := by
  intro r hr
  apply S.defined (by decide)
  simp only [refs, List.mem_append, List.mem_map] at hr
  rcases hr with (⟨o, ho, rfl⟩ | ⟨o, ho, rfl⟩) | ⟨o, ho, rfl⟩
  · obtain ⟨x, hx, rfl⟩ := S.mem_cas ho
    exact rk_clip (child_mem hx (by simp [children]))
  · obtain ⟨x, hx, rfl⟩ := S.mem_cps ho
    exact rk_clip (child_mem hx (by simp [children]))
  · obtain ⟨x, hx, rfl⟩ := S.mem_tasks ho
    exact rk_clip (child_mem hx (by simp [children]))

theorem Saved.closed_soundEvent (S : Saved c dir d rs) :
    ∀ r ∈ refs d .soundEvent, r ∈ defs d .soundEvent := by
  intro r hr
  apply S.defined (by decide)
  simp only [refs, List.mem_append, List.mem_map, List.mem_flatMap] at hr
  rcases hr with (⟨o, ho, hr⟩ | ⟨o, ho, rfl⟩) | ⟨o, ho, rfl⟩
  · obtain ⟨x, hx, rfl⟩ := S.mem_seqs ho
    simp only [encSequence, List.mem_map] at hr
    obtain ⟨se, hse, rfl⟩ := hr
    refine rk_se (child_mem hx ?_)
    simp only [children, List.mem_append, List.mem_map]
    exact Or.inl ⟨se, hse, rfl⟩
  · obtain ⟨x, hx, rfl⟩ := S.mem_seas ho
    exact rk_se (child_mem hx (by simp [children]))
  · obtain ⟨x, hx, rfl⟩ := S.mem_seps ho
    exact rk_se (child_mem hx (by simp [children]))

theorem Saved.closed_sequence (S : Saved c dir d rs) :
    ∀ r ∈ refs d .sequence, r ∈ defs d .sequence := by
  intro r hr
  apply S.defined (by decide)
  simp only [refs, List.mem_append, List.mem_map, List.mem_filterMap] at hr
  rcases hr with (⟨o, ho, hr⟩ | ⟨o, ho, rfl⟩) | ⟨o, ho, rfl⟩
  · obtain ⟨x, hx, rfl⟩ := S.mem_seqs ho
    simp only [encSequence] at hr
    cases hanc : x.ancestors with
    | nil => rw [hanc] at hr; cases hr
    | cons a as =>
      rw [hanc] at hr
      simp only [List.head?_cons, Option.map_some, Option.some.injEq] at hr
      subst hr
      have : Obj.sequence ⟨a, as⟩ ∈ c.trav := by
        refine child_mem hx ?_
        simp [children, Sequence.parent, hanc]
      exact rk_seq this
  · obtain ⟨x, hx, rfl⟩ := S.mem_sqas ho
    exact rk_seq (child_mem hx (by simp [children]))
  · obtain ⟨x, hx, rfl⟩ := S.mem_sqps ho
    exact rk_seq (child_mem hx (by simp [children]))

theorem Saved.closed_seAnn (S : Saved c dir d rs) : ∀ r ∈ refs d .seAnn, r ∈ defs d .seAnn := by
  intro r hr
  apply S.defined (by decide)
  simp only [refs, List.mem_append, List.mem_flatMap, List.mem_filterMap] at hr
  rcases hr with ⟨o, ho, hr⟩ | ⟨o, ho, hr⟩
  · obtain ⟨x, hx, rfl⟩ := S.mem_cas ho
    simp only [encCA, lst_listOpt, List.mem_map] at hr
    obtain ⟨a, ha, rfl⟩ := hr
    refine rk_sea (child_mem hx ?_)
    simp only [children, List.mem_append, List.mem_map]
    exact Or.inl (Or.inl (Or.inr ⟨a, ha, rfl⟩))
  · obtain ⟨x, hx, rfl⟩ := S.mem_ms ho
    simp only [encMatch] at hr
    cases ht : x.target with
    | none => rw [ht] at hr; cases hr
    | some a =>
      rw [ht] at hr
      simp only [Option.map_some, Option.some.injEq] at hr
      subst hr
      exact rk_sea (child_mem hx (by simp [children, ht]))

theorem Saved.closed_sePred (S : Saved c dir d rs) : ∀ r ∈ refs d .sePred, r ∈ defs d .sePred := by
  intro r hr
  apply S.defined (by decide)
  simp only [refs, List.mem_append, List.mem_flatMap, List.mem_filterMap] at hr
  rcases hr with ⟨o, ho, hr⟩ | ⟨o, ho, hr⟩
  · obtain ⟨x, hx, rfl⟩ := S.mem_cps ho
    simp only [encCP, lst_listOpt, List.mem_map] at hr
    obtain ⟨a, ha, rfl⟩ := hr
    refine rk_sep (child_mem hx ?_)
    simp only [children, List.mem_append, List.mem_map]
    exact Or.inl (Or.inl (Or.inr ⟨a, ha, rfl⟩))
  · obtain ⟨x, hx, rfl⟩ := S.mem_ms ho
    simp only [encMatch] at hr
    cases ht : x.source with
    | none => rw [ht] at hr; cases hr
    | some a =>
      rw [ht] at hr
      simp only [Option.map_some, Option.some.injEq] at hr
      subst hr
      exact rk_sep (child_mem hx (by simp [children, ht]))

theorem Saved.closed_seqAnn (S : Saved c dir d rs) : ∀ r ∈ refs d .seqAnn, r ∈ defs d .seqAnn := by
  intro r hr
  apply S.defined (by decide)
  simp only [refs, List.mem_flatMap] at hr
  obtain ⟨o, ho, hr⟩ := hr
  obtain ⟨x, hx, rfl⟩ := S.mem_cas ho
  simp only [encCA, lst_listOpt, List.mem_map] at hr
  obtain ⟨a, ha, rfl⟩ := hr
  refine rk_sqa (child_mem hx ?_)
  simp only [children, List.mem_append, List.mem_map]
  exact Or.inl (Or.inr ⟨a, ha, rfl⟩)

theorem Saved.closed_seqPred (S : Saved c dir d rs) : ∀ r ∈ refs d .seqPred, r ∈ defs d .seqPred := by
  intro r hr
  apply S.defined (by decide)
  simp only [refs, List.mem_flatMap] at hr
  obtain ⟨o, ho, hr⟩ := hr
  obtain ⟨x, hx, rfl⟩ := S.mem_cps ho
  simp only [encCP, lst_listOpt, List.mem_map] at hr
  obtain ⟨a, ha, rfl⟩ := hr
  refine rk_sqp (child_mem hx ?_)
  simp only [children, List.mem_append, List.mem_map]
  exact Or.inl (Or.inr ⟨a, ha, rfl⟩)

theorem Saved.closed_clipAnn (S : Saved c dir d rs) : ∀ r ∈ refs d .clipAnn, r ∈ defs d .clipAnn := by
  intro r hr
  apply S.defined (by decide)
  simp only [refs, List.mem_map] at hr
  obtain ⟨o, ho, rfl⟩ := hr
  obtain ⟨x, hx, rfl⟩ := S.mem_ces ho
  exact rk_ca (child_mem hx (by simp [children]))

theorem Saved.closed_clipPred (S : Saved c dir d rs) : ∀ r ∈ refs d .clipPred, r ∈ defs d .clipPred := by
  intro r hr
  apply S.defined (by decide)
  simp only [refs, List.mem_map] at hr
  obtain ⟨o, ho, rfl⟩ := hr
  obtain ⟨x, hx, rfl⟩ := S.mem_ces ho
  exact rk_cp (child_mem hx (by simp [children]))

theorem Saved.closed_mtch (S : Saved c dir d rs) : ∀ r ∈ refs d .mtch, r ∈ defs d .mtch := by
  intro r hr
  apply S.defined (by decide)
  simp only [refs, List.mem_flatMap] at hr
  obtain ⟨o, ho, hr⟩ := hr
  obtain ⟨x, hx, rfl⟩ := S.mem_ces ho
  simp only [encCE, lst_listOpt, List.mem_map] at hr
  obtain ⟨a, ha, rfl⟩ := hr
  refine rk_match (child_mem hx ?_)
  simp only [children, List.mem_append, List.mem_map]
  exact Or.inr ⟨a, ha, rfl⟩

/-- a user mentioned by an object of the traversal, given as a direct reference -/
theorem Saved.user_ok (S : Saved c dir d rs) {o : Obj} (ho : o ∈ c.trav) {u : String}
    (h : ∃ usr : User, Obj.user usr ∈ children o ∧ usr.uuid = u) : u ∈ defs d .user := by
  obtain ⟨usr, hch, rfl⟩ := h
  exact S.defined (by decide) (rk_user (child_mem ho hch))

theorem exists_user_mono {a b : List Obj} {u : String} (hab : ∀ o ∈ a, o ∈ b)
    (h : ∃ usr : User, Obj.user usr ∈ a ∧ usr.uuid = u) : ∃ usr : User, Obj.user usr ∈ b ∧ usr.uuid = u := by
  obtain ⟨usr, h1, h2⟩ := h
  exact ⟨usr, hab _ h1, h2⟩

theorem Saved.closed_user (S : Saved c dir d rs) : ∀ r ∈ refs d .user, r ∈ defs d .user := by
  intro r hr
  simp only [refs, List.mem_append, List.mem_flatMap] at hr
  rcases hr with (((⟨o, ho, hr⟩ | ⟨o, ho, hr⟩) | ⟨o, ho, hr⟩) | ⟨o, ho, hr⟩) | ⟨o, ho, hr⟩
  · obtain ⟨x, q, hx, rfl⟩ := S.mem_recs ho
    apply S.user_ok hx
    simp only [encRecordingWith, lst_some] at hr
    rcases hr with hr | hr
    · exact exists_user_mono (fun o ho => by simp only [children, List.mem_append]; exact Or.inl (Or.inr ho))
        (noteUsers_enc hr)
    · obtain ⟨usr, husr, rfl⟩ := List.mem_map.1 hr
      refine ⟨usr, ?_, rfl⟩
      simp only [children, List.mem_append, List.mem_map]
      exact Or.inr ⟨usr, husr, rfl⟩
  · obtain ⟨x, hx, rfl⟩ := S.mem_seas ho
    apply S.user_ok hx
    simp only [encSEA] at hr
    rcases hr with hr | hr
    · exact exists_user_mono (fun o ho => by simp only [children, List.mem_append]; exact Or.inl (Or.inl (Or.inr ho)))
        (noteUsers_enc hr)
    · exact exists_user_mono (fun o ho => by simp only [children, List.mem_append]; exact Or.inr ho)
        (optUser_enc hr)
  · obtain ⟨x, hx, rfl⟩ := S.mem_sqas ho
    apply S.user_ok hx
    simp only [encSQA] at hr
    rcases hr with hr | hr
    · exact exists_user_mono (fun o ho => by simp only [children, List.mem_append]; exact Or.inl (Or.inl (Or.inr ho)))
        (noteUsers_enc hr)
    · exact exists_user_mono (fun o ho => by simp only [children, List.mem_append]; exact Or.inr ho)
        (optUser_enc hr)
  · obtain ⟨x, hx, rfl⟩ := S.mem_cas ho
    apply S.user_ok hx
    simp only [encCA] at hr
    exact exists_user_mono (fun o ho => by simp only [children, List.mem_append]; exact Or.inr ho)
      (noteUsers_enc hr)
  · obtain ⟨x, hx, rfl⟩ := S.mem_tasks ho
    apply S.user_ok hx
    simp only [encTask] at hr
    exact exists_user_mono (fun o ho => by simp only [children, List.mem_append]; exact Or.inl ho)
      (badges_enc hr)

theorem Saved.closed_tag (S : Saved c dir d rs) : ∀ r ∈ refs d .tag, r ∈ defs d .tag := by
  intro r hr
  simp only [refs, List.mem_append, List.mem_flatMap] at hr
  rcases hr with (((((((⟨o, ho, hr⟩ | ⟨o, ho, hr⟩) | ⟨o, ho, hr⟩) | ⟨o, ho, hr⟩) | ⟨o, ho, hr⟩) | ⟨o, ho, hr⟩)
    | ⟨o, ho, hr⟩) | hr) | hr
  · obtain ⟨x, q, hx, rfl⟩ := S.mem_recs ho
    obtain ⟨t, ht, rfl⟩ := tagRefs_enc hr
    refine S.tag_defined (child_mem hx ?_)
    simp only [children, List.mem_append, tagsAll, List.mem_map]
    exact Or.inl (Or.inl ⟨t, ht, rfl⟩)
  · obtain ⟨x, hx, rfl⟩ := S.mem_seas ho
    obtain ⟨t, ht, rfl⟩ := tagRefs_enc_some hr
    refine S.tag_defined (child_mem hx ?_)
    simp only [children, List.mem_append, tagsAll, List.mem_map]
    exact Or.inl (Or.inr ⟨t, ht, rfl⟩)
  · obtain ⟨x, hx, rfl⟩ := S.mem_sqas ho
    obtain ⟨t, ht, rfl⟩ := tagRefs_enc hr
    refine S.tag_defined (child_mem hx ?_)
    simp only [children, List.mem_append, tagsAll, List.mem_map]
    exact Or.inl (Or.inr ⟨t, ht, rfl⟩)
  · obtain ⟨x, hx, rfl⟩ := S.mem_cas ho
    obtain ⟨t, ht, rfl⟩ := tagRefs_enc hr
    refine S.tag_defined (child_mem hx ?_)
    simp only [children, List.mem_append, tagsAll, List.mem_map]
    exact Or.inl (Or.inl (Or.inl (Or.inr ⟨t, ht, rfl⟩)))
  · obtain ⟨x, hx, rfl⟩ := S.mem_seps ho
    obtain ⟨t, ht, rfl⟩ := ptagRefs_enc hr
    refine S.tag_defined (child_mem hx ?_)
    simp only [children, List.mem_append, ptagsAll, List.mem_map]
    exact Or.inr ⟨t, ht, rfl⟩
  · obtain ⟨x, hx, rfl⟩ := S.mem_sqps ho
    obtain ⟨t, ht, rfl⟩ := ptagRefs_enc hr
    refine S.tag_defined (child_mem hx ?_)
    simp only [children, List.mem_append, ptagsAll, List.mem_map]
    exact Or.inr ⟨t, ht, rfl⟩
  · obtain ⟨x, hx, rfl⟩ := S.mem_cps ho
    obtain ⟨t, ht, rfl⟩ := ptagRefs_enc hr
    refine S.tag_defined (child_mem hx ?_)
    simp only [children, List.mem_append, ptagsAll, List.mem_map]
    exact Or.inr ⟨t, ht, rfl⟩
  · unfold tagRefs at hr
    rw [S.spec.ptags, List.map_map] at hr
    obtain ⟨t, ht, rfl⟩ := List.mem_map.1 hr
    exact S.tag_defined (projTags_mem ht)
  · unfold tagRefs at hr
    rw [S.spec.etags, List.map_map] at hr
    obtain ⟨t, ht, rfl⟩ := List.mem_map.1 hr
    exact S.tag_defined (evalTags_mem ht)

/-- every identifier mentioned in a saved document is defined -/
theorem Saved.doc_closed (S : Saved c dir d rs) : SE.Aoef.closed d = true := by
  unfold SE.Aoef.closed
  rw [List.all_eq_true]
  intro k _
  unfold closedAt
  rw [List.all_eq_true]
  intro r hr
  rw [List.contains_eq_mem, decide_eq_true_eq]
  cases k with
  | user => exact S.closed_user r hr
  | tag => exact S.closed_tag r hr
  | recording => exact S.closed_recording r hr
  | clip => exact S.closed_clip r hr
  | soundEvent => exact S.closed_soundEvent r hr
  | sequence => exact S.closed_sequence r hr
  | seAnn => exact S.closed_seAnn r hr
  | seqAnn => exact S.closed_seqAnn r hr
  | clipAnn => exact S.closed_clipAnn r hr
  | sePred => exact S.closed_sePred r hr
  | seqPred => exact S.closed_seqPred r hr
  | clipPred => exact S.closed_clipPred r hr
  | mtch => exact S.closed_mtch r hr
  | clipEval => cases hr
  | task => cases hr

end

end SE.Aoef
