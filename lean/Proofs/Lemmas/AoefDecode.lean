/-
  C01 — per-kind lemmas: the loader's decoders undo the writer's encoders, given that the tables
  filled so far answer every reachable object of the lower kinds ("store correctness").

  `os` is the traversal of the collection, `f = relocated sd ld` the relocation of audio paths.
-/
import Proofs.Lemmas.AoefStore
namespace SE.Aoef
open SE.Paths

/-! ### per-kind projections of a traversal -/
section proj
local macro "proj_mem" : tactic => `(tactic| (
  constructor
  · rintro ⟨o, ho, h⟩
    cases o <;> simp at h
    subst h; exact ho
  · intro h; exact ⟨_, h, rfl⟩))

variable {os : List Obj}
theorem usersOf_mem {x : User} : x ∈ usersOf os ↔ Obj.user x ∈ os := by
  simp only [usersOf, List.mem_filterMap]; proj_mem
theorem tagsOf_mem {x : Tag} : x ∈ tagsOf os ↔ Obj.tag x ∈ os := by
  simp only [tagsOf, List.mem_filterMap]; proj_mem
theorem recsOf_mem {x : Recording} : x ∈ recsOf os ↔ Obj.recording x ∈ os := by
  simp only [recsOf, List.mem_filterMap]; proj_mem
theorem clipsOf_mem {x : Clip} : x ∈ clipsOf os ↔ Obj.clip x ∈ os := by
  simp only [clipsOf, List.mem_filterMap]; proj_mem
theorem sesOf_mem {x : SoundEvent} : x ∈ sesOf os ↔ Obj.soundEvent x ∈ os := by
  simp only [sesOf, List.mem_filterMap]; proj_mem
theorem seqsOf_mem {x : Sequence} : x ∈ seqsOf os ↔ Obj.sequence x ∈ os := by
  simp only [seqsOf, List.mem_filterMap]; proj_mem
theorem seasOf_mem {x : SoundEventAnnotation} : x ∈ seasOf os ↔ Obj.seAnn x ∈ os := by
  simp only [seasOf, List.mem_filterMap]; proj_mem
theorem sqasOf_mem {x : SequenceAnnotation} : x ∈ sqasOf os ↔ Obj.seqAnn x ∈ os := by
  simp only [sqasOf, List.mem_filterMap]; proj_mem
theorem casOf_mem {x : ClipAnnotation} : x ∈ casOf os ↔ Obj.clipAnn x ∈ os := by
  simp only [casOf, List.mem_filterMap]; proj_mem
theorem sepsOf_mem {x : SoundEventPrediction} : x ∈ sepsOf os ↔ Obj.sePred x ∈ os := by
  simp only [sepsOf, List.mem_filterMap]; proj_mem
theorem sqpsOf_mem {x : SequencePrediction} : x ∈ sqpsOf os ↔ Obj.seqPred x ∈ os := by
  simp only [sqpsOf, List.mem_filterMap]; proj_mem
theorem cpsOf_mem {x : ClipPrediction} : x ∈ cpsOf os ↔ Obj.clipPred x ∈ os := by
  simp only [cpsOf, List.mem_filterMap]; proj_mem
theorem tasksOf_mem {x : AnnotationTask} : x ∈ tasksOf os ↔ Obj.task x ∈ os := by
  simp only [tasksOf, List.mem_filterMap]; proj_mem
theorem matchesOf_mem {x : Match} : x ∈ matchesOf os ↔ Obj.mtch x ∈ os := by
  simp only [matchesOf, List.mem_filterMap]; proj_mem
theorem cesOf_mem {x : ClipEvaluation} : x ∈ cesOf os ↔ Obj.clipEval x ∈ os := by
  simp only [cesOf, List.mem_filterMap]; proj_mem
end proj

/-! ### the hypotheses on a traversal -/
structure Ctx (os : List Obj) : Prop where
  closed : ClosedL os
  users : CoherentBy (·.uuid) (usersOf os)
  recs : CoherentBy (·.uuid) (recsOf os)
  clips : CoherentBy (·.uuid) (clipsOf os)
  ses : CoherentBy (·.uuid) (sesOf os)
  seqs : CoherentBy (·.uuid) (seqsOf os)
  seas : CoherentBy (·.uuid) (seasOf os)
  sqas : CoherentBy (·.uuid) (sqasOf os)
  cas : CoherentBy (·.uuid) (casOf os)
  seps : CoherentBy (·.uuid) (sepsOf os)
  sqps : CoherentBy (·.uuid) (sqpsOf os)
  cps : CoherentBy (·.uuid) (cpsOf os)
  ms : CoherentBy (·.uuid) (matchesOf os)
  features : ∀ o ∈ os, ∀ fs ∈ o.featureLists, (fs.map (·.key)).Nodup

theorem WF.ctx {c : Collection} (h : WF c) : Ctx c.trav :=
  ⟨trav_closed c, h.users, h.recs, h.clips, h.ses, h.seqs, h.seas, h.sqas, h.cas, h.seps, h.sqps,
   h.cps, h.ms, h.features⟩

/-! ### the tables the loader ends up with -/
def tbl {β : Type} {γ : Type} (key : β → Atom) (g : β → γ) (L : List β) : Store Atom γ :=
  (dedupBy key L).map fun y => (key y, g y)

theorem find_tbl {β γ : Type} (key : β → Atom) (g : β → γ) {L : List β} (hc : CoherentBy key L)
    {x : β} (hx : x ∈ L) : find (tbl key g L) (key x) = some (g x) :=
  find_dedup_store key g L hc hx

def tagStore (tids : List Tag) : Store Nat Tag := tids.zipIdx.map fun x => (x.2, x.1)

def ideal (os : List Obj) (f : PPath → PPath) : Stores where
  users := tbl (·.uuid) id (usersOf os)
  tags := tagStore (tagTable os)
  recs := tbl (·.uuid) (Recording.mapPath f) (recsOf os)
  clips := tbl (·.uuid) (Clip.mapPath f) (clipsOf os)
  ses := tbl (·.uuid) (SoundEvent.mapPath f) (sesOf os)
  seqs := tbl (·.uuid) (Sequence.mapPath f) (seqsOf os)
  seas := tbl (·.uuid) (SoundEventAnnotation.mapPath f) (seasOf os)
  sqas := tbl (·.uuid) (SequenceAnnotation.mapPath f) (sqasOf os)
  cas := tbl (·.uuid) (ClipAnnotation.mapPath f) (casOf os)
  seps := tbl (·.uuid) (SoundEventPrediction.mapPath f) (sepsOf os)
  sqps := tbl (·.uuid) (SequencePrediction.mapPath f) (sqpsOf os)
  cps := tbl (·.uuid) (ClipPrediction.mapPath f) (cpsOf os)
  ms := tbl (·.uuid) (Match.mapPath f) (matchesOf os)

/-! "the table of kind K answers every reachable object of kind K" -/
def UsersOK (os : List Obj) (st : Stores) : Prop :=
  ∀ u, Obj.user u ∈ os → find st.users u.uuid = some u
def TagsOK (os : List Obj) (st : Stores) : Prop :=
  ∀ t, Obj.tag t ∈ os → find st.tags (tagId (tagTable os) t) = some t
def RecsOK (f : PPath → PPath) (os : List Obj) (st : Stores) : Prop :=
  ∀ x, Obj.recording x ∈ os → find st.recs x.uuid = some (x.mapPath f)
def ClipsOK (f : PPath → PPath) (os : List Obj) (st : Stores) : Prop :=
  ∀ x, Obj.clip x ∈ os → find st.clips x.uuid = some (x.mapPath f)
def SesOK (f : PPath → PPath) (os : List Obj) (st : Stores) : Prop :=
  ∀ x, Obj.soundEvent x ∈ os → find st.ses x.uuid = some (x.mapPath f)
def SeqsOK (f : PPath → PPath) (os : List Obj) (st : Stores) : Prop :=
  ∀ x, Obj.sequence x ∈ os → find st.seqs x.uuid = some (x.mapPath f)
def SeasOK (f : PPath → PPath) (os : List Obj) (st : Stores) : Prop :=
  ∀ x, Obj.seAnn x ∈ os → find st.seas x.uuid = some (x.mapPath f)
def SqasOK (f : PPath → PPath) (os : List Obj) (st : Stores) : Prop :=
  ∀ x, Obj.seqAnn x ∈ os → find st.sqas x.uuid = some (x.mapPath f)
def CasOK (f : PPath → PPath) (os : List Obj) (st : Stores) : Prop :=
  ∀ x, Obj.clipAnn x ∈ os → find st.cas x.uuid = some (x.mapPath f)
def SepsOK (f : PPath → PPath) (os : List Obj) (st : Stores) : Prop :=
  ∀ x, Obj.sePred x ∈ os → find st.seps x.uuid = some (x.mapPath f)
def SqpsOK (f : PPath → PPath) (os : List Obj) (st : Stores) : Prop :=
  ∀ x, Obj.seqPred x ∈ os → find st.sqps x.uuid = some (x.mapPath f)
def CpsOK (f : PPath → PPath) (os : List Obj) (st : Stores) : Prop :=
  ∀ x, Obj.clipPred x ∈ os → find st.cps x.uuid = some (x.mapPath f)
def MsOK (f : PPath → PPath) (os : List Obj) (st : Stores) : Prop :=
  ∀ x, Obj.mtch x ∈ os → find st.ms x.uuid = some (x.mapPath f)

section ok
variable {os : List Obj} {f : PPath → PPath} {st : Stores} (cx : Ctx os)
include cx

omit f in
theorem usersOK_of (h : st.users = tbl (·.uuid) id (usersOf os)) : UsersOK os st := by
  intro u hu; rw [h]
  exact find_tbl (·.uuid) id cx.users (usersOf_mem.2 hu)

omit cx f in
theorem tagsOK_of (h : st.tags = tagStore (tagTable os)) : TagsOK os st := by
  intro t ht; rw [h]
  have hm : t ∈ tagTable os := by
    have : CoherentBy id (tagsOf os) := fun x _ y _ h => h
    exact dedupBy_mem_of_coherent id this (tagsOf_mem.2 ht)
  simpa [tagStore, tagId] using find_zipIdx (tagTable os) t hm 0

theorem recsOK_of (h : st.recs = (ideal os f).recs) : RecsOK f os st := by
  intro x hx; rw [h]; exact find_tbl (·.uuid) _ cx.recs (recsOf_mem.2 hx)
theorem clipsOK_of (h : st.clips = (ideal os f).clips) : ClipsOK f os st := by
  intro x hx; rw [h]; exact find_tbl (·.uuid) _ cx.clips (clipsOf_mem.2 hx)
theorem sesOK_of (h : st.ses = (ideal os f).ses) : SesOK f os st := by
  intro x hx; rw [h]; exact find_tbl (·.uuid) _ cx.ses (sesOf_mem.2 hx)
theorem seqsOK_of (h : st.seqs = (ideal os f).seqs) : SeqsOK f os st := by
  intro x hx; rw [h]; exact find_tbl (·.uuid) _ cx.seqs (seqsOf_mem.2 hx)
theorem seasOK_of (h : st.seas = (ideal os f).seas) : SeasOK f os st := by
  intro x hx; rw [h]; exact find_tbl (·.uuid) _ cx.seas (seasOf_mem.2 hx)
theorem sqasOK_of (h : st.sqas = (ideal os f).sqas) : SqasOK f os st := by
  intro x hx; rw [h]; exact find_tbl (·.uuid) _ cx.sqas (sqasOf_mem.2 hx)
theorem casOK_of (h : st.cas = (ideal os f).cas) : CasOK f os st := by
  intro x hx; rw [h]; exact find_tbl (·.uuid) _ cx.cas (casOf_mem.2 hx)
theorem sepsOK_of (h : st.seps = (ideal os f).seps) : SepsOK f os st := by
  intro x hx; rw [h]; exact find_tbl (·.uuid) _ cx.seps (sepsOf_mem.2 hx)
theorem sqpsOK_of (h : st.sqps = (ideal os f).sqps) : SqpsOK f os st := by
  intro x hx; rw [h]; exact find_tbl (·.uuid) _ cx.sqps (sqpsOf_mem.2 hx)
theorem cpsOK_of (h : st.cps = (ideal os f).cps) : CpsOK f os st := by
  intro x hx; rw [h]; exact find_tbl (·.uuid) _ cx.cps (cpsOf_mem.2 hx)
theorem msOK_of (h : st.ms = (ideal os f).ms) : MsOK f os st := by
  intro x hx; rw [h]; exact find_tbl (·.uuid) _ cx.ms (matchesOf_mem.2 hx)
end ok

/-! ### small decoders -/
theorem filterMap_find_map {β κ γ : Type} [BEq κ] (st : Store κ γ) (key : β → κ) (g : β → γ)
    (xs : List β) (h : ∀ x ∈ xs, find st (key x) = some (g x)) :
    (xs.map key).filterMap (find st) = xs.map g := by
  induction xs with
  | nil => rfl
  | cons x xs ih =>
    rw [List.map_cons, List.filterMap_cons, h x (by simp), ih (fun y hy => h y (by simp [hy]))]
    rfl

section small
variable {os : List Obj} {st : Stores}

theorem optUser_dec (hU : UsersOK os st) {u : Option User} (h : ∀ o ∈ optUser u, o ∈ os) :
    (u.map (·.uuid)).bind (find st.users) = u := by
  cases u with
  | none => rfl
  | some u =>
    have := hU u (h _ (by simp [optUser]))
    simpa using this

theorem users_dec (hU : UsersOK os st) {us : List User} (h : ∀ o ∈ us.map Obj.user, o ∈ os) :
    (us.map (·.uuid)).filterMap (find st.users) = us := by
  have := filterMap_find_map st.users (·.uuid) id us
    (fun u hu => hU u (h _ (List.mem_map.2 ⟨u, hu, rfl⟩)))
  simpa using this

theorem decNote_enc (hU : UsersOK os st) {n : Note} (h : ∀ o ∈ noteAll n, o ∈ os) :
    decNote st (encNote n) = n := by
  simp only [decNote, encNote, Option.getD_some, optUser_dec hU h]

theorem decNotes_enc (hU : UsersOK os st) {ns : List Note} (h : ∀ o ∈ notesAll ns, o ∈ os) :
    (lst (listOpt (ns.map encNote))).map (decNote st) = ns := by
  rw [lst_listOpt, List.map_map]
  conv => rhs; rw [← List.map_id ns]
  apply List.map_congr_left
  intro n hn
  exact decNote_enc hU (fun o ho => h o (List.mem_flatMap.2 ⟨n, hn, ho⟩))

theorem tags_dec (hT : TagsOK os st) {ts : List Tag} (h : ∀ o ∈ tagsAll ts, o ∈ os) :
    (ts.map (tagId (tagTable os))).filterMap (find st.tags) = ts := by
  have := filterMap_find_map st.tags (tagId (tagTable os)) id ts
    (fun t ht => hT t (h _ (List.mem_map.2 ⟨t, ht, rfl⟩)))
  simpa using this

theorem decTags_listOpt (hT : TagsOK os st) {ts : List Tag} (h : ∀ o ∈ tagsAll ts, o ∈ os) :
    decTags st (listOpt (ts.map (tagId (tagTable os)))) = ts := by
  rw [decTags, lst_listOpt]; exact tags_dec hT h

theorem decTags_some (hT : TagsOK os st) {ts : List Tag} (h : ∀ o ∈ tagsAll ts, o ∈ os) :
    decTags st (some (ts.map (tagId (tagTable os)))) = ts := by
  rw [decTags, lst_some]; exact tags_dec hT h

theorem decPTags_enc (hT : TagsOK os st) {ts : List PredictedTag} (h : ∀ o ∈ ptagsAll ts, o ∈ os) :
    decPTags st (encPTags (tagTable os) ts) = ts := by
  rw [decPTags, encPTags, lst_listOpt]
  induction ts with
  | nil => rfl
  | cons p ts ih =>
    have hp := hT p.tag (h _ (by simp [ptagsAll]))
    rw [List.map_cons, List.filterMap_cons]
    simp only [hp, Option.map_some]
    rw [ih (fun o ho => h o (by simp only [ptagsAll, List.map_cons, List.mem_cons] at ho ⊢; exact Or.inr ho))]

theorem feat_dec (cx : Ctx os) {o : Obj} (ho : o ∈ os) {fs : List Feature} (hfs : fs ∈ o.featureLists) :
    items (dictOpt fs) = fs :=
  items_dictOpt (cx.features o ho fs hfs)

end small

/-! ### recordings: the total form of the encoder -/
def storedPathT (sd : Option PPath) (p : PPath) : PPath :=
  match storedPath sd p with
  | .ok q => q
  | .error _ => p

def encRecordingT (tids : List Tag) (sd : Option PPath) (r : Recording) : RecordingObj :=
  { uuid := r.uuid, path := storedPathT sd r.path, duration := r.duration, channels := r.channels,
    samplerate := r.samplerate,
    time_expansion := if r.time_expansion ≠ oneTok then some r.time_expansion else none,
    hash := r.hash, date := r.date, time := r.time, latitude := r.latitude,
    longitude := r.longitude,
    tags := listOpt (r.tags.map (tagId tids)),
    features := dictOpt r.features,
    notes := listOpt (r.notes.map encNote),
    owners := some (r.owners.map (·.uuid)),
    rights := r.rights,
    license := r.license }

/-- the stored path of the recording can be computed -/
def PathOK (sd : Option PPath) (r : Recording) : Prop :=
  storedPath sd r.path = .ok (storedPathT sd r.path)

theorem pathOK_iff {sd : Option PPath} {r : Recording} : PathOK sd r ↔ ∃ q, storedPath sd r.path = .ok q := by
  unfold PathOK storedPathT
  constructor
  · intro h; exact ⟨_, h⟩
  · rintro ⟨q, h⟩; rw [h]

theorem encRecording_iff {tids : List Tag} {sd : Option PPath} {r : Recording} {o : RecordingObj} :
    encRecording tids sd r = .ok o ↔ o = encRecordingT tids sd r ∧ PathOK sd r := by
  unfold encRecording encRecordingT PathOK storedPathT
  cases h : storedPath sd r.path with
  | error e => simp [bind, Except.bind]
  | ok q => simp [bind, Except.bind, pure, Except.pure, eq_comm]

theorem relocated_of_pathOK {sd ld : Option PPath} {r : Recording} (h : PathOK sd r) :
    loadedPath ld (storedPathT sd r.path) = relocated sd ld r.path := by
  unfold PathOK at h
  unfold relocated
  rw [h]

section kinds
variable {os : List Obj} {sd ld : Option PPath} {st : Stores} (cx : Ctx os)
include cx

theorem decRecording_enc (hU : UsersOK os st) (hT : TagsOK os st) {r : Recording}
    (hr : Obj.recording r ∈ os) (hp : PathOK sd r) :
    decRecording st ld (encRecordingT (tagTable os) sd r) = r.mapPath (relocated sd ld) := by
  have hch := cx.closed _ hr
  simp only [children, List.mem_append] at hch
  have h1 := relocated_of_pathOK (ld := ld) hp
  have h2 : (if r.time_expansion ≠ oneTok then some r.time_expansion else none).getD oneTok
      = r.time_expansion := by
    by_cases h : r.time_expansion = oneTok <;> simp [h]
  have h3 := users_dec hU (us := r.owners) (fun o ho => hch o (Or.inr ho))
  have h4 := decTags_listOpt hT (ts := r.tags) (fun o ho => hch o (Or.inl (Or.inl ho)))
  have h5 := feat_dec cx hr (fs := r.features) (by simp [Obj.featureLists])
  have h6 := decNotes_enc hU (ns := r.notes) (fun o ho => hch o (Or.inl (Or.inr ho)))
  simp only [decRecording, encRecordingT, Recording.mapPath, lst_some, h1, h2, h3, h4, h5, h6]

theorem decClip_enc (hR : RecsOK (relocated sd ld) os st) {c : Clip} (hc : Obj.clip c ∈ os) :
    decClip st (encClip c) = .ok (c.mapPath (relocated sd ld)) := by
  have hch := cx.closed _ hc
  simp only [children, List.mem_singleton, forall_eq] at hch
  have h5 := feat_dec cx hc (fs := c.features) (by simp [Obj.featureLists])
  simp only [decClip, encClip, hR _ hch, strict, h5, bind, Except.bind, pure, Except.pure, Clip.mapPath]

theorem decSoundEvent_enc (hR : RecsOK (relocated sd ld) os st) {s : SoundEvent}
    (hs : Obj.soundEvent s ∈ os) :
    decSoundEvent st (encSoundEvent s) = .ok (s.mapPath (relocated sd ld)) := by
  have hch := cx.closed _ hs
  simp only [children, List.mem_singleton, forall_eq] at hch
  have h5 := feat_dec cx hs (fs := s.features) (by simp [Obj.featureLists])
  simp only [decSoundEvent, encSoundEvent, hR _ hch, strict, h5, bind, Except.bind, pure,
    Except.pure, SoundEvent.mapPath]

omit cx in
theorem ids_dec {β γ : Type} (store : Store Atom γ) (key : β → Atom) (g : β → γ) (xs : List β)
    (h : ∀ x ∈ xs, find store (key x) = some (g x)) :
    (lst (listOpt (xs.map key))).filterMap (find store) = xs.map g := by
  rw [lst_listOpt]; exact filterMap_find_map store key g xs h

omit cx in
theorem opt_dec {β γ : Type} (store : Store Atom γ) (key : β → Atom) (g : β → γ) (x : Option β)
    (h : ∀ y, x = some y → find store (key y) = some (g y)) :
    (x.map key).bind (find store) = x.map g := by
  cases x with
  | none => rfl
  | some y => simpa using h y rfl

theorem decSequence_enc (hS : SesOK (relocated sd ld) os st) {s : Sequence}
    (hs : Obj.sequence s ∈ os) (seqs : Store Atom Sequence)
    (hpar : ∀ a as, s.ancestors = a :: as →
      find seqs a.uuid = some ((⟨a, as⟩ : Sequence).mapPath (relocated sd ld))) :
    decSequence st seqs (encSequence s) = s.mapPath (relocated sd ld) := by
  have hch := cx.closed _ hs
  rcases s with ⟨n, anc⟩
  have hn : (n.sound_events.map (·.uuid)).filterMap (find st.ses)
      = n.sound_events.map (·.mapPath (relocated sd ld)) :=
    filterMap_find_map _ _ _ _ (fun x hx => hS x (hch _ (by
      simp only [children, List.mem_append, List.mem_map]; exact Or.inl ⟨x, hx, rfl⟩)))
  have h5 := feat_dec cx hs (fs := n.features) (by simp [Obj.featureLists])
  cases anc with
  | nil =>
    simp only [decSequence, encSequence, List.head?_nil, Option.map_none, Option.bind_none, hn, h5,
      Sequence.mapPath, SeqNode.mapPath, List.map_nil]
  | cons a as =>
    have := hpar a as rfl
    simp only [decSequence, encSequence, List.head?_cons, Option.map_some, Option.bind_some, this,
      hn, h5, Sequence.mapPath, SeqNode.mapPath, List.map_cons]

theorem decSEA_enc (hU : UsersOK os st) (hT : TagsOK os st) (hS : SesOK (relocated sd ld) os st)
    {a : SoundEventAnnotation} (ha : Obj.seAnn a ∈ os) :
    decSEA st (encSEA (tagTable os) a) = .ok (a.mapPath (relocated sd ld)) := by
  have hch := cx.closed _ ha
  simp only [children, List.mem_append, List.mem_singleton] at hch
  have h0 := hS _ (hch _ (Or.inl (Or.inl (Or.inl rfl))))
  have h1 := decNotes_enc hU (ns := a.notes) (fun o ho => hch o (Or.inl (Or.inl (Or.inr ho))))
  have h2 := decTags_some hT (ts := a.tags) (fun o ho => hch o (Or.inl (Or.inr ho)))
  have h3 := optUser_dec hU (u := a.created_by) (fun o ho => hch o (Or.inr ho))
  simp only [decSEA, encSEA, h0, strict, bind, Except.bind, pure, Except.pure, h1, h2, h3,
    Option.getD_some, SoundEventAnnotation.mapPath]

theorem decSQA_enc (hU : UsersOK os st) (hT : TagsOK os st) (hS : SeqsOK (relocated sd ld) os st)
    {a : SequenceAnnotation} (ha : Obj.seqAnn a ∈ os) :
    decSQA st (encSQA (tagTable os) a) = .ok (a.mapPath (relocated sd ld)) := by
  have hch := cx.closed _ ha
  simp only [children, List.mem_append, List.mem_singleton] at hch
  have h0 := hS _ (hch _ (Or.inl (Or.inl (Or.inl rfl))))
  have h1 := decNotes_enc hU (ns := a.notes) (fun o ho => hch o (Or.inl (Or.inl (Or.inr ho))))
  have h2 := decTags_listOpt hT (ts := a.tags) (fun o ho => hch o (Or.inl (Or.inr ho)))
  have h3 := optUser_dec hU (u := a.created_by) (fun o ho => hch o (Or.inr ho))
  simp only [decSQA, encSQA, h0, strict, bind, Except.bind, pure, Except.pure, h1, h2, h3,
    Option.getD_some, SequenceAnnotation.mapPath]

theorem decCA_enc (hU : UsersOK os st) (hT : TagsOK os st) (hC : ClipsOK (relocated sd ld) os st)
    (hA : SeasOK (relocated sd ld) os st) (hQ : SqasOK (relocated sd ld) os st)
    {a : ClipAnnotation} (ha : Obj.clipAnn a ∈ os) :
    decCA st (encCA (tagTable os) a) = .ok (a.mapPath (relocated sd ld)) := by
  have hch := cx.closed _ ha
  simp only [children, List.mem_append, List.mem_singleton, List.mem_map] at hch
  have h0 := hC _ (hch _ (Or.inl (Or.inl (Or.inl (Or.inl rfl)))))
  have h1 := decTags_listOpt hT (ts := a.tags) (fun o ho => hch o (Or.inl (Or.inl (Or.inl (Or.inr ho)))))
  have h2 := ids_dec st.seas (·.uuid) (·.mapPath (relocated sd ld)) a.sound_events
    (fun x hx => hA x (hch _ (Or.inl (Or.inl (Or.inr ⟨x, hx, rfl⟩)))))
  have h3 := ids_dec st.sqas (·.uuid) (·.mapPath (relocated sd ld)) a.sequences
    (fun x hx => hQ x (hch _ (Or.inl (Or.inr ⟨x, hx, rfl⟩))))
  have h4 := decNotes_enc hU (ns := a.notes) (fun o ho => hch o (Or.inr ho))
  simp only [decCA, encCA, h0, strict, bind, Except.bind, pure, Except.pure, h1, h2, h3, h4,
    Option.getD_some, ClipAnnotation.mapPath]

omit cx in
theorem decBadge_enc (hU : UsersOK os st) {b : StatusBadge} (h : ∀ o ∈ badgeAll b, o ∈ os) :
    decBadge st (encBadge b) = b := by
  simp only [decBadge, encBadge, Option.getD_some, optUser_dec hU h]

theorem decTask_enc (hU : UsersOK os st) (hC : ClipsOK (relocated sd ld) os st)
    {t : AnnotationTask} (ht : Obj.task t ∈ os) :
    decTask st (encTask t) = .ok (t.mapPath (relocated sd ld)) := by
  have hch := cx.closed _ ht
  simp only [children, List.mem_append, List.mem_singleton] at hch
  have h0 := hC _ (hch _ (Or.inr rfl))
  have h1 : (lst (listOpt (t.status_badges.map encBadge))).map (decBadge st) = t.status_badges := by
    rw [lst_listOpt, List.map_map]
    conv => rhs; rw [← List.map_id t.status_badges]
    apply List.map_congr_left
    intro b hb
    exact decBadge_enc hU (fun o ho => hch o (Or.inl (List.mem_flatMap.2 ⟨b, hb, ho⟩)))
  simp only [decTask, encTask, h0, strict, bind, Except.bind, pure, Except.pure, h1,
    Option.getD_some, AnnotationTask.mapPath]

theorem decSEP_enc (hT : TagsOK os st) (hS : SesOK (relocated sd ld) os st)
    {p : SoundEventPrediction} (hp : Obj.sePred p ∈ os) :
    decSEP st (encSEP (tagTable os) p) = .ok (p.mapPath (relocated sd ld)) := by
  have hch := cx.closed _ hp
  simp only [children, List.mem_append, List.mem_singleton] at hch
  have h0 := hS _ (hch _ (Or.inl rfl))
  have h1 := decPTags_enc hT (ts := p.tags) (fun o ho => hch o (Or.inr ho))
  simp only [decSEP, encSEP, h0, strict, bind, Except.bind, pure, Except.pure, h1,
    SoundEventPrediction.mapPath]

theorem decSQP_enc (hT : TagsOK os st) (hS : SeqsOK (relocated sd ld) os st)
    {p : SequencePrediction} (hp : Obj.seqPred p ∈ os) :
    decSQP st (encSQP (tagTable os) p) = .ok (p.mapPath (relocated sd ld)) := by
  have hch := cx.closed _ hp
  simp only [children, List.mem_append, List.mem_singleton] at hch
  have h0 := hS _ (hch _ (Or.inl rfl))
  have h1 := decPTags_enc hT (ts := p.tags) (fun o ho => hch o (Or.inr ho))
  simp only [decSQP, encSQP, h0, strict, bind, Except.bind, pure, Except.pure, h1,
    SequencePrediction.mapPath]

theorem decCP_enc (hT : TagsOK os st) (hC : ClipsOK (relocated sd ld) os st)
    (hA : SepsOK (relocated sd ld) os st) (hQ : SqpsOK (relocated sd ld) os st)
    {p : ClipPrediction} (hp : Obj.clipPred p ∈ os) :
    decCP st (encCP (tagTable os) p) = .ok (p.mapPath (relocated sd ld)) := by
  have hch := cx.closed _ hp
  simp only [children, List.mem_append, List.mem_singleton, List.mem_map] at hch
  have h0 := hC _ (hch _ (Or.inl (Or.inl (Or.inl rfl))))
  have h2 := ids_dec st.seps (·.uuid) (·.mapPath (relocated sd ld)) p.sound_events
    (fun x hx => hA x (hch _ (Or.inl (Or.inl (Or.inr ⟨x, hx, rfl⟩)))))
  have h3 := ids_dec st.sqps (·.uuid) (·.mapPath (relocated sd ld)) p.sequences
    (fun x hx => hQ x (hch _ (Or.inl (Or.inr ⟨x, hx, rfl⟩))))
  have h1 := decPTags_enc hT (ts := p.tags) (fun o ho => hch o (Or.inr ho))
  have h5 := items_some_dictOf (cx.features _ hp p.features (by simp [Obj.featureLists]))
  simp only [decCP, encCP, h0, strict, bind, Except.bind, pure, Except.pure, h1, h2, h3, h5,
    ClipPrediction.mapPath]

theorem decMatch_enc (hP : SepsOK (relocated sd ld) os st) (hA : SeasOK (relocated sd ld) os st)
    {m : Match} (hm : Obj.mtch m ∈ os) :
    decMatch st (encMatch m) = m.mapPath (relocated sd ld) := by
  have hch := cx.closed _ hm
  simp only [children, List.mem_append] at hch
  have h1 := opt_dec st.seps (·.uuid) (·.mapPath (relocated sd ld)) m.source
    (fun y hy => hP y (hch _ (Or.inl (by rw [hy]; simp))))
  have h2 := opt_dec st.seas (·.uuid) (·.mapPath (relocated sd ld)) m.target
    (fun y hy => hA y (hch _ (Or.inr (by rw [hy]; simp))))
  have h5 := feat_dec cx hm (fs := m.metrics) (by simp [Obj.featureLists])
  simp only [decMatch, encMatch, h1, h2, h5, Match.mapPath]

theorem decCE_enc (hA : CasOK (relocated sd ld) os st) (hP : CpsOK (relocated sd ld) os st)
    (hM : MsOK (relocated sd ld) os st) {e : ClipEvaluation} (he : Obj.clipEval e ∈ os) :
    decCE st (encCE e) = .ok (e.mapPath (relocated sd ld)) := by
  have hch := cx.closed _ he
  simp only [children, List.mem_append, List.mem_cons, List.mem_map, List.not_mem_nil, or_false] at hch
  have h0 := hA _ (hch _ (Or.inl (Or.inl rfl)))
  have h1 := hP _ (hch _ (Or.inl (Or.inr rfl)))
  have h2 := ids_dec st.ms (·.uuid) (·.mapPath (relocated sd ld)) e.«matches»
    (fun x hx => hM x (hch _ (Or.inr ⟨x, hx, rfl⟩)))
  have h5 := feat_dec cx he (fs := e.metrics) (by simp [Obj.featureLists])
  simp only [decCE, encCE, h0, h1, strict, bind, Except.bind, pure, Except.pure, h2, h5,
    ClipEvaluation.mapPath]

end kinds

end SE.Aoef
