/- Helper lemmas of C12: the extents `compute_bounds` returns are the least / greatest time and
   frequency coordinate of the geometry. -/
import SoundeventModel.Intervals
import Proofs.Lemmas.Bounds
namespace SE.Proofs.Lemmas.Intervals
open SE SE.Bnd SE.Intervals SE.Proofs.Lemmas.Bounds

/-- `g.bounds = some b` says exactly that the four numbers of `b` are the least / greatest time
    and frequency coordinates -/
theorem bounds_eq_some_iff (g : Geom) (b : Bounds) :
    g.bounds = some b ↔
      listMin (times g) = some b.st ∧ listMax (times g) = some b.en ∧
      listMin (freqs g) = some b.lo ∧ listMax (freqs g) = some b.hi := by
  constructor
  · intro h
    obtain ⟨hc, ⟨p1, hp1, e1⟩, ⟨p2, hp2, e2⟩, ⟨p3, hp3, e3⟩, ⟨p4, hp4, e4⟩⟩ :=
      ptsBounds_isBoundsOf _ _ h
    simp only [times, freqs]
    refine ⟨?_, ?_, ?_, ?_⟩
    · rw [listMin_eq_some_iff]
      exact ⟨List.mem_map.mpr ⟨p1, hp1, e1⟩, by
        intro x hx; obtain ⟨p, hp, rfl⟩ := List.mem_map.mp hx; exact (hc p hp).1⟩
    · rw [listMax_eq_some_iff]
      exact ⟨List.mem_map.mpr ⟨p3, hp3, e3⟩, by
        intro x hx; obtain ⟨p, hp, rfl⟩ := List.mem_map.mp hx; exact (hc p hp).2.1⟩
    · rw [listMin_eq_some_iff]
      exact ⟨List.mem_map.mpr ⟨p2, hp2, e2⟩, by
        intro x hx; obtain ⟨p, hp, rfl⟩ := List.mem_map.mp hx; exact (hc p hp).2.2.1⟩
    · rw [listMax_eq_some_iff]
      exact ⟨List.mem_map.mpr ⟨p4, hp4, e4⟩, by
        intro x hx; obtain ⟨p, hp, rfl⟩ := List.mem_map.mp hx; exact (hc p hp).2.2.2⟩
  · rintro ⟨h1, h2, h3, h4⟩
    cases hb : g.bounds with
    | none =>
      have : g.boundPts = [] := (ptsBounds_eq_none _).mp hb
      simp [times, this, listMin] at h1
    | some b' =>
      obtain ⟨hc, ⟨p1, hp1, e1⟩, ⟨p2, hp2, e2⟩, ⟨p3, hp3, e3⟩, ⟨p4, hp4, e4⟩⟩ :=
        ptsBounds_isBoundsOf _ _ hb
      rw [listMin_eq_some_iff] at h1 h3
      rw [listMax_eq_some_iff] at h2 h4
      simp only [times, freqs, List.mem_map] at h1 h2 h3 h4
      obtain ⟨⟨q1, hq1, f1⟩, l1⟩ := h1
      obtain ⟨⟨q2, hq2, f2⟩, l2⟩ := h2
      obtain ⟨⟨q3, hq3, f3⟩, l3⟩ := h3
      obtain ⟨⟨q4, hq4, f4⟩, l4⟩ := h4
      have a1 := l1 p1.1 ⟨p1, hp1, rfl⟩
      have a2 := l2 p3.1 ⟨p3, hp3, rfl⟩
      have a3 := l3 p2.2 ⟨p2, hp2, rfl⟩
      have a4 := l4 p4.2 ⟨p4, hp4, rfl⟩
      have c1 := hc q1 hq1
      have c2 := hc q2 hq2
      have c3 := hc q3 hq3
      have c4 := hc q4 hq4
      have : b' = b := by
        cases b; cases b'; simp only [Bounds.mk.injEq] at *; grind
      rw [this]

theorem bounds_isSome_iff (g : Geom) : g.bounds.isSome ↔ g.boundPts ≠ [] := by
  cases hb : g.bounds with
  | none => simp [(ptsBounds_eq_none _).mp hb]
  | some b =>
    simp only [Option.isSome_some, true_iff]
    intro h
    have := (ptsBounds_eq_none g.boundPts).mpr h
    simp [Geom.bounds] at hb
    rw [this] at hb; cases hb

/-! ### relative-error roundings: the float result is the exact one outside `floatBand` -/

/-- a rounding with relative error at most `u` (binary64 round-to-nearest: `u = 2⁻⁵³`) -/
def RelErr (u : Rat) (rnd : Rat → Rat) : Prop := ∀ x, absR (rnd x - x) ≤ u * absR x

theorem absR_nonneg (x : Rat) : 0 ≤ absR x := by unfold absR; split <;> grind

theorem absR_scale (r y : Rat) (h0 : 0 ≤ r) (h1 : r ≤ 1) : absR (r * y) ≤ absR y := by
  by_cases hy : y < 0
  · have h : r * (-y) ≤ 1 * (-y) := Rat.mul_le_mul_of_nonneg_right h1 (by grind)
    have h' : 0 ≤ r * (-y) := Rat.mul_nonneg h0 (by grind)
    have e : r * (-y) = -(r * y) := by grind
    unfold absR; split <;> grind
  · have h : r * y ≤ 1 * y := Rat.mul_le_mul_of_nonneg_right h1 (by grind)
    have h' : 0 ≤ r * y := Rat.mul_nonneg h0 (by grind)
    unfold absR; split <;> grind

/-- error of the rounded relative threshold `rnd (r · min (rnd w₁) (rnd w₂))` -/
theorem rel_threshold_error (u : Rat) (rnd : Rat → Rat) (R : RelErr u rnd) (hu0 : 0 ≤ u) (hu1 : u ≤ 1)
    (w1 w2 r : Rat) (h0 : 0 ≤ r) (h1 : r ≤ 1) :
    absR (rnd (r * min (rnd w1) (rnd w2)) - r * min w1 w2) ≤ 3 * (u * max (absR w1) (absR w2)) := by
  have n1 := absR_nonneg w1
  have n2 := absR_nonneg w2
  have hW : 0 ≤ max (absR w1) (absR w2) := by grind
  have hc : 0 ≤ u * max (absR w1) (absR w2) := Rat.mul_nonneg hu0 hW
  have d1 : absR (rnd w1 - w1) ≤ u * max (absR w1) (absR w2) :=
    Rat.le_trans (R w1) (Rat.mul_le_mul_of_nonneg_left (by grind) hu0)
  have d2 : absR (rnd w2 - w2) ≤ u * max (absR w1) (absR w2) :=
    Rat.le_trans (R w2) (Rat.mul_le_mul_of_nonneg_left (by grind) hu0)
  generalize hcdef : u * max (absR w1) (absR w2) = c at *
  generalize hWdef : max (absR w1) (absR w2) = W at *
  -- the rounded minimum is within c of the exact one, and at most W + c in size
  have dm : absR (min (rnd w1) (rnd w2) - min w1 w2) ≤ c := by
    unfold absR at d1 d2 ⊢; grind
  have sm : absR (min (rnd w1) (rnd w2)) ≤ W + c := by
    unfold absR at d1 d2 n1 n2 hWdef ⊢; grind
  have uc : u * c ≤ 1 * c := Rat.mul_le_mul_of_nonneg_right hu1 hc
  -- the product's own rounding
  have e1 : absR (rnd (r * min (rnd w1) (rnd w2)) - r * min (rnd w1) (rnd w2)) ≤ u * (W + c) :=
    Rat.le_trans (R _) (Rat.mul_le_mul_of_nonneg_left
      (Rat.le_trans (absR_scale r _ h0 h1) sm) hu0)
  have e2 : absR (r * (min (rnd w1) (rnd w2) - min w1 w2)) ≤ c :=
    Rat.le_trans (absR_scale r _ h0 h1) dm
  have e3 : r * (min (rnd w1) (rnd w2) - min w1 w2) = r * min (rnd w1) (rnd w2) - r * min w1 w2 := by
    grind
  have e4 : u * (W + c) = c + u * c := by rw [← hcdef]; grind
  generalize rnd (r * min (rnd w1) (rnd w2)) = T at *
  generalize r * min (rnd w1) (rnd w2) = P at *
  generalize r * min w1 w2 = Q at *
  generalize r * (min (rnd w1) (rnd w2) - min w1 w2) = D at *
  unfold absR at e1 e2 ⊢
  grind

end SE.Proofs.Lemmas.Intervals
