/-
  Helper lemmas for C08 / C09 (model: SoundeventModel/Metrics.lean).
-/
import SoundeventModel.Metrics
import Mathlib.Algebra.Order.Field.Rat
import Mathlib.Algebra.Order.Field.Basic
import Mathlib.Algebra.BigOperators.Group.List.Basic
import Mathlib.Tactic.Ring
import Mathlib.Tactic.Linarith
namespace SE.Metrics

/-! ### ratios, sums and means -/

theorem ratio_nonneg (a b : Nat) : 0 ≤ ratio a b := by
  unfold ratio
  exact div_nonneg (Nat.cast_nonneg a) (Nat.cast_nonneg b)

theorem ratio_le_one {a b : Nat} (h : a ≤ b) : ratio a b ≤ 1 := by
  unfold ratio
  rcases Nat.eq_zero_or_pos b with hb | hb
  · subst hb; simp
  · have : (0 : Rat) < b := by exact_mod_cast hb
    rw [div_le_one this]; exact_mod_cast h

theorem sum_nonneg' {xs : List Rat} (h : ∀ x ∈ xs, 0 ≤ x) : 0 ≤ xs.sum := by
  induction xs with
  | nil => simp
  | cons x xs ih =>
    simp only [List.sum_cons]
    have := h x (by simp)
    have := ih (fun y hy => h y (by simp [hy]))
    linarith

theorem sum_le_length {xs : List Rat} (h : ∀ x ∈ xs, x ≤ 1) : xs.sum ≤ (xs.length : Rat) := by
  induction xs with
  | nil => simp
  | cons x xs ih =>
    simp only [List.sum_cons, List.length_cons, Nat.cast_add, Nat.cast_one]
    have := h x (by simp)
    have := ih (fun y hy => h y (by simp [hy]))
    linarith

theorem mean_perm {xs ys : List Rat} (h : xs.Perm ys) : mean xs = mean ys := by
  unfold mean; rw [h.sum_eq, h.length_eq]

theorem mean_range {xs : List Rat} (h : ∀ x ∈ xs, 0 ≤ x ∧ x ≤ 1) : 0 ≤ mean xs ∧ mean xs ≤ 1 := by
  unfold mean
  constructor
  · exact div_nonneg (sum_nonneg' (fun x hx => (h x hx).1)) (Nat.cast_nonneg _)
  · rcases Nat.eq_zero_or_pos xs.length with h0 | hp
    · rw [h0]; simp
    · have : (0 : Rat) < xs.length := by exact_mod_cast hp
      rw [div_le_one this]
      exact sum_le_length (fun x hx => (h x hx).2)

/-! ### permutation invariance of the count-based metrics -/

theorem any_perm {α} {xs ys : List α} (p : α → Bool) (h : xs.Perm ys) : xs.any p = ys.any p := by
  rw [Bool.eq_iff_iff]; simp only [List.any_eq_true]
  constructor
  · rintro ⟨a, ha, hp⟩; exact ⟨a, h.mem_iff.mp ha, hp⟩
  · rintro ⟨a, ha, hp⟩; exact ⟨a, h.mem_iff.mpr ha, hp⟩

theorem accuracy_perm (C : Nat) {xs ys : List Item} (h : xs.Perm ys) : accuracy C xs = accuracy C ys := by
  unfold accuracy; rw [h.countP_eq, h.length_eq]

theorem topK_perm (k C : Nat) {xs ys : List Item} (h : xs.Perm ys) : topK k C xs = topK k C ys := by
  unfold topK; rw [h.countP_eq, h.length_eq]

theorem recallOf_perm (C : Nat) {xs ys : List Item} (h : xs.Perm ys) (c : Nat) :
    recallOf C xs c = recallOf C ys c := by
  unfold recallOf; rw [h.countP_eq, h.countP_eq]

theorem presentClasses_perm (C : Nat) {xs ys : List Item} (h : xs.Perm ys) :
    presentClasses C xs = presentClasses C ys := by
  unfold presentClasses
  congr 1; funext c; exact any_perm _ h

theorem balancedAccuracy_perm (C : Nat) {xs ys : List Item} (h : xs.Perm ys) :
    balancedAccuracy C xs = balancedAccuracy C ys := by
  unfold balancedAccuracy
  rw [presentClasses_perm C h]
  congr 2; funext c; exact recallOf_perm C h c

/-! ### ranges of the count-based metrics -/

theorem accuracy_range (C : Nat) (xs : List Item) : 0 ≤ accuracy C xs ∧ accuracy C xs ≤ 1 :=
  ⟨ratio_nonneg _ _, ratio_le_one List.countP_le_length⟩

theorem topK_range (k C : Nat) (xs : List Item) : 0 ≤ topK k C xs ∧ topK k C xs ≤ 1 :=
  ⟨ratio_nonneg _ _, ratio_le_one List.countP_le_length⟩

theorem recallOf_range (C : Nat) (xs : List Item) (c : Nat) : 0 ≤ recallOf C xs c ∧ recallOf C xs c ≤ 1 := by
  refine ⟨ratio_nonneg _ _, ratio_le_one ?_⟩
  apply List.countP_mono_left
  intro x _ hx
  simp only [Bool.and_eq_true] at hx
  exact hx.1

theorem balancedAccuracy_range (C : Nat) (xs : List Item) :
    0 ≤ balancedAccuracy C xs ∧ balancedAccuracy C xs ≤ 1 := by
  unfold balancedAccuracy
  apply mean_range
  intro x hx
  simp only [List.mem_map] at hx
  obtain ⟨c, _, rfl⟩ := hx
  exact recallOf_range C xs c

/-! ### average precision -/

theorem precisionAt_perm {xs ys : Labelled} (h : xs.Perm ys) (t : Rat) : precisionAt xs t = precisionAt ys t := by
  unfold precisionAt; rw [h.countP_eq, h.countP_eq]

theorem precisionAt_range (xs : Labelled) (t : Rat) : 0 ≤ precisionAt xs t ∧ precisionAt xs t ≤ 1 := by
  refine ⟨ratio_nonneg _ _, ratio_le_one ?_⟩
  apply List.countP_mono_left
  intro x _ hx
  simp only [Bool.and_eq_true] at hx
  exact hx.2

theorem numPos_perm {xs ys : Labelled} (h : xs.Perm ys) : numPos xs = numPos ys := by
  unfold numPos; exact h.countP_eq _

theorem apMeanPrecision_perm {xs ys : Labelled} (h : xs.Perm ys) : apMeanPrecision xs = apMeanPrecision ys := by
  unfold apMeanPrecision
  rw [numPos_perm h]
  have hf : (fun x : Bool × Rat => precisionAt xs x.2) = (fun x => precisionAt ys x.2) := by
    funext x; exact precisionAt_perm h x.2
  rw [hf, ((h.filter _).map _).sum_eq]

theorem numPos_eq_length_filter (xs : Labelled) : numPos xs = (xs.filter (·.1)).length := by
  unfold numPos; rw [List.countP_eq_length_filter]

theorem apMeanPrecision_range (xs : Labelled) : 0 ≤ apMeanPrecision xs ∧ apMeanPrecision xs ≤ 1 := by
  unfold apMeanPrecision
  split
  · exact ⟨le_refl _, by norm_num⟩
  · have hm : ((xs.filter (·.1)).map (fun x => precisionAt xs x.2)).length = numPos xs := by
      rw [List.length_map, numPos_eq_length_filter]
    have := mean_range (xs := (xs.filter (·.1)).map (fun x => precisionAt xs x.2))
      (by intro v hv
          simp only [List.mem_map] at hv
          obtain ⟨x, _, rfl⟩ := hv
          exact precisionAt_range xs x.2)
    unfold mean at this
    rwa [hm] at this

/-- `distinct` keeps exactly the members -/
theorem mem_distinct {l : List Rat} {a : Rat} : a ∈ distinct l ↔ a ∈ l := by
  induction l with
  | nil => simp [distinct]
  | cons x xs ih =>
    simp only [distinct, List.mem_cons, List.mem_filter, bne_iff_ne, ne_eq]
    constructor
    · rintro (h | ⟨h, _⟩)
      · exact Or.inl h
      · exact Or.inr (ih.mp h)
    · rintro (h | h)
      · exact Or.inl h
      · by_cases hx : a = x
        · exact Or.inl hx
        · exact Or.inr ⟨ih.mpr h, hx⟩

theorem nodup_distinct (l : List Rat) : (distinct l).Nodup := by
  induction l with
  | nil => simp [distinct]
  | cons x xs ih =>
    simp only [distinct, List.nodup_cons, List.mem_filter, bne_iff_ne, ne_eq, not_and, not_not]
    exact ⟨fun _ => trivial, ih.filter _⟩

/-- a sum over a duplicate-free list of keys picks out the term of the one key that matches -/
theorem sum_indicator (ks : List Rat) (hn : ks.Nodup) (a : Rat) (ha : a ∈ ks) (g : Rat → Rat) :
    (ks.map (fun t => if t = a then g t else 0)).sum = g a := by
  induction ks with
  | nil => simp at ha
  | cons k ks ih =>
    rw [List.nodup_cons] at hn
    simp only [List.map_cons, List.sum_cons]
    by_cases hk : k = a
    · subst hk
      have hz : (ks.map (fun t => if t = k then g t else 0)).sum = 0 := by
        apply List.sum_eq_zero
        intro v hv
        simp only [List.mem_map] at hv
        obtain ⟨t, ht, rfl⟩ := hv
        have : t ≠ k := fun e => hn.1 (e ▸ ht)
        simp [this]
      simp [hz]
    · have : a ∈ ks := by
        rcases List.mem_cons.mp ha with h | h
        · exact absurd h.symm hk
        · exact h
      simp [hk, ih hn.2 this]

theorem sum_map_div {α} (l : List α) (g : α → Rat) (c : Rat) :
    (l.map (fun t => g t / c)).sum = (l.map g).sum / c := by
  induction l with
  | nil => simp
  | cons a l ih => simp only [List.map_cons, List.sum_cons, ih]; ring

/-- positives scored exactly `t` -/
def posEq (xs : Labelled) (t : Rat) : Nat := xs.countP (fun x => x.1 && decide (x.2 = t))

theorem posGe_split (xs : Labelled) (t : Rat) :
    xs.countP (fun x => x.1 && decide (t ≤ x.2)) =
      xs.countP (fun x => x.1 && decide (t < x.2)) + posEq xs t := by
  unfold posEq
  induction xs with
  | nil => simp
  | cons x xs ih =>
    simp only [List.countP_cons, ih]
    rcases lt_trichotomy t x.2 with h | h | h
    · have h1 : t ≤ x.2 := le_of_lt h
      have h2 : x.2 ≠ t := ne_of_gt h
      cases x.1 <;> simp [h, h1, h2] <;> omega
    · have h1 : t ≤ x.2 := le_of_eq h
      have h2 : ¬ t < x.2 := by rw [h]; exact lt_irrefl _
      cases x.1 <;> simp [h1, h2, h.symm] <;> omega
    · have h1 : ¬ t ≤ x.2 := not_le.mpr h
      have h2 : ¬ t < x.2 := fun h' => absurd (lt_trans h h') (lt_irrefl _)
      have h3 : x.2 ≠ t := ne_of_lt h
      cases x.1 <;> simp [h1, h2, h3]

/-- regrouping: a sum over the positive examples is a sum over the distinct scores, each
    weighted by the number of positives scored exactly that -/
theorem sum_by_threshold (xs : Labelled) (ks : List Rat) (hn : ks.Nodup)
    (hk : ∀ x ∈ xs, x.2 ∈ ks) (f : Rat → Rat) :
    (ks.map (fun t => (posEq xs t : Rat) * f t)).sum = ((xs.filter (·.1)).map (fun x => f x.2)).sum := by
  induction xs with
  | nil => simp [posEq]
  | cons x xs ih =>
    have ih' := ih (fun y hy => hk y (by simp [hy]))
    have hx : x.2 ∈ ks := hk x (by simp)
    have hsplit : ∀ t, (posEq (x :: xs) t : Rat) * f t =
        (posEq xs t : Rat) * f t + (if t = x.2 then (if x.1 then f t else 0) else 0) := by
      intro t
      unfold posEq
      simp only [List.countP_cons]
      by_cases ht : t = x.2
      · subst ht; cases x.1 <;> simp <;> ring
      · have : x.2 ≠ t := fun e => ht e.symm
        simp [ht, this]
    have : (ks.map (fun t => (posEq (x :: xs) t : Rat) * f t)).sum =
        (ks.map (fun t => (posEq xs t : Rat) * f t)).sum +
        (ks.map (fun t => if t = x.2 then (if x.1 then f t else 0) else 0)).sum := by
      rw [← List.sum_map_add]
      congr 1
      apply List.map_congr_left
      intro t _; exact hsplit t
    rw [this, ih', sum_indicator ks hn x.2 hx (fun t => if x.1 then f t else 0)]
    cases h1 : x.1 <;> simp [List.filter_cons, h1]
    ring

/-- the step integral of the precision-recall curve is the mean, over the positive examples,
    of the precision at their own score -/
theorem averagePrecision_eq_mean_precision (xs : Labelled) : averagePrecision xs = apMeanPrecision xs := by
  unfold averagePrecision apMeanPrecision
  split
  · rfl
  · rename_i hP
    have hP' : (numPos xs : Rat) ≠ 0 := by exact_mod_cast hP
    have hstep : ∀ t, (recallAt xs t - recallAbove xs t) * precisionAt xs t =
        ((posEq xs t : Rat) * precisionAt xs t) / (numPos xs : Rat) := by
      intro t
      unfold recallAt recallAbove ratio
      rw [posGe_split xs t]
      push_cast
      ring
    have : ((thresholds xs).map (fun t => (recallAt xs t - recallAbove xs t) * precisionAt xs t)).sum =
        ((thresholds xs).map (fun t => (posEq xs t : Rat) * precisionAt xs t)).sum / (numPos xs : Rat) := by
      rw [← sum_map_div]
      congr 1
      apply List.map_congr_left
      intro t _; exact hstep t
    rw [this]
    congr 1
    apply sum_by_threshold xs (thresholds xs) (nodup_distinct _)
    intro x hx
    unfold thresholds
    exact mem_distinct.mpr (List.mem_map_of_mem hx)

theorem averagePrecision_perm {xs ys : Labelled} (h : xs.Perm ys) : averagePrecision xs = averagePrecision ys := by
  rw [averagePrecision_eq_mean_precision, averagePrecision_eq_mean_precision, apMeanPrecision_perm h]

theorem averagePrecision_range (xs : Labelled) : 0 ≤ averagePrecision xs ∧ averagePrecision xs ≤ 1 := by
  rw [averagePrecision_eq_mean_precision]; exact apMeanPrecision_range xs

/-! ### mean average precision -/

theorem macroAP_congr (C : Nat) (f g : Nat → Labelled) (h : ∀ c, averagePrecision (f c) = averagePrecision (g c)) :
    macroAP C f = macroAP C g := by
  unfold macroAP
  congr 2; funext c; exact h c

theorem macroAP_range (C : Nat) (f : Nat → Labelled) : 0 ≤ macroAP C f ∧ macroAP C f ≤ 1 := by
  unfold macroAP
  apply mean_range
  intro x hx
  simp only [List.mem_map] at hx
  obtain ⟨c, _, rfl⟩ := hx
  exact averagePrecision_range _

theorem labelled_perm {xs ys : List Item} (h : xs.Perm ys) : (labelled xs).Perm (labelled ys) :=
  h.filterMap _

theorem meanAveragePrecision_perm (C : Nat) {xs ys : List Item} (h : xs.Perm ys) :
    meanAveragePrecision C xs = meanAveragePrecision C ys := by
  unfold meanAveragePrecision
  have hl := labelled_perm h
  have he : (labelled xs).isEmpty = (labelled ys).isEmpty := by
    rw [Bool.eq_iff_iff, List.isEmpty_iff_length_eq_zero, List.isEmpty_iff_length_eq_zero, hl.length_eq]
  rw [he]
  split
  · rfl
  · congr 1
    apply macroAP_congr
    intro c
    exact averagePrecision_perm (hl.map _)

theorem meanAveragePrecisionML_perm (C : Nat) {xs ys : List MLItem} (h : xs.Perm ys) :
    meanAveragePrecisionML C xs = meanAveragePrecisionML C ys := by
  unfold meanAveragePrecisionML
  apply macroAP_congr
  intro c
  exact averagePrecision_perm (h.map _)

/-- unlabelled items do not take part in mean average precision -/
theorem labelled_filter (xs : List Item) : labelled (xs.filter (fun it => it.y.isSome)) = labelled xs := by
  unfold labelled
  induction xs with
  | nil => rfl
  | cons x xs ih =>
    cases hy : x.y with
    | none => simp [hy, ih]
    | some c => simp [hy, ih]

/-! ### Jaccard and true-class probability -/

theorem jaccard_range (it : MLItem) : 0 ≤ jaccard it ∧ jaccard it ≤ 1 := by
  unfold jaccard
  simp only
  split
  · exact ⟨le_refl _, by norm_num⟩
  · refine ⟨ratio_nonneg _ _, ratio_le_one ?_⟩
    apply List.countP_mono_left
    intro x _ hx
    simp only [Bool.and_eq_true] at hx
    simp [hx.1]

theorem getD_le_sum {row : List Rat} (h : ∀ x ∈ row, 0 ≤ x) (c : Nat) : row.getD c 0 ≤ row.sum := by
  induction row generalizing c with
  | nil => simp
  | cons x xs ih =>
    have hx := h x (by simp)
    have hs := sum_nonneg' (xs := xs) (fun y hy => h y (by simp [hy]))
    cases c with
    | zero => simp only [List.getD_cons_zero, List.sum_cons]; linarith
    | succ c =>
      simp only [List.getD_cons_succ, List.sum_cons]
      have := ih (fun y hy => h y (by simp [hy])) c
      linarith

theorem getD_nonneg {row : List Rat} (h : ∀ x ∈ row, 0 ≤ x) (c : Nat) : 0 ≤ row.getD c 0 := by
  rw [List.getD_eq_getElem?_getD]
  cases hc : row[c]? with
  | none => simp
  | some v => simp only [Option.getD_some]; exact h v (List.mem_of_getElem? hc)

/-- with non-negative scores summing to at most 1 the probability of the true class is in [0, 1] -/
theorem tcp_range (it : Item) (h0 : ∀ x ∈ it.row, 0 ≤ x) (h1 : it.row.sum ≤ 1) : 0 ≤ tcp it ∧ tcp it ≤ 1 := by
  unfold tcp
  cases it.y with
  | none =>
    simp only [noneScore]
    have := sum_nonneg' h0
    constructor <;> linarith
  | some c =>
    simp only
    exact ⟨getD_nonneg h0 c, le_trans (getD_le_sum h0 c) h1⟩

/-! ### argmax -/

theorem argmaxAux_spec (xs : List Rat) : ∀ (pre : List Rat) (bi : Nat), bi < pre.length →
    (∀ j, j < pre.length → pre.getD j 0 ≤ pre.getD bi 0) →
    (∀ j, j < bi → pre.getD j 0 < pre.getD bi 0) →
    let r := argmaxAux xs pre.length bi (pre.getD bi 0)
    r < (pre ++ xs).length ∧ (∀ j, j < (pre ++ xs).length → (pre ++ xs).getD j 0 ≤ (pre ++ xs).getD r 0) ∧
      (∀ j, j < r → (pre ++ xs).getD j 0 < (pre ++ xs).getD r 0) := by
  induction xs with
  | nil =>
    intro pre bi hbi hmax hfirst
    simp only [argmaxAux, List.append_nil]
    exact ⟨hbi, hmax, hfirst⟩
  | cons x xs ih =>
    intro pre bi hbi hmax hfirst
    have happ : pre ++ x :: xs = (pre ++ [x]) ++ xs := by simp
    have hlen : (pre ++ [x]).length = pre.length + 1 := by simp
    have hget : ∀ j, j < pre.length → (pre ++ [x]).getD j 0 = pre.getD j 0 := by
      intro j hj; simp [List.getD_eq_getElem?_getD, List.getElem?_append_left hj]
    have hlast : (pre ++ [x]).getD pre.length 0 = x := by
      simp [List.getD_eq_getElem?_getD]
    simp only [argmaxAux]
    rw [happ]
    split
    · rename_i hlt
      have := ih (pre ++ [x]) pre.length (by omega)
        (by intro j hj
            rw [hlast]
            rcases Nat.lt_succ_iff_lt_or_eq.mp (hlen ▸ hj) with h | h
            · rw [hget j h]; exact le_of_lt (lt_of_le_of_lt (hmax j h) hlt)
            · rw [h, hlast])
        (by intro j hj
            rw [hlast, hget j hj]; exact lt_of_le_of_lt (hmax j hj) hlt)
      rw [hlen, hlast] at this
      exact this
    · rename_i hnlt
      have hle : x ≤ pre.getD bi 0 := not_lt.mp hnlt
      have := ih (pre ++ [x]) bi (by omega)
        (by intro j hj
            rw [hget bi hbi]
            rcases Nat.lt_succ_iff_lt_or_eq.mp (hlen ▸ hj) with h | h
            · rw [hget j h]; exact hmax j h
            · rw [h, hlast]; exact hle)
        (by intro j hj
            rw [hget bi hbi, hget j (by omega)]; exact hfirst j hj)
      rw [hlen, hget bi hbi] at this
      exact this

/-- numpy `argmax`: the result is a position of a maximal entry and every earlier entry is strictly smaller -/
theorem argmaxFirst_spec (row : List Rat) (hne : row ≠ []) :
    argmaxFirst row < row.length ∧ (∀ j, j < row.length → row.getD j 0 ≤ row.getD (argmaxFirst row) 0) ∧
      (∀ j, j < argmaxFirst row → row.getD j 0 < row.getD (argmaxFirst row) 0) := by
  cases row with
  | nil => exact absurd rfl hne
  | cons x xs =>
    have := argmaxAux_spec xs [x] 0 (by simp) (by intro j hj; simp at hj; subst hj; simp) (by intro j hj; omega)
    simpa [argmaxFirst] using this


/-! ### top-k -/

/-- the true class itself is never ranked before itself, so at most `length - 1` classes are -/
theorem rankBefore_lt_length (row : List Rat) (c : Nat) (hc : c < row.length) : rankBefore row c < row.length := by
  unfold rankBefore
  have hlen : row.zipIdx.length = row.length := by simp
  rw [← hlen]
  apply lt_of_le_of_ne List.countP_le_length
  intro heq
  rw [List.countP_eq_length] at heq
  have hmem : (row[c], c) ∈ row.zipIdx := by
    rw [List.mem_zipIdx_iff_getElem?]; simp [hc]
  have := heq _ hmem
  have hg : row.getD c 0 = row[c] := by simp [List.getD_eq_getElem?_getD, hc]
  rw [hg] at this
  simp at this

theorem hitK_of_few_classes (k C : Nat) (it : Item) (hrow : it.row.length = C) (hy : trueIdx C it.y ≤ C)
    (hk : C + 1 ≤ k) : hitK k C it = true := by
  unfold hitK
  have hl : (withNone it.row).length = C + 1 := by simp [withNone, hrow]
  have := rankBefore_lt_length (withNone it.row) (trueIdx C it.y) (by omega)
  simp only [decide_eq_true_eq]
  omega

theorem ratio_self {n : Nat} (h : n ≠ 0) : ratio n n = 1 := by
  unfold ratio
  have : (n : Rat) ≠ 0 := by exact_mod_cast h
  exact div_self this

/-! ### the label-keyed mapping -/

theorem dictInsert_new (d : Features) (k : String) (v : Rat) (h : ∀ p ∈ d, p.1 ≠ k) :
    dictInsert d k v = d ++ [(k, v)] := by
  unfold dictInsert
  have : d.any (fun p => p.1 == k) = false := by
    rw [List.any_eq_false]
    intro p hp
    simp [h p hp]
  simp [this]

theorem foldl_dictInsert (fs d : Features) (hn : (fs.map (·.1)).Nodup)
    (hd : ∀ p ∈ d, ∀ q ∈ fs, p.1 ≠ q.1) :
    fs.foldl (fun d p => dictInsert d p.1 p.2) d = d ++ fs := by
  induction fs generalizing d with
  | nil => simp
  | cons f fs ih =>
    simp only [List.map_cons, List.nodup_cons] at hn
    simp only [List.foldl_cons]
    rw [dictInsert_new d f.1 f.2 (fun p hp => hd p hp f (by simp))]
    rw [ih (d ++ [(f.1, f.2)]) hn.2]
    · simp
    · intro p hp q hq
      rcases List.mem_append.mp hp with h | h
      · exact hd p h q (by simp [hq])
      · simp only [List.mem_singleton] at h
        subst h
        intro e
        exact hn.1 (List.mem_map.mpr ⟨q, hq, e.symm⟩)

/-! ### pairing of clips -/

theorem lookupLast_some_mem {α} (k : Nat) (xs : List (Nat × α)) (a : α) (h : lookupLast k xs = some a) :
    (k, a) ∈ xs := by
  unfold lookupLast at h
  cases hf : xs.reverse.find? (fun p => p.1 == k) with
  | none => simp [hf] at h
  | some p =>
    simp only [hf, Option.map_some, Option.some.injEq] at h
    have hm := List.mem_of_find?_eq_some hf
    have hp := List.find?_some hf
    simp only [beq_iff_eq] at hp
    rw [List.mem_reverse] at hm
    rw [← hp, ← h]; exact hm

theorem lookupLast_isSome {α} (k : Nat) (xs : List (Nat × α)) :
    (lookupLast k xs).isSome = (xs.map (·.1)).contains k := by
  unfold lookupLast
  rw [Option.isSome_map, Bool.eq_iff_iff, List.find?_isSome]
  simp only [List.mem_reverse, beq_iff_eq, List.contains_iff_mem, List.mem_map]

theorem nodup_keys_unique {α} {xs : List (Nat × α)} (hn : (xs.map (·.1)).Nodup) {k : Nat} {a b : α}
    (ha : (k, a) ∈ xs) (hb : (k, b) ∈ xs) : a = b := by
  induction xs with
  | nil => simp at ha
  | cons x xs ih =>
    simp only [List.map_cons, List.nodup_cons] at hn
    rcases List.mem_cons.mp ha with h1 | h1 <;> rcases List.mem_cons.mp hb with h2 | h2
    · rw [← h1] at h2; exact (Prod.mk.inj h2).2.symm ▸ rfl
    · exfalso; apply hn.1; rw [← h1]; exact List.mem_map.mpr ⟨(k, b), h2, rfl⟩
    · exfalso; apply hn.1; rw [← h2]; exact List.mem_map.mpr ⟨(k, a), h1, rfl⟩
    · exact ih hn.2 h1 h2

theorem lookupLast_eq_some_iff {α} {xs : List (Nat × α)} (hn : (xs.map (·.1)).Nodup) (k : Nat) (a : α) :
    lookupLast k xs = some a ↔ (k, a) ∈ xs := by
  constructor
  · exact lookupLast_some_mem k xs a
  · intro hm
    cases h : lookupLast k xs with
    | none =>
      have := lookupLast_isSome k xs
      rw [h] at this
      simp only [Option.isSome_none] at this
      have hc : (xs.map (·.1)).contains k = true := by
        rw [List.contains_iff_mem]; exact List.mem_map.mpr ⟨(k, a), hm, rfl⟩
      rw [hc] at this; exact absurd this (by simp)
    | some b =>
      have := lookupLast_some_mem k xs b h
      rw [nodup_keys_unique hn hm this]

theorem lookupLast_perm {α} {xs ys : List (Nat × α)} (h : xs.Perm ys) (hn : (xs.map (·.1)).Nodup) (k : Nat) :
    lookupLast k xs = lookupLast k ys := by
  have hn' : (ys.map (·.1)).Nodup := (h.map _).nodup_iff.mp hn
  apply Option.ext
  intro a
  rw [lookupLast_eq_some_iff hn, lookupLast_eq_some_iff hn', h.mem_iff]

/-! ### the `Except` plumbing of the task drivers -/

theorem mapM_ok_forall₂ {α β ε} (f : α → Except ε β) (l : List α) (r : List β) (h : l.mapM f = .ok r) :
    List.Forall₂ (fun a b => f a = .ok b) l r := by
  induction l generalizing r with
  | nil => simp [List.mapM_nil, pure, Except.pure] at h; subst h; exact List.Forall₂.nil
  | cons a l ih =>
    rw [List.mapM_cons] at h
    cases hfa : f a with
    | error e => simp [hfa, bind, Except.bind] at h
    | ok b =>
      cases hl : l.mapM f with
      | error e => simp [hfa, hl, bind, Except.bind] at h
      | ok bs =>
        simp [hfa, hl, bind, Except.bind, pure, Except.pure] at h
        subst h
        exact List.Forall₂.cons hfa (ih bs hl)

theorem mapM_total {α β ε} (f : α → Except ε β) (g : α → β) (hf : ∀ a, f a = .ok (g a)) (l : List α) :
    l.mapM f = .ok (l.map g) := by
  induction l with
  | nil => simp [List.mapM_nil, pure, Except.pure]
  | cons a l ih => simp [List.mapM_cons, hf a, ih, bind, Except.bind, pure, Except.pure]

/-! ### review additions: the multilabel clip score, monotone ratios, `mapM` over a permuted list -/

theorem clipEps_range (p : Rat) : 0 < clipEps p ∧ clipEps p ≤ 1 := by
  unfold clipEps f32eps
  split
  · constructor <;> norm_num
  · split
    · constructor <;> norm_num
    · constructor <;> linarith

theorem prod_range {xs : List Rat} (h : ∀ x ∈ xs, 0 < x ∧ x ≤ 1) : 0 < prod xs ∧ prod xs ≤ 1 := by
  induction xs with
  | nil => simp [prod]
  | cons x xs ih =>
    have hx := h x (by simp)
    have hr := ih (fun y hy => h y (by simp [hy]))
    simp only [prod]
    constructor
    · exact mul_pos hx.1 hr.1
    · calc x * prod xs ≤ 1 * 1 := mul_le_mul hx.2 hr.2 (le_of_lt hr.1) (by norm_num)
        _ = 1 := by norm_num

theorem mlScore_range (it : MLItem) : 0 < mlScore it ∧ mlScore it ≤ 1 := by
  unfold mlScore
  apply prod_range
  intro x hx
  obtain ⟨p, _, rfl⟩ := List.mem_map.mp hx
  split
  · exact clipEps_range _
  · constructor <;> norm_num

theorem prod_replicate_one (n : Nat) : prod (List.replicate n 1) = 1 := by
  induction n with
  | zero => rfl
  | succ n ih => simp [List.replicate_succ, prod, ih]

theorem ratio_mono {a b : Nat} (n : Nat) (h : a ≤ b) : ratio a n ≤ ratio b n := by
  unfold ratio
  exact div_le_div_of_nonneg_right (by exact_mod_cast h) (Nat.cast_nonneg n)

/-- `mapM` that succeeds is a `map` of a total function on the members -/
theorem mapM_ok_iff {α β ε} [Inhabited β] (f : α → Except ε β) (l : List α) (r : List β) :
    l.mapM f = .ok r ↔ (∀ a ∈ l, ∃ b, f a = .ok b) ∧
      r = l.map (fun a => match f a with | .ok b => b | .error _ => default) := by
  induction l generalizing r with
  | nil => simp [List.mapM_nil, pure, Except.pure, eq_comm]
  | cons a l ih =>
    rw [List.mapM_cons]
    cases hfa : f a with
    | error e =>
      simp only [bind, Except.bind, List.mem_cons, forall_eq_or_imp, hfa]
      constructor
      · intro h; cases h
      · rintro ⟨⟨⟨b, hb⟩, _⟩, _⟩; cases hb
    | ok b =>
      cases hl : l.mapM f with
      | error e =>
        simp only [bind, Except.bind, List.mem_cons, forall_eq_or_imp]
        constructor
        · intro h; cases h
        · rintro ⟨⟨_, hall⟩, _⟩
          have := (ih (l.map (fun a => match f a with | .ok b => b | .error _ => default))).mpr ⟨hall, rfl⟩
          rw [hl] at this; cases this
      | ok bs =>
        have hbs := (ih bs).mp hl
        simp only [bind, Except.bind, pure, Except.pure, Except.ok.injEq, List.mem_cons, forall_eq_or_imp,
          List.map_cons, hfa]
        constructor
        · intro h; subst h
          exact ⟨⟨⟨b, rfl⟩, hbs.1⟩, by rw [← hbs.2]⟩
        · rintro ⟨_, h⟩; rw [h, ← hbs.2]

theorem mapM_ok_perm {α β ε} [Inhabited β] (f : α → Except ε β) {l l' : List α} (hp : l.Perm l') (r : List β)
    (h : l.mapM f = .ok r) : ∃ r', l'.mapM f = .ok r' ∧ r.Perm r' := by
  obtain ⟨hall, hr⟩ := (mapM_ok_iff f l r).mp h
  refine ⟨l'.map (fun a => match f a with | .ok b => b | .error _ => default), ?_, ?_⟩
  · exact (mapM_ok_iff f l' _).mpr ⟨fun a ha => hall a (hp.mem_iff.mpr ha), rfl⟩
  · rw [hr]; exact hp.map _

theorem forall₂_mem_right {α β} {R : α → β → Prop} {l : List α} {r : List β} (h : List.Forall₂ R l r)
    {b : β} (hb : b ∈ r) : ∃ a ∈ l, R a b := by
  induction h with
  | nil => cases hb
  | @cons a b' l l' hab _ ih =>
    rcases List.mem_cons.mp hb with rfl | hb'
    · exact ⟨a, by simp, hab⟩
    · obtain ⟨x, hx, hx'⟩ := ih hb'
      exact ⟨x, by simp [hx], hx'⟩

/-- every result of a successful `mapM` is the result of some member -/
theorem mapM_ok_mem {α β ε} (f : α → Except ε β) (l : List α) (r : List β) (h : l.mapM f = .ok r)
    {b : β} (hb : b ∈ r) : ∃ a ∈ l, f a = .ok b :=
  forall₂_mem_right (mapM_ok_forall₂ f l r h) hb

/-! ### review additions: balanced data -/

theorem sum_range_ite (n t v : Nat) :
    ((List.range n).map (fun c => if t = c then v else 0)).sum = if t < n then v else 0 := by
  induction n with
  | zero => simp
  | succ n ih =>
    rw [List.range_succ, List.map_append, List.sum_append, ih]
    by_cases h1 : t < n
    · have : t ≠ n := by omega
      simp [h1, this]; omega
    · by_cases h2 : t = n
      · subst h2; simp
      · have : ¬ t < n + 1 := by omega
        simp [h1, h2, this]

theorem sum_map_add_nat {α} (l : List α) (f g : α → Nat) :
    (l.map (fun a => f a + g a)).sum = (l.map f).sum + (l.map g).sum := by
  induction l with
  | nil => rfl
  | cons a l ih => simp only [List.map_cons, List.sum_cons, ih]; omega

/-- the classes partition the items: summing a per-class count over all classes counts every
    item (whose class index is in range) once -/
theorem sum_class_counts (C : Nat) (items : List Item) (q : Item → Bool)
    (hb : ∀ it ∈ items, trueIdx C it.y ≤ C) :
    ((List.range (C + 1)).map (fun c => items.countP (fun it => trueIdx C it.y == c && q it))).sum =
      items.countP q := by
  induction items with
  | nil => simp
  | cons a l ih =>
    have ha := hb a (by simp)
    have hl := ih (fun it hit => hb it (by simp [hit]))
    have : ∀ c, (a :: l).countP (fun it => trueIdx C it.y == c && q it) =
        l.countP (fun it => trueIdx C it.y == c && q it) + (if trueIdx C a.y = c then (if q a then 1 else 0) else 0) := by
      intro c
      rw [List.countP_cons]
      by_cases h1 : trueIdx C a.y = c <;> by_cases h2 : q a = true <;> simp [h1, h2]
    simp only [this]
    rw [sum_map_add_nat, hl, sum_range_ite, List.countP_cons]
    have : trueIdx C a.y < C + 1 := by omega
    simp [this]

theorem sum_filter_zero {α} (l : List α) (p : α → Bool) (f : α → Nat) (h : ∀ a ∈ l, p a = false → f a = 0) :
    ((l.filter p).map f).sum = (l.map f).sum := by
  induction l with
  | nil => rfl
  | cons a l ih =>
    have ih' := ih (fun b hb => h b (by simp [hb]))
    by_cases hp : p a = true
    · simp [List.filter_cons, hp, ih']
    · have hp' : p a = false := by simpa using hp
      simp [List.filter_cons, hp', ih', h a (by simp) hp']

theorem cast_sum_map {α} (l : List α) (f : α → Nat) : (((l.map f).sum : Nat) : Rat) = (l.map (fun a => (f a : Rat))).sum := by
  induction l with
  | nil => simp
  | cons a l ih => simp [ih]

theorem countP_zero_of_absent (C : Nat) (items : List Item) (q : Item → Bool) (c : Nat)
    (h : items.any (fun it => trueIdx C it.y == c) = false) :
    items.countP (fun it => trueIdx C it.y == c && q it) = 0 := by
  rw [List.countP_eq_zero]
  intro it hit
  have : (trueIdx C it.y == c) = false := by
    rw [List.any_eq_false] at h
    simpa using h it hit
  simp [this]

/-- "for balanced datasets, the score is equal to accuracy" (the term's definition): when every class
    that occurs in the truth occurs equally often, balanced accuracy is plain accuracy -/
theorem balancedAccuracy_eq_accuracy_of_balanced (C : Nat) (items : List Item) (m : Nat)
    (hb : ∀ it ∈ items, trueIdx C it.y ≤ C)
    (hm : ∀ c ∈ presentClasses C items, items.countP (fun it => trueIdx C it.y == c) = m) :
    balancedAccuracy C items = accuracy C items := by
  -- totals
  have hhit : ((presentClasses C items).map (fun c => items.countP (fun it => trueIdx C it.y == c && correct C it))).sum =
      items.countP (correct C) := by
    unfold presentClasses
    rw [sum_filter_zero _ _ _ (fun c _ hc => countP_zero_of_absent C items _ c hc)]
    exact sum_class_counts C items _ hb
  have hcnt : ((presentClasses C items).map (fun c => items.countP (fun it => trueIdx C it.y == c))).sum =
      items.length := by
    have h1 := sum_class_counts C items (fun _ => true) hb
    simp only [Bool.and_true, List.countP_true] at h1
    unfold presentClasses
    rw [sum_filter_zero _ _ _ (fun c _ hc => by
      have := countP_zero_of_absent C items (fun _ => true) c hc
      simpa using this)]
    exact h1
  have hlen : items.length = m * (presentClasses C items).length := by
    rw [← hcnt]
    have : (presentClasses C items).map (fun c => items.countP (fun it => trueIdx C it.y == c)) =
        (presentClasses C items).map (fun _ => m) := List.map_congr_left hm
    rw [this]; simp [Nat.mul_comm]
  have hrec : (presentClasses C items).map (recallOf C items) =
      (presentClasses C items).map (fun c => ((items.countP (fun it => trueIdx C it.y == c && correct C it) : Nat) : Rat) / (m : Rat)) := by
    apply List.map_congr_left
    intro c hc
    unfold recallOf ratio
    rw [hm c hc]
  unfold balancedAccuracy mean accuracy ratio
  rw [hrec, sum_map_div, ← cast_sum_map, hhit, hlen]
  rw [List.length_map, Nat.cast_mul, div_div]

theorem mapM_total_mem {α β ε} (f : α → Except ε β) (g : α → β) (l : List α) (hf : ∀ a ∈ l, f a = .ok (g a)) :
    l.mapM f = .ok (l.map g) := by
  induction l with
  | nil => simp [List.mapM_nil, pure, Except.pure]
  | cons a l ih =>
    simp [List.mapM_cons, hf a (by simp), ih (fun b hb => hf b (by simp [hb])), bind, Except.bind, pure, Except.pure]

end SE.Metrics
