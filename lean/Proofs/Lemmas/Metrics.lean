/-
  Helper lemmas for C08 / C09 (model: SoundeventModel/Metrics.lean).
-/
import SoundeventModel.Metrics
import Mathlib.Algebra.Order.Field.Rat
import Mathlib.Algebra.Order.Field.Basic
import Mathlib.Algebra.BigOperators.Group.List.Basic
import Mathlib.Tactic.Ring
import Mathlib.Tactic.Linarith
namespace SE.Metrics

/-! ### ratios, sums and means -/

theorem ratio_nonneg (a b : Nat) : 0 ≤ ratio a b := by
  unfold ratio
  exact div_nonneg (Nat.cast_nonneg a) (Nat.cast_nonneg b)

theorem ratio_le_one {a b : Nat} (h : a ≤ b) : ratio a b ≤ 1 := by
  unfold ratio
  rcases Nat.eq_zero_or_pos b with hb | hb
  · subst hb; simp
  · have : (0 : Rat) < b := by exact_mod_cast hb
    rw [div_le_one this]; exact_mod_cast h

theorem sum_nonneg' {xs : List Rat} (h : ∀ x ∈ xs, 0 ≤ x) : 0 ≤ xs.sum := by
  induction xs with
  | nil => simp
  | cons x xs ih =>
    simp only [List.sum_cons]
    have := h x (by simp)
    have := ih (fun y hy => h y (by simp [hy]))
    linarith

theorem sum_le_length {xs : List Rat} (h : ∀ x ∈ xs, x ≤ 1) : xs.sum ≤ (xs.length : Rat) := by
  induction xs with
  | nil => simp
  | cons x xs ih =>
    simp only [List.sum_cons, List.length_cons, Nat.cast_add, Nat.cast_one]
    have := h x (by simp)
    have := ih (fun y hy => h y (by simp [hy]))
    linarith

theorem mean_perm {xs ys : List Rat} (h : xs.Perm ys) : mean xs = mean ys := by
  unfold mean; rw [h.sum_eq, h.length_eq]

theorem mean_range {xs : List Rat} (h : ∀ x ∈ xs, 0 ≤ x ∧ x ≤ 1) : 0 ≤ mean xs ∧ mean xs ≤ 1 := by
  unfold mean
  constructor
  · exact div_nonneg (sum_nonneg' (fun x hx => (h x hx).1)) (Nat.cast_nonneg _)
  · rcases Nat.eq_zero_or_pos xs.length with h0 | hp
    · rw [h0]; simp
    · have : (0 : Rat) < xs.length := by exact_mod_cast hp
      rw [div_le_one this]
      exact sum_le_length (fun x hx => (h x hx).2)

/-! ### permutation invariance of the count-based metrics -/

theorem any_perm {α} {xs ys : List α} (p : α → Bool) (h : xs.Perm ys) : xs.any p = ys.any p := by
  rw [Bool.eq_iff_iff]; simp only [List.any_eq_true]
  constructor
  · rintro ⟨a, ha, hp⟩; exact ⟨a, h.mem_iff.mp ha, hp⟩
  · rintro ⟨a, ha, hp⟩; exact ⟨a, h.mem_iff.mpr ha, hp⟩

theorem accuracy_perm (C : Nat) {xs ys : List Item} (h : xs.Perm ys) : accuracy C xs = accuracy C ys := by
  unfold accuracy; rw [h.countP_eq, h.length_eq]

theorem topK_perm (k C : Nat) {xs ys : List Item} (h : xs.Perm ys) : topK k C xs = topK k C ys := by
  unfold topK; rw [h.countP_eq, h.length_eq]

theorem recallOf_perm (C : Nat) {xs ys : List Item} (h : xs.Perm ys) (c : Nat) :
    recallOf C xs c = recallOf C ys c := by
  unfold recallOf; rw [h.countP_eq, h.countP_eq]

theorem presentClasses_perm (C : Nat) {xs ys : List Item} (h : xs.Perm ys) :
    presentClasses C xs = presentClasses C ys := by
  unfold presentClasses
  congr 1; funext c; exact any_perm _ h

theorem balancedAccuracy_perm (C : Nat) {xs ys : List Item} (h : xs.Perm ys) :
    balancedAccuracy C xs = balancedAccuracy C ys := by
  unfold balancedAccuracy
  rw [presentClasses_perm C h]
  congr 2; funext c; exact recallOf_perm C h c

/-! ### ranges of the count-based metrics -/

theorem accuracy_range (C : Nat) (xs : List Item) : 0 ≤ accuracy C xs ∧ accuracy C xs ≤ 1 :=
  ⟨ratio_nonneg _ _, ratio_le_one List.countP_le_length⟩

theorem topK_range (k C : Nat) (xs : List Item) : 0 ≤ topK k C xs ∧ topK k C xs ≤ 1 :=
  ⟨ratio_nonneg _ _, ratio_le_one List.countP_le_length⟩

theorem recallOf_range (C : Nat) (xs : List Item) (c : Nat) : 0 ≤ recallOf C xs c ∧ recallOf C xs c ≤ 1 := by
  refine ⟨ratio_nonneg _ _, ratio_le_one ?_⟩
  apply List.countP_mono_left
  intro x _ hx
  simp only [Bool.and_eq_true] at hx
  exact hx.1

theorem balancedAccuracy_range (C : Nat) (xs : List Item) :
    0 ≤ balancedAccuracy C xs ∧ balancedAccuracy C xs ≤ 1 := by
  unfold balancedAccuracy
  apply mean_range
  intro x hx
  simp only [List.mem_map] at hx
  obtain ⟨c, _, rfl⟩ := hx
  exact recallOf_range C xs c

/-! ### average precision -/

theorem precisionAt_perm {xs ys : Labelled} (h : xs.Perm ys) (t : Rat) : precisionAt xs t = precisionAt ys t := by
  unfold precisionAt; rw [h.countP_eq, h.countP_eq]

theorem precisionAt_range (xs : Labelled) (t : Rat) : 0 ≤ precisionAt xs t ∧ precisionAt xs t ≤ 1 := by
  refine ⟨ratio_nonneg _ _, ratio_le_one ?_⟩
  apply List.countP_mono_left
  intro x _ hx
  simp only [Bool.and_eq_true] at hx
  exact hx.2

theorem numPos_perm {xs ys : Labelled} (h : xs.Perm ys) : numPos xs = numPos ys := by
  unfold numPos; exact h.countP_eq _

theorem apMeanPrecision_perm {xs ys : Labelled} (h : xs.Perm ys) : apMeanPrecision xs = apMeanPrecision ys := by
  unfold apMeanPrecision
  rw [numPos_perm h]
  have hf : (fun x : Bool × Rat => precisionAt xs x.2) = (fun x => precisionAt ys x.2) := by
    funext x; exact precisionAt_perm h x.2
  rw [hf, ((h.filter _).map _).sum_eq]

theorem numPos_eq_length_filter (xs : Labelled) : numPos xs = (xs.filter (·.1)).length := by
  unfold numPos; rw [List.countP_eq_length_filter]

theorem apMeanPrecision_range (xs : Labelled) : 0 ≤ apMeanPrecision xs ∧ apMeanPrecision xs ≤ 1 := by
  unfold apMeanPrecision
  split
  · exact ⟨le_refl _, by norm_num⟩
  · have hm : ((xs.filter (·.1)).map (fun x => precisionAt xs x.2)).length = numPos xs := by
      rw [List.length_map, numPos_eq_length_filter]
    have := mean_range (xs := (xs.filter (·.1)).map (fun x => precisionAt xs x.2))
      (by intro v hv
          simp only [List.mem_map] at hv
          obtain ⟨x, _, rfl⟩ := hv
          exact precisionAt_range xs x.2)
    unfold mean at this
    rwa [hm] at this

/-- `distinct` keeps exactly the members -/
theorem mem_distinct {l : List Rat} {a : Rat} : a ∈ distinct l ↔ a ∈ l := by
  induction l with
  | nil => simp [distinct]
  | cons x xs ih =>
    simp only [distinct, List.mem_cons, List.mem_filter, bne_iff_ne, ne_eq]
    constructor
    · rintro (h | ⟨h, _⟩)
      · exact Or.inl h
      · exact Or.inr (ih.mp h)
    · rintro (h | h)
      · exact Or.inl h
      · by_cases hx : a = x
        · exact Or.inl hx
        · exact Or.inr ⟨ih.mpr h, hx⟩

theorem nodup_distinct (l : List Rat) : (distinct l).Nodup := by
  induction l with
  | nil => simp [distinct]
  | cons x xs ih =>
    simp only [distinct, List.nodup_cons, List.mem_filter, bne_iff_ne, ne_eq, not_and, not_not]
    exact ⟨fun _ => trivial, ih.filter _⟩

/-- a sum over a duplicate-free list of keys picks out the term of the one key that matches -/
theorem sum_indicator (ks : List Rat) (hn : ks.Nodup) (a : Rat) (ha : a ∈ ks) (g : Rat → Rat) :
    (ks.map (fun t => if t = a then g t else 0)).sum = g a := by
  induction ks with
  | nil => simp at ha
  | cons k ks ih =>
    rw [List.nodup_cons] at hn
    simp only [List.map_cons, List.sum_cons]
    by_cases hk : k = a
    · subst hk
      have hz : (ks.map (fun t => if t = k then g t else 0)).sum = 0 := by
        apply List.sum_eq_zero
        intro v hv
        simp only [List.mem_map] at hv
        obtain ⟨t, ht, rfl⟩ := hv
        have : t ≠ k := fun e => hn.1 (e ▸ ht)
        simp [this]
      simp [hz]
    · have : a ∈ ks := by
        rcases List.mem_cons.mp ha with h | h
        · exact absurd h.symm hk
        · exact h
      simp [hk, ih hn.2 this]

theorem sum_map_div {α} (l : List α) (g : α → Rat) (c : Rat) :
    (l.map (fun t => g t / c)).sum = (l.map g).sum / c := by
  induction l with
  | nil => simp
  | cons a l ih => simp only [List.map_cons, List.sum_cons, ih]; ring

/-- positives scored exactly `t` -/
def posEq (xs : Labelled) (t : Rat) : Nat := xs.countP (fun x => x.1 && decide (x.2 = t))

theorem posGe_split (xs : Labelled) (t : Rat) :
    xs.countP (fun x => x.1 && decide (t ≤ x.2)) =
      xs.countP (fun x => x.1 && decide (t < x.2)) + posEq xs t := by
  unfold posEq
  induction xs with
  | nil => simp
  | cons x xs ih =>
    simp only [List.countP_cons, ih]
    rcases lt_trichotomy t x.2 with h | h | h
    · have h1 : t ≤ x.2 := le_of_lt h
      have h2 : x.2 ≠ t := ne_of_gt h
      cases x.1 <;> simp [h, h1, h2] <;> omega
    · have h1 : t ≤ x.2 := le_of_eq h
      have h2 : ¬ t < x.2 := by rw [h]; exact lt_irrefl _
      cases x.1 <;> simp [h1, h2, h.symm] <;> omega
    · have h1 : ¬ t ≤ x.2 := not_le.mpr h
      have h2 : ¬ t < x.2 := fun h' => absurd (lt_trans h h') (lt_irrefl _)
      have h3 : x.2 ≠ t := ne_of_lt h
      cases x.1 <;> simp [h1, h2, h3]

/-- regrouping: a sum over the positive examples is a sum over the distinct scores, each
    weighted by the number of positives scored exactly that -/
theorem sum_by_threshold (xs : Labelled) (ks : List Rat) (hn : ks.Nodup)
    (hk : ∀ x ∈ xs, x.2 ∈ ks) (f : Rat → Rat) :
    (ks.map (fun t => (posEq xs t : Rat) * f t)).sum = ((xs.filter (·.1)).map (fun x => f x.2)).sum := by
  induction xs with
  | nil => simp [posEq]
  | cons x xs ih =>
    have ih' := ih (fun y hy => hk y (by simp [hy]))
    have hx : x.2 ∈ ks := hk x (by simp)
    have hsplit : ∀ t, (posEq (x :: xs) t : Rat) * f t =
        (posEq xs t : Rat) * f t + (if t = x.2 then (if x.1 then f t else 0) else 0) := by
      intro t
      unfold posEq
      simp only [List.countP_cons]
      by_cases ht : t = x.2
      · subst ht; cases x.1 <;> simp <;> ring
      · have : x.2 ≠ t := fun e => ht e.symm
        simp [ht, this]
    have : (ks.map (fun t => (posEq (x :: xs) t : Rat) * f t)).sum =
        (ks.map (fun t => (posEq xs t : Rat) * f t)).sum +
        (ks.map (fun t => if t = x.2 then (if x.1 then f t else 0) else 0)).sum := by
      rw [← List.sum_map_add]
      congr 1
      apply List.map_congr_left
      intro t _; exact hsplit t
    rw [this, ih', sum_indicator ks hn x.2 hx (fun t => if x.1 then f t else 0)]
    cases h1 : x.1 <;> simp [List.filter_cons, h1]
    ring

/-- the step integral of the precision-recall curve is the mean, over the positive examples,
    of the precision at their own score -/
theorem averagePrecision_eq_mean_precision (xs : Labelled) : averagePrecision xs = apMeanPrecision xs := by
  unfold averagePrecision apMeanPrecision
  split
  · rfl
  · rename_i hP
    have hP' : (numPos xs : Rat) ≠ 0 := by exact_mod_cast hP
    have hstep : ∀ t, (recallAt xs t - recallAbove xs t) * precisionAt xs t =
        ((posEq xs t : Rat) * precisionAt xs t) / (numPos xs : Rat) := by
      intro t
      unfold recallAt recallAbove ratio
      rw [posGe_split xs t]
      push_cast
      ring
    have : ((thresholds xs).map (fun t => (recallAt xs t - recallAbove xs t) * precisionAt xs t)).sum =
        ((thresholds xs).map (fun t => (posEq xs t : Rat) * precisionAt xs t)).sum / (numPos xs : Rat) := by
      rw [← sum_map_div]
      congr 1
      apply List.map_congr_left
      intro t _; exact hstep t
    rw [this]
    congr 1
    apply sum_by_threshold xs (thresholds xs) (nodup_distinct _)
    intro x hx
    unfold thresholds
    exact mem_distinct.mpr (List.mem_map_of_mem hx)

theorem averagePrecision_perm {xs ys : Labelled} (h : xs.Perm ys) : averagePrecision xs = averagePrecision ys := by
  rw [averagePrecision_eq_mean_precision, averagePrecision_eq_mean_precision, apMeanPrecision_perm h]

theorem averagePrecision_range (xs : Labelled) : 0 ≤ averagePrecision xs ∧ averagePrecision xs ≤ 1 := by
  rw [averagePrecision_eq_mean_precision]; exact apMeanPrecision_range xs

end SE.Metrics
