/-
  Helper lemmas for the tag side of C09 (`SoundeventModel/MetricsTags.lean`).
-/
import SoundeventModel.MetricsTags
import Proofs.C19
namespace SE.Proofs.Lemmas.MetricsTags
open SE SE.Metrics SE.Encoding
open SE.Detection (encTags encPredTags)

/-- `multilabel_encoding` (an int32 indicator vector) read as booleans is the truth row of the
    multilabel items -/
theorem multiEnc_encTags (vocab ts : List Tag) :
    multiEnc vocab.length (encTags vocab ts) = (multilabelEncoding vocab ts).map (fun n => n != 0) := by
  apply List.ext_getElem?
  intro i
  by_cases hi : i < vocab.length
  · have h1 := SE.Proofs.C19.C19_indicator_general vocab ts i hi
    simp only [multiEnc, encTags, List.getElem?_map, List.getElem?_range hi, Option.map_some, h1]
    by_cases hex : ∃ t ∈ ts, encode vocab t = some i
    · obtain ⟨t, ht, he⟩ := hex
      have hc : (List.map (encode vocab) ts).contains (some i) = true := by
        simp only [List.contains_eq_mem, List.mem_map, decide_eq_true_eq]
        exact ⟨t, ht, he⟩
      have hex' : ∃ t ∈ ts, encode vocab t = some i := ⟨t, ht, he⟩
      rw [hc]; simp [hex']
    · have hc : (List.map (encode vocab) ts).contains (some i) = false := by
        simp only [List.contains_eq_mem, List.mem_map, decide_eq_false_iff_not]
        exact hex
      rw [hc]; simp [hex]
  · have h1 : (multiEnc vocab.length (encTags vocab ts)).length = vocab.length := by simp [multiEnc]
    have h2 := SE.Proofs.C19.C19_multilabel_length vocab ts
    simp only [numClasses] at h2
    rw [List.getElem?_eq_none (by omega), List.getElem?_eq_none (by simp; omega)]

/-- pairing of clips does not look at the tags: encoding the clips first or pairing them first is the same -/
theorem pairClips_encClips {α β α' β'} (f : α → α') (g : β → β') (preds : List (Nat × α)) (anns : List (Nat × β)) :
    pairClips (encClips f preds) (encClips g anns) = (pairClips preds anns).map (fun x => (x.1, g x.2.1, f x.2.2)) := by
  have hl : ∀ k, lookupLast k (anns.map (fun x => (x.1, g x.2))) = (lookupLast k anns).map g := by
    intro k
    simp only [lookupLast, ← List.map_reverse, List.find?_map, Option.map_map]
    rfl
  simp only [pairClips, encClips, List.filterMap_map, List.map_filterMap]
  congr 1
  funext p
  simp only [Function.comp, hl, Option.map_map]
  cases lookupLast p.1 anns <;> rfl

end SE.Proofs.Lemmas.MetricsTags
