/-
  C02 — refinement of the operational save path: `DataAdapter.to_aoef` (`viaStore`), list and
  option conversions, and the tag adapter.
-/
import Proofs.Lemmas.AoefOpSaveSpec
namespace SE.Aoef
open SE.Paths

/-! ### viaStore: unfolding -/
section via
variable {ω : Type} {get : SaveSt → List (Atom × ω)} {set : SaveSt → List (Atom × ω) → SaveSt}
  {id : Atom} {asm : Op ω} {st : SaveSt}

theorem viaStore_hit {o : ω} (h : (get st).lookup id = some o) :
    viaStore get set id asm st = .ok (o, st) := by
  simp only [viaStore, h]

theorem viaStore_miss_ok {o : ω} {st1 : SaveSt} (h : (get st).lookup id = none)
    (h2 : asm st = .ok (o, st1)) :
    viaStore get set id asm st = .ok (o, set st1 (dictPut (get st1) id o)) := by
  simp only [viaStore, h, h2]

theorem viaStore_miss_err {e : Err} (h : (get st).lookup id = none) (h2 : asm st = .error e) :
    viaStore get set id asm st = .error e := by
  simp only [viaStore, h, h2]
end via

/-- what has to be known about one adapter table: how it is read from and written to the
    predicted state -/
structure TabOK (T : List Tag) (dir : Option PPath) {κ ω : Type}
    (get : SaveSt → List (Atom × ω)) (set : SaveSt → List (Atom × ω) → SaveSt)
    (sel : Obj → Option κ) (inj : κ → Obj) (key : κ → Atom) (enc : κ → ω) : Prop where
  sel_inj : ∀ x, sel (inj x) = some x
  inj_sel : ∀ o x, sel o = some x → o = inj x
  okey : ∀ x y, key x = key y → objKey (inj x) = objKey (inj y)
  get_mk : ∀ os, get (mkSt T dir os) = tbl key enc (os.filterMap sel)
  set_mk : ∀ os x, key x ∉ (os.filterMap sel).map key →
    set (mkSt T dir os) (get (mkSt T dir os) ++ [(key x, enc x)]) = mkSt T dir (os ++ [inj x])

/-- **`DataAdapter.to_aoef`.**  `sub` is the traversal of what `assemble_aoef` converts.  When the
    id is already stored, the object is in the prefix (coherence), everything it refers to is in
    the prefix (closure), and skipping the assembly leaves exactly the predicted state. -/
theorem viaStore_spec {T : List Tag} {dir : Option PPath} {κ ω : Type}
    {get : SaveSt → List (Atom × ω)} {set : SaveSt → List (Atom × ω) → SaveSt}
    {sel : Obj → Option κ} {inj : κ → Obj} {key : κ → Atom} {enc : κ → ω}
    (tb : TabOK T dir get set sel inj key enc) (x : κ) (sub : List Obj) (asm : Op ω) (P : Prop)
    {os : List Obj}
    (hpre : Pre T dir os (sub ++ [inj x]))
    (hsubcl : inj x ∈ os → ∀ o ∈ sub, o ∈ os)
    (hno : ∀ o ∈ sub, ∀ y, sel o = some y → key y ≠ key x)
    (hP : P ↔ PathsOK dir (sub ++ [inj x]))
    (hasm : Pre T dir os sub → SpecP T dir asm os sub P (enc x)) :
    Spec T dir (viaStore get set (key x) asm) os (sub ++ [inj x]) (enc x) := by
  cases hl : (get (mkSt T dir os)).lookup (key x) with
  | some o =>
    -- already stored: the stored object is `x` itself
    have hl' := hl
    rw [tb.get_mk, tbl] at hl'
    rcases lookup_kv_some key enc _ _ _ hl' with ⟨y, hy, hk, ho⟩
    have hy' := dedupBy_subset key hy
    rcases List.mem_filterMap.1 hy' with ⟨o', ho', hs⟩
    have hinj : inj y ∈ os := tb.inj_sel o' y hs ▸ ho'
    have heq : inj y = inj x :=
      hpre.coh (inj y) (by simp [hinj]) (inj x) (by simp) (tb.okey y x hk)
    have hyx : y = x := by
      have := congrArg sel heq
      rw [tb.sel_inj, tb.sel_inj] at this
      exact Option.some.inj this
    subst hyx
    have hall : ∀ o ∈ sub ++ [inj y], o ∈ os := by
      intro o ho
      rcases List.mem_append.1 ho with h | h
      · exact hsubcl hinj o h
      · have : o = inj y := by simpa using h
        exact this ▸ hinj
    have hok : PathsOK dir (sub ++ [inj y]) := pathsOK_of_subset hpre.ok hall
    constructor
    · intro _
      rw [viaStore_hit hl, mkSt_absorb T dir os _ hall, ho]
    · intro hn; exact absurd hok hn
  | none =>
    have hl' := hl
    rw [tb.get_mk, tbl] at hl'
    have hk0 : key x ∉ (os.filterMap sel).map key := by
      have := lookup_kv_none_iff key enc _ _ hl'
      exact fun h => this ((dedupBy_keys_mem key).2 h)
    have s := hasm hpre.left
    constructor
    · intro hok
      have hp := hP.2 hok
      have hk1 : key x ∉ ((os ++ sub).filterMap sel).map key := by
        rw [List.filterMap_append, List.map_append, List.mem_append]
        rintro (h | h)
        · exact hk0 h
        · rcases List.mem_map.1 h with ⟨y, hy, hky⟩
          rcases List.mem_filterMap.1 hy with ⟨o, ho, hs⟩
          exact hno o ho y hs hky
      have hl1 : (get (mkSt T dir (os ++ sub))).lookup (key x) = none := by
        rw [tb.get_mk, tbl]
        exact lookup_kv_none key enc _ _ (fun h => hk1 ((dedupBy_keys_mem key).1 h))
      rw [viaStore_miss_ok hl (s.1 hp), dictPut_miss _ _ _ hl1, tb.set_mk _ _ hk1,
        List.append_assoc]
    · intro hn
      have hp : ¬ P := fun hp => hn (hP.1 hp)
      rw [viaStore_miss_err hl (s.2 hp)]

/-! ### lists and options -/
section lists
variable {T : List Tag} {dir : Option PPath} {α β : Type}

theorem opList_spec (f : α → Op β) (all : α → List Obj) (enc : α → β) (xs : List α)
    (hcl : ∀ x ∈ xs, ClosedL (all x))
    (hf : ∀ x ∈ xs, ∀ os, Pre T dir os (all x) → Spec T dir (f x) os (all x) (enc x)) :
    ∀ os, Pre T dir os (xs.flatMap all) → Spec T dir (opList f xs) os (xs.flatMap all) (xs.map enc) := by
  induction xs with
  | nil =>
    intro os _
    exact (SpecP.pure os []).congr (by simp [PathsOK])
  | cons x xs ih =>
    intro os hpre
    rw [List.flatMap_cons] at hpre ⊢
    have ih' := ih (fun y hy => hcl y (by simp [hy])) (fun y hy => hf y (by simp [hy]))
    have := SpecP.bind (T := T) (dir := dir) (m := f x)
      (f := fun y => opList f xs >>= fun ys => Pure.pure (y :: ys)) (b := enc x :: xs.map enc)
      hpre (hcl x (by simp)) id (hf x (by simp) os)
      (fun _ hp => (ih' _ hp).map)
    exact this.congr pathsOK_append

/-- the traversal of an optional reference -/
def optAll {α : Type} (all : α → List Obj) : Option α → List Obj
  | none => []
  | some x => all x

theorem opOpt_spec (f : α → Op β) (all : α → List Obj) (enc : α → β) (x : Option α)
    (hf : ∀ y, x = some y → ∀ os, Pre T dir os (all y) → Spec T dir (f y) os (all y) (enc y)) :
    ∀ os, Pre T dir os (optAll all x) → Spec T dir (opOpt f x) os (optAll all x) (x.map enc) := by
  cases x with
  | none =>
    intro os _
    exact (SpecP.pure os none).congr (by simp [PathsOK, optAll])
  | some y =>
    intro os hpre
    exact (hf y rfl os hpre).map

theorem closedL_optAll {all : α → List Obj} {x : Option α} (h : ∀ y, x = some y → ClosedL (all y)) :
    ClosedL (optAll all x) := by
  cases x with
  | none => exact closedL_nil
  | some y => exact h y rfl

end lists

end SE.Aoef
