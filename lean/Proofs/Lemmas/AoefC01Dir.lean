/-
  C01 — saving under an audio directory that does not contain every reachable recording fails as a
  whole, so the n-cycle statement with a directory is an equivalence (helper lemmas for
  `Proofs/C01.lean`; the C18 file proves the same failure for its own statements).
-/
import Proofs.Lemmas.AoefClosure
import Proofs.Lemmas.AoefRoundtrip
namespace SE.Aoef
open SE.Paths

/-- a reachable recording outside the audio directory makes `save` fail (`ValueError`) -/
theorem save_outside_invalid {c : Collection} {A : PPath} {r : Recording}
    (hc : CoherentBy (·.uuid) (recsOf c.trav)) (hr : r ∈ recsOf c.trav) (hout : ¬ inside r.path A) :
    save c (some A) = .error .invalid := by
  apply save_error
  apply mapM_error_of_exists
  · intro x _ e he
    exact (relativeTo_error _ _ _ (encRecording_error he)).1
  · exact ⟨r, (recSrc_iff_of_coherent hc).2 hr, .invalid,
      encRecording_of_error (relativeTo_not_inside _ _ hout)⟩

/-- a failing first save is the result of any positive number of cycles -/
theorem cycles_succ_of_save_error {c : Collection} {sd ld : Option PPath} {e : Err}
    (hs : save c sd = .error e) (n : Nat) : cycles sd ld (n + 1) c = .error e := by
  simp only [cycles, hs, bind, Except.bind]

/-- every relative path lies inside the relative directory without parts (`Path(".")`, `Path("")`) -/
theorem inside_dot {p : PPath} (h : p.root = "") : inside p ⟨"", []⟩ :=
  ⟨h, List.nil_prefix⟩

end SE.Aoef
