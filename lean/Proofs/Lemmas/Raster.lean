/- helper lemmas for C20: half-integer centres, cells of a burnt raster, bin lookup on sorted axes -/
import SoundeventModel.Raster
import Proofs.Lemmas.Axis
namespace SE.Raster
open SE SE.Axis

/-! ### integer corners against half-integer centres -/

theorem natCast_le_add_half (n i : Nat) : (n : Rat) ≤ (i : Rat) + 1 / 2 ↔ n ≤ i := by
  constructor
  · intro h
    by_cases hle : n ≤ i
    · exact hle
    · have : i + 1 ≤ n := by omega
      have : ((i + 1 : Nat) : Rat) ≤ (n : Rat) := Rat.natCast_le_natCast.mpr this
      simp at this; grind
  · intro h
    have : (n : Rat) ≤ (i : Rat) := Rat.natCast_le_natCast.mpr h
    grind

theorem add_half_le_natCast (n i : Nat) : (i : Rat) + 1 / 2 ≤ (n : Rat) ↔ i < n := by
  constructor
  · intro h
    by_cases hlt : i < n
    · exact hlt
    · have : n ≤ i := by omega
      have : (n : Rat) ≤ (i : Rat) := Rat.natCast_le_natCast.mpr this
      grind
  · intro h
    have : ((i + 1 : Nat) : Rat) ≤ (n : Rat) := Rat.natCast_le_natCast.mpr h
    simp at this; grind

/-! ### cells of a raster -/

/-- the cell `(i, j)` of a grid (`none` outside it) -/
def cell (g : Grid) (i j : Nat) : Option Rat := (g[i]?).bind (fun row => row[j]?)

theorem cell_burn (g : Grid) (b : IBox) (i j : Nat) :
    cell (burn g b) i j = (cell g i j).map (fun old => if covered b i j then b.val else old) := by
  simp only [cell, burn, List.getElem?_mapIdx]
  cases g[i]? with
  | none => rfl
  | some row =>
    simp only [Option.map_some, Option.bind_some, List.getElem?_mapIdx]

theorem cell_foldl_burn (g : Grid) (boxes : List IBox) (i j : Nat) :
    cell (boxes.foldl burn g) i j =
      (cell g i j).map (fun v0 => boxes.foldl (fun v b => if covered b i j then b.val else v) v0) := by
  induction boxes generalizing g with
  | nil => simp
  | cons b bs ih =>
    simp only [List.foldl_cons, ih, cell_burn]
    cases cell g i j <;> simp

theorem cell_replicate (nx ny : Nat) (fill : Rat) (i j : Nat) (hi : i < nx) (hj : j < ny) :
    cell (List.replicate nx (List.replicate ny fill)) i j = some fill := by
  simp [cell, hi, hj]

/-- folding "overwrite when covered" = the value of the last covering box, else the start value -/
theorem foldl_overwrite (boxes : List IBox) (i j : Nat) (v0 : Rat) :
    boxes.foldl (fun v b => if covered b i j then b.val else v) v0 =
      match boxes.reverse.find? (fun b => covered b i j) with
      | some b => b.val
      | none => v0 := by
  induction boxes generalizing v0 with
  | nil => rfl
  | cons b bs ih =>
    simp only [List.foldl_cons, ih, List.reverse_cons, List.find?_append]
    cases bs.reverse.find? (fun b => covered b i j) with
    | some b' => simp
    | none =>
      by_cases hc : covered b i j = true <;> simp [hc]

theorem burn_shape (g : Grid) (b : IBox) (nx ny : Nat) (h1 : g.length = nx) (h2 : ∀ row ∈ g, row.length = ny) :
    (burn g b).length = nx ∧ ∀ row ∈ burn g b, row.length = ny := by
  refine ⟨by simp [burn, h1], ?_⟩
  intro row hrow
  simp only [burn, List.mem_mapIdx] at hrow
  obtain ⟨i, hi, rfl⟩ := hrow
  simp [h2 _ (List.getElem_mem hi)]

theorem rasterBoxes_shape (nx ny : Nat) (boxes : List IBox) (fill : Rat) :
    (rasterBoxes nx ny boxes fill).length = nx ∧ ∀ row ∈ rasterBoxes nx ny boxes fill, row.length = ny := by
  unfold rasterBoxes
  have h0 : (List.replicate nx (List.replicate ny fill)).length = nx ∧
      ∀ row ∈ List.replicate nx (List.replicate ny fill), row.length = ny := by
    refine ⟨by simp, ?_⟩
    intro row hrow
    rw [List.eq_of_mem_replicate hrow]; simp
  generalize List.replicate nx (List.replicate ny fill) = g at h0
  induction boxes generalizing g with
  | nil => simpa using h0
  | cons b bs ih =>
    simp only [List.foldl_cons]
    exact ih _ (burn_shape g b nx ny h0.1 h0.2)


/-! ### masks: the general rasteriser -/

/-- a grid of `nx` rows of `ny` cells -/
def Shaped (g : Grid) (nx ny : Nat) : Prop := g.length = nx ∧ ∀ row ∈ g, row.length = ny

theorem burn_eq_burnMask (g : Grid) (b : IBox) : burn g b = burnMask (covered b) b.val g := rfl

theorem cell_burnMask (g : Grid) (m : Mask) (v : Rat) (i j : Nat) :
    cell (burnMask m v g) i j = (cell g i j).map (fun old => if m i j then v else old) := by
  simp only [cell, burnMask, List.getElem?_mapIdx]
  cases g[i]? with
  | none => rfl
  | some row =>
    simp only [Option.map_some, Option.bind_some, List.getElem?_mapIdx]

theorem cell_foldl_burnMask (g : Grid) (shapes : List (Mask × Rat)) (i j : Nat) :
    cell (shapes.foldl (fun g p => burnMask p.1 p.2 g) g) i j =
      (cell g i j).map (fun v0 => shapes.foldl (fun v p => if p.1 i j then p.2 else v) v0) := by
  induction shapes generalizing g with
  | nil => simp
  | cons b bs ih =>
    simp only [List.foldl_cons, ih, cell_burnMask]
    cases cell g i j <;> simp

theorem foldl_overwrite_mask (shapes : List (Mask × Rat)) (i j : Nat) (v0 : Rat) :
    shapes.foldl (fun v p => if p.1 i j then p.2 else v) v0 =
      match shapes.reverse.find? (fun p => p.1 i j) with
      | some p => p.2
      | none => v0 := by
  induction shapes generalizing v0 with
  | nil => rfl
  | cons b bs ih =>
    simp only [List.foldl_cons, ih, List.reverse_cons, List.find?_append]
    cases bs.reverse.find? (fun p => p.1 i j) with
    | some b' => simp
    | none =>
      by_cases hc : b.1 i j = true <;> simp [hc]

theorem burnMask_shaped (g : Grid) (m : Mask) (v : Rat) (nx ny : Nat) (h : Shaped g nx ny) :
    Shaped (burnMask m v g) nx ny := by
  refine ⟨by simp [burnMask, h.1], ?_⟩
  intro row hrow
  simp only [burnMask, List.mem_mapIdx] at hrow
  obtain ⟨i, hi, rfl⟩ := hrow
  simp [h.2 _ (List.getElem_mem hi)]

theorem replicate_shaped (nx ny : Nat) (fill : Rat) : Shaped (List.replicate nx (List.replicate ny fill)) nx ny := by
  refine ⟨by simp, ?_⟩
  intro row hrow
  rw [List.eq_of_mem_replicate hrow]; simp

theorem foldl_burnMask_shaped (shapes : List (Mask × Rat)) (g : Grid) (nx ny : Nat) (h : Shaped g nx ny) :
    Shaped (shapes.foldl (fun g p => burnMask p.1 p.2 g) g) nx ny := by
  induction shapes generalizing g with
  | nil => simpa using h
  | cons b bs ih =>
    simp only [List.foldl_cons]
    exact ih _ (burnMask_shaped g b.1 b.2 nx ny h)

theorem rasterMasks_shaped (nx ny : Nat) (shapes : List (Mask × Rat)) (fill : Rat) :
    Shaped (rasterMasks nx ny shapes fill) nx ny :=
  foldl_burnMask_shaped shapes _ nx ny (replicate_shaped nx ny fill)

/-- masks that agree on the cells of the raster burn the same raster -/
theorem burnMask_congr (g : Grid) (m m' : Mask) (v : Rat) (nx ny : Nat) (hg : Shaped g nx ny)
    (h : ∀ i j, i < nx → j < ny → m i j = m' i j) : burnMask m v g = burnMask m' v g := by
  apply List.ext_getElem?
  intro i
  simp only [burnMask, List.getElem?_mapIdx]
  cases hgi : g[i]? with
  | none => rfl
  | some row =>
    simp only [Option.map_some, Option.some.injEq]
    have hi : i < g.length := by
      rcases Nat.lt_or_ge i g.length with h1 | h1
      · exact h1
      · rw [List.getElem?_eq_none h1] at hgi; cases hgi
    have hrow : row ∈ g := List.mem_of_getElem? hgi
    apply List.ext_getElem?
    intro j
    simp only [List.getElem?_mapIdx]
    cases hrj : row[j]? with
    | none => rfl
    | some old =>
      have hj : j < row.length := by
        rcases Nat.lt_or_ge j row.length with h1 | h1
        · exact h1
        · rw [List.getElem?_eq_none h1] at hrj; cases hrj
      simp only [Option.map_some, Option.some.injEq]
      rw [h i j (hg.1 ▸ hi) (hg.2 row hrow ▸ hj)]

theorem cell_rasterMasks (nx ny : Nat) (shapes : List (Mask × Rat)) (fill : Rat) (i j : Nat)
    (hi : i < nx) (hj : j < ny) :
    cell (rasterMasks nx ny shapes fill) i j =
      some (match shapes.reverse.find? (fun p => p.1 i j) with
            | some p => p.2
            | none => fill) := by
  simp only [rasterMasks, cell_foldl_burnMask, cell_replicate nx ny fill i j hi hj, Option.map_some,
    foldl_overwrite_mask]

/-- the image of a box-like geometry is the ring shapely's `box` makes of its index-space box -/
theorem image_toGeom (t : Template) (g : RGeom) (v : Rat) :
    image t g.toGeom = .poly [shapelyBoxRing (toIBox t g v)] := by
  cases g <;> rfl


/-! ### contracts of the rasteriser (hypotheses of the general theorems; monitored on rasterio every run) -/

/-- centre of the cell `(i, j)` -/
def centre (i j : Nat) : IPt := ((i : Rat) + 1 / 2, (j : Rat) + 1 / 2)

/-- an integer-cornered box (as shapely's `box` ring) burns exactly the cells whose centre it
    contains, with or without `all_touched` -/
def BoxRule (B : Burner) : Prop :=
  ∀ (b : IBox) (at' : Bool) (nx ny i j : Nat), i < nx → j < ny →
    B (.poly [shapelyBoxRing b]) at' nx ny i j = covered b i j

/-- a point with integer coordinates burns exactly the cell of that index (none outside the raster) -/
def PointRule (B : Burner) : Prop :=
  ∀ (p : ICell) (at' : Bool) (nx ny i j : Nat), i < nx → j < ny →
    B (.point p) at' nx ny i j = (decide (i = p.1) && decide (j = p.2))

/-- without `all_touched` a polygon burns a cell whose centre is off its boundary iff the centre
    is inside (even–odd over all rings) -/
def CentreRule (B : Burner) (rings : List (List ICell)) (nx ny : Nat) : Prop :=
  ∀ i j, i < nx → j < ny → onBoundary (ratRings rings) (centre i j) = false →
    B (.poly rings) false nx ny i j = insideRings (ratRings rings) (centre i j)

/-- `all_touched` only adds cells for this shape -/
def TouchedSuperset (B : Burner) (s : IShape) (nx ny : Nat) : Prop :=
  ∀ i j, i < nx → j < ny → B s false nx ny i j = true → B s true nx ny i j = true

/-- a rasteriser satisfying the box and point rules (non-vacuity of the contracts) -/
def refBurner : Burner := fun s _ _ _ i j =>
  match s with
  | .poly [[(x1, y0), (_, y1), (x0, _), _, _]] => covered ⟨x0, y0, x1, y1, 0⟩ i j
  | .point p => decide (i = p.1) && decide (j = p.2)
  | _ => false

theorem refBurner_boxRule : BoxRule refBurner := by
  intro b at' nx ny i j _ _
  simp [refBurner, shapelyBoxRing, covered]

theorem refBurner_pointRule : PointRule refBurner := by
  intro p at' nx ny i j _ _
  simp [refBurner]

/-! ### bin lookup with clamping on a sorted axis -/

theorem binOf_sorted (coords : List Rat) (v : Rat) (hs : Sorted coords) (hne : coords ≠ []) :
    binOf coords v =
      if v < coords.head hne then 0
      else if v > coords.getLast hne then coords.length
      else countLE coords v - 1 := by
  simp only [binOf, coordIndex_sorted coords v false hs hne]
  by_cases h1 : v < coords.head hne
  · simp [h1]
  · by_cases h2 : v > coords.getLast hne <;> simp [h1, h2]

/-- a bin `i` of the axis is at or after the bin of `v` iff `v` lies before the next coordinate
    (for the last bin: iff `v` does not exceed the last coordinate) -/
theorem binOf_le_iff (coords : List Rat) (v : Rat) (hs : Sorted coords) (hne : coords ≠ []) (i : Nat)
    (hi : i < coords.length) :
    binOf coords v ≤ i ↔
      (if h : i + 1 < coords.length then v < coords[i + 1] else v ≤ coords.getLast hne) := by
  rw [binOf_sorted coords v hs hne]
  have hfl : coords.head hne ≤ coords.getLast hne := by
    rw [List.getLast_eq_getElem]; exact sorted_head_le hs hne _ (by omega)
  by_cases h1 : v < coords.head hne
  · simp only [h1, if_true, Nat.zero_le, true_iff]
    split
    · rename_i h
      have := sorted_head_le hs hne (i + 1) h
      grind
    · grind
  · by_cases h2 : v > coords.getLast hne
    · simp only [h1, h2, if_false, if_true]
      constructor
      · intro h; omega
      · intro h
        split at h
        · rename_i hh
          have := sorted_le_getLast hs hne (i + 1) hh
          grind
        · grind
    · simp only [h1, h2, if_false]
      have hcl := countLE_le_length coords v
      split
      · rename_i hh
        have := lt_countLE_iff hs v (i + 1) hh
        constructor
        · intro h
          have : ¬ (i + 1 < countLE coords v) := by omega
          have := mt (lt_countLE_iff hs v (i + 1) hh).mpr this
          exact Rat.not_le.mp this
        · intro h
          have : ¬ (coords[i + 1] ≤ v) := Rat.not_le.mpr h
          have := mt (lt_countLE_iff hs v (i + 1) hh).mp this
          omega
      · constructor
        · intro _; grind
        · intro _; omega


/-! ### the general model on box-like geometries; covered cells in terms of coordinates -/

theorem covered_iff (b : IBox) (i j : Nat) :
    covered b i j = true ↔ (b.ix0 ≤ i ∧ i < b.ix1) ∧ (b.iy0 ≤ j ∧ j < b.iy1) := by
  simp only [covered, decide_eq_true_eq, natCast_le_add_half, add_half_le_natCast]
  constructor <;> intro h <;> grind

theorem foldl_box_masks (B : Burner) (hB : BoxRule B) (t : Template) (at' : Bool) :
    ∀ (geoms : List RGeom) (vs : List Rat) (g : Grid), Shaped g t.time.length t.freq.length →
      (List.zip ((geoms.map RGeom.toGeom).map (fun g => B (image t g) at' t.time.length t.freq.length)) vs).foldl
          (fun g p => burnMask p.1 p.2 g) g
        = (List.zipWith (toIBox t) geoms vs).foldl burn g := by
  intro geoms
  induction geoms with
  | nil => intro vs g _; simp
  | cons a as ih =>
    intro vs g hg
    cases vs with
    | nil => simp
    | cons v vs =>
      simp only [List.map_cons, List.zip_cons_cons, List.zipWith_cons_cons, List.foldl_cons]
      have hstep : burnMask (B (image t a.toGeom) at' t.time.length t.freq.length) v g = burn g (toIBox t a v) := by
        have hv : (toIBox t a v).val = v := by cases a <;> rfl
        rw [burn_eq_burnMask, hv]
        apply burnMask_congr g _ _ v _ _ hg
        intro i j hi hj
        rw [image_toGeom t a v]
        exact hB _ _ _ _ _ _ hi hj
      rw [hstep]
      apply ih
      rw [burn_eq_burnMask]
      exact burnMask_shaped _ _ _ _ _ hg


/-- bin `i` of an axis is covered by the span from `s` to `e`, in terms of the coordinates: its
    right edge `coords[i+1]` lies in `(s, e]`; the last bin, which has no right edge, iff
    `s ≤ last < e` -/
def spanCovers (coords : List Rat) (s e : Rat) (i : Nat) : Bool :=
  match coords[i + 1]? with
  | some c => decide (s < c ∧ c ≤ e)
  | none =>
    match coords.getLast? with
    | some c => decide (s ≤ c ∧ c < e)
    | none => false

def RGeom.timeSpan : RGeom → Rat × Rat
  | .box s _ e _ => (s, e)
  | .interval s e => (s, e)

def RGeom.freqSpan : RGeom → Rat × Rat
  | .box _ l _ h => (l, h)
  | .interval _ _ => (0, MAXF)

/-- the cell `(i, j)` is covered by a box-like geometry, in terms of the template's coordinates -/
def coversCell (t : Template) (g : RGeom) (i j : Nat) : Bool :=
  spanCovers t.time g.timeSpan.1 g.timeSpan.2 i && spanCovers t.freq g.freqSpan.1 g.freqSpan.2 j

theorem spanCovers_iff (coords : List Rat) (s e : Rat) (hs : Sorted coords) (hne : coords ≠ [])
    (i : Nat) (hi : i < coords.length) :
    spanCovers coords s e i = true ↔ (binOf coords s ≤ i ∧ i < binOf coords e) := by
  have h1 := binOf_le_iff coords s hs hne i hi
  have h2 := binOf_le_iff coords e hs hne i hi
  have h3 : i < binOf coords e ↔ ¬ binOf coords e ≤ i := by omega
  rw [h1, h3, h2]
  unfold spanCovers
  by_cases h : i + 1 < coords.length
  · simp [h, Rat.not_lt]
  · simp [h, List.getLast?_eq_some_getLast hne, Rat.not_le]

theorem covered_toIBox (t : Template) (hst : Sorted t.time) (hsf : Sorted t.freq) (hnt : t.time ≠ [])
    (hnf : t.freq ≠ []) (g : RGeom) (v : Rat) (i j : Nat) (hi : i < t.time.length) (hj : j < t.freq.length) :
    covered (toIBox t g v) i j = coversCell t g i j := by
  rw [Bool.eq_iff_iff, covered_iff]
  simp only [coversCell, Bool.and_eq_true, spanCovers_iff _ _ _ hst hnt i hi, spanCovers_iff _ _ _ hsf hnf j hj]
  cases g <;> rfl


/-! ### ray casting on the edges of an index-space box -/

theorem mul_neg_iff_of_pos_right {a c : Rat} (hc : 0 < c) : a * c < 0 ↔ a < 0 := by
  have := Rat.mul_lt_mul_right (a := a) (b := 0) hc
  simpa using this

theorem add_half_lt_natCast (n i : Nat) : (i : Rat) + 1 / 2 < (n : Rat) ↔ i < n := by
  rw [← add_half_le_natCast]
  constructor
  · intro h; exact Rat.le_of_lt h
  · intro h
    have hne : ¬ ((n : Rat) ≤ (i : Rat) + 1 / 2) := by
      rw [natCast_le_add_half]; have := (add_half_le_natCast n i).mp h; omega
    exact Rat.not_le.mp hne

theorem add_half_ne_natCast (n i : Nat) : (i : Rat) + 1 / 2 ≠ (n : Rat) := by
  intro h
  have h1 : (i : Rat) + 1 / 2 ≤ (n : Rat) := by rw [h]; exact Rat.le_refl
  have h2 : (n : Rat) ≤ (i : Rat) + 1 / 2 := by rw [h]; exact Rat.le_refl
  have := (add_half_le_natCast n i).mp h1
  have := (natCast_le_add_half n i).mp h2
  omega

theorem crosses_horizontal (c : IPt) (x x' y : Rat) : crosses c ((x, y), (x', y)) = false := by
  simp [crosses]

theorem crosses_vertical_up (cx cy x y0 y1 : Rat) (h : y0 < y1) :
    crosses (cx, cy) ((x, y0), (x, y1)) = ((decide (y0 ≤ cy) != decide (y1 ≤ cy)) && decide (cx < x)) := by
  simp only [crosses, h, if_true]
  congr 1
  have hpos : 0 < y1 - y0 := by grind
  have : (x - x) * (cy - y0) = 0 := by grind
  rw [this]
  have := mul_neg_iff_of_pos_right (a := cx - x) hpos
  simp only [gt_iff_lt, decide_eq_decide]
  rw [this]; constructor <;> intro h <;> grind

theorem crosses_vertical_down (cx cy x y0 y1 : Rat) (h : y0 < y1) :
    crosses (cx, cy) ((x, y1), (x, y0)) = ((decide (y1 ≤ cy) != decide (y0 ≤ cy)) && decide (cx < x)) := by
  have hn : ¬ y1 < y0 := by grind
  simp only [crosses, hn, if_false]
  congr 1
  have hpos : 0 < y1 - y0 := by grind
  have h0 : (x - x) * (cy - y1) = 0 := by grind
  rw [h0]
  have h2 : (cx - x) * (y0 - y1) = -((cx - x) * (y1 - y0)) := by grind
  rw [h2]
  have := mul_neg_iff_of_pos_right (a := cx - x) hpos
  simp only [decide_eq_decide]
  constructor <;> intro h <;> grind


/-! ### the call: argument binding, sessions -/

/-- every split of an argument list into a positional head (in signature order) and a keyword tail
    binds the same way as the all-keyword call -/
theorem bindCall_split {α : Type} (order : List String) (hnd : order.Nodup) (vals : List α)
    (hlen : vals.length ≤ order.length) (k : Nat) (hk : k ≤ vals.length) :
    bindCall order (vals.take k) ((order.zip vals).drop k) = some (order.zip vals) := by
  have hpl : (vals.take k).length = k := by simp; omega
  unfold bindCall
  rw [hpl]
  have h1 : ¬ order.length < k := by omega
  simp only [h1, if_false]
  have hall : ((order.zip vals).drop k).all
      (fun p => order.contains p.1 && !((order.take k).contains p.1)) = true := by
    rw [List.all_eq_true]
    intro p hp
    rw [List.zip, List.drop_zipWith] at hp
    have hmem := (List.of_mem_zip (by simpa [List.zip] using hp)).1
    have hin : p.1 ∈ order := List.mem_of_mem_drop hmem
    have hnot : p.1 ∉ order.take k := by
      intro hc
      have hdis := List.take_append_drop k order ▸ hnd
      rw [List.nodup_append] at hdis
      exact hdis.2.2 _ hc _ hmem rfl
    simp [hin, hnot]
  rw [if_pos hall]; simp only [List.zip, ← List.take_zipWith, List.take_append_drop]

theorem optionalOrder_nodup : optionalOrder.Nodup := by decide

theorem runSession_append (B : Burner) (evs evs' : List Event) :
    runSession B (evs ++ evs') = evs'.foldl (step B) (runSession B evs) := by
  simp [runSession, List.foldl_append]

theorem foldl_step_calls (B : Burner) (calls : List Request) (held : List (Except AErr Raster)) :
    (calls.map Event.call).foldl (step B) held = held ++ calls.map (answer B) := by
  induction calls generalizing held with
  | nil => simp
  | cons r rs ih => simp [step, ih]

theorem lattice_ne_nil (a s : Rat) (n : Nat) (h : 0 < n) : lattice a s n ≠ [] := by
  intro h0
  have := congrArg List.length h0
  simp at this; omega

end SE.Raster
