/- helper lemmas for C20: half-integer centres, cells of a burnt raster, bin lookup on sorted axes -/
import SoundeventModel.Raster
import Proofs.Lemmas.Axis
namespace SE.Raster
open SE SE.Axis

/-! ### integer corners against half-integer centres -/

theorem natCast_le_add_half (n i : Nat) : (n : Rat) ≤ (i : Rat) + 1 / 2 ↔ n ≤ i := by
  constructor
  · intro h
    by_cases hle : n ≤ i
    · exact hle
    · have : i + 1 ≤ n := by omega
      have : ((i + 1 : Nat) : Rat) ≤ (n : Rat) := Rat.natCast_le_natCast.mpr this
      simp at this; grind
  · intro h
    have : (n : Rat) ≤ (i : Rat) := Rat.natCast_le_natCast.mpr h
    grind

theorem add_half_le_natCast (n i : Nat) : (i : Rat) + 1 / 2 ≤ (n : Rat) ↔ i < n := by
  constructor
  · intro h
    by_cases hlt : i < n
    · exact hlt
    · have : n ≤ i := by omega
      have : (n : Rat) ≤ (i : Rat) := Rat.natCast_le_natCast.mpr this
      grind
  · intro h
    have : ((i + 1 : Nat) : Rat) ≤ (n : Rat) := Rat.natCast_le_natCast.mpr h
    simp at this; grind

/-! ### cells of a raster -/

/-- the cell `(i, j)` of a grid (`none` outside it) -/
def cell (g : Grid) (i j : Nat) : Option Int := (g[i]?).bind (fun row => row[j]?)

theorem cell_burn (g : Grid) (b : IBox) (i j : Nat) :
    cell (burn g b) i j = (cell g i j).map (fun old => if covered b i j then b.val else old) := by
  simp only [cell, burn, List.getElem?_mapIdx]
  cases g[i]? with
  | none => rfl
  | some row =>
    simp only [Option.map_some, Option.bind_some, List.getElem?_mapIdx]

theorem cell_foldl_burn (g : Grid) (boxes : List IBox) (i j : Nat) :
    cell (boxes.foldl burn g) i j =
      (cell g i j).map (fun v0 => boxes.foldl (fun v b => if covered b i j then b.val else v) v0) := by
  induction boxes generalizing g with
  | nil => simp
  | cons b bs ih =>
    simp only [List.foldl_cons, ih, cell_burn]
    cases cell g i j <;> simp

theorem cell_replicate (nx ny : Nat) (fill : Int) (i j : Nat) (hi : i < nx) (hj : j < ny) :
    cell (List.replicate nx (List.replicate ny fill)) i j = some fill := by
  simp [cell, hi, hj]

/-- folding "overwrite when covered" = the value of the last covering box, else the start value -/
theorem foldl_overwrite (boxes : List IBox) (i j : Nat) (v0 : Int) :
    boxes.foldl (fun v b => if covered b i j then b.val else v) v0 =
      match boxes.reverse.find? (fun b => covered b i j) with
      | some b => b.val
      | none => v0 := by
  induction boxes generalizing v0 with
  | nil => rfl
  | cons b bs ih =>
    simp only [List.foldl_cons, ih, List.reverse_cons, List.find?_append]
    cases bs.reverse.find? (fun b => covered b i j) with
    | some b' => simp
    | none =>
      by_cases hc : covered b i j = true <;> simp [hc]

theorem burn_shape (g : Grid) (b : IBox) (nx ny : Nat) (h1 : g.length = nx) (h2 : ∀ row ∈ g, row.length = ny) :
    (burn g b).length = nx ∧ ∀ row ∈ burn g b, row.length = ny := by
  refine ⟨by simp [burn, h1], ?_⟩
  intro row hrow
  simp only [burn, List.mem_mapIdx] at hrow
  obtain ⟨i, hi, rfl⟩ := hrow
  simp [h2 _ (List.getElem_mem hi)]

theorem rasterBoxes_shape (nx ny : Nat) (boxes : List IBox) (fill : Int) :
    (rasterBoxes nx ny boxes fill).length = nx ∧ ∀ row ∈ rasterBoxes nx ny boxes fill, row.length = ny := by
  unfold rasterBoxes
  have h0 : (List.replicate nx (List.replicate ny fill)).length = nx ∧
      ∀ row ∈ List.replicate nx (List.replicate ny fill), row.length = ny := by
    refine ⟨by simp, ?_⟩
    intro row hrow
    rw [List.eq_of_mem_replicate hrow]; simp
  generalize List.replicate nx (List.replicate ny fill) = g at h0
  induction boxes generalizing g with
  | nil => simpa using h0
  | cons b bs ih =>
    simp only [List.foldl_cons]
    exact ih _ (burn_shape g b nx ny h0.1 h0.2)

/-! ### bin lookup with clamping on a sorted axis -/

theorem binOf_sorted (coords : List Rat) (v : Rat) (hs : Sorted coords) (hne : coords ≠ []) :
    binOf coords v =
      if v < coords.head hne then 0
      else if v > coords.getLast hne then coords.length
      else countLE coords v - 1 := by
  simp only [binOf, coordIndex_sorted coords v false hs hne]
  by_cases h1 : v < coords.head hne
  · simp [h1]
  · by_cases h2 : v > coords.getLast hne <;> simp [h1, h2]

/-- a bin `i` of the axis is at or after the bin of `v` iff `v` lies before the next coordinate
    (for the last bin: iff `v` does not exceed the last coordinate) -/
theorem binOf_le_iff (coords : List Rat) (v : Rat) (hs : Sorted coords) (hne : coords ≠ []) (i : Nat)
    (hi : i < coords.length) :
    binOf coords v ≤ i ↔
      (if h : i + 1 < coords.length then v < coords[i + 1] else v ≤ coords.getLast hne) := by
  rw [binOf_sorted coords v hs hne]
  have hfl : coords.head hne ≤ coords.getLast hne := by
    rw [List.getLast_eq_getElem]; exact sorted_head_le hs hne _ (by omega)
  by_cases h1 : v < coords.head hne
  · simp only [h1, if_true, Nat.zero_le, true_iff]
    split
    · rename_i h
      have := sorted_head_le hs hne (i + 1) h
      grind
    · grind
  · by_cases h2 : v > coords.getLast hne
    · simp only [h1, h2, if_false, if_true]
      constructor
      · intro h; omega
      · intro h
        split at h
        · rename_i hh
          have := sorted_le_getLast hs hne (i + 1) hh
          grind
        · grind
    · simp only [h1, h2, if_false]
      have hcl := countLE_le_length coords v
      split
      · rename_i hh
        have := lt_countLE_iff hs v (i + 1) hh
        constructor
        · intro h
          have : ¬ (i + 1 < countLE coords v) := by omega
          have := mt (lt_countLE_iff hs v (i + 1) hh).mpr this
          exact Rat.not_le.mp this
        · intro h
          have : ¬ (coords[i + 1] ≤ v) := Rat.not_le.mpr h
          have := mt (lt_countLE_iff hs v (i + 1) hh).mp this
          omega
      · constructor
        · intro _; grind
        · intro _; omega

/-! ### ray casting on the edges of an index-space box -/

theorem mul_neg_iff_of_pos_right {a c : Rat} (hc : 0 < c) : a * c < 0 ↔ a < 0 := by
  have := Rat.mul_lt_mul_right (a := a) (b := 0) hc
  simpa using this

theorem add_half_lt_natCast (n i : Nat) : (i : Rat) + 1 / 2 < (n : Rat) ↔ i < n := by
  rw [← add_half_le_natCast]
  constructor
  · intro h; exact Rat.le_of_lt h
  · intro h
    have hne : ¬ ((n : Rat) ≤ (i : Rat) + 1 / 2) := by
      rw [natCast_le_add_half]; have := (add_half_le_natCast n i).mp h; omega
    exact Rat.not_le.mp hne

theorem add_half_ne_natCast (n i : Nat) : (i : Rat) + 1 / 2 ≠ (n : Rat) := by
  intro h
  have h1 : (i : Rat) + 1 / 2 ≤ (n : Rat) := by rw [h]; exact Rat.le_refl
  have h2 : (n : Rat) ≤ (i : Rat) + 1 / 2 := by rw [h]; exact Rat.le_refl
  have := (add_half_le_natCast n i).mp h1
  have := (natCast_le_add_half n i).mp h2
  omega

theorem crosses_horizontal (c : IPt) (x x' y : Rat) : crosses c ((x, y), (x', y)) = false := by
  simp [crosses]

theorem crosses_vertical_up (cx cy x y0 y1 : Rat) (h : y0 < y1) :
    crosses (cx, cy) ((x, y0), (x, y1)) = ((decide (y0 ≤ cy) != decide (y1 ≤ cy)) && decide (cx < x)) := by
  simp only [crosses, h, if_true]
  congr 1
  have hpos : 0 < y1 - y0 := by grind
  have : (x - x) * (cy - y0) = 0 := by grind
  rw [this]
  have := mul_neg_iff_of_pos_right (a := cx - x) hpos
  simp only [gt_iff_lt, decide_eq_decide]
  rw [this]; constructor <;> intro h <;> grind

theorem crosses_vertical_down (cx cy x y0 y1 : Rat) (h : y0 < y1) :
    crosses (cx, cy) ((x, y1), (x, y0)) = ((decide (y1 ≤ cy) != decide (y0 ≤ cy)) && decide (cx < x)) := by
  have hn : ¬ y1 < y0 := by grind
  simp only [crosses, hn, if_false]
  congr 1
  have hpos : 0 < y1 - y0 := by grind
  have h0 : (x - x) * (cy - y1) = 0 := by grind
  rw [h0]
  have h2 : (cx - x) * (y0 - y1) = -((cx - x) * (y1 - y0)) := by grind
  rw [h2]
  have := mul_neg_iff_of_pos_right (a := cx - x) hpos
  simp only [decide_eq_decide]
  constructor <;> intro h <;> grind


end SE.Raster
