/-
  C02 — refinement of the operational save path: the collection adapters.  `opSaveM c dir`, run
  from fresh adapters, succeeds exactly when every reachable recording has a stored path, and then
  returns the document of the total declarative writer `saveT`.
-/
import Proofs.Lemmas.AoefOpSaveOps2
namespace SE.Aoef
open SE.Paths

/-! ### `values()` of the predicted tables -/
theorem tblValues_tbl {β ω : Type} (key : β → Atom) (enc : β → ω) (L : List β) :
    tblValues (tbl key enc L) = listOpt ((dedupBy key L).map enc) := by
  simp [tblValues, tbl, List.map_map, Function.comp_def]

theorem tblValues_tagStore (l : List Tag) : tblValues (tagStoreOf l.zipIdx) = listOpt (encTags l) := by
  simp [tblValues, tagStoreOf, encTags, List.map_map, Function.comp_def]

/-! ### a failing `save` raises `ValueError` -/
theorem storedPath_error {dir : Option PPath} {p : PPath} {e : Err} (h : storedPath dir p = .error e) :
    e = .invalid := by
  cases dir with
  | none => simp [storedPath] at h
  | some d =>
    simp only [storedPath, relativeTo] at h
    split at h
    · cases h
    · exact (Except.error.inj h).symm

theorem encRecording_err_invalid {tids : List Tag} {dir : Option PPath} {r : Recording} {e : Err}
    (h : encRecording tids dir r = .error e) : e = .invalid := by
  unfold encRecording at h
  cases hp : storedPath dir r.path with
  | ok q => simp [hp, bind, Except.bind, pure, Except.pure] at h
  | error e' =>
    simp only [hp, bind, Except.bind, Except.error.injEq] at h
    exact h ▸ storedPath_error hp

theorem mapM_encRecording_err_invalid {tids : List Tag} {dir : Option PPath} {rs : List Recording} {e : Err}
    (h : rs.mapM (encRecording tids dir) = .error e) : e = .invalid := by
  induction rs generalizing e with
  | nil => simp [pure, Except.pure] at h
  | cons r rs ih =>
    rw [List.mapM_cons] at h
    cases hr : encRecording tids dir r with
    | error e' =>
      simp only [hr, bind, Except.bind, Except.error.injEq] at h
      exact h ▸ encRecording_err_invalid hr
    | ok o =>
      cases hrs : rs.mapM (encRecording tids dir) with
      | error e' =>
        simp only [hr, hrs, bind, Except.bind, Except.error.injEq] at h
        exact h ▸ ih hrs
      | ok os => simp [hr, hrs, bind, Except.bind, pure, Except.pure] at h

theorem shared_error {os : List Obj} {dir : Option PPath} {e : Err} (h : shared os dir = .error e) :
    e = .invalid := by
  unfold shared at h
  cases hm : (dedupBy (·.uuid) (recsOf os)).mapM (encRecording (tagTable os) dir) with
  | error e' =>
    simp only [hm, bind, Except.bind, Except.error.injEq] at h
    exact h ▸ mapM_encRecording_err_invalid hm
  | ok rs => simp [hm, bind, Except.bind, pure, Except.pure] at h

theorem recordingDoc_error {ty : String} {uuid co : Atom} {recs : List Recording} {os : List Obj}
    {dir : Option PPath} {e : Err} (h : recordingDoc ty uuid co recs os dir = .error e) :
    e = .invalid := by
  unfold recordingDoc at h
  cases hm : recs.mapM (encRecording (tagTable os) dir) with
  | error e' =>
    simp only [hm, bind, Except.bind, Except.error.injEq] at h
    exact h ▸ mapM_encRecording_err_invalid hm
  | ok rs => simp [hm, bind, Except.bind, pure, Except.pure] at h

theorem annotationDoc_error {ty : String} {uuid co : Atom} {cas : List ClipAnnotation} {os : List Obj}
    {dir : Option PPath} {e : Err} (h : annotationDoc ty uuid co cas os dir = .error e) :
    e = .invalid := by
  unfold annotationDoc at h
  cases hm : shared os dir with
  | error e' =>
    simp only [hm, bind, Except.bind, Except.error.injEq] at h
    exact h ▸ shared_error hm
  | ok sh => simp [hm, bind, Except.bind, pure, Except.pure] at h

theorem predictionDoc_error {ty : String} {uuid co : Atom} {cps : List ClipPrediction} {os : List Obj}
    {dir : Option PPath} {e : Err} (h : predictionDoc ty uuid co cps os dir = .error e) :
    e = .invalid := by
  unfold predictionDoc at h
  cases hm : shared os dir with
  | error e' =>
    simp only [hm, bind, Except.bind, Except.error.injEq] at h
    exact h ▸ shared_error hm
  | ok sh => simp [hm, bind, Except.bind, pure, Except.pure] at h

theorem bind_error {α β : Type} {m : Except Err α} {k : α → Except Err β} {e : Err}
    (h : (m >>= k) = .error e) : m = .error e ∨ ∃ x, m = .ok x ∧ k x = .error e := by
  cases m with
  | error e' => left; simpa [bind, Except.bind] using h
  | ok x => right; exact ⟨x, rfl, by simpa [bind, Except.bind] using h⟩

theorem save_err_invalid {c : Collection} {dir : Option PPath} {e : Err} (h : save c dir = .error e) :
    e = .invalid := by
  cases c with
  | recordingSet x => exact recordingDoc_error h
  | dataset x =>
    rcases bind_error h with h | ⟨d, _, h⟩
    · exact recordingDoc_error h
    · simp [pure, Except.pure] at h
  | annotationSet x => exact annotationDoc_error h
  | annotationProject x =>
    rcases bind_error h with h | ⟨d, _, h⟩
    · exact annotationDoc_error h
    · simp [pure, Except.pure] at h
  | evaluationSet x =>
    rcases bind_error h with h | ⟨d, _, h⟩
    · exact annotationDoc_error h
    · simp [pure, Except.pure] at h
  | predictionSet x => exact predictionDoc_error h
  | modelRun x =>
    rcases bind_error h with h | ⟨d, _, h⟩
    · exact predictionDoc_error h
    · simp [pure, Except.pure] at h
  | evaluation x =>
    rcases bind_error h with h | ⟨sh, _, h⟩
    · exact shared_error h
    · simp [pure, Except.pure] at h

/-- the declarative writer, decided: the total document when every reachable recording has a
    stored path, `ValueError` otherwise -/
theorem save_cases {c : Collection} {dir : Option PPath} (hc : CoherentBy (·.uuid) (recsOf c.trav)) :
    (PathsOK dir c.trav → save c dir = .ok (saveT c dir)) ∧
    (¬ PathsOK dir c.trav → save c dir = .error .invalid) := by
  refine ⟨save_of_pathsOK, fun hn => ?_⟩
  cases hs : save c dir with
  | ok d => exact absurd (pathsOK_of_savePaths hc (save_iff.1 hs).2) hn
  | error e => rw [save_err_invalid hs]

theorem pathOK_some_iff {A : PPath} {r : Recording} : PathOK (some A) r ↔ inside r.path A := by
  refine ⟨fun h => ?_, pathOK_inside⟩
  rcases pathOK_iff.1 h with ⟨q, hq⟩
  simp only [storedPath, relativeTo] at hq
  split at hq
  · rename_i hcond
    exact ⟨hcond.1, List.isPrefixOf_iff_prefix.1 hcond.2⟩
  · cases hq

/-! ### reading the state -/
section top
variable {T : List Tag} {dir : Option PPath}

theorem SpecP.get_bind {β : Type} {f : SaveSt → Op β} {os zs : List Obj} {Q : Prop} {b : β}
    (h : SpecP T dir (f (mkSt T dir os)) os zs Q b) : SpecP T dir (get >>= f) os zs Q b := by
  have e : (get >>= f) (mkSt T dir os) = f (mkSt T dir os) (mkSt T dir os) :=
    op_bind_ok (op_get _)
  exact ⟨fun hq => e.trans (h.1 hq), fun hq => e.trans (h.2 hq)⟩

theorem SpecP.pure' {β : Type} {os : List Obj} {a a' : β} (h : a = a') :
    SpecP T dir (Pure.pure a : Op β) os [] True a' := h ▸ SpecP.pure os a

/-- `RecordingSetAdapter.to_aoef` -/
theorem opRecordingSetDoc_spec (ty : String) (uuid co : Atom) (recs : List Recording) (os : List Obj)
    (hpre : Pre T dir os (recs.flatMap recAll)) :
    Spec T dir (opRecordingSetDoc ty uuid co recs dir) os (recs.flatMap recAll)
      { collection_type := ty, uuid := uuid, created_on := some co,
        users := tblValues (mkSt T dir (os ++ recs.flatMap recAll)).users,
        tags := tblValues (mkSt T dir (os ++ recs.flatMap recAll)).tags,
        recordings := some (recs.map (encRecordingT T dir)) } := by
  unfold opRecordingSetDoc
  have hp' : Pre T dir os (recs.flatMap recAll ++ []) := hpre.of_eq (by simp)
  refine (SpecP.of_eq (ys := recs.flatMap recAll ++ []) ?_ (by simp) rfl).congr
    (P := PathsOK dir (recs.flatMap recAll) ∧ True) (by simp)
  refine SpecP.bind hp' (closedL_flatMap _ _ fun r _ => closedL_recAll r) id
    (opList_spec (opRecording dir) recAll (encRecordingT T dir) _ (fun r _ => closedL_recAll r)
      (fun r _ os h => opRecording_spec r os h) _) fun _ _ => ?_
  exact SpecP.get_bind (SpecP.pure _ _)

/-- `AnnotationSetAdapter.to_aoef` -/
theorem opAnnotationSetDoc_spec (ty : String) (uuid co : Atom) (cas : List ClipAnnotation)
    (os : List Obj) (hpre : Pre T dir os (cas.flatMap caAll)) :
    Spec T dir (opAnnotationSetDoc ty uuid co cas dir) os (cas.flatMap caAll)
      (annotationFields (mkSt T dir (os ++ cas.flatMap caAll))
        { collection_type := ty, uuid := uuid, created_on := some co,
          clip_annotations := some (cas.map (encCA T)) }) := by
  unfold opAnnotationSetDoc
  have hp' : Pre T dir os (cas.flatMap caAll ++ []) := hpre.of_eq (by simp)
  refine (SpecP.of_eq (ys := cas.flatMap caAll ++ []) ?_ (by simp) rfl).congr
    (P := PathsOK dir (cas.flatMap caAll) ∧ True) (by simp)
  refine SpecP.bind hp' (closedL_flatMap _ _ fun r _ => closedL_caAll r) id
    (opList_spec (opCA dir) caAll (encCA T) _ (fun r _ => closedL_caAll r)
      (fun r _ os h => opCA_spec r os h) _) fun _ _ => ?_
  exact SpecP.get_bind (SpecP.pure _ _)

/-- `PredictionSetAdapter.to_aoef` -/
theorem opPredictionSetDoc_spec (ty : String) (uuid co : Atom) (cps : List ClipPrediction)
    (os : List Obj) (hpre : Pre T dir os (cps.flatMap cpAll)) :
    Spec T dir (opPredictionSetDoc ty uuid co cps dir) os (cps.flatMap cpAll)
      (predictionFields (mkSt T dir (os ++ cps.flatMap cpAll))
        { collection_type := ty, uuid := uuid, created_on := some co,
          clip_predictions := some (cps.map (encCP T)) }) := by
  unfold opPredictionSetDoc
  have hp' : Pre T dir os (cps.flatMap cpAll ++ []) := hpre.of_eq (by simp)
  refine (SpecP.of_eq (ys := cps.flatMap cpAll ++ []) ?_ (by simp) rfl).congr
    (P := PathsOK dir (cps.flatMap cpAll) ∧ True) (by simp)
  refine SpecP.bind hp' (closedL_flatMap _ _ fun r _ => closedL_cpAll r) id
    (opList_spec (opCP dir) cpAll (encCP T) _ (fun r _ => closedL_cpAll r)
      (fun r _ os h => opCP_spec r os h) _) fun _ _ => ?_
  exact SpecP.get_bind (SpecP.pure _ _)

theorem pre_top {c : Collection} (hwf : WF c) (dir : Option PPath) :
    Pre (tagTable c.trav) dir [] c.trav where
  closed := closedL_nil
  coh := by simpa using hwf.cohO
  ok := pathsOK_nil
  pre := by simp

local macro "doc_eq" : tactic =>
  `(tactic| (
    simp only [List.nil_append, annotationFields, predictionFields, mkSt, tblValues_tbl,
      tblValues_tagStore]
    rfl))

/-- **The collection adapters.**  From fresh adapters, `opSaveM c dir` returns the document of the
    total declarative writer when every reachable recording has a stored path, and raises
    otherwise. -/
theorem opSaveM_spec (c : Collection) (dir : Option PPath) (hwf : WF c) :
    SpecP (tagTable c.trav) dir (opSaveM c dir) [] c.trav (PathsOK dir c.trav) (saveT c dir) := by
  have hpre := pre_top hwf dir
  cases c with
  | recordingSet x =>
    exact (opRecordingSetDoc_spec _ _ _ _ [] hpre).of_eq rfl (by doc_eq)
  | dataset x =>
    exact ((opRecordingSetDoc_spec _ _ _ _ [] hpre).map).of_eq rfl (by doc_eq)
  | annotationSet x =>
    exact (opAnnotationSetDoc_spec _ _ _ _ [] hpre).of_eq rfl (by doc_eq)
  | annotationProject x =>
    simp only [opSaveM, Collection.trav] at hpre ⊢
    have hp' : Pre (tagTable (Collection.annotationProject x).trav) dir []
        (x.tasks.flatMap taskAll ++ (tagsAll x.annotation_tags
          ++ (x.clip_annotations.flatMap caAll ++ []))) := hpre.of_eq (by simp)
    refine SpecP.of_eq (ys := x.tasks.flatMap taskAll ++ (tagsAll x.annotation_tags
          ++ (x.clip_annotations.flatMap caAll ++ []))) ?_ (by simp) rfl
    ·
      refine SpecP.congr
        (P := PathsOK dir (x.tasks.flatMap taskAll) ∧ PathsOK dir (tagsAll x.annotation_tags) ∧
          PathsOK dir (x.clip_annotations.flatMap caAll) ∧ True) ?_
        (by simp only [pathsOK_append, and_true, and_assoc])
      refine SpecP.bind hp' (closedL_flatMap _ _ fun t _ => closedL_taskAll t) id
        (opList_spec (opTask dir) taskAll encTask _ (fun t _ => closedL_taskAll t)
          (fun t _ os h => opTask_spec t os h) _) fun _ hp1 => ?_
      refine SpecP.bind hp1 (closedL_tagsAll _) id (opTagIds_spec _ _) fun _ hp2 => ?_
      refine SpecP.bind hp2 (closedL_flatMap _ _ fun a _ => closedL_caAll a) id
        (opAnnotationSetDoc_spec _ _ _ _ _) fun _ _ => ?_
      exact SpecP.get_bind (SpecP.pure' (by doc_eq))
  | evaluationSet x =>
    simp only [opSaveM, Collection.trav] at hpre ⊢
    have hp' : Pre (tagTable (Collection.evaluationSet x).trav) dir []
        (x.clip_annotations.flatMap caAll ++ (tagsAll x.evaluation_tags ++ [])) :=
      hpre.of_eq (by simp)
    refine SpecP.of_eq (ys := x.clip_annotations.flatMap caAll
          ++ (tagsAll x.evaluation_tags ++ [])) ?_ (by simp) rfl
    ·
      refine SpecP.congr
        (P := PathsOK dir (x.clip_annotations.flatMap caAll) ∧
          PathsOK dir (tagsAll x.evaluation_tags) ∧ True) ?_
        (by simp only [pathsOK_append, and_true])
      refine SpecP.bind hp' (closedL_flatMap _ _ fun a _ => closedL_caAll a) id
        (opAnnotationSetDoc_spec _ _ _ _ _) fun _ hp1 => ?_
      refine SpecP.bind hp1 (closedL_tagsAll _) id (opTagIds_spec _ _) fun _ _ => ?_
      exact SpecP.get_bind (SpecP.pure' (by doc_eq))
  | predictionSet x =>
    exact (opPredictionSetDoc_spec _ _ _ _ [] hpre).of_eq rfl (by doc_eq)
  | modelRun x =>
    simp only [opSaveM, Collection.trav] at hpre ⊢
    have hp' : Pre (tagTable (Collection.modelRun x).trav) dir []
        (x.clip_predictions.flatMap cpAll ++ []) := hpre.of_eq (by simp)
    refine SpecP.of_eq (ys := x.clip_predictions.flatMap cpAll ++ []) ?_ (by simp) rfl
    ·
      refine SpecP.congr (P := PathsOK dir (x.clip_predictions.flatMap cpAll) ∧ True) ?_
        (by simp only [and_true])
      refine SpecP.bind hp' (closedL_flatMap _ _ fun a _ => closedL_cpAll a) id
        (opPredictionSetDoc_spec _ _ _ _ _) fun _ _ => ?_
      exact SpecP.get_bind (SpecP.pure' (by doc_eq))
  | evaluation x =>
    simp only [opSaveM, Collection.trav] at hpre ⊢
    have hp' : Pre (tagTable (Collection.evaluation x).trav) dir []
        (x.clip_evaluations.flatMap ceAll ++ []) := hpre.of_eq (by simp)
    refine SpecP.of_eq (ys := x.clip_evaluations.flatMap ceAll ++ []) ?_ (by simp) rfl
    ·
      refine SpecP.congr (P := PathsOK dir (x.clip_evaluations.flatMap ceAll) ∧ True) ?_
        (by simp only [and_true])
      refine SpecP.bind hp' (closedL_flatMap _ _ fun a _ => closedL_ceAll a) id
        (opList_spec (opCE dir) ceAll encCE _ (fun e _ => closedL_ceAll e)
          (fun e _ os h => opCE_spec e os h) _) fun _ _ => ?_
      exact SpecP.get_bind (SpecP.pure' (by doc_eq))

/-- the same, from the fresh adapters `{}` -/
theorem opSaveM_run (c : Collection) (dir : Option PPath) (hwf : WF c) :
    (PathsOK dir c.trav →
      opSaveM c dir {} = .ok (saveT c dir, mkSt (tagTable c.trav) dir c.trav)) ∧
    (¬ PathsOK dir c.trav → opSaveM c dir {} = .error .invalid) :=
  opSaveM_spec c dir hwf

end top

end SE.Aoef
