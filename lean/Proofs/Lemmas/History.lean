import SoundeventModel.History

/-! Histories: an implementation agrees with the pure model on *every* history exactly when no
reachable state changes any answer.  This is what the history operations of the checks
(`harness/history.py`) decide by running sequences of calls: a disagreement at some step of some
history is a reachable state in which the function no longer computes the specified value. -/
namespace SE.History

theorem runS_append {σ α β : Type} (step : σ → α → σ × β) (s : σ) (xs ys : List α) :
    runS step s (xs ++ ys) = runS step s xs ++ runS step (stateAfter step s xs) ys := by
  induction xs generalizing s with
  | nil => rfl
  | cons x xs ih => simp [runS, stateAfter, ih]

theorem stateAfter_append {σ α β : Type} (step : σ → α → σ × β) (s : σ) (xs ys : List α) :
    stateAfter step s (xs ++ ys) = stateAfter step (stateAfter step s xs) ys := by
  induction xs generalizing s with
  | nil => rfl
  | cons x xs ih => simp [stateAfter, ih]

theorem runS_length {σ α β : Type} (step : σ → α → σ × β) (s : σ) (xs : List α) :
    (runS step s xs).length = xs.length := by
  induction xs generalizing s with
  | nil => rfl
  | cons x xs ih => simp [runS, ih]

/-- history-free implementations answer every history as the pure model does -/
theorem runS_eq_runPure_of_historyFree {σ α β : Type} (step : σ → α → σ × β) (s0 : σ) (f : α → β)
    (h : HistoryFree step s0 f) (xs : List α) : runS step s0 xs = runPure f xs := by
  suffices H : ∀ (pre : List α) (ys : List α), runS step (stateAfter step s0 pre) ys = runPure f ys from H [] xs
  intro pre ys
  induction ys generalizing pre with
  | nil => rfl
  | cons y ys ih =>
    have hy : (step (stateAfter step s0 pre) y).2 = f y := h _ ⟨pre, rfl⟩ y
    have hs : (step (stateAfter step s0 pre) y).1 = stateAfter step s0 (pre ++ [y]) := by
      rw [stateAfter_append]; rfl
    simp only [runS, runPure, List.map_cons, hy, hs]
    congr 1
    exact ih (pre ++ [y])

/-- **Histories decide history-freedom**: the implementation agrees with the pure model on all
    histories iff no reachable state changes an answer. -/
theorem historyFree_iff {σ α β : Type} (step : σ → α → σ × β) (s0 : σ) (f : α → β) :
    HistoryFree step s0 f ↔ ∀ xs, runS step s0 xs = runPure f xs := by
  constructor
  · exact runS_eq_runPure_of_historyFree step s0 f
  · intro h s ⟨pre, hpre⟩ x
    have h1 := h (pre ++ [x])
    rw [runS_append, hpre] at h1
    have h2 := h pre
    simp only [runPure, List.map_append, List.map_cons, List.map_nil] at h1
    rw [h2] at h1
    have := List.append_cancel_left h1
    simpa [runS] using this

/-- a concrete stateful implementation that is *not* history-free: a cache keyed by part of the
    input (the first component) answers a later call with another second component from the cache -/
def cachedStep (f : Nat × Nat → Nat) (cache : List (Nat × Nat)) (x : Nat × Nat) : List (Nat × Nat) × Nat :=
  match cache.lookup x.1 with
  | some v => (cache, v)
  | none => ((x.1, f x) :: cache, f x)

/-- the witness: `x, x', x` with `x'` sharing the cached key -/
example : runS (cachedStep fun p => p.1 + p.2) [] [(1, 2), (1, 5)] ≠ runPure (fun p => p.1 + p.2) [(1, 2), (1, 5)] := by
  decide

end SE.History
