/- Helper lemmas of C05: the fold of `ptsBounds` computes the bounding rectangle. -/
import SoundeventModel.Bounds
namespace SE.Proofs.Lemmas.Bounds
open SE SE.Bnd

/-- one step of the fold inside `ptsBounds` -/
def stepB (b : Bounds) (q : Pt) : Bounds :=
  { st := min b.st q.1, lo := min b.lo q.2, en := max b.en q.1, hi := max b.hi q.2 }

theorem ptsBounds_cons (p : Pt) (ps : List Pt) :
    ptsBounds (p :: ps) = some (ps.foldl stepB ⟨p.1, p.2, p.1, p.2⟩) := rfl

theorem isBoundsOf_single (p : Pt) : IsBoundsOf ⟨p.1, p.2, p.1, p.2⟩ [p] := by
  constructor <;> simp

theorem isBoundsOf_step (b : Bounds) (seen : List Pt) (q : Pt) (h : IsBoundsOf b seen) :
    IsBoundsOf (stepB b q) (seen ++ [q]) := by
  obtain ⟨hc, ⟨p1, hp1, e1⟩, ⟨p2, hp2, e2⟩, ⟨p3, hp3, e3⟩, ⟨p4, hp4, e4⟩⟩ := h
  refine ⟨?_, ?_, ?_, ?_, ?_⟩
  · intro p hp
    rcases List.mem_append.mp hp with hp | hp
    · have := hc p hp
      simp only [stepB]; grind
    · have : p = q := by simpa using hp
      subst this
      simp only [stepB]; grind
  · by_cases hq : q.1 ≤ b.st
    · exact ⟨q, by simp, by simp only [stepB]; grind⟩
    · exact ⟨p1, by simp [hp1], by simp only [stepB]; grind⟩
  · by_cases hq : q.2 ≤ b.lo
    · exact ⟨q, by simp, by simp only [stepB]; grind⟩
    · exact ⟨p2, by simp [hp2], by simp only [stepB]; grind⟩
  · by_cases hq : b.en ≤ q.1
    · exact ⟨q, by simp, by simp only [stepB]; grind⟩
    · exact ⟨p3, by simp [hp3], by simp only [stepB]; grind⟩
  · by_cases hq : b.hi ≤ q.2
    · exact ⟨q, by simp, by simp only [stepB]; grind⟩
    · exact ⟨p4, by simp [hp4], by simp only [stepB]; grind⟩

theorem isBoundsOf_fold (ps : List Pt) : ∀ (b : Bounds) (seen : List Pt), IsBoundsOf b seen →
    IsBoundsOf (ps.foldl stepB b) (seen ++ ps) := by
  induction ps with
  | nil => intro b seen h; simpa using h
  | cons q qs ih =>
    intro b seen h
    have := ih (stepB b q) (seen ++ [q]) (isBoundsOf_step b seen q h)
    simpa using this

/-- `ptsBounds` returns the bounding rectangle of a non-empty list -/
theorem ptsBounds_isBoundsOf (pts : List Pt) (b : Bounds) (h : ptsBounds pts = some b) :
    IsBoundsOf b pts := by
  cases pts with
  | nil => simp [ptsBounds] at h
  | cons p ps =>
    rw [ptsBounds_cons] at h
    have hb : b = ps.foldl stepB ⟨p.1, p.2, p.1, p.2⟩ := by simpa using h.symm
    subst hb
    simpa using isBoundsOf_fold ps _ [p] (isBoundsOf_single p)

theorem ptsBounds_eq_none (pts : List Pt) : ptsBounds pts = none ↔ pts = [] := by
  cases pts <;> simp [ptsBounds]

/-- a bounding rectangle is unique -/
theorem isBoundsOf_unique (b b' : Bounds) (pts : List Pt)
    (h : IsBoundsOf b pts) (h' : IsBoundsOf b' pts) : b = b' := by
  obtain ⟨hc, ⟨p1, hp1, e1⟩, ⟨p2, hp2, e2⟩, ⟨p3, hp3, e3⟩, ⟨p4, hp4, e4⟩⟩ := h
  obtain ⟨hc', ⟨q1, hq1, f1⟩, ⟨q2, hq2, f2⟩, ⟨q3, hq3, f3⟩, ⟨q4, hq4, f4⟩⟩ := h'
  have a1 := hc' p1 hp1; have a2 := hc' p2 hp2; have a3 := hc' p3 hp3; have a4 := hc' p4 hp4
  have c1 := hc q1 hq1; have c2 := hc q2 hq2; have c3 := hc q3 hq3; have c4 := hc q4 hq4
  cases b; cases b'
  simp only [Bounds.mk.injEq] at *
  grind

/-- the rectangle of a set of points is the same whatever list enumerates them -/
theorem isBoundsOf_congr (b : Bounds) (ps qs : List Pt) (hm : ∀ p, p ∈ ps ↔ p ∈ qs)
    (h : IsBoundsOf b ps) : IsBoundsOf b qs := by
  obtain ⟨hc, ⟨p1, hp1, e1⟩, ⟨p2, hp2, e2⟩, ⟨p3, hp3, e3⟩, ⟨p4, hp4, e4⟩⟩ := h
  exact ⟨fun p hp => hc p ((hm p).mpr hp), ⟨p1, (hm _).mp hp1, e1⟩, ⟨p2, (hm _).mp hp2, e2⟩,
    ⟨p3, (hm _).mp hp3, e3⟩, ⟨p4, (hm _).mp hp4, e4⟩⟩

/-- adding points that already lie in the rectangle does not change it -/
theorem isBoundsOf_extend (b : Bounds) (ps qs : List Pt) (hsub : ∀ p ∈ ps, p ∈ qs)
    (hin : ∀ p ∈ qs, b.st ≤ p.1 ∧ p.1 ≤ b.en ∧ b.lo ≤ p.2 ∧ p.2 ≤ b.hi)
    (h : IsBoundsOf b ps) : IsBoundsOf b qs := by
  obtain ⟨_, ⟨p1, hp1, e1⟩, ⟨p2, hp2, e2⟩, ⟨p3, hp3, e3⟩, ⟨p4, hp4, e4⟩⟩ := h
  exact ⟨hin, ⟨p1, hsub _ hp1, e1⟩, ⟨p2, hsub _ hp2, e2⟩, ⟨p3, hsub _ hp3, e3⟩, ⟨p4, hsub _ hp4, e4⟩⟩

theorem isBoundsOf_ordered (b : Bounds) (pts : List Pt) (h : IsBoundsOf b pts) :
    b.st ≤ b.en ∧ b.lo ≤ b.hi := by
  obtain ⟨hc, ⟨p1, hp1, e1⟩, ⟨p2, hp2, e2⟩, _, _⟩ := h
  have a1 := hc p1 hp1; have a2 := hc p2 hp2
  grind

/-! `listMin` / `listMax` of Basic.lean -/

theorem foldl_min_spec (xs : List Rat) : ∀ a : Rat,
    (xs.foldl min a = a ∨ xs.foldl min a ∈ xs) ∧ xs.foldl min a ≤ a ∧ ∀ x ∈ xs, xs.foldl min a ≤ x := by
  induction xs with
  | nil => intro a; simp
  | cons y ys ih =>
    intro a
    obtain ⟨h1, h2, h3⟩ := ih (min a y)
    simp only [List.foldl_cons, List.mem_cons]
    refine ⟨?_, ?_, ?_⟩
    · grind
    · grind
    · intro x hx
      rcases hx with hx | hx
      · subst hx; grind
      · exact h3 x hx

theorem foldl_max_spec (xs : List Rat) : ∀ a : Rat,
    (xs.foldl max a = a ∨ xs.foldl max a ∈ xs) ∧ a ≤ xs.foldl max a ∧ ∀ x ∈ xs, x ≤ xs.foldl max a := by
  induction xs with
  | nil => intro a; simp
  | cons y ys ih =>
    intro a
    obtain ⟨h1, h2, h3⟩ := ih (max a y)
    simp only [List.foldl_cons, List.mem_cons]
    refine ⟨?_, ?_, ?_⟩
    · grind
    · grind
    · intro x hx
      rcases hx with hx | hx
      · subst hx; grind
      · exact h3 x hx

/-- `listMin xs = some m` says `m` is the least element -/
theorem listMin_eq_some_iff (xs : List Rat) (m : Rat) :
    listMin xs = some m ↔ m ∈ xs ∧ ∀ x ∈ xs, m ≤ x := by
  cases xs with
  | nil => simp [listMin]
  | cons a as =>
    obtain ⟨h1, h2, h3⟩ := foldl_min_spec as a
    simp only [listMin, Option.some.injEq, List.mem_cons]
    constructor
    · intro h; subst h
      refine ⟨by grind, ?_⟩
      intro x hx
      rcases hx with hx | hx
      · subst hx; exact h2
      · exact h3 x hx
    · rintro ⟨hm, hle⟩
      have ha := hle a (by simp)
      have : as.foldl min a ∈ a :: as := by
        rcases h1 with h | h
        · rw [h]; simp
        · exact List.mem_cons_of_mem _ h
      have hf := hle _ (List.mem_cons.mp this)
      rcases hm with hm | hm
      · subst hm; grind
      · have := h3 m hm; grind

theorem listMax_eq_some_iff (xs : List Rat) (m : Rat) :
    listMax xs = some m ↔ m ∈ xs ∧ ∀ x ∈ xs, x ≤ m := by
  cases xs with
  | nil => simp [listMax]
  | cons a as =>
    obtain ⟨h1, h2, h3⟩ := foldl_max_spec as a
    simp only [listMax, Option.some.injEq, List.mem_cons]
    constructor
    · intro h; subst h
      refine ⟨by grind, ?_⟩
      intro x hx
      rcases hx with hx | hx
      · subst hx; exact h2
      · exact h3 x hx
    · rintro ⟨hm, hle⟩
      have ha := hle a (by simp)
      have : as.foldl max a ∈ a :: as := by
        rcases h1 with h | h
        · rw [h]; simp
        · exact List.mem_cons_of_mem _ h
      have hf := hle _ (List.mem_cons.mp this)
      rcases hm with hm | hm
      · subst hm; grind
      · have := h3 m hm; grind

/-- `isBoundsOfB` decides `IsBoundsOf` -/
theorem isBoundsOfB_iff (b : Bounds) (pts : List Pt) : isBoundsOfB b pts = true ↔ IsBoundsOf b pts := by
  simp only [isBoundsOfB, Bool.and_eq_true, List.all_eq_true, List.any_eq_true, decide_eq_true_eq]
  constructor
  · rintro ⟨⟨⟨⟨h1, h2⟩, h3⟩, h4⟩, h5⟩; exact ⟨h1, h2, h3, h4, h5⟩
  · rintro ⟨h1, h2, h3, h4, h5⟩; exact ⟨⟨⟨⟨h1, h2⟩, h3⟩, h4⟩, h5⟩

/-- two association lists with the same keys whose values are determined by the key are equal -/
theorem assoc_ext {α β : Type} (f : α → Option β) : ∀ (xs ys : List (α × β)),
    xs.map (·.1) = ys.map (·.1) → (∀ p ∈ xs, f p.1 = some p.2) → (∀ p ∈ ys, f p.1 = some p.2) → xs = ys := by
  intro xs
  induction xs with
  | nil => intro ys h _ _; cases ys <;> simp_all
  | cons x xs ih =>
    intro ys h hx hy
    cases ys with
    | nil => simp at h
    | cons y ys =>
      simp only [List.map_cons, List.cons.injEq] at h
      have e1 := hx x (by simp)
      have e2 := hy y (by simp)
      have : x = y := by
        rcases x with ⟨a, v⟩; rcases y with ⟨a', v'⟩
        simp only at h e1 e2
        obtain ⟨rfl, _⟩ := h
        rw [e1] at e2; cases e2; rfl
      subst this
      congr 1
      exact ih ys h.2 (fun p hp => hx p (List.mem_cons_of_mem _ hp)) (fun p hp => hy p (List.mem_cons_of_mem _ hp))

/-- the envelope depends only on the set of points -/
theorem ptsBounds_congr_mem (ps qs : List Pt) (hm : ∀ p, p ∈ ps ↔ p ∈ qs) :
    ptsBounds ps = ptsBounds qs := by
  cases hps : ptsBounds ps with
  | none =>
    have : ps = [] := (ptsBounds_eq_none ps).mp hps
    subst this
    have : qs = [] := by
      cases qs with
      | nil => rfl
      | cons q qs => exact absurd ((hm q).mpr (by simp)) (by simp)
    subst this; rfl
  | some b =>
    cases hqs : ptsBounds qs with
    | none =>
      have : qs = [] := (ptsBounds_eq_none qs).mp hqs
      subst this
      cases ps with
      | nil => simp [ptsBounds] at hps
      | cons p ps => exact absurd ((hm p).mp (by simp)) (by simp)
    | some b' =>
      have h1 := isBoundsOf_congr b ps qs hm (ptsBounds_isBoundsOf ps b hps)
      have h2 := ptsBounds_isBoundsOf qs b' hqs
      rw [isBoundsOf_unique b b' qs h1 h2]

theorem mem_closeRing (r : List Pt) (p : Pt) : p ∈ closeRing r ↔ p ∈ r := by
  cases r with
  | nil => simp [closeRing]
  | cons a as =>
    simp only [closeRing]
    split
    · simp only [List.mem_append, List.mem_cons, List.not_mem_nil, or_false]
      constructor
      · rintro (h | h)
        · exact h
        · exact Or.inl h
      · intro h; exact Or.inl h
    · rfl

theorem closeRing_of_closed (r : List Pt) (h : ringClosed r = true) : closeRing r = r := by
  cases r with
  | nil => rfl
  | cons a as =>
    simp only [ringClosed, Bool.and_eq_true, beq_iff_eq, decide_eq_true_eq, List.head?_cons] at h
    simp only [closeRing]
    rw [if_neg]
    intro hc
    rcases hc with hc | hc
    · exact hc h.1
    · omega

/-- trailing parameters that all have defaults and are not named by a keyword take their defaults -/
theorem bindArgs_defaults (rest : List Param) (kw : List (String × String))
    (h : ∀ q ∈ rest, q.dflt.isSome = true ∧ kw.lookup q.name = none) :
    bindArgs rest [] kw = some (rest.map fun q => q.dflt.getD "") := by
  induction rest with
  | nil => rfl
  | cons q qs ih =>
    have hq := h q (by simp)
    have ih' := ih (fun r hr => h r (by simp [hr]))
    cases hd : q.dflt with
    | none => simp [hd] at hq
    | some v => simp [bindArgs, hq.2, hd, ih']

/-- the exact midpoint passes `nearMid` for every non-negative tolerance -/
theorem nearMid_exact (tol a c : Rat) (ht : 0 ≤ tol) (h : a ≤ c) : nearMid tol a c ((a + c) / 2) = true := by
  have h0 : (a + c) / 2 - (a + c) / 2 = 0 := by grind
  have h1 : a ≤ (a + c) / 2 := by grind
  have h2 : (a + c) / 2 ≤ c := by grind
  have h3 : (0 : Rat) ≤ max (if a < 0 then -a else a) (if c < 0 then -c else c) := by
    have : (0 : Rat) ≤ (if a < 0 then -a else a) := by split <;> grind
    grind
  simp only [nearMid, h0, h1, h2, decide_true, Bool.true_and, decide_eq_true_eq]
  simpa using Rat.mul_nonneg ht h3

end SE.Proofs.Lemmas.Bounds
