/-
  C01 — the writer as a total function: `save c sd = .ok d` exactly when every recording that
  gets converted has a stored path, and then `d = saveT c sd`.
-/
import Proofs.Lemmas.AoefDecode
namespace SE.Aoef
open SE.Paths

theorem bind_ok_iff {α β : Type} {m : Except Err α} {k : α → Except Err β} {y : β} :
    (m >>= k) = .ok y ↔ ∃ x, m = .ok x ∧ k x = .ok y := by
  cases m <;> simp [bind, Except.bind]

def PathsOKL (sd : Option PPath) (rs : List Recording) : Prop := ∀ r ∈ rs, PathOK sd r

theorem mapM_encRecording_iff {tids : List Tag} {sd : Option PPath} {rs : List Recording}
    {ys : List RecordingObj} :
    rs.mapM (encRecording tids sd) = .ok ys ↔ ys = rs.map (encRecordingT tids sd) ∧ PathsOKL sd rs := by
  constructor
  · intro h
    have := mapM_except_ok (encRecording tids sd) (encRecordingT tids sd)
      (fun x y hxy => (encRecording_iff.1 hxy).1) rs ys h
    exact ⟨this.1, fun r hr => (encRecording_iff.1 (this.2 r hr)).2⟩
  · rintro ⟨rfl, hp⟩
    exact mapM_except_of_ok _ _ _ (fun r hr => encRecording_iff.2 ⟨rfl, hp r hr⟩)

def sharedT (os : List Obj) (sd : Option PPath) : Shared :=
  { users := listOpt ((dedupBy (·.uuid) (usersOf os)).map encUser),
    tags := listOpt (encTags (tagTable os)),
    recordings := (dedupBy (·.uuid) (recsOf os)).map (encRecordingT (tagTable os) sd),
    clips := listOpt ((dedupBy (·.uuid) (clipsOf os)).map encClip),
    sound_events := listOpt ((dedupBy (·.uuid) (sesOf os)).map encSoundEvent),
    sequences := listOpt ((dedupBy (·.uuid) (seqsOf os)).map encSequence) }

theorem shared_iff {os : List Obj} {sd : Option PPath} {sh : Shared} :
    shared os sd = .ok sh ↔ sh = sharedT os sd ∧ PathsOKL sd (dedupBy (·.uuid) (recsOf os)) := by
  simp only [shared, bind_ok_iff, mapM_encRecording_iff, pure, Except.pure, Except.ok.injEq]
  constructor
  · rintro ⟨x, ⟨rfl, hp⟩, rfl⟩; exact ⟨rfl, hp⟩
  · rintro ⟨rfl, hp⟩; exact ⟨_, ⟨rfl, hp⟩, rfl⟩

def annotationDocT (ty : String) (uuid created_on : Atom) (cas : List ClipAnnotation)
    (os : List Obj) (sd : Option PPath) : Doc :=
  { collection_type := ty, uuid := uuid, created_on := some created_on,
    users := (sharedT os sd).users, tags := (sharedT os sd).tags,
    recordings := listOpt (sharedT os sd).recordings, clips := (sharedT os sd).clips,
    sound_events := (sharedT os sd).sound_events, sequences := (sharedT os sd).sequences,
    sound_event_annotations := (annotationLists os (tagTable os)).1,
    sequence_annotations := (annotationLists os (tagTable os)).2,
    clip_annotations := some (cas.map (encCA (tagTable os))) }

theorem annotationDoc_iff {ty : String} {uuid created_on : Atom} {cas : List ClipAnnotation}
    {os : List Obj} {sd : Option PPath} {d : Doc} :
    annotationDoc ty uuid created_on cas os sd = .ok d ↔
      d = annotationDocT ty uuid created_on cas os sd ∧ PathsOKL sd (dedupBy (·.uuid) (recsOf os)) := by
  simp only [annotationDoc, bind_ok_iff, shared_iff, pure, Except.pure, Except.ok.injEq]
  constructor
  · rintro ⟨x, ⟨rfl, hp⟩, rfl⟩; exact ⟨rfl, hp⟩
  · rintro ⟨rfl, hp⟩; exact ⟨_, ⟨rfl, hp⟩, rfl⟩

def predictionDocT (ty : String) (uuid created_on : Atom) (cps : List ClipPrediction)
    (os : List Obj) (sd : Option PPath) : Doc :=
  { collection_type := ty, uuid := uuid, created_on := some created_on,
    users := (sharedT os sd).users, tags := (sharedT os sd).tags,
    recordings := listOpt (sharedT os sd).recordings, clips := (sharedT os sd).clips,
    sound_events := (sharedT os sd).sound_events, sequences := (sharedT os sd).sequences,
    sound_event_predictions := (predictionLists os (tagTable os)).1,
    sequence_predictions := (predictionLists os (tagTable os)).2,
    clip_predictions := some (cps.map (encCP (tagTable os))) }

theorem predictionDoc_iff {ty : String} {uuid created_on : Atom} {cps : List ClipPrediction}
    {os : List Obj} {sd : Option PPath} {d : Doc} :
    predictionDoc ty uuid created_on cps os sd = .ok d ↔
      d = predictionDocT ty uuid created_on cps os sd ∧ PathsOKL sd (dedupBy (·.uuid) (recsOf os)) := by
  simp only [predictionDoc, bind_ok_iff, shared_iff, pure, Except.pure, Except.ok.injEq]
  constructor
  · rintro ⟨x, ⟨rfl, hp⟩, rfl⟩; exact ⟨rfl, hp⟩
  · rintro ⟨rfl, hp⟩; exact ⟨_, ⟨rfl, hp⟩, rfl⟩

def recordingDocT (ty : String) (uuid created_on : Atom) (recs : List Recording)
    (os : List Obj) (sd : Option PPath) : Doc :=
  { collection_type := ty, uuid := uuid, created_on := some created_on,
    users := listOpt ((dedupBy (·.uuid) (usersOf os)).map encUser),
    tags := listOpt (encTags (tagTable os)),
    recordings := some (recs.map (encRecordingT (tagTable os) sd)) }

theorem recordingDoc_iff {ty : String} {uuid created_on : Atom} {recs : List Recording}
    {os : List Obj} {sd : Option PPath} {d : Doc} :
    recordingDoc ty uuid created_on recs os sd = .ok d ↔
      d = recordingDocT ty uuid created_on recs os sd ∧ PathsOKL sd recs := by
  simp only [recordingDoc, bind_ok_iff, mapM_encRecording_iff, pure, Except.pure, Except.ok.injEq]
  constructor
  · rintro ⟨x, ⟨rfl, hp⟩, rfl⟩; exact ⟨rfl, hp⟩
  · rintro ⟨rfl, hp⟩; exact ⟨_, ⟨rfl, hp⟩, rfl⟩

def evaluationDocT (x : Evaluation) (os : List Obj) (sd : Option PPath) : Doc :=
  { collection_type := "evaluation", uuid := x.uuid, created_on := some x.created_on,
    evaluation_task := some x.evaluation_task,
    users := (sharedT os sd).users, tags := (sharedT os sd).tags,
    recordings := listOpt (sharedT os sd).recordings, clips := (sharedT os sd).clips,
    sound_events := (sharedT os sd).sound_events, sequences := (sharedT os sd).sequences,
    sound_event_annotations := (annotationLists os (tagTable os)).1,
    sequence_annotations := (annotationLists os (tagTable os)).2,
    clip_annotations := listOpt ((dedupBy (·.uuid) (casOf os)).map (encCA (tagTable os))),
    sound_event_predictions := (predictionLists os (tagTable os)).1,
    sequence_predictions := (predictionLists os (tagTable os)).2,
    clip_predictions := listOpt ((dedupBy (·.uuid) (cpsOf os)).map (encCP (tagTable os))),
    clip_evaluations := listOpt ((dedupBy (·.uuid) (cesOf os)).map encCE),
    «matches» := listOpt ((dedupBy (·.uuid) (matchesOf os)).map encMatch),
    metrics := dictOpt x.metrics, score := x.score }

/-- the document `save` writes when it succeeds -/
def saveT (c : Collection) (sd : Option PPath) : Doc :=
  match c with
  | .recordingSet x => recordingDocT "recording_set" x.uuid x.created_on x.recordings c.trav sd
  | .dataset x =>
    { recordingDocT "dataset" x.uuid x.created_on x.recordings c.trav sd with
      name := some x.name, description := x.description }
  | .annotationSet x => annotationDocT "annotation_set" x.uuid x.created_on x.clip_annotations c.trav sd
  | .annotationProject x =>
    { annotationDocT "annotation_project" x.uuid x.created_on x.clip_annotations c.trav sd with
      name := some x.name, description := x.description, instructions := x.instructions,
      project_tags := listOpt (x.annotation_tags.map (tagId (tagTable c.trav))),
      tasks := some (x.tasks.map encTask) }
  | .evaluationSet x =>
    { annotationDocT "evaluation_set" x.uuid x.created_on x.clip_annotations c.trav sd with
      name := some x.name, description := x.description,
      evaluation_tags := listOpt (x.evaluation_tags.map (tagId (tagTable c.trav))) }
  | .predictionSet x => predictionDocT "prediction_set" x.uuid x.created_on x.clip_predictions c.trav sd
  | .modelRun x =>
    { predictionDocT "model_run" x.uuid x.created_on x.clip_predictions c.trav sd with
      name := some x.name, version := x.version, description := x.description }
  | .evaluation x => evaluationDocT x c.trav sd

/-- the recordings `save` converts (and whose stored path must exist) -/
def saveRecs (c : Collection) : List Recording :=
  match c with
  | .recordingSet x => x.recordings
  | .dataset x => x.recordings
  | c => dedupBy (·.uuid) (recsOf c.trav)

theorem save_iff {c : Collection} {sd : Option PPath} {d : Doc} :
    save c sd = .ok d ↔ d = saveT c sd ∧ PathsOKL sd (saveRecs c) := by
  cases c with
  | recordingSet x => simp only [save, saveT, saveRecs, recordingDoc_iff]
  | dataset x =>
    simp only [save, saveT, saveRecs, bind_ok_iff, recordingDoc_iff, pure, Except.pure, Except.ok.injEq]
    constructor
    · rintro ⟨x, ⟨rfl, hp⟩, rfl⟩; exact ⟨rfl, hp⟩
    · rintro ⟨rfl, hp⟩; exact ⟨_, ⟨rfl, hp⟩, rfl⟩
  | annotationSet x => simp only [save, saveT, saveRecs, annotationDoc_iff]
  | annotationProject x =>
    simp only [save, saveT, saveRecs, bind_ok_iff, annotationDoc_iff, pure, Except.pure, Except.ok.injEq]
    constructor
    · rintro ⟨x, ⟨rfl, hp⟩, rfl⟩; exact ⟨rfl, hp⟩
    · rintro ⟨rfl, hp⟩; exact ⟨_, ⟨rfl, hp⟩, rfl⟩
  | evaluationSet x =>
    simp only [save, saveT, saveRecs, bind_ok_iff, annotationDoc_iff, pure, Except.pure, Except.ok.injEq]
    constructor
    · rintro ⟨x, ⟨rfl, hp⟩, rfl⟩; exact ⟨rfl, hp⟩
    · rintro ⟨rfl, hp⟩; exact ⟨_, ⟨rfl, hp⟩, rfl⟩
  | predictionSet x => simp only [save, saveT, saveRecs, predictionDoc_iff]
  | modelRun x =>
    simp only [save, saveT, saveRecs, bind_ok_iff, predictionDoc_iff, pure, Except.pure, Except.ok.injEq]
    constructor
    · rintro ⟨x, ⟨rfl, hp⟩, rfl⟩; exact ⟨rfl, hp⟩
    · rintro ⟨rfl, hp⟩; exact ⟨_, ⟨rfl, hp⟩, rfl⟩
  | evaluation x =>
    simp only [save, saveT, saveRecs, evaluationDocT, bind_ok_iff, shared_iff, pure, Except.pure, Except.ok.injEq]
    constructor
    · rintro ⟨x, ⟨rfl, hp⟩, rfl⟩; exact ⟨rfl, hp⟩
    · rintro ⟨rfl, hp⟩; exact ⟨_, ⟨rfl, hp⟩, rfl⟩

end SE.Aoef
