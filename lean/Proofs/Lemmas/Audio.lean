/- Helper lemmas for C15 (lattices, `rangeDim`, floor arithmetic). -/
import SoundeventModel.Audio
import Mathlib.Tactic.Linarith
import Mathlib.Tactic.Ring
import Mathlib.Tactic.FieldSimp
import Mathlib.Algebra.Order.Field.Rat
namespace SE.Audio

theorem lattice_length (s st : Rat) (n : Nat) : (lattice s st n).length = n := by
  simp [lattice]

theorem lattice_getElem (s st : Rat) (n i : Nat) (h : i < (lattice s st n).length) :
    (lattice s st n)[i] = s + (i : Rat) * st := by
  simp [lattice]

theorem lattice_succ (s st : Rat) (n : Nat) :
    lattice s st (n + 1) = lattice s st n ++ [s + (n : Rat) * st] := by
  simp [lattice, List.range_succ]

theorem lattice_getLast? (s st : Rat) (n : Nat) :
    (lattice s st (n + 1)).getLast? = some (s + (n : Rat) * st) := by
  rw [lattice_succ]; simp

theorem lattice_dropLast (s st : Rat) (n : Nat) :
    (lattice s st (n + 1)).dropLast = lattice s st n := by
  rw [lattice_succ]; simp

theorem ceil_toNat_eq (x : Rat) (N : Nat) (h1 : (N : Rat) - 1 < x) (h2 : x ≤ N) : x.ceil.toNat = N := by
  have a : x.ceil ≤ (N : Int) := Rat.ceil_le_iff.mpr (by exact_mod_cast h2)
  have b : ((N : Int) - 1) < x.ceil := Rat.lt_ceil_iff.mpr (by push_cast; exact h1)
  omega

/-- `create_range_dim` returns the `N`-point lattice whenever `(stop − start)/step` rounds to `N`
    (ties down): the trailing-point rule absorbs a span that is off by less than half a step. -/
theorem rangeDim_of_round (start stop step : Rat) (N : Nat) (hstep : 0 < step)
    (h1 : (N : Rat) - 1 / 2 < (stop - start) / step) (h2 : (stop - start) / step ≤ (N : Rat) + 1 / 2) :
    rangeDim start stop step = lattice start step N := by
  have hx : stop = start + (stop - start) / step * step := by field_simp; ring
  unfold rangeDim
  generalize (stop - start) / step = x at *
  by_cases hxN : x ≤ N
  · -- ceil x = N, nothing removed
    have hc : x.ceil.toNat = N := ceil_toNat_eq x N (by linarith) hxN
    rw [hc]
    cases N with
    | zero => simp [lattice]
    | succ M =>
      simp only [lattice_getLast?]
      have : ¬ (start + (M : Rat) * step ≥ stop - step / 2) := by
        push_cast at h1 hxN
        rw [hx]; intro h
        have : ((M : Rat) + 1 / 2 - x) * step ≥ 0 := by linarith
        have : (M : Rat) + 1 / 2 - x < 0 := by linarith
        nlinarith
      simp [this]
  · -- ceil x = N + 1, the trailing point is removed
    have hxN' : (N : Rat) < x := lt_of_not_ge hxN
    have hc : x.ceil.toNat = N + 1 := ceil_toNat_eq x (N + 1) (by push_cast; linarith) (by push_cast; linarith)
    rw [hc]
    simp only [lattice_getLast?]
    have : start + (N : Rat) * step ≥ stop - step / 2 := by
      rw [hx]
      have : ((N : Rat) + 1 / 2 - x) * step ≥ 0 := mul_nonneg (by linarith) hstep.le
      linarith
    simp [this, lattice_dropLast]

theorem rangeDim_is_lattice (start stop step : Rat) :
    ∃ m, rangeDim start stop step = lattice start step m := by
  unfold rangeDim
  generalize ((stop - start) / step).ceil.toNat = n
  cases n with
  | zero => exact ⟨0, by simp [lattice]⟩
  | succ M =>
    simp only [lattice_getLast?]
    by_cases h : start + (M : Rat) * step ≥ stop - step / 2
    · exact ⟨M, by simp [h, lattice_dropLast]⟩
    · exact ⟨M + 1, by simp [h]⟩

theorem rangeDim_getElem (start stop step : Rat) (i : Nat) (h : i < (rangeDim start stop step).length) :
    (rangeDim start stop step)[i] = start + (i : Rat) * step := by
  obtain ⟨m, hm⟩ := rangeDim_is_lattice start stop step
  simp [hm, lattice]

theorem readFrames_length (file : List Frame) (ch off cnt : Nat) :
    (readFrames file ch off cnt).length = cnt := by simp [readFrames]

theorem readFrames_getElem (file : List Frame) (ch off cnt i : Nat) (h : i < (readFrames file ch off cnt).length) :
    (readFrames file ch off cnt)[i] = if h' : off + i < file.length then file[off + i] else zeroFrame ch := by
  simp only [readFrames, List.getElem_map, List.getElem_range]
  split
  · rename_i h'; simp [List.getD, h']
  · rename_i h'; simp [List.getElem?_eq_none (Nat.le_of_not_lt h')]

theorem clipCount_nonneg (sr : Nat) (s e : Rat) (h : s ≤ e) : 0 ≤ clipCount sr s e := by
  unfold clipCount
  rw [Rat.le_floor_iff]
  have : (0 : Rat) ≤ (sr : Rat) := by exact_mod_cast Nat.zero_le sr
  have : 0 ≤ (e - s) * sr := mul_nonneg (by linarith) this
  simpa using this

/-- normal form of `load_clip`: the `shape` error never occurs and the time axis is the lattice
    `(off + i)/sr` -/
theorem loadClip_normal (file : List Frame) (ch sr : Nat) (s e : Rat) :
    loadClip file ch sr s e =
      if e < s then .error .clip
      else if sr = 0 then .error .clip
      else if clipOffset sr s < 0 ∨ (file.length : Int) < clipOffset sr s then .error .seek
      else .ok ⟨readFrames file ch (clipOffset sr s).toNat (clipCount sr s e).toNat,
                lattice ((clipOffset sr s : Rat) / sr) (1 / sr) (clipCount sr s e).toNat, 1 / sr⟩ := by
  unfold loadClip
  by_cases h1 : e < s
  · simp [h1]
  by_cases h2 : sr = 0
  · simp [h2]
  by_cases h3 : clipOffset sr s < 0 ∨ (file.length : Int) < clipOffset sr s
  · simp [h1, h2, h3]
  simp only [h1, h2, h3, if_false]
  have hsr : (0 : Rat) < sr := by exact_mod_cast Nat.pos_of_ne_zero h2
  have hc := clipCount_nonneg sr s e (not_lt.mp h1)
  have hcN : ((clipCount sr s e).toNat : Rat) = (clipCount sr s e : Rat) := by
    have : ((clipCount sr s e).toNat : Int) = clipCount sr s e := Int.toNat_of_nonneg hc
    exact_mod_cast this
  have hq : ((clipOffset sr s : Rat) / sr + (clipCount sr s e : Rat) / sr - (clipOffset sr s : Rat) / sr) / (1 / (sr : Rat))
      = ((clipCount sr s e).toNat : Rat) := by
    rw [hcN]; field_simp; ring
  have hr := rangeDim_of_round ((clipOffset sr s : Rat) / sr)
    ((clipOffset sr s : Rat) / sr + (clipCount sr s e : Rat) / sr) (1 / sr) (clipCount sr s e).toNat
    (one_div_pos.mpr hsr) (by rw [hq]; linarith) (by rw [hq]; linarith)
  rw [hr]
  simp [lattice_length, readFrames_length]

theorem increasing_iff (l : List Rat) :
    increasing l = true ↔ ∀ i (h : i + 1 < l.length), l[i] < l[i + 1] := by
  fun_induction increasing l with
  | case1 a b t ih =>
    simp only [Bool.and_eq_true, decide_eq_true_eq, ih]
    constructor
    · rintro ⟨hab, ht⟩ i h
      cases i with
      | zero => exact hab
      | succ j => exact ht j (by simpa using h)
    · intro hall
      refine ⟨hall 0 (by simp), fun i h => ?_⟩
      exact hall (i + 1) (by simpa using h)
  | case2 l hl =>
    simp only [true_iff]
    intro i h
    match l, hl with
    | [], _ => simp at h
    | [a], _ => simp at h
    | a :: b :: t, hl => exact absurd rfl (hl a b t)

theorem withinStepFrom_iff (first step : Rat) (j : Nat) (l : List Rat) :
    withinStepFrom first step j l = true ↔
      ∀ i (h : i < l.length), -step < l[i] - (first + ((j + i : Nat) : Rat) * step) ∧
        l[i] - (first + ((j + i : Nat) : Rat) * step) < step := by
  induction l generalizing j with
  | nil => simp [withinStepFrom]
  | cons c t ih =>
    simp only [withinStepFrom, Bool.and_eq_true, decide_eq_true_eq, ih]
    constructor
    · rintro ⟨h0, ht⟩ i h
      cases i with
      | zero => exact h0
      | succ k =>
        have := ht k (by simpa using h)
        rw [show j + 1 + k = j + (k + 1) by omega] at this
        exact this
    · intro hall
      refine ⟨hall 0 (by simp), fun i h => ?_⟩
      have := hall (i + 1) (by simpa using h)
      rw [show j + (i + 1) = j + 1 + i by omega] at this
      exact this

/-- meaning of the monitor `axisOk` -/
theorem axisOk_iff (first : Rat) (a : Axis) :
    axisOk first a = true ↔
      (∀ i (h : i + 1 < a.coords.length), a.coords[i] < a.coords[i + 1]) ∧
      (∀ h : 0 < a.coords.length, a.coords[0] = first) ∧
      (∀ i (h : i < a.coords.length), -a.step < a.coords[i] - (first + (i : Rat) * a.step) ∧
        a.coords[i] - (first + (i : Rat) * a.step) < a.step) := by
  obtain ⟨coords, step⟩ := a
  unfold axisOk
  simp only [Bool.and_eq_true, increasing_iff, withinStepFrom_iff, Nat.zero_add]
  cases coords with
  | nil => simp
  | cons c t =>
    simp only [List.head?_cons, decide_eq_true_eq]
    constructor
    · rintro ⟨⟨h1, h2⟩, h3⟩
      exact ⟨h1, fun _ => h2, h3⟩
    · rintro ⟨h1, h2, h3⟩
      exact ⟨⟨h1, h2 (by simp)⟩, h3⟩

theorem truncZ_of_nonneg (q : Rat) (h : 0 ≤ q) : truncZ q = q.floor := by simp [truncZ, h]

theorem truncZ_le_self_of_nonneg (q : Rat) (h : 0 ≤ q) : (truncZ q : Rat) ≤ q ∧ q < (truncZ q : Rat) + 1 := by
  rw [truncZ_of_nonneg q h]
  refine ⟨Rat.floor_le q, ?_⟩
  have := Rat.lt_floor_add_one q
  push_cast at this; exact this

/-- `int()` truncates toward zero: it never moves a number by a whole unit -/
theorem truncZ_near (q : Rat) : q - 1 < (truncZ q : Rat) ∧ (truncZ q : Rat) < q + 1 := by
  by_cases h : 0 ≤ q
  · have := truncZ_le_self_of_nonneg q h; constructor <;> linarith
  · simp only [truncZ, h, if_false]
    have h1 := Rat.floor_le (-q)
    have h2 := Rat.lt_floor_add_one (-q)
    push_cast at h2 ⊢
    constructor <;> linarith

/-- the resampled coordinate: closed form of the normal case -/
theorem resampleAxis_ok (n : Nat) (t0 t1 step : Rat) (target : Nat) (a : Axis)
    (h : resampleAxis n t0 t1 step target = .ok a) :
    2 ≤ n ∧ 0 < truncZ ((n : Rat) * ((target : Rat) * step)) ∧
    a = ⟨(List.range (truncZ ((n : Rat) * ((target : Rat) * step))).toNat).map fun (k : Nat) =>
          t0 + (t1 - t0) * ((n : Rat) / (truncZ ((n : Rat) * ((target : Rat) * step)) : Rat)) * (k : Rat),
         1 / (target : Rat)⟩ := by
  unfold resampleAxis at h
  by_cases h1 : n < 2
  · simp [h1] at h
  by_cases h2 : truncZ ((n : Rat) * ((target : Rat) * step)) ≤ 0
  · simp [h1, h2] at h
  simp only [h1, h2, if_false, Except.ok.injEq] at h
  exact ⟨by omega, by omega, h.symm⟩

theorem loadClip_ok (file : List Frame) (ch sr : Nat) (s e : Rat) (a : TimeArray)
    (h : loadClip file ch sr s e = .ok a) :
    s ≤ e ∧ 0 < sr ∧ 0 ≤ clipOffset sr s ∧ clipOffset sr s ≤ (file.length : Int) ∧
    a = ⟨readFrames file ch (clipOffset sr s).toNat (clipCount sr s e).toNat,
         lattice ((clipOffset sr s : Rat) / sr) (1 / sr) (clipCount sr s e).toNat, 1 / sr⟩ := by
  rw [loadClip_normal] at h
  by_cases h1 : e < s
  · simp [h1] at h
  by_cases h2 : sr = 0
  · simp [h2] at h
  by_cases h3 : clipOffset sr s < 0 ∨ (file.length : Int) < clipOffset sr s
  · simp [h1, h2, h3] at h
  simp only [h1, h2, h3, if_false, Except.ok.injEq] at h
  rw [not_or, not_lt, not_lt] at h3
  exact ⟨not_lt.mp h1, Nat.pos_of_ne_zero h2, h3.1, h3.2, h.symm⟩

theorem toNat_cast_of_nonneg (z : Int) (h : 0 ≤ z) : ((z.toNat : Nat) : Rat) = (z : Rat) := by
  have : (z.toNat : Int) = z := Int.toNat_of_nonneg h
  exact_mod_cast this

theorem loadRecording_ok (file : List Frame) (sr : Nat) (d : Rat) (a : TimeArray)
    (h : loadRecording file sr d = .ok a) :
    0 < sr ∧ a = ⟨file, lattice 0 (1 / sr) file.length, 1 / sr⟩ := by
  unfold loadRecording at h
  by_cases h2 : sr = 0
  · simp [h2] at h
  obtain ⟨m, hm⟩ := rangeDim_is_lattice 0 d (1 / sr)
  by_cases h3 : (rangeDim 0 d (1 / (sr : Rat))).length ≠ file.length
  · simp only [h2, if_false, if_pos h3] at h
    exact absurd h (by simp)
  simp only [h2, h3, if_false, Except.ok.injEq] at h
  rw [not_not, hm, lattice_length] at h3
  rw [hm, h3] at h
  exact ⟨Nat.pos_of_ne_zero h2, h.symm⟩

/-- clamping twice is clamping once: scipy's own `min nperseg len` is a no-op on the repaired code -/
theorem stftClamp_true_min (req : Int) (len : Nat) :
    min (stftClamp true req len) (len : Int) = stftClamp true req len := by
  simp only [stftClamp, if_true]; omega

theorem stftClamp_true_le (req : Int) (len : Nat) : stftClamp true req len ≤ (len : Int) := by
  simp only [stftClamp, if_true]; omega

/-- normal form of the spectrogram axes (`N` = the `nperseg` the code uses: clamped or requested) -/
theorem stftAxesGen_ok (pinned clamp : Bool) (len : Nat) (t0 step w h : Rat) (a : SpecAxes)
    (hok : stftAxesGen pinned clamp len t0 step w h = .ok a) :
    0 < len ∧ 1 ≤ stftClamp clamp (stftNperseg step w) len ∧
    stftNoverlap step w h < min (stftClamp clamp (stftNperseg step w) len) (len : Int) ∧
    a = ⟨stftClamp clamp (stftNperseg step w) len, stftNoverlap step w h,
         ⟨stftTimes t0 step (min (stftClamp clamp (stftNperseg step w) len) (len : Int) - stftNoverlap step w h)
            (stftCount len (min (stftClamp clamp (stftNperseg step w) len) (len : Int)) (stftNoverlap step w h)),
          if pinned then h
          else ((stftClamp clamp (stftNperseg step w) len - stftNoverlap step w h : Int) : Rat) / (1 / step)⟩,
         ⟨stftFreqs step (min (stftClamp clamp (stftNperseg step w) len) (len : Int)),
          1 / step / (stftClamp clamp (stftNperseg step w) len : Rat)⟩⟩ := by
  unfold stftAxesGen at hok
  generalize stftClamp clamp (stftNperseg step w) len = N at hok ⊢
  by_cases h1 : len = 0
  · simp only [h1, if_true] at hok; exact absurd hok (by simp)
  by_cases h2 : N < 1
  · simp only [h1, h2, if_true, if_false] at hok; exact absurd hok (by simp)
  by_cases h3 : stftNoverlap step w h ≥ min N (len : Int)
  · simp only [h1, h2, h3, if_true, if_false] at hok; exact absurd hok (by simp)
  simp only [h1, h2, h3, if_false, Except.ok.injEq] at hok
  exact ⟨Nat.pos_of_ne_zero h1, by omega, by omega, hok.symm⟩

/-- normal form of the axes of the code that exists (fixes C15-1 and C15-3): everything is computed
    from `N = min (requested nperseg) len`, the window scipy actually uses -/
theorem stftAxes_ok (len : Nat) (t0 step w h : Rat) (a : SpecAxes)
    (hok : stftAxes len t0 step w h = .ok a) :
    0 < len ∧ 1 ≤ min (stftNperseg step w) (len : Int) ∧
    stftNoverlap step w h < min (stftNperseg step w) (len : Int) ∧
    a = ⟨min (stftNperseg step w) (len : Int), stftNoverlap step w h,
         ⟨stftTimes t0 step (min (stftNperseg step w) (len : Int) - stftNoverlap step w h)
            (stftCount len (min (stftNperseg step w) (len : Int)) (stftNoverlap step w h)),
          ((min (stftNperseg step w) (len : Int) - stftNoverlap step w h : Int) : Rat) / (1 / step)⟩,
         ⟨stftFreqs step (min (stftNperseg step w) (len : Int)),
          1 / step / (min (stftNperseg step w) (len : Int) : Int)⟩⟩ := by
  obtain ⟨h0, h1, h2, ha⟩ := stftAxesGen_ok false true len t0 step w h a hok
  rw [stftClamp_true_min] at h2 ha
  have hc : stftClamp true (stftNperseg step w) len = min (stftNperseg step w) (len : Int) := by
    simp [stftClamp]
  rw [hc] at h1 h2 ha
  simp only [Bool.false_eq_true, if_false] at ha
  exact ⟨h0, h1, h2, ha⟩

theorem stftTimes_length (t0 step : Rat) (nstep : Int) (cnt : Nat) :
    (stftTimes t0 step nstep cnt).length = cnt := by simp [stftTimes]

theorem stftTimes_getElem (t0 step : Rat) (nstep : Int) (cnt k : Nat) (hk : k < (stftTimes t0 step nstep cnt).length) :
    (stftTimes t0 step nstep cnt)[k] = t0 + (k : Rat) * ((nstep : Rat) * step) := by
  simp only [stftTimes, List.getElem_map, List.getElem_range]
  field_simp

theorem stftFreqs_getElem (step : Rat) (nps : Int) (k : Nat) (hk : k < (stftFreqs step nps).length) :
    (stftFreqs step nps)[k] = (k : Rat) * (1 / step / (nps : Rat)) := by
  simp only [stftFreqs, List.getElem_map, List.getElem_range]
  ring

theorem axisOk_of (first st : Rat) (f : Nat → Rat) (n : Nat) (h0 : f 0 = first)
    (hinc : ∀ k, k + 1 < n → f k < f (k + 1))
    (hw : ∀ k, k < n → -st < f k - (first + (k : Rat) * st) ∧ f k - (first + (k : Rat) * st) < st) :
    axisOk first ⟨(List.range n).map f, st⟩ = true := by
  rw [axisOk_iff]
  simp only [List.length_map, List.length_range, List.getElem_map, List.getElem_range]
  exact ⟨fun i h => hinc i h, fun _ => h0, fun i h => hw i h⟩

/-- an exact lattice with a positive step is a truthful axis -/
theorem axisOk_lattice (first st : Rat) (n : Nat) (hst : 0 < st) :
    axisOk first ⟨lattice first st n, st⟩ = true := by
  unfold lattice
  apply axisOk_of first st (fun (i : Nat) => first + (i : Rat) * st) n
  · simp
  · intro k _; push_cast; nlinarith
  · intro k _; constructor <;> simp [hst]


/-! ### the traced plans (Tie 1b) and the model -/

/-- `create_range_dim` is the lattice with `rangeCount` points -/
theorem rangeDim_eq_count (start stop step : Rat) :
    rangeDim start stop step = lattice start step (rangeCount start stop step) := by
  unfold rangeDim rangeCount arangeLen
  generalize ((stop - start) / step).ceil.toNat = n
  cases n with
  | zero => simp [lattice]
  | succ M =>
    simp only [lattice_getLast?]
    have e : ((M + 1 : Nat) : Rat) - 1 = (M : Rat) := by push_cast; ring
    rw [e]
    by_cases h : start + (M : Rat) * step ≥ stop - step / 2
    · simp [h, lattice_dropLast]
    · simp [h]

/-- the count in the form the traced code computes it (`coords.size > 0 and coords[-1] >= …`) -/
theorem rangeCount_cast (start stop step : Rat) :
    ((rangeCount start stop step : Nat) : Rat) =
      if (0 : Rat) < (arangeLen start stop step : Rat) ∧
          start + ((arangeLen start stop step : Rat) - 1) * step ≥ stop - step / 2
      then (arangeLen start stop step : Rat) - 1 else (arangeLen start stop step : Rat) := by
  unfold rangeCount
  generalize arangeLen start stop step = n
  cases n with
  | zero => simp
  | succ M =>
    have hpos : (0 : Rat) < ((M + 1 : Nat) : Rat) := by push_cast; positivity
    simp only [Nat.zero_lt_succ, true_and, hpos]
    split <;> simp

/-! ### options of `compute_spectrogram`, sessions -/

/-- normal form of the axes for every `padded` / `boundary` -/
theorem stftAxesOpt_ok (padded ext : Bool) (len : Nat) (t0 step w h : Rat) (a : SpecAxes)
    (hok : stftAxesOpt padded ext len t0 step w h = .ok a) :
    0 < len ∧ 1 ≤ min (stftNperseg step w) (len : Int) ∧
    stftNoverlap step w h < min (stftNperseg step w) (len : Int) ∧
    a = ⟨min (stftNperseg step w) (len : Int), stftNoverlap step w h,
         ⟨stftTimes (stftFirst ext t0 step (min (stftNperseg step w) (len : Int))) step
            (min (stftNperseg step w) (len : Int) - stftNoverlap step w h)
            (stftCountOpt padded ext len (min (stftNperseg step w) (len : Int)) (stftNoverlap step w h)),
          ((min (stftNperseg step w) (len : Int) - stftNoverlap step w h : Int) : Rat) / (1 / step)⟩,
         ⟨stftFreqs step (min (stftNperseg step w) (len : Int)),
          1 / step / (min (stftNperseg step w) (len : Int) : Int)⟩⟩ := by
  unfold stftAxesOpt at hok
  generalize min (stftNperseg step w) (len : Int) = N at hok ⊢
  by_cases h1 : len = 0
  · simp only [h1, if_true] at hok; exact absurd hok (by simp)
  by_cases h2 : N < 1
  · simp only [h1, h2, if_true, if_false] at hok; exact absurd hok (by simp)
  by_cases h3 : stftNoverlap step w h ≥ N
  · simp only [h1, h2, h3, if_true, if_false] at hok; exact absurd hok (by simp)
  simp only [h1, h2, h3, if_false, Except.ok.injEq] at hok
  exact ⟨Nat.pos_of_ne_zero h1, by omega, by omega, hok.symm⟩

/-- the monitor's reference point may be taken from the axis itself -/
theorem axisOk_headD (first : Rat) (a : Axis) (h : axisOk first a = true) :
    axisOk (a.coords.headD 0) a = true := by
  obtain ⟨coords, st⟩ := a
  cases coords with
  | nil => simp [axisOk, increasing, withinStepFrom]
  | cons c t =>
    have h0 := ((axisOk_iff first ⟨c :: t, st⟩).mp h).2.1 (by simp)
    simp only [List.getElem_cons_zero] at h0
    simpa [h0] using h

/-- an audio axis the session invariant speaks about: an arithmetic progression (spacing `d`) that the
    monitor accepts relative to its own first coordinate, with a positive advertised step -/
def Axis.good (a : Axis) : Prop :=
  0 < a.step ∧ axisOk (a.coords.headD 0) a = true ∧
  ∃ d : Rat, ∀ i (h : i < a.coords.length), a.coords[i] = a.coords.headD 0 + (i : Rat) * d

theorem lattice_headD (s st : Rat) (n : Nat) (hn : 0 < n) : (lattice s st n).headD 0 = s := by
  cases n with
  | zero => omega
  | succ m => simp [lattice, List.range_succ_eq_map]

theorem good_lattice (s st : Rat) (n : Nat) (hst : 0 < st) : Axis.good ⟨lattice s st n, st⟩ := by
  refine ⟨hst, axisOk_headD s _ (axisOk_lattice s st n hst), st, fun i h => ?_⟩
  have hn : 0 < n := by rw [lattice_length] at h; omega
  simp only [lattice_headD s st n hn, lattice_getElem]

theorem headD_eq_getElem (l : List Rat) (h : 0 < l.length) : l.headD 0 = l[0] := by
  cases l with
  | nil => simp at h
  | cons c t => simp

/-- a contiguous slice (`isel(time=slice(a, b))`) of a good axis is good -/
theorem good_slice (x : Axis) (a b : Nat) (hx : x.good) : Axis.good ⟨(x.coords.take b).drop a, x.step⟩ := by
  obtain ⟨hst, hok, d, hd⟩ := hx
  obtain ⟨hinc, _, hw⟩ := (axisOk_iff _ _).mp hok
  have hlen : ((x.coords.take b).drop a).length = min b x.coords.length - a := by simp
  have hget : ∀ i (h : i < ((x.coords.take b).drop a).length),
      ((x.coords.take b).drop a)[i] = x.coords[a + i]'(by rw [hlen] at h; omega) := by
    intro i h; simp
  have hhead : ∀ (h : 0 < ((x.coords.take b).drop a).length),
      ((x.coords.take b).drop a).headD 0 = x.coords.headD 0 + (a : Rat) * d := by
    intro h
    rw [headD_eq_getElem _ h, hget 0 h]
    have := hd (a + 0) (by rw [hlen] at h; omega)
    simpa using this
  refine ⟨hst, ?_, d, fun i h => ?_⟩
  · rw [axisOk_iff]
    refine ⟨fun i h => ?_, fun h => ?_, fun i h => ?_⟩
    · simp only at h ⊢
      rw [hget i (by omega), hget (i + 1) h]
      exact hinc (a + i) (by rw [hlen] at h; omega)
    · simp only at h ⊢
      rw [headD_eq_getElem _ h]
    · simp only at h ⊢
      have hi : i < x.coords.length := by rw [hlen] at h; omega
      have hai : a + i < x.coords.length := by rw [hlen] at h; omega
      rw [hget i h, hhead (by omega), hd (a + i) hai]
      have := hw i hi
      rw [hd i hi] at this
      push_cast
      constructor <;> [have := this.1; have := this.2] <;> linarith
  · simp only at h ⊢
    have hai : a + i < x.coords.length := by rw [hlen] at h; omega
    rw [hget i h, hhead (by omega), hd (a + i) hai]
    push_cast; ring


/-- facts the regenerated symbolic ties may need when the code takes a fast path on a constant -/
@[simp, grind =] theorem floor_zero : Rat.floor 0 = 0 := by
  rw [show (0 : Rat) = ((0 : Int) : Rat) by simp, Rat.floor_intCast]

@[simp, grind =] theorem ceil_zero : Rat.ceil 0 = 0 := by
  rw [show (0 : Rat) = ((0 : Int) : Rat) by simp, Rat.ceil_intCast]

@[simp, grind =] theorem truncZ_zero : truncZ 0 = 0 := by simp [truncZ]


end SE.Audio
