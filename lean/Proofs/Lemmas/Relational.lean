/- Helper lemmas for C04 (sets as duplicate-free lists, counting). -/
import SoundeventModel.Relational
import SoundeventModel.RelationalHistory
namespace SE.Proofs.Lemmas.Relational
open SE SE.Relational

variable {α : Type} [DecidableEq α]

theorem mem_toSet {x : α} {xs : List α} : x ∈ toSet xs ↔ x ∈ xs := by
  induction xs with
  | nil => simp [toSet]
  | cons y ys ih =>
    by_cases h : y ∈ ys
    · simp only [toSet, h, if_true, ih, List.mem_cons]
      constructor
      · exact Or.inr
      · rintro (rfl | h') <;> assumption
    · simp [toSet, h, ih]

theorem toSet_nodup (xs : List α) : (toSet xs).Nodup := by
  induction xs with
  | nil => simp [toSet]
  | cons y ys ih =>
    by_cases h : y ∈ ys
    · simpa [toSet, h] using ih
    · simp only [toSet, h, if_false, List.nodup_cons]
      exact ⟨fun hm => h (mem_toSet.mp hm), ih⟩

theorem toSet_length_le (xs : List α) : (toSet xs).length ≤ xs.length := by
  induction xs with
  | nil => simp [toSet]
  | cons y ys ih => by_cases h : y ∈ ys <;> simp [toSet, h] <;> omega

/-- `len(xs) == len(set(xs))` says exactly that `xs` has no repeated element -/
theorem toSet_length_eq_iff (xs : List α) : (toSet xs).length = xs.length ↔ xs.Nodup := by
  induction xs with
  | nil => simp [toSet]
  | cons y ys ih =>
    have hle := toSet_length_le ys
    by_cases h : y ∈ ys
    · simp only [toSet, h, if_true, List.length_cons, List.nodup_cons, not_true_eq_false, false_and, iff_false]
      omega
    · simp only [toSet, h, if_false, List.length_cons, List.nodup_cons, not_false_eq_true, true_and]
      rw [← ih]; omega

theorem toSet_eq_self {xs : List α} (h : xs.Nodup) : toSet xs = xs := by
  induction xs with
  | nil => rfl
  | cons y ys ih =>
    have := List.nodup_cons.mp h
    simp [toSet, this.1, ih this.2]

theorem setEq_iff {xs ys : List α} : setEq xs ys = true ↔ ∀ x, x ∈ xs ↔ x ∈ ys := by
  simp only [setEq, Bool.and_eq_true, List.all_eq_true, decide_eq_true_eq]
  constructor
  · rintro ⟨h1, h2⟩ x; exact ⟨h1 x, h2 x⟩
  · intro h; exact ⟨fun x hx => (h x).mp hx, fun x hx => (h x).mpr hx⟩

theorem nodup_of_count_le_one {xs : List α} (h : ∀ x, xs.count x ≤ 1) : xs.Nodup := by
  induction xs with
  | nil => simp
  | cons y ys ih =>
    rw [List.nodup_cons]
    constructor
    · intro hm
      have h1 := h y
      have : 0 < ys.count y := List.count_pos_iff.mpr hm
      simp at h1
      omega
    · apply ih
      intro x
      have := h x
      simp only [List.count_cons] at this
      omega

/-- no repeats and the same members as `ys`  ⇔  every member of `ys` occurs exactly once and
    nothing else occurs -/
theorem exactly_once_iff {xs ys : List α} :
    (xs.Nodup ∧ ∀ x, x ∈ xs ↔ x ∈ ys) ↔ ((∀ y ∈ ys, xs.count y = 1) ∧ ∀ x ∈ xs, x ∈ ys) := by
  constructor
  · rintro ⟨hn, hm⟩
    refine ⟨fun y hy => ?_, fun x hx => (hm x).mp hx⟩
    rw [hn.count]; simp [(hm y).mpr hy]
  · rintro ⟨h1, h2⟩
    refine ⟨nodup_of_count_le_one fun x => ?_, fun x => ⟨h2 x, fun hx => ?_⟩⟩
    · by_cases hx : x ∈ xs
      · rw [h1 x (h2 x hx)]; omega
      · rw [List.count_eq_zero.mpr hx]; omega
    · apply List.count_pos_iff.mp; rw [h1 x hx]; omega

/-! ### renaming by an injective map -/

variable {β : Type} [DecidableEq β]

omit [DecidableEq α] [DecidableEq β] in
theorem mem_map_of_inj {f : α → β} (hf : ∀ x y, f x = f y → x = y) {x : α} {xs : List α} :
    f x ∈ xs.map f ↔ x ∈ xs := by
  constructor
  · intro h
    obtain ⟨y, hy, e⟩ := List.mem_map.mp h
    exact hf y x e ▸ hy
  · intro h; exact List.mem_map.mpr ⟨x, h, rfl⟩

omit [DecidableEq α] [DecidableEq β] in
theorem nodup_map_of_inj {f : α → β} (hf : ∀ x y, f x = f y → x = y) (xs : List α) :
    (xs.map f).Nodup ↔ xs.Nodup := by
  induction xs with
  | nil => simp
  | cons y ys ih =>
    rw [List.map_cons, List.nodup_cons, List.nodup_cons, ih, mem_map_of_inj hf]

omit [DecidableEq α] [DecidableEq β] in
theorem same_members_map {f : α → β} (hf : ∀ x y, f x = f y → x = y) (xs ys : List α) :
    (∀ y, y ∈ xs.map f ↔ y ∈ ys.map f) ↔ (∀ x, x ∈ xs ↔ x ∈ ys) := by
  constructor
  · intro h x
    have := h (f x)
    rwa [mem_map_of_inj hf, mem_map_of_inj hf] at this
  · intro h y
    constructor
    · intro hy
      obtain ⟨x, hx, e⟩ := List.mem_map.mp hy
      exact List.mem_map.mpr ⟨x, (h x).mp hx, e⟩
    · intro hy
      obtain ⟨x, hx, e⟩ := List.mem_map.mp hy
      exact List.mem_map.mpr ⟨x, (h x).mpr hx, e⟩

/-! ### histories -/

theorem runHistory_append (st : Store) (pre post : List HStep) :
    runHistory st (pre ++ post) = runHistory st pre ++ runHistory (execAll st pre) post := by
  induction pre generalizing st with
  | nil => simp [runHistory, execAll]
  | cons s rest ih =>
    simp only [List.cons_append, runHistory, execAll]
    cases s.verdict st with
    | none => exact ih _
    | some v => simp [ih]

theorem execAll_append (st : Store) (pre post : List HStep) :
    execAll st (pre ++ post) = execAll (execAll st pre) post := by
  induction pre generalizing st with
  | nil => rfl
  | cons s rest ih => simp [execAll, ih]

theorem Store.get_put_same (st : Store) (h : Nat) (c : Coll) : (st.put h c).get h = some c := by
  simp [Store.put, Store.get]

theorem Store.get_put_other (st : Store) {h h' : Nat} (c : Coll) (hne : h' ≠ h) : (st.put h c).get h' = st.get h' := by
  simp [Store.put, Store.get, Ne.symm hne]

end SE.Proofs.Lemmas.Relational
