/-
  C01 — generic lemmas on the machinery of the AOEF model:
  `dedupBy` (first-wins tables of the writer), `find` / `addAll` / `convAll` (first-wins tables
  of the loader), `listOpt` / `dictOpt` / `dictOf` (`x if x else None`, feature dicts),
  the tag table, `mapM` on `Except`.
-/
import Proofs.Lemmas.AoefTrav
namespace SE.Aoef
open SE.Paths

/-! ### induction from the right -/
theorem list_snoc_induction {α : Type _} {P : List α → Prop} (hnil : P [])
    (hsnoc : ∀ l x, P l → P (l ++ [x])) : ∀ l, P l := by
  intro l
  have h : ∀ r : List α, P r.reverse := by
    intro r
    induction r with
    | nil => exact hnil
    | cons x r ih => simpa using hsnoc _ x ih
  simpa using h l.reverse

/-! ### dedupBy -/
section dedup
variable {α : Type _} {κ : Type _} [DecidableEq κ] (key : α → κ)

theorem dedupBy_subset {y : α} {xs : List α} (h : y ∈ dedupBy key xs) : y ∈ xs := by
  induction xs with
  | nil => simp [dedupBy] at h
  | cons x xs ih =>
    simp only [dedupBy, List.mem_cons, List.mem_filter] at h ⊢
    rcases h with rfl | ⟨h, _⟩
    · exact Or.inl rfl
    · exact Or.inr (ih h)

theorem dedupBy_nodup_keys (xs : List α) : ((dedupBy key xs).map key).Nodup := by
  induction xs with
  | nil => simp [dedupBy]
  | cons x xs ih =>
    simp only [dedupBy, List.map_cons, List.nodup_cons, List.mem_map, List.mem_filter]
    constructor
    · rintro ⟨y, ⟨_, hy⟩, hk⟩
      simp [hk] at hy
    · exact ih.sublist (List.Sublist.map _ List.filter_sublist)

theorem dedupBy_exists_key {x : α} {xs : List α} (h : x ∈ xs) :
    ∃ y ∈ dedupBy key xs, key y = key x := by
  induction xs with
  | nil => cases h
  | cons a xs ih =>
    rcases List.mem_cons.1 h with rfl | h
    · exact ⟨x, by simp [dedupBy], rfl⟩
    · rcases ih h with ⟨y, hy, hk⟩
      by_cases hya : key y = key a
      · exact ⟨a, by simp [dedupBy], hya.symm.trans hk⟩
      · refine ⟨y, ?_, hk⟩
        simp only [dedupBy, List.mem_cons, List.mem_filter]
        exact Or.inr ⟨hy, by simpa using hya⟩

theorem dedupBy_mem_of_coherent {x : α} {xs : List α} (hc : CoherentBy key xs) (h : x ∈ xs) :
    x ∈ dedupBy key xs := by
  rcases dedupBy_exists_key key h with ⟨y, hy, hk⟩
  have : y = x := hc y (dedupBy_subset key hy) x h hk
  exact this ▸ hy

theorem dedupBy_eq_self_of_nodup {xs : List α} (h : (xs.map key).Nodup) : dedupBy key xs = xs := by
  induction xs with
  | nil => rfl
  | cons x xs ih =>
    simp only [List.map_cons, List.nodup_cons, List.mem_map, not_exists, not_and] at h
    simp only [dedupBy, ih h.2, List.cons.injEq, true_and, List.filter_eq_self]
    intro y hy
    simpa using h.1 y hy

theorem dedupBy_snoc (l : List α) (x : α) :
    dedupBy key (l ++ [x]) =
      if key x ∈ l.map key then dedupBy key l else dedupBy key l ++ [x] := by
  induction l with
  | nil => simp [dedupBy]
  | cons a l ih =>
    simp only [List.cons_append, dedupBy, ih, List.map_cons, List.mem_cons]
    by_cases h1 : key x ∈ l.map key
    · simp [h1]
    · by_cases h2 : key x = key a
      · have h1' : ¬ key a ∈ l.map key := h2 ▸ h1
        simp only [h2, h1', if_false, List.filter_append]
        simp [h2]
      · simp [h1, h2]

/-- "whatever an element requires (by key) occurs strictly before it" -/
def ReqBefore {α : Type _} {κ : Type _} (key : α → κ) (req : α → Option κ) (L : List α) : Prop :=
  ∀ l1 y l2 k, L = l1 ++ y :: l2 → req y = some k → ∃ p ∈ l1, key p = k

omit [DecidableEq κ] in
theorem reqBefore_prefix {req : α → Option κ} {l r : List α} (h : ReqBefore key req (l ++ r)) :
    ReqBefore key req l := by
  intro l1 y l2 k hl hr
  exact h l1 y (l2 ++ r) k (by simp [hl]) hr

/-- first-occurrence order: de-duplication keeps "required keys come first" -/
theorem reqBefore_dedupBy {req : α → Option κ} (L : List α) (h : ReqBefore key req L) :
    ReqBefore key req (dedupBy key L) := by
  induction L using list_snoc_induction with
  | hnil => intro l1 y l2 k hl; simp [dedupBy] at hl
  | hsnoc l x ih =>
    have ihl := ih (reqBefore_prefix key h)
    rw [dedupBy_snoc]
    split
    · exact ihl
    · intro l1 y l2 k hl hr
      rcases List.append_eq_append_iff.1 hl with ⟨a', h1, h2⟩ | ⟨c', h1, h2⟩
      · -- l1 = dedupBy l ++ a', [x] = a' ++ y :: l2
        have ha' : a' = [] := by
          cases a' with
          | nil => rfl
          | cons b bs => simp at h2
        subst ha'
        simp only [List.nil_append, List.cons.injEq] at h2
        rcases h2 with ⟨rfl, _⟩
        rcases h l x [] k rfl hr with ⟨p, hp, hk⟩
        rcases dedupBy_exists_key key hp with ⟨p', hp', hk'⟩
        exact ⟨p', by simp [h1, hp'], hk'.trans hk⟩
      · -- dedupBy l = l1 ++ c', y :: l2 = c' ++ [x]
        cases c' with
        | nil =>
          simp only [List.nil_append, List.cons.injEq] at h2
          rcases h2 with ⟨rfl, _⟩
          rcases h l y [] k rfl hr with ⟨p, hp, hk⟩
          rcases dedupBy_exists_key key hp with ⟨p', hp', hk'⟩
          exact ⟨p', by simpa [h1] using hp', hk'.trans hk⟩
        | cons b bs =>
          simp only [List.cons_append, List.cons.injEq] at h2
          rcases h2 with ⟨rfl, _⟩
          exact ihl l1 y bs k h1 hr

end dedup

/-! ### `x if x else None` and feature dicts -/
@[simp] theorem lst_listOpt {α : Type _} (xs : List α) : lst (listOpt xs) = xs := by
  cases xs <;> simp [lst, listOpt]

@[simp] theorem lst_some {α : Type _} (xs : List α) : lst (some xs) = xs := rfl
@[simp] theorem lst_none {α : Type _} : lst (none : Option (List α)) = [] := rfl

theorem dictSet_fresh (d : Dict) (f : Feature) (h : f.key ∉ d.map (·.key)) :
    dictSet d f.key f.value = d ++ [f] := by
  have : d.any (fun e => e.key == f.key) = false := by
    simp only [List.any_eq_false, beq_iff_eq]
    intro e he hk
    exact h (List.mem_map.2 ⟨e, he, hk⟩)
  simp [dictSet, this]

theorem dictOf_aux (fs : List Feature) : ∀ d : Dict, ((d ++ fs).map (·.key)).Nodup →
    fs.foldl (fun d f => dictSet d f.key f.value) d = d ++ fs := by
  induction fs with
  | nil => intro d _; simp
  | cons f fs ih =>
    intro d h
    have hf : f.key ∉ d.map (·.key) := by
      intro hm
      simp only [List.map_append, List.map_cons] at h
      have := (List.nodup_append.1 h).2.2 _ hm f.key (by simp)
      exact this rfl
    rw [List.foldl_cons, dictSet_fresh d f hf, ih (d ++ [f]) (by simpa using h)]
    simp

theorem dictOf_of_nodup {fs : List Feature} (h : (fs.map (·.key)).Nodup) : dictOf fs = fs := by
  simpa [dictOf] using dictOf_aux fs [] (by simpa using h)

theorem items_dictOpt {fs : List Feature} (h : (fs.map (·.key)).Nodup) : items (dictOpt fs) = fs := by
  cases fs with
  | nil => rfl
  | cons f fs => simp [items, dictOpt, dictOf_of_nodup h]

theorem items_some_dictOf {fs : List Feature} (h : (fs.map (·.key)).Nodup) :
    items (some (dictOf fs)) = fs := by
  simp [items, dictOf_of_nodup h]

/-! ### find -/
section find
variable {β : Type _} {κ : Type _} {γ : Type _} [BEq κ] [LawfulBEq κ]

omit [LawfulBEq κ] in
theorem find_nil (k : κ) : find ([] : Store κ γ) k = none := rfl

theorem find_map_none (key : β → κ) (g : β → γ) (xs : List β) (k : κ) (h : k ∉ xs.map key) :
    find (xs.map fun y => (key y, g y)) k = none := by
  induction xs with
  | nil => rfl
  | cons a xs ih =>
    simp only [List.map_cons, List.mem_cons, not_or] at h
    have hk : (k == key a) = false := by simpa using h.1
    simp only [find, List.map_cons, List.lookup_cons, hk]
    exact ih h.2

theorem find_map_of_nodup (key : β → κ) (g : β → γ) (xs : List β) (hnd : (xs.map key).Nodup)
    {x : β} (hx : x ∈ xs) : find (xs.map fun y => (key y, g y)) (key x) = some (g x) := by
  induction xs with
  | nil => cases hx
  | cons a xs ih =>
    simp only [List.map_cons, List.nodup_cons] at hnd
    rcases List.mem_cons.1 hx with rfl | hx
    · simp [find]
    · have hk : (key x == key a) = false := by
        have : key x ≠ key a := by
          intro e; exact hnd.1 (e ▸ List.mem_map.2 ⟨x, hx, rfl⟩)
        simpa using this
      simp only [find, List.map_cons, List.lookup_cons, hk]
      exact ih hnd.2 hx

/-- the store built from the first-wins table of a coherent list answers every member -/
theorem find_dedup_store [DecidableEq κ] (key : β → κ) (g : β → γ) (L : List β) (hc : CoherentBy key L)
    {x : β} (hx : x ∈ L) :
    find ((dedupBy key L).map fun y => (key y, g y)) (key x) = some (g x) :=
  find_map_of_nodup key g _ (dedupBy_nodup_keys key L) (dedupBy_mem_of_coherent key hc hx)

end find

/-! ### addAll / convAll -/
section addAll
variable {β : Type _} {ω : Type _} {κ : Type _} {γ : Type _} [BEq κ] [LawfulBEq κ]

theorem addAll_aux (okey : ω → κ) (key : β → κ) (enc : β → ω) (g : β → γ)
    (dec : Store κ γ → ω → Except Err γ) (hk : ∀ x, okey (enc x) = key x) :
    ∀ (q p : List β), ((p ++ q).map key).Nodup →
      (∀ p' x q', p ++ q = p' ++ x :: q' → dec (p'.map fun y => (key y, g y)) (enc x) = .ok (g x)) →
      addAll okey dec (p.map fun y => (key y, g y)) (q.map enc)
        = .ok ((p ++ q).map fun y => (key y, g y)) := by
  intro q
  induction q with
  | nil => intro p _ _; simp [addAll, pure, Except.pure]
  | cons x q ih =>
    intro p hnd hdec
    have hnone : find (p.map fun y => (key y, g y)) (key x) = none := by
      apply find_map_none
      intro hm
      simp only [List.map_append, List.map_cons] at hnd
      exact (List.nodup_append.1 hnd).2.2 _ hm (key x) (by simp) rfl
    have hd := hdec p x q rfl
    have ih' := ih (p ++ [x]) (by simpa using hnd) (by intro p' x' q' h; exact hdec p' x' q' (by simpa using h))
    simp only [addAll, List.map_cons, List.foldlM_cons, hk, hnone, hd, bind, Except.bind, pure,
      Except.pure] at ih' ⊢
    simpa using ih'

/-- registration of the encodings of a duplicate-free list: the table of the decoded values
    (`dec` may look at the table built from the prefix) -/
theorem addAll_map (okey : ω → κ) (key : β → κ) (enc : β → ω) (g : β → γ)
    (dec : Store κ γ → ω → Except Err γ) (xs : List β) (hk : ∀ x, okey (enc x) = key x)
    (hnd : (xs.map key).Nodup)
    (hdec : ∀ p x q, xs = p ++ x :: q → dec (p.map fun y => (key y, g y)) (enc x) = .ok (g x)) :
    addAll okey dec [] (xs.map enc) = .ok (xs.map fun y => (key y, g y)) := by
  simpa using addAll_aux okey key enc g dec hk xs [] (by simpa using hnd) (by simpa using hdec)

/-- the same when `dec` does not depend on the table being built -/
theorem addAll_map' (okey : ω → κ) (key : β → κ) (enc : β → ω) (g : β → γ)
    (dec : Store κ γ → ω → Except Err γ) (xs : List β) (hk : ∀ x, okey (enc x) = key x)
    (hnd : (xs.map key).Nodup)
    (hdec : ∀ st, ∀ x ∈ xs, dec st (enc x) = .ok (g x)) :
    addAll okey dec [] (xs.map enc) = .ok (xs.map fun y => (key y, g y)) := by
  apply addAll_map okey key enc g dec xs hk hnd
  intro p x q h
  exact hdec _ x (by simp [h])

theorem convAll_aux (okey : ω → κ) (key : β → κ) (enc : β → ω) (g : β → γ)
    (dec : Store κ γ → ω → Except Err γ) (hk : ∀ x, okey (enc x) = key x) :
    ∀ (q p : List β), ((p ++ q).map key).Nodup →
      (∀ st, ∀ x ∈ q, dec st (enc x) = .ok (g x)) →
      List.foldlM (fun (acc : Store κ γ × List γ) o =>
          match (find acc.1) (okey o) with
          | some v => (pure (acc.1, acc.2 ++ [v]) : Except Err _)
          | none => do let v ← dec acc.1 o; pure (acc.1 ++ [(okey o, v)], acc.2 ++ [v]))
        (p.map (fun y => (key y, g y)), p.map g) (q.map enc)
        = .ok ((p ++ q).map (fun y => (key y, g y)), (p ++ q).map g) := by
  intro q
  induction q with
  | nil => intro p _ _; simp [pure, Except.pure]
  | cons x q ih =>
    intro p hnd hdec
    have hnone : find (p.map fun y => (key y, g y)) (key x) = none := by
      apply find_map_none
      intro hm
      simp only [List.map_append, List.map_cons] at hnd
      exact (List.nodup_append.1 hnd).2.2 _ hm (key x) (by simp) rfl
    have hd := hdec (p.map fun y => (key y, g y)) x (by simp)
    have ih' := ih (p ++ [x]) (by simpa using hnd) (by intro st x' h; exact hdec st x' (by simp [h]))
    simp only [List.map_cons, List.foldlM_cons, hk, hnone, hd, bind, Except.bind, pure,
      Except.pure] at ih' ⊢
    simpa using ih'

theorem convAll_map (okey : ω → κ) (key : β → κ) (enc : β → ω) (g : β → γ)
    (dec : Store κ γ → ω → Except Err γ) (xs : List β) (hk : ∀ x, okey (enc x) = key x)
    (hnd : (xs.map key).Nodup)
    (hdec : ∀ st, ∀ x ∈ xs, dec st (enc x) = .ok (g x)) :
    convAll okey dec [] (xs.map enc) = .ok (xs.map (fun y => (key y, g y)), xs.map g) := by
  have h := convAll_aux okey key enc g dec hk xs [] (by simpa using hnd) hdec
  simp only [List.map_nil, List.nil_append] at h
  exact h

end addAll

/-! ### mapM on Except -/
theorem mapM_except_ok {α β : Type} (f : α → Except Err β) (T : α → β)
    (hT : ∀ x y, f x = .ok y → y = T x) :
    ∀ (xs : List α) (ys : List β), xs.mapM f = .ok ys → ys = xs.map T ∧ ∀ x ∈ xs, f x = .ok (T x) := by
  intro xs
  induction xs with
  | nil => intro ys h; simp [pure, Except.pure] at h; simp [h]
  | cons x xs ih =>
    intro ys h
    rw [List.mapM_cons] at h
    cases hx : f x with
    | error e => simp [hx, bind, Except.bind] at h
    | ok y =>
      cases hxs : xs.mapM f with
      | error e => simp [hx, hxs, bind, Except.bind] at h
      | ok ys' =>
        simp only [hx, hxs, bind, Except.bind, pure, Except.pure, Except.ok.injEq] at h
        have hy := hT x y hx
        rcases ih ys' hxs with ⟨h1, h2⟩
        subst hy h1
        refine ⟨h.symm, ?_⟩
        intro x' hx'
        rcases List.mem_cons.1 hx' with rfl | hx'
        · exact hx
        · exact h2 x' hx'

theorem mapM_except_of_ok {α β : Type} (f : α → Except Err β) (T : α → β) (xs : List α)
    (h : ∀ x ∈ xs, f x = .ok (T x)) : xs.mapM f = .ok (xs.map T) := by
  induction xs with
  | nil => simp [pure, Except.pure]
  | cons x xs ih =>
    rw [List.mapM_cons, h x (by simp), ih (fun y hy => h y (by simp [hy]))]
    rfl

/-! ### the tag table -/
theorem find_zipIdx (tids : List Tag) (t : Tag) (ht : t ∈ tids) : ∀ k,
    find ((tids.zipIdx k).map fun (x : Tag × Nat) => (x.2, x.1)) (k + tids.idxOf t) = some t := by
  induction tids with
  | nil => cases ht
  | cons a tids ih =>
    intro k
    by_cases hat : a = t
    · subst hat
      simp [find, List.zipIdx_cons]
    · have hbeq : (a == t) = false := by simpa using hat
      have hne : (k + List.idxOf t (a :: tids) == k) = false := by
        simp [List.idxOf_cons, hbeq]
      have ht' : t ∈ tids := by
        rcases List.mem_cons.1 ht with h | h
        · exact absurd h.symm hat
        · exact h
      have := ih ht' (k + 1)
      simp only [find, List.zipIdx_cons, List.map_cons, List.lookup_cons, hne]
      simp only [find] at this
      rw [List.idxOf_cons]
      simp only [hbeq, cond_false]
      rw [show k + (List.idxOf t tids + 1) = k + 1 + List.idxOf t tids by omega]
      exact this

end SE.Aoef
