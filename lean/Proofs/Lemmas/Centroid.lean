/- Helper lemmas of C05 (review): weighted means of points of a rectangle stay in the rectangle;
   the terms of GEOS's centroid algorithm are such weighted points. -/
import SoundeventModel.Bounds
import Proofs.Lemmas.Bounds
import Mathlib.Algebra.Order.Field.Basic
import Mathlib.Algebra.Order.Field.Rat
import Mathlib.Tactic.Linarith
import Mathlib.Tactic.FieldSimp
import Mathlib.Tactic.Ring
namespace SE.Proofs.Lemmas.Centroid
open SE SE.Bnd SE.Proofs.Lemmas.Bounds

/-- the point lies in the closed rectangle (propositional form of `inside`) -/
def InsideP (b : Bounds) (p : Pt) : Prop := b.st ≤ p.1 ∧ p.1 ≤ b.en ∧ b.lo ≤ p.2 ∧ p.2 ≤ b.hi

theorem inside_iff (b : Bounds) (p : Pt) : inside b p = true ↔ InsideP b p := by
  simp [inside, InsideP, and_assoc]

@[simp] theorem wsum_nil : wsum [] = 0 := rfl
@[simp] theorem wsum_cons (t : WPt) (ts : List WPt) : wsum (t :: ts) = t.1 + wsum ts := rfl
@[simp] theorem wsumX_nil : wsumX [] = 0 := rfl
@[simp] theorem wsumX_cons (t : WPt) (ts : List WPt) : wsumX (t :: ts) = t.1 * t.2.1 + wsumX ts := rfl
@[simp] theorem wsumY_nil : wsumY [] = 0 := rfl
@[simp] theorem wsumY_cons (t : WPt) (ts : List WPt) : wsumY (t :: ts) = t.1 * t.2.2 + wsumY ts := rfl

theorem wsum_append (xs ys : List WPt) : wsum (xs ++ ys) = wsum xs + wsum ys := by
  induction xs with
  | nil => simp
  | cons t ts ih => simp [ih, add_assoc]

theorem wsum_nonneg (ts : List WPt) (h : ∀ t ∈ ts, 0 ≤ t.1) : 0 ≤ wsum ts := by
  induction ts with
  | nil => simp
  | cons t ts ih =>
    have h1 := h t (by simp)
    have h2 := ih (fun u hu => h u (by simp [hu]))
    simp only [wsum_cons]; linarith

theorem wsum_nonpos (ts : List WPt) (h : ∀ t ∈ ts, t.1 ≤ 0) : wsum ts ≤ 0 := by
  induction ts with
  | nil => simp
  | cons t ts ih =>
    have h1 := h t (by simp)
    have h2 := ih (fun u hu => h u (by simp [hu]))
    simp only [wsum_cons]; linarith

/-- non-positive weights with a non-negative sum are all zero -/
theorem wsum_nonpos_zero (ts : List WPt) (h : ∀ t ∈ ts, t.1 ≤ 0) (hs : 0 ≤ wsum ts) :
    ∀ t ∈ ts, t.1 = 0 := by
  induction ts with
  | nil => intro t ht; simp at ht
  | cons u us ih =>
    have h1 := h u (by simp)
    have h2 := wsum_nonpos us (fun v hv => h v (by simp [hv]))
    simp only [wsum_cons] at hs
    intro t ht
    rcases List.mem_cons.mp ht with rfl | ht
    · linarith
    · exact ih (fun v hv => h v (by simp [hv])) (by linarith) t ht

theorem wsum_zero_of_nonneg (ts : List WPt) (h : ∀ t ∈ ts, 0 ≤ t.1) (hs : wsum ts = 0) :
    ∀ t ∈ ts, t.1 = 0 := by
  induction ts with
  | nil => intro t ht; simp at ht
  | cons u us ih =>
    have h1 := h u (by simp)
    have h2 := wsum_nonneg us (fun v hv => h v (by simp [hv]))
    simp only [wsum_cons] at hs
    intro t ht
    rcases List.mem_cons.mp ht with rfl | ht
    · linarith
    · exact ih (fun v hv => h v (by simp [hv])) (by linarith) t ht

theorem wsumX_ge (c : Rat) (ts : List WPt) (hw : ∀ t ∈ ts, 0 ≤ t.1) (hx : ∀ t ∈ ts, c ≤ t.2.1) :
    c * wsum ts ≤ wsumX ts := by
  induction ts with
  | nil => simp
  | cons t ts ih =>
    have := ih (fun u hu => hw u (by simp [hu])) (fun u hu => hx u (by simp [hu]))
    have h1 := mul_le_mul_of_nonneg_left (hx t (by simp)) (hw t (by simp))
    simp only [wsum_cons, wsumX_cons]; nlinarith

theorem wsumX_le (c : Rat) (ts : List WPt) (hw : ∀ t ∈ ts, 0 ≤ t.1) (hx : ∀ t ∈ ts, t.2.1 ≤ c) :
    wsumX ts ≤ c * wsum ts := by
  induction ts with
  | nil => simp
  | cons t ts ih =>
    have := ih (fun u hu => hw u (by simp [hu])) (fun u hu => hx u (by simp [hu]))
    have h1 := mul_le_mul_of_nonneg_left (hx t (by simp)) (hw t (by simp))
    simp only [wsum_cons, wsumX_cons]; nlinarith

theorem wsumY_ge (c : Rat) (ts : List WPt) (hw : ∀ t ∈ ts, 0 ≤ t.1) (hx : ∀ t ∈ ts, c ≤ t.2.2) :
    c * wsum ts ≤ wsumY ts := by
  induction ts with
  | nil => simp
  | cons t ts ih =>
    have := ih (fun u hu => hw u (by simp [hu])) (fun u hu => hx u (by simp [hu]))
    have h1 := mul_le_mul_of_nonneg_left (hx t (by simp)) (hw t (by simp))
    simp only [wsum_cons, wsumY_cons]; nlinarith

theorem wsumY_le (c : Rat) (ts : List WPt) (hw : ∀ t ∈ ts, 0 ≤ t.1) (hx : ∀ t ∈ ts, t.2.2 ≤ c) :
    wsumY ts ≤ c * wsum ts := by
  induction ts with
  | nil => simp
  | cons t ts ih =>
    have := ih (fun u hu => hw u (by simp [hu])) (fun u hu => hx u (by simp [hu]))
    have h1 := mul_le_mul_of_nonneg_left (hx t (by simp)) (hw t (by simp))
    simp only [wsum_cons, wsumY_cons]; nlinarith

/-- a weighted mean (non-negative weights, positive total) of points of a rectangle lies in it -/
theorem wmean_inside (b : Bounds) (ts : List WPt) (hw : ∀ t ∈ ts, 0 ≤ t.1)
    (hin : ∀ t ∈ ts, InsideP b t.2) (hpos : 0 < wsum ts) : InsideP b (wmean ts) := by
  refine ⟨?_, ?_, ?_, ?_⟩
  · exact (le_div_iff₀ hpos).mpr (wsumX_ge _ ts hw (fun t ht => (hin t ht).1))
  · exact (div_le_iff₀ hpos).mpr (wsumX_le _ ts hw (fun t ht => (hin t ht).2.1))
  · exact (le_div_iff₀ hpos).mpr (wsumY_ge _ ts hw (fun t ht => (hin t ht).2.2.1))
  · exact (div_le_iff₀ hpos).mpr (wsumY_le _ ts hw (fun t ht => (hin t ht).2.2.2))

/-- both ends of a segment are vertices -/
theorem mem_segs (pts : List Pt) (s : Pt × Pt) (h : s ∈ segs pts) : s.1 ∈ pts ∧ s.2 ∈ pts := by
  obtain ⟨h1, h2⟩ := List.of_mem_zip (a := s.1) (b := s.2) (by simpa [segs] using h)
  exact ⟨h1, List.mem_of_mem_tail h2⟩

theorem mem_fanTerms (r : List Pt) (t : WPt) (h : t ∈ fanTerms r) :
    ∃ a p q, a ∈ r ∧ p ∈ r ∧ q ∈ r ∧ t = (tri2 a p q, ((a.1 + p.1 + q.1) / 3, (a.2 + p.2 + q.2) / 3)) := by
  cases r with
  | nil => simp [fanTerms] at h
  | cons a as =>
    simp only [fanTerms, List.mem_map] at h
    obtain ⟨s, hs, rfl⟩ := h
    obtain ⟨h1, h2⟩ := mem_segs _ s hs
    exact ⟨a, s.1, s.2, by simp, h1, h2, rfl⟩

theorem tri_centroid_inside (b : Bounds) (a p q : Pt) (ha : InsideP b a) (hp : InsideP b p)
    (hq : InsideP b q) : InsideP b ((a.1 + p.1 + q.1) / 3, (a.2 + p.2 + q.2) / 3) := by
  obtain ⟨a1, a2, a3, a4⟩ := ha
  obtain ⟨p1, p2, p3, p4⟩ := hp
  obtain ⟨q1, q2, q3, q4⟩ := hq
  refine ⟨?_, ?_, ?_, ?_⟩ <;> simp only <;> linarith

theorem midpoint_inside (b : Bounds) (p q : Pt) (hp : InsideP b p) (hq : InsideP b q) :
    InsideP b ((p.1 + q.1) / 2, (p.2 + q.2) / 2) := by
  obtain ⟨p1, p2, p3, p4⟩ := hp
  obtain ⟨q1, q2, q3, q4⟩ := hq
  refine ⟨?_, ?_, ?_, ?_⟩ <;> simp only <;> linarith

/-- the signed fan terms of a fan-convex shell: non-negative weights, points in the rectangle -/
theorem ringTerms_shell_ok (b : Bounds) (r : List Pt) (hr : ∀ p ∈ r, InsideP b p)
    (hf : fanSameSign r = true) : ∀ t ∈ ringTerms false r, 0 ≤ t.1 ∧ InsideP b t.2 := by
  have hin : ∀ t ∈ fanTerms r, InsideP b t.2 := by
    intro t ht
    obtain ⟨a, p, q, ha, hp, hq, rfl⟩ := mem_fanTerms r t ht
    exact tri_centroid_inside b a p q (hr a ha) (hr p hp) (hr q hq)
  simp only [fanSameSign, Bool.or_eq_true, List.all_eq_true, decide_eq_true_eq] at hf
  intro t ht
  simp only [ringTerms] at ht
  by_cases hpos : 0 ≤ wsum (fanTerms r)
  · simp only [hpos, decide_true, Bool.true_eq_false, if_false] at ht
    refine ⟨?_, hin t ht⟩
    rcases hf with hf | hf
    · exact hf t ht
    · exact le_of_eq (wsum_nonpos_zero _ hf hpos t ht).symm
  · simp only [hpos, decide_false, if_true, List.mem_map] at ht
    obtain ⟨u, hu, rfl⟩ := ht
    refine ⟨?_, hin u hu⟩
    rcases hf with hf | hf
    · exact absurd (wsum_nonneg _ hf) hpos
    · have := hf u hu; simp only; linarith

theorem segTerms_ok (len : Pt → Pt → Rat) (hlen : LenOK len) (b : Bounds) (pts : List Pt)
    (hr : ∀ p ∈ pts, InsideP b p) : ∀ t ∈ segTerms len pts, 0 ≤ t.1 ∧ InsideP b t.2 := by
  intro t ht
  simp only [segTerms, List.mem_map] at ht
  obtain ⟨s, hs, rfl⟩ := ht
  obtain ⟨h1, h2⟩ := mem_segs _ s hs
  exact ⟨hlen _ _, midpoint_inside b _ _ (hr _ h1) (hr _ h2)⟩

theorem linePtTerms_ok (len : Pt → Pt → Rat) (b : Bounds) (pts : List Pt)
    (hr : ∀ p ∈ pts, InsideP b p) : ∀ t ∈ linePtTerms len pts, t.1 = 1 ∧ InsideP b t.2 := by
  intro t ht
  cases pts with
  | nil => simp [linePtTerms] at ht
  | cons p ps =>
    simp only [linePtTerms] at ht
    split at ht
    · simp only [List.mem_cons, List.not_mem_nil, or_false] at ht
      subst ht; exact ⟨rfl, hr p (by simp)⟩
    · simp at ht


/-! the terms of a whole shape -/

theorem envPts_inside (s : Shape) (b : Bounds) (hb : s.bounds = some b) :
    ∀ p ∈ s.envPts, InsideP b p :=
  fun p hp => (ptsBounds_isBoundsOf _ _ hb).contains p hp

/-- in a tame shape (no holes) every vertex of every line / ring is an envelope vertex -/
theorem lines_sub (s : Shape) (ht : s.Tame = true) : ∀ l ∈ s.lines, ∀ p ∈ l, p ∈ s.envPts := by
  cases s with
  | point q => intro l hl; simp [Shape.lines] at hl
  | multiPoint pts => intro l hl; simp [Shape.lines] at hl
  | lineString pts =>
    intro l hl p hp
    simp only [Shape.lines, List.mem_cons, List.not_mem_nil, or_false] at hl
    subst hl; exact hp
  | multiLineString ls =>
    intro l hl p hp
    exact List.mem_flatten.mpr ⟨l, hl, hp⟩
  | polygon shell holes =>
    intro l hl p hp
    simp only [Shape.Tame, Shape.polys, List.all_cons, List.all_nil, Bool.and_true, Bool.and_eq_true,
      List.isEmpty_iff] at ht
    simp only [Shape.lines, ht.1, List.mem_cons, List.not_mem_nil, or_false] at hl
    subst hl; exact hp
  | multiPolygon ps =>
    intro l hl p hp
    simp only [Shape.Tame, Shape.polys, List.all_eq_true, Bool.and_eq_true, List.isEmpty_iff] at ht
    simp only [Shape.lines, List.mem_flatten, List.mem_map] at hl
    obtain ⟨rs, ⟨q, hq, rfl⟩, hl⟩ := hl
    simp only [(ht q hq).1, List.mem_cons, List.not_mem_nil, or_false] at hl
    subst hl
    exact List.mem_flatten.mpr ⟨q.1, List.mem_map.mpr ⟨q, hq, rfl⟩, hp⟩

/-- a shape of dimension ≥ 1 with a vertex has a non-empty line -/
theorem lines_nonempty (s : Shape) (hne : s.envPts ≠ []) :
    (∃ q, s = .point q) ∨ (∃ pts, s = .multiPoint pts) ∨ ∃ l ∈ s.lines, l ≠ [] := by
  cases s with
  | point q => exact Or.inl ⟨q, rfl⟩
  | multiPoint pts => exact Or.inr (Or.inl ⟨pts, rfl⟩)
  | lineString pts => exact Or.inr (Or.inr ⟨pts, by simp [Shape.lines], hne⟩)
  | polygon shell holes => exact Or.inr (Or.inr ⟨shell, by simp [Shape.lines], hne⟩)
  | multiLineString ls =>
    refine Or.inr (Or.inr ?_)
    simp only [Shape.envPts] at hne
    obtain ⟨p, hp⟩ := List.exists_mem_of_ne_nil _ hne
    obtain ⟨l, hl, hpl⟩ := List.mem_flatten.mp hp
    exact ⟨l, hl, List.ne_nil_of_mem hpl⟩
  | multiPolygon ps =>
    refine Or.inr (Or.inr ?_)
    simp only [Shape.envPts] at hne
    obtain ⟨p, hp⟩ := List.exists_mem_of_ne_nil _ hne
    obtain ⟨l, hl, hpl⟩ := List.mem_flatten.mp hp
    obtain ⟨q, hq, rfl⟩ := List.mem_map.mp hl
    refine ⟨q.1, ?_, List.ne_nil_of_mem hpl⟩
    simp only [Shape.lines, List.mem_flatten, List.mem_map]
    exact ⟨q.1 :: q.2, ⟨q, hq, rfl⟩, by simp⟩

theorem areaTerms_ok (s : Shape) (b : Bounds) (hb : s.bounds = some b) (ht : s.Tame = true) :
    ∀ t ∈ s.areaTerms, 0 ≤ t.1 ∧ InsideP b t.2 := by
  intro t htm
  simp only [Shape.areaTerms, List.mem_flatten, List.mem_map] at htm
  obtain ⟨l, ⟨p, hp, rfl⟩, htm⟩ := htm
  simp only [List.mem_flatten, List.mem_map] at htm
  obtain ⟨l2, ⟨r, hr, rfl⟩, htm⟩ := htm
  have htp : p.2.isEmpty = true ∧ fanSameSign p.1 = true := by
    simp only [Shape.Tame, List.all_eq_true, Bool.and_eq_true] at ht
    exact ht p hp
  have hp2 : p.2 = [] := List.isEmpty_iff.mp htp.1
  simp only [polyRings, hp2, List.map_nil, List.mem_cons, List.not_mem_nil, or_false] at hr
  subst hr
  -- the shell of a polygon of the shape is one of its lines
  have hline : p.1 ∈ s.lines := by
    cases s with
    | polygon shell holes =>
      simp only [Shape.polys, List.mem_cons, List.not_mem_nil, or_false] at hp
      subst hp; simp [Shape.lines]
    | multiPolygon ps =>
      simp only [Shape.polys] at hp
      simp only [Shape.lines, List.mem_flatten, List.mem_map]
      exact ⟨p.1 :: p.2, ⟨p, hp, rfl⟩, by simp⟩
    | point q => simp [Shape.polys] at hp
    | lineString pts => simp [Shape.polys] at hp
    | multiPoint pts => simp [Shape.polys] at hp
    | multiLineString ls => simp [Shape.polys] at hp
  have hin : ∀ q ∈ p.1, InsideP b q := fun q hq =>
    envPts_inside s b hb q (lines_sub s ht p.1 hline q hq)
  exact ringTerms_shell_ok b p.1 hin htp.2 t htm

theorem lineTerms_ok (len : Pt → Pt → Rat) (hlen : LenOK len) (s : Shape) (b : Bounds)
    (hb : s.bounds = some b) (ht : s.Tame = true) :
    ∀ t ∈ s.lineTerms len, 0 ≤ t.1 ∧ InsideP b t.2 := by
  intro t htm
  simp only [Shape.lineTerms, List.mem_flatten, List.mem_map] at htm
  obtain ⟨l, ⟨pts, hpts, rfl⟩, htm⟩ := htm
  exact segTerms_ok len hlen b pts
    (fun q hq => envPts_inside s b hb q (lines_sub s ht pts hpts q hq)) t htm

theorem ptTerms_ok (len : Pt → Pt → Rat) (s : Shape) (b : Bounds)
    (hb : s.bounds = some b) (ht : s.Tame = true) :
    ∀ t ∈ s.ptTerms len, t.1 = 1 ∧ InsideP b t.2 := by
  have hv := envPts_inside s b hb
  have hgen : ∀ t ∈ (s.lines.map (linePtTerms len)).flatten, t.1 = 1 ∧ InsideP b t.2 := by
    intro t htm
    simp only [List.mem_flatten, List.mem_map] at htm
    obtain ⟨l, ⟨pts, hpts, rfl⟩, htm⟩ := htm
    exact linePtTerms_ok len b pts (fun q hq => hv q (lines_sub s ht pts hpts q hq)) t htm
  cases s with
  | point q =>
    intro t htm
    simp only [Shape.ptTerms, List.mem_cons, List.not_mem_nil, or_false] at htm
    subst htm; exact ⟨rfl, hv q (by simp [Shape.envPts])⟩
  | multiPoint pts =>
    intro t htm
    simp only [Shape.ptTerms, List.mem_map] at htm
    obtain ⟨q, hq, rfl⟩ := htm
    exact ⟨rfl, hv q hq⟩
  | lineString pts => exact hgen
  | polygon shell holes => exact hgen
  | multiLineString ls => exact hgen
  | multiPolygon ps => exact hgen

theorem wsum_flatten_zero (tss : List (List WPt)) (hw : ∀ ts ∈ tss, ∀ t ∈ ts, 0 ≤ t.1)
    (h0 : ¬ 0 < wsum tss.flatten) : ∀ ts ∈ tss, wsum ts = 0 := by
  induction tss with
  | nil => intro ts hts; simp at hts
  | cons us uss ih =>
    have h1 := wsum_nonneg us (hw us (by simp))
    have h2 : 0 ≤ wsum uss.flatten := wsum_nonneg _ (by
      intro t ht
      obtain ⟨l, hl, htl⟩ := List.mem_flatten.mp ht
      exact hw l (by simp [hl]) t htl)
    simp only [List.flatten_cons, wsum_append] at h0
    intro ts hts
    rcases List.mem_cons.mp hts with rfl | hts
    · linarith
    · exact ih (fun l hl => hw l (by simp [hl])) (by linarith) ts hts

/-- without area and without length, a shape with a vertex still has a point term -/
theorem ptTerms_ne_nil (len : Pt → Pt → Rat) (hlen : LenOK len) (s : Shape) (hne : s.envPts ≠ [])
    (h0 : ¬ 0 < wsum (s.lineTerms len)) : s.ptTerms len ≠ [] := by
  rcases lines_nonempty s hne with ⟨q, rfl⟩ | ⟨pts, rfl⟩ | ⟨l, hl, hlne⟩
  · simp [Shape.ptTerms]
  · simpa [Shape.ptTerms, Shape.envPts] using hne
  · have hz : wsum (segTerms len l) = 0 := by
      apply wsum_flatten_zero (s.lines.map (segTerms len)) ?_ h0 _ (List.mem_map.mpr ⟨l, hl, rfl⟩)
      intro ts hts t ht
      obtain ⟨pts, _, rfl⟩ := List.mem_map.mp hts
      simp only [segTerms, List.mem_map] at ht
      obtain ⟨sg, _, rfl⟩ := ht
      exact hlen _ _
    have hmem : ∃ t, t ∈ (s.lines.map (linePtTerms len)).flatten := by
      cases l with
      | nil => exact absurd rfl hlne
      | cons p ps =>
        refine ⟨(1, p), List.mem_flatten.mpr ⟨linePtTerms len (p :: ps), List.mem_map.mpr ⟨_, hl, rfl⟩, ?_⟩⟩
        simp [linePtTerms, hz]
    obtain ⟨t, ht⟩ := hmem
    have hne' := List.ne_nil_of_mem ht
    cases s with
    | point q => simp [Shape.lines] at hl
    | multiPoint pts => simp [Shape.lines] at hl
    | lineString pts => exact hne'
    | polygon shell holes => exact hne'
    | multiLineString ls => exact hne'
    | multiPolygon ps => exact hne'

theorem wsum_ones_pos (ts : List WPt) (h1 : ∀ t ∈ ts, t.1 = 1) (hne : ts ≠ []) : 0 < wsum ts := by
  cases ts with
  | nil => exact absurd rfl hne
  | cons t us =>
    have := wsum_nonneg us (fun u hu => by rw [h1 u (by simp [hu])]; decide)
    have ht := h1 t (by simp)
    simp only [wsum_cons]; rw [ht]
    have : (0 : Rat) < 1 := by decide
    linarith

/-- **centroid inside the bounds**, for every tame shape with a vertex and any non-negative
    segment lengths -/
theorem centroid_inside (len : Pt → Pt → Rat) (hlen : LenOK len) (s : Shape) (b : Bounds)
    (hb : s.bounds = some b) (ht : s.Tame = true) :
    ∃ c, s.centroid len = some c ∧ InsideP b c := by
  have hne : s.envPts ≠ [] := by
    intro h; simp [Shape.bounds, h, ptsBounds] at hb
  unfold Shape.centroid
  by_cases h1 : wsum s.areaTerms ≠ 0
  · have hA := areaTerms_ok s b hb ht
    have hpos : 0 < wsum s.areaTerms :=
      lt_of_le_of_ne (wsum_nonneg _ (fun t h => (hA t h).1)) (Ne.symm h1)
    exact ⟨_, by simp [h1], wmean_inside b _ (fun t h => (hA t h).1) (fun t h => (hA t h).2) hpos⟩
  · by_cases h2 : 0 < wsum (s.lineTerms len)
    · have hL := lineTerms_ok len hlen s b hb ht
      exact ⟨_, by simp [h1, h2], wmean_inside b _ (fun t h => (hL t h).1) (fun t h => (hL t h).2) h2⟩
    · have hP := ptTerms_ok len s b hb ht
      have hne' := ptTerms_ne_nil len hlen s hne h2
      have hpos := wsum_ones_pos _ (fun t h => (hP t h).1) hne'
      refine ⟨_, by simp [h1, h2, hne'], wmean_inside b _ (fun t h => ?_) (fun t h => (hP t h).2) hpos⟩
      rw [(hP t h).1]; decide

/-- the areal centroid of a non-degenerate rectangle is its centre -/
theorem centroid_boxRing (len : Pt → Pt → Rat) (x0 y0 x1 y1 : Rat) (hx : x0 < x1) (hy : y0 < y1) :
    (Shape.polygon (boxRing x0 y0 x1 y1) []).centroid len = some ((x0 + x1) / 2, (y0 + y1) / 2) := by
  have hA : 0 < (x1 - x0) * (y1 - y0) := mul_pos (by linarith) (by linarith)
  have hne : x0 ≠ x1 := ne_of_lt hx
  have hw : wsum (fanTerms (boxRing x0 y0 x1 y1)) = 2 * ((x1 - x0) * (y1 - y0)) := by
    simp [boxRing, closeRing, hne, fanTerms, segs, tri2, wsum]; ring
  have hpos : 0 ≤ wsum (fanTerms (boxRing x0 y0 x1 y1)) := by rw [hw]; linarith
  have hT : (Shape.polygon (boxRing x0 y0 x1 y1) []).areaTerms = fanTerms (boxRing x0 y0 x1 y1) := by
    simp [Shape.areaTerms, Shape.polys, polyRings, ringTerms, hpos]
  have hne0 : wsum (fanTerms (boxRing x0 y0 x1 y1)) ≠ 0 := by rw [hw]; linarith
  simp only [Shape.centroid, hT, hne0, ne_eq, not_false_eq_true, if_true, Option.some.injEq]
  have hA' : (x1 - x0) * (y1 - y0) ≠ 0 := ne_of_gt hA
  simp only [wmean, hw]
  simp [boxRing, closeRing, hne, fanTerms, segs, tri2, wsumX, wsumY]
  have h1 : x1 - x0 ≠ 0 := by intro h; apply hne; linarith
  have h2 : y1 - y0 ≠ 0 := by intro h; linarith
  constructor <;> field_simp <;> ring

end SE.Proofs.Lemmas.Centroid
