/- Helper lemmas for C19, follow-up 3 (extras of a term as an insertion-ordered dict, call binding,
   memo tables). -/
import SoundeventModel.Encoding
import Batteries.Data.List.Perm
namespace SE.Proofs.Lemmas.EncodingPaths
open SE SE.Encoding

/-- with distinct keys, `lookup` finds exactly the items of the list -/
theorem lookup_eq_some_iff_mem {a : Extras} (h : (a.map (·.1)).Nodup) (k v : String) :
    a.lookup k = some v ↔ (k, v) ∈ a := by
  induction a with
  | nil => simp
  | cons p a ih =>
    obtain ⟨k', v'⟩ := p
    simp only [List.map_cons, List.nodup_cons] at h
    by_cases hk : k = k'
    · subst hk
      have hnot : ∀ w, (k, w) ∉ a := fun w hw => h.1 (List.mem_map.mpr ⟨(k, w), hw, rfl⟩)
      simp [hnot]
      exact eq_comm
    · have hb : (k == k') = false := by simpa using hk
      rw [List.lookup_cons, hb]
      simp only [List.mem_cons, Prod.mk.injEq, hk, false_and, false_or]
      exact ih h.2

theorem nodup_of_keys {a : Extras} (h : (a.map (·.1)).Nodup) : a.Nodup := by
  unfold List.Nodup at h ⊢
  exact List.Pairwise.of_map (·.1) (fun x y hne e => hne (by rw [e])) h

theorem dictEqv_iff_perm {a b : Extras} (ha : (a.map (·.1)).Nodup) (hb : (b.map (·.1)).Nodup) :
    dictEqv a b = true ↔ a.Perm b := by
  constructor
  · intro h
    simp only [dictEqv, Bool.and_eq_true, beq_iff_eq, List.all_eq_true] at h
    obtain ⟨hl, hall⟩ := h
    have hsub : a ⊆ b := by
      intro kv hkv
      have := hall kv hkv
      exact (lookup_eq_some_iff_mem hb kv.1 kv.2).mp this
    exact (List.subperm_of_subset (nodup_of_keys ha) hsub).perm_of_length_le (by omega)
  · intro h
    simp only [dictEqv, Bool.and_eq_true, beq_iff_eq, List.all_eq_true]
    refine ⟨h.length_eq, fun kv hkv => ?_⟩
    exact (lookup_eq_some_iff_mem hb kv.1 kv.2).mpr (h.subset hkv)

theorem keyLe_trans (a b c : String × String) : keyLe a b = true → keyLe b c = true → keyLe a c = true := by
  simp only [keyLe, decide_eq_true_eq]; exact String.le_trans

theorem keyLe_total (a b : String × String) : (keyLe a b || keyLe b a) = true := by
  simp only [keyLe, Bool.or_eq_true, decide_eq_true_eq]; exact String.le_total _ _

theorem insertKey_perm (kv : String × String) (l : Extras) : (insertKey kv l).Perm (kv :: l) := by
  induction l with
  | nil => exact List.Perm.refl _
  | cons x xs ih =>
    unfold insertKey
    split
    · exact List.Perm.refl _
    · exact (List.Perm.cons x ih).trans (List.Perm.swap kv x xs)

theorem insertKey_sorted (kv : String × String) (l : Extras) (h : l.Pairwise (fun x y => keyLe x y = true)) :
    (insertKey kv l).Pairwise (fun x y => keyLe x y = true) := by
  induction l with
  | nil => simp [insertKey]
  | cons x xs ih =>
    rw [List.pairwise_cons] at h
    unfold insertKey
    split
    · rename_i hle
      refine List.pairwise_cons.mpr ⟨?_, List.pairwise_cons.mpr h⟩
      intro y hy
      rcases List.mem_cons.mp hy with e | hy
      · rw [e]; exact hle
      · exact keyLe_trans _ _ _ hle (h.1 y hy)
    · rename_i hle
      have hxk : keyLe x kv = true := by
        have := keyLe_total kv x
        simp only [Bool.or_eq_true] at this
        rcases this with h1 | h1
        · exact absurd h1 hle
        · exact h1
      refine List.pairwise_cons.mpr ⟨?_, ih h.2⟩
      intro y hy
      rcases List.mem_cons.mp ((insertKey_perm kv xs).subset hy) with e | hy
      · rw [e]; exact hxk
      · exact h.1 y hy

theorem canonExtras_perm (a : Extras) : (canonExtras a).Perm a := by
  induction a with
  | nil => exact List.Perm.refl _
  | cons x xs ih => exact (insertKey_perm x _).trans (List.Perm.cons x ih)

theorem canonExtras_sorted (a : Extras) : (canonExtras a).Pairwise (fun x y => keyLe x y = true) := by
  induction a with
  | nil => simp [canonExtras]
  | cons x xs ih => exact insertKey_sorted x _ ih

theorem perm_iff_canon_eq {a b : Extras} (ha : (a.map (·.1)).Nodup) :
    a.Perm b ↔ canonExtras a = canonExtras b := by
  constructor
  · intro h
    have hp : (canonExtras a).Perm (canonExtras b) :=
      (canonExtras_perm a).trans (h.trans (canonExtras_perm b).symm)
    refine List.Perm.eq_of_pairwise (le := fun x y => keyLe x y = true) ?_ (canonExtras_sorted a)
      (canonExtras_sorted b) hp
    intro x y hx hy hxy hyx
    -- both are items of `a` (up to permutation) with the same key
    have hxa : x ∈ a := (canonExtras_perm a).subset hx
    have hya : y ∈ a := h.symm.subset ((canonExtras_perm b).subset hy)
    simp only [keyLe, decide_eq_true_eq] at hxy hyx
    have hk : x.1 = y.1 := String.le_antisymm hxy hyx
    have h1 := (lookup_eq_some_iff_mem ha x.1 x.2).mpr hxa
    have h2 := (lookup_eq_some_iff_mem ha y.1 y.2).mpr hya
    rw [hk] at h1
    have : x.2 = y.2 := Option.some.inj (h1.symm.trans h2)
    exact Prod.ext hk this
  · intro h
    exact (canonExtras_perm a).symm.trans (h ▸ canonExtras_perm b)

/-! call binding -/

theorem lookup_append_of_not_mem_keys {α} (xs ys : List (String × α)) (k : String)
    (h : k ∉ xs.map (·.1)) : (xs ++ ys).lookup k = ys.lookup k := by
  induction xs with
  | nil => rfl
  | cons p xs ih =>
    obtain ⟨a, b⟩ := p
    simp only [List.map_cons, List.mem_cons, not_or] at h
    have hb : (k == a) = false := by simpa using h.1
    simp only [List.cons_append, List.lookup_cons, hb]
    exact ih h.2

theorem lookup_append_of_lookup_some {α} (xs ys : List (String × α)) (k : String) (v : α)
    (h : xs.lookup k = some v) : (xs ++ ys).lookup k = some v := by
  induction xs with
  | nil => simp at h
  | cons p xs ih =>
    obtain ⟨a, b⟩ := p
    by_cases hk : k = a
    · subst hk; simpa [List.lookup_cons] using h
    · have hb : (k == a) = false := by simpa using hk
      simp only [List.cons_append, List.lookup_cons, hb] at h ⊢
      exact ih h

theorem lookup_zip_getElem {α} (params : List String) (pos : List α) (hn : params.Nodup) (i : Nat)
    (hi : i < params.length) (hp : i < pos.length) :
    (params.zip pos).lookup params[i] = some pos[i] := by
  induction params generalizing pos i with
  | nil => simp at hi
  | cons p ps ih =>
    cases pos with
    | nil => simp at hp
    | cons x xs =>
      cases i with
      | zero => simp
      | succ j =>
        simp only [List.nodup_cons] at hn
        have hne : (ps[j]'(by simpa using hi) == p) = false := by
          have : ps[j]'(by simpa using hi) ∈ ps := List.getElem_mem _
          have : ps[j]'(by simpa using hi) ≠ p := fun e => hn.1 (e ▸ this)
          simpa using this
        simp only [List.zip_cons_cons, List.getElem_cons_succ, List.lookup_cons, hne]
        exact ih xs hn.2 j (by simpa using hi) (by simpa using hp)

theorem keys_zip_subset {α} (params : List String) (pos : List α) :
    ∀ k, k ∈ (params.zip pos).map (·.1) → k ∈ params.take pos.length := by
  induction params generalizing pos with
  | nil => simp
  | cons p ps ih =>
    cases pos with
    | nil => simp
    | cons x xs =>
      intro k hk
      simp only [List.zip_cons_cons, List.map_cons, List.mem_cons] at hk
      simp only [List.length_cons, List.take_succ_cons, List.mem_cons]
      rcases hk with hk | hk
      · exact Or.inl hk
      · exact Or.inr (ih xs k hk)

/-! memo tables -/

theorem memoRun_sound {α β κ} [BEq κ] [LawfulBEq κ] (f : α → β) (p : α → κ)
    (h : ∀ x y, p x = p y → f x = f y) (c : List (κ × β))
    (hc : ∀ k v, c.lookup k = some v → ∀ x, p x = k → f x = v) (xs : List α) :
    memoRun f p c xs = xs.map f := by
  induction xs generalizing c with
  | nil => rfl
  | cons x xs ih =>
    simp only [memoRun, List.map_cons]
    cases hl : c.lookup (p x) with
    | some v =>
      have hv : f x = v := hc _ _ hl x rfl
      simp only [memoCall, hl, hv]
      rw [ih c hc]
    | none =>
      simp only [memoCall, hl]
      rw [ih]
      intro k v hkv y hy
      by_cases hk : k = p x
      · subst hk
        simp at hkv
        rw [← hkv]; exact h _ _ hy
      · have hb : (k == p x) = false := by simpa using hk
        simp only [List.lookup_cons, hb] at hkv
        exact hc k v hkv y hy

end SE.Proofs.Lemmas.EncodingPaths
