/-
  C01 — `load (save c sd) ld = c.mapPath (relocated sd ld)` for well-formed collections, and its
  consequences (identity round trip, relocation, fixpoint), plus the link `wfB c = true → WF c`.
-/
import Proofs.Lemmas.AoefLoad
namespace SE.Aoef
open SE.Paths

/-! ### the clip evaluations of an evaluation's traversal are its members -/
theorem cesOf_append (a b : List Obj) : cesOf (a ++ b) = cesOf a ++ cesOf b := by
  simp [cesOf, List.filterMap_append]

theorem cesOf_nil_of {os : List Obj} (h : ∀ e, Obj.clipEval e ∉ os) : cesOf os = [] := by
  simp only [cesOf, List.filterMap_eq_nil_iff]
  intro o ho
  cases o <;> first | rfl | exact absurd ho (h _)

theorem noce_recAll (r : Recording) : ∀ e, Obj.clipEval e ∉ recAll r := by
  intro s; simp [recAll, tagsAll, notesAll, noteAll, optUser]
theorem noce_clipAll (c : Clip) : ∀ e, Obj.clipEval e ∉ clipAll c := by
  intro s; simp [clipAll, noce_recAll]
theorem noce_seAll (x : SoundEvent) : ∀ e, Obj.clipEval e ∉ seAll x := by
  intro s; simp [seAll, noce_recAll]
theorem noce_seqAllAux (n : SeqNode) (as : List SeqNode) : ∀ e, Obj.clipEval e ∉ seqAllAux n as := by
  induction as generalizing n with
  | nil => intro e; simp [seqAllAux, noce_seAll]
  | cons a as ih => intro e; simp [seqAllAux, noce_seAll, ih a e]
theorem noce_seaAll (a : SoundEventAnnotation) : ∀ e, Obj.clipEval e ∉ seaAll a := by
  intro s; simp [seaAll, noce_seAll, tagsAll, notesAll, noteAll, optUser]
theorem noce_sqaAll (a : SequenceAnnotation) : ∀ e, Obj.clipEval e ∉ sqaAll a := by
  intro s; simp [sqaAll, seqAll, noce_seqAllAux, tagsAll, notesAll, noteAll, optUser]
theorem noce_sepAll (a : SoundEventPrediction) : ∀ e, Obj.clipEval e ∉ sepAll a := by
  intro s; simp [sepAll, noce_seAll, ptagsAll]
theorem noce_sqpAll (a : SequencePrediction) : ∀ e, Obj.clipEval e ∉ sqpAll a := by
  intro s; simp [sqpAll, seqAll, noce_seqAllAux, ptagsAll]
theorem noce_caAll (a : ClipAnnotation) : ∀ e, Obj.clipEval e ∉ caAll a := by
  intro s; simp [caAll, noce_clipAll, noce_seaAll, noce_sqaAll, tagsAll, notesAll, noteAll, optUser]
theorem noce_cpAll (a : ClipPrediction) : ∀ e, Obj.clipEval e ∉ cpAll a := by
  intro s; simp [cpAll, noce_clipAll, noce_sepAll, noce_sqpAll, ptagsAll]
theorem noce_matchAll (m : Match) : ∀ e, Obj.clipEval e ∉ matchAll m := by
  intro s
  cases hs : m.source <;> cases ht : m.target <;> simp [matchAll, hs, ht, noce_sepAll, noce_seaAll]

theorem cesOf_ceAll (e : ClipEvaluation) : cesOf (ceAll e) = [e] := by
  have h1 := cesOf_nil_of (noce_caAll e.annotations)
  have h2 := cesOf_nil_of (noce_cpAll e.predictions)
  have h3 : cesOf (e.«matches».flatMap matchAll) = [] :=
    cesOf_nil_of (by intro s; simp [noce_matchAll])
  simp only [ceAll, cesOf_append, h1, h2, h3, List.nil_append]
  rfl

theorem cesOf_flatMap_ceAll (xs : List ClipEvaluation) : cesOf (xs.flatMap ceAll) = xs := by
  induction xs with
  | nil => rfl
  | cons x xs ih => rw [List.flatMap_cons, cesOf_append, cesOf_ceAll, ih]; rfl

/-! ### the fields of the written documents -/
theorem sharedFields_annotationDocT (ty : String) (uuid co : Atom) (cas : List ClipAnnotation)
    (os : List Obj) (sd : Option PPath) : SharedFields os sd (annotationDocT ty uuid co cas os sd) :=
  ⟨lst_listOpt _, lst_listOpt _, lst_listOpt _, lst_listOpt _, lst_listOpt _, lst_listOpt _⟩

theorem sharedFields_predictionDocT (ty : String) (uuid co : Atom) (cps : List ClipPrediction)
    (os : List Obj) (sd : Option PPath) : SharedFields os sd (predictionDocT ty uuid co cps os sd) :=
  ⟨lst_listOpt _, lst_listOpt _, lst_listOpt _, lst_listOpt _, lst_listOpt _, lst_listOpt _⟩

theorem sharedFields_evaluationDocT (x : Evaluation) (os : List Obj) (sd : Option PPath) :
    SharedFields os sd (evaluationDocT x os sd) :=
  ⟨lst_listOpt _, lst_listOpt _, lst_listOpt _, lst_listOpt _, lst_listOpt _, lst_listOpt _⟩

/-! ### the round trip on the total writer -/
theorem roundtrip_saveT (c : Collection) (sd ld : Option PPath) (hwf : WF c)
    (hp : PathsOK sd c.trav) : load (saveT c sd) ld = .ok (c.mapPath (relocated sd ld)) := by
  have cx := hwf.ctx
  have hpb := seqPB_trav c
  have hroots := roots_subset_trav c
  cases c with
  | recordingSet x =>
    obtain ⟨st, e⟩ := loadRecordings_ok (ld := ld) cx hp
      (saveT (.recordingSet x) sd) x.recordings (lst_listOpt _) (lst_listOpt _) rfl
      (fun a ha => hroots _ (List.mem_map.2 ⟨a, ha, rfl⟩))
      (hwf.members _ (by simp [Collection.memberKeys]))
    have hty : (saveT (.recordingSet x) sd).collection_type = "recording_set" := rfl
    simp only [load, hty, e, bind, Except.bind, pure, Except.pure]
    rfl
  | dataset x =>
    obtain ⟨st, e⟩ := loadRecordings_ok (ld := ld) cx hp
      (saveT (.dataset x) sd) x.recordings (lst_listOpt _) (lst_listOpt _) rfl
      (fun a ha => hroots _ (List.mem_map.2 ⟨a, ha, rfl⟩))
      (hwf.members _ (by simp [Collection.memberKeys]))
    have hty : (saveT (.dataset x) sd).collection_type = "dataset" := rfl
    have hname : (saveT (.dataset x) sd).name = some x.name := rfl
    simp only [load, hty, hname, strict, e, bind, Except.bind, pure, Except.pure]
    rfl
  | annotationSet x =>
    obtain ⟨st, e, -, -, -⟩ := loadAnnotations_ok (ld := ld) cx hpb hp
      (saveT (.annotationSet x) sd) x.clip_annotations
      ⟨lst_listOpt _, lst_listOpt _, lst_listOpt _, lst_listOpt _, lst_listOpt _, lst_listOpt _⟩ ⟨lst_listOpt _, lst_listOpt _⟩ rfl
      (fun a ha => hroots _ (List.mem_map.2 ⟨a, ha, rfl⟩))
      (hwf.members _ (by simp [Collection.memberKeys]))
    have hty : (saveT (.annotationSet x) sd).collection_type = "annotation_set" := rfl
    simp only [load, hty, e, bind, Except.bind, pure, Except.pure]
    rfl
  | annotationProject x =>
    obtain ⟨st, e, hU, hT, hC⟩ := loadAnnotations_ok (ld := ld) cx hpb hp
      (saveT (.annotationProject x) sd) x.clip_annotations
      ⟨lst_listOpt _, lst_listOpt _, lst_listOpt _, lst_listOpt _, lst_listOpt _, lst_listOpt _⟩ ⟨lst_listOpt _, lst_listOpt _⟩ rfl
      (fun a ha => hroots _ (List.mem_append.2 (Or.inr (List.mem_map.2 ⟨a, ha, rfl⟩))))
      (hwf.members _ (by simp [Collection.memberKeys]))
    have hty : (saveT (.annotationProject x) sd).collection_type = "annotation_project" := rfl
    have hname : (saveT (.annotationProject x) sd).name = some x.name := rfl
    have htasks : convAll (·.uuid) (fun _ o => decTask st o) []
        (lst (saveT (.annotationProject x) sd).tasks)
        = .ok (x.tasks.map (fun y => (y.uuid, y.mapPath (relocated sd ld))),
               x.tasks.map (·.mapPath (relocated sd ld))) :=
      convAll_map (·.uuid) (·.uuid) encTask (AnnotationTask.mapPath (relocated sd ld))
        (fun _ o => decTask st o) x.tasks (fun _ => rfl)
        (hwf.members _ (by simp [Collection.memberKeys]))
        (fun _ t ht => decTask_enc cx hU hC (hroots _ (List.mem_append.2 (Or.inl
          (List.mem_append.2 (Or.inl (List.mem_map.2 ⟨t, ht, rfl⟩)))))))
    have htags : decTags st (saveT (.annotationProject x) sd).project_tags = x.annotation_tags :=
      decTags_listOpt hT (fun o ho => hroots _ (List.mem_append.2 (Or.inl
          (List.mem_append.2 (Or.inr ho)))))
    simp only [load, hty, hname, strict, e, htasks, htags, bind, Except.bind, pure, Except.pure]
    rfl
  | evaluationSet x =>
    obtain ⟨st, e, hU, hT, hC⟩ := loadAnnotations_ok (ld := ld) cx hpb hp
      (saveT (.evaluationSet x) sd) x.clip_annotations
      ⟨lst_listOpt _, lst_listOpt _, lst_listOpt _, lst_listOpt _, lst_listOpt _, lst_listOpt _⟩ ⟨lst_listOpt _, lst_listOpt _⟩ rfl
      (fun a ha => hroots _ (List.mem_append.2 (Or.inl (List.mem_map.2 ⟨a, ha, rfl⟩))))
      (hwf.members _ (by simp [Collection.memberKeys]))
    have hty : (saveT (.evaluationSet x) sd).collection_type = "evaluation_set" := rfl
    have hname : (saveT (.evaluationSet x) sd).name = some x.name := rfl
    have htags : decTags st (saveT (.evaluationSet x) sd).evaluation_tags = x.evaluation_tags :=
      decTags_listOpt hT (fun o ho => hroots _ (List.mem_append.2 (Or.inr ho)))
    simp only [load, hty, hname, strict, e, htags, bind, Except.bind, pure, Except.pure]
    rfl
  | predictionSet x =>
    obtain ⟨st, e⟩ := loadPredictions_ok (ld := ld) cx hpb hp
      (saveT (.predictionSet x) sd) x.clip_predictions
      ⟨lst_listOpt _, lst_listOpt _, lst_listOpt _, lst_listOpt _, lst_listOpt _, lst_listOpt _⟩ ⟨lst_listOpt _, lst_listOpt _⟩ rfl
      (fun a ha => hroots _ (List.mem_map.2 ⟨a, ha, rfl⟩))
      (hwf.members _ (by simp [Collection.memberKeys]))
    have hty : (saveT (.predictionSet x) sd).collection_type = "prediction_set" := rfl
    simp only [load, hty, e, bind, Except.bind, pure, Except.pure]
    rfl
  | modelRun x =>
    obtain ⟨st, e⟩ := loadPredictions_ok (ld := ld) cx hpb hp
      (saveT (.modelRun x) sd) x.clip_predictions
      ⟨lst_listOpt _, lst_listOpt _, lst_listOpt _, lst_listOpt _, lst_listOpt _, lst_listOpt _⟩ ⟨lst_listOpt _, lst_listOpt _⟩ rfl
      (fun a ha => hroots _ (List.mem_map.2 ⟨a, ha, rfl⟩))
      (hwf.members _ (by simp [Collection.memberKeys]))
    have hty : (saveT (.modelRun x) sd).collection_type = "model_run" := rfl
    have hname : (saveT (.modelRun x) sd).name = some x.name := rfl
    simp only [load, hty, hname, strict, e, bind, Except.bind, pure, Except.pure]
    rfl
  | evaluation x =>
    have hnd : (x.clip_evaluations.map (·.uuid)).Nodup :=
      hwf.members _ (by simp [Collection.memberKeys])
    have hces : lst (saveT (.evaluation x) sd).clip_evaluations = x.clip_evaluations.map encCE := by
      have : dedupBy (·.uuid) (cesOf (Collection.evaluation x).trav) = x.clip_evaluations := by
        rw [Collection.trav, cesOf_flatMap_ceAll]; exact dedupBy_eq_self_of_nodup _ hnd
      simp only [saveT, evaluationDocT, lst_listOpt, this]
    have e := load_evaluation_ok (ld := ld) cx hpb hp (saveT (.evaluation x) sd) x.clip_evaluations
      x.evaluation_task rfl rfl (sharedFields_evaluationDocT ..) ⟨lst_listOpt _, lst_listOpt _⟩
      ⟨lst_listOpt _, lst_listOpt _⟩ (lst_listOpt _) (lst_listOpt _) (lst_listOpt _) hces
      (fun a ha => hroots _ (List.mem_map.2 ⟨a, ha, rfl⟩)) hnd
    rw [e]
    have hm : items (saveT (.evaluation x) sd).metrics = x.metrics :=
      items_dictOpt (hwf.ownFeatures _ (by simp [Collection.ownFeatureLists]))
    rw [hm]
    rfl

/-! ### from `save` to the total writer -/
theorem recording_mem_recAll {r r' : Recording} (h : Obj.recording r ∈ recAll r') : r = r' := by
  simpa [recAll, tagsAll, notesAll, noteAll, optUser] using h

theorem savePaths_of_pathsOK {c : Collection} {sd : Option PPath} (h : PathsOK sd c.trav) :
    PathsOKL sd (saveRecs c) := by
  have hroots := roots_subset_trav c
  have hgen : PathsOKL sd (dedupBy (·.uuid) (recsOf c.trav)) :=
    fun r hr => h r (recsOf_mem.1 (dedupBy_subset _ hr))
  cases c with
  | recordingSet x => exact fun r hr => h r (hroots _ (List.mem_map.2 ⟨r, hr, rfl⟩))
  | dataset x => exact fun r hr => h r (hroots _ (List.mem_map.2 ⟨r, hr, rfl⟩))
  | annotationSet x => exact hgen
  | annotationProject x => exact hgen
  | evaluationSet x => exact hgen
  | predictionSet x => exact hgen
  | modelRun x => exact hgen
  | evaluation x => exact hgen

theorem pathsOK_of_savePaths {c : Collection} {sd : Option PPath}
    (hc : CoherentBy (·.uuid) (recsOf c.trav)) (h : PathsOKL sd (saveRecs c)) : PathsOK sd c.trav := by
  have hgen : PathsOKL sd (dedupBy (·.uuid) (recsOf c.trav)) → PathsOK sd c.trav :=
    fun h r hr => h r (dedupBy_mem_of_coherent _ hc (recsOf_mem.2 hr))
  cases c with
  | recordingSet x =>
    intro r hr
    rcases List.mem_flatMap.1 hr with ⟨r', hr', hm⟩
    exact h r (recording_mem_recAll hm ▸ hr')
  | dataset x =>
    intro r hr
    rcases List.mem_flatMap.1 hr with ⟨r', hr', hm⟩
    exact h r (recording_mem_recAll hm ▸ hr')
  | annotationSet x => exact hgen h
  | annotationProject x => exact hgen h
  | evaluationSet x => exact hgen h
  | predictionSet x => exact hgen h
  | modelRun x => exact hgen h
  | evaluation x => exact hgen h

/-- **The general round-trip theorem**: loading what was saved gives the collection back, with
    every recording's path relocated from the save directory to the load directory. -/
theorem roundtrip_general (c : Collection) (sd ld : Option PPath) (d : Doc)
    (hwf : WF c) (hs : save c sd = .ok d) :
    load d ld = .ok (c.mapPath (relocated sd ld)) := by
  obtain ⟨rfl, hp⟩ := save_iff.1 hs
  exact roundtrip_saveT c sd ld hwf (pathsOK_of_savePaths hwf.recs hp)

theorem save_of_pathsOK {c : Collection} {sd : Option PPath} (h : PathsOK sd c.trav) :
    save c sd = .ok (saveT c sd) :=
  save_iff.2 ⟨rfl, savePaths_of_pathsOK h⟩

theorem pathOK_none (r : Recording) : PathOK none r := rfl

theorem save_total (c : Collection) : save c none = .ok (saveT c none) :=
  save_of_pathsOK (fun r _ => pathOK_none r)

/-! ### paths -/
instance decidableInside (p d : PPath) : Decidable (inside p d) :=
  decidable_of_iff (p.root = d.root ∧ d.parts.isPrefixOf p.parts = true)
    (by unfold inside; rw [List.isPrefixOf_iff_prefix])

theorem storedPath_inside {p A : PPath} (h : inside p A) :
    storedPath (some A) p = .ok { root := "", parts := p.parts.drop A.parts.length } := by
  have h2 : A.parts.isPrefixOf p.parts = true := List.isPrefixOf_iff_prefix.2 h.2
  simp [storedPath, relativeTo, h.1, h2]

theorem pathOK_inside {r : Recording} {A : PPath} (h : inside r.path A) : PathOK (some A) r :=
  pathOK_iff.2 ⟨_, storedPath_inside h⟩

theorem relocated_none (p : PPath) : relocated none none p = p := rfl

theorem relocated_same {p A : PPath} (h : inside p A) : relocated (some A) (some A) p = p := by
  unfold relocated
  rw [storedPath_inside h]
  rcases h with ⟨hr, t, ht⟩
  rcases p with ⟨root, parts⟩
  simp only at hr ht
  subst hr ht
  simp [loadedPath, join]

/-! ### `mapPath` with a function that fixes every reachable recording's path -/
def FixOn (f : PPath → PPath) (os : List Obj) : Prop := ∀ r, Obj.recording r ∈ os → f r.path = r.path

theorem fixOn_append {f : PPath → PPath} {a b : List Obj} : FixOn f (a ++ b) ↔ FixOn f a ∧ FixOn f b := by
  unfold FixOn
  constructor
  · intro h; exact ⟨fun r hr => h r (List.mem_append.2 (Or.inl hr)), fun r hr => h r (List.mem_append.2 (Or.inr hr))⟩
  · rintro ⟨h1, h2⟩ r hr
    rcases List.mem_append.1 hr with h | h
    · exact h1 r h
    · exact h2 r h

theorem fixOn_flatMap {α : Type} {f : PPath → PPath} {g : α → List Obj} {xs : List α} :
    FixOn f (xs.flatMap g) ↔ ∀ x ∈ xs, FixOn f (g x) := by
  unfold FixOn
  constructor
  · intro h x hx r hr; exact h r (List.mem_flatMap.2 ⟨x, hx, hr⟩)
  · intro h r hr
    rcases List.mem_flatMap.1 hr with ⟨x, hx, hm⟩
    exact h x hx r hm

theorem map_fix {α : Type} {g : α → α} {xs : List α} (h : ∀ x ∈ xs, g x = x) : xs.map g = xs := by
  conv => rhs; rw [← List.map_id xs]
  exact List.map_congr_left h

section fix
variable {f : PPath → PPath}

theorem rec_fix {r : Recording} (h : FixOn f (recAll r)) : r.mapPath f = r := by
  have := h r (self_mem_recAll r)
  simp only [Recording.mapPath, this]

theorem clip_fix {c : Clip} (h : FixOn f (clipAll c)) : c.mapPath f = c := by
  simp only [clipAll, fixOn_append] at h
  simp only [Clip.mapPath, rec_fix h.1]

theorem se_fix {s : SoundEvent} (h : FixOn f (seAll s)) : s.mapPath f = s := by
  simp only [seAll, fixOn_append] at h
  simp only [SoundEvent.mapPath, rec_fix h.1]

theorem node_fix {n : SeqNode} (h : FixOn f (n.sound_events.flatMap seAll)) : n.mapPath f = n := by
  rw [fixOn_flatMap] at h
  simp only [SeqNode.mapPath, map_fix (fun x hx => se_fix (h x hx))]

theorem seqAux_fix (n : SeqNode) (as : List SeqNode) (h : FixOn f (seqAllAux n as)) :
    Sequence.mapPath f ⟨n, as⟩ = ⟨n, as⟩ := by
  induction as generalizing n with
  | nil =>
    simp only [seqAllAux, fixOn_append] at h
    simp only [Sequence.mapPath, node_fix h.1, List.map_nil]
  | cons a as ih =>
    simp only [seqAllAux, fixOn_append] at h
    have := ih a h.1.1
    simp only [Sequence.mapPath, Sequence.mk.injEq] at this
    simp only [Sequence.mapPath, node_fix h.1.2, List.map_cons, this.1, this.2]

theorem seq_fix {s : Sequence} (h : FixOn f (seqAll s)) : s.mapPath f = s :=
  seqAux_fix s.node s.ancestors h

theorem sea_fix {a : SoundEventAnnotation} (h : FixOn f (seaAll a)) : a.mapPath f = a := by
  simp only [seaAll, fixOn_append] at h
  simp only [SoundEventAnnotation.mapPath, se_fix h.1.1.1.1]

theorem sqa_fix {a : SequenceAnnotation} (h : FixOn f (sqaAll a)) : a.mapPath f = a := by
  simp only [sqaAll, fixOn_append] at h
  simp only [SequenceAnnotation.mapPath, seq_fix h.1.1.1.1]

theorem ca_fix {a : ClipAnnotation} (h : FixOn f (caAll a)) : a.mapPath f = a := by
  simp only [caAll, fixOn_append, fixOn_flatMap] at h
  simp only [ClipAnnotation.mapPath, clip_fix h.1.1.1.1.1,
    map_fix (fun x hx => sea_fix (h.1.1.1.2 x hx)), map_fix (fun x hx => sqa_fix (h.1.1.2 x hx))]

theorem sep_fix {a : SoundEventPrediction} (h : FixOn f (sepAll a)) : a.mapPath f = a := by
  simp only [sepAll, fixOn_append] at h
  simp only [SoundEventPrediction.mapPath, se_fix h.1.1]

theorem sqp_fix {a : SequencePrediction} (h : FixOn f (sqpAll a)) : a.mapPath f = a := by
  simp only [sqpAll, fixOn_append] at h
  simp only [SequencePrediction.mapPath, seq_fix h.1.1]

theorem cp_fix {a : ClipPrediction} (h : FixOn f (cpAll a)) : a.mapPath f = a := by
  simp only [cpAll, fixOn_append, fixOn_flatMap] at h
  simp only [ClipPrediction.mapPath, clip_fix h.1.1.1.1,
    map_fix (fun x hx => sep_fix (h.1.1.1.2 x hx)), map_fix (fun x hx => sqp_fix (h.1.1.2 x hx))]

theorem task_fix {t : AnnotationTask} (h : FixOn f (taskAll t)) : t.mapPath f = t := by
  simp only [taskAll, fixOn_append] at h
  simp only [AnnotationTask.mapPath, clip_fix h.1.2]

theorem match_fix {m : Match} (h : FixOn f (matchAll m)) : m.mapPath f = m := by
  simp only [matchAll, fixOn_append] at h
  rcases m with ⟨uuid, source, target, affinity, score, metrics⟩
  have h1 : source.map (·.mapPath f) = source := by
    cases source with
    | none => rfl
    | some p => simp only [Option.map_some, sep_fix h.1.1]
  have h2 : target.map (·.mapPath f) = target := by
    cases target with
    | none => rfl
    | some p => simp only [Option.map_some, sea_fix h.1.2]
  simp only [Match.mapPath, h1, h2]

theorem ce_fix {e : ClipEvaluation} (h : FixOn f (ceAll e)) : e.mapPath f = e := by
  simp only [ceAll, fixOn_append, fixOn_flatMap] at h
  simp only [ClipEvaluation.mapPath, ca_fix h.1.1.1, cp_fix h.1.1.2,
    map_fix (fun x hx => match_fix (h.1.2 x hx))]

theorem mapPath_fix {c : Collection} (h : FixOn f c.trav) : c.mapPath f = c := by
  cases c with
  | recordingSet x =>
    simp only [Collection.trav, fixOn_flatMap] at h
    simp only [Collection.mapPath, map_fix (fun x hx => rec_fix (h x hx))]
  | dataset x =>
    simp only [Collection.trav, fixOn_flatMap] at h
    simp only [Collection.mapPath, map_fix (fun x hx => rec_fix (h x hx))]
  | annotationSet x =>
    simp only [Collection.trav, fixOn_flatMap] at h
    simp only [Collection.mapPath, map_fix (fun x hx => ca_fix (h x hx))]
  | annotationProject x =>
    simp only [Collection.trav, fixOn_append, fixOn_flatMap] at h
    simp only [Collection.mapPath, map_fix (fun x hx => ca_fix (h.2 x hx)),
      map_fix (fun x hx => task_fix (h.1.1 x hx))]
  | evaluationSet x =>
    simp only [Collection.trav, fixOn_append, fixOn_flatMap] at h
    simp only [Collection.mapPath, map_fix (fun x hx => ca_fix (h.1 x hx))]
  | predictionSet x =>
    simp only [Collection.trav, fixOn_flatMap] at h
    simp only [Collection.mapPath, map_fix (fun x hx => cp_fix (h x hx))]
  | modelRun x =>
    simp only [Collection.trav, fixOn_flatMap] at h
    simp only [Collection.mapPath, map_fix (fun x hx => cp_fix (h x hx))]
  | evaluation x =>
    simp only [Collection.trav, fixOn_flatMap] at h
    simp only [Collection.mapPath, map_fix (fun x hx => ce_fix (h x hx))]

end fix

theorem mapPath_relocated_none (c : Collection) : c.mapPath (relocated none none) = c :=
  mapPath_fix (fun _ _ => rfl)

/-! ### iteration -/
theorem cycles_fix {c : Collection} {sd ld : Option PPath} {d : Doc}
    (hs : save c sd = .ok d) (hl : load d ld = .ok c) : ∀ n, cycles sd ld n c = .ok c := by
  intro n
  induction n with
  | zero => rfl
  | succ n ih => simp only [cycles, hs, hl, bind, Except.bind, ih]

/-! ### the executable well-formedness check implies `WF` -/
theorem coherentBy_of_B {α κ : Type} [DecidableEq α] [DecidableEq κ] (key : α → κ) (xs : List α)
    (h : coherentByB key xs = true) : CoherentBy key xs := by
  simp only [coherentByB, List.all_eq_true, Bool.or_eq_true, decide_eq_true_eq, beq_iff_eq] at h
  intro x hx y hy hk
  rcases h x hx y hy with h | h
  · exact absurd hk h
  · exact h

theorem nodup_of_B {α : Type} [BEq α] [LawfulBEq α] (xs : List α) (h : nodupB xs = true) : xs.Nodup := by
  induction xs with
  | nil => exact List.nodup_nil
  | cons x xs ih =>
    simp only [nodupB, Bool.and_eq_true, Bool.not_eq_true', List.contains_eq_mem,
      decide_eq_false_iff_not] at h
    exact List.nodup_cons.2 ⟨h.1, ih h.2⟩

theorem wf_of_wfB (c : Collection) (h : wfB c = true) : WF c := by
  simp only [wfB, Bool.and_eq_true, List.all_eq_true] at h
  obtain ⟨⟨⟨⟨⟨⟨⟨⟨⟨⟨⟨⟨⟨⟨⟨⟨h1, h2⟩, h3⟩, h4⟩, h5⟩, h6⟩, h7⟩, h8⟩, h9⟩, h10⟩, h11⟩, h12⟩, h13⟩, h14⟩, h15⟩, h16⟩, h17⟩ := h
  exact {
    users := coherentBy_of_B _ _ h1, recs := coherentBy_of_B _ _ h2, clips := coherentBy_of_B _ _ h3,
    ses := coherentBy_of_B _ _ h4, seqs := coherentBy_of_B _ _ h5, seas := coherentBy_of_B _ _ h6,
    sqas := coherentBy_of_B _ _ h7, cas := coherentBy_of_B _ _ h8, seps := coherentBy_of_B _ _ h9,
    sqps := coherentBy_of_B _ _ h10, cps := coherentBy_of_B _ _ h11, tasks := coherentBy_of_B _ _ h12,
    ms := coherentBy_of_B _ _ h13, ces := coherentBy_of_B _ _ h14,
    features := fun o ho fs hfs => nodup_of_B _ (h15 o ho fs hfs),
    ownFeatures := fun fs hfs => nodup_of_B _ (h16 fs hfs),
    members := fun ks hks => nodup_of_B _ (h17 ks hks) }

theorem coherentByB_of {α κ : Type} [DecidableEq α] [DecidableEq κ] (key : α → κ) (xs : List α)
    (h : CoherentBy key xs) : coherentByB key xs = true := by
  simp only [coherentByB, List.all_eq_true, Bool.or_eq_true, decide_eq_true_eq, beq_iff_eq]
  intro x hx y hy
  by_cases hk : key x = key y
  · exact Or.inr (h x hx y hy hk)
  · exact Or.inl hk

theorem nodupB_of {α : Type} [BEq α] [LawfulBEq α] (xs : List α) (h : xs.Nodup) : nodupB xs = true := by
  induction xs with
  | nil => rfl
  | cons x xs ih =>
    rw [List.nodup_cons] at h
    simp only [nodupB, Bool.and_eq_true, Bool.not_eq_true', List.contains_eq_mem,
      decide_eq_false_iff_not]
    exact ⟨h.1, ih h.2⟩

theorem wfB_of_wf (c : Collection) (h : WF c) : wfB c = true := by
  simp only [wfB, Bool.and_eq_true, List.all_eq_true]
  exact ⟨⟨⟨⟨⟨⟨⟨⟨⟨⟨⟨⟨⟨⟨⟨⟨coherentByB_of _ _ h.users, coherentByB_of _ _ h.recs⟩,
    coherentByB_of _ _ h.clips⟩, coherentByB_of _ _ h.ses⟩, coherentByB_of _ _ h.seqs⟩,
    coherentByB_of _ _ h.seas⟩, coherentByB_of _ _ h.sqas⟩, coherentByB_of _ _ h.cas⟩,
    coherentByB_of _ _ h.seps⟩, coherentByB_of _ _ h.sqps⟩, coherentByB_of _ _ h.cps⟩,
    coherentByB_of _ _ h.tasks⟩, coherentByB_of _ _ h.ms⟩, coherentByB_of _ _ h.ces⟩,
    fun o ho fs hfs => nodupB_of _ (h.features o ho fs hfs)⟩,
    fun fs hfs => nodupB_of _ (h.ownFeatures fs hfs)⟩,
    fun ks hks => nodupB_of _ (h.members ks hks)⟩

/-- the executable check decides the hypothesis of the round-trip theorems -/
theorem wfB_iff (c : Collection) : wfB c = true ↔ WF c := ⟨wf_of_wfB c, wfB_of_wf c⟩

/-! ### the collection type is kept -/
theorem load_typeName {d : Doc} {ld : Option PPath} {c' : Collection} (h : load d ld = .ok c') :
    c'.typeName = d.collection_type := by
  unfold load at h
  split at h
  all_goals first
    | (cases h; done)
    | (rename_i heq
       simp only [bind_ok_iff, pure, Except.pure, Except.ok.injEq] at h
       repeat (obtain ⟨_, _, h⟩ := h)
       try subst h
       rw [heq]; rfl)

theorem save_typeName {c : Collection} {sd : Option PPath} {d : Doc} (h : save c sd = .ok d) :
    d.collection_type = c.typeName := by
  obtain ⟨rfl, -⟩ := save_iff.1 h
  cases c <;> rfl

/-! ### C01_type_dispatch: the adapter table is scanned most-specific-first -/
/-- the adapter the code picks: the first entry of the table the class is a subclass of -/
def firstMatch (order : List String) (sub : String → String → Bool) (cls : String) : Option String :=
  order.find? (fun a => sub cls a)

/-- for every class in the table, the first matching entry is the class itself -/
def MostSpecificFirst (order : List String) (sub : String → String → Bool) : Bool :=
  order.all (fun c => firstMatch order sub c == some c)

theorem firstMatch_self {order : List String} {sub : String → String → Bool} {c : String}
    (h : MostSpecificFirst order sub = true) (hc : c ∈ order) : firstMatch order sub c = some c := by
  simp only [MostSpecificFirst, List.all_eq_true, beq_iff_eq] at h
  exact h c hc

/-- the subclass relation among the eight collection classes (reflexive closure) -/
def collectionSub (c a : String) : Bool :=
  c == a || [("dataset", "recording_set"), ("annotation_project", "annotation_set"),
             ("evaluation_set", "annotation_set"), ("model_run", "prediction_set")].contains (c, a)

/-- the order of the ADAPTERS table in `soundevent.io.aoef` -/
def adapterOrder : List String :=
  ["evaluation", "dataset", "annotation_project", "evaluation_set", "model_run", "annotation_set",
   "prediction_set", "recording_set"]

example : MostSpecificFirst adapterOrder collectionSub = true := by decide

/-- a table that lists a base class before its subclass is refuted -/
example : MostSpecificFirst
    ["recording_set", "dataset", "evaluation", "annotation_project", "evaluation_set", "model_run",
     "annotation_set", "prediction_set"] collectionSub = false := by decide

end SE.Aoef
