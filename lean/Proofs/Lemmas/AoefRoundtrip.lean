/-
  C01 — `load (save c sd) ld = c.mapPath (relocated sd ld)` for well-formed collections, and its
  consequences (identity round trip, relocation, fixpoint), plus the link `wfB c = true → WF c`.
-/
import Proofs.Lemmas.AoefLoad
namespace SE.Aoef
open SE.Paths

/-! ### the clip evaluations of an evaluation's traversal are its members -/
theorem cesOf_append (a b : List Obj) : cesOf (a ++ b) = cesOf a ++ cesOf b := by
  simp [cesOf, List.filterMap_append]

theorem cesOf_nil_of {os : List Obj} (h : ∀ e, Obj.clipEval e ∉ os) : cesOf os = [] := by
  simp only [cesOf, List.filterMap_eq_nil_iff]
  intro o ho
  cases o <;> first | rfl | exact absurd ho (h _)

theorem noce_recAll (r : Recording) : ∀ e, Obj.clipEval e ∉ recAll r := by
  intro s; simp [recAll, tagsAll, notesAll, noteAll, optUser]
theorem noce_clipAll (c : Clip) : ∀ e, Obj.clipEval e ∉ clipAll c := by
  intro s; simp [clipAll, noce_recAll]
theorem noce_seAll (x : SoundEvent) : ∀ e, Obj.clipEval e ∉ seAll x := by
  intro s; simp [seAll, noce_recAll]
theorem noce_seqAllAux (n : SeqNode) (as : List SeqNode) : ∀ e, Obj.clipEval e ∉ seqAllAux n as := by
  induction as generalizing n with
  | nil => intro e; simp [seqAllAux, noce_seAll]
  | cons a as ih => intro e; simp [seqAllAux, noce_seAll, ih a e]
theorem noce_seaAll (a : SoundEventAnnotation) : ∀ e, Obj.clipEval e ∉ seaAll a := by
  intro s; simp [seaAll, noce_seAll, tagsAll, notesAll, noteAll, optUser]
theorem noce_sqaAll (a : SequenceAnnotation) : ∀ e, Obj.clipEval e ∉ sqaAll a := by
  intro s; simp [sqaAll, seqAll, noce_seqAllAux, tagsAll, notesAll, noteAll, optUser]
theorem noce_sepAll (a : SoundEventPrediction) : ∀ e, Obj.clipEval e ∉ sepAll a := by
  intro s; simp [sepAll, noce_seAll, ptagsAll]
theorem noce_sqpAll (a : SequencePrediction) : ∀ e, Obj.clipEval e ∉ sqpAll a := by
  intro s; simp [sqpAll, seqAll, noce_seqAllAux, ptagsAll]
theorem noce_caAll (a : ClipAnnotation) : ∀ e, Obj.clipEval e ∉ caAll a := by
  intro s; simp [caAll, noce_clipAll, noce_seaAll, noce_sqaAll, tagsAll, notesAll, noteAll, optUser]
theorem noce_cpAll (a : ClipPrediction) : ∀ e, Obj.clipEval e ∉ cpAll a := by
  intro s; simp [cpAll, noce_clipAll, noce_sepAll, noce_sqpAll, ptagsAll]
theorem noce_matchAll (m : Match) : ∀ e, Obj.clipEval e ∉ matchAll m := by
  intro s
  cases hs : m.source <;> cases ht : m.target <;> simp [matchAll, hs, ht, noce_sepAll, noce_seaAll]

theorem cesOf_ceAll (e : ClipEvaluation) : cesOf (ceAll e) = [e] := by
  have h1 := cesOf_nil_of (noce_caAll e.annotations)
  have h2 := cesOf_nil_of (noce_cpAll e.predictions)
  have h3 : cesOf (e.«matches».flatMap matchAll) = [] :=
    cesOf_nil_of (by intro s; simp [noce_matchAll])
  simp only [ceAll, cesOf_append, h1, h2, h3, List.nil_append]
  rfl

theorem cesOf_flatMap_ceAll (xs : List ClipEvaluation) : cesOf (xs.flatMap ceAll) = xs := by
  induction xs with
  | nil => rfl
  | cons x xs ih => rw [List.flatMap_cons, cesOf_append, cesOf_ceAll, ih]; rfl

/-! ### the fields of the written documents -/
theorem sharedFields_annotationDocT (ty : String) (uuid co : Atom) (cas : List ClipAnnotation)
    (os : List Obj) (sd : Option PPath) : SharedFields os sd (annotationDocT ty uuid co cas os sd) :=
  ⟨lst_listOpt _, lst_listOpt _, lst_listOpt _, lst_listOpt _, lst_listOpt _, lst_listOpt _⟩

theorem sharedFields_predictionDocT (ty : String) (uuid co : Atom) (cps : List ClipPrediction)
    (os : List Obj) (sd : Option PPath) : SharedFields os sd (predictionDocT ty uuid co cps os sd) :=
  ⟨lst_listOpt _, lst_listOpt _, lst_listOpt _, lst_listOpt _, lst_listOpt _, lst_listOpt _⟩

theorem sharedFields_evaluationDocT (x : Evaluation) (os : List Obj) (sd : Option PPath) :
    SharedFields os sd (evaluationDocT x os sd) :=
  ⟨lst_listOpt _, lst_listOpt _, lst_listOpt _, lst_listOpt _, lst_listOpt _, lst_listOpt _⟩

/-! ### the round trip on the total writer -/
theorem roundtrip_saveT (c : Collection) (sd ld : Option PPath) (hwf : WF c)
    (hp : PathsOK sd c.trav) : load (saveT c sd) ld = .ok (c.mapPath (relocated sd ld)) := by
  have cx := hwf.ctx
  have hpb := seqPB_trav c
  have hroots := roots_subset_trav c
  cases c with
  | recordingSet x =>
    obtain ⟨st, e⟩ := loadRecordings_ok (ld := ld) cx hp
      (saveT (.recordingSet x) sd) x.recordings (lst_listOpt _) (lst_listOpt _) rfl
      (fun a ha => hroots _ (List.mem_map.2 ⟨a, ha, rfl⟩))
      (hwf.members _ (by simp [Collection.memberKeys]))
    have hty : (saveT (.recordingSet x) sd).collection_type = "recording_set" := rfl
    simp only [load, hty, e, bind, Except.bind, pure, Except.pure]
    rfl
  | dataset x =>
    obtain ⟨st, e⟩ := loadRecordings_ok (ld := ld) cx hp
      (saveT (.dataset x) sd) x.recordings (lst_listOpt _) (lst_listOpt _) rfl
      (fun a ha => hroots _ (List.mem_map.2 ⟨a, ha, rfl⟩))
      (hwf.members _ (by simp [Collection.memberKeys]))
    have hty : (saveT (.dataset x) sd).collection_type = "dataset" := rfl
    have hname : (saveT (.dataset x) sd).name = some x.name := rfl
    simp only [load, hty, hname, strict, e, bind, Except.bind, pure, Except.pure]
    rfl
  | annotationSet x =>
    obtain ⟨st, e, -, -, -⟩ := loadAnnotations_ok (ld := ld) cx hpb hp
      (saveT (.annotationSet x) sd) x.clip_annotations
      ⟨lst_listOpt _, lst_listOpt _, lst_listOpt _, lst_listOpt _, lst_listOpt _, lst_listOpt _⟩ ⟨lst_listOpt _, lst_listOpt _⟩ rfl
      (fun a ha => hroots _ (List.mem_map.2 ⟨a, ha, rfl⟩))
      (hwf.members _ (by simp [Collection.memberKeys]))
    have hty : (saveT (.annotationSet x) sd).collection_type = "annotation_set" := rfl
    simp only [load, hty, e, bind, Except.bind, pure, Except.pure]
    rfl
  | annotationProject x =>
    obtain ⟨st, e, hU, hT, hC⟩ := loadAnnotations_ok (ld := ld) cx hpb hp
      (saveT (.annotationProject x) sd) x.clip_annotations
      ⟨lst_listOpt _, lst_listOpt _, lst_listOpt _, lst_listOpt _, lst_listOpt _, lst_listOpt _⟩ ⟨lst_listOpt _, lst_listOpt _⟩ rfl
      (fun a ha => hroots _ (List.mem_append.2 (Or.inr (List.mem_map.2 ⟨a, ha, rfl⟩))))
      (hwf.members _ (by simp [Collection.memberKeys]))
    have hty : (saveT (.annotationProject x) sd).collection_type = "annotation_project" := rfl
    have hname : (saveT (.annotationProject x) sd).name = some x.name := rfl
    have htasks : convAll (·.uuid) (fun _ o => decTask st o) []
        (lst (saveT (.annotationProject x) sd).tasks)
        = .ok (x.tasks.map (fun y => (y.uuid, y.mapPath (relocated sd ld))),
               x.tasks.map (·.mapPath (relocated sd ld))) :=
      convAll_map (·.uuid) (·.uuid) encTask (AnnotationTask.mapPath (relocated sd ld))
        (fun _ o => decTask st o) x.tasks (fun _ => rfl)
        (hwf.members _ (by simp [Collection.memberKeys]))
        (fun _ t ht => decTask_enc cx hU hC (hroots _ (List.mem_append.2 (Or.inl
          (List.mem_append.2 (Or.inl (List.mem_map.2 ⟨t, ht, rfl⟩)))))))
    have htags : decTags st (saveT (.annotationProject x) sd).project_tags = x.annotation_tags :=
      decTags_listOpt hT (fun o ho => hroots _ (List.mem_append.2 (Or.inl
          (List.mem_append.2 (Or.inr ho)))))
    simp only [load, hty, hname, strict, e, htasks, htags, bind, Except.bind, pure, Except.pure]
    rfl
  | evaluationSet x =>
    obtain ⟨st, e, hU, hT, hC⟩ := loadAnnotations_ok (ld := ld) cx hpb hp
      (saveT (.evaluationSet x) sd) x.clip_annotations
      ⟨lst_listOpt _, lst_listOpt _, lst_listOpt _, lst_listOpt _, lst_listOpt _, lst_listOpt _⟩ ⟨lst_listOpt _, lst_listOpt _⟩ rfl
      (fun a ha => hroots _ (List.mem_append.2 (Or.inl (List.mem_map.2 ⟨a, ha, rfl⟩))))
      (hwf.members _ (by simp [Collection.memberKeys]))
    have hty : (saveT (.evaluationSet x) sd).collection_type = "evaluation_set" := rfl
    have hname : (saveT (.evaluationSet x) sd).name = some x.name := rfl
    have htags : decTags st (saveT (.evaluationSet x) sd).evaluation_tags = x.evaluation_tags :=
      decTags_listOpt hT (fun o ho => hroots _ (List.mem_append.2 (Or.inr ho)))
    simp only [load, hty, hname, strict, e, htags, bind, Except.bind, pure, Except.pure]
    rfl
  | predictionSet x =>
    obtain ⟨st, e⟩ := loadPredictions_ok (ld := ld) cx hpb hp
      (saveT (.predictionSet x) sd) x.clip_predictions
      ⟨lst_listOpt _, lst_listOpt _, lst_listOpt _, lst_listOpt _, lst_listOpt _, lst_listOpt _⟩ ⟨lst_listOpt _, lst_listOpt _⟩ rfl
      (fun a ha => hroots _ (List.mem_map.2 ⟨a, ha, rfl⟩))
      (hwf.members _ (by simp [Collection.memberKeys]))
    have hty : (saveT (.predictionSet x) sd).collection_type = "prediction_set" := rfl
    simp only [load, hty, e, bind, Except.bind, pure, Except.pure]
    rfl
  | modelRun x =>
    obtain ⟨st, e⟩ := loadPredictions_ok (ld := ld) cx hpb hp
      (saveT (.modelRun x) sd) x.clip_predictions
      ⟨lst_listOpt _, lst_listOpt _, lst_listOpt _, lst_listOpt _, lst_listOpt _, lst_listOpt _⟩ ⟨lst_listOpt _, lst_listOpt _⟩ rfl
      (fun a ha => hroots _ (List.mem_map.2 ⟨a, ha, rfl⟩))
      (hwf.members _ (by simp [Collection.memberKeys]))
    have hty : (saveT (.modelRun x) sd).collection_type = "model_run" := rfl
    have hname : (saveT (.modelRun x) sd).name = some x.name := rfl
    simp only [load, hty, hname, strict, e, bind, Except.bind, pure, Except.pure]
    rfl
  | evaluation x =>
    have hnd : (x.clip_evaluations.map (·.uuid)).Nodup :=
      hwf.members _ (by simp [Collection.memberKeys])
    have hces : lst (saveT (.evaluation x) sd).clip_evaluations = x.clip_evaluations.map encCE := by
      have : dedupBy (·.uuid) (cesOf (Collection.evaluation x).trav) = x.clip_evaluations := by
        rw [Collection.trav, cesOf_flatMap_ceAll]; exact dedupBy_eq_self_of_nodup _ hnd
      simp only [saveT, evaluationDocT, lst_listOpt, this]
    have e := load_evaluation_ok (ld := ld) cx hpb hp (saveT (.evaluation x) sd) x.clip_evaluations
      x.evaluation_task rfl rfl (sharedFields_evaluationDocT ..) ⟨lst_listOpt _, lst_listOpt _⟩
      ⟨lst_listOpt _, lst_listOpt _⟩ (lst_listOpt _) (lst_listOpt _) (lst_listOpt _) hces
      (fun a ha => hroots _ (List.mem_map.2 ⟨a, ha, rfl⟩)) hnd
    rw [e]
    have hm : items (saveT (.evaluation x) sd).metrics = x.metrics :=
      items_dictOpt (hwf.ownFeatures _ (by simp [Collection.ownFeatureLists]))
    rw [hm]
    rfl

end SE.Aoef
