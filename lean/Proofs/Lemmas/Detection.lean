/-
  Helper lemmas for C08 (model: SoundeventModel/Detection.lean).
-/
import SoundeventModel.Detection
import Proofs.Lemmas.Metrics
namespace SE.Detection
open SE SE.Metrics

/-! ### the filtered → original index map -/

theorem geomIdx_append_noGeomIdx_perm (has : List Bool) :
    (geomIdx has ++ noGeomIdx has).Perm (List.range has.length) := by
  unfold geomIdx noGeomIdx
  exact List.filter_append_perm _ _

theorem mem_geomIdx {has : List Bool} {i : Nat} : i ∈ geomIdx has ↔ i < has.length ∧ has.getD i false = true := by
  simp [geomIdx, List.mem_filter]

theorem mem_noGeomIdx {has : List Bool} {i : Nat} : i ∈ noGeomIdx has ↔ i < has.length ∧ has.getD i false = false := by
  simp [noGeomIdx, List.mem_filter]

theorem geomIdx_sorted (has : List Bool) : (geomIdx has).Pairwise (· < ·) := by
  unfold geomIdx
  exact List.Pairwise.filter _ List.pairwise_lt_range

/-- general form with an offset, for the induction -/
theorem filter_range_map_getD {α} (d : α) (p : α → Bool) (pre l : List α) :
    (((List.range' pre.length l.length).filter (fun i => p ((pre ++ l).getD i d))).map (fun i => (pre ++ l).getD i d))
      = l.filter p := by
  induction l generalizing pre with
  | nil => simp
  | cons x xs ih =>
    have hx : (pre ++ x :: xs).getD pre.length d = x := by simp [List.getD_eq_getElem?_getD]
    have ih' := ih (pre ++ [x])
    simp only [List.append_assoc, List.singleton_append, List.length_append, List.length_singleton] at ih'
    simp only [List.length_cons, List.range'_succ, List.filter_cons, hx]
    by_cases hp : p x = true
    · simp only [hp, if_true, List.map_cons, hx, ih']
    · simp only [hp, Bool.false_eq_true, if_false, ih']

/-- the positions selected by a predicate, read back, are the filtered list -/
theorem map_getD_filter_range {α} (d : α) (p : α → Bool) (l : List α) :
    ((List.range l.length).filter (fun i => p (l.getD i d))).map (fun i => l.getD i d) = l.filter p := by
  have := filter_range_map_getD d p [] l
  simpa [List.range_eq_range'] using this


theorem geomIdx_map_getD {α} [Inhabited α] (l : List α) (g : α → Bool) :
    (geomIdx (l.map g)).map (fun i => l.getD i default) = l.filter g := by
  unfold geomIdx
  rw [← map_getD_filter_range default g l]
  simp only [List.length_map]
  congr 1
  apply List.filter_congr
  intro i hi
  rw [List.mem_range] at hi
  simp [List.getD_eq_getElem?_getD, hi]

/-! ### `evalClip` under the matcher's contract -/

theorem option_mapM_total {α β} (f : α → Option β) (g : α → β) (l : List α) (h : ∀ a ∈ l, f a = some (g a)) :
    l.mapM f = some (l.map g) := by
  induction l with
  | nil => simp
  | cons a l ih =>
    have ha := h a (by simp)
    have := ih (fun b hb => h b (by simp [hb]))
    simp [List.mapM_cons, ha, this]

/-- the loop body with the indices mapped back by a total lookup -/
def stepTotal (C : Nat) (preds : List SEPred) (anns : List SEAnn) (pIdx aIdx : List Nat) (m : MEntry) : List Entry :=
  stepEntries C preds anns (m.src.map (fun k => pIdx.getD k 0)) (m.tgt.map (fun k => aIdx.getD k 0)) m.aff

theorem mapBack_inrange (idx : List Nat) (s : Option Nat) (h : ∀ k, s = some k → k < idx.length) :
    mapBack idx s = some (s.map (fun k => idx.getD k 0)) := by
  cases s with
  | none => rfl
  | some k =>
    have := h k rfl
    simp [mapBack, List.getD_eq_getElem?_getD, this]

theorem stepTotal_src (C : Nat) (preds : List SEPred) (anns : List SEAnn) (pIdx aIdx : List Nat) (m : MEntry) :
    (stepTotal C preds anns pIdx aIdx m).filterMap (·.src) = (m.src.map (fun k => pIdx.getD k 0)).toList := by
  unfold stepTotal stepEntries
  cases m.src <;> cases m.tgt <;> simp [unmatchedPred, unmatchedAnn, matchedPair]

theorem stepTotal_tgt (C : Nat) (preds : List SEPred) (anns : List SEAnn) (pIdx aIdx : List Nat) (m : MEntry) :
    (stepTotal C preds anns pIdx aIdx m).filterMap (·.tgt) = (m.tgt.map (fun k => aIdx.getD k 0)).toList := by
  unfold stepTotal stepEntries
  cases m.src <;> cases m.tgt <;> simp [unmatchedPred, unmatchedAnn, matchedPair]

theorem filterMap_flatten_map {α β γ} (f : β → Option γ) (g : α → List β) (l : List α) :
    ((l.map g).flatten).filterMap f = (l.map (fun a => (g a).filterMap f)).flatten := by
  induction l with
  | nil => rfl
  | cons a l ih => simp [List.filterMap_append, ih]

theorem flatten_map_option_toList {α β} (s : α → Option Nat) (h : Nat → β) (l : List α) :
    (l.map (fun a => ((s a).map h).toList)).flatten = (l.filterMap s).map h := by
  induction l with
  | nil => rfl
  | cons a l ih =>
    cases hs : s a <;> simp [hs, ih]

theorem map_getD_range (l : List Nat) : (List.range l.length).map (fun k => l.getD k 0) = l := by
  apply List.ext_getElem
  · simp
  · intro i h1 h2
    simp at h1
    simp [List.getD_eq_getElem?_getD, h1]


/-- the entries of a clip, written without the error monad (valid under the matcher's contract) -/
def clipEntries (C : Nat) (preds : List SEPred) (anns : List SEAnn) (ms : List MEntry) : List Entry :=
  let pIdx := geomIdx (preds.map (·.hasGeom))
  let aIdx := geomIdx (anns.map (·.hasGeom))
  (ms.map (stepTotal C preds anns pIdx aIdx)).flatten
    ++ (noGeomIdx (preds.map (·.hasGeom))).map (fun i => unmatchedPred C preds i 0)
    ++ (noGeomIdx (anns.map (·.hasGeom))).map (fun j => unmatchedAnn C anns j 0)

theorem cover_src_lt {n m : Nat} {ms : List MEntry} (hc : MatcherCover n m ms) {e : MEntry} (he : e ∈ ms)
    {k : Nat} (hk : e.src = some k) : k < n := by
  have : k ∈ ms.filterMap (·.src) := List.mem_filterMap.mpr ⟨e, he, hk⟩
  have := hc.1.mem_iff.mp this
  simpa using this

theorem cover_tgt_lt {n m : Nat} {ms : List MEntry} (hc : MatcherCover n m ms) {e : MEntry} (he : e ∈ ms)
    {k : Nat} (hk : e.tgt = some k) : k < m := by
  have : k ∈ ms.filterMap (·.tgt) := List.mem_filterMap.mpr ⟨e, he, hk⟩
  have := hc.2.1.mem_iff.mp this
  simpa using this

/-- under the matcher's contract `evaluate_clip` does not fail and produces `clipEntries` -/
theorem evalClip_of_cover (C : Nat) (preds : List SEPred) (anns : List SEAnn) (ms : List MEntry)
    (hc : MatcherCover (geomIdx (preds.map (·.hasGeom))).length (geomIdx (anns.map (·.hasGeom))).length ms) :
    evalClip C preds anns ms = some (clipEntries C preds anns ms) := by
  unfold evalClip clipEntries
  have hm : ms.mapM (fun m => do
      let s ← mapBack (geomIdx (preds.map (·.hasGeom))) m.src
      let t ← mapBack (geomIdx (anns.map (·.hasGeom))) m.tgt
      pure (stepEntries C preds anns s t m.aff)) =
      some (ms.map (stepTotal C preds anns (geomIdx (preds.map (·.hasGeom))) (geomIdx (anns.map (·.hasGeom))))) := by
    apply option_mapM_total
    intro e he
    rw [mapBack_inrange _ e.src (fun k hk => cover_src_lt hc he hk),
        mapBack_inrange _ e.tgt (fun k hk => cover_tgt_lt hc he hk)]
    rfl
  simp only []
  rw [hm]
  rfl

theorem clipEntries_src_perm (C : Nat) (preds : List SEPred) (anns : List SEAnn) (ms : List MEntry)
    (hc : MatcherCover (geomIdx (preds.map (·.hasGeom))).length (geomIdx (anns.map (·.hasGeom))).length ms) :
    ((clipEntries C preds anns ms).filterMap (·.src)).Perm (List.range preds.length) := by
  unfold clipEntries
  simp only [List.filterMap_append]
  rw [filterMap_flatten_map]
  simp only [stepTotal_src]
  rw [flatten_map_option_toList (fun m : MEntry => m.src)]
  have h1 : ((ms.filterMap (·.src)).map (fun k => (geomIdx (preds.map (·.hasGeom))).getD k 0)).Perm
      (geomIdx (preds.map (·.hasGeom))) := by
    have := hc.1.map (fun k => (geomIdx (preds.map (·.hasGeom))).getD k 0)
    rwa [map_getD_range] at this
  have h2 : ((noGeomIdx (preds.map (·.hasGeom))).map (fun i => unmatchedPred C preds i 0)).filterMap (·.src)
      = noGeomIdx (preds.map (·.hasGeom)) := by
    simp [List.filterMap_map, unmatchedPred, Function.comp_def]
  have h3 : ((noGeomIdx (anns.map (·.hasGeom))).map (fun j => unmatchedAnn C anns j 0)).filterMap (·.src) = [] := by
    simp [List.filterMap_map, unmatchedAnn, Function.comp_def]
  rw [h2, h3, List.append_nil]
  have := geomIdx_append_noGeomIdx_perm (preds.map (·.hasGeom))
  rw [List.length_map] at this
  exact (h1.append_right _).trans this

theorem clipEntries_tgt_perm (C : Nat) (preds : List SEPred) (anns : List SEAnn) (ms : List MEntry)
    (hc : MatcherCover (geomIdx (preds.map (·.hasGeom))).length (geomIdx (anns.map (·.hasGeom))).length ms) :
    ((clipEntries C preds anns ms).filterMap (·.tgt)).Perm (List.range anns.length) := by
  unfold clipEntries
  simp only [List.filterMap_append]
  rw [filterMap_flatten_map]
  simp only [stepTotal_tgt]
  rw [flatten_map_option_toList (fun m : MEntry => m.tgt)]
  have h1 : ((ms.filterMap (·.tgt)).map (fun k => (geomIdx (anns.map (·.hasGeom))).getD k 0)).Perm
      (geomIdx (anns.map (·.hasGeom))) := by
    have := hc.2.1.map (fun k => (geomIdx (anns.map (·.hasGeom))).getD k 0)
    rwa [map_getD_range] at this
  have h2 : ((noGeomIdx (preds.map (·.hasGeom))).map (fun i => unmatchedPred C preds i 0)).filterMap (·.tgt) = [] := by
    simp [List.filterMap_map, unmatchedPred, Function.comp_def]
  have h3 : ((noGeomIdx (anns.map (·.hasGeom))).map (fun j => unmatchedAnn C anns j 0)).filterMap (·.tgt)
      = noGeomIdx (anns.map (·.hasGeom)) := by
    simp [List.filterMap_map, unmatchedAnn, Function.comp_def]
  rw [h2, h3, List.append_nil]
  have := geomIdx_append_noGeomIdx_perm (anns.map (·.hasGeom))
  rw [List.length_map] at this
  exact (h1.append_right _).trans this


theorem mem_clipEntries {C : Nat} {preds : List SEPred} {anns : List SEAnn} {ms : List MEntry} {e : Entry} :
    e ∈ clipEntries C preds anns ms ↔
      (∃ m ∈ ms, e ∈ stepTotal C preds anns (geomIdx (preds.map (·.hasGeom))) (geomIdx (anns.map (·.hasGeom))) m) ∨
      (∃ i ∈ noGeomIdx (preds.map (·.hasGeom)), e = unmatchedPred C preds i 0) ∨
      (∃ j ∈ noGeomIdx (anns.map (·.hasGeom)), e = unmatchedAnn C anns j 0) := by
  unfold clipEntries
  simp only [List.mem_append, List.mem_flatten, List.mem_map]
  constructor
  · rintro ((⟨l, ⟨m, hm, rfl⟩, he⟩ | ⟨i, hi, rfl⟩) | ⟨j, hj, rfl⟩)
    · exact Or.inl ⟨m, hm, he⟩
    · exact Or.inr (Or.inl ⟨i, hi, rfl⟩)
    · exact Or.inr (Or.inr ⟨j, hj, rfl⟩)
  · rintro (⟨m, hm, he⟩ | ⟨i, hi, rfl⟩ | ⟨j, hj, rfl⟩)
    · exact Or.inl (Or.inl ⟨_, ⟨m, hm, rfl⟩, he⟩)
    · exact Or.inl (Or.inr ⟨i, hi, rfl⟩)
    · exact Or.inr ⟨j, hj, rfl⟩

/-- a paired entry of the loop body comes from a two-sided matcher entry -/
theorem stepTotal_paired {C : Nat} {preds : List SEPred} {anns : List SEAnn} {pIdx aIdx : List Nat} {m : MEntry}
    {e : Entry} (he : e ∈ stepTotal C preds anns pIdx aIdx m) (hp : e.paired = true) :
    ∃ k l, m.src = some k ∧ m.tgt = some l ∧
      e = matchedPair C preds anns (pIdx.getD k 0) (aIdx.getD l 0) m.aff := by
  unfold stepTotal stepEntries at he
  cases hs : m.src with
  | none =>
    cases ht : m.tgt with
    | none => simp [hs, ht] at he
    | some l =>
      simp only [hs, ht, Option.map_none, Option.map_some, List.mem_singleton] at he
      subst he; simp [Entry.paired, unmatchedAnn] at hp
  | some k =>
    cases ht : m.tgt with
    | none =>
      simp only [hs, ht, Option.map_none, Option.map_some, List.mem_singleton] at he
      subst he; simp [Entry.paired, unmatchedPred] at hp
    | some l =>
      simp only [hs, ht, Option.map_some, List.mem_singleton] at he
      exact ⟨k, l, rfl, rfl, he⟩

/-- an unpaired entry of the loop body comes from a one-sided matcher entry: score 0 and the
    matcher's affinity, which is 0 there under the contract -/
theorem stepTotal_unpaired {C : Nat} {preds : List SEPred} {anns : List SEAnn} {pIdx aIdx : List Nat} {m : MEntry}
    {e : Entry} (he : e ∈ stepTotal C preds anns pIdx aIdx m) (hp : e.paired = false)
    (h1 : (m.src.isNone ∨ m.tgt.isNone) → m.aff = 0) : e.aff = 0 ∧ e.score = 0 := by
  unfold stepTotal stepEntries at he
  cases hs : m.src with
  | none =>
    cases ht : m.tgt with
    | none => simp [hs, ht] at he
    | some l =>
      simp only [hs, ht, Option.map_none, Option.map_some, List.mem_singleton] at he
      subst he; exact ⟨h1 (Or.inl (by simp [hs])), rfl⟩
  | some k =>
    cases ht : m.tgt with
    | none =>
      simp only [hs, ht, Option.map_none, Option.map_some, List.mem_singleton] at he
      subst he; exact ⟨h1 (Or.inr (by simp [ht])), rfl⟩
    | some l =>
      simp only [hs, ht, Option.map_some, List.mem_singleton] at he
      subst he; simp [Entry.paired, matchedPair] at hp

end SE.Detection
