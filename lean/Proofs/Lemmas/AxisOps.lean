/- helper lemmas for C17 (review additions): re-indexing onto an extended regular axis, the
   width operations on arbitrary axes, `get_dim_step` with options -/
import SoundeventModel.Axis
import SoundeventModel.AxisOps
import Proofs.Lemmas.Axis
import Proofs.Lemmas.Extend
namespace SE.Axis

/-- re-indexing a regular axis onto its own lattice continued `kl` points downward and `kr`
    points upward: `kl` filled samples, the array itself, `kr` filled samples -/
theorem reindex_extended {α} (a : Samples α) (fill : α) (a0 step : Rat) (n kl kr : Nat)
    (hreg : coordsOf a = lattice a0 step (n + 1)) (hs : step ≠ 0) :
    reindex a (lattice (a0 - (kl : Rat) * step) step (kl + (n + 1) + kr)) fill =
      (lattice (a0 - (kl : Rat) * step) step kl).map (fun c => (c, fill)) ++ a ++
      (lattice (a0 + ((n + 1 : Nat) : Rat) * step) step kr).map (fun c => (c, fill)) := by
  have hnd : (coordsOf a).Nodup := by rw [hreg]; exact lattice_nodup _ _ _ hs
  have e1 : a0 - (kl : Rat) * step + (kl : Rat) * step = a0 := by grind
  have e2 : a0 - (kl : Rat) * step + ((kl + (n + 1) : Nat) : Rat) * step
      = a0 + ((n + 1 : Nat) : Rat) * step := by simp; grind
  rw [← lattice_append, ← lattice_append, e1, e2, reindex_append, reindex_append]
  rw [reindex_disjoint a _ fill (by rw [hreg]; exact before_disjoint a0 step kl (n + 1) hs)]
  rw [reindex_disjoint a (lattice (a0 + ((n + 1 : Nat) : Rat) * step) step kr) fill
    (by rw [hreg]; exact after_disjoint a0 step kr (n + 1) hs)]
  rw [← hreg, reindex_self a fill hnd]

/-- samples of a re-indexed array at old labels are the old samples; at new labels the fill -/
theorem mem_reindex_of_mem {α} {a : Samples α} {cs : List Rat} {fill : α} (hnd : (coordsOf a).Nodup)
    {p : Rat × α} (hp : p ∈ a) (hc : p.1 ∈ cs) : p ∈ reindex a cs fill := by
  simp only [reindex, List.mem_map]
  refine ⟨p.1, hc, ?_⟩
  rw [find_of_mem_nodup (c := p.1) (d := p.2) hnd hp]

theorem reindex_new_is_fill {α} {a : Samples α} {cs : List Rat} {fill : α} {p : Rat × α}
    (hp : p ∈ reindex a cs fill) (hnew : p.1 ∉ coordsOf a) : p.2 = fill := by
  simp only [reindex, List.mem_map] at hp
  obtain ⟨c, _, rfl⟩ := hp
  simp only at hnew ⊢
  rw [find_none_of_not_mem hnew]

theorem reindex_old_is_old {α} {a : Samples α} {cs : List Rat} {fill : α} (hnd : (coordsOf a).Nodup)
    {p : Rat × α} (hp : p ∈ reindex a cs fill) (hold : p.1 ∈ coordsOf a) : p ∈ a := by
  simp only [reindex, List.mem_map] at hp
  obtain ⟨c, _, rfl⟩ := hp
  simp only at hold ⊢
  obtain ⟨q, hq, hqc⟩ := List.mem_map.mp hold
  have : q = (c, q.2) := by cases q; simp_all
  rw [this] at hq
  rw [find_of_mem_nodup (c := c) (d := q.2) hnd hq]
  exact hq

/-! ### histories: the class of regular axes with a known step is closed under the operations -/

theorem filter_le_sorted {α} (a : Samples α) (hi : Rat) (h : Sorted (coordsOf a)) :
    ∃ k, a.filter (fun p => decide (p.1 ≤ hi)) = a.take k := by
  induction a with
  | nil => exact ⟨0, rfl⟩
  | cons x xs ih =>
    simp only [coordsOf, List.map_cons] at h
    have hx : ∀ y ∈ xs, x.1 ≤ y.1 := by
      intro y hy
      exact (List.pairwise_cons.mp h).1 y.1 (List.mem_map.mpr ⟨y, hy, rfl⟩)
    obtain ⟨k, hk⟩ := ih (List.pairwise_cons.mp h).2
    by_cases hxh : x.1 ≤ hi
    · exact ⟨k + 1, by simp [hxh, hk]⟩
    · refine ⟨0, ?_⟩
      simp only [List.take_zero, List.filter_eq_nil_iff]
      intro y hy
      rcases List.mem_cons.mp hy with rfl | hy
      · simpa using hxh
      · have := hx y hy
        simp; grind

/-- a label slice of an increasing axis is a contiguous block of samples -/
theorem selectRange_sorted {α} (a : Samples α) (lo hi : Rat) (h : Sorted (coordsOf a)) :
    ∃ i k, selectRange a lo hi = (a.drop i).take k := by
  induction a with
  | nil => exact ⟨0, 0, rfl⟩
  | cons x xs ih =>
    have h' := h
    simp only [coordsOf, List.map_cons] at h'
    have hx : ∀ y ∈ xs, x.1 ≤ y.1 := by
      intro y hy
      exact (List.pairwise_cons.mp h').1 y.1 (List.mem_map.mpr ⟨y, hy, rfl⟩)
    by_cases hlo : lo ≤ x.1
    · obtain ⟨k, hk⟩ := filter_le_sorted (x :: xs) hi h
      refine ⟨0, k, ?_⟩
      rw [List.drop_zero, ← hk]
      apply List.filter_congr
      intro y hy
      have : lo ≤ y.1 := by
        rcases List.mem_cons.mp hy with rfl | hy
        · exact hlo
        · have := hx y hy; grind
      simp [this]
    · obtain ⟨i, k, hik⟩ := ih (List.pairwise_cons.mp h').2
      refine ⟨i + 1, k, ?_⟩
      simp only [selectRange] at hik ⊢
      simp [hlo, hik]

/-- a label slice of a regular axis is a contiguous piece of its lattice -/
theorem selectRange_lattice {α} (a : Samples α) (lo hi a0 step : Rat) (m : Nat) (hs : 0 ≤ step)
    (hreg : coordsOf a = lattice a0 step m) :
    ∃ i k : Nat, selectRange a lo hi = (a.drop i).take k ∧
      coordsOf (selectRange a lo hi) = lattice (a0 + (i : Rat) * step) step (min k (m - i)) := by
  obtain ⟨i, k, hik⟩ := selectRange_sorted a lo hi (by rw [hreg]; exact lattice_sorted _ _ _ hs)
  refine ⟨i, k, hik, ?_⟩
  rw [hik, coordsOf_drop_take, hreg, lattice_drop, lattice_take]

/-- the array lies on the lattice `a0 + k * step` (k an integer), is not empty, and `get_dim_step`
    yields `step` for it -/
def OnLattice {α} (a0 step : Rat) (attr : Option Rat) (a : Samples α) : Prop :=
  ∃ (k : Int) (m : Nat), coordsOf a = lattice (a0 + (k : Rat) * step) step (m + 1) ∧
    dimStep attr (coordsOf a) = .ok (some step)

/-- the step of a regular axis stays known on every piece / continuation of its lattice that has at
    least two points, or at least one when the step is an attribute -/
theorem dimStep_again (attr : Option Rat) (a0 b0 step : Rat) (n m : Nat)
    (h : dimStep attr (lattice a0 step (n + 1)) = .ok (some step)) (hm : attr.isSome ∨ 1 ≤ m) :
    dimStep attr (lattice b0 step (m + 1)) = .ok (some step) := by
  cases attr with
  | some s => simpa [dimStep] using h
  | none =>
    have hm' : 1 ≤ m := by simpa using hm
    obtain ⟨j, rfl⟩ : ∃ j, m = j + 1 := ⟨m - 1, by omega⟩
    exact dimStep_lattice b0 step j

theorem applyStep_nil {α} (attr : Option Rat) (s : Step α) : ∃ e, applyStep attr ([] : Samples α) s = .error e := by
  cases s with
  | crop start stop lc rc eps => exact ⟨.invalid, by simp [applyStep, cropDim, coordsOf, listMin]⟩
  | extend start stop fill eps lc rc => exact ⟨.invalid, by simp [applyStep, extendDim, coordsOf, listMin]⟩
  | width w fill pos =>
    simp only [applyStep, adjustWidth]
    by_cases h1 : w < 1
    · exact ⟨.invalid, by simp [h1]⟩
    · have h2 : ¬ w.toNat = 0 := by omega
      refine ⟨.index, ?_⟩
      simp [h1, h2, extendWidth, coordsOf]


theorem extendDim_is_reindex {α} (a r : Samples α) (attr start stop : Option Rat) (fill : α) (eps : Rat)
    (lc rc : Bool) (h : extendDim a attr start stop fill eps lc rc = .ok r) :
    ∃ cs, r = reindex a cs fill := by
  simp only [extendDim] at h
  split at h
  · split at h
    · simp at h
    · split at h
      · simp at h
      · split at h
        · simp at h
        · simp at h
        · exact ⟨_, (Except.ok.inj h).symm⟩
  · simp at h


/-- the leading `k` parameters zipped with `k` positional arguments: the first `k` pairs of the full binding -/
theorem zip_take_prefix {β} (d t : List String) (vals : List β) (k : Nat) (hk : k ≤ vals.length) (hkd : k ≤ d.length) :
    (d ++ t).zip (vals.take k) = (d.zip vals).take k := by
  have h1 : d ++ t = d.take k ++ (d.drop k ++ t) := by rw [← List.append_assoc, List.take_append_drop]
  have h2 : vals.take k = vals.take k ++ [] := by simp
  rw [h1, h2, List.zip_append (by simp [List.length_take]; omega)]
  simp [List.zip, List.take_zipWith]

end SE.Axis
