/- helper lemmas for C17 (review additions): re-indexing onto an extended regular axis, the
   width operations on arbitrary axes, `get_dim_step` with options -/
import SoundeventModel.Axis
import SoundeventModel.AxisOps
import Proofs.Lemmas.Axis
import Proofs.Lemmas.Extend
namespace SE.Axis

/-- re-indexing a regular axis onto its own lattice continued `kl` points downward and `kr`
    points upward: `kl` filled samples, the array itself, `kr` filled samples -/
theorem reindex_extended {α} (a : Samples α) (fill : α) (a0 step : Rat) (n kl kr : Nat)
    (hreg : coordsOf a = lattice a0 step (n + 1)) (hs : step ≠ 0) :
    reindex a (lattice (a0 - (kl : Rat) * step) step (kl + (n + 1) + kr)) fill =
      (lattice (a0 - (kl : Rat) * step) step kl).map (fun c => (c, fill)) ++ a ++
      (lattice (a0 + ((n + 1 : Nat) : Rat) * step) step kr).map (fun c => (c, fill)) := by
  have hnd : (coordsOf a).Nodup := by rw [hreg]; exact lattice_nodup _ _ _ hs
  have e1 : a0 - (kl : Rat) * step + (kl : Rat) * step = a0 := by grind
  have e2 : a0 - (kl : Rat) * step + ((kl + (n + 1) : Nat) : Rat) * step
      = a0 + ((n + 1 : Nat) : Rat) * step := by simp; grind
  rw [← lattice_append, ← lattice_append, e1, e2, reindex_append, reindex_append]
  rw [reindex_disjoint a _ fill (by rw [hreg]; exact before_disjoint a0 step kl (n + 1) hs)]
  rw [reindex_disjoint a (lattice (a0 + ((n + 1 : Nat) : Rat) * step) step kr) fill
    (by rw [hreg]; exact after_disjoint a0 step kr (n + 1) hs)]
  rw [← hreg, reindex_self a fill hnd]

/-- samples of a re-indexed array at old labels are the old samples; at new labels the fill -/
theorem mem_reindex_of_mem {α} {a : Samples α} {cs : List Rat} {fill : α} (hnd : (coordsOf a).Nodup)
    {p : Rat × α} (hp : p ∈ a) (hc : p.1 ∈ cs) : p ∈ reindex a cs fill := by
  simp only [reindex, List.mem_map]
  refine ⟨p.1, hc, ?_⟩
  rw [find_of_mem_nodup (c := p.1) (d := p.2) hnd hp]

theorem reindex_new_is_fill {α} {a : Samples α} {cs : List Rat} {fill : α} {p : Rat × α}
    (hp : p ∈ reindex a cs fill) (hnew : p.1 ∉ coordsOf a) : p.2 = fill := by
  simp only [reindex, List.mem_map] at hp
  obtain ⟨c, _, rfl⟩ := hp
  simp only at hnew ⊢
  rw [find_none_of_not_mem hnew]

theorem reindex_old_is_old {α} {a : Samples α} {cs : List Rat} {fill : α} (hnd : (coordsOf a).Nodup)
    {p : Rat × α} (hp : p ∈ reindex a cs fill) (hold : p.1 ∈ coordsOf a) : p ∈ a := by
  simp only [reindex, List.mem_map] at hp
  obtain ⟨c, _, rfl⟩ := hp
  simp only at hold ⊢
  obtain ⟨q, hq, hqc⟩ := List.mem_map.mp hold
  have : q = (c, q.2) := by cases q; simp_all
  rw [this] at hq
  rw [find_of_mem_nodup (c := c) (d := q.2) hnd hq]
  exact hq

end SE.Axis
