/-
  Helper lemmas for C14 (`segment_clip`): characterisation of the loop.
-/
import SoundeventModel.Segment
namespace SE.Proofs.SegmentLemmas
open SE SE.Segment

/-- results are compared by `decide +kernel` in the concrete examples -/
instance decEqResult : DecidableEq (Except Err (List (Rat × Rat)))
  | .ok x, .ok y => if h : x = y then isTrue (by rw [h]) else isFalse (by intro h'; cases h'; exact h rfl)
  | .error x, .error y => if h : x = y then isTrue (by rw [h]) else isFalse (by intro h'; cases h'; exact h rfl)
  | .ok _, .error _ => isFalse (by intro h; cases h)
  | .error _, .ok _ => isFalse (by intro h; cases h)

/-- `p` is the `i`-th window of the specification -/
def Window (s e dur hop : Rat) (incl : Bool) (i : Nat) (p : Rat × Rat) : Prop :=
  p.1 = s + i * hop ∧ p.1 < e ∧ (incl = true ∨ p.1 + dur ≤ e) ∧ p.2 = min (p.1 + dur) e

theorem lattice_mono (s hop : Rat) (hh : 0 < hop) {i j : Nat} (h : i ≤ j) :
    s + i * hop ≤ s + j * hop := by
  have : (i : Rat) ≤ (j : Rat) := by exact_mod_cast h
  have := Rat.mul_le_mul_of_nonneg_right this (Rat.le_of_lt hh)
  grind

theorem lattice_strict (s hop : Rat) (hh : 0 < hop) {i j : Nat} (h : i < j) :
    s + i * hop < s + j * hop := by
  have h1 : s + ((i + 1 : Nat) : Rat) * hop ≤ s + j * hop := lattice_mono s hop hh h
  have h2 : ((i + 1 : Nat) : Rat) = (i : Rat) + 1 := by norm_cast
  rw [h2] at h1
  grind

theorem lattice_inj (s hop : Rat) (hh : 0 < hop) {i j : Nat}
    (h : s + (i : Rat) * hop = s + (j : Rat) * hop) : i = j := by
  rcases Nat.lt_trichotomy i j with h1 | h1 | h1
  · have := lattice_strict s hop hh h1; grind
  · exact h1
  · have := lattice_strict s hop hh h1; grind

theorem isWindow_iff (s e dur hop : Rat) (incl : Bool) (i : Nat) :
    isWindow s e dur hop incl i = true ↔
      (s + i * hop < e ∧ (incl = true ∨ s + i * hop + dur ≤ e)) := by
  simp [isWindow]

theorem window_iff (s e dur hop : Rat) (incl : Bool) (i : Nat) (p : Rat × Rat) :
    Window s e dur hop incl i p ↔ (isWindow s e dur hop incl i = true ∧ p = window s e dur hop i) := by
  rw [isWindow_iff]
  unfold Window window
  constructor
  · rintro ⟨h1, h2, h3, h4⟩
    refine ⟨⟨by rw [← h1]; exact h2, by rw [← h1]; exact h3⟩, ?_⟩
    ext
    · exact h1
    · rw [h4, h1]
  · rintro ⟨⟨h2, h3⟩, rfl⟩
    exact ⟨rfl, h2, h3, rfl⟩

/-- windows exist on an initial segment of the lattice -/
theorem isWindow_down (s e dur hop : Rat) (incl : Bool) (hh : 0 < hop) {i j : Nat} (h : i ≤ j)
    (hj : isWindow s e dur hop incl j = true) : isWindow s e dur hop incl i = true := by
  rw [isWindow_iff] at *
  have := lattice_mono s hop hh h
  grind

/-- membership in the loop: the windows of the index range the loop runs over -/
theorem mem_loop (s e dur hop : Rat) (incl : Bool) (hh : 0 < hop) :
    ∀ (n i : Nat) (p : Rat × Rat),
      p ∈ loop s e dur hop incl n i ↔ ∃ j, i ≤ j ∧ j < i + n ∧ Window s e dur hop incl j p := by
  intro n
  induction n with
  | zero => intro i p; simp [loop]; intro j h1 h2; omega
  | succ n ih =>
    intro i p
    simp only [loop]
    by_cases h1 : s + i * hop ≥ e
    · simp only [h1, if_true, List.not_mem_nil, false_iff]
      rintro ⟨j, hij, _, hw⟩
      have := lattice_mono s hop hh hij
      have h2 := hw.2.1; rw [hw.1] at h2
      grind
    · by_cases h2 : s + ↑i * hop + dur > e ∧ incl = false
      · simp only [h1, if_false, h2, and_self, if_true, List.not_mem_nil, false_iff]
        rintro ⟨j, hij, _, hw⟩
        have := lattice_mono s hop hh hij
        rcases hw.2.2.1 with h | h
        · have h3 := h2.2; grind
        · rw [hw.1] at h; grind
      · simp only [h1, if_false, h2, List.mem_cons, ih]
        constructor
        · rintro (rfl | ⟨j, hj1, hj2, hw⟩)
          · refine ⟨i, Nat.le_refl _, by omega, rfl, ?_, ?_, rfl⟩
            · show s + ↑i * hop < e
              exact Rat.not_le.1 h1
            · show incl = true ∨ s + ↑i * hop + dur ≤ e
              cases incl
              · right; simp at h2; exact Rat.not_lt.1 h2
              · left; rfl
          · exact ⟨j, by omega, by omega, hw⟩
        · rintro ⟨j, hj1, hj2, hw⟩
          by_cases hji : j = i
          · subst hji; left
            obtain ⟨a1, _, _, a4⟩ := hw
            ext <;> simp [a1, a4]
          · right; exact ⟨j, by omega, by omega, hw⟩

/-- the repaired bound reaches the clip end -/
theorem bound_reaches (s e hop : Rat) (hh : 0 < hop) : e ≤ s + (bound s e hop : Nat) * hop := by
  unfold bound
  have h3 := @Rat.le_ceil ((e - s) / hop)
  have h5 : (((e - s) / hop).ceil : Int) ≤ ((((e - s) / hop).ceil.toNat : Nat) : Int) := Int.self_le_toNat _
  have h6 : ((((e - s) / hop).ceil : Int) : Rat) ≤ (((((e - s) / hop).ceil.toNat : Nat) : Int) : Rat) := by
    exact_mod_cast h5
  have h7 : (((((e - s) / hop).ceil.toNat : Nat) : Int) : Rat) = ((((e - s) / hop).ceil.toNat : Nat) : Rat) := by
    norm_cast
  have h8 : (e - s) / hop ≤ ((((e - s) / hop).ceil.toNat : Nat) : Rat) := by grind
  have h9 := Rat.mul_le_mul_of_nonneg_right h8 (Rat.le_of_lt hh)
  have h10 : (e - s) / hop * hop = e - s := by
    rw [Rat.div_mul_cancel]; grind
  grind

/-- every window index is below the repaired bound -/
theorem window_lt_bound (s e hop : Rat) (hh : 0 < hop) (j : Nat) (hj : s + j * hop < e) :
    j < bound s e hop := by
  have h := bound_reaches s e hop hh
  rcases Nat.lt_or_ge j (bound s e hop) with h1 | h1
  · exact h1
  · have := lattice_mono s hop hh h1; grind

/-- once the lattice has left the clip, further iterations add nothing -/
theorem loop_succ_of_reached (s e dur hop : Rat) (incl : Bool) :
    ∀ (n i : Nat), e ≤ s + ((i + n : Nat) : Rat) * hop →
      loop s e dur hop incl (n+1) i = loop s e dur hop incl n i := by
  intro n
  induction n with
  | zero =>
    intro i h
    have : s + (i : Rat) * hop ≥ e := by simpa using h
    simp [loop, this]
  | succ n ih =>
    intro i h
    have h' : e ≤ s + ((i + 1 + n : Nat) : Rat) * hop := by
      have : i + 1 + n = i + (n + 1) := by omega
      rw [this]; exact h
    have := ih (i+1) h'
    rw [loop, this]
    conv => rhs; rw [loop]

theorem loop_stable (s e dur hop : Rat) (incl : Bool) (hh : 0 < hop) (N : Nat)
    (hN : e ≤ s + (N : Rat) * hop) :
    ∀ k, loop s e dur hop incl (N + k) 0 = loop s e dur hop incl N 0 := by
  intro k
  induction k with
  | zero => rfl
  | succ k ih =>
    rw [← ih]
    apply loop_succ_of_reached
    have h1 : N ≤ 0 + (N + k) := by omega
    have := lattice_mono s hop hh h1
    grind

/-- the `j`-th element the loop produces starts on the lattice point `i + j` -/
theorem loop_getElem? (s e dur hop : Rat) (incl : Bool) :
    ∀ (n i j : Nat) (p : Rat × Rat), (loop s e dur hop incl n i)[j]? = some p →
      p = window s e dur hop (i + j) := by
  intro n
  induction n with
  | zero => intro i j p h; simp [loop] at h
  | succ n ih =>
    intro i j p h
    simp only [loop] at h
    by_cases h1 : s + i * hop ≥ e
    · simp [h1] at h
    · by_cases h2 : s + ↑i * hop + dur > e ∧ incl = false
      · simp [h1, h2] at h
      · simp only [h1, if_false, h2] at h
        cases j with
        | zero => simp at h; rw [← h]; simp [window]
        | succ j =>
          simp at h
          have := ih (i+1) j p h
          rw [this]
          have : i + 1 + j = i + (j + 1) := by omega
          rw [this]

/-- the loop satisfies the executable statement as soon as its range reaches the clip end -/
theorem holdsFrom_loop (s e dur hop : Rat) (incl : Bool) :
    ∀ (n i : Nat), e ≤ s + ((i + n : Nat) : Rat) * hop →
      holdsFrom s e dur hop incl i (loop s e dur hop incl n i) = true := by
  intro n
  induction n with
  | zero =>
    intro i h
    have h' : e ≤ s + (i : Rat) * hop := by simpa using h
    simp only [loop, holdsFrom, isWindow]
    have : ¬ (s + (i : Rat) * hop < e) := by grind
    simp [this]
  | succ n ih =>
    intro i h
    simp only [loop]
    by_cases h1 : s + i * hop ≥ e
    · have : ¬ (s + (i : Rat) * hop < e) := by grind
      simp [h1, holdsFrom, isWindow, this]
    · by_cases h2 : s + ↑i * hop + dur > e ∧ incl = false
      · have h3 : ¬ (s + (i : Rat) * hop + dur ≤ e) := by grind
        simp [h1, h2, holdsFrom, isWindow, h3]
      · have h' : e ≤ s + ((i + 1 + n : Nat) : Rat) * hop := by
          have : i + 1 + n = i + (n + 1) := by omega
          rw [this]; exact h
        simp only [h1, if_false, h2, holdsFrom, ih (i+1) h', Bool.and_true]
        have h4 : s + (i : Rat) * hop < e := Rat.not_le.1 h1
        have h5 : incl = true ∨ s + (i : Rat) * hop + dur ≤ e := by
          cases incl
          · right; simp at h2; exact Rat.not_lt.1 h2
          · left; rfl
        simp [isWindow, window, h4]
        rcases h5 with h5 | h5
        · simp [h5]
        · simp [h5]

/-- … and it is the only list that does -/
theorem loop_of_holdsFrom (s e dur hop : Rat) (incl : Bool) :
    ∀ (out : List (Rat × Rat)) (n i : Nat), e ≤ s + ((i + n : Nat) : Rat) * hop →
      holdsFrom s e dur hop incl i out = true → loop s e dur hop incl n i = out := by
  intro out
  induction out with
  | nil =>
    intro n i h hh
    simp only [holdsFrom, Bool.not_eq_true', ← Bool.not_eq_true, isWindow_iff] at hh
    cases n with
    | zero => rfl
    | succ n =>
      simp only [loop]
      by_cases h1 : s + i * hop ≥ e
      · simp [h1]
      · have h4 : s + (i : Rat) * hop < e := Rat.not_le.1 h1
        have h2 : s + ↑i * hop + dur > e ∧ incl = false := by
          cases incl
          · simp at hh; exact ⟨Rat.not_le.1 (hh h4), rfl⟩
          · simp at hh; grind
        simp [h1, h2]
  | cons p ps ih =>
    intro n i h hh
    simp only [holdsFrom, Bool.and_eq_true, decide_eq_true_eq, isWindow_iff] at hh
    obtain ⟨⟨⟨h4, h5⟩, hp⟩, hrest⟩ := hh
    cases n with
    | zero =>
      have : e ≤ s + (i : Rat) * hop := by simpa using h
      grind
    | succ n =>
      have h' : e ≤ s + ((i + 1 + n : Nat) : Rat) * hop := by
        have : i + 1 + n = i + (n + 1) := by omega
        rw [this]; exact h
      have h1 : ¬ (s + i * hop ≥ e) := by grind
      have h2 : ¬ (s + ↑i * hop + dur > e ∧ incl = false) := by
        rcases h5 with h5 | h5
        · simp [h5]
        · grind
      simp only [loop, h1, if_false, h2, ih n (i+1) h' hrest, hp, window]

/-- a successful call: both parameters positive, the result is the loop -/
theorem ok_inv {s e dur hop : Rat} {incl : Bool} {out : List (Rat × Rat)}
    (h : segmentClip s e dur hop incl = .ok out) :
    0 < dur ∧ 0 < hop ∧ out = loop s e dur hop incl (bound s e hop) 0 := by
  unfold segmentClip segmentClipWith at h
  by_cases h1 : dur ≤ 0
  · simp [h1] at h
  · by_cases h2 : hop ≤ 0
    · simp [h1, h2] at h
    · simp only [h1, h2, if_false, Except.ok.injEq] at h
      exact ⟨Rat.not_le.1 h1, Rat.not_le.1 h2, h.symm⟩

/-- membership: exactly the windows of the specification, for every lattice index -/
theorem mem_iff {s e dur hop : Rat} {incl : Bool} {out : List (Rat × Rat)}
    (h : segmentClip s e dur hop incl = .ok out) (p : Rat × Rat) :
    p ∈ out ↔ ∃ j : Nat, Window s e dur hop incl j p := by
  obtain ⟨_, hh, rfl⟩ := ok_inv h
  rw [mem_loop s e dur hop incl hh]
  constructor
  · rintro ⟨j, _, _, hw⟩; exact ⟨j, hw⟩
  · rintro ⟨j, hw⟩
    have h2 := hw.2.1; rw [hw.1] at h2
    exact ⟨j, Nat.zero_le _, by have := window_lt_bound s e hop hh j h2; omega, hw⟩

/-! ### review R-C14: closed-form count, name injectivity -/

theorem natCast_lt_iff_lt_ceil_toNat (i : Nat) (q : Rat) : (i : Rat) < q ↔ i < q.ceil.toNat := by
  rw [Int.lt_toNat]
  constructor
  · intro h
    apply Int.not_le.1
    intro h2
    have := (Rat.ceil_le_iff (x := q) (y := (i : Int))).1 h2
    have h3 : ((i : Int) : Rat) = (i : Rat) := by norm_cast
    grind
  · intro h
    apply Rat.not_le.1
    intro h2
    have h3 : ((i : Int) : Rat) = (i : Rat) := by norm_cast
    have := (Rat.ceil_le_iff (x := q) (y := (i : Int))).2 (by rw [h3]; exact h2)
    omega

theorem natCast_le_iff_le_floor_toNat (i : Nat) (q : Rat) (hq : 0 ≤ q) : (i : Rat) ≤ q ↔ i ≤ q.floor.toNat := by
  have hf0 : 0 ≤ q.floor := Rat.le_floor_iff.2 (by simpa using hq)
  rw [Int.le_toNat hf0, Rat.le_floor_iff]
  have h3 : ((i : Int) : Rat) = (i : Rat) := by norm_cast
  rw [h3]

/-- the windows are exactly the lattice indices below the closed-form count -/
theorem isWindow_iff_lt_count (s e dur hop : Rat) (incl : Bool) (hd : 0 < dur) (hh : 0 < hop) (i : Nat) :
    isWindow s e dur hop incl i = true ↔ i < count s e dur hop incl := by
  rw [isWindow_iff]
  unfold count
  cases incl with
  | true =>
    simp only [true_or, and_true, if_true]
    rw [← natCast_lt_iff_lt_ceil_toNat, Rat.lt_div_iff hh]
    grind
  | false =>
    simp only [Bool.false_eq_true, false_or, if_false]
    have hi : 0 ≤ (i : Rat) * hop := Rat.mul_nonneg (by exact_mod_cast Nat.zero_le i) (Rat.le_of_lt hh)
    by_cases h1 : e - s < dur
    · simp only [h1, if_true, Nat.not_lt_zero, iff_false]
      grind
    · simp only [h1, if_false]
      have hq : 0 ≤ (e - s - dur) / hop := by
        apply Rat.not_lt.1
        intro hneg
        have := (Rat.div_lt_iff hh).1 hneg
        grind
      rw [Nat.lt_succ_iff, ← natCast_le_iff_le_floor_toNat _ _ hq]
      constructor
      · rintro ⟨_, h3⟩
        apply Rat.not_lt.1
        intro h4
        have := (Rat.div_lt_iff hh).1 h4
        grind
      · intro h3
        have h5 : ¬ ((e - s - dur) / hop < (i : Rat)) := Rat.not_lt.2 h3
        rw [Rat.div_lt_iff hh] at h5
        grind

theorem holdsFrom_windows (s e dur hop : Rat) (incl : Bool) :
    ∀ (out : List (Rat × Rat)) (i : Nat), holdsFrom s e dur hop incl i out = true →
      (∀ j, j < out.length → isWindow s e dur hop incl (i + j) = true) ∧
      isWindow s e dur hop incl (i + out.length) = false := by
  intro out
  induction out with
  | nil => intro i h; simpa [holdsFrom] using h
  | cons p ps ih =>
    intro i h
    simp only [holdsFrom, Bool.and_eq_true] at h
    obtain ⟨⟨h1, _⟩, h3⟩ := h
    obtain ⟨a, b⟩ := ih (i+1) h3
    constructor
    · intro j hj
      cases j with
      | zero => simpa using h1
      | succ j =>
        have := a j (by simpa using hj)
        have e : i + 1 + j = i + (j + 1) := by omega
        rw [← e]; exact this
    · have e : i + (p :: ps).length = i + 1 + ps.length := by simp; omega
      rw [e]; exact b

/-- the lattice point at or just below `x` (in units of `hop`) -/
theorem floor_toNat_bounds (x hop : Rat) (hh : 0 < hop) (hx : 0 ≤ x) :
    ((x / hop).floor.toNat : Rat) * hop ≤ x ∧ x < (((x / hop).floor.toNat : Rat) + 1) * hop := by
  have hq : 0 ≤ x / hop := by
    apply Rat.not_lt.1
    intro hneg
    have := (Rat.div_lt_iff hh).1 hneg
    grind
  have hf0 : 0 ≤ (x / hop).floor := Rat.le_floor_iff.2 (by simpa using hq)
  have hcast : (((x / hop).floor.toNat : Nat) : Rat) = ((x / hop).floor : Rat) := by
    have : (((x / hop).floor.toNat : Nat) : Int) = (x / hop).floor := Int.toNat_of_nonneg hf0
    exact_mod_cast this
  have hmul : x / hop * hop = x := by rw [Rat.div_mul_cancel]; grind
  rw [hcast]
  constructor
  · have := Rat.mul_le_mul_of_nonneg_right (Rat.floor_le (x / hop)) (Rat.le_of_lt hh)
    grind
  · have h3 := Rat.lt_floor_add_one (x / hop)
    have h4 : ((((x / hop).floor + 1 : Int)) : Rat) = ((x / hop).floor : Rat) + 1 := by norm_cast
    rw [h4] at h3
    have := Rat.mul_lt_mul_of_pos_right h3 hh
    grind


/-- two lists that agree up to the first `c` -/
theorem split_at {c : Char} : ∀ (l1 l1' l2 l2' : List Char), c ∉ l1 → c ∉ l1' →
    l1 ++ c :: l2 = l1' ++ c :: l2' → l1 = l1' ∧ l2 = l2' := by
  intro l1
  induction l1 with
  | nil =>
    intro l1' l2 l2' _ h' h
    cases l1' with
    | nil => simpa using h
    | cons a t => simp at h h'; grind
  | cons a t ih =>
    intro l1' l2 l2' h1 h1' h
    cases l1' with
    | nil => simp at h h1; grind
    | cons b t' =>
      simp at h h1 h1'
      obtain ⟨rfl, h⟩ := h
      obtain ⟨r1, r2⟩ := ih t' l2 l2' h1.2 h1'.2 h
      exact ⟨by rw [r1], r2⟩

/-- a concrete formatting that satisfies the hypotheses of the name theorems (non-vacuity):
    numerator in unary ('a' positive, 'b' negative), '/', denominator in unary -/
def fmtU (x : Rat) : String :=
  String.ofList (List.replicate x.num.toNat 'a' ++ List.replicate (-x.num).toNat 'b' ++ '/' :: List.replicate x.den 'c')

theorem fmtU_noColon (x : Rat) : ':' ∉ (fmtU x).toList := by
  simp [fmtU, List.mem_replicate]

theorem fmtU_inj (x y : Rat) (h : fmtU x = fmtU y) : x = y := by
  have h' := congrArg String.toList h
  simp only [fmtU, String.toList_ofList] at h'
  have n1 : ∀ z : Rat, '/' ∉ List.replicate z.num.toNat 'a' ++ List.replicate (-z.num).toNat 'b' := by
    intro z; simp [List.mem_replicate]
  obtain ⟨e1, e2⟩ := split_at _ _ _ _ (n1 x) (n1 y) h'
  have hd : x.den = y.den := by simpa using congrArg List.length e2
  have ha := congrArg (List.count 'a') e1
  have hb := congrArg (List.count 'b') e1
  simp [List.count_replicate] at ha hb
  have hn : x.num = y.num := by omega
  exact Rat.ext hn hd

end SE.Proofs.SegmentLemmas
