/-
  C02 — refinement of the operational save path: the fourteen uuid-keyed adapter tables
  (`TabOK` instances) and the tag adapter (dense ids from the size of the key table).
-/
import Proofs.Lemmas.AoefOpSaveVia
namespace SE.Aoef
open SE.Paths

/-! ### the uuid-keyed tables -/
section tabs
variable {T : List Tag} {dir : Option PPath}

local macro "tab_inj_sel" s:ident : tactic =>
  `(tactic| (intro o x h; cases o <;> simp [$s:ident] at h; rw [h]))

local macro "tab_set" : tactic =>
  `(tactic| (
    intro os x h
    simp [mkSt, tbl, List.filterMap_append, List.filterMap_cons, selUser, selTag, selRec, selClip,
      selSE, selSeq, selSEA, selSQA, selCA, selSEP, selSQP, selCP, selTask, selMatch, selCE,
      dedupBy_snoc, h]))

set_option linter.unusedSimpArgs false

theorem tabUsers : TabOK T dir (·.users) (fun st t => { st with users := t })
    selUser Obj.user (·.uuid) encUser where
  sel_inj := fun _ => rfl
  inj_sel := by tab_inj_sel selUser
  okey := by intro x y h; simp only [objKey]; rw [h]
  get_mk := fun _ => rfl
  set_mk := by tab_set

theorem tabRecs : TabOK T dir (·.recordings) (fun st t => { st with recordings := t })
    selRec Obj.recording (·.uuid) (encRecordingT T dir) where
  sel_inj := fun _ => rfl
  inj_sel := by tab_inj_sel selRec
  okey := by intro x y h; simp only [objKey]; rw [h]
  get_mk := fun _ => rfl
  set_mk := by tab_set

theorem tabClips : TabOK T dir (·.clips) (fun st t => { st with clips := t })
    selClip Obj.clip (·.uuid) encClip where
  sel_inj := fun _ => rfl
  inj_sel := by tab_inj_sel selClip
  okey := by intro x y h; simp only [objKey]; rw [h]
  get_mk := fun _ => rfl
  set_mk := by tab_set

theorem tabSEs : TabOK T dir (·.soundEvents) (fun st t => { st with soundEvents := t })
    selSE Obj.soundEvent (·.uuid) encSoundEvent where
  sel_inj := fun _ => rfl
  inj_sel := by tab_inj_sel selSE
  okey := by intro x y h; simp only [objKey]; rw [h]
  get_mk := fun _ => rfl
  set_mk := by tab_set

theorem tabSeqs : TabOK T dir (·.sequences) (fun st t => { st with sequences := t })
    selSeq Obj.sequence (·.uuid) encSequence where
  sel_inj := fun _ => rfl
  inj_sel := by tab_inj_sel selSeq
  okey := by
    intro x y h
    simp only [objKey]
    have : x.node.uuid = y.node.uuid := h
    rw [this]
  get_mk := fun _ => rfl
  set_mk := by tab_set

theorem tabSEAs : TabOK T dir (·.seas) (fun st t => { st with seas := t })
    selSEA Obj.seAnn (·.uuid) (encSEA T) where
  sel_inj := fun _ => rfl
  inj_sel := by tab_inj_sel selSEA
  okey := by intro x y h; simp only [objKey]; rw [h]
  get_mk := fun _ => rfl
  set_mk := by tab_set

theorem tabSQAs : TabOK T dir (·.sqas) (fun st t => { st with sqas := t })
    selSQA Obj.seqAnn (·.uuid) (encSQA T) where
  sel_inj := fun _ => rfl
  inj_sel := by tab_inj_sel selSQA
  okey := by intro x y h; simp only [objKey]; rw [h]
  get_mk := fun _ => rfl
  set_mk := by tab_set

theorem tabCAs : TabOK T dir (·.cas) (fun st t => { st with cas := t })
    selCA Obj.clipAnn (·.uuid) (encCA T) where
  sel_inj := fun _ => rfl
  inj_sel := by tab_inj_sel selCA
  okey := by intro x y h; simp only [objKey]; rw [h]
  get_mk := fun _ => rfl
  set_mk := by tab_set

theorem tabSEPs : TabOK T dir (·.seps) (fun st t => { st with seps := t })
    selSEP Obj.sePred (·.uuid) (encSEP T) where
  sel_inj := fun _ => rfl
  inj_sel := by tab_inj_sel selSEP
  okey := by intro x y h; simp only [objKey]; rw [h]
  get_mk := fun _ => rfl
  set_mk := by tab_set

theorem tabSQPs : TabOK T dir (·.sqps) (fun st t => { st with sqps := t })
    selSQP Obj.seqPred (·.uuid) (encSQP T) where
  sel_inj := fun _ => rfl
  inj_sel := by tab_inj_sel selSQP
  okey := by intro x y h; simp only [objKey]; rw [h]
  get_mk := fun _ => rfl
  set_mk := by tab_set

theorem tabCPs : TabOK T dir (·.cps) (fun st t => { st with cps := t })
    selCP Obj.clipPred (·.uuid) (encCP T) where
  sel_inj := fun _ => rfl
  inj_sel := by tab_inj_sel selCP
  okey := by intro x y h; simp only [objKey]; rw [h]
  get_mk := fun _ => rfl
  set_mk := by tab_set

theorem tabTasks : TabOK T dir (·.tasks) (fun st t => { st with tasks := t })
    selTask Obj.task (·.uuid) encTask where
  sel_inj := fun _ => rfl
  inj_sel := by tab_inj_sel selTask
  okey := by intro x y h; simp only [objKey]; rw [h]
  get_mk := fun _ => rfl
  set_mk := by tab_set

theorem tabMatches : TabOK T dir (·.matches_) (fun st t => { st with matches_ := t })
    selMatch Obj.mtch (·.uuid) encMatch where
  sel_inj := fun _ => rfl
  inj_sel := by tab_inj_sel selMatch
  okey := by intro x y h; simp only [objKey]; rw [h]
  get_mk := fun _ => rfl
  set_mk := by tab_set

theorem tabCEs : TabOK T dir (·.ces) (fun st t => { st with ces := t })
    selCE Obj.clipEval (·.uuid) encCE where
  sel_inj := fun _ => rfl
  inj_sel := by tab_inj_sel selCE
  okey := by intro x y h; simp only [objKey]; rw [h]
  get_mk := fun _ => rfl
  set_mk := by tab_set

end tabs

/-! ### the tag adapter -/
theorem map_eq_flatMap_single {α β : Type} (f : α → β) (l : List α) :
    l.map f = l.flatMap (fun x => [f x]) := by
  induction l with
  | nil => rfl
  | cons a l ih => simp [ih]

theorem lookup_zipIdx_mem (l : List Tag) (t : Tag) (h : t ∈ l) : ∀ k,
    (l.zipIdx k).lookup t = some (k + l.idxOf t) := by
  induction l with
  | nil => cases h
  | cons a l ih =>
    intro k
    by_cases hat : a = t
    · subst hat; simp [List.zipIdx_cons]
    · have hb : (t == a) = false := by simpa using fun e => hat e.symm
      have hb' : (a == t) = false := by simpa using hat
      have ht : t ∈ l := by
        rcases List.mem_cons.1 h with h | h
        · exact absurd h.symm hat
        · exact h
      simp only [List.zipIdx_cons, List.lookup_cons, hb, List.idxOf_cons, hb', cond_false]
      rw [ih ht (k + 1)]
      congr 1; omega

theorem lookup_zipIdx_not_mem (l : List Tag) (t : Tag) (h : t ∉ l) : ∀ k,
    (l.zipIdx k).lookup t = none := by
  induction l with
  | nil => intro k; rfl
  | cons a l ih =>
    intro k
    simp only [List.mem_cons, not_or] at h
    have hb : (t == a) = false := by simpa using h.1
    simp only [List.zipIdx_cons, List.lookup_cons, hb]
    exact ih h.2 (k + 1)

theorem lookup_tagStore_mem (l : List Tag) (t : Tag) (h : t ∈ l) : ∀ k,
    (tagStoreOf (l.zipIdx k)).lookup (k + l.idxOf t) = some ⟨k + l.idxOf t, t.key, t.value⟩ := by
  induction l with
  | nil => cases h
  | cons a l ih =>
    intro k
    by_cases hat : a = t
    · subst hat; simp [tagStoreOf, List.zipIdx_cons]
    · have hb' : (a == t) = false := by simpa using hat
      have ht : t ∈ l := by
        rcases List.mem_cons.1 h with h | h
        · exact absurd h.symm hat
        · exact h
      have hne : (k + (List.idxOf t l + 1) == k) = false := by simp
      simp only [tagStoreOf, List.zipIdx_cons, List.map_cons, List.lookup_cons, List.idxOf_cons, hb',
        cond_false, hne]
      have := ih ht (k + 1)
      simp only [tagStoreOf] at this
      rw [show k + (List.idxOf t l + 1) = k + 1 + List.idxOf t l by omega]
      exact this

theorem lookup_tagStore_ge (l : List Tag) : ∀ k n, k + l.length ≤ n →
    (tagStoreOf (l.zipIdx k)).lookup n = none := by
  induction l with
  | nil => intro k n _; rfl
  | cons a l ih =>
    intro k n h
    simp only [List.length_cons] at h
    have hne : (n == k) = false := by simp; omega
    simp only [tagStoreOf, List.zipIdx_cons, List.map_cons, List.lookup_cons, hne]
    exact ih (k + 1) n (by omega)

theorem opTag_known {t : Tag} {st : SaveSt} {i : Nat} {o : TagObj}
    (h1 : st.tagMap.lookup t = some i) (h2 : st.tags.lookup i = some o) :
    opTag t st = .ok (o, st) := by
  simp only [opTag, h1, h2]

theorem opTag_new {t : Tag} {st : SaveSt}
    (h1 : st.tagMap.lookup t = none) (h2 : st.tags.lookup st.tagMap.length = none) :
    opTag t st = .ok (⟨st.tagMap.length, t.key, t.value⟩,
      { st with tagMap := st.tagMap ++ [(t, st.tagMap.length)],
                tags := st.tags ++ [(st.tagMap.length, ⟨st.tagMap.length, t.key, t.value⟩)] }) := by
  simp only [opTag, h1, h2, dictPut]

section tag
variable {T : List Tag} {dir : Option PPath}

set_option linter.unusedSimpArgs false in
/-- **`TagAdapter.to_aoef`**: the id handed out — the stored one for a known (label, value), the
    size of the key table for a new one — is the tag's index in the final table `T` -/
theorem opTag_spec (t : Tag) (os : List Obj) (hpre : Pre T dir os [Obj.tag t]) :
    Spec T dir (opTag t) os [Obj.tag t] ⟨tagId T t, t.key, t.value⟩ := by
  have hok : PathsOK dir [Obj.tag t] := by intro r hr; simp at hr
  refine ⟨fun _ => ?_, fun hn => absurd hok hn⟩
  have hpfx := hpre.pre
  rw [tagTable_eq, List.filterMap_append] at hpfx
  simp only [List.filterMap_cons, selTag, List.filterMap_nil] at hpfx
  by_cases hm : t ∈ dedupBy id (os.filterMap selTag)
  · -- a known tag
    have hmem : Obj.tag t ∈ os := by
      rcases List.mem_filterMap.1 (dedupBy_subset id hm) with ⟨o, ho, hs⟩
      cases o <;> simp [selTag] at hs
      subst hs; exact ho
    have hall : ∀ o ∈ [Obj.tag t], o ∈ os := by intro o ho; simp at ho; exact ho ▸ hmem
    have h1 : (mkSt T dir os).tagMap.lookup t = some ((dedupBy id (os.filterMap selTag)).idxOf t) := by
      have := lookup_zipIdx_mem _ t hm 0
      simpa [mkSt] using this
    have h2 : (mkSt T dir os).tags.lookup ((dedupBy id (os.filterMap selTag)).idxOf t)
        = some ⟨(dedupBy id (os.filterMap selTag)).idxOf t, t.key, t.value⟩ := by
      have := lookup_tagStore_mem _ t hm 0
      simpa [mkSt] using this
    have hid : tagId T t = (dedupBy id (os.filterMap selTag)).idxOf t := by
      rw [dedupBy_snoc, if_pos ((dedupBy_keys_mem id).1 (List.mem_map.2 ⟨t, hm, rfl⟩))] at hpfx
      rcases hpfx with ⟨r, rfl⟩
      rw [tagId, List.idxOf_append, if_pos hm]
    rw [opTag_known h1 h2, mkSt_absorb T dir os _ hall, hid]
  · -- a new tag
    have hk : id t ∉ (os.filterMap selTag).map id := fun h =>
      hm (by
        rcases List.mem_map.1 ((dedupBy_keys_mem id).2 h) with ⟨y, hy, e⟩
        exact (show y = t from e) ▸ hy)
    have h1 : (mkSt T dir os).tagMap.lookup t = none := by
      have := lookup_zipIdx_not_mem _ t hm 0
      simpa [mkSt] using this
    have hlen : (mkSt T dir os).tagMap.length = (dedupBy id (os.filterMap selTag)).length := by
      simp [mkSt]
    have h2 : (mkSt T dir os).tags.lookup (mkSt T dir os).tagMap.length = none := by
      rw [hlen]
      have := lookup_tagStore_ge (dedupBy id (os.filterMap selTag)) 0 _ (Nat.le_of_eq (Nat.zero_add _))
      simpa [mkSt] using this
    have hid : tagId T t = (dedupBy id (os.filterMap selTag)).length := by
      rw [dedupBy_snoc, if_neg hk] at hpfx
      rcases hpfx with ⟨r, rfl⟩
      rw [tagId, List.append_assoc, List.idxOf_append, if_neg hm]
      simp
    rw [opTag_new h1 h2, hlen, hid]
    congr 1
    simp only [mkSt, tbl, List.filterMap_append, List.filterMap_cons, List.filterMap_nil, selUser,
      selTag, selRec, selClip, selSE, selSeq, selSEA, selSQA, selCA, selSEP, selSQP, selCP, selTask,
      selMatch, selCE, List.append_nil]
    rw [dedupBy_snoc, if_neg hk]
    simp [List.zipIdx_append, tagStoreOf]

theorem opTagId_spec (t : Tag) (os : List Obj) (hpre : Pre T dir os [Obj.tag t]) :
    Spec T dir (opTagId t) os [Obj.tag t] (tagId T t) :=
  by
  unfold opTagId
  exact (opTag_spec t os hpre).map (g := fun o : TagObj => o.id)

/-- `[tag_adapter.to_aoef(tag).id for tag in tags]` -/
theorem opTagIds_spec (ts : List Tag) (os : List Obj) (hpre : Pre T dir os (tagsAll ts)) :
    Spec T dir (opList opTagId ts) os (tagsAll ts) (ts.map (tagId T)) := by
  have e : tagsAll ts = ts.flatMap (fun t => [Obj.tag t]) := map_eq_flatMap_single _ _
  rw [e] at hpre ⊢
  exact opList_spec opTagId _ _ ts (fun t _ => closedL_tagsAll [t]) (fun t _ os h => opTagId_spec t os h)
    os hpre

end tag

end SE.Aoef
