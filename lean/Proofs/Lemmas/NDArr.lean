/- helper lemmas about row-major shape-indexed arrays (C16 `set_value_at_pos`) -/
import SoundeventModel.Axis
namespace SE.Axis

theorem inBounds_cons {d : Nat} {ds : List Nat} {i : Nat} {is : List Nat} :
    inBounds (d :: ds) (i :: is) = true ↔ i < d ∧ inBounds ds is = true := by
  simp [inBounds]

theorem inBounds_length {shape m : List Nat} (h : inBounds shape m = true) : m.length = shape.length := by
  induction shape generalizing m with
  | nil => cases m <;> simp_all [inBounds]
  | cons d ds ih =>
    cases m with
    | nil => simp [inBounds] at h
    | cons i is => simp [inBounds] at h; simp [ih h.2]

/-- the flat position of an in-bounds multi-index is inside the data -/
theorem ravel_lt {shape m : List Nat} (h : inBounds shape m = true) : ravel shape m < size shape := by
  induction shape generalizing m with
  | nil => cases m <;> simp_all [inBounds, ravel, size]
  | cons d ds ih =>
    cases m with
    | nil => simp [inBounds] at h
    | cons i is =>
      rw [inBounds_cons] at h
      have h1 := ih h.2
      have h2 : (i + 1) * size ds ≤ d * size ds := Nat.mul_le_mul_right _ (by omega)
      simp only [ravel, size]
      rw [Nat.add_mul] at h2
      omega

/-- `unravel` inverts `ravel` on in-bounds multi-indices -/
theorem unravel_ravel {shape m : List Nat} (h : inBounds shape m = true) :
    unravel shape (ravel shape m) = m := by
  induction shape generalizing m with
  | nil => cases m <;> simp_all [inBounds, unravel]
  | cons d ds ih =>
    cases m with
    | nil => simp [inBounds] at h
    | cons i is =>
      rw [inBounds_cons] at h
      have hr := ravel_lt h.2
      have hpos : 0 < size ds := by omega
      simp only [ravel, unravel]
      have h1 : (i * size ds + ravel ds is) / size ds = i := by
        rw [Nat.mul_comm, Nat.mul_add_div hpos, Nat.div_eq_of_lt hr]; simp
      have h2 : (i * size ds + ravel ds is) % size ds = ravel ds is := by
        rw [Nat.mul_comm, Nat.mul_add_mod, Nat.mod_eq_of_lt hr]
      rw [h1, h2, ih h.2]

theorem getD_mapIdx {α β} (l : List α) (f : Nat → α → β) (p : Nat) (d : β) (hp : p < l.length) :
    (l.mapIdx f).getD p d = f p l[p] := by
  simp [List.getD, hp]

/-- what `buildIndexer` produces for a query that names every axis at most once: the looked-up
    index on every queried axis (all lookups succeeded), the initial entry elsewhere -/
theorem buildIndexer_spec (axes : List (List Rat)) (query : List (Nat × Rat)) (ix0 ix : Indexer)
    (hnd : (query.map Prod.fst).Nodup) (h : buildIndexer axes query ix0 = .ok ix) :
    ix.length = ix0.length ∧
    (∀ k q, (k, q) ∈ query → ∃ coords i, axes[k]? = some coords ∧ coordIndex coords q true = .ok i ∧
        (k < ix0.length → ix[k]? = some (some i))) ∧
    (∀ k, (∀ q, (k, q) ∉ query) → ix[k]? = ix0[k]?) := by
  induction query generalizing ix0 with
  | nil =>
    simp [buildIndexer] at h; subst h; simp
  | cons kq rest ih =>
    obtain ⟨k, q⟩ := kq
    simp only [buildIndexer] at h
    split at h
    · simp at h
    · rename_i coords hax
      split at h
      · simp at h
      · rename_i i hci
        simp only [List.map_cons, List.nodup_cons] at hnd
        obtain ⟨hlen, hq, hn⟩ := ih (ix0.set k (some i)) hnd.2 h
        have hknot : ∀ q', (k, q') ∉ rest := by
          intro q' hmem
          exact hnd.1 (List.mem_map.mpr ⟨(k, q'), hmem, rfl⟩)
        refine ⟨by simpa using hlen, ?_, ?_⟩
        · intro k' q' hmem
          rcases List.mem_cons.mp hmem with heq | hmem'
          · cases heq
            refine ⟨coords, i, hax, hci, ?_⟩
            intro hk
            rw [hn k hknot]
            simp [hk]
          · obtain ⟨c', i', h1, h2, h3⟩ := hq k' q' hmem'
            exact ⟨c', i', h1, h2, fun hk => h3 (by simpa using hk)⟩
        · intro k' hk'
          have hne : k' ≠ k := by
            intro he; subst he; exact hk' q (by simp)
          rw [hn k' (fun q' hm => hk' q' (List.mem_cons_of_mem _ hm))]
          simp [Ne.symm hne]

end SE.Axis
