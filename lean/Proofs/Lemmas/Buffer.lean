/- Helper lemmas of C11: the scale factors of the shapely pipeline. -/
import SoundeventModel.Buffer
import SoundeventModel.Geometry
import Mathlib.Tactic.Ring
import Mathlib.Tactic.Linarith
import Mathlib.Tactic.FieldSimp
import Mathlib.Algebra.Order.Field.Rat
import Mathlib.Algebra.Order.Field.Basic
namespace SE.Proofs.Lemmas.Buffer
open SE SE.Buf

theorem factor_pos (b : Rat) : 0 < factor b := by
  unfold factor
  split
  · rename_i h; exact one_div_pos.mpr h
  · norm_num

theorem factor_of_pos (b : Rat) (h : 0 < b) : factor b = 1 / b := by
  simp [factor, h]

theorem factor_zero : factor 0 = 1000000000 := by
  simp [factor]

theorem unscale_scale (tb fb : Rat) (p : Pt) : unscalePt tb fb (scalePt tb fb p) = p := by
  have h1 := (factor_pos tb).ne'
  have h2 := (factor_pos fb).ne'
  simp only [unscalePt, scalePt]
  ext <;> simp [h1, h2]

theorem scale_unscale (tb fb : Rat) (q : Pt) : scalePt tb fb (unscalePt tb fb q) = q := by
  have h1 := (factor_pos tb).ne'
  have h2 := (factor_pos fb).ne'
  simp only [unscalePt, scalePt]
  ext <;> simp [h1, h2]

/-- larger buffer, smaller factor — unless the smaller buffer is 0 and the larger one below 1e-9 -/
theorem factor_anti (b b' : Rat) (h0 : 0 ≤ b) (h : b ≤ b')
    (hz : b = 0 → b' = 0 ∨ 1 / 1000000000 ≤ b') : factor b' ≤ factor b := by
  rcases lt_or_eq_of_le h0 with hb | hb
  · have hb' : 0 < b' := lt_of_lt_of_le hb h
    rw [factor_of_pos b hb, factor_of_pos b' hb']
    exact one_div_le_one_div_of_le hb h
  · subst hb
    rcases hz rfl with h' | h'
    · subst h'; exact le_refl _
    · have hb' : 0 < b' := lt_of_lt_of_le (by norm_num) h'
      rw [factor_of_pos b' hb', factor_zero]
      rw [div_le_iff₀ hb']
      have : (1000000000 : Rat) * (1 / 1000000000) ≤ 1000000000 * b' := by
        apply mul_le_mul_of_nonneg_left h' (by norm_num)
      linarith

/-- distance in the scaled space is distance in buffer widths -/
theorem dist2_scale (ρ tb fb : Rat) (p c : Pt) :
    dist2 (scalePt tb fb p) (scalePt tb fb c) ≤ ρ ↔
    ((p.1 - c.1) * factor tb) * ((p.1 - c.1) * factor tb) +
    ((p.2 - c.2) * factor fb) * ((p.2 - c.2) * factor fb) ≤ ρ := by
  have : dist2 (scalePt tb fb p) (scalePt tb fb c) =
    ((p.1 - c.1) * factor tb) * ((p.1 - c.1) * factor tb) +
    ((p.2 - c.2) * factor fb) * ((p.2 - c.2) * factor fb) := by
    simp only [dist2, scalePt]; ring
  rw [this]

/-- a displacement of at most `ρ` buffers along one axis is at most `ρ` in the scaled space -/
theorem axis_within (ρ b d : Rat) (hρ : 0 ≤ ρ) (hb : 0 ≤ b) (h1 : -(ρ * b) ≤ d) (h2 : d ≤ ρ * b) :
    (d * factor b) * (d * factor b) ≤ ρ * ρ := by
  rcases lt_or_eq_of_le hb with hb | hb
  · rw [factor_of_pos b hb]
    have e : d * (1 / b) = d / b := by ring
    rw [e]
    have a1 : d / b ≤ ρ := by rw [div_le_iff₀ hb]; exact h2
    have a2 : -ρ ≤ d / b := by rw [le_div_iff₀ hb]; linarith
    nlinarith
  · subst hb
    have : d = 0 := by linarith
    subst this
    simp only [zero_mul]; exact mul_nonneg hρ hρ

/-- if the squared distance is at most 1 then so is each coordinate difference -/
theorem coord_le_of_dist2 (q c : Pt) (h : dist2 q c ≤ 1) : q.1 - c.1 ≤ 1 := by
  unfold dist2 at h
  nlinarith [mul_self_nonneg (q.2 - c.2), mul_self_nonneg (q.1 - c.1 - 1)]

/-- the points `compute_bounds` ranges over lie in the domain when the geometry is valid -/
theorem valid_boundPts_inDomain (g : Geom) (hc : closedForm g = false) (hv : valid g = true) :
    ∀ p ∈ g.boundPts, inDomain p := by
  intro p hp
  unfold inDomain
  cases g with
  | timeStamp t => simp [closedForm] at hc
  | timeInterval s e => simp [closedForm] at hc
  | boundingBox s l e h => simp [closedForm] at hc
  | point t f =>
    simp only [Geom.boundPts, List.mem_singleton] at hp; subst hp
    simpa [valid, okPt, and_assoc] using hv
  | lineString pts =>
    simp only [valid, Bool.and_eq_true, List.all_eq_true] at hv
    simpa [okPt, and_assoc] using hv.1.2 p hp
  | multiPoint pts =>
    simp only [valid, Bool.and_eq_true, List.all_eq_true] at hv
    simpa [okPt, and_assoc] using hv.2 p hp
  | multiLineString ls =>
    simp only [valid, Bool.and_eq_true, List.all_eq_true] at hv
    simp only [Geom.boundPts, List.mem_flatten] at hp
    obtain ⟨l, hl, hpl⟩ := hp
    simpa [okPt, and_assoc] using (hv.2 l hl).1.2 p hpl
  | polygon rings =>
    simp only [valid, okPoly, Bool.and_eq_true, List.all_eq_true] at hv
    simp only [Geom.boundPts] at hp
    cases rings with
    | nil => simp at hp
    | cons shell holes =>
      simp only [List.headD_cons] at hp
      have := hv.2 shell (by simp)
      simp only [okRing, Bool.and_eq_true, List.all_eq_true] at this
      simpa [okPt, and_assoc] using this.2 p hp
  | multiPolygon ps =>
    simp only [valid, Bool.and_eq_true, List.all_eq_true] at hv
    simp only [Geom.boundPts, List.mem_flatten, List.mem_map] at hp
    obtain ⟨l, ⟨rings, hrs, rfl⟩, hpl⟩ := hp
    have := hv.2 rings hrs
    simp only [okPoly, Bool.and_eq_true, List.all_eq_true] at this
    cases rings with
    | nil => simp at hpl
    | cons shell holes =>
      simp only [List.headD_cons] at hpl
      have := this.2 shell (by simp)
      simp only [okRing, Bool.and_eq_true, List.all_eq_true] at this
      simpa [okPt, and_assoc] using this.2 p hpl


/-- smaller factors (larger buffers) only enlarge the elliptical neighbourhood -/
theorem within_mono (tb fb tb' fb' : Rat) (p c : Pt)
    (ht : factor tb' ≤ factor tb) (hf : factor fb' ≤ factor fb)
    (hw : withinBuffers 1 tb fb p c) : withinBuffers 1 tb' fb' p c := by
  unfold withinBuffers at *
  have a := factor_pos tb'; have b := factor_pos fb'
  have s1 : factor tb' * factor tb' ≤ factor tb * factor tb := mul_self_le_mul_self a.le ht
  have s2 : factor fb' * factor fb' ≤ factor fb * factor fb := mul_self_le_mul_self b.le hf
  have d1 := mul_le_mul_of_nonneg_left s1 (mul_self_nonneg (p.1 - c.1))
  have d2 := mul_le_mul_of_nonneg_left s2 (mul_self_nonneg (p.2 - c.2))
  nlinarith

end SE.Proofs.Lemmas.Buffer
