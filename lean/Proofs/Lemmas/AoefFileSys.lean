import SoundeventModel.Aoef.FileSys
import Proofs.Lemmas.History

/-! Frame lemmas of the file-system model (`SE.Aoef.FS`): a call that does not write to a path leaves
    that path as it was, and so does any history of such calls. -/
namespace SE.Aoef.FS
open SE SE.Aoef SE.History

/-- a command that does not write to `p` leaves `p` as it was -/
theorem exec_frame (fs : FileSys) (y : Cmd) (p : String) (h : y.target ≠ some p) :
    (exec fs y).1 p = fs p := by
  cases y with
  | save q c sd =>
    have hq : p ≠ q := fun e => h (by simp [Cmd.target, e])
    simp only [exec, execW]
    cases save c sd <;> simp [write, hq]
  | load q ld =>
    simp only [exec, execW]
    cases hr : FS.read q fs with
    | none => rfl
    | some x => cases x <;> rfl
  | put q x =>
    have hq : p ≠ q := fun e => h (by simp [Cmd.target, e])
    simp [exec, execW, write, hq]
  | rm q =>
    have hq : p ≠ q := fun e => h (by simp [Cmd.target, e])
    simp [exec, execW, remove, hq]

theorem stateAfter_frame (ys : List Cmd) (fs : FileSys) (p : String) (h : ∀ y ∈ ys, y.target ≠ some p) :
    stateAfter exec fs ys p = fs p := by
  induction ys generalizing fs with
  | nil => rfl
  | cons y ys ih =>
    simp only [stateAfter]
    rw [ih _ (fun z hz => h z (List.mem_cons_of_mem _ hz))]
    exact exec_frame fs y p (h y List.mem_cons_self)

end SE.Aoef.FS
