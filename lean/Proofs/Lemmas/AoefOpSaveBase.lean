/-
  C02 — refinement of the operational save path (SoundeventModel/Aoef/OpSave.lean) to the
  declarative writer (Save.lean): the generic machinery.

  * `mkSt T dir os` : the adapter tables the declarative writer predicts after the traversal
    prefix `os` (tag ids taken in a fixed table `T` that extends the prefix's own tag table);
  * `Pre T dir os ys` : the hypotheses under which converting something whose traversal is `ys`
    from the state `mkSt T dir os` behaves as predicted (closure of `os`, coherence of `os ++ ys`,
    every recording of `os` inside the audio directory, `tagTable (os ++ ys)` a prefix of `T`);
  * `SpecP m os ys P a` : from `mkSt os`, `m` returns `a` and the state `mkSt (os ++ ys)` when `P`
    holds, and raises otherwise;
  * `viaStore_spec` : `DataAdapter.to_aoef` — skipping a stored object is sound.
-/
import Proofs.Lemmas.AoefRoundtrip
import Proofs.Lemmas.AoefOrder
import SoundeventModel.Aoef.OpSave
namespace SE.Aoef
open SE.Paths

/-! ### dedupBy: absorption and prefixes -/
section dedup
variable {α : Type _} {κ : Type _} [DecidableEq κ] (key : α → κ)

theorem dedupBy_append_absorb (xs ys : List α) (h : ∀ y ∈ ys, key y ∈ xs.map key) :
    dedupBy key (xs ++ ys) = dedupBy key xs := by
  induction ys using list_snoc_induction with
  | hnil => simp
  | hsnoc l y ih =>
    have hl : ∀ y ∈ l, key y ∈ xs.map key := fun z hz => h z (by simp [hz])
    rw [← List.append_assoc, dedupBy_snoc, if_pos, ih hl]
    have := h y (by simp)
    simp only [List.map_append, List.mem_append]
    exact Or.inl this

theorem dedupBy_prefix_append (xs ys : List α) : dedupBy key xs <+: dedupBy key (xs ++ ys) := by
  induction ys using list_snoc_induction with
  | hnil => simp
  | hsnoc l y ih =>
    rw [← List.append_assoc, dedupBy_snoc]
    split
    · exact ih
    · exact ih.trans (List.prefix_append _ _)

theorem dedupBy_keys_mem {x : α} {xs : List α} :
    key x ∈ (dedupBy key xs).map key ↔ key x ∈ xs.map key := by
  constructor
  · intro h
    rcases List.mem_map.1 h with ⟨y, hy, hk⟩
    exact List.mem_map.2 ⟨y, dedupBy_subset key hy, hk⟩
  · intro h
    rcases List.mem_map.1 h with ⟨y, hy, hk⟩
    rcases dedupBy_exists_key key hy with ⟨z, hz, hkz⟩
    exact List.mem_map.2 ⟨z, hz, hkz.trans hk⟩

theorem dedup_filterMap_absorb {β : Type _} (sel : β → Option α) (os ys : List β)
    (h : ∀ o ∈ ys, o ∈ os) :
    dedupBy key ((os ++ ys).filterMap sel) = dedupBy key (os.filterMap sel) := by
  rw [List.filterMap_append]
  apply dedupBy_append_absorb
  intro y hy
  rcases List.mem_filterMap.1 hy with ⟨o, ho, hs⟩
  exact List.mem_map.2 ⟨y, List.mem_filterMap.2 ⟨o, h o ho, hs⟩, rfl⟩

end dedup

/-! ### lookups -/
theorem lookup_kv_some {β ω : Type} (key : β → Atom) (enc : β → ω) (l : List β) (k : Atom) (o : ω)
    (h : List.lookup k (l.map fun y => (key y, enc y)) = some o) :
    ∃ y ∈ l, key y = k ∧ o = enc y := by
  induction l with
  | nil => simp at h
  | cons a l ih =>
    simp only [List.map_cons, List.lookup_cons] at h
    by_cases hk : k = key a
    · subst hk
      simp only [beq_self_eq_true, Option.some.injEq] at h
      exact ⟨a, by simp, rfl, h.symm⟩
    · have hb : (k == key a) = false := by simpa using hk
      simp only [hb] at h
      rcases ih h with ⟨y, hy, h1, h2⟩
      exact ⟨y, by simp [hy], h1, h2⟩

theorem lookup_kv_none {β ω : Type} (key : β → Atom) (enc : β → ω) (l : List β) (k : Atom)
    (h : k ∉ l.map key) : List.lookup k (l.map fun y => (key y, enc y)) = none :=
  find_map_none key enc l k h

theorem lookup_kv_none_iff {β ω : Type} (key : β → Atom) (enc : β → ω) (l : List β) (k : Atom)
    (h : List.lookup k (l.map fun y => (key y, enc y)) = none) : k ∉ l.map key := by
  induction l with
  | nil => simp
  | cons a l ih =>
    simp only [List.map_cons, List.lookup_cons] at h
    by_cases hk : k = key a
    · subst hk; simp at h
    · have hb : (k == key a) = false := by simpa using hk
      simp only [hb] at h
      simp only [List.map_cons, List.mem_cons, not_or]
      exact ⟨hk, ih h⟩

theorem dictPut_miss {κ β : Type} [BEq κ] (tbl : List (κ × β)) (k : κ) (v : β)
    (h : tbl.lookup k = none) : dictPut tbl k v = tbl ++ [(k, v)] := by
  simp [dictPut, h]

/-! ### the key of an object and coherence of an object list -/
def objKey : Obj → Nat × String × String
  | .user x => (0, x.uuid, "")
  | .tag x => (1, x.key, x.value)
  | .recording x => (2, x.uuid, "")
  | .clip x => (3, x.uuid, "")
  | .soundEvent x => (4, x.uuid, "")
  | .sequence x => (5, x.node.uuid, "")
  | .seAnn x => (6, x.uuid, "")
  | .seqAnn x => (7, x.uuid, "")
  | .clipAnn x => (8, x.uuid, "")
  | .sePred x => (9, x.uuid, "")
  | .seqPred x => (10, x.uuid, "")
  | .clipPred x => (11, x.uuid, "")
  | .task x => (12, x.uuid, "")
  | .mtch x => (13, x.uuid, "")
  | .clipEval x => (14, x.uuid, "")

/-- two objects of one kind with one key are equal (what sharing by reference guarantees) -/
def CohO (os : List Obj) : Prop := ∀ a ∈ os, ∀ b ∈ os, objKey a = objKey b → a = b

theorem CohO.mono {os os' : List Obj} (h : CohO os) (hs : ∀ o ∈ os', o ∈ os) : CohO os' :=
  fun a ha b hb hk => h a (hs a ha) b (hs b hb) hk

theorem WF.cohO {c : Collection} (h : WF c) : CohO c.trav := by
  intro a ha b hb hk
  cases a <;> cases b <;> simp only [objKey, Prod.mk.injEq, Nat.reduceEqDiff, false_and, and_true, true_and] at hk
  case user.user x y => exact congrArg _ (h.users x (usersOf_mem.2 ha) y (usersOf_mem.2 hb) hk)
  case tag.tag x y =>
    rcases x with ⟨k1, v1⟩; rcases y with ⟨k2, v2⟩
    simp only at hk; rw [hk.1, hk.2]
  case recording.recording x y => exact congrArg _ (h.recs x (recsOf_mem.2 ha) y (recsOf_mem.2 hb) hk)
  case clip.clip x y => exact congrArg _ (h.clips x (clipsOf_mem.2 ha) y (clipsOf_mem.2 hb) hk)
  case soundEvent.soundEvent x y => exact congrArg _ (h.ses x (sesOf_mem.2 ha) y (sesOf_mem.2 hb) hk)
  case sequence.sequence x y => exact congrArg _ (h.seqs x (seqsOf_mem.2 ha) y (seqsOf_mem.2 hb) hk)
  case seAnn.seAnn x y => exact congrArg _ (h.seas x (seasOf_mem.2 ha) y (seasOf_mem.2 hb) hk)
  case seqAnn.seqAnn x y => exact congrArg _ (h.sqas x (sqasOf_mem.2 ha) y (sqasOf_mem.2 hb) hk)
  case clipAnn.clipAnn x y => exact congrArg _ (h.cas x (casOf_mem.2 ha) y (casOf_mem.2 hb) hk)
  case sePred.sePred x y => exact congrArg _ (h.seps x (sepsOf_mem.2 ha) y (sepsOf_mem.2 hb) hk)
  case seqPred.seqPred x y => exact congrArg _ (h.sqps x (sqpsOf_mem.2 ha) y (sqpsOf_mem.2 hb) hk)
  case clipPred.clipPred x y => exact congrArg _ (h.cps x (cpsOf_mem.2 ha) y (cpsOf_mem.2 hb) hk)
  case task.task x y => exact congrArg _ (h.tasks x (tasksOf_mem.2 ha) y (tasksOf_mem.2 hb) hk)
  case mtch.mtch x y => exact congrArg _ (h.ms x (matchesOf_mem.2 ha) y (matchesOf_mem.2 hb) hk)
  case clipEval.clipEval x y => exact congrArg _ (h.ces x (cesOf_mem.2 ha) y (cesOf_mem.2 hb) hk)

/-! ### PathsOK on composite lists -/
theorem pathsOK_append {sd : Option PPath} {a b : List Obj} :
    PathsOK sd (a ++ b) ↔ PathsOK sd a ∧ PathsOK sd b := by
  unfold PathsOK
  constructor
  · intro h; exact ⟨fun r hr => h r (by simp [hr]), fun r hr => h r (by simp [hr])⟩
  · rintro ⟨h1, h2⟩ r hr
    rcases List.mem_append.1 hr with h | h
    · exact h1 r h
    · exact h2 r h

theorem pathsOK_nil {sd : Option PPath} : PathsOK sd [] := by intro r hr; cases hr

theorem pathsOK_of_subset {sd : Option PPath} {a b : List Obj} (h : PathsOK sd b)
    (hs : ∀ o ∈ a, o ∈ b) : PathsOK sd a := fun r hr => h r (hs _ hr)

theorem pathsOK_norec {sd : Option PPath} {a : List Obj} (h : ∀ r, Obj.recording r ∉ a) :
    PathsOK sd a := fun r hr => absurd hr (h r)

theorem pathsOK_flatMap {α : Type} {sd : Option PPath} {f : α → List Obj} {xs : List α} :
    PathsOK sd (xs.flatMap f) ↔ ∀ x ∈ xs, PathsOK sd (f x) := by
  unfold PathsOK
  constructor
  · intro h x hx r hr; exact h r (List.mem_flatMap.2 ⟨x, hx, hr⟩)
  · intro h r hr
    rcases List.mem_flatMap.1 hr with ⟨x, hx, hrx⟩
    exact h x hx r hrx

end SE.Aoef
