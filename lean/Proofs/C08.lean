/- C08 — property theorems (to be written). -/
import SoundeventModel.Basic
namespace SE.Proofs.C08

end SE.Proofs.C08
