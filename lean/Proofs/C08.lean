/-
  C08 — Detection evaluation accounts for every sound event and only credits overlaps.
  Property theorems only (helper lemmas: Proofs/Lemmas/Detection.lean, Proofs/Lemmas/Metrics.lean).

  The matcher (`match_geometries`, C07) is a parameter; `MatcherCover n m ms` is its contract on
  `n` source and `m` target geometries: every source and every target position occurs exactly
  once, no entry is empty, affinities lie in [0, 1], are 0 on one-sided entries and positive on
  pairs (C07's `cover` and `positive_pairs`, after the repair of `match_geometries`).  The harness
  evaluates `matcherCoverB` (proved equivalent below) on every answer of the real matcher.
-/
import SoundeventModel.Detection
import Proofs.Lemmas.Detection
import Proofs.Lemmas.DetectionGeo
import Proofs.C07
import SoundeventModel.DetectionTags
import Proofs.C19
import SoundeventModel.DetectionHistory
import Proofs.Lemmas.History
namespace SE.Proofs.C08
open SE SE.Metrics SE.Detection

/-! ### which clips are evaluated -/

/-- the evaluated clips are the predictions whose clip id is annotated, in the order of the
    predictions -/
theorem C08_clips {α β} (preds : List (Nat × α)) (anns : List (Nat × β)) :
    (Detection.pairClips preds anns).map (·.1) = (preds.map (·.1)).filter (fun k => (anns.map (·.1)).contains k) := by
  show (Metrics.pairClips preds anns).map (·.1) = _
  unfold Metrics.pairClips
  induction preds with
  | nil => rfl
  | cons p ps ih =>
    simp only [List.filterMap_cons, List.map_cons, List.filter_cons]
    have hs := lookupLast_isSome p.1 anns
    cases hl : lookupLast p.1 anns with
    | none =>
      rw [hl] at hs
      simp only [Option.isSome_none] at hs
      simp only [Option.map_none, ← hs, Bool.false_eq_true, if_false]
      exact ih
    | some a =>
      rw [hl] at hs
      simp only [Option.isSome_some] at hs
      simp only [Option.map_some, ← hs, if_true, List.map_cons, List.cons.injEq, true_and]
      exact ih

/-- each evaluated pair consists of a prediction of the input and an annotation of the input
    that carry the same clip id; with pairwise distinct annotated ids it is *the* annotation -/
theorem C08_clips_pairs {α β} (preds : List (Nat × α)) (anns : List (Nat × β))
    (x : Nat × β × α) (hx : x ∈ Detection.pairClips preds anns) :
    (x.1, x.2.2) ∈ preds ∧ (x.1, x.2.1) ∈ anns := by
  change x ∈ Metrics.pairClips preds anns at hx
  unfold Metrics.pairClips at hx
  rw [List.mem_filterMap] at hx
  obtain ⟨p, hp, hx⟩ := hx
  cases hl : lookupLast p.1 anns with
  | none => simp [hl] at hx
  | some a =>
    simp only [hl, Option.map_some, Option.some.injEq] at hx
    subst hx
    exact ⟨hp, lookupLast_some_mem _ _ _ hl⟩

/-! ### every sound event in exactly one match -/

/-- under the matcher's cover contract on the filtered lists `evaluate_clip` does not fail, and
    every predicted and every annotated sound event of the clip — with or without geometry —
    occurs in exactly one match (`ClipEvaluation`'s validator accepts) -/
theorem C08_cover (C : Nat) (preds : List SEPred) (anns : List SEAnn) (ms : List MEntry)
    (hc : MatcherCover (preds.filter (·.hasGeom)).length (anns.filter (·.hasGeom)).length ms) :
    ∃ es, evalClip C preds anns ms = some es ∧
      (es.filterMap (·.src)).Perm (List.range preds.length) ∧
      (es.filterMap (·.tgt)).Perm (List.range anns.length) ∧
      ∀ e ∈ es, e.src.isSome ∨ e.tgt.isSome := by
  have hp : (geomIdx (preds.map (·.hasGeom))).length = (preds.filter (·.hasGeom)).length := by
    rw [← geomIdx_map_getD preds (·.hasGeom), List.length_map]
  have ha : (geomIdx (anns.map (·.hasGeom))).length = (anns.filter (·.hasGeom)).length := by
    rw [← geomIdx_map_getD anns (·.hasGeom), List.length_map]
  rw [← hp, ← ha] at hc
  refine ⟨clipEntries C preds anns ms, evalClip_of_cover C preds anns ms hc,
    clipEntries_src_perm C preds anns ms hc, clipEntries_tgt_perm C preds anns ms hc, ?_⟩
  intro e he
  rcases mem_clipEntries.mp he with ⟨m, _, hm⟩ | ⟨i, _, rfl⟩ | ⟨j, _, rfl⟩
  · unfold stepTotal stepEntries at hm
    cases hs : m.src <;> cases ht : m.tgt <;> simp only [hs, ht, Option.map_none, Option.map_some] at hm
    · simp at hm
    · simp only [List.mem_singleton] at hm; subst hm; simp [unmatchedAnn]
    · simp only [List.mem_singleton] at hm; subst hm; simp [unmatchedPred]
    · simp only [List.mem_singleton] at hm; subst hm; simp [matchedPair]
  · simp [unmatchedPred]
  · simp [unmatchedAnn]

/-! ### the index map -/

/-- the filtered → original index map is the order-preserving injection onto the sound events
    that have a geometry: it is strictly increasing, hits only events with a geometry, and the
    event at the k-th mapped position is the k-th event handed to the matcher -/
theorem C08_index_faithful (preds : List SEPred) :
    (geomIdx (preds.map (·.hasGeom))).Pairwise (· < ·) ∧
    (∀ i ∈ geomIdx (preds.map (·.hasGeom)), i < preds.length ∧ (preds.getD i default).hasGeom = true) ∧
    (geomIdx (preds.map (·.hasGeom))).map (fun i => preds.getD i default) = preds.filter (·.hasGeom) := by
  refine ⟨geomIdx_sorted _, ?_, geomIdx_map_getD preds (·.hasGeom)⟩
  intro i hi
  rw [mem_geomIdx, List.length_map] at hi
  refine ⟨hi.1, ?_⟩
  have := hi.2
  simpa [List.getD_eq_getElem?_getD, hi.1] using this

/-- the same for the annotations -/
theorem C08_index_faithful_annotations (anns : List SEAnn) :
    (geomIdx (anns.map (·.hasGeom))).Pairwise (· < ·) ∧
    (∀ i ∈ geomIdx (anns.map (·.hasGeom)), i < anns.length ∧ (anns.getD i default).hasGeom = true) ∧
    (geomIdx (anns.map (·.hasGeom))).map (fun i => anns.getD i default) = anns.filter (·.hasGeom) := by
  refine ⟨geomIdx_sorted _, ?_, geomIdx_map_getD anns (·.hasGeom)⟩
  intro i hi
  rw [mem_geomIdx, List.length_map] at hi
  refine ⟨hi.1, ?_⟩
  have := hi.2
  simpa [List.getD_eq_getElem?_getD, hi.1] using this

/-! ### what a match reports -/

/-- a paired match names the two sound events whose geometries the matcher paired (index
    faithfulness) — which it does only when they overlap (affinity > 0, the matcher's contract);
    it reports that affinity, and as score and sole metric the probability the prediction
    gives to the annotation's class -/
theorem C08_pairs_overlap_report_affinity_score (C : Nat) (preds : List SEPred) (anns : List SEAnn)
    (ms : List MEntry) (es : List Entry)
    (hc : MatcherCover (preds.filter (·.hasGeom)).length (anns.filter (·.hasGeom)).length ms)
    (h : evalClip C preds anns ms = some es) (e : Entry) (he : e ∈ es) (hp : e.paired = true) :
    ∃ m ∈ ms, ∃ k l i j, m.src = some k ∧ m.tgt = some l ∧
      (geomIdx (preds.map (·.hasGeom)))[k]? = some i ∧ (geomIdx (anns.map (·.hasGeom)))[l]? = some j ∧
      e.src = some i ∧ e.tgt = some j ∧
      e.aff = m.aff ∧ 0 < e.aff ∧
      e.score = tcp ⟨classEnc (anns.getD j default).tags, predEnc C (preds.getD i default).tags⟩ ∧
      e.item = ⟨classEnc (anns.getD j default).tags, predEnc C (preds.getD i default).tags⟩ := by
  have hpl : (geomIdx (preds.map (·.hasGeom))).length = (preds.filter (·.hasGeom)).length := by
    rw [← geomIdx_map_getD preds (·.hasGeom), List.length_map]
  have hal : (geomIdx (anns.map (·.hasGeom))).length = (anns.filter (·.hasGeom)).length := by
    rw [← geomIdx_map_getD anns (·.hasGeom), List.length_map]
  rw [← hpl, ← hal] at hc
  rw [evalClip_of_cover C preds anns ms hc] at h
  cases h
  rcases mem_clipEntries.mp he with ⟨m, hm, hem⟩ | ⟨i, _, rfl⟩ | ⟨j, _, rfl⟩
  · obtain ⟨k, l, hs, ht, rfl⟩ := stepTotal_paired hem hp
    have ha : 0 < m.aff := (hc.2.2 m hm).2.2.2.2 ⟨by simp [hs], by simp [ht]⟩
    have hk := cover_src_lt hc hm hs
    have hl := cover_tgt_lt hc hm ht
    refine ⟨m, hm, k, l, (geomIdx (preds.map (·.hasGeom))).getD k 0, (geomIdx (anns.map (·.hasGeom))).getD l 0,
      hs, ht, ?_, ?_, ?_, ?_, ?_, ?_, ?_, ?_⟩
    · simp [List.getD_eq_getElem?_getD, hk]
    · simp [List.getD_eq_getElem?_getD, hl]
    · simp only [matchedPair]
    · simp only [matchedPair]
    · simp only [matchedPair]
    · simpa only [matchedPair] using ha
    · simp only [matchedPair, annClass, predRow]
    · simp only [matchedPair, annClass, predRow]
  · simp [Entry.paired, unmatchedPred] at hp
  · simp [Entry.paired, unmatchedAnn] at hp

/-- an unpaired sound event gets affinity 0 and score 0 -/
theorem C08_unpaired_zero (C : Nat) (preds : List SEPred) (anns : List SEAnn) (ms : List MEntry) (es : List Entry)
    (hc : MatcherCover (preds.filter (·.hasGeom)).length (anns.filter (·.hasGeom)).length ms)
    (h : evalClip C preds anns ms = some es) (e : Entry) (he : e ∈ es) (hp : e.paired = false) :
    e.aff = 0 ∧ e.score = 0 := by
  have hpl : (geomIdx (preds.map (·.hasGeom))).length = (preds.filter (·.hasGeom)).length := by
    rw [← geomIdx_map_getD preds (·.hasGeom), List.length_map]
  have hal : (geomIdx (anns.map (·.hasGeom))).length = (anns.filter (·.hasGeom)).length := by
    rw [← geomIdx_map_getD anns (·.hasGeom), List.length_map]
  rw [← hpl, ← hal] at hc
  rw [evalClip_of_cover C preds anns ms hc] at h
  cases h
  rcases mem_clipEntries.mp he with ⟨m, hm, hem⟩ | ⟨i, _, rfl⟩ | ⟨j, _, rfl⟩
  · have := hc.2.2 m hm
    exact stepTotal_unpaired hem hp this.2.2.2.1
  · exact ⟨rfl, rfl⟩
  · exact ⟨rfl, rfl⟩

/-- a sound event without geometry is never paired -/
theorem C08_geometryless_unpaired (C : Nat) (preds : List SEPred) (anns : List SEAnn) (ms : List MEntry)
    (es : List Entry)
    (hc : MatcherCover (preds.filter (·.hasGeom)).length (anns.filter (·.hasGeom)).length ms)
    (h : evalClip C preds anns ms = some es) (e : Entry) (he : e ∈ es) (hp : e.paired = true) :
    (∀ i, e.src = some i → (preds.getD i default).hasGeom = true) ∧
    (∀ j, e.tgt = some j → (anns.getD j default).hasGeom = true) := by
  obtain ⟨m, _, k, l, i, j, _, _, hi, hj, hsrc, htgt, _⟩ :=
    C08_pairs_overlap_report_affinity_score C preds anns ms es hc h e he hp
  constructor
  · intro i' hi'
    rw [hsrc] at hi'; cases hi'
    exact ((C08_index_faithful preds).2.1 i (List.mem_of_getElem? hi)).2
  · intro j' hj'
    rw [htgt] at hj'; cases hj'
    exact ((C08_index_faithful_annotations anns).2.1 j (List.mem_of_getElem? hj)).2


/-! ### the run-time form of the matcher's contract -/

theorem perm_range_of_counts (l : List Nat) (n : Nat)
    (h1 : ∀ i, i < n → l.count i = 1) (h2 : ∀ i ∈ l, i < n) : l.Perm (List.range n) := by
  rw [List.perm_iff_count]
  intro a
  by_cases ha : a < n
  · rw [h1 a ha, List.Nodup.count List.nodup_range]; simp [ha]
  · have : a ∉ l := fun hm => ha (h2 a hm)
    rw [List.count_eq_zero_of_not_mem this, List.count_eq_zero_of_not_mem (by simpa using ha)]

/-- what the harness evaluates on the real matcher's answer implies the hypothesis of the theorems -/
theorem C08_matcher_contract_checked (n m : Nat) (ms : List MEntry) (h : matcherCoverB n m ms = true) :
    MatcherCover n m ms := by
  unfold matcherCoverB at h
  simp only [Bool.and_eq_true, List.all_eq_true, List.mem_range, beq_iff_eq, decide_eq_true_eq] at h
  obtain ⟨⟨⟨⟨h1, h2⟩, h3⟩, h4⟩, h5⟩ := h
  refine ⟨perm_range_of_counts _ n h1 h2, perm_range_of_counts _ m h3 h4, ?_⟩
  intro e he
  have := h5 e he
  simp only [Bool.or_eq_true, beq_iff_eq] at this
  obtain ⟨⟨⟨ha, hb⟩, hc⟩, hd⟩ := this
  refine ⟨ha, hb, hc, ?_, ?_⟩
  · intro hnone
    by_cases hboth : e.src.isSome = true ∧ e.tgt.isSome = true
    · rcases hnone with h | h
      · simp [Option.isNone_iff_eq_none.mp h] at hboth
      · simp [Option.isNone_iff_eq_none.mp h] at hboth
    · rw [if_neg hboth] at hd; simpa using hd
  · intro hboth
    rw [if_pos hboth] at hd; simpa using hd


/-- the matcher's contract is what C07 proves of `match_geometries`' own logic: for a valid
    answer of the assignment solver on an `n × m` affinity matrix with entries in [0, 1] (C06),
    the matches it yields satisfy `MatcherCover` -/
theorem C08_contract_from_C07 (n m : Nat) (aff : SE.Matching.Mat) (assigned : List (Nat × Nat))
    (out : List SE.Matching.Entry) (h : SE.Proofs.C07.ValidAssignment n m assigned)
    (hout : SE.Matching.selectMatches n m aff assigned = .ok out)
    (haff : ∀ i j, i < n → j < m → 0 ≤ aff i j ∧ aff i j ≤ 1) :
    MatcherCover n m (out.map (fun e => (⟨e.src, e.tgt, e.aff⟩ : MEntry))) := by
  obtain ⟨hs, ht, hne⟩ := SE.Proofs.C07.C07_cover n m aff assigned out h hout
  have hpos := SE.Proofs.C07.C07_positive_pairs n m aff assigned out h hout
  have hrep := SE.Proofs.C07.C07_reported_affinity n m aff assigned out h hout
  have hzero := SE.Proofs.C07.C07_unpaired_zero n m aff assigned out h hout
  refine ⟨?_, ?_, ?_⟩
  · simpa [SE.Matching.srcs, List.filterMap_map, Function.comp_def] using hs
  · simpa [SE.Matching.tgts, List.filterMap_map, Function.comp_def] using ht
  · intro e' he'
    obtain ⟨e, he, rfl⟩ := List.mem_map.mp he'
    simp only
    have hone : (e.src = none ∨ e.tgt = none) → e.aff = 0 := hzero e he
    have hboth : ∀ i j, e.src = some i → e.tgt = some j → 0 < e.aff ∧ e.aff ≤ 1 := by
      intro i j hi hj
      have hi' : i < n := by
        have : i ∈ SE.Matching.srcs out := List.mem_filterMap.mpr ⟨e, he, hi⟩
        simpa using hs.mem_iff.mp this
      have hj' : j < m := by
        have : j ∈ SE.Matching.tgts out := List.mem_filterMap.mpr ⟨e, he, hj⟩
        simpa using ht.mem_iff.mp this
      rw [hrep e he i j hi hj]
      exact ⟨(hpos e he i j hi hj).1, (haff i j hi' hj').2⟩
    refine ⟨?_, ?_, ?_, ?_, ?_⟩
    · rcases hne e he with h1 | h1
      · exact Or.inl (Option.isSome_iff_ne_none.mpr h1)
      · exact Or.inr (Option.isSome_iff_ne_none.mpr h1)
    · cases hs' : e.src with
      | none => rw [hone (Or.inl hs')]
      | some i =>
        cases ht' : e.tgt with
        | none => rw [hone (Or.inr ht')]
        | some j => exact le_of_lt (hboth i j hs' ht').1
    · cases hs' : e.src with
      | none => rw [hone (Or.inl hs')]; norm_num
      | some i =>
        cases ht' : e.tgt with
        | none => rw [hone (Or.inr ht')]; norm_num
        | some j => exact (hboth i j hs' ht').2
    · rintro (h1 | h1)
      · exact hone (Or.inl (Option.isNone_iff_eq_none.mp h1))
      · exact hone (Or.inr (Option.isNone_iff_eq_none.mp h1))
    · rintro ⟨h1, h2⟩
      obtain ⟨i, hi⟩ := Option.isSome_iff_exists.mp h1
      obtain ⟨j, hj⟩ := Option.isSome_iff_exists.mp h2
      exact (hboth i j hi hj).1


/-! ### the executable cover statement used as monitor -/

theorem exactlyOnceB_iff (n : Nat) (l : List Nat) : exactlyOnceB n l = true ↔ l.Perm (List.range n) := by
  unfold exactlyOnceB
  simp only [Bool.and_eq_true, List.all_eq_true, List.mem_range, beq_iff_eq, decide_eq_true_eq]
  constructor
  · rintro ⟨h1, h2⟩; exact perm_range_of_counts l n h1 h2
  · intro hp
    constructor
    · intro i hi
      rw [hp.count_eq, List.Nodup.count List.nodup_range]; simp [hi]
    · intro i hi
      simpa using hp.mem_iff.mp hi

/-- the monitor the harness evaluates on the matches `sound_event_detection` really returned
    means exactly the cover statement of `C08_cover` … -/
theorem C08_holds_cover_sound (nP nA : Nat) (ms : List (Option Nat × Option Nat)) :
    holdsCoverB nP nA ms = true ↔
      ((ms.filterMap (·.1)).Perm (List.range nP) ∧ (ms.filterMap (·.2)).Perm (List.range nA) ∧
       ∀ m ∈ ms, m.1.isSome ∨ m.2.isSome) := by
  unfold holdsCoverB
  simp only [Bool.and_eq_true, exactlyOnceB_iff, List.all_eq_true, Bool.or_eq_true, and_assoc]

/-- … and the model satisfies it whenever the matcher keeps its contract -/
theorem C08_holds_cover_model (C : Nat) (preds : List SEPred) (anns : List SEAnn) (ms : List MEntry)
    (hc : MatcherCover (preds.filter (·.hasGeom)).length (anns.filter (·.hasGeom)).length ms) :
    ∃ es, evalClip C preds anns ms = some es ∧
      holdsCoverB preds.length anns.length (es.map (fun e => (e.src, e.tgt))) = true := by
  obtain ⟨es, h, h1, h2, h3⟩ := C08_cover C preds anns ms hc
  refine ⟨es, h, ?_⟩
  rw [C08_holds_cover_sound]
  refine ⟨?_, ?_, ?_⟩
  · simpa [List.filterMap_map, Function.comp_def] using h1
  · simpa [List.filterMap_map, Function.comp_def] using h2
  · intro m hm
    obtain ⟨e, he, rfl⟩ := List.mem_map.mp hm
    exact h3 e he

example : holdsCoverB 2 1 [(some 1, some 0), (some 0, none)] = true := by decide
example : holdsCoverB 2 1 [(some 1, some 0)] = false := by decide
example : holdsCoverB 1 1 [(some 0, some 0), (none, some 0)] = false := by decide


/-! ### scores are means -/

theorem C08_clip_score_is_mean (es : List Entry) :
    clipScore es = if es = [] then 0 else mean (es.map (·.score)) := by
  unfold clipScore meanOrZero
  cases es <;> simp

/-- the match `evaluate_clip` builds from an entry -/
def detMatchOut (e : Entry) : MatchOut :=
  { src := e.src, tgt := e.tgt, affinity := e.aff, score := some e.score,
    metrics := if e.paired then [("True Class Probability", tcp e.item)] else [] }

theorem entryOut_eq (e : Entry) : entryOut e = .ok (detMatchOut e) := by
  unfold entryOut detMatchOut
  cases hp : e.paired <;>
    simp [features, taskMetrics, itemMetricSL, Metric.label, List.mapM_cons, List.mapM_nil, bind,
      Except.bind, pure, Except.pure]

/-- the clip evaluation of one evaluated clip -/
def detClipOut (C : Nat) (x : Nat × List SEAnn × PredClip) : ClipOut :=
  let es := clipEntries C x.2.2.events x.2.1 x.2.2.matcher
  { clip := x.1, metrics := [], score := some (clipScore es), mts := es.map detMatchOut }

def clipCovered (x : Nat × List SEAnn × PredClip) : Prop :=
  MatcherCover (x.2.2.events.filter (·.hasGeom)).length (x.2.1.filter (·.hasGeom)).length x.2.2.matcher

theorem detClip_eq (C : Nat) (x : Nat × List SEAnn × PredClip) (hc : clipCovered x) :
    detClip C x = .ok (detClipOut C x, (clipEntries C x.2.2.events x.2.1 x.2.2.matcher).map (·.item)) := by
  unfold detClip
  have hpl : (geomIdx (x.2.2.events.map (·.hasGeom))).length = (x.2.2.events.filter (·.hasGeom)).length := by
    rw [← geomIdx_map_getD x.2.2.events (·.hasGeom), List.length_map]
  have hal : (geomIdx (x.2.1.map (·.hasGeom))).length = (x.2.1.filter (·.hasGeom)).length := by
    rw [← geomIdx_map_getD x.2.1 (·.hasGeom), List.length_map]
  unfold clipCovered at hc
  rw [← hpl, ← hal] at hc
  rw [evalClip_of_cover C _ _ _ hc]
  simp only
  rw [mapM_total entryOut detMatchOut entryOut_eq]
  rfl

/-- `sound_event_detection` under the matcher's contract on every evaluated clip: the clip
    evaluations are those of the evaluated pairs, in order; each clip score is the mean of its
    match scores (0 without matches); the overall score is the mean of the clip scores (0 without
    clips); the run-level metrics are computed over the items of all matches — none when no
    sound event was evaluated -/
theorem C08_means (C : Nat) (preds : List (Nat × PredClip)) (anns : List (Nat × List SEAnn)) (out : EvalOut)
    (hc : ∀ x ∈ Detection.pairClips preds anns, clipCovered x)
    (h : soundEventDetection C preds anns = .ok out) :
    let pairs := Detection.pairClips preds anns
    let entries := fun (x : Nat × List SEAnn × PredClip) => clipEntries C x.2.2.events x.2.1 x.2.2.matcher
    let items := (pairs.map (fun x => (entries x).map (·.item))).flatten
    out.clips = pairs.map (detClipOut C) ∧
    (∀ c ∈ out.clips, ∃ x ∈ pairs, c.clip = x.1 ∧ c.score = some (clipScore (entries x)) ∧
        c.mts.map (·.score) = (entries x).map (fun e => some e.score)) ∧
    out.score = meanOrZero (pairs.map (fun x => clipScore (entries x))) ∧
    (items = [] → out.metrics = []) ∧
    (items ≠ [] → ∃ v, meanAveragePrecision C items = some v ∧
      out.metrics = [("Mean Average Precision", v), ("Balanced Accuracy", balancedAccuracy C items),
                     ("Accuracy", accuracy C items), ("Top 3 Accuracy", topK 3 C items)]) := by
  intro pairs entries items
  unfold soundEventDetection at h
  have hrs : (Detection.pairClips preds anns).mapM (detClip C) =
      .ok (pairs.map (fun x => (detClipOut C x, (entries x).map (·.item)))) := by
    have : ∀ l : List (Nat × List SEAnn × PredClip), (∀ x ∈ l, clipCovered x) →
        l.mapM (detClip C) = .ok (l.map (fun x => (detClipOut C x, (entries x).map (·.item)))) := by
      intro l hl
      induction l with
      | nil => simp [List.mapM_nil, pure, Except.pure]
      | cons a l ih =>
        simp [List.mapM_cons, detClip_eq C a (hl a (by simp)), ih (fun x hx => hl x (by simp [hx])), bind,
          Except.bind, pure, Except.pure, entries]
    exact this _ hc
  simp only [hrs, bind, Except.bind] at h
  have hitems : (List.map (fun x => x.2) (pairs.map (fun x => (detClipOut C x, (entries x).map (·.item))))).flatten
      = items := by simp [items, List.map_map, Function.comp_def]
  have hclips : List.map (fun x => x.1) (pairs.map (fun x => (detClipOut C x, (entries x).map (·.item))))
      = pairs.map (detClipOut C) := by simp [List.map_map, Function.comp_def]
  rw [hitems, hclips] at h
  have hscore : (pairs.map (detClipOut C)).filterMap (·.score) = pairs.map (fun x => clipScore (entries x)) := by
    simp [List.filterMap_map, detClipOut, Function.comp_def, entries]
  have hcl : ∀ c ∈ pairs.map (detClipOut C), ∃ x ∈ pairs, c.clip = x.1 ∧ c.score = some (clipScore (entries x)) ∧
        c.mts.map (·.score) = (entries x).map (fun e => some e.score) := by
    intro c hcm
    obtain ⟨x, hx, rfl⟩ := List.mem_map.mp hcm
    exact ⟨x, hx, rfl, rfl, by simp [detClipOut, detMatchOut, entries, List.map_map, Function.comp_def]⟩
  by_cases he : items.isEmpty = true
  · simp only [he, if_true, pure, Except.pure, Except.ok.injEq] at h
    subst h
    refine ⟨rfl, hcl, by simp only [hscore], fun _ => rfl, fun hne => ?_⟩
    exact absurd (List.isEmpty_iff.mp he) hne
  · simp only [he, Bool.false_eq_true, if_false] at h
    cases hm : meanAveragePrecision C items with
    | none =>
      simp [features, taskMetrics, runMetricSL, hm, List.mapM_cons, bind, Except.bind] at h
    | some v =>
      have hfs : features (taskMetrics .soundEventDetection .run) (runMetricSL C items) =
          .ok [("Mean Average Precision", v), ("Balanced Accuracy", balancedAccuracy C items),
               ("Accuracy", accuracy C items), ("Top 3 Accuracy", topK 3 C items)] := by
        simp [features, taskMetrics, runMetricSL, hm, Metric.label, List.mapM_cons, List.mapM_nil, bind, Except.bind,
          pure, Except.pure]
      simp only [hfs, pure, Except.pure, Except.ok.injEq] at h
      subst h
      refine ⟨rfl, hcl, by simp only [hscore], fun hi => ?_, fun _ => ⟨v, rfl, rfl⟩⟩
      simp [hi] at he


/-! ### scores stay in [0, 1] -/

/-- with single-label scoring (the encoded scores of every predicted sound event are
    non-negative and sum to at most 1) every match score, hence every clip score, lies in
    [0, 1]: constructing the `Match` and `ClipEvaluation` objects cannot fail on the score -/
theorem C08_scores_in_range (C : Nat) (preds : List SEPred) (anns : List SEAnn) (ms : List MEntry)
    (hrow : ∀ i, (∀ x ∈ predRow C preds i, 0 ≤ x) ∧ (predRow C preds i).sum ≤ 1) :
    (∀ e ∈ clipEntries C preds anns ms, 0 ≤ e.score ∧ e.score ≤ 1) ∧
    0 ≤ clipScore (clipEntries C preds anns ms) ∧ clipScore (clipEntries C preds anns ms) ≤ 1 := by
  have hall : ∀ e ∈ clipEntries C preds anns ms, 0 ≤ e.score ∧ e.score ≤ 1 := by
    intro e he
    have hz : (0 : Rat) ≤ 0 ∧ (0 : Rat) ≤ 1 := ⟨le_refl _, by norm_num⟩
    rcases mem_clipEntries.mp he with ⟨m, _, hm⟩ | ⟨i, _, rfl⟩ | ⟨j, _, rfl⟩
    · unfold stepTotal stepEntries at hm
      cases hs : m.src <;> cases ht : m.tgt <;> simp only [hs, ht, Option.map_none, Option.map_some] at hm
      · simp at hm
      · simp only [List.mem_singleton] at hm; subst hm; exact hz
      · simp only [List.mem_singleton] at hm; subst hm; exact hz
      · simp only [List.mem_singleton] at hm; subst hm
        simp only [matchedPair]
        exact tcp_range _ (hrow _).1 (hrow _).2
    · exact hz
    · exact hz
  refine ⟨hall, ?_⟩
  unfold clipScore meanOrZero
  split
  · exact ⟨le_refl _, by norm_num⟩
  · apply mean_range
    intro v hv
    obtain ⟨e, he, rfl⟩ := List.mem_map.mp hv
    exact hall e he

/-- nothing to evaluate: no clip evaluations, score 0, no metrics (and no failure) -/
theorem C08_empty (C : Nat) (anns : List (Nat × List SEAnn)) :
    soundEventDetection C [] anns = .ok { metrics := [], score := 0, clips := [] } := by
  simp [soundEventDetection, Detection.pairClips, Metrics.pairClips, meanOrZero, List.mapM_nil, bind, Except.bind,
    pure, Except.pure]

/-! ### non-vacuity -/

-- a matcher answer that satisfies the contract: pair (0,0) with affinity 1/3, source 1 and target 1 left over
example : matcherCoverB 2 2 [⟨some 0, some 0, 1/3⟩, ⟨some 1, none, 0⟩, ⟨none, some 1, 0⟩] = true := by decide +kernel
-- and answers that do not: a target twice, an index out of range, a positive affinity on a one-sided entry
example : matcherCoverB 2 1 [⟨some 0, some 0, 1/3⟩, ⟨some 1, some 0, 1/2⟩] = false := by decide +kernel
example : matcherCoverB 1 1 [⟨some 1, some 0, 1/3⟩] = false := by decide +kernel
example : matcherCoverB 1 0 [⟨some 0, none, 1/2⟩] = false := by decide +kernel
-- the filtered → original map skips the geometry-less events
example : geomIdx [false, true, false, true] = [1, 3] ∧ noGeomIdx [false, true, false, true] = [0, 2] := by decide
-- a clip with a geometry-less prediction first: the matcher's source 0 is prediction 1; non-overlapping
-- events come from the matcher as one-sided entries; the geometry-less prediction is appended unmatched
example :
    (evalClip 2 [⟨0, false, [(some 0, 1/2)]⟩, ⟨1, true, [(some 1, 3/4)]⟩] [⟨2, true, [some 1]⟩, ⟨3, true, [some 0]⟩]
      [⟨some 0, none, 0⟩, ⟨none, some 1, 0⟩, ⟨none, some 0, 0⟩]).map (fun es => es.map (fun e => (e.src, e.tgt, e.aff, e.score)))
    = some [(some 1, none, 0, 0), (none, some 1, 0, 0), (none, some 0, 0, 0), (some 0, none, 0, 0)] := by
  decide +kernel
-- a two-sided entry with affinity 0 violates the contract (the matcher no longer produces it)
example : matcherCoverB 1 1 [⟨some 0, some 0, 0⟩] = false := by decide +kernel
example :
    (evalClip 2 [⟨0, false, [(some 0, 1/2)]⟩, ⟨1, true, [(some 1, 3/4)]⟩] [⟨2, true, [some 1]⟩]
      [⟨some 0, some 0, 1/3⟩]).map (fun es => es.map (fun e => (e.src, e.tgt, e.aff, e.score)))
    = some [(some 1, some 0, 1/3, 3/4), (some 0, none, 0, 0)] := by
  decide +kernel
-- the matcher naming a position that does not exist is an error, not a silent default
example : evalClip 2 [⟨0, false, []⟩] [] [⟨some 0, none, 0⟩] = none := by decide +kernel
example : Detection.pairClips [(3, "p3"), (1, "p1"), (7, "p7")] [(1, "a1"), (3, "a3"), (5, "a5")]
    = [(3, "a3", "p3"), (1, "a1", "p1")] := by decide

section Geo
open SE.Affinity

/-! ### the geometry layer: the matcher inside the model, overlap decided by end-point comparisons -/

/-- **Overlap is what a positive affinity means.**  For valid geometries of the closed-form types
    and non-negative buffers, `compute_affinity` (model of C06 on exact rectangles) returns a
    value, and that value is positive exactly when the geometries overlap in the sense of
    `overlapCF` (time extents share more than a point and, for two boxes, so do the frequency
    extents) — a statement that involves no area arithmetic on its right-hand side -/
theorem C08_overlap_iff_affinity_pos (tb fb : Rat) (htb : 0 ≤ tb) (hfb : 0 ≤ fb) (g1 g2 : Geom)
    (w1 : WF g1) (w2 : WF g2) (b : Bool) (h : overlapCF tb g1 g2 = some b) :
    ∃ v, affinityCF tb fb g1 g2 = .ok v ∧ (0 < v ↔ b = true) :=
  overlap_iff_affinity_pos tb fb htb hfb g1 g2 w1 w2 b h

/-- overlap is symmetric, and is decided exactly for the closed-form types -/
theorem C08_overlap_symm_total (tb : Rat) (g1 g2 : Geom) :
    overlapCF tb g1 g2 = overlapCF tb g2 g1 ∧
    ((∃ b, overlapCF tb g1 g2 = some b) ↔ (closed g1 = true ∧ closed g2 = true)) :=
  ⟨overlapCF_symm tb g1 g2,
   ⟨fun ⟨b, h⟩ => closed_of_overlapCF tb g1 g2 b h, fun ⟨c1, c2⟩ => overlapCF_closed tb g1 g2 c1 c2⟩⟩

/-- what the solver-independent part of `match_geometries` needs: valid geometries, measured
    affinities (non-closed types) in [0, 1], non-negative buffers -/
structure GeoInputs (X : Matching.Mat) (tb fb : Rat) (preds : List GPred) (anns : List GAnn) : Prop where
  tb_nonneg : 0 ≤ tb
  fb_nonneg : 0 ≤ fb
  measured : ∀ i j, 0 ≤ X i j ∧ X i j ≤ 1
  wf_preds : ∀ g ∈ geomsOf preds, WF g
  wf_anns : ∀ g ∈ geomsOf anns, WF g

/-- **The matcher's contract is a theorem.**  With the matcher inside the model the cover
    contract of the first layer (`MatcherCover`) needs no hypothesis about `match_geometries`
    any more: it follows from the models of `compute_affinity` (C06) and `_select_matches` (C07)
    for every answer of the assignment solver that is a partial injection -/
theorem C08_geo_matcher_contract (X : Matching.Mat) (tb fb : Rat) (preds : List GPred) (anns : List GAnn)
    (pairs : List (Nat × Nat)) (hin : GeoInputs X tb fb preds anns)
    (hv : SE.Proofs.C07.ValidAssignment (geomsOf preds).length (geomsOf anns).length pairs) :
    ∃ out, Matching.selectMatches (geomsOf preds).length (geomsOf anns).length
        (affEntry X tb fb (geomsOf preds) (geomsOf anns)) pairs = .ok out ∧
      matchGeo X tb fb (geomsOf preds) (geomsOf anns) pairs = .ok (out.map ofMatching) ∧
      MatcherCover ((evPreds preds).filter (·.hasGeom)).length ((evAnns anns).filter (·.hasGeom)).length
        (out.map ofMatching) := by
  have hout := SE.Proofs.C07.C07_total _ _ (affEntry X tb fb (geomsOf preds) (geomsOf anns)) pairs hv
  refine ⟨_, hout, ?_, ?_⟩
  · unfold matchGeo; rw [hout]
  · rw [evPreds_filter_length, evAnns_filter_length]
    exact C08_contract_from_C07 _ _ _ pairs _ hv hout
      (fun i j _ _ => affEntry_range X tb fb _ _ hin.measured hin.wf_preds hin.wf_anns i j)

/-- **Only overlaps are credited, every sound event is accounted for** — with the matcher
    inside the model.  For every answer of the assignment solver that is a partial injection,
    `evaluate_clip` does not fail; every predicted and annotated sound event occurs in exactly
    one match; a paired match names two sound events that both have a geometry, reports a
    positive affinity and the probability of the annotation's class; when both geometries are
    of a closed-form type they *overlap* (`overlapCF = some true`) and the reported affinity is
    their closed-form intersection over union; unpaired matches report affinity 0 and score 0 -/
theorem C08_geo_pairs_overlap (C : Nat) (X : Matching.Mat) (tb fb : Rat) (preds : List GPred) (anns : List GAnn)
    (pairs : List (Nat × Nat)) (hin : GeoInputs X tb fb preds anns)
    (hv : SE.Proofs.C07.ValidAssignment (geomsOf preds).length (geomsOf anns).length pairs) :
    ∃ es, evalClipGeo C X tb fb preds anns pairs = some es ∧
      (es.filterMap (·.src)).Perm (List.range preds.length) ∧
      (es.filterMap (·.tgt)).Perm (List.range anns.length) ∧
      (∀ e ∈ es, e.paired = true → ∃ i j p a g1 g2,
        e.src = some i ∧ e.tgt = some j ∧ preds[i]? = some p ∧ anns[j]? = some a ∧
        p.2 = some g1 ∧ a.2 = some g2 ∧ 0 < e.aff ∧ e.aff ≤ 1 ∧
        e.score = tcp ⟨classEnc a.1.tags, predEnc C p.1.tags⟩ ∧
        (closed g1 = true → closed g2 = true →
          overlapCF tb g1 g2 = some true ∧ affinityCF tb fb g1 g2 = .ok e.aff)) ∧
      (∀ e ∈ es, e.paired = false → e.aff = 0 ∧ e.score = 0) := by
  obtain ⟨out, hsel, hmg, hc⟩ := C08_geo_matcher_contract X tb fb preds anns pairs hin hv
  obtain ⟨es, hes, hsrc, htgt, _⟩ := C08_cover C (evPreds preds) (evAnns anns) (out.map ofMatching) hc
  refine ⟨es, ?_, ?_, ?_, ?_, ?_⟩
  · unfold evalClipGeo; rw [hmg]; exact hes
  · simpa [evPreds] using hsrc
  · simpa [evAnns] using htgt
  · intro e he hp
    obtain ⟨m, hm, k, l, i, j, hms, hmt, hi, hj, hsrc', htgt', haff, hpos, hscore, _⟩ :=
      C08_pairs_overlap_report_affinity_score C (evPreds preds) (evAnns anns) (out.map ofMatching) es hc hes e he hp
    rw [evPreds_hasGeom] at hi
    rw [evAnns_hasGeom] at hj
    obtain ⟨p, g1, hp1, hp2, hp3⟩ := geomIdx_geomsOf preds k i hi
    obtain ⟨a, g2, ha1, ha2, ha3⟩ := geomIdx_geomsOf anns l j hj
    obtain ⟨m', hm', rfl⟩ := List.mem_map.mp hm
    have hrep := SE.Proofs.C07.C07_reported_affinity _ _ _ pairs out hv hsel m' hm' k l hms hmt
    have hrange := affEntry_range X tb fb _ _ hin.measured hin.wf_preds hin.wf_anns k l
    have hea : e.aff = affEntry X tb fb (geomsOf preds) (geomsOf anns) k l := by rw [haff]; exact hrep
    have hpi : (evPreds preds).getD i default = { p.1 with hasGeom := p.2.isSome } := by
      simp [evPreds, List.getD_eq_getElem?_getD, hp1]
    have haj : (evAnns anns).getD j default = { a.1 with hasGeom := a.2.isSome } := by
      simp [evAnns, List.getD_eq_getElem?_getD, ha1]
    refine ⟨i, j, p, a, g1, g2, hsrc', htgt', hp1, ha1, hp2, ha2, hpos, ?_, ?_, ?_⟩
    · rw [hea]; exact hrange.2
    · rw [hscore, hpi, haj]
    · intro c1 c2
      obtain ⟨h1, h2⟩ := affEntry_closed X tb fb hin.tb_nonneg hin.fb_nonneg _ _ k l g1 g2 hp3 ha3
        (hin.wf_preds g1 (List.mem_of_getElem? hp3)) (hin.wf_anns g2 (List.mem_of_getElem? ha3)) c1 c2
      rw [hea]
      exact ⟨h2.mp (by rw [← hea]; exact hpos), h1⟩
  · intro e he hp
    exact C08_unpaired_zero C (evPreds preds) (evAnns anns) (out.map ofMatching) es hc hes e he hp

/-- **Pairs without closed form are credited on the measurement alone** (follow-up, wave 5).
    `X` is the affinity matrix measured outside the model for geometry types without closed
    form (points, lines, polygons — with or without holes); since this follow-up it comes from
    an oracle that shares no code with the library (shapes built from the coordinates).  For
    every answer of the assignment solver that is a partial injection the matcher answers, and
    a reported pair `(i, j)` of which at least one geometry has no closed form reports exactly
    `X i j`, and `X i j` is positive: where the oracle measures no overlap (a box inside a hole
    of a polygon) the model never pairs, whatever the solver proposed. -/
theorem C08_measured_pairs (X : Matching.Mat) (tb fb : Rat) (src tgt : List Geom) (pairs : List (Nat × Nat))
    (hv : SE.Proofs.C07.ValidAssignment src.length tgt.length pairs) :
    ∃ out, matchGeo X tb fb src tgt pairs = .ok out ∧
      ∀ e ∈ out, ∀ i j g1 g2, e.src = some i → e.tgt = some j → src[i]? = some g1 → tgt[j]? = some g2 →
        (closed g1 && closed g2) = false → e.aff = X i j ∧ 0 < X i j := by
  have hout := SE.Proofs.C07.C07_total src.length tgt.length (affEntry X tb fb src tgt) pairs hv
  refine ⟨_, by unfold matchGeo; rw [hout], ?_⟩
  intro e he i j g1 g2 hi hj h1 h2 hc
  obtain ⟨e0, he0, rfl⟩ := List.mem_map.mp he
  have hrep := SE.Proofs.C07.C07_reported_affinity _ _ _ pairs _ hv hout e0 he0 i j hi hj
  have hpos := (SE.Proofs.C07.C07_positive_pairs _ _ _ pairs _ hv hout e0 he0 i j hi hj).1
  have hX : affEntry X tb fb src tgt i j = X i j := by
    unfold affEntry
    simp [h1, h2, hc]
  rw [hX] at hrep hpos
  exact ⟨hrep, hpos⟩

/-- non-vacuity of `C08_measured_pairs`: a box against a polygon, measured 1/4, proposed by the
    solver: reported with 1/4; measured 0 (the box lies in a hole): not paired -/
example : matchGeo (fun _ _ => 1/4) (1/100) 100 [.boundingBox 1 1000 2 2000]
    [.polygon [[(0, 0), (4, 0), (4, 4000), (0, 0)]]] [(0, 0)] = .ok [⟨some 0, some 0, 1/4⟩] := by decide +kernel
example : matchGeo (fun _ _ => 0) (1/100) 100 [.boundingBox 1 1000 2 2000]
    [.polygon [[(0, 0), (4, 0), (4, 4000), (0, 0)]]] [(0, 0)] = .ok [⟨some 0, none, 0⟩, ⟨none, some 0, 0⟩] := by decide +kernel

/-- **What the judge means.**  `judgePairs`, which the check evaluates in Lean on the matches
    `sound_event_detection` really returned together with the geometries of the input, holds
    exactly when every two-sided match is between two sound events that have a geometry and
    whose geometries are not disjoint by the end-point comparison (for types without closed
    form, `overlapCF = none`, the monitored contract decides) -/
theorem C08_judge_sound (tb : Rat) (pg ag : List (Option Geom)) (ms : List (Option Nat × Option Nat)) :
    judgePairs tb pg ag ms = true ↔
      ∀ m ∈ ms, ∀ i j, m.1 = some i → m.2 = some j →
        ∃ g1 g2, pg[i]? = some (some g1) ∧ ag[j]? = some (some g2) ∧ overlapCF tb g1 g2 ≠ some false := by
  unfold judgePairs
  rw [List.all_eq_true]
  constructor
  · intro h m hm i j hi hj
    have := h m hm
    simp only [hi, hj, Bool.or_eq_true, beq_iff_eq] at this
    unfold judgePair at this
    cases h1 : pg[i]? with
    | none => simp [h1] at this
    | some o1 =>
      cases o1 with
      | none => simp [h1] at this
      | some g1 =>
        cases h2 : ag[j]? with
        | none => simp [h1, h2] at this
        | some o2 =>
          cases o2 with
          | none => simp [h1, h2] at this
          | some g2 =>
            refine ⟨g1, g2, rfl, rfl, ?_⟩
            intro hf
            simp [h1, h2, hf] at this
  · intro h m hm
    cases hi : m.1 with
    | none => simp
    | some i =>
      cases hj : m.2 with
      | none => simp
      | some j =>
        obtain ⟨g1, g2, h1, h2, hne⟩ := h m hm i j hi hj
        simp only [Bool.or_eq_true, beq_iff_eq]
        unfold judgePair
        simp only [h1, h2, Option.join_some]
        cases ho : overlapCF tb g1 g2 with
        | none => simp
        | some b =>
          cases b with
          | true => simp
          | false => exact absurd ho hne

/-- … and the model passes it for every valid answer of the assignment solver -/
theorem C08_judge_model (C : Nat) (X : Matching.Mat) (tb fb : Rat) (preds : List GPred) (anns : List GAnn)
    (pairs : List (Nat × Nat)) (hin : GeoInputs X tb fb preds anns)
    (hv : SE.Proofs.C07.ValidAssignment (geomsOf preds).length (geomsOf anns).length pairs) :
    ∃ es, evalClipGeo C X tb fb preds anns pairs = some es ∧
      judgePairs tb (preds.map (·.2)) (anns.map (·.2)) (es.map (fun e => (e.src, e.tgt))) = true := by
  obtain ⟨es, hes, _, _, hpair, _⟩ := C08_geo_pairs_overlap C X tb fb preds anns pairs hin hv
  refine ⟨es, hes, ?_⟩
  rw [C08_judge_sound]
  intro m hm i j hi hj
  obtain ⟨e, he, rfl⟩ := List.mem_map.mp hm
  simp only at hi hj
  have hp : e.paired = true := by simp [Entry.paired, hi, hj]
  obtain ⟨i', j', p, a, g1, g2, hs, ht, hp1, ha1, hp2, ha2, _, _, _, hcl⟩ := hpair e he hp
  rw [hi] at hs; rw [hj] at ht
  cases hs; cases ht
  refine ⟨g1, g2, by simp [hp1, hp2], by simp [ha1, ha2], ?_⟩
  intro hf
  obtain ⟨c1, c2⟩ := closed_of_overlapCF tb g1 g2 false hf
  rw [(hcl c1 c2).1] at hf
  cases hf

/-! ### `sound_event_detection` with the matcher inside -/

/-- the matcher's answer for one predicted clip in closed form (C07's `closedForm`) -/
def geoMatcher (tb fb : Rat) (anns : List (Nat × List GAnn)) (p : Nat × GeoClip) : List MEntry :=
  match lookupLast p.1 anns with
  | none => []
  | some as =>
    (Matching.closedForm (geomsOf p.2.events).length (geomsOf as).length
      (affEntry (Matching.matOfRows p.2.measured) tb fb (geomsOf p.2.events) (geomsOf as)) p.2.pairs).map ofMatching

def geoPredClip (tb fb : Rat) (anns : List (Nat × List GAnn)) (p : Nat × GeoClip) : Nat × PredClip :=
  (p.1, { events := evPreds p.2.events, matcher := geoMatcher tb fb anns p })

/-- the monitored contracts on every evaluated clip: valid geometries, measured affinities in
    [0, 1], and an answer of the assignment solver that is a partial injection -/
def GeoClipsOk (tb fb : Rat) (preds : List (Nat × GeoClip)) (anns : List (Nat × List GAnn)) : Prop :=
  ∀ p ∈ preds, ∀ as, lookupLast p.1 anns = some as →
    GeoInputs (Matching.matOfRows p.2.measured) tb fb p.2.events as ∧
    SE.Proofs.C07.ValidAssignment (geomsOf p.2.events).length (geomsOf as).length p.2.pairs

/-- **End to end.**  `sound_event_detection` with the matcher inside is the first layer's
    `soundEventDetection` run on matcher answers that *provably* satisfy the cover contract on
    every evaluated clip: `C08_means`, `C08_cover`, … apply without any hypothesis about
    `match_geometries` -/
theorem C08_geo_detection (C : Nat) (tb fb : Rat) (preds : List (Nat × GeoClip)) (anns : List (Nat × List GAnn))
    (hok : GeoClipsOk tb fb preds anns) :
    soundEventDetectionGeo C tb fb preds anns =
      soundEventDetection C (preds.map (geoPredClip tb fb anns)) (anns.map (fun a => (a.1, evAnns a.2))) ∧
    ∀ x ∈ Detection.pairClips (preds.map (geoPredClip tb fb anns)) (anns.map (fun a => (a.1, evAnns a.2))),
      clipCovered x := by
  have hwm : ∀ p ∈ preds, withMatcher tb fb anns p = .ok (geoPredClip tb fb anns p) := by
    intro p hp
    unfold withMatcher geoPredClip geoMatcher
    cases hl : lookupLast p.1 anns with
    | none => rfl
    | some as =>
      obtain ⟨hin, hv⟩ := hok p hp as hl
      obtain ⟨out, hsel, hmg, _⟩ := C08_geo_matcher_contract _ tb fb p.2.events as p.2.pairs hin hv
      rw [SE.Proofs.C07.C07_total _ _ _ _ hv] at hsel
      cases hsel
      simp only [hmg]
  constructor
  · unfold soundEventDetectionGeo
    rw [Detection.mapM_total_mem _ _ preds hwm]
    rfl
  · intro x hx
    change x ∈ Metrics.pairClips _ _ at hx
    unfold Metrics.pairClips at hx
    rw [List.mem_filterMap] at hx
    obtain ⟨p', hp', hx⟩ := hx
    obtain ⟨p, hp, rfl⟩ := List.mem_map.mp hp'
    rw [lookupLast_map evAnns] at hx
    simp only [geoPredClip] at hx
    cases hl : lookupLast p.1 anns with
    | none => simp [hl] at hx
    | some as =>
      simp only [hl, Option.map_some, Option.some.injEq] at hx
      subst hx
      obtain ⟨hin, hv⟩ := hok p hp as hl
      obtain ⟨out, hsel, _, hc⟩ := C08_geo_matcher_contract _ tb fb p.2.events as p.2.pairs hin hv
      rw [SE.Proofs.C07.C07_total _ _ _ _ hv] at hsel
      cases hsel
      unfold clipCovered
      simp only [geoMatcher, hl]
      exact hc

/-! non-vacuity of the geometry layer -/

-- the hypotheses of `C08_geo_pairs_overlap` are satisfiable: a clip with a geometry-less prediction, two boxes and
-- a time stamp, the solver pairing filtered source 0 with target 0
example : GeoInputs (fun _ _ => 0) (1/100) 100
    [(⟨0, true, []⟩, none), (⟨1, true, []⟩, some (.boundingBox 1 1000 2 2000)), (⟨2, true, []⟩, some (.timeStamp 0))]
    [(⟨3, true, []⟩, some (.boundingBox (3/2) 1000 (5/2) 2000))] := by
  refine ⟨by decide +kernel, by decide +kernel, fun _ _ => ⟨le_refl _, by decide +kernel⟩, ?_, ?_⟩
  · intro g hg
    simp only [geomsOf, List.filterMap_cons, List.filterMap_nil, List.mem_cons, List.not_mem_nil, or_false] at hg
    rcases hg with rfl | rfl
    · exact ⟨by decide +kernel, by decide +kernel⟩
    · exact (by decide +kernel : (0 : Rat) ≤ 0)
  · intro g hg
    simp only [geomsOf, List.filterMap_cons, List.filterMap_nil, List.mem_cons, List.not_mem_nil, or_false] at hg
    subst hg
    exact ⟨by decide +kernel, by decide +kernel⟩
example : SE.Proofs.C07.ValidAssignment 2 1 [(0, 0)] := (SE.Proofs.C07.C07_contract_decidable 2 1 [(0, 0)]).mp (by decide)
-- the replay of the seeded change C08-1: two boxes disjoint in time *and* in frequency do not overlap,
-- their affinity is 0, a pair between them fails the judge
example : overlapCF (1/100) (.boundingBox 1 5000 2 7000) (.boundingBox 3 1000 4 3000) = some false := by decide +kernel
example : affinityCF (1/100) 100 (.boundingBox 1 5000 2 7000) (.boundingBox 3 1000 4 3000) = .ok 0 := by decide +kernel
example : judgePairs (1/100) [some (.boundingBox 3 1000 4 3000)] [some (.boundingBox 1 5000 2 7000)] [(some 0, some 0)]
    = false := by decide +kernel
-- half-overlapping boxes: IoU 1/3; a box and an interval are compared in time only; a time stamp is widened
example : overlapCF (1/100) (.boundingBox 1 1000 2 2000) (.boundingBox (3/2) 1000 (5/2) 2000) = some true ∧
    affinityCF (1/100) 100 (.boundingBox 1 1000 2 2000) (.boundingBox (3/2) 1000 (5/2) 2000) = .ok (1/3) := by
  decide +kernel
example : overlapCF (1/100) (.boundingBox 1 1000 2 2000) (.timeInterval (3/2) 3) = some true ∧
    overlapCF (1/100) (.boundingBox 1 1000 2 2000) (.timeInterval 2 3) = some false ∧
    overlapCF (1/100) (.timeStamp 2) (.timeInterval 2 3) = some true ∧
    overlapCF (1/100) (.timeStamp 1) (.timeStamp 2) = some false ∧
    overlapCF (1/100) (.point 1 1000) (.timeStamp 1) = none := by decide +kernel
-- a clip evaluated with the matcher inside: prediction 0 has no geometry, prediction 1 overlaps annotation 0
-- (the solver pairs filtered source 0 with target 0), prediction 2 is diagonal to everything
example :
    (evalClipGeo 2 (fun _ _ => 0) (1/100) 100
      [(⟨0, true, [(some 0, 1/2)]⟩, none), (⟨1, true, [(some 1, 3/4)]⟩, some (.boundingBox 1 1000 2 2000)),
       (⟨2, true, [(some 1, 1/4)]⟩, some (.boundingBox 3 3000 4 4000))]
      [(⟨3, true, [some 1]⟩, some (.boundingBox (3/2) 1000 (5/2) 2000))]
      [(0, 0)]).map (fun es => es.map (fun e => (e.src, e.tgt, e.aff, e.score)))
    = some [(some 1, some 0, 1/3, 3/4), (some 2, none, 0, 0), (some 0, none, 0, 0)] := by decide +kernel
-- the solver pairing the diagonal boxes (as it does: it pairs as many as it can) is dropped by `_select_matches`
example :
    (evalClipGeo 2 (fun _ _ => 0) (1/100) 100
      [(⟨2, true, [(some 1, 1/4)]⟩, some (.boundingBox 3 3000 4 4000))]
      [(⟨3, true, [some 1]⟩, some (.boundingBox (3/2) 1000 (5/2) 2000))]
      [(0, 0)]).map (fun es => es.map (fun e => (e.src, e.tgt, e.aff, e.score)))
    = some [(some 0, none, 0, 0), (none, some 0, 0, 0)] := by decide +kernel

end Geo

/-! ### tag layer (follow-up 2): where the class indices come from

  The first two layers see a tag as "the encoder's answer".  Here the answer is the model of
  `SimpleEncoder` (C19: a dictionary keyed by `(tag.term, tag.value)`, equality of keys = field
  equality of the term and the value), and the property's clause about the score is proved in
  terms of tag equality only. -/
section Tags
open SE.Encoding SE.Proofs.Lemmas.Encoding

/-- the encoded views the first layer computes with are the encodings of `evaluation/encoding.py`
    (C19's model) over the same vocabulary: `prediction_encoding` and `classification_encoding` -/
theorem C08_tags_bridge (cast : Rat → Rat) (vocab : List Tag) (ps : List PredictedTag) (ts : List Tag) :
    predEnc vocab.length (encPredTags cast vocab ps) = predictionEncoding cast vocab ps ∧
    classEnc (encTags vocab ts) = classificationEncoding vocab ts := by
  constructor
  · apply List.ext_getElem?
    intro i
    by_cases hi : i < vocab.length
    · unfold predictionEncoding
      rw [fill_get _ _ _ _ _ (by simpa using hi), lastWhere_eq_find_reverse]
      simp only [predEnc, encPredTags, List.getElem?_map, List.getElem?_range hi, Option.map_some,
        ← List.map_reverse, List.find?_map]
      have hf : ((fun p : Option Nat × Rat => p.1 == some i) ∘ fun p : PredictedTag => (encode vocab p.tag, cast p.score))
          = fun p : PredictedTag => encode vocab p.tag == some i := rfl
      rw [hf]
      cases ps.reverse.find? (fun p : PredictedTag => encode vocab p.tag == some i) <;> simp [hi]
    · have h1 : (predEnc vocab.length (encPredTags cast vocab ps)).length = vocab.length := by simp [predEnc]
      have h2 := SE.Proofs.C19.C19_prediction_length cast vocab ps
      simp only [numClasses] at h2
      rw [List.getElem?_eq_none (by omega), List.getElem?_eq_none (by omega)]
  · induction ts with
    | nil => rfl
    | cons t ts ih =>
      simp only [encTags, List.map_cons, classificationEncoding] at ih ⊢
      cases he : encode vocab t with
      | none => simpa [classEnc] using ih
      | some k => simp [classEnc]

/-- the row the first layer scores with, entry by entry: for a vocabulary without repeated tags,
    entry `i` is the probability the prediction gives to the `i`-th vocabulary tag -/
theorem predRow_eq_probs (cast : Rat → Rat) (vocab : List Tag) (h : vocab.Nodup) (ps : List PredictedTag) :
    predEnc vocab.length (encPredTags cast vocab ps) = vocab.map (probOf cast ps) := by
  rw [(C08_tags_bridge cast vocab ps []).1]
  apply List.ext_getElem?
  intro i
  by_cases hi : i < vocab.length
  · rw [SE.Proofs.C19.C19_scores cast vocab h ps i hi, List.getElem?_map, List.getElem?_eq_getElem hi,
      Option.map_some]
    rfl
  · have h2 := SE.Proofs.C19.C19_prediction_length cast vocab ps
    simp only [numClasses] at h2
    rw [List.getElem?_eq_none (by omega), List.getElem?_eq_none (by simpa using hi)]

/-- **the score of a pair is the probability the prediction gives to the annotation's class**, said
    without any index: for every vocabulary without repeated tags, every annotated tag list and
    every predicted tag list, what `evaluate_sound_event` computes from the encoder's answers
    (`tcp` of the encoded class and the encoded score row) is `pairScoreSpec`: the stored score of the
    last predicted tag *equal* (term with all its fields, and value) to the annotation's first
    vocabulary tag, 0 when the prediction has no such tag; `1 − Σ` over the vocabulary when the
    annotation carries no vocabulary tag. -/
theorem C08_pair_score_is_class_probability (cast : Rat → Rat) (vocab : List Tag) (h : vocab.Nodup)
    (annTags : List Tag) (ps : List PredictedTag) :
    tcp ⟨classEnc (encTags vocab annTags), predEnc vocab.length (encPredTags cast vocab ps)⟩
      = pairScoreSpec cast vocab annTags ps := by
  rw [(C08_tags_bridge cast vocab ps annTags).2, predRow_eq_probs cast vocab h ps,
    SE.Proofs.C19.C19_first_in_vocab]
  unfold pairScoreSpec annClassTag
  cases hf : annTags.find? (· ∈ vocab) with
  | none => simp [tcp, noneScore]
  | some t =>
    have hv : t ∈ vocab := by simpa using List.find?_some hf
    obtain ⟨i, hi, hit⟩ := List.getElem_of_mem hv
    have he : encode vocab t = some i :=
      (SE.Proofs.C19.C19_encode_iff vocab h t i).mpr (by rw [List.getElem?_eq_getElem hi, hit])
    simp [tcp, he, hi, hit]

/-- the same for a whole clip: every paired entry `evaluate_clip` produces on sound events with real
    tags scores `pairScoreSpec` of the two sound events it names (with `C08_pairs_overlap_report_affinity_score`:
    these are the events whose geometries the matcher paired) -/
theorem C08_clip_pair_scores (cast : Rat → Rat) (vocab : List Tag) (h : vocab.Nodup)
    (preds : List TPred) (anns : List TAnn) (ms : List MEntry) (es : List Entry)
    (hc : MatcherCover ((preds.filter (·.hasGeom)).length) ((anns.filter (·.hasGeom)).length) ms)
    (he : evalClipT cast vocab preds anns ms = some es) (e : Entry) (hm : e ∈ es) (hp : e.paired = true) :
    ∃ i j, ∃ (hi : i < preds.length) (hj : j < anns.length), e.src = some i ∧ e.tgt = some j ∧
      e.score = pairScoreSpec cast vocab (anns[j]).tags (preds[i]).tags := by
  unfold evalClipT at he
  have hc' : MatcherCover (((preds.map (TPred.enc cast vocab)).filter (·.hasGeom)).length)
      (((anns.map (TAnn.enc vocab)).filter (·.hasGeom)).length) ms := by
    have e1 : ((preds.map (TPred.enc cast vocab)).filter (·.hasGeom)).length = (preds.filter (·.hasGeom)).length := by
      rw [List.filter_map, List.length_map]; rfl
    have e2 : ((anns.map (TAnn.enc vocab)).filter (·.hasGeom)).length = (anns.filter (·.hasGeom)).length := by
      rw [List.filter_map, List.length_map]; rfl
    rw [e1, e2]; exact hc
  obtain ⟨m, _, k, l, i, j, _, _, hgi, hgj, hsrc, htgt, _, _, hscore, _⟩ :=
    C08_pairs_overlap_report_affinity_score vocab.length _ _ ms es hc' he e hm hp
  have hi : i < preds.length := by
    have := List.mem_of_getElem? hgi
    simp only [geomIdx, List.mem_filter, List.mem_range, List.length_map] at this
    exact this.1
  have hj : j < anns.length := by
    have := List.mem_of_getElem? hgj
    simp only [geomIdx, List.mem_filter, List.mem_range, List.length_map] at this
    exact this.1
  refine ⟨i, j, hi, hj, hsrc, htgt, ?_⟩
  rw [hscore, ← C08_pair_score_is_class_probability cast vocab h]
  simp [List.getD_eq_getElem?_getD, hi, hj, TPred.enc, TAnn.enc]

/-- two vocabulary tags are different classes as soon as they differ in *any* field of the term or in
    the value: each is encoded as its own position, and a tag that is no vocabulary tag — however close
    (same label, same name, same value) — has no class -/
theorem C08_classes_are_vocabulary_tags (vocab : List Tag) (h : vocab.Nodup) (t : Tag) :
    (∀ i, encode vocab t = some i ↔ vocab[i]? = some t) ∧ (encode vocab t = none ↔ t ∉ vocab) :=
  ⟨fun i => SE.Proofs.C19.C19_encode_iff vocab h t i, SE.Proofs.C19.C19_encode_none vocab t⟩

-- non-vacuity, and the replay of the seeded change C08-6: two taxonomies whose terms are both labelled
-- "taxon"; the vocabulary {gbif Turdus, gbif Parus, ebird Turdus} has three classes; a prediction
-- {gbif Turdus 7/10, gbif Parus 1/10, ebird Turdus 2/10} paired with a gbif-Turdus annotation scores 7/10,
-- with an ebird-Turdus annotation 2/10; a near miss of a vocabulary tag (other uri) is no class: 1 − Σ = 0
private def gbif : Term := { termFromKey "taxon" with name := "gbif:taxon", definition := "GBIF backbone" }
private def ebird : Term := { termFromKey "taxon" with name := "ebird:taxon", definition := "eBird taxonomy" }
private def vocab3 : List Tag := [⟨gbif, "Turdus"⟩, ⟨gbif, "Parus"⟩, ⟨ebird, "Turdus"⟩]
private def pred3 : List PredictedTag := [⟨⟨gbif, "Turdus"⟩, 7/10⟩, ⟨⟨gbif, "Parus"⟩, 1/10⟩, ⟨⟨ebird, "Turdus"⟩, 2/10⟩]
example : vocab3.Nodup := by decide +kernel
example : pairScoreSpec id vocab3 [⟨gbif, "Turdus"⟩] pred3 = 7/10 ∧ pairScoreSpec id vocab3 [⟨ebird, "Turdus"⟩] pred3 = 2/10 ∧
    pairScoreSpec id vocab3 [⟨{ gbif with uri := some "http://gbif.org/taxon" }, "Turdus"⟩] pred3 = 0 ∧
    encTags vocab3 [⟨gbif, "Turdus"⟩, ⟨ebird, "Turdus"⟩, ⟨{ gbif with label := "Taxon" }, "Turdus"⟩] = [some 0, some 2, none] := by
  decide +kernel
example : (evalClipT id vocab3 [⟨0, true, pred3⟩] [⟨1, true, [⟨gbif, "Turdus"⟩]⟩] [⟨some 0, some 0, 1⟩]).map
    (fun es => es.map (fun e => (e.src, e.tgt, e.aff, e.score))) = some [(some 0, some 0, 1, 7/10)] := by decide +kernel

end Tags

/-! ### calls and histories (follow-up 3)

`Detection.Call` is one call of the library in a process — an evaluation or a direct call of the matcher —
as content; `callModel` is its answer.  A process makes many calls on objects that were used before. -/
section Histories
open SE.Encoding SE.History

/-- **Histories.**  Whatever state an implementation keeps between calls (`σ` is arbitrary: class-level
    tables, module-level caches, values memoised on argument objects), it returns the model's answer at
    every step of every sequence of calls in one process iff no state reachable by some sequence of calls
    changes the answer of any single call.  The history operations of the check run such sequences; every
    step is judged by `callModel` alone. -/
theorem C08_history {σ : Type} (tb0 fb0 : Rat) (step : σ → Call → σ × Answer) (s0 : σ) :
    HistoryFree step s0 (callModel tb0 fb0) ↔
      ∀ calls : List Call, runS step s0 calls = calls.map (callModel tb0 fb0) :=
  historyFree_iff step s0 (callModel tb0 fb0)

/-- the call layer is the three layers below it: the sound events handed to the geometry layer carry the
    class indices of `TPred.enc` / `TAnn.enc` (C08_tags_bridge: the encodings of `evaluation/encoding.py` for the
    vocabulary of *this* call) and "has a geometry" is read off the geometry -/
theorem C08_evaluate_bridge (vocab : List Tag) (tb fb : Rat) (preds : List (Nat × TGeoClip))
    (anns : List (Nat × List TGAnn)) :
    evaluateT vocab tb fb preds anns =
      soundEventDetectionGeo vocab.length tb fb
        (preds.map (fun c => (c.1, { events := c.2.events.map (fun x =>
            (TPred.enc id vocab { x.1 with hasGeom := x.2.isSome }, x.2)), pairs := c.2.pairs, measured := c.2.measured })))
        (anns.map (fun a => (a.1, a.2.map (fun x => (TAnn.enc vocab { x.1 with hasGeom := x.2.isSome }, x.2))))) := by
  rfl

/-- an evaluation depends on the class assignment only through the tags the call itself carries: two
    assignments that agree on every predicted and every annotated tag of the call give the same evaluation.
    (So a table that also knows tags of *earlier* vocabularies is wrong exactly when such a tag occurs in the
    data of a later call: `C08_shared_class_table_not_history_free`.) -/
theorem C08_evaluate_congr (enc enc' : Tag → Option Nat) (C : Nat) (tb fb : Rat) (preds : List (Nat × TGeoClip))
    (anns : List (Nat × List TGAnn))
    (hp : ∀ c ∈ preds, ∀ x ∈ c.2.events, ∀ p ∈ x.1.tags, enc p.tag = enc' p.tag)
    (ha : ∀ a ∈ anns, ∀ x ∈ a.2, ∀ t ∈ x.1.tags, enc t = enc' t) :
    evaluateWith enc C tb fb preds anns = evaluateWith enc' C tb fb preds anns := by
  have h1 : preds.map (encClipWith enc) = preds.map (encClipWith enc') := by
    apply List.map_congr_left
    intro c hc
    have : c.2.events.map (encPredWith enc) = c.2.events.map (encPredWith enc') := by
      apply List.map_congr_left
      intro x hx
      have : x.1.tags.map (fun p => (enc p.tag, p.score)) = x.1.tags.map (fun p => (enc' p.tag, p.score)) := by
        apply List.map_congr_left
        intro p hpm
        rw [hp c hc x hx p hpm]
      simp only [encPredWith, this]
    simp only [encClipWith, this]
  have h2 : anns.map (fun a => (a.1, a.2.map (encAnnWith enc))) = anns.map (fun a => (a.1, a.2.map (encAnnWith enc'))) := by
    apply List.map_congr_left
    intro a ham
    have : a.2.map (encAnnWith enc) = a.2.map (encAnnWith enc') := by
      apply List.map_congr_left
      intro x hx
      have : x.1.tags.map enc = x.1.tags.map enc' := by
        apply List.map_congr_left
        intro t ht
        exact ha a ham x hx t ht
      simp only [encAnnWith, this]
    rw [this]
  simp only [evaluateWith, h1, h2]

private def tA : Tag := ⟨termFromKey "species", "Myotis"⟩
private def tB : Tag := ⟨termFromKey "species", "Nyctalus"⟩
private def boxA : Geom := .boundingBox 1 1000 2 2000
private def boxB : Geom := .boundingBox 5 1000 6 2000
private def hist1 : List Call :=
  [.evaluate [tA, tB] [] [],
   .evaluate [tB] [(0, { events := [(⟨0, true, [⟨tB, 1/2⟩, ⟨tA, 1/4⟩]⟩, some boxA), (⟨1, true, [⟨tB, 1/2⟩]⟩, some boxB)],
                         pairs := [(0, 0), (1, 1)], measured := [] })]
     [(0, [(⟨2, true, [tA]⟩, some boxA), (⟨3, true, [tB]⟩, some boxB)])]]

/-- the class-level dictionary shared by all encoders (seeded C19-7 / C09-7) is not history free: after an
    evaluation with the vocabulary {A, B}, an evaluation with the vocabulary {B} scores a pair annotated `A`
    with the probability of class 0 (1/4 after the stale write) instead of what the prediction leaves for
    "none of the classes" (1 − 1/2): clip score 3/8 instead of 1/2 -/
theorem C08_shared_class_table_not_history_free :
    ¬ HistoryFree (sharedTableStep (1/100) 100) [] (callModel (1/100) 100) := by
  intro h
  have := (C08_history (1/100) 100 (sharedTableStep (1/100) 100) []).mp h hist1
  revert this
  decide +kernel

private def clipScoresOf : Answer → List (Option Rat)
  | .evaluation (.ok e) => e.clips.map (·.score)
  | .evaluation (.error _) => []
  | .matches _ => []

example : (runS (sharedTableStep (1/100) 100) [] hist1).map clipScoresOf = [[], [some (3/8)]] := by decide +kernel
example : (hist1.map (callModel (1/100) 100)).map clipScoresOf = [[], [some (1/2)]] := by decide +kernel

private def hist2 : List Call :=
  [.matchG (1/2) 100 [.timeStamp 1] [.timeStamp (13/10)] [(0, 0)] [],
   .evaluate [tA] [(0, { events := [(⟨0, true, [⟨tA, 1/2⟩]⟩, some (.timeStamp 1))], pairs := [(0, 0)], measured := [] })]
     [(0, [(⟨1, true, [tA]⟩, some (.timeStamp (13/10)))])]]

/-- a buffered-geometry memo that ignores the buffers (seeded C07-7) is not history free: after
    `match_geometries(…, time_buffer=0.5)` on two time stamps 0.3 s apart, an evaluation pairs them although they
    do not overlap under the 10 ms buffer `evaluate_clip` matches with -/
theorem C08_buffer_memo_not_history_free :
    ¬ HistoryFree (stickyBufferStep (1/100) 100) none (callModel (1/100) 100) := by
  intro h
  have := (C08_history (1/100) 100 (stickyBufferStep (1/100) 100) none).mp h hist2
  revert this
  decide +kernel

/-- **Positional calls.**  A positional call binds the k-th argument to the k-th declared parameter: with the
    parameter order of `Detection.signatures` (re-extracted from the code on every run, obligation
    `signatures`) a positional call *is* the keyword call the model describes. -/
theorem C08_positional_binding {α : Type} (params : List String) (args : List α) (h : params.Nodup)
    (k : Nat) (hk : k < params.length) (hk' : k < args.length) :
    argOf (bindPositional params args) params[k] = some args[k] := by
  induction params generalizing args k with
  | nil => simp at hk
  | cons p ps ih =>
    cases args with
    | nil => simp at hk'
    | cons a as =>
      cases k with
      | zero => simp [argOf, bindPositional, List.lookup_cons]
      | succ k =>
        have hk2 : k < ps.length := by simpa using hk
        have hne : ps[k] ≠ p := by
          intro e
          exact (List.nodup_cons.mp h).1 (e ▸ List.getElem_mem hk2)
        have hb : (ps[k] == p) = false := by simpa using hne
        have := ih as (List.nodup_cons.mp h).2 k hk2 (by simpa using hk')
        simpa [argOf, bindPositional, List.lookup_cons, hb] using this

example : ∀ s ∈ signatures, s.2.Nodup := by decide
example : argOf (bindPositional ["clip_annotations", "clip_predictions", "encoder"] ["A", "P", "E"]) "clip_predictions" = some "P" := by
  decide

end Histories

end SE.Proofs.C08
