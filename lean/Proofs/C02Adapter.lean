/-
  C02 — property theorems about the adapter mechanism (`soundevent.io.aoef.adapters.DataAdapter`,
  `TagAdapter.get_new_id`): the operational tables refine to the declarative lists of Save.lean /
  Load.lean.  (Imported by Proofs/C02.lean; helper lemmas in Proofs/Lemmas/AoefAdapter.lean.)
-/
import Proofs.Lemmas.AoefAdapter
namespace SE.Proofs.C02
open SE.Aoef SE.Aoef.Adapter

/-- `UserAdapter.values()` after converting `xs` in order = the distinct users (first wins), encoded;
    an adapter that converted nothing yields `None` -/
theorem C02_user_adapter_values (xs : List User) :
    (toAoefAll userSpec {} xs).2.values = listOpt ((dedupBy (·.uuid) xs).map encUser) :=
  userAdapter_values xs

/-- `TagAdapter.values()`: one entry per distinct (label, value), ids `0 … n-1` in order of first
    conversion (dense allocation from the size of the key table) -/
theorem C02_tag_adapter_values (xs : List Tag) :
    (toAoefAll tagSpec {} xs).2.values = listOpt (encTags (dedupBy id xs)) :=
  tagAdapter_values xs

/-- the id under which a converted tag is referenced is its index in the final tag table -/
theorem C02_tag_adapter_id (xs : List Tag) (t : Tag) (ht : t ∈ xs) :
    (toAoef tagSpec (toAoefAll tagSpec {} xs).2 t).1 = ⟨tagId (dedupBy id xs) t, t.key, t.value⟩ :=
  tagAdapter_id xs t ht

/-- registering documents' entries with `to_soundevent` and resolving with `from_id` is the loader's
    `addAll` / `find` (first entry with an id wins) -/
theorem C02_adapter_load_is_addAll {κ ι σ ω} [DecidableEq κ] [DecidableEq ι] (sp : Spec κ ι σ ω)
    (os : List ω) (i : ι) :
    (addAll sp.aoefKey (fun _ o => pure (sp.assembleSe o)) [] os).map (fun st => find st i)
      = .ok ((toSoundeventAll sp {} os).2.fromId i) :=
  fromId_after_registering sp os i

/-- ids handed out by the tag adapter are dense: `0, 1, …, n-1` -/
theorem C02_tag_ids_dense_operational (xs : List Tag) :
    ((toAoefAll tagSpec {} xs).2.values.getD []).map (·.id) = List.range (dedupBy id xs).length := by
  rw [C02_tag_adapter_values]
  unfold listOpt
  split
  · rename_i h
    have : encTags (dedupBy id xs) = [] := by simpa using h
    have hl : (dedupBy id xs).length = 0 := by
      have := congrArg List.length this
      simpa [encTags] using this
    simp [hl]
  · simp only [Option.getD_some, encTags, List.map_map]
    apply List.ext_getElem
    · simp
    · intro i h1 h2
      simp

example : (toAoefAll tagSpec {} [⟨"k", "a"⟩, ⟨"k", "b"⟩, ⟨"k", "a"⟩]).2.values
    = some [⟨0, "k", "a"⟩, ⟨1, "k", "b"⟩] := by decide +kernel

example : (toAoefAll userSpec {} ([] : List User)).2.values = none := by decide +kernel

end SE.Proofs.C02
