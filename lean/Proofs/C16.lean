/- C16 — property theorems (to be written). -/
import SoundeventModel.Basic
namespace SE.Proofs.C16

end SE.Proofs.C16
