/-
  C16 — Range dimensions and coordinate lookup are exact.
  Property theorems only (helper lemmas live in Proofs/Lemmas/Axis.lean, Proofs/Lemmas/NDArr.lean,
  Proofs/Lemmas/AxisKernel.lean).
-/
import SoundeventModel.Axis
import Proofs.Lemmas.Axis
import Proofs.Lemmas.NDArr
import Proofs.Lemmas.AxisKernel
import Proofs.Lemmas.AxisCalls
namespace SE.Proofs.C16
open SE SE.Axis

/-! ## `create_range_dim`, `create_time_range`, `create_frequency_range` -/

/-- the coordinates are `start + i * step` (any step, any range) -/
theorem C16_lattice (start stop step : Rat) (i : Nat) (h : i < (rangeCoords start stop step).length) :
    (rangeCoords start stop step)[i] = start + (i : Rat) * step := by
  simp only [rangeCoords_eq] at h ⊢
  exact lattice_getElem ..

/-- every coordinate lies in `[start, stop)` -/
theorem C16_inside (start stop step : Rat) (hs : 0 < step) (c : Rat)
    (hc : c ∈ rangeCoords start stop step) : start ≤ c ∧ c < stop := by
  rw [rangeCoords_eq, mem_lattice] at hc
  obtain ⟨i, hi, rfl⟩ := hc
  have hi' : i < arangeLen start stop step := Nat.lt_of_lt_of_le hi (rangeLen_le ..)
  have h1 := lt_arangeLen hi'
  rw [Rat.lt_div_iff hs] at h1
  have h0 : (0 : Rat) ≤ (i : Rat) * step := Rat.mul_nonneg (natCast_nonneg i) (Rat.le_of_lt hs)
  constructor <;> grind

/-- exactly `(stop - start) / step` coordinates when that is a whole number `n` -/
theorem C16_count (start stop step : Rat) (n : Nat) (hs : 0 < step)
    (h : stop - start = (n : Rat) * step) : (rangeCoords start stop step).length = n := by
  rw [rangeCoords_eq, lattice_length, rangeLen, arangeLen_of_whole hs h]
  split
  · rename_i hc
    obtain ⟨hn, hge⟩ := hc
    exfalso
    rw [natCast_pred hn] at hge
    grind
  · rfl

/-- the count in general (what the trailing-point rule makes of a quotient that is not whole):
    `ceil((stop - start) / step - 1/2)` coordinates, i.e. the quotient rounded half down.
    A lattice point in the upper half-step below `stop` is therefore dropped
    (`[0, 1.25)` with step 1 yields `[0]`); the property pins the count only for whole quotients. -/
theorem C16_count_general (start stop step : Rat) (hs : 0 < step) :
    (rangeCoords start stop step).length = ((stop - start) / step - 1 / 2).ceil.toNat := by
  rw [rangeCoords_eq, lattice_length, rangeLen]
  simp only [arangeLen]
  obtain ⟨q, hq⟩ : ∃ q, (stop - start) / step = q := ⟨_, rfl⟩
  simp only [hq]
  have hqs : stop - start = q * step := by rw [← hq, Rat.div_mul_cancel (by grind)]
  have hc1 : q ≤ (q.ceil : Rat) := Rat.le_ceil
  have hc2 : (q.ceil : Rat) < q + 1 := Rat.ceil_lt
  by_cases hpos : 0 < q.ceil
  · have hn : 0 < q.ceil.toNat := by omega
    have hcast : ((q.ceil.toNat - 1 : Nat) : Rat) = (q.ceil : Rat) - 1 := by
      rw [natCast_pred hn]
      have : ((q.ceil.toNat : Int) : Rat) = (q.ceil : Rat) := by
        congr 1; omega
      rw [← this]; rfl
    rw [hcast]
    by_cases hdrop : start + ((q.ceil : Rat) - 1) * step ≥ stop - step / 2
    · rw [if_pos ⟨hn, hdrop⟩]
      have hle : q - 1 / 2 ≤ ((q.ceil - 1 : Int) : Rat) := by
        have : (q - 1 / 2) * step ≤ ((q.ceil : Rat) - 1) * step := by grind
        have := Rat.le_of_mul_le_mul_right this hs
        simpa using this
      have hlt : ((q.ceil - 2 : Int) : Rat) < q - 1 / 2 := by
        simp; grind
      have h1 : (q - 1 / 2).ceil ≤ q.ceil - 1 := Rat.ceil_le_iff.mpr hle
      have h2 : q.ceil - 2 < (q - 1 / 2).ceil := Rat.lt_ceil_iff.mpr hlt
      omega
    · rw [if_neg (by intro h; exact hdrop h.2)]
      have hlt : ((q.ceil - 1 : Int) : Rat) < q - 1 / 2 := by
        have : ((q.ceil : Rat) - 1) * step < (q - 1 / 2) * step := by grind
        have := (Rat.mul_lt_mul_right hs).mp this
        simpa using this
      have hle : q - 1 / 2 ≤ ((q.ceil : Int) : Rat) := by grind
      have h1 : (q - 1 / 2).ceil ≤ q.ceil := Rat.ceil_le_iff.mpr hle
      have h2 : q.ceil - 1 < (q - 1 / 2).ceil := Rat.lt_ceil_iff.mpr hlt
      omega
  · have h0 : q.ceil.toNat = 0 := by omega
    rw [h0]; simp
    have hle : q - 1 / 2 ≤ ((0 : Int) : Rat) := by
      have : (q.ceil : Rat) ≤ ((0 : Int) : Rat) := Rat.intCast_le_intCast.mpr (by omega)
      simp at this ⊢; grind
    have := Rat.ceil_le_iff.mpr hle
    omega

/-- the `step` attribute is the step the coordinates were generated with: the given step, or
    `(stop - start) / size`, or `1 / samplerate`; the coordinates are those of that step -/
theorem C16_step_attr (start stop : Rat) :
    (∀ step size r, createRangeDim start stop (some step) size = .ok r →
        r.step = step ∧ r.coords = rangeCoords start stop step) ∧
    (∀ (n : Int) r, createRangeDim start stop none (some n) = .ok r →
        r.step = (stop - start) / (n : Rat) ∧ r.coords = rangeCoords start stop r.step) ∧
    (∀ step sr r, createTimeRange start stop (some step) sr = .ok r →
        r.step = step ∧ r.coords = rangeCoords start stop step) ∧
    (∀ sr r, createTimeRange start stop none (some sr) = .ok r →
        r.step = 1 / sr ∧ r.coords = rangeCoords start stop (1 / sr)) ∧
    (∀ step r, createFrequencyRange start stop step = .ok r →
        r.step = step ∧ r.coords = rangeCoords start stop step) := by
  refine ⟨?_, ?_, ?_, ?_, ?_⟩
  · intro step size r h
    simp only [createRangeDim] at h
    split at h <;> simp_all
    cases h; simp
  · intro n r h
    simp only [createRangeDim] at h
    by_cases hn : n = 0 <;> simp [hn] at h
    split at h <;> simp_all
    cases h; simp
  · intro step sr r h
    simp only [createTimeRange, createRangeDim] at h
    split at h <;> simp_all
    cases h; simp
  · intro sr r h
    simp only [createTimeRange] at h
    by_cases hn : sr = 0 <;> simp [hn] at h
    simp only [createRangeDim] at h
    split at h <;> simp_all
    cases h; simp
  · intro step r h
    simp only [createFrequencyRange, createRangeDim] at h
    split at h <;> simp_all
    cases h; simp

/-- a request with a non-zero step never fails — in particular an empty range (`start = stop`)
    yields an empty dimension (repaired code; the pinned tree raised `IndexError`) -/
theorem C16_range_total (start stop step : Rat) (size : Option Int) (hs : step ≠ 0) :
    createRangeDim start stop (some step) size
      = .ok { coords := rangeCoords start stop step, step := step } := by
  simp [createRangeDim, hs]

/-- the executable statement of the range part (used as monitor on the real output) holds of the
    model for every valid request -/
theorem C16_range_spec (start stop step : Rat) (hs : 0 < step) (hle : start ≤ stop) :
    rangeSpec start stop step (createRangeDim start stop (some step) none) = true := by
  rw [C16_range_total _ _ _ _ (by grind)]
  simp only [rangeSpec, Bool.and_eq_true]
  refine ⟨⟨⟨by simp, ?_⟩, ?_⟩, ?_⟩
  · simp [rangeCoords_eq]
  · rw [List.all_eq_true]
    intro c hc
    have := C16_inside start stop step hs c hc
    simp [this]
  · split
    · rename_i hden
      have hden' : ((stop - start) / step).den = 1 := by simpa using hden
      have hmul : (stop - start) / step * step = stop - start := Rat.div_mul_cancel (by grind)
      have hq0 : 0 ≤ (stop - start) / step :=
        Rat.le_of_mul_le_mul_right (c := step) (by rw [hmul, Rat.zero_mul]; grind) hs
      have hnum : 0 ≤ ((stop - start) / step).num := Rat.num_nonneg.mpr hq0
      have hq : (stop - start) / step = ((((stop - start) / step).num.toNat : Nat) : Rat) := by
        apply Rat.ext
        · simp; omega
        · simp [hden']
      have h : stop - start = ((((stop - start) / step).num.toNat : Nat) : Rat) * step := by
        rw [← hq, Rat.div_mul_cancel (by grind)]
      simp [C16_count start stop step _ hs h]
    · rfl

/-! ## `get_coord_index` -/

/-- inside the axis range the lookup returns an index `i` with `coords[i] ≤ v`, `v < coords[i+1]`
    when there is a next coordinate, and it is the only such index -/
theorem C16_index_unique (coords : List Rat) (v : Rat) (raise : Bool) (hs : Sorted coords)
    (hne : coords ≠ []) (hlo : coords.head hne ≤ v) (hhi : v ≤ coords.getLast hne) :
    ∃ i, ∃ hi : i < coords.length, coordIndex coords v raise = .ok i ∧ coords[i] ≤ v ∧
      (∀ h : i + 1 < coords.length, v < coords[i + 1]) ∧
      ∀ j (hj : j < coords.length), coords[j] ≤ v →
        (∀ h : j + 1 < coords.length, v < coords[j + 1]) → j = i := by
  have hlen : 0 < coords.length := List.length_pos_iff.mpr hne
  have hin : ¬ (v < coords.head hne ∨ v > coords.getLast hne) := by grind
  have h0 : 0 < countLE coords v := by
    rw [lt_countLE_iff hs v 0 hlen]
    rw [List.head_eq_getElem] at hlo; exact hlo
  have hle := countLE_le_length coords v
  refine ⟨countLE coords v - 1, by omega, ?_, ?_, ?_, ?_⟩
  · rw [coordIndex_sorted coords v raise hs hne, if_neg hin]
  · exact (lt_countLE_iff hs v _ (by omega)).mp (by omega)
  · intro h
    have := (lt_countLE_iff hs v (countLE coords v - 1 + 1) h)
    have hnot : ¬ (countLE coords v - 1 + 1 < countLE coords v) := by omega
    have := mt this.mpr hnot
    exact Rat.not_le.mp this
  · intro j hj hjv hnext
    have hjc := (lt_countLE_iff hs v j hj).mpr hjv
    by_cases hlt : j + 1 < countLE coords v
    · have hj1 : j + 1 < coords.length := by omega
      have := (lt_countLE_iff hs v (j + 1) hj1).mp hlt
      have := hnext hj1
      grind
    · omega

/-- at the upper edge (`v` = last coordinate) the lookup returns the last index -/
theorem C16_index_upper_edge (coords : List Rat) (raise : Bool) (hs : Sorted coords) (hne : coords ≠ []) :
    coordIndex coords (coords.getLast hne) raise = .ok (coords.length - 1) := by
  have hlen : 0 < coords.length := List.length_pos_iff.mpr hne
  obtain ⟨i, hi, heq, _, hnext, _⟩ := C16_index_unique coords (coords.getLast hne) raise hs hne
    (by rw [List.getLast_eq_getElem]; exact sorted_head_le hs hne _ (by omega)) Rat.le_refl
  rw [heq]
  by_cases h : i + 1 < coords.length
  · have h1 := hnext h
    have h2 := sorted_le_getLast hs hne (i + 1) h
    grind
  · congr 1; omega

/-- outside the axis range the lookup raises `KeyError`, or clamps: `0` below the first
    coordinate, the axis size (one past the last index) above the last -/
theorem C16_outside (coords : List Rat) (v : Rat) (hs : Sorted coords) (hne : coords ≠ [])
    (hout : v < coords.head hne ∨ coords.getLast hne < v) :
    coordIndex coords v true = .error .key ∧
    coordIndex coords v false = (if v < coords.head hne then .ok 0 else .ok coords.length) := by
  have : v < coords.head hne ∨ v > coords.getLast hne := hout
  simp [coordIndex_sorted coords v _ hs hne, this]

/-- the executable statement of the lookup part holds of the model on every sorted axis -/
theorem C16_index_spec (coords : List Rat) (v : Rat) (raise : Bool) (hs : Sorted coords) :
    indexSpec coords v raise (coordIndex coords v raise) = true := by
  by_cases hne : coords = []
  · subst hne; simp [indexSpec]
  · have hhead : coords.head? = some (coords.head hne) := List.head?_eq_some_head hne
    have hlast : coords.getLast? = some (coords.getLast hne) := List.getLast?_eq_some_getLast hne
    simp only [indexSpec, hhead, hlast]
    by_cases h1 : v < coords.head hne
    · have := (C16_outside coords v hs hne (Or.inl h1))
      cases raise <;> simp [h1, this]
    · by_cases h2 : v > coords.getLast hne
      · have := (C16_outside coords v hs hne (Or.inr h2))
        cases raise <;> simp [h1, h2, this]
      · obtain ⟨i, hi, heq, hle, hnext, _⟩ := C16_index_unique coords v raise hs hne (by grind) (by grind)
        simp only [h1, h2, heq, if_false]
        simp only [List.getElem?_eq_getElem hi, hle, decide_true, Bool.true_and]
        by_cases hn : i + 1 < coords.length
        · simp [List.getElem?_eq_getElem hn, hnext hn]
        · simp [List.getElem?_eq_none (Nat.le_of_not_lt hn)]

/-- … and it leaves no freedom: an output accepted by the statement is the model's output -/
theorem C16_index_spec_determines (coords : List Rat) (v : Rat) (raise : Bool) (hs : Sorted coords)
    (hne : coords ≠ []) (y : Except AErr Nat) (hy : indexSpec coords v raise y = true) :
    y = coordIndex coords v raise := by
  have hhead : coords.head? = some (coords.head hne) := List.head?_eq_some_head hne
  have hlast : coords.getLast? = some (coords.getLast hne) := List.getLast?_eq_some_getLast hne
  simp only [indexSpec, hhead, hlast] at hy
  by_cases h1 : v < coords.head hne
  · have := (C16_outside coords v hs hne (Or.inl h1))
    cases raise <;> simp [h1] at hy <;> simp [this, hy, h1]
  · by_cases h2 : v > coords.getLast hne
    · have := (C16_outside coords v hs hne (Or.inr h2))
      cases raise <;> simp [h1, h2] at hy <;> simp [this, hy, h1]
    · obtain ⟨i, hi, heq, hle, hnext, huniq⟩ := C16_index_unique coords v raise hs hne (by grind) (by grind)
      simp only [h1, h2, if_false] at hy
      cases y with
      | error e => simp at hy
      | ok j =>
        simp only at hy
        by_cases hj : j < coords.length
        · simp only [List.getElem?_eq_getElem hj, Bool.and_eq_true, decide_eq_true_eq] at hy
          have hjn : ∀ h : j + 1 < coords.length, v < coords[j + 1] := by
            intro h; have := hy.2; simpa [List.getElem?_eq_getElem h] using this
          rw [heq, huniq j hj hy.1 hjn]
        · simp [List.getElem?_eq_none (Nat.le_of_not_lt hj)] at hy

/-! ## `set_value_at_pos` -/

/-- `array.data[indexer] = value` writes exactly the addressed cell or slice: the shape and the
    number of elements are unchanged, an element whose multi-index is addressed holds the value
    (for an array value: its element at the broadcast position inside the slice), every other
    element is unchanged -/
theorem C16_set_exact {α} [Inhabited α] (a a' : NDArr α) (ix : Indexer) (v : Val α)
    (hwf : a.data.length = size a.shape) (h : setAt a ix v = .ok a') :
    a'.shape = a.shape ∧ a'.data.length = a.data.length ∧
    ∀ m, inBounds a.shape m = true →
      a'.get m = if addressed ix m then v.get (freePart ix a.shape) (freePart ix m) else a.get m := by
  simp only [setAt] at h
  split at h
  · cases h
    refine ⟨rfl, by simp, ?_⟩
    intro m hm
    have hlt : ravel a.shape m < a.data.length := by rw [hwf]; exact ravel_lt hm
    simp only [NDArr.get]
    rw [getD_mapIdx _ _ _ _ hlt, unravel_ravel hm]
    split
    · rfl
    · simp [List.getD, hlt]
  · simp at h

/-- `set_value_at_pos`: for a query that names every axis once, the call succeeds only if every
    queried position lies inside its axis range, and then it is the write of `C16_set_exact` with
    the indexer holding, on each queried axis, the index found by the coordinate lookup on *that*
    axis, and a full slice on every other axis -/
theorem C16_set_value_at_pos {α} [Inhabited α] (a a' : NDArr α) (axes : List (List Rat))
    (query : List (Nat × Rat)) (v : Val α) (hnd : (query.map Prod.fst).Nodup)
    (h : setValueAtPos a axes query v = .ok a') :
    ∃ ix : Indexer, setAt a ix v = .ok a' ∧ ix.length = a.shape.length ∧
      (∀ k q, (k, q) ∈ query → ∃ coords i, axes[k]? = some coords ∧ coordIndex coords q true = .ok i ∧
          (k < a.shape.length → ix[k]? = some (some i))) ∧
      (∀ k, k < a.shape.length → (∀ q, (k, q) ∉ query) → ix[k]? = some none) := by
  simp only [setValueAtPos] at h
  split at h
  · simp at h
  · rename_i ix hix
    obtain ⟨hlen, hq, hn⟩ := buildIndexer_spec axes query _ ix hnd hix
    refine ⟨ix, h, by simpa using hlen, ?_, ?_⟩
    · intro k q hm
      obtain ⟨c, i, h1, h2, h3⟩ := hq k q hm
      exact ⟨c, i, h1, h2, fun hk => h3 (by simpa using hk)⟩
    · intro k hk hnot
      rw [hn k hnot]; simp [hk]

/-- what is rejected: a position outside its axis range (`KeyError`), an unknown axis, a sequence
    written into a single cell and a value that cannot be broadcast into the slice (`ValueError`) -/
theorem C16_set_rejects {α} [Inhabited α] (a : NDArr α) (axes : List (List Rat)) :
    (∀ k q rest v coords, axes[k]? = some coords → coordIndex coords q true = .error .key →
        setValueAtPos a axes ((k, q) :: rest) v = .error .key) ∧
    (∀ k q rest v, axes[k]? = none → setValueAtPos a axes ((k, q) :: rest) v = .error .invalid) ∧
    (∀ ix w, freePart ix a.shape = [] → setAt a ix (.arr w) = .error .invalid) ∧
    (∀ ix w, broadcastable w.shape (freePart ix a.shape) = false → setAt a ix (.arr w) = .error .invalid) := by
  refine ⟨?_, ?_, ?_, ?_⟩
  · intro k q rest v coords h1 h2; simp [setValueAtPos, buildIndexer, h1, h2]
  · intro k q rest v h1; simp [setValueAtPos, buildIndexer, h1]
  · intro ix w h; simp [setAt, valueFits, h]
  · intro ix w h; simp [setAt, valueFits, h]

/-! ## the kernels (tied to the current source for all inputs by symbolic traces, Tie 1b) -/

/-- `create_range_dim`, `create_time_range`, `create_frequency_range` *are* their kernels (step
    selection, the one `np.arange` call, the trailing-point guard and threshold, the attribute)
    followed by `np.arange` -/
theorem C16_range_kernel (start stop : Rat) :
    (∀ step (size : Option Int), createRangeDim start stop step size
        = (rangeKernel start stop step (size.map (fun (n : Int) => (n : Rat)))).map RangePlan.eval) ∧
    (∀ step sr, createTimeRange start stop step sr = (timeKernel start stop step sr).map RangePlan.eval) ∧
    (∀ step, createFrequencyRange start stop step = (freqKernel start stop step).map RangePlan.eval) := by
  refine ⟨?_, ?_, ?_⟩
  · intro step size
    cases step with
    | some s => simpa [rangeKernel] using createRangeDim_some start stop s size
    | none =>
      cases size with
      | none => simp [createRangeDim, rangeKernel, Except.map]
      | some n =>
        by_cases hn : n = 0
        · subst hn; simp [createRangeDim, rangeKernel, Except.map]
        · have hn' : ¬ ((n : Rat) = 0) := fun h => hn ((intCast_eq_zero_iff n).mp h)
          have hk : rangeKernel start stop none (Option.map (fun (n : Int) => (n : Rat)) (some n))
              = rangePlanOf start stop ((stop - start) / (n : Rat)) := by simp [rangeKernel, hn']
          rw [hk]
          by_cases hs : (stop - start) / (n : Rat) = 0
          · rw [hs, rangePlanOf_zero]; simp [createRangeDim, hn, hs]
          · rw [rangePlanOf_eval _ _ _ hs]; simp [createRangeDim, hn, hs]
  · intro step sr
    cases step with
    | some s => simpa [createTimeRange, timeKernel] using createRangeDim_some start stop s none
    | none =>
      cases sr with
      | none => simp [createTimeRange, timeKernel, Except.map]
      | some r =>
        by_cases hr : r = 0
        · subst hr; simp [createTimeRange, timeKernel, Except.map]
        · simpa [createTimeRange, timeKernel, hr] using createRangeDim_some start stop (1 / r) none
  · intro step
    simpa [createFrequencyRange, freqKernel] using createRangeDim_some start stop step none

/-- `get_coord_index` *is* its kernel (range test against `get_dim_range`, `KeyError` / clamp,
    `get_slice_bound(v, "right") - 1`) evaluated on the axis -/
theorem C16_index_kernel (coords : List Rat) (v : Rat) (raise : Bool) :
    coordIndex coords v raise =
      match axisRange coords with
      | some (lo, hi) => (indexKernel lo hi v raise).map (fun p => (p.eval coords).toNat)
      | none => .error .invalid := by
  cases h : axisRange coords with
  | some r => obtain ⟨lo, hi⟩ := r; exact coordIndex_of_range coords lo hi v raise h
  | none =>
    simp only [axisRange] at h
    simp only [coordIndex]
    split at h
    · simp at h
    · split <;> simp_all

/-- the indexer of `set_value_at_pos` *is* its kernel evaluated on the axes: when `ranges[k]` is
    the range of axis `k`, building the indexer from the lookups is building the plan and evaluating it -/
theorem C16_indexer_kernel (axes : List (List Rat)) (ranges : List (Rat × Rat))
    (hr : axes.map axisRange = ranges.map some) (query : List (Nat × Rat)) (ixp : IndexerPlan) :
    buildIndexer axes query (ixp.eval axes) = (indexerKernel ranges query ixp).map (IndexerPlan.eval axes) := by
  induction query generalizing ixp with
  | nil => simp [buildIndexer, indexerKernel, Except.map]
  | cons kq rest ih =>
    obtain ⟨k, q⟩ := kq
    have hk : (axes.map axisRange)[k]? = (ranges.map some)[k]? := by rw [hr]
    simp only [List.getElem?_map] at hk
    simp only [buildIndexer, indexerKernel]
    cases hax : axes[k]? with
    | none =>
      rw [hax] at hk
      cases hrk : ranges[k]? with
      | none => simp [Except.map]
      | some r => rw [hrk] at hk; simp at hk
    | some coords =>
      rw [hax] at hk
      cases hrk : ranges[k]? with
      | none => rw [hrk] at hk; simp at hk
      | some r =>
        obtain ⟨lo, hi⟩ := r
        rw [hrk] at hk
        have hrange : axisRange coords = some (lo, hi) := by simpa using hk
        simp only [coordIndex_of_range coords lo hi q true hrange]
        cases hp : indexKernel lo hi q true with
        | error e => simp [Except.map]
        | ok p =>
          simp only [Except.map]
          rw [← eval_set axes ixp k p coords hax]
          exact ih _

/-- … hence `set_value_at_pos` is: the plan of `setKernel` (or its error), evaluated on the axes,
    then the write -/
theorem C16_set_kernel {α} [Inhabited α] (a : NDArr α) (axes : List (List Rat)) (ranges : List (Rat × Rat))
    (hr : axes.map axisRange = ranges.map some) (hnd : a.shape.length = axes.length)
    (query : List (Nat × Rat)) (v : Val α) :
    setValueAtPos a axes query v =
      match setKernel ranges query with
      | .error e => .error e
      | .ok ixp => setAt a (ixp.eval axes) v := by
  have hlen : ranges.length = a.shape.length := by
    have := congrArg List.length hr
    simp at this; omega
  have h0 : a.shape.map (fun _ => (none : Option Nat)) = IndexerPlan.eval axes (ranges.map (fun _ => none)) := by
    simp only [IndexerPlan.eval, List.map_map]
    apply List.ext_getElem
    · simp [hlen]
    · intro i h1 h2; simp
  simp only [setValueAtPos, setKernel, h0, C16_indexer_kernel axes ranges hr]
  cases indexerKernel ranges query (ranges.map (fun _ => none)) <;> simp [Except.map]

/-! ## `set_value_at_pos`, end to end -/

/-- the multi-index `m` is hit by the query entry `(k, q)`: its component on axis `k` is the
    lookup of `q` on that axis -/
def Hit (axes : List (List Rat)) (m : List Nat) (kq : Nat × Rat) : Prop :=
  ∃ coords i, axes[kq.1]? = some coords ∧ coordIndex coords kq.2 true = .ok i ∧ m[kq.1]? = some i

/-- `set_value_at_pos`, end to end: after a successful call on an array with one axis per
    dimension and a query that names every axis at most once, an element holds the value (for an
    array value: its element at the broadcast position inside the slice) exactly when its
    multi-index is hit by every query entry; every other element is unchanged.  On increasing axes
    "hit by `(k, q)`" means: `m[k]` is the one index `i` with `coords[i] ≤ q`, and `q < coords[i+1]`
    when there is a next coordinate. -/
theorem C16_set_cell {α} [Inhabited α] (a a' : NDArr α) (axes : List (List Rat))
    (query : List (Nat × Rat)) (v : Val α) (hwf : a.data.length = size a.shape)
    (hnd : (query.map Prod.fst).Nodup) (hq : ∀ kq ∈ query, kq.1 < a.shape.length)
    (h : setValueAtPos a axes query v = .ok a') :
    a'.shape = a.shape ∧
    (∀ m, inBounds a.shape m = true →
      ((∀ kq ∈ query, Hit axes m kq) → ∃ ix, a'.get m = v.get (freePart ix a.shape) (freePart ix m)) ∧
      ((¬ ∀ kq ∈ query, Hit axes m kq) → a'.get m = a.get m)) ∧
    (∀ m kq, kq ∈ query → ∀ coords, axes[kq.1]? = some coords → Sorted coords →
      (Hit axes m kq ↔ ∃ i, ∃ hi : i < coords.length, m[kq.1]? = some i ∧ coords[i] ≤ kq.2 ∧
          ∀ h : i + 1 < coords.length, kq.2 < coords[i + 1])) := by
  obtain ⟨ix, hset, hlen, hqs, hfree⟩ := C16_set_value_at_pos a a' axes query v hnd h
  obtain ⟨hshape, _, hget⟩ := C16_set_exact a a' ix v hwf hset
  have haddr : ∀ m, inBounds a.shape m = true → (addressed ix m = true ↔ ∀ kq ∈ query, Hit axes m kq) := by
    intro m hm
    have hml : ix.length = m.length := by rw [hlen, inBounds_length hm]
    rw [addressed_iff ix m hml]
    constructor
    · intro hall kq hmem
      obtain ⟨coords, i, h1, h2, h3⟩ := hqs kq.1 kq.2 hmem
      exact ⟨coords, i, h1, h2, hall _ _ (h3 (hq kq hmem))⟩
    · intro hall k i hk
      have hkl : k < a.shape.length := by
        have : k < ix.length := by
          rcases Nat.lt_or_ge k ix.length with h | h
          · exact h
          · rw [List.getElem?_eq_none h] at hk; simp at hk
        omega
      by_cases hex : ∃ q, (k, q) ∈ query
      · obtain ⟨q, hmem⟩ := hex
        obtain ⟨coords, i', h1, h2, h3⟩ := hqs k q hmem
        obtain ⟨coords', i'', h1', h2', h3'⟩ := hall (k, q) hmem
        have hi' : ix[k]? = some (some i') := h3 hkl
        rw [hi'] at hk
        have : i' = i := by simpa using hk
        subst this
        simp only at h1' h2' h3'
        rw [h1] at h1'
        cases h1'
        rw [h2] at h2'
        cases h2'
        exact h3'
      · have : ix[k]? = some none := hfree k hkl (fun q hm => hex ⟨q, hm⟩)
        rw [this] at hk; simp at hk
  refine ⟨hshape, ?_, ?_⟩
  · intro m hm
    refine ⟨fun hall => ⟨ix, ?_⟩, fun hnot => ?_⟩
    · rw [hget m hm, if_pos ((haddr m hm).mpr hall)]
    · rw [hget m hm, if_neg (fun hc => hnot ((haddr m hm).mp hc))]
  · intro m kq hmem coords hax hs
    obtain ⟨coords', i0, h1, h2, _⟩ := hqs kq.1 kq.2 hmem
    rw [hax] at h1
    cases h1
    have hne : coords ≠ [] := by
      intro he; subst he; simp [coordIndex, listMin] at h2
    -- the lookup succeeded with `raise = true`: the position is inside the axis range
    have hin : coords.head hne ≤ kq.2 ∧ kq.2 ≤ coords.getLast hne := by
      by_cases hout : kq.2 < coords.head hne ∨ coords.getLast hne < kq.2
      · have := (C16_outside coords kq.2 hs hne hout).1
        rw [this] at h2; simp at h2
      · constructor <;> grind
    obtain ⟨i, hi, heq, hle, hnext, huniq⟩ := C16_index_unique coords kq.2 true hs hne hin.1 hin.2
    constructor
    · rintro ⟨c2, i2, h1', h2', h3'⟩
      rw [hax] at h1'
      cases h1'
      rw [heq] at h2'
      have e : i = i2 := by simpa using h2'
      rw [← e] at h3'
      exact ⟨i, hi, h3', hle, hnext⟩
    · rintro ⟨j, hj, hmj, hlej, hnextj⟩
      have := huniq j hj hlej hnextj
      subst this
      exact ⟨coords, j, hax, heq, hmj⟩

/-! ## the trailing-point rule under binary64 rounding -/

/-- `create_range_dim`'s rule is `dropTrailingAt` at the exact threshold -/
theorem C16_rule_at (stop step : Rat) (cs : List Rat) :
    dropTrailing stop step cs = dropTrailingAt (stop - step / 2) cs := rfl

/-- why the rule makes the count exact for decimal steps: for a request of `n` whole steps let
    `np.arange` have returned `n` or `n + 1` points (its internal ceiling may have been pushed either
    way by rounding), each — like the computed threshold — less than a quarter step off its exact
    value.  Then the rule leaves exactly the first `n` points.  The hypothesis is the executable
    `arangeContract`, evaluated at run time on what numpy returned. -/
theorem C16_count_robust (start step δ thr : Rat) (n : Nat) (cs : List Rat)
    (hc : arangeContract start step δ thr n cs = true) :
    dropTrailingAt thr cs = cs.take n ∧ (dropTrailingAt thr cs).length = n := by
  simp only [arangeContract, Bool.and_eq_true, decide_eq_true_eq, Bool.or_eq_true, beq_iff_eq,
    List.all_eq_true, List.mem_range] at hc
  obtain ⟨⟨⟨⟨hs, hδ⟩, hlen⟩, hpts⟩, hthr⟩ := hc
  have habs : ∀ x : Rat, absR x ≤ δ → -δ ≤ x ∧ x ≤ δ := by
    intro x hx; simp only [absR] at hx; split at hx <;> constructor <;> grind
  have hthr' := habs _ hthr
  have key : dropTrailingAt thr cs = cs.take n := by
    rcases hlen with hl | hl
    · -- `n` points: the last one is about `stop - step`, below the threshold
      rw [← hl, List.take_length]
      simp only [dropTrailingAt]
      cases hlast : cs.getLast? with
      | none => rfl
      | some c =>
        have hne : cs ≠ [] := by intro he; subst he; simp at hlast
        have hpos : 0 < cs.length := List.length_pos_iff.mpr hne
        have hc' : c = cs.getD (cs.length - 1) 0 := by
          rw [List.getLast?_eq_getElem?] at hlast
          simp [List.getD, hlast]
        have hp := habs _ (hpts (cs.length - 1) (by omega))
        rw [← hc'] at hp
        have hcast : ((cs.length - 1 : Nat) : Rat) = (n : Rat) - 1 := by
          rw [natCast_pred hpos, hl]
        rw [hcast] at hp
        have : ¬ c ≥ thr := by grind
        simp [this]
    · -- `n + 1` points: the last one is about `stop`, above the threshold
      simp only [dropTrailingAt]
      cases hlast : cs.getLast? with
      | none =>
        have : cs = [] := by simpa using hlast
        subst this; simp at hl
      | some c =>
        have hc' : c = cs.getD (cs.length - 1) 0 := by
          rw [List.getLast?_eq_getElem?] at hlast
          simp [List.getD, hlast]
        have hp := habs _ (hpts (cs.length - 1) (by omega))
        rw [← hc'] at hp
        have hcast : ((cs.length - 1 : Nat) : Rat) = (n : Rat) := by
          congr 1; omega
        rw [hcast] at hp
        have : c ≥ thr := by grind
        simp only [this, if_true]
        rw [List.dropLast_eq_take, hl]; simp
  refine ⟨key, ?_⟩
  rw [key, List.length_take]
  rcases hlen with hl | hl <;> omega

/-! ## follow-up: call forms, histories, sessions -/

/-- the value every parameter of a table is bound to by an all-positional call -/
def rolesOf {α : Type} : List Param → List α → List (String × Option α)
  | [], _ => []
  | p :: ps, [] => (p.name, none) :: rolesOf ps []
  | p :: ps, a :: as => (p.name, some a) :: rolesOf ps as

/-- **Call forms.**  Under a signature table without repeated names, a call that gives the first
    `k` arguments positionally and the others by the keyword of their parameter binds exactly as the
    all-positional call (`k` = number of arguments) and the all-keyword call (`k = 0`) do - for every
    `k`; and when every parameter without default is given, the all-positional call binds parameter
    number `i` to argument number `i` (and the others to their defaults): the documented order *is*
    the meaning of a positional call.  The tables of the five functions are re-extracted from the
    imported code on every run and have to be `rangeSig`, `timeSig`, `freqSig`, `indexSig`, `setSig`
    (obligations `sig_*`); these are well formed. -/
theorem C16_call_forms {α : Type} (s : Sig) (hwf : s.WellFormed) (vals : List α)
    (hlen : vals.length ≤ s.params.length) :
    (∀ k, bindCall s (vals.take k) ((s.names.zip vals).drop k) = bindCall s vals []) ∧
    (((s.params.drop vals.length).all (fun p => !p.required)) = true →
      bindCall s vals [] = .ok (rolesOf s.params vals, [])) ∧
    rangeSig.WellFormed ∧ timeSig.WellFormed ∧ freqSig.WellFormed ∧ indexSig.WellFormed ∧ setSig.WellFormed := by
  have hextra : ∀ k, extraKw s ((s.names.zip vals).drop k) = [] := by
    intro k
    simp only [extraKw, List.filter_eq_nil_iff]
    intro e he
    have h1 : e ∈ s.names.zip vals := List.mem_of_mem_drop he
    have h2 : e.1 ∈ s.names := (List.of_mem_zip (a := e.1) (b := e.2) h1).1
    simpa using h2
  refine ⟨?_, ?_, by decide, by decide, by decide, by decide, by decide⟩
  · intro k
    have hb := bindParams_split s.params vals k hwf hlen
    simp only [bindCall, hextra k]
    simp only [Sig.names] at hb ⊢
    rw [hb]
    simp [extraKw]
  · intro hreq
    have hb : ∀ (ps : List Param) (vs : List α), vs.length ≤ ps.length →
        ((ps.drop vs.length).all (fun p => !p.required)) = true →
        bindParams ps vs [] = .ok (rolesOf ps vs) := by
      intro ps
      induction ps with
      | nil =>
        intro vs hl _
        cases vs with
        | nil => simp [bindParams, rolesOf]
        | cons a as => simp at hl
      | cons p ps ih =>
        intro vs hl hr
        cases vs with
        | nil =>
          have hp : p.required = false := by simpa using (by simpa using hr : (!p.required) = true ∧ _).1
          have hr' : ((ps.drop ([] : List α).length).all (fun p => !p.required)) = true := by
            simpa using (by simpa using hr : (!p.required) = true ∧ _).2
          simp [bindParams, rolesOf, hp, ih [] (by simp) hr']
        | cons a as =>
          have hl' : as.length ≤ ps.length := by simpa using hl
          have hr' : ((ps.drop as.length).all (fun p => !p.required)) = true := by simpa using hr
          simp [bindParams, rolesOf, ih as hl' hr']
    simp [bindCall, extraKw, hb s.params vals hlen hreq]

theorem rolesOf_append {α : Type} (ps qs : List Param) (vals : List α) (h : vals.length ≤ ps.length) :
    rolesOf (ps ++ qs) vals = rolesOf ps vals ++ qs.map (fun p => (p.name, none)) := by
  induction ps generalizing vals with
  | nil =>
    have : vals = [] := by simpa using h
    subst this
    induction qs with
    | nil => rfl
    | cons q qs ih => simpa [rolesOf] using ih
  | cons p ps ih =>
    cases vals with
    | nil => simpa [rolesOf] using ih [] (by simp)
    | cons a as => simpa [rolesOf] using ih as (by simpa using h)

/-- **Extended tables.**  A table that extends a documented one (the documented parameters first,
    unchanged, then only parameters with defaults) binds every call that gives at most the documented
    parameters positionally exactly as the documented table does - the new parameters take their
    defaults.  (The obligations `sig_*` ask for `Extends`, so that a new optional parameter is not an
    alarm, a reordered, renamed, removed or newly required one is.) -/
theorem C16_sig_extends {α : Type} (s ref : Sig) (hwf : s.WellFormed) (hr : ref.WellFormed)
    (hext : s.Extends ref = true) (vals : List α) (hlen : vals.length ≤ ref.params.length)
    (hreq : ((ref.params.drop vals.length).all (fun p => !p.required)) = true) :
    bindCall s vals [] =
      .ok (rolesOf ref.params vals ++ (s.params.drop ref.params.length).map (fun p => (p.name, none)), []) ∧
    bindCall ref vals [] = .ok (rolesOf ref.params vals, []) := by
  simp only [Sig.Extends, Bool.and_eq_true, beq_iff_eq] at hext
  obtain ⟨⟨htake, hopt⟩, _⟩ := hext
  have hsplit : s.params = ref.params ++ s.params.drop ref.params.length := by
    conv => lhs; rw [← List.take_append_drop ref.params.length s.params]
    rw [htake]
  have hlen' : vals.length ≤ s.params.length := by
    rw [hsplit, List.length_append]; omega
  have hreq' : ((s.params.drop vals.length).all (fun p => !p.required)) = true := by
    rw [hsplit, List.drop_append_of_le_length hlen, List.all_append, hreq]
    simpa using hopt
  refine ⟨?_, (C16_call_forms ref hr vals hlen).2.1 hreq⟩
  rw [(C16_call_forms s hwf vals hlen').2.1 hreq']
  conv => lhs; rw [hsplit]
  rw [rolesOf_append _ _ _ hlen]

example : ({ rangeSig with params := rangeSig.params ++ [.opt "endpoint" "False"] } : Sig).Extends rangeSig = true := by decide
example : ({ rangeSig with params := [.req "name", .req "start", .req "stop", .opt "size" "None",
      .opt "step" "None", .opt "dtype" "float64"] } : Sig).Extends rangeSig = false := by decide

-- the positional call in the documented order: `create_range_dim("x", 0, 1, 1/4)`
example : bindCall rangeSig ["x", "0", "1", "1/4"] [] =
    .ok ([("name", some "x"), ("start", some "0"), ("stop", some "1"), ("step", some "1/4"), ("size", none),
          ("dtype", none)], []) := by decide
-- the same call with `step` by keyword and an attribute
example : bindCall rangeSig ["x", "0", "1"] [("step", "1/4"), ("units", "s")] =
    .ok ([("name", some "x"), ("start", some "0"), ("stop", some "1"), ("step", some "1/4"), ("size", none),
          ("dtype", none)], [("units", "s")]) := by decide
-- a table with `step` and `size` swapped binds the fourth positional argument to `size`: it is not `rangeSig`
example : bindCall { rangeSig with params := [.req "name", .req "start", .req "stop", .opt "size" "None",
      .opt "step" "None", .opt "dtype" "float64"] } ["x", "0", "1", "1/4"] [] ≠ bindCall rangeSig ["x", "0", "1", "1/4"] [] := by
  decide
example : bindCall indexSig ["a", "d", "v"] [("raise", "False")] = .error .unexpected := by decide
example : bindCall indexSig ["a", "d"] [] = .error .missing := by decide
example : bindCall indexSig ["a", "d", "v", "r"] [("raise_error", "r")] = .error .multiple := by decide

/-- **Histories.**  Whatever state an implementation of the five functions keeps between calls (`σ`
    is arbitrary: a cache of ranges, an index remembered on an array, a scratch buffer), it answers
    every call of every sequence of calls in one process as the pure model does iff no state
    reachable by some sequence of calls changes the answer of any single call.  (`RangeCall` carries the
    *content* of the arguments at the moment of the call: an array whose coordinates were
    re-assigned is another `RangeCall`.) -/
theorem C16_history {σ : Type} (step : σ → RangeCall → σ × Answer) (s0 : σ) :
    SE.History.HistoryFree step s0 callModel ↔
      ∀ calls : List RangeCall, SE.History.runS step s0 calls = calls.map callModel :=
  SE.History.historyFree_iff step s0 callModel

/-- a cache of ranges keyed by `(start, stop)` only is not history free: the second request, with
    another step, is answered from the cache -/
example :
    let step : List ((Rat × Rat) × Answer) → RangeCall → List ((Rat × Rat) × Answer) × Answer := fun cache c =>
      match c with
      | .range a b _ _ =>
        match cache.lookup (a, b) with
        | some r => (cache, r)
        | none => (((a, b), callModel c) :: cache, callModel c)
      | _ => (cache, callModel c)
    SE.History.runS step [] [.range 0 1 (some (1/2)) none, .range 0 1 (some (1/4)) none] ≠
      [RangeCall.range 0 1 (some (1/2)) none, .range 0 1 (some (1/4)) none].map callModel := by
  decide +kernel

/-- a range remembered on the array (here: for the lookups that follow the first one) is not history
    free either: after the coordinates were re-assigned the old range still decides -/
example :
    let step : Option (List Rat) → RangeCall → Option (List Rat) × Answer := fun memo c =>
      match c with
      | .index cs v r => (some (memo.getD cs), .idx (coordIndex (memo.getD cs) v r))
      | _ => (memo, callModel c)
    SE.History.runS step none [.index [0, 1, 2] 1 true, .index [10, 11, 12] 11 true] ≠
      [RangeCall.index [0, 1, 2] 1 true, .index [10, 11, 12] 11 true].map callModel := by
  decide +kernel

/-- **Sessions of writes.**  Consecutive `set_value_at_pos` calls on one live array (each call works on
    the content the array has then; a rejected call leaves it): the array keeps its shape, the
    answers are those of the pure model on the content of the moment, and an element whose
    multi-index is not hit by *every* entry of the query of any of the calls holds after the
    whole session what it held before it. -/
theorem C16_session {α} [Inhabited α] (axes : List (List Rat)) (ws : List (Write α)) (a : NDArr α)
    (hwf : a.data.length = size a.shape)
    (hq : ∀ w ∈ ws, (w.1.map Prod.fst).Nodup ∧ ∀ kq ∈ w.1, kq.1 < a.shape.length) :
    (contentAfter axes a ws).shape = a.shape ∧
    (contentAfter axes a ws).data.length = a.data.length ∧
    (session axes a ws).length = ws.length ∧
    (∀ m, inBounds a.shape m = true → (∀ w ∈ ws, ¬ ∀ kq ∈ w.1, Hit axes m kq) →
      (contentAfter axes a ws).get m = a.get m) := by
  induction ws generalizing a with
  | nil => simp [contentAfter, session]
  | cons w ws ih =>
    have hw := hq w (by simp)
    have hrest : ∀ w' ∈ ws, (w'.1.map Prod.fst).Nodup ∧ ∀ kq ∈ w'.1, kq.1 < a.shape.length :=
      fun w' h => hq w' (by simp [h])
    -- one step
    have hstep : (contentStep axes a w).shape = a.shape ∧ (contentStep axes a w).data.length = a.data.length ∧
        ∀ m, inBounds a.shape m = true → (¬ ∀ kq ∈ w.1, Hit axes m kq) → (contentStep axes a w).get m = a.get m := by
      unfold contentStep
      cases hr : setValueAtPos a axes w.1 w.2 with
      | error e => simp
      | ok a' =>
        obtain ⟨ix, hset, _, _, _⟩ := C16_set_value_at_pos a a' axes w.1 w.2 hw.1 hr
        obtain ⟨hs, hl, _⟩ := C16_set_exact a a' ix w.2 hwf hset
        obtain ⟨_, hcell, _⟩ := C16_set_cell a a' axes w.1 w.2 hwf hw.1 hw.2 hr
        exact ⟨hs, hl, fun m hm hn => (hcell m hm).2 hn⟩
    obtain ⟨hs, hl, hkeep⟩ := hstep
    have hwf' : (contentStep axes a w).data.length = size (contentStep axes a w).shape := by rw [hl, hs, hwf]
    have hq' : ∀ w' ∈ ws, (w'.1.map Prod.fst).Nodup ∧ ∀ kq ∈ w'.1, kq.1 < (contentStep axes a w).shape.length := by
      rw [hs]; exact hrest
    obtain ⟨i1, i2, i3, i4⟩ := ih (contentStep axes a w) hwf' hq'
    refine ⟨?_, ?_, ?_, ?_⟩
    · simpa [contentAfter, hs] using i1
    · simpa [contentAfter, hl] using i2
    · simp [session, i3]
    · intro m hm hno
      have h1 := i4 m (by rw [hs]; exact hm) (fun w' h => hno w' (by simp [h]))
      have h2 := hkeep m hm (hno w (by simp))
      simpa [contentAfter, h2] using h1

-- two writes into one array: the second works on what the first left; cell (0, 0) is never addressed
example : session [[0, 1], [0, 1, 2]] (⟨[2, 3], [0, 0, 0, 0, 0, 0]⟩ : NDArr Rat)
      [([(0, 1)], .arr ⟨[3], [1, 2, 3]⟩), ([(1, 3/2), (0, 1)], .scalar 7), ([(0, 5)], .scalar 9)]
    = [.ok ⟨[2, 3], [0, 0, 0, 1, 2, 3]⟩, .ok ⟨[2, 3], [0, 0, 0, 1, 7, 3]⟩, .error .key] := by decide +kernel
example : contentAfter [[0, 1], [0, 1, 2]] (⟨[2, 3], [0, 0, 0, 0, 0, 0]⟩ : NDArr Rat)
      [([(0, 1)], .arr ⟨[3], [1, 2, 3]⟩), ([(1, 3/2), (0, 1)], .scalar 7), ([(0, 5)], .scalar 9)]
    = ⟨[2, 3], [0, 0, 0, 1, 7, 3]⟩ := by decide +kernel

-- non-vacuity: concrete instances (hypotheses satisfiable, both branches taken)
example : rangeCoords 0 1 (1/4) = [0, 1/4, 1/2, 3/4] := by decide +kernel
example : rangeCoords 0 (5/4) 1 = [0] := by decide +kernel            -- upper half-step point dropped
example : rangeCoords (1/2) (1/2) (1/4) = [] := by decide +kernel      -- empty range
example : createRangeDim 0 1 none (some 4) = .ok ⟨[0, 1/4, 1/2, 3/4], 1/4⟩ := by decide +kernel
example : createRangeDim 0 1 none none = .error .invalid := by decide +kernel
example : coordIndex [0, 1, 3] 2 true = .ok 1 := by decide +kernel
example : coordIndex [0, 1, 3] 3 true = .ok 2 := by decide +kernel
example : coordIndex [0, 1, 3] 4 true = .error .key := by decide +kernel
example : coordIndex [0, 1, 3] 4 false = .ok 3 := by decide +kernel
example : coordIndex [0, 1, 3] (-1) false = .ok 0 := by decide +kernel
example : Sorted [0, 1, 3] := by decide +kernel
example : setValueAtPos (⟨[2, 3], [0, 0, 0, 0, 0, 0]⟩ : NDArr Rat) [[0, 1], [0, 1, 2]] [(0, 1)]
    (.arr ⟨[3], [1, 2, 3]⟩) = .ok ⟨[2, 3], [0, 0, 0, 1, 2, 3]⟩ := by decide +kernel
example : setValueAtPos (⟨[2, 3], [0, 0, 0, 0, 0, 0]⟩ : NDArr Rat) [[0, 1], [0, 1, 2]] [(1, 3/2), (0, 0)]
    (.scalar 7) = .ok ⟨[2, 3], [0, 7, 0, 0, 0, 0]⟩ := by decide +kernel
example : rangeKernel 0 1 none (some 4) = .ok ⟨0, 1, 1/4, false, 1/4⟩ := by decide +kernel
example : rangeKernel 0 1 (some (1/3)) none = .ok ⟨0, 1, 1/3, false, 1/3⟩ := by decide +kernel
example : rangeKernel 0 (5/4) (some 1) none = .ok ⟨0, 5/4, 1, true, 1⟩ := by decide +kernel   -- the `[:-1]` branch
example : timeKernel 0 1 none (some 0) = .error .zerodiv := by decide +kernel
example : axisRange [0, 1, 3] = some (0, 3) := by decide +kernel
example : indexKernel 0 3 2 true = .ok (.bound true 2 (-1)) := by decide +kernel
example : setKernel [(0, 1), (0, 2)] [(1, 3/2), (0, 0)]
    = .ok [some (0, .bound true 0 (-1)), some (1, .bound true (3/2) (-1))] := by decide +kernel
example : setKernel [(0, 1), (0, 2)] [(1, 5/2)] = .error .key := by decide +kernel
example : [[0, 1], [0, 1, 2]].map axisRange = [(0, 1), ((0 : Rat), (2 : Rat))].map some := by decide +kernel
-- `C16_count_robust`: arange pushed one point too far (n = 3, four points, the last a hair below stop) …
example : arangeContract 0 (1/10) (1/1000) (1/4) 3 [0, 1/10, 1/5, 2999/10000] = true := by decide +kernel
example : dropTrailingAt (1/4) [0, 1/10, 1/5, 2999/10000] = [0, 1/10, 1/5] := by decide +kernel
-- … and not pushed (three points)
example : arangeContract 0 (1/10) (1/1000) (1/4) 3 [0, 1/10, 2001/10000] = true := by decide +kernel
example : dropTrailingAt (1/4) [0, 1/10, 2001/10000] = [0, 1/10, 2001/10000] := by decide +kernel

end SE.Proofs.C16
