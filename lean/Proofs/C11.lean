/-
  C11 — Buffering grows a geometry and never leaves the valid domain.
  Property theorems only.

  `SE.Buf.bufferGeometry lib` models `buffer_geometry`; `lib` is the shapely pipeline
  (`buffer_shapely_geometry`), not modelled.  Time stamps, intervals and boxes are treated in
  full (`C11_exact` … `C11_negative_rejected`); for the other six types `C11_shapely_partial`
  says what follows once the real result passes the validator and the bounds-level
  post-condition, both of which the check evaluates on every observed result.
-/
import SoundeventModel.Buffer
import SoundeventModel.Bounds
import Proofs.Lemmas.Bounds
namespace SE.Proofs.C11
open SE SE.Buf

private theorem maxf_nonneg : (0 : Rat) ≤ MAXF := by decide +kernel

/-- a negative buffer is rejected, for every geometry type, before anything else happens -/
theorem C11_negative_rejected (lib : Geom → Rat → Rat → Option Geom) (g : Geom) (tb fb : Rat)
    (h : tb < 0 ∨ fb < 0) : bufferGeometry lib g tb fb = none := by
  simp [bufferGeometry, h]

/-- … and only then: with non-negative buffers a valid time stamp / interval / box is never
    rejected (see `C11_exact`), and the other types are handed to the shapely pipeline -/
theorem C11_dispatch (lib : Geom → Rat → Rat → Option Geom) (g : Geom) (tb fb : Rat)
    (h1 : 0 ≤ tb) (h2 : 0 ≤ fb) (hc : closedForm g = false) :
    bufferGeometry lib g tb fb = lib g tb fb := by
  have : ¬ (tb < 0 ∨ fb < 0) := by grind
  cases g <;> simp_all [bufferGeometry, closedForm]

/-- for time stamps, intervals and boxes the result is exactly the interval / box widened by the
    buffers, clamped at time 0, frequency 0 and `MAXF` -/
theorem C11_exact (lib : Geom → Rat → Rat → Option Geom) (tb fb : Rat) (h1 : 0 ≤ tb) (h2 : 0 ≤ fb) :
    (∀ t, valid (.timeStamp t) = true →
      bufferGeometry lib (.timeStamp t) tb fb = some (.timeInterval (max (t - tb) 0) (t + tb))) ∧
    (∀ s e, valid (.timeInterval s e) = true →
      bufferGeometry lib (.timeInterval s e) tb fb = some (.timeInterval (max (s - tb) 0) (e + tb))) ∧
    (∀ s l e h, valid (.boundingBox s l e h) = true →
      bufferGeometry lib (.boundingBox s l e h) tb fb =
        some (.boundingBox (max (s - tb) 0) (max (l - fb) 0) (e + tb) (min (h + fb) MAXF))) := by
  have hM := maxf_nonneg
  have hg : ¬ (tb < 0 ∨ fb < 0) := by grind
  refine ⟨?_, ?_, ?_⟩
  · intro t hv
    simp only [valid, okTime, decide_eq_true_eq] at hv
    simp only [bufferGeometry, hg, if_false, bufferTS, mkInterval]
    rw [if_neg (by grind), if_neg (by grind)]
  · intro s e hv
    simp only [valid, okTime, Bool.and_eq_true, decide_eq_true_eq] at hv
    simp only [bufferGeometry, hg, if_false, bufferTI, mkInterval]
    rw [if_neg (by grind), if_neg (by grind)]
  · intro s l e h hv
    simp only [valid, okPt, Bool.and_eq_true, decide_eq_true_eq] at hv
    have c1 : ¬ (max (s - tb) 0 < 0) := by grind
    have c2 : ¬ (max (l - fb) 0 < 0 ∨ max (l - fb) 0 > MAXF) := by grind
    have c3 : ¬ (e + tb < 0) := by grind
    have c4 : ¬ (min (h + fb) MAXF < 0 ∨ min (h + fb) MAXF > MAXF) := by grind
    have c5 : ¬ (max (s - tb) 0 > e + tb) := by grind
    have c6 : ¬ (max (l - fb) 0 > min (h + fb) MAXF) := by grind
    simp only [bufferGeometry, hg, if_false, bufferBB, mkBox, c1, c2, c3, c4, c5, c6]

/-- the closed forms never leave the valid domain: the result is again a valid geometry -/
theorem C11_valid (lib : Geom → Rat → Rat → Option Geom) (g : Geom) (tb fb : Rat)
    (h1 : 0 ≤ tb) (h2 : 0 ≤ fb) (hc : closedForm g = true) (hv : valid g = true) :
    ∃ r, bufferGeometry lib g tb fb = some r ∧ valid r = true := by
  have hM := maxf_nonneg
  obtain ⟨e1, e2, e3⟩ := C11_exact lib tb fb h1 h2
  cases g with
  | timeStamp t =>
    refine ⟨_, e1 t hv, ?_⟩
    simp only [valid, okTime, decide_eq_true_eq] at hv
    simp only [valid, okTime, Bool.and_eq_true, decide_eq_true_eq]; grind
  | timeInterval s e =>
    refine ⟨_, e2 s e hv, ?_⟩
    simp only [valid, okTime, Bool.and_eq_true, decide_eq_true_eq] at hv
    simp only [valid, okTime, Bool.and_eq_true, decide_eq_true_eq]; grind
  | boundingBox s l e h =>
    refine ⟨_, e3 s l e h hv, ?_⟩
    simp only [valid, okPt, Bool.and_eq_true, decide_eq_true_eq] at hv
    simp only [valid, okPt, Bool.and_eq_true, decide_eq_true_eq]; grind
  | _ => simp [closedForm] at hc

/-- the result contains the original, as sets of (time, frequency) points, and lies inside the
    valid domain -/
theorem C11_contains (lib : Geom → Rat → Rat → Option Geom) (g r : Geom) (tb fb : Rat)
    (h1 : 0 ≤ tb) (h2 : 0 ≤ fb) (hc : closedForm g = true) (hv : valid g = true)
    (hr : bufferGeometry lib g tb fb = some r) :
    (∀ p, mem p g → mem p r) ∧ (∀ p, mem p r → inDomain p) := by
  have hM := maxf_nonneg
  obtain ⟨e1, e2, e3⟩ := C11_exact lib tb fb h1 h2
  cases g with
  | timeStamp t =>
    rw [e1 t hv] at hr; obtain rfl := Option.some.inj hr
    simp only [valid, okTime, decide_eq_true_eq] at hv
    constructor <;> intro p hp <;> simp only [mem, inDomain] at * <;> grind
  | timeInterval s e =>
    rw [e2 s e hv] at hr; obtain rfl := Option.some.inj hr
    simp only [valid, okTime, Bool.and_eq_true, decide_eq_true_eq] at hv
    constructor <;> intro p hp <;> simp only [mem, inDomain] at * <;> grind
  | boundingBox s l e h =>
    rw [e3 s l e h hv] at hr; obtain rfl := Option.some.inj hr
    simp only [valid, okPt, Bool.and_eq_true, decide_eq_true_eq] at hv
    constructor <;> intro p hp <;> simp only [mem, inDomain] at * <;> grind
  | _ => simp [closedForm] at hc

/-- the result is *all* of the widened original inside the domain: a point of the domain lies in
    the result iff it is within the buffers of the original's extent (so nothing is lost at the
    edges and nothing beyond the buffers is added) -/
theorem C11_result_is_widened_extent (lib : Geom → Rat → Rat → Option Geom) (g r : Geom) (b : Bounds)
    (tb fb : Rat) (h1 : 0 ≤ tb) (h2 : 0 ≤ fb) (hc : closedForm g = true) (hv : valid g = true)
    (hb : g.bounds = some b) (hr : bufferGeometry lib g tb fb = some r) (p : Pt) (hp : inDomain p) :
    mem p r ↔ (b.st - tb ≤ p.1 ∧ p.1 ≤ b.en + tb ∧
      (match g with
       | .boundingBox .. => b.lo - fb ≤ p.2 ∧ p.2 ≤ b.hi + fb
       | _ => True)) := by
  have hM := maxf_nonneg
  obtain ⟨e1, e2, e3⟩ := C11_exact lib tb fb h1 h2
  cases g with
  | timeStamp t =>
    rw [e1 t hv] at hr; obtain rfl := Option.some.inj hr
    simp only [Geom.bounds, Geom.boundPts, ptsBounds, List.foldl, Option.some.injEq] at hb
    subst hb
    simp only [valid, okTime, decide_eq_true_eq] at hv
    simp only [mem, inDomain] at *; grind
  | timeInterval s e =>
    rw [e2 s e hv] at hr; obtain rfl := Option.some.inj hr
    simp only [Geom.bounds, Geom.boundPts, ptsBounds, List.foldl, Option.some.injEq] at hb
    subst hb
    simp only [valid, okTime, Bool.and_eq_true, decide_eq_true_eq] at hv
    simp only [mem, inDomain] at *; grind
  | boundingBox s l e h =>
    rw [e3 s l e h hv] at hr; obtain rfl := Option.some.inj hr
    simp only [Geom.bounds, Geom.boundPts, ptsBounds, List.foldl, Option.some.injEq] at hb
    subst hb
    simp only [valid, okPt, Bool.and_eq_true, decide_eq_true_eq] at hv
    simp only [mem, inDomain] at *; grind
  | _ => simp [closedForm] at hc

/-- the bounds of the result extend the original's: every side moved by at least the buffer
    or reached the edge of the domain (`bufferPost`, the same predicate the run-time monitor
    evaluates on shapely's results) — here they move by *exactly* the buffer or to the edge -/
theorem C11_bounds_extend (lib : Geom → Rat → Rat → Option Geom) (g r : Geom) (b : Bounds) (tb fb : Rat)
    (h1 : 0 ≤ tb) (h2 : 0 ≤ fb) (hc : closedForm g = true) (hv : valid g = true)
    (hb : g.bounds = some b) (hr : bufferGeometry lib g tb fb = some r) :
    ∃ rb, r.bounds = some rb ∧ bufferPost b tb fb rb = true ∧
      rb.st = max (b.st - tb) 0 ∧ rb.en = b.en + tb ∧
      (match g with
       | .boundingBox .. => rb.lo = max (b.lo - fb) 0 ∧ rb.hi = min (b.hi + fb) MAXF
       | _ => rb.lo = 0 ∧ rb.hi = MAXF) := by
  have hM := maxf_nonneg
  obtain ⟨e1, e2, e3⟩ := C11_exact lib tb fb h1 h2
  cases g with
  | timeStamp t =>
    rw [e1 t hv] at hr; obtain rfl := Option.some.inj hr
    simp only [Geom.bounds, Geom.boundPts, ptsBounds, List.foldl, Option.some.injEq] at hb
    subst hb
    simp only [valid, okTime, decide_eq_true_eq] at hv
    refine ⟨⟨max (t - tb) 0, 0, t + tb, MAXF⟩, ?_, ?_, ?_⟩
    · simp only [Geom.bounds, Geom.boundPts, ptsBounds, List.foldl, Option.some.injEq, Bounds.mk.injEq]; grind
    · simp only [bufferPost, bufferPostTol, slack, Bool.and_eq_true, decide_eq_true_eq]; grind
    · grind
  | timeInterval s e =>
    rw [e2 s e hv] at hr; obtain rfl := Option.some.inj hr
    simp only [Geom.bounds, Geom.boundPts, ptsBounds, List.foldl, Option.some.injEq] at hb
    subst hb
    simp only [valid, okTime, Bool.and_eq_true, decide_eq_true_eq] at hv
    refine ⟨⟨max (s - tb) 0, 0, e + tb, MAXF⟩, ?_, ?_, ?_⟩
    · simp only [Geom.bounds, Geom.boundPts, ptsBounds, List.foldl, Option.some.injEq, Bounds.mk.injEq]; grind
    · simp only [bufferPost, bufferPostTol, slack, Bool.and_eq_true, decide_eq_true_eq]; grind
    · grind
  | boundingBox s l e h =>
    rw [e3 s l e h hv] at hr; obtain rfl := Option.some.inj hr
    simp only [Geom.bounds, Geom.boundPts, ptsBounds, List.foldl, Option.some.injEq] at hb
    subst hb
    simp only [valid, okPt, Bool.and_eq_true, decide_eq_true_eq] at hv
    refine ⟨⟨max (s - tb) 0, max (l - fb) 0, e + tb, min (h + fb) MAXF⟩, ?_, ?_, ?_⟩
    · simp only [Geom.bounds, Geom.boundPts, ptsBounds, List.foldl, Option.some.injEq, Bounds.mk.injEq]; grind
    · simp only [bufferPost, bufferPostTol, slack, Bool.and_eq_true, decide_eq_true_eq]; grind
    · grind
  | _ => simp [closedForm] at hc

/-- larger buffers give supersets -/
theorem C11_monotone (lib : Geom → Rat → Rat → Option Geom) (g r r' : Geom) (tb fb tb' fb' : Rat)
    (h1 : 0 ≤ tb) (h2 : 0 ≤ fb) (ht : tb ≤ tb') (hf : fb ≤ fb')
    (hc : closedForm g = true) (hv : valid g = true)
    (hr : bufferGeometry lib g tb fb = some r) (hr' : bufferGeometry lib g tb' fb' = some r') :
    ∀ p, mem p r → mem p r' := by
  have hM := maxf_nonneg
  obtain ⟨e1, e2, e3⟩ := C11_exact lib tb fb h1 h2
  obtain ⟨e1', e2', e3'⟩ := C11_exact lib tb' fb' (by grind) (by grind)
  cases g with
  | timeStamp t =>
    rw [e1 t hv] at hr; obtain rfl := Option.some.inj hr; rw [e1' t hv] at hr'; obtain rfl := Option.some.inj hr'
    clear e1 e2 e3 e1' e2' e3'
    simp only [valid, okTime, decide_eq_true_eq] at hv
    intro p hp; simp only [mem] at *; grind
  | timeInterval s e =>
    rw [e2 s e hv] at hr; obtain rfl := Option.some.inj hr; rw [e2' s e hv] at hr'; obtain rfl := Option.some.inj hr'
    clear e1 e2 e3 e1' e2' e3'
    simp only [valid, okTime, Bool.and_eq_true, decide_eq_true_eq] at hv
    intro p hp; simp only [mem] at *; grind
  | boundingBox s l e h =>
    rw [e3 s l e h hv] at hr; obtain rfl := Option.some.inj hr; rw [e3' s l e h hv] at hr'; obtain rfl := Option.some.inj hr'
    clear e1 e2 e3 e1' e2' e3'
    simp only [valid, okPt, Bool.and_eq_true, decide_eq_true_eq] at hv
    intro p hp; simp only [mem] at *; grind
  | _ => simp [closedForm] at hc

/-- a zero buffer changes nothing (time stamps become the degenerate interval `[t, t]`) -/
theorem C11_zero_buffer (lib : Geom → Rat → Rat → Option Geom) (g r : Geom)
    (hc : closedForm g = true) (hv : valid g = true) (hr : bufferGeometry lib g 0 0 = some r) :
    ∀ p, mem p r ↔ mem p g := by
  have hM := maxf_nonneg
  obtain ⟨e1, e2, e3⟩ := C11_exact lib 0 0 (Rat.le_refl) (Rat.le_refl)
  cases g with
  | timeStamp t =>
    rw [e1 t hv] at hr; obtain rfl := Option.some.inj hr
    simp only [valid, okTime, decide_eq_true_eq] at hv
    intro p; simp only [mem]; grind
  | timeInterval s e =>
    rw [e2 s e hv] at hr; obtain rfl := Option.some.inj hr
    simp only [valid, okTime, Bool.and_eq_true, decide_eq_true_eq] at hv
    intro p; simp only [mem]; grind
  | boundingBox s l e h =>
    rw [e3 s l e h hv] at hr; obtain rfl := Option.some.inj hr
    simp only [valid, okPt, Bool.and_eq_true, decide_eq_true_eq] at hv
    intro p; simp only [mem]; grind
  | _ => simp [closedForm] at hc

/-
  Full statement for the six types buffered by shapely (NOT proved: GEOS buffering and the float
  scale–buffer–unscale–clip pipeline are not modelled):

    valid g → 0 ≤ tb → 0 ≤ fb → closedForm g = false →
      ∃ r, lib g tb fb = some r ∧ valid r ∧ g ⊆ r ∧ bufferPost (bounds g) tb fb (bounds r) ∧
           (tb ≤ tb' → fb ≤ fb' → r ⊆ lib g tb' fb')

  Proved part: the dispatch hands exactly these types to the pipeline with the buffers
  unchanged, and *if* the pipeline's result passes the validator and the bounds-level
  post-condition (both evaluated by the check on every observed result) then every point of the
  result is inside the domain, the result's bounds contain the original's, and every side moved
  outwards by at least the buffer or sits on the edge of the domain.  Containment of the
  polygonal result and monotonicity are asked of shapely (`covers`) by the harness.
-/
theorem C11_shapely_partial (lib : Geom → Rat → Rat → Option Geom) (g r : Geom) (b rb : Bounds)
    (tb fb : Rat) (h1 : 0 ≤ tb) (h2 : 0 ≤ fb) (hc : closedForm g = false) (hv : valid g = true)
    (hb : g.bounds = some b) (hr : bufferGeometry lib g tb fb = some r)
    (hpoly : (∃ rings, r = .polygon rings) ∨ (∃ ps, r = .multiPolygon ps))
    (hvr : valid r = true) (hrb : r.bounds = some rb) (hpost : bufferPost b tb fb rb = true) :
    lib g tb fb = some r ∧
    (∀ p ∈ polyPts r, inDomain p) ∧
    (rb.st ≤ b.st ∧ rb.lo ≤ b.lo ∧ b.en ≤ rb.en ∧ b.hi ≤ rb.hi) ∧
    (rb.st ≤ b.st - tb ∨ rb.st = 0) ∧ (rb.lo ≤ b.lo - fb ∨ rb.lo = 0) ∧
    b.en + tb ≤ rb.en ∧ (b.hi + fb ≤ rb.hi ∨ rb.hi = MAXF) := by
  have hM := maxf_nonneg
  have hd := C11_dispatch lib g tb fb h1 h2 hc
  refine ⟨by rw [← hd]; exact hr, ?_, ?_⟩
  · -- every vertex of the validated result is inside the domain
    intro p hp
    rcases hpoly with ⟨rings, rfl⟩ | ⟨ps, rfl⟩
    · simp only [valid, okPoly, Bool.and_eq_true, List.all_eq_true] at hvr
      simp only [polyPts, List.mem_flatten] at hp
      obtain ⟨ring, hring, hpr⟩ := hp
      have := hvr.2 ring hring
      simp only [okRing, Bool.and_eq_true, List.all_eq_true] at this
      have := this.2 p hpr
      simpa [okPt, inDomain, and_assoc] using this
    · simp only [valid, Bool.and_eq_true, List.all_eq_true] at hvr
      simp only [polyPts, List.mem_flatten, List.mem_map] at hp
      obtain ⟨l, ⟨rings, hrs, rfl⟩, hpl⟩ := hp
      obtain ⟨ring, hring, hpr⟩ := List.mem_flatten.mp hpl
      have := hvr.2 rings hrs
      simp only [okPoly, Bool.and_eq_true, List.all_eq_true] at this
      have := this.2 ring hring
      simp only [okRing, Bool.and_eq_true, List.all_eq_true] at this
      have := this.2 p hpr
      simpa [okPt, inDomain, and_assoc] using this
  · -- the original is valid, so its own bounds are inside the domain and clamping cuts nothing
    have hbd : 0 ≤ b.st ∧ 0 ≤ b.lo ∧ b.hi ≤ MAXF := by
      have hall : ∀ p ∈ g.boundPts, 0 ≤ p.1 ∧ 0 ≤ p.2 ∧ p.2 ≤ MAXF := by
        intro p hp
        cases g with
        | timeStamp t => simp [closedForm] at hc
        | timeInterval s e => simp [closedForm] at hc
        | boundingBox s l e h => simp [closedForm] at hc
        | point t f =>
          simp only [Geom.boundPts, List.mem_singleton] at hp; subst hp
          simpa [valid, okPt, and_assoc] using hv
        | lineString pts =>
          simp only [valid, Bool.and_eq_true, List.all_eq_true] at hv
          simpa [okPt, and_assoc] using hv.1.2 p hp
        | multiPoint pts =>
          simp only [valid, Bool.and_eq_true, List.all_eq_true] at hv
          simpa [okPt, and_assoc] using hv.2 p hp
        | multiLineString ls =>
          simp only [valid, Bool.and_eq_true, List.all_eq_true] at hv
          simp only [Geom.boundPts, List.mem_flatten] at hp
          obtain ⟨l, hl, hpl⟩ := hp
          simpa [okPt, and_assoc] using (hv.2 l hl).1.2 p hpl
        | polygon rings =>
          simp only [valid, okPoly, Bool.and_eq_true, List.all_eq_true] at hv
          simp only [Geom.boundPts] at hp
          cases rings with
          | nil => simp at hp
          | cons shell holes =>
            simp only [List.headD_cons] at hp
            have := hv.2 shell (by simp)
            simp only [okRing, Bool.and_eq_true, List.all_eq_true] at this
            simpa [okPt, and_assoc] using this.2 p hp
        | multiPolygon ps =>
          simp only [valid, Bool.and_eq_true, List.all_eq_true] at hv
          simp only [Geom.boundPts, List.mem_flatten, List.mem_map] at hp
          obtain ⟨l, ⟨rings, hrs, rfl⟩, hpl⟩ := hp
          have := hv.2 rings hrs
          simp only [okPoly, Bool.and_eq_true, List.all_eq_true] at this
          cases rings with
          | nil => simp at hpl
          | cons shell holes =>
            simp only [List.headD_cons] at hpl
            have := this.2 shell (by simp)
            simp only [okRing, Bool.and_eq_true, List.all_eq_true] at this
            simpa [okPt, and_assoc] using this.2 p hpl
      obtain ⟨_, ⟨p1, hp1, e1⟩, ⟨p2, hp2, e2⟩, _, ⟨p4, hp4, e4⟩⟩ :=
        SE.Proofs.Lemmas.Bounds.ptsBounds_isBoundsOf _ _ hb
      have a1 := hall p1 hp1; have a2 := hall p2 hp2; have a4 := hall p4 hp4
      grind
    simp only [bufferPost, bufferPostTol, slack, Bool.and_eq_true, decide_eq_true_eq] at hpost
    grind

-- non-vacuity: concrete instances at the edges of the domain, buffers 0 and larger than the domain
example : bufferGeometry (fun _ _ _ => none) (.timeStamp 1) 3 7 = some (.timeInterval 0 4) := by decide +kernel
example : bufferGeometry (fun _ _ _ => none) (.timeInterval 0 2) 0 0 = some (.timeInterval 0 2) := by decide +kernel
example : bufferGeometry (fun _ _ _ => none) (.boundingBox 1 10 2 4999990) 5 100
    = some (.boundingBox 0 0 7 5000000) := by decide +kernel
example : bufferGeometry (fun _ _ _ => none) (.boundingBox 1 10 2 20) 0 6000000
    = some (.boundingBox 1 0 2 5000000) := by decide +kernel
example : bufferGeometry (fun _ _ _ => none) (.boundingBox 1 10 2 20) (-1) 0 = none := by decide +kernel
example : valid (.boundingBox 1 10 2 20) = true ∧ closedForm (.boundingBox 1 10 2 20) = true := by decide +kernel
example : valid (.polygon [[(0, 0), (3, 0), (3, 5000000), (0, 0)]]) = true := by decide +kernel
example : bufferPost ⟨1, 10, 2, 20⟩ 5 100 ⟨0, 0, 7, 120⟩ = true := by decide +kernel
example : bufferPost ⟨1, 10, 2, 20⟩ 5 100 ⟨0, 0, 13/2, 120⟩ = false := by decide +kernel
-- the hypotheses of `C11_shapely_partial` are satisfiable: a point buffered to a box-shaped polygon
example : valid (.point 1 10) = true ∧ closedForm (.point 1 10) = false ∧
    valid (.polygon [[(0, 0), (6, 0), (6, 110), (0, 110), (0, 0)]]) = true ∧
    (Geom.polygon [[(0, 0), (6, 0), (6, 110), (0, 110), (0, 0)]]).bounds = some ⟨0, 0, 6, 110⟩ ∧
    bufferPost ⟨1, 10, 1, 10⟩ 5 100 ⟨0, 0, 6, 110⟩ = true := by decide +kernel

end SE.Proofs.C11
