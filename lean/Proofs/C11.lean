/-
  C11 — Buffering grows a geometry and never leaves the valid domain.
  Property theorems only.

  `SE.Buf.bufferGeometry lib` models `buffer_geometry`; `lib` is the shapely pipeline
  (`buffer_shapely_geometry`), not modelled.  Time stamps, intervals and boxes are treated in
  full (`C11_exact` … `C11_negative_rejected`); for the other six types `C11_shapely_partial`
  says what follows once the real result passes the validator and the bounds-level
  post-condition, both of which the check evaluates on every observed result.
-/
import SoundeventModel.Buffer
import SoundeventModel.Bounds
import Proofs.Lemmas.Bounds
import Proofs.Lemmas.Buffer
namespace SE.Proofs.C11
open SE SE.Buf SE.Proofs.Lemmas.Buffer

private theorem maxf_nonneg : (0 : Rat) ≤ MAXF := by decide +kernel

/-- a negative buffer is rejected, for every geometry type, before anything else happens -/
theorem C11_negative_rejected (lib : Geom → Rat → Rat → Option Geom) (g : Geom) (tb fb : Rat)
    (h : tb < 0 ∨ fb < 0) : bufferGeometry lib g tb fb = none := by
  simp [bufferGeometry, h]

/-- … and only then: with non-negative buffers a valid time stamp / interval / box is never
    rejected (see `C11_exact`), and the other types are handed to the shapely pipeline -/
theorem C11_dispatch (lib : Geom → Rat → Rat → Option Geom) (g : Geom) (tb fb : Rat)
    (h1 : 0 ≤ tb) (h2 : 0 ≤ fb) (hc : closedForm g = false) :
    bufferGeometry lib g tb fb = lib g tb fb := by
  have : ¬ (tb < 0 ∨ fb < 0) := by grind
  cases g <;> simp_all [bufferGeometry, closedForm]

/-- for time stamps, intervals and boxes the result is exactly the interval / box widened by the
    buffers, clamped at time 0, frequency 0 and `MAXF` -/
theorem C11_exact (lib : Geom → Rat → Rat → Option Geom) (tb fb : Rat) (h1 : 0 ≤ tb) (h2 : 0 ≤ fb) :
    (∀ t, valid (.timeStamp t) = true →
      bufferGeometry lib (.timeStamp t) tb fb = some (.timeInterval (max (t - tb) 0) (t + tb))) ∧
    (∀ s e, valid (.timeInterval s e) = true →
      bufferGeometry lib (.timeInterval s e) tb fb = some (.timeInterval (max (s - tb) 0) (e + tb))) ∧
    (∀ s l e h, valid (.boundingBox s l e h) = true →
      bufferGeometry lib (.boundingBox s l e h) tb fb =
        some (.boundingBox (max (s - tb) 0) (max (l - fb) 0) (e + tb) (min (h + fb) MAXF))) := by
  have hM := maxf_nonneg
  have hg : ¬ (tb < 0 ∨ fb < 0) := by grind
  refine ⟨?_, ?_, ?_⟩
  · intro t hv
    simp only [valid, okTime, decide_eq_true_eq] at hv
    simp only [bufferGeometry, hg, if_false, bufferTS, mkInterval]
    rw [if_neg (by grind), if_neg (by grind)]
  · intro s e hv
    simp only [valid, okTime, Bool.and_eq_true, decide_eq_true_eq] at hv
    simp only [bufferGeometry, hg, if_false, bufferTI, mkInterval]
    rw [if_neg (by grind), if_neg (by grind)]
  · intro s l e h hv
    simp only [valid, okPt, Bool.and_eq_true, decide_eq_true_eq] at hv
    have c1 : ¬ (max (s - tb) 0 < 0) := by grind
    have c2 : ¬ (max (l - fb) 0 < 0 ∨ max (l - fb) 0 > MAXF) := by grind
    have c3 : ¬ (e + tb < 0) := by grind
    have c4 : ¬ (min (h + fb) MAXF < 0 ∨ min (h + fb) MAXF > MAXF) := by grind
    have c5 : ¬ (max (s - tb) 0 > e + tb) := by grind
    have c6 : ¬ (max (l - fb) 0 > min (h + fb) MAXF) := by grind
    simp only [bufferGeometry, hg, if_false, bufferBB, mkBox, c1, c2, c3, c4, c5, c6]

/-- the closed forms never leave the valid domain: the result is again a valid geometry -/
theorem C11_valid (lib : Geom → Rat → Rat → Option Geom) (g : Geom) (tb fb : Rat)
    (h1 : 0 ≤ tb) (h2 : 0 ≤ fb) (hc : closedForm g = true) (hv : valid g = true) :
    ∃ r, bufferGeometry lib g tb fb = some r ∧ valid r = true := by
  have hM := maxf_nonneg
  obtain ⟨e1, e2, e3⟩ := C11_exact lib tb fb h1 h2
  cases g with
  | timeStamp t =>
    refine ⟨_, e1 t hv, ?_⟩
    simp only [valid, okTime, decide_eq_true_eq] at hv
    simp only [valid, okTime, Bool.and_eq_true, decide_eq_true_eq]; grind
  | timeInterval s e =>
    refine ⟨_, e2 s e hv, ?_⟩
    simp only [valid, okTime, Bool.and_eq_true, decide_eq_true_eq] at hv
    simp only [valid, okTime, Bool.and_eq_true, decide_eq_true_eq]; grind
  | boundingBox s l e h =>
    refine ⟨_, e3 s l e h hv, ?_⟩
    simp only [valid, okPt, Bool.and_eq_true, decide_eq_true_eq] at hv
    simp only [valid, okPt, Bool.and_eq_true, decide_eq_true_eq]; grind
  | _ => simp [closedForm] at hc

/-- the result contains the original, as sets of (time, frequency) points, and lies inside the
    valid domain -/
theorem C11_contains (lib : Geom → Rat → Rat → Option Geom) (g r : Geom) (tb fb : Rat)
    (h1 : 0 ≤ tb) (h2 : 0 ≤ fb) (hc : closedForm g = true) (hv : valid g = true)
    (hr : bufferGeometry lib g tb fb = some r) :
    (∀ p, mem p g → mem p r) ∧ (∀ p, mem p r → inDomain p) := by
  have hM := maxf_nonneg
  obtain ⟨e1, e2, e3⟩ := C11_exact lib tb fb h1 h2
  cases g with
  | timeStamp t =>
    rw [e1 t hv] at hr; obtain rfl := Option.some.inj hr
    simp only [valid, okTime, decide_eq_true_eq] at hv
    constructor <;> intro p hp <;> simp only [mem, inDomain] at * <;> grind
  | timeInterval s e =>
    rw [e2 s e hv] at hr; obtain rfl := Option.some.inj hr
    simp only [valid, okTime, Bool.and_eq_true, decide_eq_true_eq] at hv
    constructor <;> intro p hp <;> simp only [mem, inDomain] at * <;> grind
  | boundingBox s l e h =>
    rw [e3 s l e h hv] at hr; obtain rfl := Option.some.inj hr
    simp only [valid, okPt, Bool.and_eq_true, decide_eq_true_eq] at hv
    constructor <;> intro p hp <;> simp only [mem, inDomain] at * <;> grind
  | _ => simp [closedForm] at hc

/-- the result is *all* of the widened original inside the domain: a point of the domain lies in
    the result iff it is within the buffers of the original's extent (so nothing is lost at the
    edges and nothing beyond the buffers is added) -/
theorem C11_result_is_widened_extent (lib : Geom → Rat → Rat → Option Geom) (g r : Geom) (b : Bounds)
    (tb fb : Rat) (h1 : 0 ≤ tb) (h2 : 0 ≤ fb) (hc : closedForm g = true) (hv : valid g = true)
    (hb : g.bounds = some b) (hr : bufferGeometry lib g tb fb = some r) (p : Pt) (hp : inDomain p) :
    mem p r ↔ (b.st - tb ≤ p.1 ∧ p.1 ≤ b.en + tb ∧
      (match g with
       | .boundingBox .. => b.lo - fb ≤ p.2 ∧ p.2 ≤ b.hi + fb
       | _ => True)) := by
  have hM := maxf_nonneg
  obtain ⟨e1, e2, e3⟩ := C11_exact lib tb fb h1 h2
  cases g with
  | timeStamp t =>
    rw [e1 t hv] at hr; obtain rfl := Option.some.inj hr
    simp only [Geom.bounds, Geom.boundPts, ptsBounds, List.foldl, Option.some.injEq] at hb
    subst hb
    simp only [valid, okTime, decide_eq_true_eq] at hv
    simp only [mem, inDomain] at *; grind
  | timeInterval s e =>
    rw [e2 s e hv] at hr; obtain rfl := Option.some.inj hr
    simp only [Geom.bounds, Geom.boundPts, ptsBounds, List.foldl, Option.some.injEq] at hb
    subst hb
    simp only [valid, okTime, Bool.and_eq_true, decide_eq_true_eq] at hv
    simp only [mem, inDomain] at *; grind
  | boundingBox s l e h =>
    rw [e3 s l e h hv] at hr; obtain rfl := Option.some.inj hr
    simp only [Geom.bounds, Geom.boundPts, ptsBounds, List.foldl, Option.some.injEq] at hb
    subst hb
    simp only [valid, okPt, Bool.and_eq_true, decide_eq_true_eq] at hv
    simp only [mem, inDomain] at *; grind
  | _ => simp [closedForm] at hc

/-- the bounds of the result extend the original's: every side moved by at least the buffer
    or reached the edge of the domain (`bufferPost`, the same predicate the run-time monitor
    evaluates on shapely's results) — here they move by *exactly* the buffer or to the edge -/
theorem C11_bounds_extend (lib : Geom → Rat → Rat → Option Geom) (g r : Geom) (b : Bounds) (tb fb : Rat)
    (h1 : 0 ≤ tb) (h2 : 0 ≤ fb) (hc : closedForm g = true) (hv : valid g = true)
    (hb : g.bounds = some b) (hr : bufferGeometry lib g tb fb = some r) :
    ∃ rb, r.bounds = some rb ∧ bufferPost b tb fb rb = true ∧
      rb.st = max (b.st - tb) 0 ∧ rb.en = b.en + tb ∧
      (match g with
       | .boundingBox .. => rb.lo = max (b.lo - fb) 0 ∧ rb.hi = min (b.hi + fb) MAXF
       | _ => rb.lo = 0 ∧ rb.hi = MAXF) := by
  have hM := maxf_nonneg
  obtain ⟨e1, e2, e3⟩ := C11_exact lib tb fb h1 h2
  cases g with
  | timeStamp t =>
    rw [e1 t hv] at hr; obtain rfl := Option.some.inj hr
    simp only [Geom.bounds, Geom.boundPts, ptsBounds, List.foldl, Option.some.injEq] at hb
    subst hb
    simp only [valid, okTime, decide_eq_true_eq] at hv
    refine ⟨⟨max (t - tb) 0, 0, t + tb, MAXF⟩, ?_, ?_, ?_⟩
    · simp only [Geom.bounds, Geom.boundPts, ptsBounds, List.foldl, Option.some.injEq, Bounds.mk.injEq]; grind
    · simp only [bufferPost, bufferPostTol, slack, Bool.and_eq_true, decide_eq_true_eq]; grind
    · grind
  | timeInterval s e =>
    rw [e2 s e hv] at hr; obtain rfl := Option.some.inj hr
    simp only [Geom.bounds, Geom.boundPts, ptsBounds, List.foldl, Option.some.injEq] at hb
    subst hb
    simp only [valid, okTime, Bool.and_eq_true, decide_eq_true_eq] at hv
    refine ⟨⟨max (s - tb) 0, 0, e + tb, MAXF⟩, ?_, ?_, ?_⟩
    · simp only [Geom.bounds, Geom.boundPts, ptsBounds, List.foldl, Option.some.injEq, Bounds.mk.injEq]; grind
    · simp only [bufferPost, bufferPostTol, slack, Bool.and_eq_true, decide_eq_true_eq]; grind
    · grind
  | boundingBox s l e h =>
    rw [e3 s l e h hv] at hr; obtain rfl := Option.some.inj hr
    simp only [Geom.bounds, Geom.boundPts, ptsBounds, List.foldl, Option.some.injEq] at hb
    subst hb
    simp only [valid, okPt, Bool.and_eq_true, decide_eq_true_eq] at hv
    refine ⟨⟨max (s - tb) 0, max (l - fb) 0, e + tb, min (h + fb) MAXF⟩, ?_, ?_, ?_⟩
    · simp only [Geom.bounds, Geom.boundPts, ptsBounds, List.foldl, Option.some.injEq, Bounds.mk.injEq]; grind
    · simp only [bufferPost, bufferPostTol, slack, Bool.and_eq_true, decide_eq_true_eq]; grind
    · grind
  | _ => simp [closedForm] at hc

/-- larger buffers give supersets -/
theorem C11_monotone (lib : Geom → Rat → Rat → Option Geom) (g r r' : Geom) (tb fb tb' fb' : Rat)
    (h1 : 0 ≤ tb) (h2 : 0 ≤ fb) (ht : tb ≤ tb') (hf : fb ≤ fb')
    (hc : closedForm g = true) (hv : valid g = true)
    (hr : bufferGeometry lib g tb fb = some r) (hr' : bufferGeometry lib g tb' fb' = some r') :
    ∀ p, mem p r → mem p r' := by
  have hM := maxf_nonneg
  obtain ⟨e1, e2, e3⟩ := C11_exact lib tb fb h1 h2
  obtain ⟨e1', e2', e3'⟩ := C11_exact lib tb' fb' (by grind) (by grind)
  cases g with
  | timeStamp t =>
    rw [e1 t hv] at hr; obtain rfl := Option.some.inj hr; rw [e1' t hv] at hr'; obtain rfl := Option.some.inj hr'
    clear e1 e2 e3 e1' e2' e3'
    simp only [valid, okTime, decide_eq_true_eq] at hv
    intro p hp; simp only [mem] at *; grind
  | timeInterval s e =>
    rw [e2 s e hv] at hr; obtain rfl := Option.some.inj hr; rw [e2' s e hv] at hr'; obtain rfl := Option.some.inj hr'
    clear e1 e2 e3 e1' e2' e3'
    simp only [valid, okTime, Bool.and_eq_true, decide_eq_true_eq] at hv
    intro p hp; simp only [mem] at *; grind
  | boundingBox s l e h =>
    rw [e3 s l e h hv] at hr; obtain rfl := Option.some.inj hr; rw [e3' s l e h hv] at hr'; obtain rfl := Option.some.inj hr'
    clear e1 e2 e3 e1' e2' e3'
    simp only [valid, okPt, Bool.and_eq_true, decide_eq_true_eq] at hv
    intro p hp; simp only [mem] at *; grind
  | _ => simp [closedForm] at hc

/-- a zero buffer changes nothing (time stamps become the degenerate interval `[t, t]`) -/
theorem C11_zero_buffer (lib : Geom → Rat → Rat → Option Geom) (g r : Geom)
    (hc : closedForm g = true) (hv : valid g = true) (hr : bufferGeometry lib g 0 0 = some r) :
    ∀ p, mem p r ↔ mem p g := by
  have hM := maxf_nonneg
  obtain ⟨e1, e2, e3⟩ := C11_exact lib 0 0 (Rat.le_refl) (Rat.le_refl)
  cases g with
  | timeStamp t =>
    rw [e1 t hv] at hr; obtain rfl := Option.some.inj hr
    simp only [valid, okTime, decide_eq_true_eq] at hv
    intro p; simp only [mem]; grind
  | timeInterval s e =>
    rw [e2 s e hv] at hr; obtain rfl := Option.some.inj hr
    simp only [valid, okTime, Bool.and_eq_true, decide_eq_true_eq] at hv
    intro p; simp only [mem]; grind
  | boundingBox s l e h =>
    rw [e3 s l e h hv] at hr; obtain rfl := Option.some.inj hr
    simp only [valid, okPt, Bool.and_eq_true, decide_eq_true_eq] at hv
    intro p; simp only [mem]; grind
  | _ => simp [closedForm] at hc

/-
  Full statement for the six types buffered by shapely (NOT proved: GEOS buffering and the float
  scale–buffer–unscale–clip pipeline are not modelled):

    valid g → 0 ≤ tb → 0 ≤ fb → closedForm g = false →
      ∃ r, lib g tb fb = some r ∧ valid r ∧ g ⊆ r ∧ bufferPost (bounds g) tb fb (bounds r) ∧
           (tb ≤ tb' → fb ≤ fb' → r ⊆ lib g tb' fb')

  Proved part: the dispatch hands exactly these types to the pipeline with the buffers
  unchanged, and *if* the pipeline's result passes the validator and the bounds-level
  post-condition (both evaluated by the check on every observed result) then every point of the
  result is inside the domain, the result's bounds contain the original's, and every side moved
  outwards by at least the buffer or sits on the edge of the domain.  Containment of the
  polygonal result and monotonicity are asked of shapely (`covers`) by the harness.
-/
theorem C11_shapely_partial (lib : Geom → Rat → Rat → Option Geom) (g r : Geom) (b rb : Bounds)
    (tb fb : Rat) (h1 : 0 ≤ tb) (h2 : 0 ≤ fb) (hc : closedForm g = false) (hv : valid g = true)
    (hb : g.bounds = some b) (hr : bufferGeometry lib g tb fb = some r)
    (hpoly : (∃ rings, r = .polygon rings) ∨ (∃ ps, r = .multiPolygon ps))
    (hvr : valid r = true) (hrb : r.bounds = some rb) (hpost : bufferPost b tb fb rb = true) :
    lib g tb fb = some r ∧
    (∀ p ∈ polyPts r, inDomain p) ∧
    (rb.st ≤ b.st ∧ rb.lo ≤ b.lo ∧ b.en ≤ rb.en ∧ b.hi ≤ rb.hi) ∧
    (rb.st ≤ b.st - tb ∨ rb.st = 0) ∧ (rb.lo ≤ b.lo - fb ∨ rb.lo = 0) ∧
    b.en + tb ≤ rb.en ∧ (b.hi + fb ≤ rb.hi ∨ rb.hi = MAXF) := by
  have hM := maxf_nonneg
  have hd := C11_dispatch lib g tb fb h1 h2 hc
  refine ⟨by rw [← hd]; exact hr, ?_, ?_⟩
  · -- every vertex of the validated result is inside the domain
    intro p hp
    rcases hpoly with ⟨rings, rfl⟩ | ⟨ps, rfl⟩
    · simp only [valid, okPoly, Bool.and_eq_true, List.all_eq_true] at hvr
      simp only [polyPts, List.mem_flatten] at hp
      obtain ⟨ring, hring, hpr⟩ := hp
      have := hvr.2 ring hring
      simp only [okRing, Bool.and_eq_true, List.all_eq_true] at this
      have := this.2 p hpr
      simpa [okPt, inDomain, and_assoc] using this
    · simp only [valid, Bool.and_eq_true, List.all_eq_true] at hvr
      simp only [polyPts, List.mem_flatten, List.mem_map] at hp
      obtain ⟨l, ⟨rings, hrs, rfl⟩, hpl⟩ := hp
      obtain ⟨ring, hring, hpr⟩ := List.mem_flatten.mp hpl
      have := hvr.2 rings hrs
      simp only [okPoly, Bool.and_eq_true, List.all_eq_true] at this
      have := this.2 ring hring
      simp only [okRing, Bool.and_eq_true, List.all_eq_true] at this
      have := this.2 p hpr
      simpa [okPt, inDomain, and_assoc] using this
  · -- the original is valid, so its own bounds are inside the domain and clamping cuts nothing
    have hbd : 0 ≤ b.st ∧ 0 ≤ b.lo ∧ b.hi ≤ MAXF := by
      have hall : ∀ p ∈ g.boundPts, 0 ≤ p.1 ∧ 0 ≤ p.2 ∧ p.2 ≤ MAXF := by
        intro p hp
        cases g with
        | timeStamp t => simp [closedForm] at hc
        | timeInterval s e => simp [closedForm] at hc
        | boundingBox s l e h => simp [closedForm] at hc
        | point t f =>
          simp only [Geom.boundPts, List.mem_singleton] at hp; subst hp
          simpa [valid, okPt, and_assoc] using hv
        | lineString pts =>
          simp only [valid, Bool.and_eq_true, List.all_eq_true] at hv
          simpa [okPt, and_assoc] using hv.1.2 p hp
        | multiPoint pts =>
          simp only [valid, Bool.and_eq_true, List.all_eq_true] at hv
          simpa [okPt, and_assoc] using hv.2 p hp
        | multiLineString ls =>
          simp only [valid, Bool.and_eq_true, List.all_eq_true] at hv
          simp only [Geom.boundPts, List.mem_flatten] at hp
          obtain ⟨l, hl, hpl⟩ := hp
          simpa [okPt, and_assoc] using (hv.2 l hl).1.2 p hpl
        | polygon rings =>
          simp only [valid, okPoly, Bool.and_eq_true, List.all_eq_true] at hv
          simp only [Geom.boundPts] at hp
          cases rings with
          | nil => simp at hp
          | cons shell holes =>
            simp only [List.headD_cons] at hp
            have := hv.2 shell (by simp)
            simp only [okRing, Bool.and_eq_true, List.all_eq_true] at this
            simpa [okPt, and_assoc] using this.2 p hp
        | multiPolygon ps =>
          simp only [valid, Bool.and_eq_true, List.all_eq_true] at hv
          simp only [Geom.boundPts, List.mem_flatten, List.mem_map] at hp
          obtain ⟨l, ⟨rings, hrs, rfl⟩, hpl⟩ := hp
          have := hv.2 rings hrs
          simp only [okPoly, Bool.and_eq_true, List.all_eq_true] at this
          cases rings with
          | nil => simp at hpl
          | cons shell holes =>
            simp only [List.headD_cons] at hpl
            have := this.2 shell (by simp)
            simp only [okRing, Bool.and_eq_true, List.all_eq_true] at this
            simpa [okPt, and_assoc] using this.2 p hpl
      obtain ⟨_, ⟨p1, hp1, e1⟩, ⟨p2, hp2, e2⟩, _, ⟨p4, hp4, e4⟩⟩ :=
        SE.Proofs.Lemmas.Bounds.ptsBounds_isBoundsOf _ _ hb
      have a1 := hall p1 hp1; have a2 := hall p2 hp2; have a4 := hall p4 hp4
      grind
    simp only [bufferPost, bufferPostTol, slack, Bool.and_eq_true, decide_eq_true_eq] at hpost
    grind

-- non-vacuity: concrete instances at the edges of the domain, buffers 0 and larger than the domain
example : bufferGeometry (fun _ _ _ => none) (.timeStamp 1) 3 7 = some (.timeInterval 0 4) := by decide +kernel
example : bufferGeometry (fun _ _ _ => none) (.timeInterval 0 2) 0 0 = some (.timeInterval 0 2) := by decide +kernel
example : bufferGeometry (fun _ _ _ => none) (.boundingBox 1 10 2 4999990) 5 100
    = some (.boundingBox 0 0 7 5000000) := by decide +kernel
example : bufferGeometry (fun _ _ _ => none) (.boundingBox 1 10 2 20) 0 6000000
    = some (.boundingBox 1 0 2 5000000) := by decide +kernel
example : bufferGeometry (fun _ _ _ => none) (.boundingBox 1 10 2 20) (-1) 0 = none := by decide +kernel
example : valid (.boundingBox 1 10 2 20) = true ∧ closedForm (.boundingBox 1 10 2 20) = true := by decide +kernel
example : valid (.polygon [[(0, 0), (3, 0), (3, 5000000), (0, 0)]]) = true := by decide +kernel
example : bufferPost ⟨1, 10, 2, 20⟩ 5 100 ⟨0, 0, 7, 120⟩ = true := by decide +kernel
example : bufferPost ⟨1, 10, 2, 20⟩ 5 100 ⟨0, 0, 13/2, 120⟩ = false := by decide +kernel
-- the hypotheses of `C11_shapely_partial` are satisfiable: a point buffered to a box-shaped polygon
example : valid (.point 1 10) = true ∧ closedForm (.point 1 10) = false ∧
    valid (.polygon [[(0, 0), (6, 0), (6, 110), (0, 110), (0, 0)]]) = true ∧
    (Geom.polygon [[(0, 0), (6, 0), (6, 110), (0, 110), (0, 0)]]).bounds = some ⟨0, 0, 6, 110⟩ ∧
    bufferPost ⟨1, 10, 1, 10⟩ 5 100 ⟨0, 0, 6, 110⟩ = true := by decide +kernel

/-
  ## The shapely pipeline (`buffer_shapely_geometry`) on point sets

  `pipelineSet buf S tb fb m maxT` is the composition the function performs (scale by
  `factor`, GEOS buffer of distance 1 = the parameter `buf`, unscale, clip to
  `(0, 0, maxT + m, MAXF)`, `0 ≤ m`; `m = 1` in the source); the straight-line part is tied to the source by a symbolic trace
  (`ext_buffer_shapely_geometry = pipelineSkeletonSpec`).  The theorems below are the property for
  the six shapely-buffered types *given* what they assume of GEOS (`Extensive`, `CoversDisc ρ`,
  `IsMaxTime`), each evaluated at run time on GEOS's actual output; with the exact unit buffer
  `discBuf` all of them hold (`C11_pipeline_contracts_ideal`) and the result is computed in
  closed form (`C11_pipeline_exact_ideal`).
-/

/-- the hypotheses about GEOS are satisfiable: the exact unit buffer meets them -/
theorem C11_pipeline_contracts_ideal :
    Extensive discBuf ∧ ∀ ρ : Rat, 0 ≤ ρ → ρ ≤ 1 → CoversDisc ρ discBuf := by
  refine ⟨?_, ?_⟩
  · intro T q hq
    exact ⟨q, hq, by simp [dist2]⟩
  · intro ρ h0 h1 T c q hc hd
    exact ⟨c, hc, le_trans hd (by nlinarith)⟩

/-- the scale factors are positive for every buffer: both transforms are order-preserving
    bijections of each axis and the second undoes the first -/
theorem C11_pipeline_scaling (tb fb : Rat) :
    0 < factor tb ∧ 0 < factor fb ∧
    (∀ p, unscalePt tb fb (scalePt tb fb p) = p) ∧ (∀ q, scalePt tb fb (unscalePt tb fb q) = q) ∧
    (0 < tb → factor tb = 1 / tb) ∧ (0 < fb → factor fb = 1 / fb) :=
  ⟨factor_pos tb, factor_pos fb, unscale_scale tb fb, scale_unscale tb fb,
   factor_of_pos tb, factor_of_pos fb⟩

/-- the result of the pipeline never leaves the valid domain, whatever GEOS returned -/
theorem C11_pipeline_in_domain (buf : PSet → PSet) (S : PSet) (tb fb m maxT : Rat) (p : Pt)
    (h : pipelineSet buf S tb fb m maxT p) : inDomain p := by
  obtain ⟨⟨h1, _, h3, h4⟩, _⟩ := h
  exact ⟨h1, h3, h4⟩

/-- the clip rectangle's upper time `max_time + m` (`0 ≤ m`) never cuts anything: clipping only removes
    what lies outside the valid domain -/
theorem C11_pipeline_clip_is_domain (buf : PSet → PSet) (S : PSet) (tb fb m maxT : Rat)
    (hm0 : 0 ≤ m) (hm : IsMaxTime buf S tb fb maxT) (p : Pt) :
    pipelineSet buf S tb fb m maxT p ↔
      inDomain p ∧ ∃ q, buf (scaled tb fb S) q ∧ p = unscalePt tb fb q := by
  constructor
  · rintro ⟨⟨h1, _, h3, h4⟩, q, hq, rfl⟩
    exact ⟨⟨h1, h3, h4⟩, q, hq, rfl⟩
  · rintro ⟨⟨h1, h3, h4⟩, q, hq, rfl⟩
    refine ⟨⟨h1, ?_, h3, h4⟩, q, hq, rfl⟩
    have := hm q hq
    simp only [clipRect]; linarith

/-- the result contains the original (if GEOS's buffer contains what it buffers) -/
theorem C11_pipeline_contains (buf : PSet → PSet) (S : PSet) (tb fb m maxT : Rat)
    (hm0 : 0 ≤ m) (hext : Extensive buf) (hm : IsMaxTime buf S tb fb maxT)
    (hS : ∀ p, S p → inDomain p) : ∀ p, S p → pipelineSet buf S tb fb m maxT p := by
  intro p hp
  rw [C11_pipeline_clip_is_domain buf S tb fb m maxT hm0 hm]
  exact ⟨hS p hp, scalePt tb fb p, hext _ _ ⟨p, hp, rfl⟩, (unscale_scale tb fb p).symm⟩

/-- the result contains every point of the domain that lies within `ρ` buffer widths of a point of
    the original (if GEOS's buffer contains the `ρ`-disc around every point it buffers): the
    unit distance of the scaled space is one time buffer along the time axis and one frequency
    buffer along the frequency axis -/
theorem C11_pipeline_covers_buffers (buf : PSet → PSet) (S : PSet) (ρ tb fb m maxT : Rat)
    (hm0 : 0 ≤ m) (hdisc : CoversDisc ρ buf) (hm : IsMaxTime buf S tb fb maxT)
    (c p : Pt) (hc : S c) (hp : inDomain p) (hw : withinBuffers ρ tb fb p c) :
    pipelineSet buf S tb fb m maxT p := by
  rw [C11_pipeline_clip_is_domain buf S tb fb m maxT hm0 hm]
  refine ⟨hp, scalePt tb fb p, ?_, (unscale_scale tb fb p).symm⟩
  exact hdisc _ (scalePt tb fb c) _ ⟨c, hc, rfl⟩ ((dist2_scale _ tb fb p c).mpr hw)

/-- with an exact unit buffer the result is exactly the set of points of the domain within one
    time buffer / frequency buffer (elliptically) of the original -/
theorem C11_pipeline_exact_ideal (S : PSet) (tb fb m maxT : Rat)
    (hm0 : 0 ≤ m) (hm : IsMaxTime discBuf S tb fb maxT) (p : Pt) :
    pipelineSet discBuf S tb fb m maxT p ↔ inDomain p ∧ ∃ c, S c ∧ withinBuffers 1 tb fb p c := by
  rw [C11_pipeline_clip_is_domain discBuf S tb fb m maxT hm0 hm]
  constructor
  · rintro ⟨hd, q, ⟨c', ⟨c, hc, rfl⟩, hq⟩, rfl⟩
    refine ⟨hd, c, hc, ?_⟩
    have := (dist2_scale 1 tb fb (unscalePt tb fb q) c).mp (by rw [scale_unscale]; exact hq)
    simpa [withinBuffers] using this
  · rintro ⟨hd, c, hc, hw⟩
    refine ⟨hd, scalePt tb fb p, ⟨scalePt tb fb c, ⟨c, hc, rfl⟩, ?_⟩, (unscale_scale tb fb p).symm⟩
    have := (dist2_scale 1 tb fb p c).mpr (by simpa [withinBuffers] using hw)
    exact this

/-- larger buffers give supersets (exact unit buffer).  The hypotheses `hzt`, `hzf` exclude a zero
    buffer against a positive one below 1e-9: the zero buffer is the factor 1e9, i.e. behaves as
    the buffer 1e-9 (see `C11_pipeline_zero_vs_tiny_buffer`) -/
theorem C11_pipeline_monotone_ideal (S : PSet) (tb fb tb' fb' m m' maxT maxT' : Rat)
    (h1 : 0 ≤ tb) (h2 : 0 ≤ fb) (ht : tb ≤ tb') (hf : fb ≤ fb')
    (hzt : tb = 0 → tb' = 0 ∨ 1 / 1000000000 ≤ tb') (hzf : fb = 0 → fb' = 0 ∨ 1 / 1000000000 ≤ fb')
    (hm0 : 0 ≤ m) (hm0' : 0 ≤ m')
    (hm : IsMaxTime discBuf S tb fb maxT) (hm' : IsMaxTime discBuf S tb' fb' maxT') :
    ∀ p, pipelineSet discBuf S tb fb m maxT p → pipelineSet discBuf S tb' fb' m' maxT' p := by
  intro p hp
  rw [C11_pipeline_exact_ideal S tb fb m maxT hm0 hm] at hp
  rw [C11_pipeline_exact_ideal S tb' fb' m' maxT' hm0' hm']
  obtain ⟨hd, c, hc, hw⟩ := hp
  exact ⟨hd, c, hc, within_mono tb fb tb' fb' p c (factor_anti tb tb' h1 ht hzt) (factor_anti fb fb' h2 hf hzf) hw⟩

/-- the excluded case is a real property of the mechanism: a zero time buffer yields a result
    1e-9 s wider on each side, which the result for the (larger) buffer 1e-10 s does not contain -/
theorem C11_pipeline_zero_vs_tiny_buffer :
    ∃ (S : PSet) (tb tb' fb maxT maxT' : Rat) (p : Pt),
      0 ≤ tb ∧ tb ≤ tb' ∧ 0 ≤ fb ∧ (∀ p, S p → inDomain p) ∧
      IsMaxTime discBuf S tb fb maxT ∧ IsMaxTime discBuf S tb' fb maxT' ∧
      pipelineSet discBuf S tb fb 1 maxT p ∧ ¬ pipelineSet discBuf S tb' fb 1 maxT' p := by
  have hmax : ∀ tb : Rat, 1 ≤ factor tb →
      IsMaxTime discBuf (fun p => p = ((1 : Rat), (1000 : Rat))) tb 10 2 := by
    intro tb h1 q hq
    obtain ⟨c', ⟨c, hc, rfl⟩, hq⟩ := hq
    subst hc
    have h := coord_le_of_dist2 _ _ hq
    have fp := factor_pos tb
    simp only [scalePt, unscalePt] at *
    rw [div_le_iff₀ fp]
    linarith
  have f0 : factor 0 = 1000000000 := factor_zero
  have f1 : factor (1 / 10000000000) = 10000000000 := by
    rw [factor_of_pos _ (by norm_num)]; norm_num
  have f10 : factor 10 = 1 / 10 := factor_of_pos _ (by norm_num)
  have m0 := hmax 0 (by rw [f0]; norm_num)
  have m1 := hmax (1 / 10000000000) (by rw [f1]; norm_num)
  refine ⟨_, 0, 1 / 10000000000, 10, 2, 2, ((1 : Rat) + 1 / 1000000000, (1000 : Rat)),
    le_refl _, by norm_num, by norm_num, ?_, m0, m1, ?_, ?_⟩
  · rintro p rfl
    refine ⟨by norm_num, by norm_num, ?_⟩
    show (1000 : Rat) ≤ MAXF
    decide +kernel
  · rw [C11_pipeline_exact_ideal _ _ _ _ _ (by norm_num) m0]
    refine ⟨⟨by norm_num, by norm_num, by show (1000 : Rat) ≤ MAXF; decide +kernel⟩, _, rfl, ?_⟩
    simp only [withinBuffers, f0, f10]; norm_num
  · rw [C11_pipeline_exact_ideal _ _ _ _ _ (by norm_num) m1]
    rintro ⟨_, c, rfl, hw⟩
    simp only [withinBuffers, f1, f10] at hw
    norm_num at hw


/-- bounds of the result: every side moves outwards by at least `ρ` buffers or reaches the edge
    of the domain -/
theorem C11_pipeline_bounds_extend (buf : PSet → PSet) (S : PSet) (g : Geom) (b rb : Bounds)
    (ρ tb fb m maxT : Rat) (hρ : 0 ≤ ρ) (h1 : 0 ≤ tb) (h2 : 0 ≤ fb) (hm0 : 0 ≤ m)
    (hc : closedForm g = false) (hv : valid g = true) (hb : g.bounds = some b)
    (hS : ∀ c ∈ g.boundPts, S c) (hdisc : CoversDisc ρ buf) (hm : IsMaxTime buf S tb fb maxT)
    (hrb : ∀ p, pipelineSet buf S tb fb m maxT p → inRect rb p) :
    rb.st ≤ max (b.st - ρ * tb) 0 ∧ rb.lo ≤ max (b.lo - ρ * fb) 0 ∧
    b.en + ρ * tb ≤ rb.en ∧ min (b.hi + ρ * fb) MAXF ≤ rb.hi := by
  have hM := maxf_nonneg
  have hall := valid_boundPts_inDomain g hc hv
  obtain ⟨_, ⟨p1, hp1, e1⟩, ⟨p2, hp2, e2⟩, ⟨p3, hp3, e3⟩, ⟨p4, hp4, e4⟩⟩ :=
    SE.Proofs.Lemmas.Bounds.ptsBounds_isBoundsOf _ _ hb
  have ρt : 0 ≤ ρ * tb := mul_nonneg hρ h1
  have ρf : 0 ≤ ρ * fb := mul_nonneg hρ h2
  have z : ∀ b' : Rat, ((0 : Rat) * factor b') * ((0 : Rat) * factor b') = 0 := by intro b'; ring
  have key : ∀ (c p : Pt), c ∈ g.boundPts → inDomain p →
      (-(ρ * tb) ≤ p.1 - c.1 ∧ p.1 - c.1 ≤ ρ * tb ∧ p.2 = c.2) ∨
      (-(ρ * fb) ≤ p.2 - c.2 ∧ p.2 - c.2 ≤ ρ * fb ∧ p.1 = c.1) → inRect rb p := by
    intro c p hcm hp hcase
    apply hrb
    apply C11_pipeline_covers_buffers buf S ρ tb fb m maxT hm0 hdisc hm c p (hS c hcm) hp
    unfold withinBuffers
    rcases hcase with ⟨a1, a2, a3⟩ | ⟨a1, a2, a3⟩
    · have := axis_within ρ tb (p.1 - c.1) hρ h1 a1 a2
      rw [a3, sub_self, z]; linarith
    · have := axis_within ρ fb (p.2 - c.2) hρ h2 a1 a2
      rw [a3, sub_self, z]; linarith
  obtain ⟨d1a, d1b, d1c⟩ := hall p1 hp1
  obtain ⟨d2a, d2b, d2c⟩ := hall p2 hp2
  obtain ⟨d3a, d3b, d3c⟩ := hall p3 hp3
  obtain ⟨d4a, d4b, d4c⟩ := hall p4 hp4
  refine ⟨?_, ?_, ?_, ?_⟩
  · have := key p1 (max (p1.1 - ρ * tb) 0, p1.2) hp1 ⟨le_max_right _ _, d1b, d1c⟩
      (Or.inl ⟨by simp only; have := le_max_left (p1.1 - ρ * tb) 0; linarith,
               by simp only; rcases max_choice (p1.1 - ρ * tb) 0 with h | h <;> rw [h] <;> linarith, rfl⟩)
    rw [← e1]; exact this.1
  · have := key p2 (p2.1, max (p2.2 - ρ * fb) 0) hp2
      ⟨d2a, le_max_right _ _, by rcases max_choice (p2.2 - ρ * fb) 0 with h | h <;> simp only [h] <;> linarith⟩
      (Or.inr ⟨by simp only; have := le_max_left (p2.2 - ρ * fb) 0; linarith,
               by simp only; rcases max_choice (p2.2 - ρ * fb) 0 with h | h <;> rw [h] <;> linarith, rfl⟩)
    rw [← e2]; exact this.2.2.1
  · have := key p3 (p3.1 + ρ * tb, p3.2) hp3 ⟨by simp only; linarith, d3b, d3c⟩
      (Or.inl ⟨by simp only; linarith, by simp only; linarith, rfl⟩)
    rw [← e3]; exact this.2.1
  · have := key p4 (p4.1, min (p4.2 + ρ * fb) MAXF) hp4
      ⟨d4a, by rcases min_choice (p4.2 + ρ * fb) MAXF with h | h <;> simp only [h] <;> linarith, min_le_right _ _⟩
      (Or.inr ⟨by simp only; rcases min_choice (p4.2 + ρ * fb) MAXF with h | h <;> rw [h] <;> linarith,
               by simp only; have := min_le_left (p4.2 + ρ * fb) MAXF; linarith, rfl⟩)
    rw [← e4]; exact this.2.2.2

-- non-vacuity of the pipeline model: the skeleton on concrete numbers (time buffer 2 → factor 1/2,
-- zero frequency buffer → factor 1e9), and a point of the ideal result
example : pipelineSkeleton 1 1000 3 4 5 11 2 0 =
    ((1 / 2, 1000000000000), 1, (6, 4 / 1000000000), 0, 0, true, 5000000) := by decide +kernel
example : pipelineSkeleton 1 1000 3 4 5 11 2 0 = pipelineSkeletonSpec 1 1000 3 4 2 0 := by decide +kernel
example : (pipelineSkeleton 1 1000 3 4 5 9 2 0).2.2.2.2.2.1 = false := by decide +kernel   -- a clip that cuts
example : factor (-3) = 1000000000 ∧ factor 0 = 1000000000 ∧ factor 4 = 1 / 4 := by decide +kernel
example : withinBuffersB 1 2 10 (3, 1000) (1, 1000) = true ∧ withinBuffersB 1 2 10 (3, 1001) (1, 1000) = false := by
  decide +kernel

/-
  ## Sharper bounds: per-side contracts at the extreme vertices

  `C11_pipeline_bounds_extend` takes one `ρ` for the whole buffer (GEOS's polygonal round caps
  force `ρ < 1`).  Round caps sit only at the ends of open lines; at every other vertex GEOS's
  outline reaches the full distance along the axes (mitre joins, axis-aligned circles).  The
  theorems below give each side of the bounds its own `ρ`, assuming only that GEOS's buffer contains
  one probe point per side: the point `ρ` buffers beyond a vertex that attains the extreme of that
  side (cut at the domain edge).  The check evaluates these four probes on GEOS's actual buffer and
  judges the bounds of every result side by side (`offCap`: `ρ = 1 − 10⁻⁵` where no open line end
  attains the extreme or comes within 1 % of a buffer of it, the round-cap finding's `1 − 0.4815 %`
  elsewhere).
-/

/-- a point of the domain whose scaled image lies in GEOS's buffer is in the result -/
theorem C11_pipeline_probe (buf : PSet → PSet) (S : PSet) (tb fb m maxT : Rat)
    (hm0 : 0 ≤ m) (hm : IsMaxTime buf S tb fb maxT) (p : Pt) (hp : inDomain p)
    (hb : buf (scaled tb fb S) (scalePt tb fb p)) : pipelineSet buf S tb fb m maxT p := by
  rw [C11_pipeline_clip_is_domain buf S tb fb m maxT hm0 hm]
  exact ⟨hp, scalePt tb fb p, hb, (unscale_scale tb fb p).symm⟩

/-- bounds of the result, side by side: if GEOS's buffer contains, for each side, the point `ρᵢ`
    buffers beyond some vertex attaining that side's extreme (cut at the domain edge), every
    rectangle enclosing the result reaches that far -/
theorem C11_pipeline_bounds_extend_sides (buf : PSet → PSet) (S : PSet) (g : Geom) (b rb : Bounds)
    (ρ₁ ρ₂ ρ₃ ρ₄ tb fb m maxT : Rat) (h1 : 0 ≤ tb) (h2 : 0 ≤ fb)
    (hρ₁ : 0 ≤ ρ₁) (hρ₂ : 0 ≤ ρ₂) (hρ₃ : 0 ≤ ρ₃) (hρ₄ : 0 ≤ ρ₄) (hm0 : 0 ≤ m)
    (hc : closedForm g = false) (hv : valid g = true)
    (hm : IsMaxTime buf S tb fb maxT)
    (hrb : ∀ p, pipelineSet buf S tb fb m maxT p → inRect rb p)
    (p1 : ∃ c ∈ g.boundPts, c.1 = b.st ∧ buf (scaled tb fb S) (scalePt tb fb (max (c.1 - ρ₁ * tb) 0, c.2)))
    (p2 : ∃ c ∈ g.boundPts, c.2 = b.lo ∧ buf (scaled tb fb S) (scalePt tb fb (c.1, max (c.2 - ρ₂ * fb) 0)))
    (p3 : ∃ c ∈ g.boundPts, c.1 = b.en ∧ buf (scaled tb fb S) (scalePt tb fb (c.1 + ρ₃ * tb, c.2)))
    (p4 : ∃ c ∈ g.boundPts, c.2 = b.hi ∧ buf (scaled tb fb S) (scalePt tb fb (c.1, min (c.2 + ρ₄ * fb) MAXF))) :
    rb.st ≤ max (b.st - ρ₁ * tb) 0 ∧ rb.lo ≤ max (b.lo - ρ₂ * fb) 0 ∧
    b.en + ρ₃ * tb ≤ rb.en ∧ min (b.hi + ρ₄ * fb) MAXF ≤ rb.hi := by
  have hM := maxf_nonneg
  have hall := valid_boundPts_inDomain g hc hv
  have t1 : 0 ≤ ρ₁ * tb := mul_nonneg hρ₁ h1
  have t2 : 0 ≤ ρ₂ * fb := mul_nonneg hρ₂ h2
  have t3 : 0 ≤ ρ₃ * tb := mul_nonneg hρ₃ h1
  have t4 : 0 ≤ ρ₄ * fb := mul_nonneg hρ₄ h2
  refine ⟨?_, ?_, ?_, ?_⟩
  · obtain ⟨c, hcm, e, hb⟩ := p1
    obtain ⟨_, d2, d3⟩ := hall c hcm
    have hd : inDomain (max (c.1 - ρ₁ * tb) 0, c.2) := ⟨le_max_right _ _, d2, d3⟩
    have := hrb _ (C11_pipeline_probe buf S tb fb m maxT hm0 hm (max (c.1 - ρ₁ * tb) 0, c.2) hd hb)
    rw [← e]; exact this.1
  · obtain ⟨c, hcm, e, hb⟩ := p2
    obtain ⟨d1, d2, d3⟩ := hall c hcm
    have hd : inDomain (c.1, max (c.2 - ρ₂ * fb) 0) :=
      ⟨d1, le_max_right _ _, by
        show max (c.2 - ρ₂ * fb) 0 ≤ MAXF
        rcases max_choice (c.2 - ρ₂ * fb) 0 with h | h <;> rw [h] <;> linarith⟩
    have := hrb _ (C11_pipeline_probe buf S tb fb m maxT hm0 hm (c.1, max (c.2 - ρ₂ * fb) 0) hd hb)
    rw [← e]; exact this.2.2.1
  · obtain ⟨c, hcm, e, hb⟩ := p3
    obtain ⟨d1, d2, d3⟩ := hall c hcm
    have hd : inDomain (c.1 + ρ₃ * tb, c.2) := ⟨by show 0 ≤ c.1 + ρ₃ * tb; linarith, d2, d3⟩
    have := hrb _ (C11_pipeline_probe buf S tb fb m maxT hm0 hm (c.1 + ρ₃ * tb, c.2) hd hb)
    rw [← e]; exact this.2.1
  · obtain ⟨c, hcm, e, hb⟩ := p4
    obtain ⟨d1, d2, d3⟩ := hall c hcm
    have hd : inDomain (c.1, min (c.2 + ρ₄ * fb) MAXF) :=
      ⟨d1, by
        show 0 ≤ min (c.2 + ρ₄ * fb) MAXF
        rcases min_choice (c.2 + ρ₄ * fb) MAXF with h | h <;> rw [h] <;> linarith, min_le_right _ _⟩
    have := hrb _ (C11_pipeline_probe buf S tb fb m maxT hm0 hm (c.1, min (c.2 + ρ₄ * fb) MAXF) hd hb)
    rw [← e]; exact this.2.2.2

/-- what a flag of `offCap` means: that side's extreme is attained (by a vertex `compute_bounds`
    ranges over), and every vertex attaining it -- every vertex within `μ` buffers of it -- is not
    the end of an open line (so its probe is judged with `ρ` next to 1) -/
theorem C11_offcap_vertex (g : Geom) (b : Bounds) (tb fb μ : Rat) (hb : g.bounds = some b) :
    ((offCap g b tb fb μ)[0]? = some true → ∃ c ∈ g.boundPts, c.1 = b.st ∧ ∀ e ∈ lineEnds g, b.st + μ * tb < e.1) ∧
    ((offCap g b tb fb μ)[1]? = some true → ∃ c ∈ g.boundPts, c.2 = b.lo ∧ ∀ e ∈ lineEnds g, b.lo + μ * fb < e.2) ∧
    ((offCap g b tb fb μ)[2]? = some true → ∃ c ∈ g.boundPts, c.1 = b.en ∧ ∀ e ∈ lineEnds g, e.1 < b.en - μ * tb) ∧
    ((offCap g b tb fb μ)[3]? = some true → ∃ c ∈ g.boundPts, c.2 = b.hi ∧ ∀ e ∈ lineEnds g, e.2 < b.hi - μ * fb) := by
  obtain ⟨_, ⟨p1, hp1, e1⟩, ⟨p2, hp2, e2⟩, ⟨p3, hp3, e3⟩, ⟨p4, hp4, e4⟩⟩ :=
    SE.Proofs.Lemmas.Bounds.ptsBounds_isBoundsOf _ _ hb
  refine ⟨?_, ?_, ?_, ?_⟩ <;>
  · intro h
    simp only [offCap, List.getElem?_cons_zero, List.getElem?_cons_succ, Option.some.injEq, Bool.not_eq_true',
      List.any_eq_false, decide_eq_true_eq, not_le] at h
    first
    | exact ⟨p1, hp1, e1, h⟩
    | exact ⟨p2, hp2, e2, h⟩
    | exact ⟨p3, hp3, e3, fun e he => by have := h e he; linarith⟩
    | exact ⟨p4, hp4, e4, fun e he => by have := h e he; linarith⟩

/-- points, multi-points, polygons, multi-polygons and closed lines have no open line end: every
    side of their bounds is judged at full sharpness -/
theorem C11_offcap_all (g : Geom) (b : Bounds) (tb fb μ : Rat) (he : lineEnds g = []) :
    offCap g b tb fb μ = [true, true, true, true] := by
  simp [offCap, he]

example : lineEnds (.polygon [[(0, 0), (3, 0), (3, 5), (0, 0)]]) = [] := by decide +kernel
example : lineEnds (.lineString [(1, 3), (2, 7), (4, 5), (1, 3)]) = [] := by decide +kernel
example : offCap (.lineString [(1, 3), (2, 7), (4, 5)]) ⟨1, 3, 4, 7⟩ 1 1 (1 / 100) = [false, false, false, true] := by decide +kernel
example : offCap (.lineString [(1, 3), (2, 7), (4, 5), (1, 3)]) ⟨1, 3, 4, 7⟩ 1 1 (1 / 100) = [true, true, true, true] := by decide +kernel
-- an interior vertex attains the end time, but so does the end of the line: the cap is there
example : offCap (.lineString [(1, 3), (4, 7), (4, 5)]) ⟨1, 3, 4, 7⟩ 1 1 0 = [false, false, false, true] := by decide +kernel
-- an end within 1 % of the buffer of the extreme counts as attaining it
example : offCap (.lineString [(1, 3), (4, 7), (399 / 100, 5)]) ⟨1, 3, 4, 7⟩ 2 1 (1 / 100) = [false, false, false, true] ∧
    offCap (.lineString [(1, 3), (4, 7), (399 / 100, 5)]) ⟨1, 3, 4, 7⟩ (1 / 2) 1 (1 / 100) = [false, false, true, true] := by decide +kernel

/-
  ## Calls: positional / keyword / omitted buffers, and histories
-/

/-- every way of passing the two buffers binds them to the same parameters: by position, by
    keyword in either order, mixed, and an omitted buffer is 0; a buffer given twice or a third
    positional value is a `TypeError` (`none`); unknown keywords (options for shapely) bind nothing -/
theorem C11_call_binding (a b : Rat) (extra : List (String × Rat))
    (hx : extra.lookup "time_buffer" = none) (hy : extra.lookup "freq_buffer" = none) :
    boundBuffers bufferSig [a, b] extra = some (a, b) ∧
    boundBuffers bufferSig [] (("time_buffer", a) :: ("freq_buffer", b) :: extra) = some (a, b) ∧
    boundBuffers bufferSig [] (("freq_buffer", b) :: ("time_buffer", a) :: extra) = some (a, b) ∧
    boundBuffers bufferSig [a] (("freq_buffer", b) :: extra) = some (a, b) ∧
    boundBuffers bufferSig [a] extra = some (a, 0) ∧
    boundBuffers bufferSig [] (("freq_buffer", b) :: extra) = some (0, b) ∧
    boundBuffers bufferSig [] (("time_buffer", a) :: extra) = some (a, 0) ∧
    boundBuffers bufferSig [] extra = some (0, 0) ∧
    boundBuffers bufferSig [a] (("time_buffer", a) :: extra) = none ∧
    (∀ c, boundBuffers bufferSig [a, b, c] extra = none) := by
  simp [boundBuffers, bindArgs, bufferSig, List.lookup, hx, hy]

private theorem bindArgs_nil (sig : Sig) (kw : List (String × Rat)) :
    bindArgs sig [] kw = some (sig.map (fun nd => (nd.1, (kw.lookup nd.1).getD nd.2))) := by
  induction sig with
  | nil => simp [bindArgs]
  | cons x xs ih => obtain ⟨n, d⟩ := x; simp [bindArgs, ih]

/-- the binding of the two buffers is a property of the head of the signature table alone: whatever
    optional parameters follow `time_buffer = 0, freq_buffer = 0`, a call with at most two positional
    values after the geometry binds the buffers as `bufferSig` does (the obligation regenerated from
    `inspect.signature(buffer_geometry)` shows that the extracted table starts with `bufferSig`) -/
theorem C11_signature_table (rest : Sig) (pos : List Rat) (kw : List (String × Rat)) (h : pos.length ≤ 2) :
    boundBuffers (bufferSig ++ rest) pos kw = boundBuffers bufferSig pos kw := by
  match pos, h with
  | [], _ =>
    simp [boundBuffers, bufferSig, bindArgs_nil, List.lookup]
  | [a], _ =>
    simp only [boundBuffers, bufferSig, List.cons_append, List.nil_append, bindArgs, bindArgs_nil]
    cases h1 : (List.lookup "time_buffer" kw).isSome <;> simp [List.lookup]
  | [a, b], _ =>
    simp only [boundBuffers, bufferSig, List.cons_append, List.nil_append, bindArgs, bindArgs_nil]
    cases h1 : (List.lookup "time_buffer" kw).isSome <;> cases h2 : (List.lookup "freq_buffer" kw).isSome <;>
      simp [List.lookup]

/-- a session is judged call by call: whatever was called before (and with whatever options), a
    call returns what the same call returns in a fresh process -/
theorem C11_history_stepwise (lib : List (String × String) → Geom → Rat → Rat → Option Geom)
    (pre post : List Call) (c : Call) :
    (runHistory lib (pre ++ c :: post))[pre.length]? = some (bufferGeometry (lib c.opts) c.g c.tb c.fb) := by
  induction pre with
  | nil => simp [runHistory]
  | cons x xs ih => simpa [runHistory] using ih

/-- options for shapely are irrelevant for time stamps, intervals and boxes (they are not passed
    on), and a negative buffer is rejected before they are looked at -/
theorem C11_closed_ignores_options (lib lib' : Geom → Rat → Rat → Option Geom) (g : Geom) (tb fb : Rat)
    (h : closedForm g = true ∨ tb < 0 ∨ fb < 0) :
    bufferGeometry lib g tb fb = bufferGeometry lib' g tb fb := by
  rcases h with h | h
  · cases g <;> simp_all [bufferGeometry, closedForm]
  · simp [bufferGeometry, h]

example : runHistory (fun o _ _ _ => if o = [] then some (.point 1 1) else none)
    [⟨.point 0 0, 1, 1, [("single_sided", "true")]⟩, ⟨.point 0 0, 1, 1, []⟩, ⟨.timeStamp 1, 3, 7, [("quad_segs", "2")]⟩]
    = [none, some (.point 1 1), some (.timeInterval 0 4)] := by decide +kernel
example : boundBuffers bufferSig [2] [("freq_buffer", 5), ("mitre_limit", 1)] = some (2, 5) := by decide +kernel
example : boundBuffers [("freq_buffer", 0), ("time_buffer", 0)] [2, 5] [] = some (5, 2) := by decide +kernel  -- a swapped signature binds differently
example : boundBuffers (bufferSig ++ [("quad_segs", 8)]) [2] [("freq_buffer", 5), ("quad_segs", 3)] = some (2, 5) := by decide +kernel

end SE.Proofs.C11
