/- C11 — property theorems (to be written). -/
import SoundeventModel.Basic
namespace SE.Proofs.C11

end SE.Proofs.C11
