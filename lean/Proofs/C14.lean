/-
  C14 — Clip segmentation tiles the clip on the hop lattice.
  Property theorems only (helper lemmas: Proofs/Lemmas/Segment.lean).

  `segmentClip` is the model of `segment_clip` **after fix C14-1** (loop bound
  `ceil(duration / hop)`); `segmentClipPinned` is the pinned tree's loop bound
  `floor(duration / hop)`, for which the property is refuted below.
-/
import Proofs.Lemmas.Segment
import Proofs.Lemmas.History
namespace SE.Proofs.C14
open SE SE.Segment SE.Proofs.SegmentLemmas

/-- non-positive duration or hop is rejected (`ValueError`), nothing else is -/
theorem C14_rejects_nonpositive (s e dur hop : Rat) (incl : Bool) :
    (segmentClip s e dur hop incl = .error .invalid ↔ (dur ≤ 0 ∨ hop ≤ 0)) ∧
    ((∃ out, segmentClip s e dur hop incl = .ok out) ↔ (0 < dur ∧ 0 < hop)) := by
  unfold segmentClip segmentClipWith
  by_cases h1 : dur ≤ 0
  · simp [h1]; grind
  · by_cases h2 : hop ≤ 0
    · simp [h1, h2]; grind
    · simp [h1, h2]; grind

/-- `hop=None` is `hop = duration` -/
theorem C14_default_hop (s e dur : Rat) (incl : Bool) :
    segmentClipOpt s e dur none incl = segmentClip s e dur dur incl := rfl

/-- the `i`-th segment yielded starts at `start + i·hop` (in order, no index skipped) and
    is that lattice window truncated at the clip end -/
theorem C14_lattice {s e dur hop : Rat} {incl : Bool} {out : List (Rat × Rat)}
    (h : segmentClip s e dur hop incl = .ok out) (i : Nat) (hi : i < out.length) :
    out[i].1 = s + i * hop ∧ out[i].2 = min (s + i * hop + dur) e := by
  obtain ⟨_, _, rfl⟩ := ok_inv h
  have := loop_getElem? s e dur hop incl (bound s e hop) 0 i _ (List.getElem?_eq_getElem hi)
  rw [this]; simp [window]

/-- every segment lies inside the parent clip and is non-empty -/
theorem C14_inside {s e dur hop : Rat} {incl : Bool} {out : List (Rat × Rat)}
    (h : segmentClip s e dur hop incl = .ok out) (p : Rat × Rat) (hp : p ∈ out) :
    s ≤ p.1 ∧ p.1 < p.2 ∧ p.2 ≤ e := by
  obtain ⟨hd, hh, _⟩ := ok_inv h
  obtain ⟨j, h1, h2, _, h4⟩ := (mem_iff h p).1 hp
  have := lattice_mono s hop hh (Nat.zero_le j)
  refine ⟨by grind, ?_, by grind⟩
  rw [h4]; grind

/-- without `include_incomplete`: exactly the lattice windows that fit completely -/
theorem C14_complete_iff {s e dur hop : Rat} {out : List (Rat × Rat)}
    (h : segmentClip s e dur hop false = .ok out) (a b : Rat) :
    (a, b) ∈ out ↔ ∃ i : Nat, a = s + i * hop ∧ b = a + dur ∧ b ≤ e := by
  obtain ⟨hd, _, _⟩ := ok_inv h
  rw [mem_iff h]
  constructor
  · rintro ⟨j, h1, h2, h3, h4⟩
    simp at h1 h2 h3 h4
    exact ⟨j, h1, by grind, by grind⟩
  · rintro ⟨j, h1, h2, h3⟩
    refine ⟨j, h1, ?_, .inr ?_, ?_⟩ <;> simp <;> grind

/-- with `include_incomplete`: exactly the lattice windows that start inside the clip,
    truncated at the clip end -/
theorem C14_incomplete_iff {s e dur hop : Rat} {out : List (Rat × Rat)}
    (h : segmentClip s e dur hop true = .ok out) (a b : Rat) :
    (a, b) ∈ out ↔ ∃ i : Nat, a = s + i * hop ∧ a < e ∧ b = min (a + dur) e := by
  rw [mem_iff h]
  constructor
  · rintro ⟨j, h1, h2, _, h4⟩; exact ⟨j, h1, h2, h4⟩
  · rintro ⟨j, h1, h2, h4⟩; exact ⟨j, h1, h2, .inl rfl, h4⟩

/-- every complete window lasts exactly `duration` (all of them without
    `include_incomplete`); a truncated one ends at the clip end and is shorter -/
theorem C14_duration {s e dur hop : Rat} {incl : Bool} {out : List (Rat × Rat)}
    (h : segmentClip s e dur hop incl = .ok out) (p : Rat × Rat) (hp : p ∈ out) :
    (p.1 + dur ≤ e → p.2 - p.1 = dur) ∧ (incl = false → p.2 - p.1 = dur) ∧
    (p.2 - p.1 = dur ∨ (incl = true ∧ p.2 = e ∧ p.2 - p.1 < dur)) := by
  obtain ⟨j, _, _, h3, h4⟩ := (mem_iff h p).1 hp
  refine ⟨by grind, ?_, ?_⟩
  · intro hi; simp [hi] at h3; grind
  · rcases h3 with h3 | h3
    · by_cases h5 : p.1 + dur ≤ e
      · left; grind
      · right; exact ⟨h3, by grind, by grind⟩
    · left; grind

/-- with `include_incomplete` and `hop ≤ duration` the segments cover the whole clip -/
theorem C14_cover {s e dur hop : Rat} {out : List (Rat × Rat)}
    (h : segmentClip s e dur hop true = .ok out) (hle : hop ≤ dur) (t : Rat)
    (h1 : s ≤ t) (h2 : t < e) : ∃ p ∈ out, p.1 ≤ t ∧ t < p.2 := by
  obtain ⟨_, hh, _⟩ := ok_inv h
  -- the lattice point at or just below `t`
  have hq : 0 ≤ (t - s) / hop := by
    apply Rat.not_lt.1
    intro hneg
    have := (Rat.div_lt_iff hh).1 hneg
    grind
  have hf0 : 0 ≤ ((t - s) / hop).floor := Rat.le_floor_iff.2 (by simpa using hq)
  have hcast : ((((t - s) / hop).floor.toNat : Nat) : Rat) = (((t - s) / hop).floor : Rat) := by
    have : ((((t - s) / hop).floor.toNat : Nat) : Int) = ((t - s) / hop).floor := Int.toNat_of_nonneg hf0
    exact_mod_cast this
  have hmul : (t - s) / hop * hop = t - s := by rw [Rat.div_mul_cancel]; grind
  have hlo : (((t - s) / hop).floor : Rat) * hop ≤ t - s := by
    have := Rat.mul_le_mul_of_nonneg_right (Rat.floor_le ((t - s) / hop)) (Rat.le_of_lt hh)
    grind
  have hhi : t - s < ((((t - s) / hop).floor : Rat) + 1) * hop := by
    have h3 := Rat.lt_floor_add_one ((t - s) / hop)
    have h4 : (((((t - s) / hop).floor + 1 : Int)) : Rat) = (((t - s) / hop).floor : Rat) + 1 := by
      norm_cast
    rw [h4] at h3
    have := Rat.mul_lt_mul_of_pos_right h3 hh
    grind
  refine ⟨window s e dur hop ((t - s) / hop).floor.toNat, ?_, ?_, ?_⟩
  · rw [mem_iff h]
    refine ⟨_, rfl, ?_, .inl rfl, rfl⟩
    simp only [window, hcast]; grind
  · simp only [window, hcast]; grind
  · simp only [window, hcast]; grind

/-- the starts strictly increase, so the keys `(parent, start, end)` the identifiers are
    computed from are pairwise distinct within one call -/
theorem C14_ids_distinct {s e dur hop : Rat} {incl : Bool} {out : List (Rat × Rat)}
    (h : segmentClip s e dur hop incl = .ok out) (parent : String) :
    out.Pairwise (fun p q => p.1 < q.1) ∧ (out.map (segKey parent)).Nodup := by
  obtain ⟨_, hh, _⟩ := ok_inv h
  have hinc : out.Pairwise (fun p q => p.1 < q.1) := by
    rw [List.pairwise_iff_getElem]
    intro i j hi hj hij
    rw [(C14_lattice h i hi).1, (C14_lattice h j hj).1]
    exact lattice_strict s hop hh hij
  refine ⟨hinc, ?_⟩
  unfold List.Nodup
  rw [List.pairwise_map]
  refine hinc.imp ?_
  intro p q hpq heq
  simp only [segKey, Prod.mk.injEq] at heq
  grind

/-- the loop bound only has to be large enough: any number of further iterations changes
    nothing (the two `break`s end the loop, not the bound) -/
theorem C14_bound_irrelevant (s e dur hop : Rat) (incl : Bool) (hh : 0 < hop) (k : Nat) :
    loop s e dur hop incl (bound s e hop + k) 0 = loop s e dur hop incl (bound s e hop) 0 :=
  loop_stable s e dur hop incl hh _ (bound_reaches s e hop hh) k

/-- the executable statement used by the monitor (`holds`: the result lists the lattice
    windows 0, 1, 2, … in order and stops only where the next one does not exist; a raise
    only for non-positive parameters) is satisfied by exactly one result: the model's -/
theorem C14_holds_iff (s e dur hop : Rat) (incl : Bool) (o : Option (List (Rat × Rat))) :
    holds s e dur hop incl o = true ↔ o = (segmentClip s e dur hop incl).toOption := by
  unfold holds segmentClip segmentClipWith
  by_cases h1 : dur ≤ 0
  · cases o <;> simp [h1, Except.toOption] <;> grind
  · by_cases h2 : hop ≤ 0
    · cases o <;> simp [h1, h2, Except.toOption] <;> grind
    · have hd : 0 < dur := Rat.not_le.1 h1
      have hh : 0 < hop := Rat.not_le.1 h2
      have hb : e ≤ s + ((0 + bound s e hop : Nat) : Rat) * hop := by
        simpa using bound_reaches s e hop hh
      cases o with
      | none => simp [h1, h2, Except.toOption]
      | some l =>
        simp only [h1, h2, hd, hh, if_false, Except.toOption, decide_true, Bool.true_and,
          Option.some.injEq]
        constructor
        · intro hl; exact (loop_of_holdsFrom s e dur hop incl l _ 0 hb hl).symm
        · rintro rfl; exact holdsFrom_loop s e dur hop incl _ 0 hb

/-! ### the pinned tree (loop bound `floor(duration / hop)`) violates the property -/

/-- 10 s clip, 3 s windows, hop 3, incomplete windows wanted: the window `(9, 10)` starts
    inside the clip and is not produced; 1 s windows with hop 4: the complete window
    `(8, 9)` is not produced; and the segments do not cover the clip although hop ≤ duration -/
theorem C14_pinned_bound_loses_windows :
    segmentClipPinned 0 10 3 3 true = .ok [(0, 3), (3, 6), (6, 9)] ∧
    Window 0 10 3 3 true 3 (9, 10) ∧
    segmentClipPinned 0 10 1 4 false = .ok [(0, 1), (4, 5)] ∧
    Window 0 10 1 4 false 2 (8, 9) ∧
    holds 0 10 3 3 true (segmentClipPinned 0 10 3 3 true).toOption = false ∧
    holds 0 10 1 4 false (segmentClipPinned 0 10 1 4 false).toOption = false := by
  refine ⟨by decide +kernel, ⟨by decide +kernel, by decide +kernel, .inl rfl, by decide +kernel⟩,
    by decide +kernel, ⟨by decide +kernel, by decide +kernel, .inr (by decide +kernel), by decide +kernel⟩,
    by decide +kernel, by decide +kernel⟩

-- non-vacuity: the repaired model on the same witnesses, and the standard cases
example : segmentClip 0 10 3 3 true = .ok [(0, 3), (3, 6), (6, 9), (9, 10)] := by decide +kernel
example : segmentClip 0 10 1 4 false = .ok [(0, 1), (4, 5), (8, 9)] := by decide +kernel
example : segmentClip 0 10 4 3 true = .ok [(0, 4), (3, 7), (6, 10), (9, 10)] := by decide +kernel
example : segmentClip 0 10 3 2 false = .ok [(0, 3), (2, 5), (4, 7), (6, 9)] := by decide +kernel
example : segmentClip (1/2) (1/2) 2 2 true = .ok [] := by decide +kernel
example : segmentClip 0 10 0 1 true = .error .invalid := by decide +kernel
example : segmentClip 0 10 1 (-1) true = .error .invalid := by decide +kernel
example : holds 0 10 3 3 true (some [(0, 3), (3, 6), (6, 9), (9, 10)]) = true := by decide +kernel

/-! ### review R-C14: closed form, loop bound, identifiers, recording -/

/-- the number of segments in closed form, and the whole result in closed form: the lattice
    windows `0 … count-1`, in order -/
theorem C14_count {s e dur hop : Rat} {incl : Bool} {out : List (Rat × Rat)}
    (h : segmentClip s e dur hop incl = .ok out) :
    out.length = count s e dur hop incl ∧
    out = (List.range (count s e dur hop incl)).map (window s e dur hop) := by
  obtain ⟨hd, hh, hl⟩ := ok_inv h
  have hb : e ≤ s + ((0 + bound s e hop : Nat) : Rat) * hop := by
    simpa using bound_reaches s e hop hh
  have hH := holdsFrom_loop s e dur hop incl (bound s e hop) 0 hb
  rw [← hl] at hH
  obtain ⟨ha, hn⟩ := holdsFrom_windows s e dur hop incl out 0 hH
  have hlen : out.length = count s e dur hop incl := by
    have h1 : ¬ (out.length < count s e dur hop incl) := by
      intro hlt
      have := (isWindow_iff_lt_count s e dur hop incl hd hh out.length).2 hlt
      simp at hn; simp [hn] at this
    have h2 : ¬ (count s e dur hop incl < out.length) := by
      intro hlt
      have := ha _ hlt
      simp only [Nat.zero_add] at this
      have := (isWindow_iff_lt_count s e dur hop incl hd hh _).1 this
      omega
    omega
  refine ⟨hlen, ?_⟩
  apply List.ext_getElem
  · simp [hlen]
  · intro i h1 h2
    have := C14_lattice h i h1
    simp only [List.getElem_map, List.getElem_range, window]
    ext
    · exact this.1
    · exact this.2

/-- any loop bound that is at least `ceil(duration / hop)` gives the same result -/
theorem C14_bound_ge (bnd : Rat → Rat → Rat → Nat) (hb : ∀ s e hop, bound s e hop ≤ bnd s e hop)
    (s e dur hop : Rat) (incl : Bool) :
    segmentClipWith bnd s e dur hop incl = segmentClip s e dur hop incl := by
  unfold segmentClip segmentClipWith
  by_cases h1 : dur ≤ 0
  · simp [h1]
  · by_cases h2 : hop ≤ 0
    · simp [h1, h2]
    · simp only [h1, h2, if_false]
      have hh : 0 < hop := Rat.not_le.1 h2
      obtain ⟨k, hk⟩ := Nat.exists_eq_add_of_le (hb s e hop)
      rw [hk, C14_bound_irrelevant s e dur hop incl hh k]

/-- the name the identifier is computed from determines the parent identifier and both bounds:
    for an injective number formatting without ':' and parent identifiers without ':' -/
theorem C14_name_injective (fmt : Rat → String) (hinj : ∀ x y, fmt x = fmt y → x = y)
    (hfmt : ∀ x, ':' ∉ (fmt x).toList) (p1 p2 : String)
    (hp1 : ':' ∉ p1.toList) (hp2 : ':' ∉ p2.toList) (a b : Rat × Rat)
    (h : segName fmt p1 a = segName fmt p2 b) : p1 = p2 ∧ a = b := by
  unfold segName at h
  have h' := congrArg String.toList h
  simp only [String.toList_append, List.append_assoc] at h'
  have h1 := List.append_cancel_left h'
  have c : (":" : String).toList = [':'] := rfl
  rw [c] at h1
  simp only [List.cons_append, List.nil_append] at h1
  obtain ⟨e1, h2⟩ := split_at _ _ _ _ hp1 hp2 h1
  obtain ⟨e2, e3⟩ := split_at _ _ _ _ (hfmt a.1) (hfmt b.1) h2
  refine ⟨String.toList_inj.1 e1, ?_⟩
  ext
  · exact hinj _ _ (String.toList_inj.1 e2)
  · exact hinj _ _ (String.toList_inj.1 e3)

/-- everything `segment_clip` puts into the yielded clips: every segment belongs to the parent's
    recording, its bounds are those of the lattice windows, its name is `segName` of its own
    bounds; the names of one call are pairwise distinct -/
theorem C14_full {fmt : Rat → String} (hinj : ∀ x y, fmt x = fmt y → x = y)
    (hfmt : ∀ x, ':' ∉ (fmt x).toList) {recording parent : String} (hp : ':' ∉ parent.toList)
    {s e dur : Rat} {hop : Option Rat} {incl : Bool} {segs : List Seg}
    (h : segmentClipFull fmt recording parent s e dur hop incl = .ok segs) :
    ∃ out, segmentClip s e dur (hop.getD dur) incl = .ok out ∧
      segs.map (fun g => (g.start, g.stop)) = out ∧
      (∀ g ∈ segs, g.recording = recording ∧ g.name = segName fmt parent (g.start, g.stop)) ∧
      (segs.map (·.name)).Nodup := by
  unfold segmentClipFull segmentClipOpt at h
  cases hr : segmentClip s e dur (hop.getD dur) incl with
  | error err => rw [hr] at h; simp [Except.map] at h
  | ok out =>
    rw [hr] at h
    simp only [Except.map, Except.ok.injEq] at h
    subst h
    refine ⟨out, rfl, ?_, ?_, ?_⟩
    · simp [List.map_map, Function.comp_def]
    · intro g hg
      simp only [List.mem_map] at hg
      obtain ⟨p, _, rfl⟩ := hg
      exact ⟨rfl, rfl⟩
    · have hk := (C14_ids_distinct hr parent).2
      simp only [List.map_map, Function.comp_def]
      unfold List.Nodup at hk ⊢
      rw [List.pairwise_map] at hk ⊢
      refine hk.imp ?_
      intro p q hne heq
      apply hne
      have := (C14_name_injective fmt hinj hfmt parent parent hp hp p q heq).2
      rw [this]


/-- without `include_incomplete` and with `hop ≤ duration` the segments still tile the clip up to
    a tail shorter than one hop: every `t` with `t + hop ≤ clip end` lies in a (complete) segment,
    provided one window fits at all -/
theorem C14_complete_tail {s e dur hop : Rat} {out : List (Rat × Rat)}
    (h : segmentClip s e dur hop false = .ok out) (hle : hop ≤ dur) (hfit : dur ≤ e - s) (t : Rat)
    (h1 : s ≤ t) (h2 : t + hop ≤ e) : ∃ p ∈ out, p.1 ≤ t ∧ t < p.2 ∧ p.2 - p.1 = dur := by
  obtain ⟨hd, hh, _⟩ := ok_inv h
  obtain ⟨a1, a2⟩ := floor_toNat_bounds (t - s) hop hh (by grind)
  obtain ⟨b1, b2⟩ := floor_toNat_bounds (e - s - dur) hop hh (by grind)
  generalize ((t - s) / hop).floor.toNat = i at a1 a2
  generalize ((e - s - dur) / hop).floor.toNat = n at b1 b2
  by_cases hin : i ≤ n
  · refine ⟨(s + i * hop, s + i * hop + dur), ?_, ?_, ?_, ?_⟩
    · rw [C14_complete_iff h]
      refine ⟨i, rfl, rfl, ?_⟩
      have := lattice_mono s hop hh hin
      grind
    · simp only; grind
    · simp only; grind
    · simp only; grind
  · refine ⟨(s + n * hop, s + n * hop + dur), ?_, ?_, ?_, ?_⟩
    · rw [C14_complete_iff h]
      exact ⟨n, rfl, rfl, by grind⟩
    · have := lattice_mono s hop hh (Nat.le_of_lt (Nat.lt_of_not_le hin))
      simp only; grind
    · simp only; grind
    · simp only; grind

example : segmentClip 0 10 3 2 false = .ok [(0, 3), (2, 5), (4, 7), (6, 9)] ∧ (3:Rat) ≤ 10 - 0 ∧ (2:Rat) ≤ 3 := by
  decide +kernel

-- non-vacuity of the review theorems
example : count 0 10 3 3 true = 4 ∧ count 0 10 1 4 false = 3 ∧ count 0 10 3 2 false = 4 ∧
    count 0 2 3 1 false = 0 ∧ count 0 2 3 1 true = 2 ∧ count 5 5 1 1 true = 0 := by decide +kernel
example : segmentClip 0 10 1 4 false = .ok ((List.range 3).map (window 0 10 1 4)) := by decide +kernel
example : segmentClipWith (fun _ _ _ => 7) 0 10 3 3 true = segmentClip 0 10 3 3 true := by decide +kernel
example : segName fmtU "p" (1/2, 2) = "segment_clip:p:a/cc:aa/c" := by decide +kernel
example : (segmentClipFull fmtU "r" "p" 0 2 1 none false).toOption =
    some [⟨"r", 0, 1, "segment_clip:p:/c:a/c"⟩, ⟨"r", 1, 2, "segment_clip:p:a/c:aa/c"⟩] := by decide +kernel
/-- the hypotheses of `C14_name_injective` / `C14_full` are satisfiable -/
example : (∀ x y, fmtU x = fmtU y → x = y) ∧ (∀ x, ':' ∉ (fmtU x).toList) := ⟨fmtU_inj, fmtU_noColon⟩

/-! ### Histories

`segment_clip` is specified as a pure function of the clip's bounds and the three parameters.  The
implementation runs in a process: a clip object can remember a duration computed earlier, a lattice
can be cached between calls, a returned list can be shared.  The check therefore also runs *histories*
(sequences of calls on fresh, reused-after-change and shared objects) and judges every step by
`segmentClipOpt` alone; the theorem says this is exactly the right thing to do. -/

/-- one call as the history operation sees it: bounds of the clip *as it is at that step*, parameters -/
abbrev Call := Rat × Rat × Rat × Option Rat × Bool

/-- the pure model of one call -/
def callModel (c : Call) : Except Err (List (Rat × Rat)) :=
  segmentClipOpt c.1 c.2.1 c.2.2.1 c.2.2.2.1 c.2.2.2.2

/-- **Histories.**  Whatever state an implementation keeps between calls (`σ` is arbitrary), it returns
    the model's segments at every step of every sequence of calls in one process iff no state reachable
    by some sequence of calls changes the answer of any single call. -/
theorem C14_history {σ : Type} (step : σ → Call → σ × Except Err (List (Rat × Rat))) (s0 : σ) :
    SE.History.HistoryFree step s0 callModel ↔
      ∀ calls : List Call, SE.History.runS step s0 calls = calls.map callModel :=
  SE.History.historyFree_iff step s0 callModel

/-- a duration remembered from the first use of a clip (seeded change C14-7) is not history free: the
    second call, on the same clip object made longer, is answered for the old end -/
example :
    let step : Option Rat → Call → Option Rat × Except Err (List (Rat × Rat)) := fun memo c =>
      let len := memo.getD (c.2.1 - c.1)          -- `cached_property`: the first duration sticks
      (some len, segmentClipOpt c.1 (c.1 + len) c.2.2.1 c.2.2.2.1 c.2.2.2.2)
    SE.History.runS step none [(4, 14, 2, none, false), (4, 24, 2, none, false)] ≠
      [(4, 14, 2, none, false), (4, 24, 2, none, false)].map callModel := by
  decide +kernel

end SE.Proofs.C14
