/- C14 — property theorems (to be written). -/
import SoundeventModel.Basic
namespace SE.Proofs.C14

end SE.Proofs.C14
