/-
  C20 — Rasterisation marks exactly the bins a geometry covers, on the template's axes.
  Property theorems only (helper lemmas live in Proofs/Lemmas/Raster.lean, Proofs/Lemmas/Axis.lean).
-/
import SoundeventModel.Raster
import Proofs.Lemmas.Axis
import Proofs.Lemmas.Raster
import Proofs.Lemmas.Extend
namespace SE.Proofs.C20
open SE SE.Axis SE.Raster

/-! ## which bins a box covers -/

/-- a cell's centre lies in the index-space box iff the cell lies between the start bin
    (inclusive) and the end bin (exclusive) on each axis; a box whose start and end fall into the
    same bin covers nothing -/
theorem C20_box_bins (b : IBox) (i j : Nat) :
    covered b i j = true ↔ (b.ix0 ≤ i ∧ i < b.ix1) ∧ (b.iy0 ≤ j ∧ j < b.iy1) := by
  simp only [covered, decide_eq_true_eq, natCast_le_add_half, add_half_le_natCast]
  constructor <;> intro h <;> grind

/-- the start / end bin of a box is the bin containing that coordinate: inside the axis range the
    unique `b` with `coords[b] ≤ v < coords[b+1]` (the last bin at the upper edge); below the axis
    bin `0`, above it the axis size (one past the last bin, so that a box reaching beyond the axis
    covers the last bin and a box wholly beyond it covers nothing) -/
theorem C20_bin_of_start (coords : List Rat) (v : Rat) (hs : Sorted coords) (hne : coords ≠ []) :
    (v < coords.head hne → binOf coords v = 0) ∧
    (coords.getLast hne < v → binOf coords v = coords.length) ∧
    (coords.head hne ≤ v → v ≤ coords.getLast hne →
      ∃ hb : binOf coords v < coords.length, coords[binOf coords v] ≤ v ∧
        (∀ h : binOf coords v + 1 < coords.length, v < coords[binOf coords v + 1])) := by
  have hlen : 0 < coords.length := List.length_pos_iff.mpr hne
  refine ⟨?_, ?_, ?_⟩
  · intro h; simp [binOf_sorted coords v hs hne, h]
  · intro h
    have hfl : coords.head hne ≤ coords.getLast hne := by
      rw [List.getLast_eq_getElem]; exact sorted_head_le hs hne _ (by omega)
    have h1 : ¬ v < coords.head hne := by grind
    have h2 : v > coords.getLast hne := h
    simp [binOf_sorted coords v hs hne, h1, h2]
  · intro hlo hhi
    have h1 : ¬ v < coords.head hne := by grind
    have h2 : ¬ v > coords.getLast hne := by grind
    have h0 : 0 < countLE coords v := by
      rw [lt_countLE_iff hs v 0 hlen, ← List.head_eq_getElem]; exact hlo
    have hle := countLE_le_length coords v
    simp only [binOf_sorted coords v hs hne, h1, h2, if_false]
    refine ⟨by omega, (lt_countLE_iff hs v _ (by omega)).mp (by omega), ?_⟩
    intro h
    have hnot : ¬ (countLE coords v - 1 + 1 < countLE coords v) := by omega
    exact Rat.not_le.mp (mt (lt_countLE_iff hs v _ h).mpr hnot)

/-- the covered bins in terms of the axis coordinates: bin `i` of a sorted axis lies between the
    start bin of `s` (inclusive) and the end bin of `e` (exclusive) iff its right edge
    `coords[i+1]` lies in `(s, e]`; the last bin, which has no right edge, iff `s ≤ last < e` -/
theorem C20_bins_by_coordinates (coords : List Rat) (s e : Rat) (hs : Sorted coords) (hne : coords ≠ [])
    (i : Nat) (hi : i < coords.length) :
    (binOf coords s ≤ i ∧ i < binOf coords e) ↔
      (if h : i + 1 < coords.length then s < coords[i + 1] ∧ coords[i + 1] ≤ e
       else s ≤ coords.getLast hne ∧ coords.getLast hne < e) := by
  have h1 := binOf_le_iff coords s hs hne i hi
  have h2 := binOf_le_iff coords e hs hne i hi
  have h3 : i < binOf coords e ↔ ¬ binOf coords e ≤ i := by omega
  rw [h1, h3, h2]
  split <;> simp [Rat.not_lt, Rat.not_le]

/-! ## overwrite order and fill -/

/-- every cell of the raster holds the value of the last box (in list order) covering it, or the
    fill value when no box covers it -/
theorem C20_cell_value (nx ny : Nat) (boxes : List IBox) (fill : Rat) (i j : Nat) (hi : i < nx) (hj : j < ny) :
    cell (rasterBoxes nx ny boxes fill) i j =
      some (match boxes.reverse.find? (fun b => covered b i j) with
            | some b => b.val
            | none => fill) := by
  simp only [rasterBoxes, cell_foldl_burn, cell_replicate nx ny fill i j hi hj, Option.map_some,
    foldl_overwrite]
  rfl

/-- later geometries overwrite earlier ones: appending a box sets exactly its cells to its value
    and leaves every other cell as it was -/
theorem C20_last_wins (nx ny : Nat) (boxes : List IBox) (b : IBox) (fill : Rat) (i j : Nat)
    (hi : i < nx) (hj : j < ny) :
    cell (rasterBoxes nx ny (boxes ++ [b]) fill) i j =
      if covered b i j then some b.val else cell (rasterBoxes nx ny boxes fill) i j := by
  rw [C20_cell_value nx ny _ fill i j hi hj, C20_cell_value nx ny boxes fill i j hi hj]
  simp only [List.reverse_append, List.reverse_cons, List.reverse_nil, List.nil_append,
    List.cons_append, List.find?_cons]
  by_cases hc : covered b i j = true <;> simp [hc]

/-- a cell no geometry covers holds the fill value -/
theorem C20_untouched_fill (nx ny : Nat) (boxes : List IBox) (fill : Rat) (i j : Nat) (hi : i < nx)
    (hj : j < ny) (h : ∀ b ∈ boxes, covered b i j = false) :
    cell (rasterBoxes nx ny boxes fill) i j = some fill := by
  rw [C20_cell_value nx ny boxes fill i j hi hj]
  have : boxes.reverse.find? (fun b => covered b i j) = none := by
    rw [List.find?_eq_none]
    intro b hb; simp [h b (List.mem_reverse.mp hb)]
  rw [this]

/-! ## axes, values -/

/-- the result is labelled with the template's time and frequency coordinates, in that order, and
    has `nt` rows of `nf` cells — for either dimension order of the template (the model does not
    read the template's contents at all), and the whole result is the same for both orders -/
theorem C20_axes (t : Template) (geoms : List RGeom) (values : Values) (fill : Rat) (at' : Bool) :
    (∀ r, rasterize t geoms values fill at' = .ok r →
      r.time = t.time ∧ r.freq = t.freq ∧ r.grid.length = t.time.length ∧
      ∀ row ∈ r.grid, row.length = t.freq.length) ∧
    rasterize { t with timeFirst := !t.timeFirst } geoms values fill at' = rasterize t geoms values fill at' := by
  constructor
  · intro r h
    simp only [rasterize] at h
    split at h
    · simp at h
    · cases h
      exact ⟨rfl, rfl, (rasterBoxes_shape _ _ _ _).1, (rasterBoxes_shape _ _ _ _).2⟩
  · simp only [rasterize]
    split
    · rfl
    · rfl

/-- a value list whose length differs from the geometry list is rejected, and only that -/
theorem C20_values_length_rejected (t : Template) (geoms : List RGeom) (vs : List Rat) (fill : Rat) (at' : Bool) :
    (vs.length ≠ geoms.length → rasterize t geoms (.many vs) fill at' = .error .invalid) ∧
    (vs.length = geoms.length → ∃ r, rasterize t geoms (.many vs) fill at' = .ok r) := by
  constructor
  · intro h; simp [rasterize, expandValues, h]
  · intro h; simp [rasterize, expandValues, h]

/-- a single value stands for that value repeated for every geometry (never rejected) -/
theorem C20_scalar_value (t : Template) (geoms : List RGeom) (v : Rat) (fill : Rat) (at' : Bool) :
    rasterize t geoms (.one v) fill at' = rasterize t geoms (.many (List.replicate geoms.length v)) fill at' ∧
    ∃ r, rasterize t geoms (.one v) fill at' = .ok r := by
  constructor
  · rfl
  · simp [rasterize, expandValues]

/-- the statement the polygon monitor evaluates on the real output ("a cell is burnt iff its centre
    lies inside the index-space polygon by the even–odd rule, cells whose centre is on the boundary
    left open") specialises, on the ring of a proper integer-cornered box, to the box rule
    `covered`: no cell centre lies on the boundary, and centre-inside = `covered` -/
theorem C20_box_centre_rule (b : IBox) (i j : Nat) (hx : b.ix0 < b.ix1) (hy : b.iy0 < b.iy1) :
    onBoundary [boxRing b] ((i : Rat) + 1 / 2, (j : Rat) + 1 / 2) = false ∧
    insideRings [boxRing b] ((i : Rat) + 1 / 2, (j : Rat) + 1 / 2) = covered b i j := by
  have hyr : (b.iy0 : Rat) < (b.iy1 : Rat) := Rat.natCast_lt_natCast.mpr hy
  constructor
  · have a1 := add_half_ne_natCast b.ix0 i
    have a2 := add_half_ne_natCast b.ix1 i
    have a3 := add_half_ne_natCast b.iy0 j
    have a4 := add_half_ne_natCast b.iy1 j
    simp only [onBoundary, boxRing, ringEdges, List.any_cons, List.any_nil, onSegment, Bool.or_false]
    simp
    refine ⟨?_, ?_, ?_, ?_⟩ <;> intro _ <;> grind
  · simp only [insideRings, boxRing, ringEdges, List.map_cons, List.map_nil, List.foldl_cons, List.foldl_nil,
      ← List.countP_eq_length_filter, List.countP_cons, List.countP_nil, crosses_horizontal,
      crosses_vertical_up _ _ _ _ _ hyr, crosses_vertical_down _ _ _ _ _ hyr, covered]
    simp only [natCast_le_add_half, add_half_le_natCast, add_half_lt_natCast]
    by_cases g1 : i < b.ix0 <;> by_cases g2 : i < b.ix1 <;> by_cases g3 : b.iy0 ≤ j <;> by_cases g4 : b.iy1 ≤ j <;>
      simp [g1, g2, g3, g4] <;> omega

/-! ## every geometry type: the rasteriser as a parameter -/

/-- every geometry type, any rasteriser `B`: every cell of the result holds the value of the *last*
    geometry (in list order) whose index-space image burns it, or the fill value when none does —
    "later geometries overwrite earlier ones, untouched cells hold the fill value" for the whole of
    `rasterize`, with rasterio / GDAL as the parameter -/
theorem C20_general_cell (B : Burner) (t : Template) (geoms : List Geom) (values : Values) (fill : Rat)
    (at' : Bool) (r : Raster) (h : rasterizeG B t geoms values fill at' = .ok r) (i j : Nat)
    (hi : i < t.time.length) (hj : j < t.freq.length) :
    cell r.grid i j =
      some (match (List.zip geoms (expandValues values geoms.length)).reverse.find?
                (fun p => B (image t p.1) at' t.time.length t.freq.length i j) with
            | some p => p.2
            | none => fill) := by
  simp only [rasterizeG, rasterizeM] at h
  split at h
  · cases h
  · cases h
    simp only [cell_rasterMasks _ _ _ _ i j hi hj, List.zip_map_left, ← List.map_reverse, List.find?_map]
    have hfun : ((fun p : Mask × Rat => p.1 i j) ∘ Prod.map (fun g => B (image t g) at' t.time.length t.freq.length) id)
        = (fun p : Geom × Rat => B (image t p.1) at' t.time.length t.freq.length i j) := rfl
    rw [hfun]
    cases (List.zip geoms (expandValues values geoms.length)).reverse.find?
      (fun p : Geom × Rat => B (image t p.1) at' t.time.length t.freq.length i j) with
    | none => rfl
    | some p => rfl

/-- every geometry type, any rasteriser: the result is labelled with the template's time and
    frequency coordinates, has `nt` rows of `nf` cells, and is the same for both dimension orders -/
theorem C20_general_axes (B : Burner) (t : Template) (geoms : List Geom) (values : Values) (fill : Rat) (at' : Bool) :
    (∀ r, rasterizeG B t geoms values fill at' = .ok r →
      r.time = t.time ∧ r.freq = t.freq ∧ r.grid.length = t.time.length ∧
      ∀ row ∈ r.grid, row.length = t.freq.length) ∧
    rasterizeG B { t with timeFirst := !t.timeFirst } geoms values fill at' = rasterizeG B t geoms values fill at' := by
  constructor
  · intro r h
    simp only [rasterizeG, rasterizeM] at h
    split at h
    · cases h
    · cases h
      exact ⟨rfl, rfl, (rasterMasks_shaped _ _ _ _).1, (rasterMasks_shaped _ _ _ _).2⟩
  · rfl

/-- every geometry type, any rasteriser: a value list of the wrong length is rejected and only
    that; one value stands for that value repeated and is never rejected -/
theorem C20_general_values (B : Burner) (t : Template) (geoms : List Geom) (fill : Rat) (at' : Bool) :
    (∀ vs : List Rat, vs.length ≠ geoms.length → rasterizeG B t geoms (.many vs) fill at' = .error .invalid) ∧
    (∀ vs : List Rat, vs.length = geoms.length → ∃ r, rasterizeG B t geoms (.many vs) fill at' = .ok r) ∧
    (∀ v : Rat, rasterizeG B t geoms (.one v) fill at' =
        rasterizeG B t geoms (.many (List.replicate geoms.length v)) fill at' ∧
      ∃ r, rasterizeG B t geoms (.one v) fill at' = .ok r) := by
  refine ⟨?_, ?_, ?_⟩
  · intro vs h; simp [rasterizeG, rasterizeM, expandValues, h]
  · intro vs h; simp [rasterizeG, rasterizeM, expandValues, h]
  · intro v
    constructor
    · rfl
    · simp [rasterizeG, rasterizeM, expandValues]


/-- under the box rule (contract `rasterio-box-rule`, evaluated exhaustively on the library every
    run) the general model restricted to bounding boxes and time intervals *is* the box model, so
    every theorem about `rasterize` holds of `rasterizeG` on those geometries -/
theorem C20_general_box (B : Burner) (hB : BoxRule B) (t : Template) (geoms : List RGeom) (values : Values)
    (fill : Rat) (at' : Bool) :
    rasterizeG B t (geoms.map RGeom.toGeom) values fill at' = rasterize t geoms values fill at' := by
  simp only [rasterizeG, rasterizeM, rasterize, List.length_map]
  split
  · rfl
  · simp only [rasterMasks, rasterBoxes]
    rw [foldl_box_masks B hB t at' geoms _ _ (replicate_shaped _ _ _)]

/-- under the point rule (contract `rasterio-point-rule`) a `Point` marks exactly the cell
    `(bin of its time, bin of its frequency)` — by `C20_bin_of_start` the bin containing it, bin `0`
    when it lies below an axis, and nothing at all when it lies beyond one (index = axis size) -/
theorem C20_point_cell (B : Burner) (hB : PointRule B) (t : Template) (x f v fill : Rat) (at' : Bool) (r : Raster)
    (h : rasterizeG B t [.point x f] (.one v) fill at' = .ok r) (i j : Nat)
    (hi : i < t.time.length) (hj : j < t.freq.length) :
    cell r.grid i j = some (if i = binOf t.time x ∧ j = binOf t.freq f then v else fill) := by
  rw [C20_general_cell B t _ _ fill at' r h i j hi hj]
  simp only [expandValues, List.length_cons, List.length_nil, List.replicate, List.zip_cons_cons, List.zip_nil_right,
    List.reverse_cons, List.reverse_nil, List.nil_append, List.find?_cons, List.find?_nil, image, binPt,
    hB _ at' _ _ i j hi hj]
  by_cases h1 : i = binOf t.time x <;> by_cases h2 : j = binOf t.freq f <;> simp [h1, h2]

/-- the property's main clause for a general polygon, under the centre rule of the rasteriser for
    the polygon's image (monitored on the library for every generated polygon): a cell whose centre is
    off the boundary of the polygon mapped to bin indices holds the polygon's value exactly when the
    centre lies inside it (even–odd over shell and holes), else the fill value -/
theorem C20_polygon_centre_rule (B : Burner) (t : Template) (rings : List (List Pt)) (v fill : Rat) (r : Raster)
    (hB : CentreRule B (rings.map (fun r => (closeRing r).map (binPt t))) t.time.length t.freq.length)
    (h : rasterizeG B t [.polygon rings] (.one v) fill false = .ok r) (i j : Nat)
    (hi : i < t.time.length) (hj : j < t.freq.length)
    (hoff : onBoundary (ratRings (rings.map (fun r => (closeRing r).map (binPt t)))) (centre i j) = false) :
    cell r.grid i j =
      some (if insideRings (ratRings (rings.map (fun r => (closeRing r).map (binPt t)))) (centre i j) then v else fill) := by
  rw [C20_general_cell B t _ _ fill false r h i j hi hj]
  simp only [expandValues, List.length_cons, List.length_nil, List.replicate, List.zip_cons_cons, List.zip_nil_right,
    List.reverse_cons, List.reverse_nil, List.nil_append, List.find?_cons, List.find?_nil, image,
    hB i j hi hj hoff]
  cases insideRings (ratRings (rings.map (fun r => (closeRing r).map (binPt t)))) (centre i j) <;> rfl

/-- `all_touched` only ever adds cells: if the rasteriser's all-touched cells of every geometry's
    image include its plain cells (monitored per geometry; fails for line geometries: known finding
    C20-K1), then a cell burnt by some geometry without `all_touched` is burnt by some geometry with
    it, and a cell untouched with `all_touched` holds the fill value in both rasters -/
theorem C20_all_touched_adds (B : Burner) (t : Template) (geoms : List Geom) (values : Values) (fill : Rat)
    (r0 r1 : Raster)
    (hB : ∀ g ∈ geoms, TouchedSuperset B (image t g) t.time.length t.freq.length)
    (h0 : rasterizeG B t geoms values fill false = .ok r0) (h1 : rasterizeG B t geoms values fill true = .ok r1)
    (i j : Nat) (hi : i < t.time.length) (hj : j < t.freq.length) :
    ((∃ g ∈ geoms, B (image t g) false t.time.length t.freq.length i j = true) →
      ∃ g ∈ geoms, B (image t g) true t.time.length t.freq.length i j = true) ∧
    ((∀ g ∈ geoms, B (image t g) true t.time.length t.freq.length i j = false) →
      cell r1.grid i j = some fill ∧ cell r0.grid i j = some fill) := by
  constructor
  · rintro ⟨g, hg, hb⟩
    exact ⟨g, hg, hB g hg i j hi hj hb⟩
  · intro hnone
    have hnone0 : ∀ g ∈ geoms, B (image t g) false t.time.length t.freq.length i j = false := by
      intro g hg
      cases hb : B (image t g) false t.time.length t.freq.length i j with
      | false => rfl
      | true => have := hB g hg i j hi hj hb; rw [hnone g hg] at this; cases this
    rw [C20_general_cell B t _ _ fill true r1 h1 i j hi hj, C20_general_cell B t _ _ fill false r0 h0 i j hi hj]
    have e1 : (List.zip geoms (expandValues values geoms.length)).reverse.find?
        (fun p => B (image t p.1) true t.time.length t.freq.length i j) = none := by
      rw [List.find?_eq_none]
      intro p hp
      simp [hnone p.1 (List.of_mem_zip (List.mem_reverse.mp hp)).1]
    have e0 : (List.zip geoms (expandValues values geoms.length)).reverse.find?
        (fun p => B (image t p.1) false t.time.length t.freq.length i j) = none := by
      rw [List.find?_eq_none]
      intro p hp
      simp [hnone0 p.1 (List.of_mem_zip (List.mem_reverse.mp hp)).1]
    rw [e1, e0]
    exact ⟨rfl, rfl⟩

/-- `rasterize(geometries, array)`: one value `1` for all geometries, fill `0`, no `all_touched`
    (the defaults are re-extracted from the signature on every run: obligation `rasterize_defaults`) -/
theorem C20_defaults (B : Burner) (t : Template) (geoms : List Geom) :
    rasterizeD B t geoms none none none = rasterizeG B t geoms (.one 1) 0 false := rfl

/-- the bin lookup of the model is the straight-line function `clampIndexR` that the symbolic
    trace of `get_coord_index(raise_error=False)` is proved equal to for all inputs (obligation
    `ext_get_coord_index_clamp`), applied to the axis range, the axis size and `#{c ≤ v}` -/
theorem C20_clamp_index (coords : List Rat) (v : Rat) (hs : Sorted coords) (hne : coords ≠ []) :
    ((binOf coords v : Nat) : Rat) =
      clampIndexR (coords.head hne) (coords.getLast hne) v coords.length (countLE coords v) := by
  have hlen : 0 < coords.length := List.length_pos_iff.mpr hne
  rw [binOf_sorted coords v hs hne]
  unfold clampIndexR
  by_cases h1 : v < coords.head hne
  · simp [h1]
  · by_cases h2 : v > coords.getLast hne
    · simp [h1, h2]
    · have h0 : 0 < countLE coords v := by
        rw [lt_countLE_iff hs v 0 hlen, ← List.head_eq_getElem hne]; exact Rat.not_lt.mp h1
      simp only [h1, h2, if_false, or_self]
      exact natCast_pred h0


/-- end to end, in terms of the template's coordinates only: on increasing axes every cell `(i, j)`
    of `rasterize`'s result holds the value of the last bounding box / time interval whose time span
    covers bin `i` and whose frequency span covers bin `j` (`spanCovers`: the bin's right edge lies in
    `(start, end]`; for the last bin `start ≤ last < end`), else the fill value -/
theorem C20_box_cells_by_coordinates (t : Template) (hst : Sorted t.time) (hsf : Sorted t.freq)
    (hnt : t.time ≠ []) (hnf : t.freq ≠ []) (geoms : List RGeom) (values : Values) (fill : Rat) (at' : Bool)
    (r : Raster) (h : rasterize t geoms values fill at' = .ok r) (i j : Nat)
    (hi : i < t.time.length) (hj : j < t.freq.length) :
    cell r.grid i j =
      some (match (List.zip geoms (expandValues values geoms.length)).reverse.find?
                (fun p => coversCell t p.1 i j) with
            | some p => p.2
            | none => fill) := by
  simp only [rasterize] at h
  split at h
  · cases h
  · cases h
    simp only [C20_cell_value _ _ _ _ i j hi hj, ← List.map_uncurry_zip_eq_zipWith, ← List.map_reverse,
      List.find?_map]
    have hfun : ((fun b : IBox => covered b i j) ∘ Function.uncurry (toIBox t))
        = (fun p : RGeom × Rat => coversCell t p.1 i j) := by
      funext p
      exact covered_toIBox t hst hsf hnt hnf p.1 p.2 i j hi hj
    rw [hfun]
    cases (List.zip geoms (expandValues values geoms.length)).reverse.find?
      (fun p : RGeom × Rat => coversCell t p.1 i j) with
    | none => rfl
    | some p =>
      obtain ⟨g, v⟩ := p
      cases g <;> rfl


/-! ## regular (range) axes: every lattice point and every bin centre (follow-up: HISTORIES.md 4) -/

/-- on a regular axis `start, start + step, …` (what `create_time_range` / `create_frequency_range`
    build) a position in `[start + k·step, start + (k+1)·step)` that is not beyond the last coordinate
    lies in bin `k` -/
theorem C20_lattice_bin (start step : Rat) (n k : Nat) (v : Rat) (hs : 0 < step) (hk : k < n)
    (h1 : start + (k : Rat) * step ≤ v) (h2 : v < start + ((k : Rat) + 1) * step)
    (h3 : v ≤ start + ((n - 1 : Nat) : Rat) * step) :
    binOf (lattice start step n) v = k := by
  have hne := lattice_ne_nil start step n (by omega)
  have hsorted := lattice_sorted start step n (Rat.le_of_lt hs)
  have hhead : (lattice start step n).head hne = start := by
    rw [List.head_eq_getElem, lattice_getElem]; simp; grind
  have hlast : (lattice start step n).getLast hne = start + ((n - 1 : Nat) : Rat) * step := by
    rw [List.getLast_eq_getElem, lattice_getElem]; simp
  have hk0 : (0 : Rat) ≤ (k : Rat) * step := Rat.mul_nonneg (natCast_nonneg k) (Rat.le_of_lt hs)
  obtain ⟨hb, hle, hlt⟩ := (C20_bin_of_start (lattice start step n) v hsorted hne).2.2
    (by rw [hhead]; grind) (by rw [hlast]; exact h3)
  rw [lattice_getElem] at hle
  have hbn : binOf (lattice start step n) v < n := by simpa using hb
  rcases Nat.lt_trichotomy (binOf (lattice start step n) v) k with hlt' | heq | hgt
  · exfalso
    have hb1 : binOf (lattice start step n) v + 1 < (lattice start step n).length := by simp; omega
    have := hlt hb1
    rw [lattice_getElem] at this
    have hc : ((binOf (lattice start step n) v + 1 : Nat) : Rat) ≤ (k : Rat) := Rat.natCast_le_natCast.mpr (by omega)
    have := Rat.mul_le_mul_of_nonneg_right hc (Rat.le_of_lt hs)
    grind
  · exact heq
  · exfalso
    have hc : ((k + 1 : Nat) : Rat) ≤ ((binOf (lattice start step n) v : Nat) : Rat) := Rat.natCast_le_natCast.mpr (by omega)
    have := Rat.mul_le_mul_of_nonneg_right hc (Rat.le_of_lt hs)
    simp at this
    grind


/-- every lattice point `start + k·step` lies in bin `k` (never in bin `k - 1`: a box that starts on a
    bin edge starts in that bin, a box that ends on it does not include it) and every bin centre in its
    own bin - the statement the lattice sweep of the check evaluates on the real code for every point of
    non-dyadic axes, where binary64 quotients `(v - start) / step` fall below the integer -/
theorem C20_lattice_point_bin (start step : Rat) (n k : Nat) (hs : 0 < step) (hk : k < n) :
    binOf (lattice start step n) (start + (k : Rat) * step) = k ∧
    (k + 1 < n → binOf (lattice start step n) (start + (k : Rat) * step + step / 2) = k) := by
  have hkn : (k : Rat) ≤ ((n - 1 : Nat) : Rat) := Rat.natCast_le_natCast.mpr (by omega)
  have hmul := Rat.mul_le_mul_of_nonneg_right hkn (Rat.le_of_lt hs)
  refine ⟨C20_lattice_bin start step n k _ hs hk (Rat.le_refl) (by grind) (by grind), ?_⟩
  intro hk1
  have hkn1 : ((k + 1 : Nat) : Rat) ≤ ((n - 1 : Nat) : Rat) := Rat.natCast_le_natCast.mpr (by omega)
  have hmul1 := Rat.mul_le_mul_of_nonneg_right hkn1 (Rat.le_of_lt hs)
  simp at hmul1
  exact C20_lattice_bin start step n k _ hs hk (by grind) (by grind) (by grind)

/-- over the rationals the arithmetic locator is right: inside the axis the bin is `⌊(v - start) / step⌋`.
    An implementation that computes the bin this way in binary64 differs from the lookup only through
    rounding (which the model cannot exhibit and the lattice sweep probes on the real code) -/
theorem C20_lattice_floor (start step : Rat) (n : Nat) (v : Rat) (hs : 0 < step) (hn : 0 < n)
    (hlo : start ≤ v) (hhi : v ≤ start + ((n - 1 : Nat) : Rat) * step) :
    binOf (lattice start step n) v = ((v - start) / step).floor.toNat := by
  have hne : step ≠ 0 := by grind
  have hq : (v - start) / step * step = v - start := Rat.div_mul_cancel hne
  have hq0 : 0 ≤ (v - start) / step := by
    rw [Rat.div_def]
    exact Rat.mul_nonneg (by grind) (Rat.le_of_lt (Rat.inv_pos.mpr hs))
  have hf0 : 0 ≤ ((v - start) / step).floor := Rat.le_floor_iff.mpr (by simpa using hq0)
  obtain ⟨k, hk⟩ : ∃ k : Nat, ((v - start) / step).floor = (k : Int) := ⟨_, (Int.toNat_of_nonneg hf0).symm⟩
  have hfl : (k : Rat) ≤ (v - start) / step := by
    have := Rat.floor_le ((v - start) / step)
    rw [hk] at this; simpa [Rat.intCast_natCast] using this
  have hfu : (v - start) / step < (k : Rat) + 1 := by
    have := Rat.lt_floor_add_one ((v - start) / step)
    rw [hk] at this; simpa [Rat.intCast_natCast] using this
  have h1 : start + (k : Rat) * step ≤ v := by
    have := Rat.mul_le_mul_of_nonneg_right hfl (Rat.le_of_lt hs)
    grind
  have h2 : v < start + ((k : Rat) + 1) * step := by
    have := Rat.mul_lt_mul_of_pos_right hfu hs
    grind
  have hkn : k < n := by
    rcases Nat.lt_or_ge k n with h | h
    · exact h
    · exfalso
      have hc : (((n - 1 : Nat) + 1 : Nat) : Rat) ≤ (k : Rat) := Rat.natCast_le_natCast.mpr (by omega)
      have := Rat.mul_le_mul_of_nonneg_right hc (Rat.le_of_lt hs)
      simp at this
      grind
  rw [C20_lattice_bin start step n k v hs hkn h1 h2 hhi, hk]
  simp


/-! ## the call and its history (follow-up: HISTORIES.md 1, 2) -/

/-- positional versus keyword: passing the first `k` of the optional arguments positionally, in the
    documented order `values, fill, dtype, xdim, ydim, all_touched`, and the rest by keyword binds
    exactly like the all-keyword call, for every `k` - never a `TypeError`, always the same raster -/
theorem C20_positional_call (B : Burner) (t : Template) (geoms : List Geom) (vals : List Arg)
    (hlen : vals.length ≤ optionalOrder.length) (k : Nat) (hk : k ≤ vals.length) :
    rasterizeCall B t geoms (vals.take k) ((optionalOrder.zip vals).drop k) =
        some (rasterizeBound B t geoms (optionalOrder.zip vals)) ∧
    rasterizeCall B t geoms (vals.take k) ((optionalOrder.zip vals).drop k) =
        rasterizeCall B t geoms [] (optionalOrder.zip vals) := by
  have h0 := bindCall_split optionalOrder optionalOrder_nodup vals hlen 0 (Nat.zero_le _)
  simp only [List.take_zero, List.drop_zero] at h0
  simp [rasterizeCall, bindCall_split optionalOrder optionalOrder_nodup vals hlen k hk, h0]

/-- what the bound arguments mean: values, fill and all_touched are the ones written, whatever is
    written for dtype and the dimension names -/
theorem C20_bound_arguments (B : Burner) (t : Template) (geoms : List Geom) (vs : Values) (f : Rat) (a : Bool)
    (d x y : Arg) :
    rasterizeBound B t geoms (optionalOrder.zip [.values vs, .num f, d, x, y, .flag a]) =
      rasterizeG B t geoms vs f a := by
  simp [rasterizeBound, optionalOrder, paramOrder, rasterizeD, List.lookup, Arg.values?, Arg.num?, Arg.flag?]

/-- histories: after any history of calls and of rasters edited by the caller, further calls return the
    answers to their own requests alone and leave every raster the caller already holds as it is (the
    code keeps no state: every step of a history is judged by the base model) -/
theorem C20_history_independent (B : Burner) (evs : List Event) (calls : List Request) :
    runSession B (evs ++ calls.map Event.call) = runSession B evs ++ calls.map (answer B) := by
  rw [runSession_append, foldl_step_calls]

/-- a caller who overwrites the raster it was given changes that raster only -/
theorem C20_poison_local (B : Burner) (evs : List Event) (k : Nat) (g : Grid) (i : Nat) (h : i ≠ k) :
    (runSession B (evs ++ [.poison k g]))[i]? = (runSession B evs)[i]? := by
  rw [runSession_append]
  simp only [List.foldl_cons, List.foldl_nil, step]
  rw [List.getElem?_modify]
  simp [Ne.symm h]


-- non-vacuity
example : binOf [0, 1/4, 1/2, 3/4] (3/10) = 1 := by decide +kernel
example : binOf [0, 1/4, 1/2, 3/4] 2 = 4 := by decide +kernel
example : rasterBoxes 3 2 [⟨0, 0, 2, 1, 5⟩, ⟨1, 0, 3, 2, 7/2⟩] 0 = [[5, 0], [7/2, 7/2], [7/2, 7/2]] := by decide +kernel
example : rasterize ⟨true, [0, 1/4, 1/2, 3/4], [0, 100, 200]⟩ [.box (1/4) 100 (3/4) 300] (.one 1) 0 false
    = .ok ⟨[0, 1/4, 1/2, 3/4], [0, 100, 200], [[0, 0, 0], [0, 1, 1], [0, 1, 1], [0, 0, 0]]⟩ := by decide +kernel
example : rasterize ⟨false, [0], [0]⟩ [.interval 0 1] (.many []) 0 false = .error .invalid := by decide +kernel
example : centreRuleViolations 2 2 [boxRing ⟨0, 0, 1, 2, 1⟩] [[true, true], [false, false]] = [] := by decide +kernel
example : BoxRule refBurner ∧ PointRule refBurner := ⟨refBurner_boxRule, refBurner_pointRule⟩
example : image ⟨true, [0, 1/4, 1/2, 3/4], [0, 100, 200]⟩ (.timeStamp (3/10)) = .line [(1, 0), (1, 3)] := by decide +kernel
example : image ⟨true, [0, 1/4, 1/2, 3/4], [0, 100, 200]⟩ (.polygon [[(0, 0), (1/2, 150), (1, 50)]])
    = .poly [[(0, 0), (2, 1), (4, 0), (0, 0)]] := by decide +kernel
example : rasterizeG refBurner ⟨false, [0, 1/4, 1/2, 3/4], [0, 100, 200]⟩
    [.boundingBox (1/4) 100 (3/4) 300, .point (1/2) 150, .timeInterval 0 (1/4)] (.many [1, 1/2, 3]) (-1) true
    = .ok ⟨[0, 1/4, 1/2, 3/4], [0, 100, 200], [[3, 3, 3], [-1, 1, 1], [-1, 1/2, 1], [-1, -1, -1]]⟩ := by decide +kernel
example : rasterizeD refBurner ⟨true, [0, 1], [0]⟩ [.point 0 0] none none none = .ok ⟨[0, 1], [0], [[1], [0]]⟩ := by
  decide +kernel
example : CentreRule (fun s _ _ _ i j => match s with | .poly rs => insideRings (ratRings rs) (centre i j) | _ => false)
    [[(0, 0), (2, 1), (4, 0), (0, 0)]] 4 3 := fun _ _ _ _ _ => rfl
example : coversCell ⟨true, [0, 1/4, 1/2, 3/4], [0, 100, 200]⟩ (.box (1/4) 100 (3/4) 300) 1 2 = true := by decide +kernel
example : coversCell ⟨true, [0, 1/4, 1/2, 3/4], [0, 100, 200]⟩ (.box (1/4) 100 (3/4) 300) 3 2 = false := by decide +kernel
example : clampIndexR 0 (3/4) (3/10) 4 2 = 1 ∧ clampIndexR 0 (3/4) 2 4 4 = 4 ∧ clampIndexR 0 (3/4) (-1) 4 0 = 0 := by decide +kernel
example : binOf (lattice 0 (1/100) 100) (29/100) = 29 ∧ binOf (lattice 0 (1/100) 100) (29/100 + 1/200) = 29 := by decide +kernel
example : ((29/100 - 0 : Rat) / (1/100)).floor.toNat = 29 := by decide +kernel
example : rasterizeCall refBurner ⟨true, [0, 1], [0]⟩ [.point 0 0] [.num 5, .num (-1)] [("all_touched", .flag true)]
    = some (.ok ⟨[0, 1], [0], [[5], [-1]]⟩) := by decide +kernel
example : rasterizeCall refBurner ⟨true, [0, 1], [0]⟩ [.point 0 0] [.num 5] [("values", .num 3)] = none := by decide +kernel
example : rasterizeCall refBurner ⟨true, [0, 1], [0]⟩ [.point 0 0] [] [("colour", .num 3)] = none := by decide +kernel
example : runSession refBurner [.call ⟨⟨true, [0, 1], [0]⟩, [.point 0 0], none, none, none⟩, .poison 0 [[9], [9]],
      .call ⟨⟨true, [0, 1], [0]⟩, [.point 1 0], none, none, none⟩]
    = [.ok ⟨[0, 1], [0], [[9], [9]]⟩, .ok ⟨[0, 1], [0], [[0], [1]]⟩] := by decide +kernel

end SE.Proofs.C20
