/- C20 — property theorems (to be written). -/
import SoundeventModel.Basic
namespace SE.Proofs.C20

end SE.Proofs.C20
