/-
  C20 — Rasterisation marks exactly the bins a geometry covers, on the template's axes.
  Property theorems only (helper lemmas live in Proofs/Lemmas/Raster.lean, Proofs/Lemmas/Axis.lean).
-/
import SoundeventModel.Raster
import Proofs.Lemmas.Axis
import Proofs.Lemmas.Raster
namespace SE.Proofs.C20
open SE SE.Axis SE.Raster

/-! ## which bins a box covers -/

/-- a cell's centre lies in the index-space box iff the cell lies between the start bin
    (inclusive) and the end bin (exclusive) on each axis; a box whose start and end fall into the
    same bin covers nothing -/
theorem C20_box_bins (b : IBox) (i j : Nat) :
    covered b i j = true ↔ (b.ix0 ≤ i ∧ i < b.ix1) ∧ (b.iy0 ≤ j ∧ j < b.iy1) := by
  simp only [covered, decide_eq_true_eq, natCast_le_add_half, add_half_le_natCast]
  constructor <;> intro h <;> grind

/-- the start / end bin of a box is the bin containing that coordinate: inside the axis range the
    unique `b` with `coords[b] ≤ v < coords[b+1]` (the last bin at the upper edge); below the axis
    bin `0`, above it the axis size (one past the last bin, so that a box reaching beyond the axis
    covers the last bin and a box wholly beyond it covers nothing) -/
theorem C20_bin_of_start (coords : List Rat) (v : Rat) (hs : Sorted coords) (hne : coords ≠ []) :
    (v < coords.head hne → binOf coords v = 0) ∧
    (coords.getLast hne < v → binOf coords v = coords.length) ∧
    (coords.head hne ≤ v → v ≤ coords.getLast hne →
      ∃ hb : binOf coords v < coords.length, coords[binOf coords v] ≤ v ∧
        (∀ h : binOf coords v + 1 < coords.length, v < coords[binOf coords v + 1])) := by
  have hlen : 0 < coords.length := List.length_pos_iff.mpr hne
  refine ⟨?_, ?_, ?_⟩
  · intro h; simp [binOf_sorted coords v hs hne, h]
  · intro h
    have hfl : coords.head hne ≤ coords.getLast hne := by
      rw [List.getLast_eq_getElem]; exact sorted_head_le hs hne _ (by omega)
    have h1 : ¬ v < coords.head hne := by grind
    have h2 : v > coords.getLast hne := h
    simp [binOf_sorted coords v hs hne, h1, h2]
  · intro hlo hhi
    have h1 : ¬ v < coords.head hne := by grind
    have h2 : ¬ v > coords.getLast hne := by grind
    have h0 : 0 < countLE coords v := by
      rw [lt_countLE_iff hs v 0 hlen, ← List.head_eq_getElem]; exact hlo
    have hle := countLE_le_length coords v
    simp only [binOf_sorted coords v hs hne, h1, h2, if_false]
    refine ⟨by omega, (lt_countLE_iff hs v _ (by omega)).mp (by omega), ?_⟩
    intro h
    have hnot : ¬ (countLE coords v - 1 + 1 < countLE coords v) := by omega
    exact Rat.not_le.mp (mt (lt_countLE_iff hs v _ h).mpr hnot)

/-- the covered bins in terms of the axis coordinates: bin `i` of a sorted axis lies between the
    start bin of `s` (inclusive) and the end bin of `e` (exclusive) iff its right edge
    `coords[i+1]` lies in `(s, e]`; the last bin, which has no right edge, iff `s ≤ last < e` -/
theorem C20_bins_by_coordinates (coords : List Rat) (s e : Rat) (hs : Sorted coords) (hne : coords ≠ [])
    (i : Nat) (hi : i < coords.length) :
    (binOf coords s ≤ i ∧ i < binOf coords e) ↔
      (if h : i + 1 < coords.length then s < coords[i + 1] ∧ coords[i + 1] ≤ e
       else s ≤ coords.getLast hne ∧ coords.getLast hne < e) := by
  have h1 := binOf_le_iff coords s hs hne i hi
  have h2 := binOf_le_iff coords e hs hne i hi
  have h3 : i < binOf coords e ↔ ¬ binOf coords e ≤ i := by omega
  rw [h1, h3, h2]
  split <;> simp [Rat.not_lt, Rat.not_le]

/-! ## overwrite order and fill -/

/-- every cell of the raster holds the value of the last box (in list order) covering it, or the
    fill value when no box covers it -/
theorem C20_cell_value (nx ny : Nat) (boxes : List IBox) (fill : Int) (i j : Nat) (hi : i < nx) (hj : j < ny) :
    cell (rasterBoxes nx ny boxes fill) i j =
      some (match boxes.reverse.find? (fun b => covered b i j) with
            | some b => b.val
            | none => fill) := by
  simp only [rasterBoxes, cell_foldl_burn, cell_replicate nx ny fill i j hi hj, Option.map_some,
    foldl_overwrite]
  rfl

/-- later geometries overwrite earlier ones: appending a box sets exactly its cells to its value
    and leaves every other cell as it was -/
theorem C20_last_wins (nx ny : Nat) (boxes : List IBox) (b : IBox) (fill : Int) (i j : Nat)
    (hi : i < nx) (hj : j < ny) :
    cell (rasterBoxes nx ny (boxes ++ [b]) fill) i j =
      if covered b i j then some b.val else cell (rasterBoxes nx ny boxes fill) i j := by
  rw [C20_cell_value nx ny _ fill i j hi hj, C20_cell_value nx ny boxes fill i j hi hj]
  simp only [List.reverse_append, List.reverse_cons, List.reverse_nil, List.nil_append,
    List.cons_append, List.find?_cons]
  by_cases hc : covered b i j = true <;> simp [hc]

/-- a cell no geometry covers holds the fill value -/
theorem C20_untouched_fill (nx ny : Nat) (boxes : List IBox) (fill : Int) (i j : Nat) (hi : i < nx)
    (hj : j < ny) (h : ∀ b ∈ boxes, covered b i j = false) :
    cell (rasterBoxes nx ny boxes fill) i j = some fill := by
  rw [C20_cell_value nx ny boxes fill i j hi hj]
  have : boxes.reverse.find? (fun b => covered b i j) = none := by
    rw [List.find?_eq_none]
    intro b hb; simp [h b (List.mem_reverse.mp hb)]
  rw [this]

/-! ## axes, values -/

/-- the result is labelled with the template's time and frequency coordinates, in that order, and
    has `nt` rows of `nf` cells — for either dimension order of the template (the model does not
    read the template's contents at all), and the whole result is the same for both orders -/
theorem C20_axes (t : Template) (geoms : List RGeom) (values : Values) (fill : Int) (at' : Bool) :
    (∀ r, rasterize t geoms values fill at' = .ok r →
      r.time = t.time ∧ r.freq = t.freq ∧ r.grid.length = t.time.length ∧
      ∀ row ∈ r.grid, row.length = t.freq.length) ∧
    rasterize { t with timeFirst := !t.timeFirst } geoms values fill at' = rasterize t geoms values fill at' := by
  constructor
  · intro r h
    simp only [rasterize] at h
    split at h
    · simp at h
    · cases h
      exact ⟨rfl, rfl, (rasterBoxes_shape _ _ _ _).1, (rasterBoxes_shape _ _ _ _).2⟩
  · simp only [rasterize]
    split
    · rfl
    · rfl

/-- a value list whose length differs from the geometry list is rejected, and only that -/
theorem C20_values_length_rejected (t : Template) (geoms : List RGeom) (vs : List Int) (fill : Int) (at' : Bool) :
    (vs.length ≠ geoms.length → rasterize t geoms (.many vs) fill at' = .error .invalid) ∧
    (vs.length = geoms.length → ∃ r, rasterize t geoms (.many vs) fill at' = .ok r) := by
  constructor
  · intro h; simp [rasterize, expandValues, h]
  · intro h; simp [rasterize, expandValues, h]

/-- a single value stands for that value repeated for every geometry (never rejected) -/
theorem C20_scalar_value (t : Template) (geoms : List RGeom) (v : Int) (fill : Int) (at' : Bool) :
    rasterize t geoms (.one v) fill at' = rasterize t geoms (.many (List.replicate geoms.length v)) fill at' ∧
    ∃ r, rasterize t geoms (.one v) fill at' = .ok r := by
  constructor
  · rfl
  · simp [rasterize, expandValues]

/-- the statement the polygon monitor evaluates on the real output ("a cell is burnt iff its centre
    lies inside the index-space polygon by the even–odd rule, cells whose centre is on the boundary
    left open") specialises, on the ring of a proper integer-cornered box, to the box rule
    `covered`: no cell centre lies on the boundary, and centre-inside = `covered` -/
theorem C20_box_centre_rule (b : IBox) (i j : Nat) (hx : b.ix0 < b.ix1) (hy : b.iy0 < b.iy1) :
    onBoundary [boxRing b] ((i : Rat) + 1 / 2, (j : Rat) + 1 / 2) = false ∧
    insideRings [boxRing b] ((i : Rat) + 1 / 2, (j : Rat) + 1 / 2) = covered b i j := by
  have hyr : (b.iy0 : Rat) < (b.iy1 : Rat) := Rat.natCast_lt_natCast.mpr hy
  constructor
  · have a1 := add_half_ne_natCast b.ix0 i
    have a2 := add_half_ne_natCast b.ix1 i
    have a3 := add_half_ne_natCast b.iy0 j
    have a4 := add_half_ne_natCast b.iy1 j
    simp only [onBoundary, boxRing, ringEdges, List.any_cons, List.any_nil, onSegment, Bool.or_false]
    simp
    refine ⟨?_, ?_, ?_, ?_⟩ <;> intro _ <;> grind
  · simp only [insideRings, boxRing, ringEdges, List.map_cons, List.map_nil, List.foldl_cons, List.foldl_nil,
      ← List.countP_eq_length_filter, List.countP_cons, List.countP_nil, crosses_horizontal,
      crosses_vertical_up _ _ _ _ _ hyr, crosses_vertical_down _ _ _ _ _ hyr, covered]
    simp only [natCast_le_add_half, add_half_le_natCast, add_half_lt_natCast]
    by_cases g1 : i < b.ix0 <;> by_cases g2 : i < b.ix1 <;> by_cases g3 : b.iy0 ≤ j <;> by_cases g4 : b.iy1 ≤ j <;>
      simp [g1, g2, g3, g4] <;> omega

-- non-vacuity
example : binOf [0, 1/4, 1/2, 3/4] (3/10) = 1 := by decide +kernel
example : binOf [0, 1/4, 1/2, 3/4] 2 = 4 := by decide +kernel
example : rasterBoxes 3 2 [⟨0, 0, 2, 1, 5⟩, ⟨1, 0, 3, 2, 7⟩] 0 = [[5, 0], [7, 7], [7, 7]] := by decide +kernel
example : rasterize ⟨true, [0, 1/4, 1/2, 3/4], [0, 100, 200]⟩ [.box (1/4) 100 (3/4) 300] (.one 1) 0 false
    = .ok ⟨[0, 1/4, 1/2, 3/4], [0, 100, 200], [[0, 0, 0], [0, 1, 1], [0, 1, 1], [0, 0, 0]]⟩ := by decide +kernel
example : rasterize ⟨false, [0], [0]⟩ [.interval 0 1] (.many []) 0 false = .error .invalid := by decide +kernel
example : centreRuleViolations 2 2 [boxRing ⟨0, 0, 1, 2, 1⟩] [[true, true], [false, false]] = [] := by decide +kernel

end SE.Proofs.C20
