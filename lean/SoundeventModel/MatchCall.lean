/-
  C07, follow-up "histories and construction paths": what surrounds `selectMatches`.

  * the call protocol of `match_geometries(source, target, time_buffer=0.01, freq_buffer=100)` and of
    `compute_affinity(geometry1, geometry2, time_buffer=0.01, freq_buffer=100)`: Python's binding of
    positional and keyword arguments to a signature (`bindArgs`), and the two signatures as tables
    (`matchSig`, `affinitySig`; re-extracted from the live functions with `inspect.signature` on every run);
  * a whole call on geometries whose affinity has a closed form (`closedAffinity`: the dispatcher of
    `SoundeventModel/Affinity.lean` over exact rectangles, no GEOS value involved), buffers included:
    `matchCall`.  This is the *independent* statement of the affinity matrix that the check compares the
    library's `compute_affinity` and the output of `match_geometries` with;
  * histories: consecutive calls in one process (`runHistory`), and the class of implementations that
    memoise an intermediate result in a table keyed by part of the input (`memoRun`): sound exactly when
    the key determines the result (`Proofs.C07.C07_memo_full_key_sound`, `C07_memo_partial_key_unsound`).
-/
import SoundeventModel.Matching
import SoundeventModel.Affinity
namespace SE.MatchCall
open SE SE.Matching

/-! ### binding of arguments to a signature -/

/-- `inspect.Parameter.kind`, as far as it matters here: POSITIONAL_OR_KEYWORD (and POSITIONAL_ONLY)
    versus KEYWORD_ONLY -/
inductive Kind
  | positional
  | keywordOnly
  deriving DecidableEq, Repr, Inhabited

structure Param (V : Type) where
  name : String
  kind : Kind
  default : Option V
  deriving DecidableEq, Repr

/-- the `TypeError`s of a call -/
inductive BindErr
  | tooManyPositional
  | multipleValues (name : String)
  | unexpectedKeyword (name : String)
  | missing (name : String)
  deriving DecidableEq, Repr, Inhabited

def positionalNames {V} (sig : List (Param V)) : List String :=
  (sig.filter (fun p => p.kind == .positional)).map (·.name)

/-- the value of one parameter: positional argument, else keyword argument, else default -/
def resolve {V} (byPos kw : List (String × V)) (p : Param V) : Except BindErr (String × V) :=
  match byPos.lookup p.name with
  | some v => .ok (p.name, v)
  | none =>
    match kw.lookup p.name with
    | some v => .ok (p.name, v)
    | none =>
      match p.default with
      | some d => .ok (p.name, d)
      | none => .error (.missing p.name)

/-- `f(*pos, **kw)` against the signature `sig`: the bound arguments in signature order, or the `TypeError` -/
def bindArgs {V} (sig : List (Param V)) (pos : List V) (kw : List (String × V)) :
    Except BindErr (List (String × V)) :=
  let pn := positionalNames sig
  if pn.length < pos.length then .error .tooManyPositional
  else
    let byPos := pn.zip pos
    match kw.find? (fun e => (byPos.lookup e.1).isSome) with
    | some e => .error (.multipleValues e.1)
    | none =>
      match kw.find? (fun e => !(sig.map (·.name)).contains e.1) with
      | some e => .error (.unexpectedKeyword e.1)
      | none => sig.mapM (resolve byPos kw)

/-- an argument of the two functions: a list of geometries, one geometry, or a number -/
inductive Arg
  | geoms (gs : List Geom)
  | geom (g : Geom)
  | num (x : Rat)
  deriving DecidableEq, Repr, Inhabited

/-- `inspect.signature(match_geometries)`: names, kinds and defaults in the documented order -/
def matchSig : List (Param Arg) :=
  [⟨"source", .positional, none⟩, ⟨"target", .positional, none⟩,
   ⟨"time_buffer", .positional, some (.num (1 / 100))⟩, ⟨"freq_buffer", .positional, some (.num 100)⟩]

/-- `inspect.signature(compute_affinity)` -/
def affinitySig : List (Param Arg) :=
  [⟨"geometry1", .positional, none⟩, ⟨"geometry2", .positional, none⟩,
   ⟨"time_buffer", .positional, some (.num (1 / 100))⟩, ⟨"freq_buffer", .positional, some (.num 100)⟩]

/-- A live signature `ext` still serves every call written against `sig`: the first parameters are those of
    `sig` (same names, kinds, defaults, same order) and whatever was added is optional.  Keyword-only
    additions may come in any order (they are never reached positionally). -/
def compatible {V} [DecidableEq V] (ext sig : List (Param V)) : Bool :=
  decide (ext.take sig.length = sig) && (ext.drop sig.length).all (fun p => p.default.isSome)

/-! ### one call on geometries with a closed-form affinity -/

structure Call where
  src : List Geom
  tgt : List Geom
  tb : Rat
  fb : Rat
  deriving DecidableEq, Repr, Inhabited

/-- the geometries whose shapely form is an exact rectangle (a TimeStamp is buffered to a TimeInterval by
    `_prepare_geometry`, in closed form) -/
def rectLike : Geom → Bool
  | .timeStamp _ => true
  | .timeInterval .. => true
  | .boundingBox .. => true
  | _ => false

def timeLike : Geom → Bool
  | .timeStamp _ => true
  | .timeInterval .. => true
  | _ => false

def polyLike : Geom → Bool
  | .polygon _ => true
  | .multiPolygon _ => true
  | _ => false

/-- pairs for which `compute_affinity` consults GEOS for nothing but exact rectangles / exact bounds: two
    rectangle-like geometries, or a time geometry against a polygon (time branch: only the polygon's time
    bounds, which are those of its vertices, are read) -/
def closedPair (g h : Geom) : Bool :=
  (rectLike g && rectLike h) || (timeLike g && polyLike h) || (polyLike g && timeLike h)

/-- `compute_affinity g h time_buffer freq_buffer` on a closed pair: the dispatcher of the C06 model over
    exact rectangles -/
def closedAffinity (tb fb : Rat) (g h : Geom) : Except Err Rat := Affinity.affinity Affinity.boxGeos g h tb fb

/-- … as a total function; the `0` is never read by `matchCall` (which raises when a pair raises) -/
def affinityOf (tb fb : Rat) (g h : Geom) : Rat :=
  match closedAffinity tb fb g h with
  | .ok a => a
  | .error _ => 0

/-- the first error of the matrix-fill loop (`product(enumerate(source), enumerate(target))` order) -/
def callError (c : Call) : Option Err :=
  (c.src.flatMap fun g => c.tgt.map fun h => closedAffinity c.tb c.fb g h).findSome?
    (fun r => match r with | .error e => some e | .ok _ => none)

inductive CallErr
  | affinity (e : Err)     -- `compute_affinity` raised (a negative buffer reaching `buffer_geometry`)
  | loop (e : LoopErr)     -- `_select_matches` raised (never with scipy's contract)
  deriving DecidableEq, Repr, Inhabited

/-- `list(match_geometries(source, target, time_buffer, freq_buffer))` from the coordinates alone -/
def matchCall (solver : Nat → Nat → Mat → List (Nat × Nat)) (c : Call) : Except CallErr (List Entry) :=
  match callError c with
  | some e => .error (.affinity e)
  | none =>
    match matchGeometries (affinityOf c.tb c.fb) solver c.src c.tgt with
    | .ok out => .ok out
    | .error e => .error (.loop e)

/-- the affinity matrix of a call, row by row (what the check asks the driver for) -/
def callMatrix (c : Call) : List (List Rat) := c.src.map fun g => c.tgt.map fun h => affinityOf c.tb c.fb g h

/-- the bound arguments of `match_geometries` as a call (`none`: an argument of the wrong sort) -/
def callOfBound (b : List (String × Arg)) : Option Call :=
  match b.lookup "source", b.lookup "target", b.lookup "time_buffer", b.lookup "freq_buffer" with
  | some (.geoms s), some (.geoms t), some (.num tb), some (.num fb) => some ⟨s, t, tb, fb⟩
  | _, _, _, _ => none

/-- `match_geometries(*pos, **kw)` -/
def callOf (pos : List Arg) (kw : List (String × Arg)) : Except BindErr (Option Call) :=
  match bindArgs matchSig pos kw with
  | .ok b => .ok (callOfBound b)
  | .error e => .error e

/-! ### histories -/

/-- consecutive calls in one process: the model is pure, every call is answered on its own -/
def runHistory (solver : Nat → Nat → Mat → List (Nat × Nat)) (calls : List Call) :
    List (Except CallErr (List Entry)) :=
  calls.map (matchCall solver)

/-- An implementation that memoises `f` in a table keyed by `key x` (a module-level dict, an `lru_cache`, a
    private attribute): a hit returns what was stored under that key, a miss computes and stores. -/
def memoRun {X K Y : Type} [DecidableEq K] (key : X → K) (f : X → Y) : List (K × Y) → List X → List Y
  | _, [] => []
  | tbl, x :: xs =>
    match tbl.lookup (key x) with
    | some y => y :: memoRun key f tbl xs
    | none => f x :: memoRun key f ((key x, f x) :: tbl) xs

/-- the buffered time extent of a time stamp, the intermediate result seeded change C07-7 memoises -/
def stampExtent (x : Rat × Rat) : Rat × Rat := (max (x.1 - x.2) 0, x.1 + x.2)

/-! ### judging with a tolerance against an independent matrix -/

/-- two matrices agree within `τ` on the `n × m` block -/
def closeWithin (τ : Rat) (n m : Nat) (a b : Mat) : Bool :=
  (List.range n).all fun i => (List.range m).all fun j => decide (a i j - b i j ≤ τ) && decide (b i j - a i j ≤ τ)

/-- the independent matrix `a`, with the entries of the reported pairs replaced by the reported affinity where
    that is within `τ` of `a` (the code computes in binary64, `a` is exact) -/
def snap (τ : Rat) (a : Mat) (out : List Entry) : Mat := fun i j =>
  match out.find? (fun e => e.src == some i && e.tgt == some j) with
  | some e => if a i j - e.aff ≤ τ ∧ e.aff - a i j ≤ τ then e.aff else a i j
  | none => a i j

/-- the property on an observed output, judged against an independent matrix up to `τ` per entry
    (`Proofs.C07.C07_holds_ind` says what that means) -/
def holdsInd (τ tol : Rat) (n m : Nat) (a : Mat) (out : List Entry) : Bool := holds tol n m (snap τ a out) out

/-- … with the optimum of the snapped matrix certified instead of brute-forced -/
def holdsIndCert (τ tol : Rat) (n m : Nat) (a : Mat) (u v : Nat → Rat) (w : List (Nat × Nat))
    (out : List Entry) : Bool :=
  holdsShape n m (snap τ a out) out && optimalByCert tol n m (snap τ a out) u v w out

end SE.MatchCall
