/-
  JSON glue of the line protocol.  Rationals travel as strings "n/d" (or "n"),
  so that every binary64 value is transmitted exactly
  (`float.as_integer_ratio()` on the Python side).
-/
import Lean.Data.Json
import SoundeventModel.Basic
namespace SE
open Lean

def parseRat (s : String) : Except String Rat :=
  match s.splitOn "/" with
  | [n] => match n.toInt? with
    | some i => .ok (i : Rat)
    | none => .error s!"bad rational {s}"
  | [n, d] => match n.toInt?, d.toNat? with
    | some i, some k => if k = 0 then .error s!"zero denominator {s}" else .ok (mkRat i k)
    | _, _ => .error s!"bad rational {s}"
  | _ => .error s!"bad rational {s}"

def ratToString (q : Rat) : String :=
  if q.den = 1 then toString q.num else s!"{q.num}/{q.den}"

def ratJ (q : Rat) : Json := Json.str (ratToString q)

def getRat (j : Json) : Except String Rat :=
  match j with
  | .str s => parseRat s
  | .num n => if n.exponent = 0 then .ok (n.mantissa : Rat) else .error "non-integer JSON number; send rationals as strings"
  | _ => .error s!"expected rational, got {j.compress}"

def fld (j : Json) (k : String) : Except String Json := j.getObjVal? k

def fldRat (j : Json) (k : String) : Except String Rat := do getRat (← fld j k)

def fldOpt (j : Json) (k : String) : Option Json :=
  match j.getObjVal? k with
  | .ok .null => none
  | .ok v => some v
  | .error _ => none

def fldOptRat (j : Json) (k : String) : Except String (Option Rat) :=
  match fldOpt j k with
  | none => .ok none
  | some v => do return some (← getRat v)

def fldStr (j : Json) (k : String) : Except String String := do (← fld j k).getStr?
def fldBool (j : Json) (k : String) : Except String Bool := do (← fld j k).getBool?
def fldNat (j : Json) (k : String) : Except String Nat := do (← fld j k).getNat?
def fldInt (j : Json) (k : String) : Except String Int := do (← fld j k).getInt?
def fldArr (j : Json) (k : String) : Except String (List Json) := do return (← (← fld j k).getArr?).toList

def getArr (j : Json) : Except String (List Json) := do return (← j.getArr?).toList
def getRatList (j : Json) : Except String (List Rat) := do (← getArr j).mapM getRat
def getNatList (j : Json) : Except String (List Nat) := do (← getArr j).mapM (·.getNat?)
def getPair (j : Json) : Except String (Rat × Rat) := do
  match ← getArr j with
  | [a, b] => return (← getRat a, ← getRat b)
  | _ => .error "expected pair"

def arrJ (xs : List Json) : Json := Json.arr xs.toArray
def ratsJ (xs : List Rat) : Json := arrJ (xs.map ratJ)
def natsJ (xs : List Nat) : Json := arrJ (xs.map (fun (n : Nat) => Json.num (Int.ofNat n)))
def pairJ (p : Rat × Rat) : Json := arrJ [ratJ p.1, ratJ p.2]
def optJ {α} (f : α → Json) : Option α → Json
  | none => Json.null
  | some a => f a
def boolJ (b : Bool) : Json := Json.bool b
def natJ (n : Nat) : Json := Json.num (Int.ofNat n)
def intJ (n : Int) : Json := Json.num n

/-- a modelled function that raises: `{"raise": "invalid"}` -/
def raiseJ (e : Err) : Json := Json.mkObj [("raise", Json.str e.name)]
def valJ (v : Json) : Json := Json.mkObj [("val", v)]
def exceptJ {α} (f : α → Json) : Except Err α → Json
  | .ok a => valJ (f a)
  | .error e => raiseJ e
def optRaiseJ {α} (f : α → Json) : Option α → Json
  | some a => valJ (f a)
  | none => raiseJ .invalid

end SE
