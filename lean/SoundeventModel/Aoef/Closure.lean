/-
  C02 — reference structure of an AOEF document: which identifiers each top-level list
  *defines* (`defs`) and which identifiers are *mentioned* anywhere (`refs`), per kind; the
  executable statement of the property (`closed`, `unique`, `parentFirst`) that the harness
  evaluates on the document the real code wrote.  Tag ids are rendered as decimal strings so
  that all kinds share one key type.
-/
import SoundeventModel.Aoef.Load
namespace SE.Aoef

inductive Kind
  | user | tag | recording | clip | soundEvent | sequence | seAnn | seqAnn | clipAnn
  | sePred | seqPred | clipPred | mtch | clipEval | task
  deriving DecidableEq, Repr, Inhabited

def Kind.all : List Kind :=
  [.user, .tag, .recording, .clip, .soundEvent, .sequence, .seAnn, .seqAnn, .clipAnn,
   .sePred, .seqPred, .clipPred, .mtch, .clipEval, .task]

def Kind.name : Kind → String
  | .user => "users" | .tag => "tags" | .recording => "recordings" | .clip => "clips"
  | .soundEvent => "sound_events" | .sequence => "sequences"
  | .seAnn => "sound_event_annotations" | .seqAnn => "sequence_annotations"
  | .clipAnn => "clip_annotations" | .sePred => "sound_event_predictions"
  | .seqPred => "sequence_predictions" | .clipPred => "clip_predictions"
  | .mtch => "matches" | .clipEval => "clip_evaluations" | .task => "tasks"

def tid (n : Nat) : String := toString n

/-- identifiers defined by the top-level list of a kind -/
def defs (d : Doc) : Kind → List String
  | .user => (lst d.users).map (·.uuid)
  | .tag => (lst d.tags).map (tid ·.id)
  | .recording => (lst d.recordings).map (·.uuid)
  | .clip => (lst d.clips).map (·.uuid)
  | .soundEvent => (lst d.sound_events).map (·.uuid)
  | .sequence => (lst d.sequences).map (·.uuid)
  | .seAnn => (lst d.sound_event_annotations).map (·.uuid)
  | .seqAnn => (lst d.sequence_annotations).map (·.uuid)
  | .clipAnn => (lst d.clip_annotations).map (·.uuid)
  | .sePred => (lst d.sound_event_predictions).map (·.uuid)
  | .seqPred => (lst d.sequence_predictions).map (·.uuid)
  | .clipPred => (lst d.clip_predictions).map (·.uuid)
  | .mtch => (lst d.«matches»).map (·.uuid)
  | .clipEval => (lst d.clip_evaluations).map (·.uuid)
  | .task => (lst d.tasks).map (·.uuid)

def noteUsers (ns : Option (List NoteObj)) : List String := (lst ns).filterMap (·.created_by)
def tagRefs (ts : Option (List Nat)) : List String := (lst ts).map tid
def ptagRefs (ts : Option (List ScoredTag)) : List String := (lst ts).map (tid ·.id)

/-- identifiers mentioned anywhere in the document, per kind -/
def refs (d : Doc) : Kind → List String
  | .user =>
      (lst d.recordings).flatMap (fun r => noteUsers r.notes ++ lst r.owners)
      ++ (lst d.sound_event_annotations).flatMap (fun a => noteUsers a.notes ++ a.created_by.toList)
      ++ (lst d.sequence_annotations).flatMap (fun a => noteUsers a.notes ++ a.created_by.toList)
      ++ (lst d.clip_annotations).flatMap (fun a => noteUsers a.notes)
      ++ (lst d.tasks).flatMap (fun t => (lst t.status_badges).filterMap (·.owner))
  | .tag =>
      (lst d.recordings).flatMap (fun r => tagRefs r.tags)
      ++ (lst d.sound_event_annotations).flatMap (fun a => tagRefs a.tags)
      ++ (lst d.sequence_annotations).flatMap (fun a => tagRefs a.tags)
      ++ (lst d.clip_annotations).flatMap (fun a => tagRefs a.tags)
      ++ (lst d.sound_event_predictions).flatMap (fun p => ptagRefs p.tags)
      ++ (lst d.sequence_predictions).flatMap (fun p => ptagRefs p.tags)
      ++ (lst d.clip_predictions).flatMap (fun p => ptagRefs p.tags)
      ++ tagRefs d.project_tags ++ tagRefs d.evaluation_tags
  | .recording =>
      (lst d.clips).map (·.recording) ++ (lst d.sound_events).map (·.recording)
  | .clip =>
      (lst d.clip_annotations).map (·.clip) ++ (lst d.clip_predictions).map (·.clip)
      ++ (lst d.tasks).map (·.clip)
  | .soundEvent =>
      (lst d.sequences).flatMap (·.sound_events)
      ++ (lst d.sound_event_annotations).map (·.sound_event)
      ++ (lst d.sound_event_predictions).map (·.sound_event)
  | .sequence =>
      (lst d.sequences).filterMap (·.parent)
      ++ (lst d.sequence_annotations).map (·.sequence)
      ++ (lst d.sequence_predictions).map (·.sequence)
  | .seAnn =>
      (lst d.clip_annotations).flatMap (fun a => lst a.sound_events)
      ++ (lst d.«matches»).filterMap (·.target)
  | .seqAnn => (lst d.clip_annotations).flatMap (fun a => lst a.sequences)
  | .clipAnn => (lst d.clip_evaluations).map (·.annotations)
  | .sePred =>
      (lst d.clip_predictions).flatMap (fun p => lst p.sound_events)
      ++ (lst d.«matches»).filterMap (·.source)
  | .seqPred => (lst d.clip_predictions).flatMap (fun p => lst p.sequences)
  | .clipPred => (lst d.clip_evaluations).map (·.predictions)
  | .mtch => (lst d.clip_evaluations).flatMap (fun e => lst e.«matches»)
  | .clipEval => []
  | .task => []

/-- every mentioned identifier is defined -/
def closedAt (d : Doc) (k : Kind) : Bool := (refs d k).all (fun r => (defs d k).contains r)
def closed (d : Doc) : Bool := Kind.all.all (closedAt d)

/-- identifiers are unique within their list -/
def uniqueAt (d : Doc) (k : Kind) : Bool := nodupB (defs d k)
def unique (d : Doc) : Bool := Kind.all.all (uniqueAt d)

/-- every sequence's parent is listed before the sequence -/
def parentFirstAux (seen : List String) : List SequenceObj → Bool
  | [] => true
  | s :: rest =>
    (match s.parent with
     | none => true
     | some p => seen.contains p) && parentFirstAux (seen ++ [s.uuid]) rest
def parentFirst (d : Doc) : Bool := parentFirstAux [] (lst d.sequences)

/-- dangling references, duplicated definitions and parent-order faults, as messages -/
def problems (d : Doc) : List String :=
  Kind.all.flatMap (fun k =>
    ((refs d k).filter (fun r => !(defs d k).contains r)).eraseDups.map
      (fun r => s!"dangling {k.name} reference {r}")
    ++ (if uniqueAt d k then [] else [s!"duplicate identifiers in {k.name}"]))
  ++ (if parentFirst d then [] else ["a sequence is listed before its parent"])

/-- the keys of the objects reachable from a collection, per kind (what `defs` must equal as a set) -/
def reachKeys (os : List Obj) : Kind → List String
  | .user => (usersOf os).map (·.uuid)
  | .tag => (tagsOf os).map (fun t => s!"{t.key}\u0000{t.value}")
  | .recording => (recsOf os).map (·.uuid)
  | .clip => (clipsOf os).map (·.uuid)
  | .soundEvent => (sesOf os).map (·.uuid)
  | .sequence => (seqsOf os).map (·.uuid)
  | .seAnn => (seasOf os).map (·.uuid)
  | .seqAnn => (sqasOf os).map (·.uuid)
  | .clipAnn => (casOf os).map (·.uuid)
  | .sePred => (sepsOf os).map (·.uuid)
  | .seqPred => (sqpsOf os).map (·.uuid)
  | .clipPred => (cpsOf os).map (·.uuid)
  | .mtch => (matchesOf os).map (·.uuid)
  | .clipEval => (cesOf os).map (·.uuid)
  | .task => (tasksOf os).map (·.uuid)

/-- tag definitions by content, for the comparison with `reachKeys` -/
def tagDefKeys (d : Doc) : List String := (lst d.tags).map (fun t => s!"{t.key}\u0000{t.value}")

end SE.Aoef
