/-
  C01 / C02 / C18 — `soundevent.io.aoef.to_soundevent`: the single-pass loader.

  Each collection adapter registers the top-level lists in a fixed order; every adapter keeps a
  first-wins table `id -> object` (`to_soundevent` assembles an object only when its id is new),
  references are resolved by `from_id`, i.e. by lookup in the tables filled so far:
  *lenient* references (`… if (x := from_id(id)) is not None`) are skipped when unknown,
  *strict* ones (`if x is None: raise ValueError`) fail.
  A timestamp the document lacks is replaced by `datetime.now()` in the code: the model writes
  the token `nowTok` (never produced for saved documents, never compared).
-/
import SoundeventModel.Aoef.Save
namespace SE.Aoef
open SE.Paths

def nowTok : Atom := "<now>"

abbrev Store (κ β : Type) := List (κ × β)

/-- `adapter.from_id(k)` -/
def find {κ β} [BEq κ] (st : Store κ β) (k : κ) : Option β := List.lookup k st

/-- `for o in items: adapter.to_soundevent(o)` — first-wins registration; `dec` sees the table
    filled so far (a sequence resolves its parent in the sequence table itself) -/
def addAll {κ ω β} [BEq κ] (key : ω → κ) (dec : Store κ β → ω → Except Err β)
    (st : Store κ β) (items : List ω) : Except Err (Store κ β) :=
  items.foldlM (fun st o =>
    match (find st) (key o) with
    | some _ => pure st
    | none => do let v ← dec st o; pure (st ++ [(key o, v)])) st

/-- `[adapter.to_soundevent(o) for o in items]` — the table and the list of returned objects -/
def convAll {κ ω β} [BEq κ] (key : ω → κ) (dec : Store κ β → ω → Except Err β)
    (st : Store κ β) (items : List ω) : Except Err (Store κ β × List β) :=
  items.foldlM (fun (acc : Store κ β × List β) o =>
    match (find acc.1) (key o) with
    | some v => pure (acc.1, acc.2 ++ [v])
    | none => do let v ← dec acc.1 o; pure (acc.1 ++ [(key o, v)], acc.2 ++ [v])) (st, [])

def items (d : Option Dict) : List Feature := d.getD []
def lst {α} (xs : Option (List α)) : List α := xs.getD []

structure Stores where
  users : Store Atom User := []
  tags : Store Nat Tag := []
  recs : Store Atom Recording := []
  clips : Store Atom Clip := []
  ses : Store Atom SoundEvent := []
  seqs : Store Atom Sequence := []
  seas : Store Atom SoundEventAnnotation := []
  sqas : Store Atom SequenceAnnotation := []
  cas : Store Atom ClipAnnotation := []
  seps : Store Atom SoundEventPrediction := []
  sqps : Store Atom SequencePrediction := []
  cps : Store Atom ClipPrediction := []
  ms : Store Atom Match := []
  deriving Inhabited

def decUser (o : UserObj) : User := ⟨o.uuid, o.username, o.email, o.name, o.institution⟩
def decTag (o : TagObj) : Tag := ⟨o.key, o.value⟩

def decNote (st : Stores) (o : NoteObj) : Note :=
  ⟨o.uuid, o.message, o.created_by.bind (find st.users), o.is_issue, o.created_on.getD nowTok⟩

def decTags (st : Stores) (ids : Option (List Nat)) : List Tag := (lst ids).filterMap (find st.tags)

def decPTags (st : Stores) (ts : Option (List ScoredTag)) : List PredictedTag :=
  (lst ts).filterMap fun t => ((find st.tags) t.id).map fun tag => ⟨tag, t.score⟩

def loadedPath (dir : Option PPath) (p : PPath) : PPath :=
  match dir with
  | none => p
  | some d => join d p

def decRecording (st : Stores) (dir : Option PPath) (o : RecordingObj) : Recording :=
  { uuid := o.uuid, path := loadedPath dir o.path, duration := o.duration, channels := o.channels,
    samplerate := o.samplerate, time_expansion := o.time_expansion.getD oneTok,
    hash := o.hash, date := o.date, time := o.time, latitude := o.latitude, longitude := o.longitude,
    license := o.license,
    owners := (lst o.owners).filterMap (find st.users),
    rights := o.rights,
    tags := decTags st o.tags,
    features := items o.features,
    notes := (lst o.notes).map (decNote st) }

def strict {α} (x : Option α) : Except Err α :=
  match x with
  | some a => .ok a
  | none => .error .invalid

def decClip (st : Stores) (o : ClipObj) : Except Err Clip := do
  let r ← strict ((find st.recs) o.recording)
  return ⟨o.uuid, r, o.start_time, o.end_time, items o.features⟩

def decSoundEvent (st : Stores) (o : SoundEventObj) : Except Err SoundEvent := do
  let r ← strict ((find st.recs) o.recording)
  return ⟨o.uuid, o.geometry, r, items o.features⟩

def decSequence (st : Stores) (seqs : Store Atom Sequence) (o : SequenceObj) : Sequence :=
  let node : SeqNode := ⟨o.uuid, o.sound_events.filterMap (find st.ses), items o.features⟩
  match o.parent.bind (find seqs) with
  | some p => ⟨node, p.node :: p.ancestors⟩
  | none => ⟨node, []⟩

def decSEA (st : Stores) (o : SoundEventAnnotationObj) : Except Err SoundEventAnnotation := do
  let s ← strict ((find st.ses) o.sound_event)
  return ⟨o.uuid, s, (lst o.notes).map (decNote st), decTags st o.tags,
          o.created_by.bind (find st.users), o.created_on.getD nowTok⟩

def decSQA (st : Stores) (o : SequenceAnnotationObj) : Except Err SequenceAnnotation := do
  let s ← strict ((find st.seqs) o.sequence)
  return ⟨o.uuid, s, (lst o.notes).map (decNote st), decTags st o.tags,
          o.created_by.bind (find st.users), o.created_on.getD nowTok⟩

def decCA (st : Stores) (o : ClipAnnotationsObj) : Except Err ClipAnnotation := do
  let c ← strict ((find st.clips) o.clip)
  return ⟨o.uuid, c, (lst o.sound_events).filterMap (find st.seas),
          (lst o.sequences).filterMap (find st.sqas), decTags st o.tags,
          (lst o.notes).map (decNote st), o.created_on.getD nowTok⟩

def decBadge (st : Stores) (o : StatusBadgeObj) : StatusBadge :=
  ⟨o.state, o.owner.bind (find st.users), o.created_on.getD nowTok⟩

def decTask (st : Stores) (o : AnnotationTaskObj) : Except Err AnnotationTask := do
  let c ← strict ((find st.clips) o.clip)
  return ⟨o.uuid, c, (lst o.status_badges).map (decBadge st), o.created_on.getD nowTok⟩

def decSEP (st : Stores) (o : SoundEventPredictionObj) : Except Err SoundEventPrediction := do
  let s ← strict ((find st.ses) o.sound_event)
  return ⟨o.uuid, s, o.score, decPTags st o.tags⟩

def decSQP (st : Stores) (o : SequencePredictionObj) : Except Err SequencePrediction := do
  let s ← strict ((find st.seqs) o.sequence)
  return ⟨o.uuid, s, o.score, decPTags st o.tags⟩

def decCP (st : Stores) (o : ClipPredictionsObj) : Except Err ClipPrediction := do
  let c ← strict ((find st.clips) o.clip)
  return ⟨o.uuid, c, (lst o.sound_events).filterMap (find st.seps),
          (lst o.sequences).filterMap (find st.sqps), decPTags st o.tags, items o.features⟩

def decMatch (st : Stores) (o : MatchObj) : Match :=
  ⟨o.uuid, o.source.bind (find st.seps), o.target.bind (find st.seas), o.affinity, o.score,
   items o.metrics⟩

def decCE (st : Stores) (o : ClipEvaluationObj) : Except Err ClipEvaluation := do
  let a ← strict ((find st.cas) o.annotations)
  let p ← strict ((find st.cps) o.predictions)
  return ⟨o.uuid, a, p, (lst o.«matches»).filterMap (find st.ms), items o.metrics, o.score⟩

/-! registration steps, one per top-level list -/
def regUsers (st : Stores) (d : Doc) : Except Err Stores := do
  return { st with users := ← addAll (·.uuid) (fun _ o => pure (decUser o)) st.users (lst d.users) }
def regTags (st : Stores) (d : Doc) : Except Err Stores := do
  return { st with tags := ← addAll (·.id) (fun _ o => pure (decTag o)) st.tags (lst d.tags) }
def regRecs (st : Stores) (dir : Option PPath) (d : Doc) : Except Err Stores := do
  return { st with recs := ← addAll (·.uuid) (fun _ o => pure (decRecording st dir o)) st.recs (lst d.recordings) }
def regClips (st : Stores) (d : Doc) : Except Err Stores := do
  return { st with clips := ← addAll (·.uuid) (fun _ o => decClip st o) st.clips (lst d.clips) }
def regSes (st : Stores) (d : Doc) : Except Err Stores := do
  return { st with ses := ← addAll (·.uuid) (fun _ o => decSoundEvent st o) st.ses (lst d.sound_events) }
def regSeqs (st : Stores) (d : Doc) : Except Err Stores := do
  return { st with seqs := ← addAll (·.uuid) (fun seqs o => pure (decSequence st seqs o)) st.seqs (lst d.sequences) }
def regSeas (st : Stores) (d : Doc) : Except Err Stores := do
  return { st with seas := ← addAll (·.uuid) (fun _ o => decSEA st o) st.seas (lst d.sound_event_annotations) }
def regSqas (st : Stores) (d : Doc) : Except Err Stores := do
  return { st with sqas := ← addAll (·.uuid) (fun _ o => decSQA st o) st.sqas (lst d.sequence_annotations) }
def regSeps (st : Stores) (d : Doc) : Except Err Stores := do
  return { st with seps := ← addAll (·.uuid) (fun _ o => decSEP st o) st.seps (lst d.sound_event_predictions) }
def regSqps (st : Stores) (d : Doc) : Except Err Stores := do
  return { st with sqps := ← addAll (·.uuid) (fun _ o => decSQP st o) st.sqps (lst d.sequence_predictions) }
def regCas (st : Stores) (d : Doc) : Except Err Stores := do
  return { st with cas := ← addAll (·.uuid) (fun _ o => decCA st o) st.cas (lst d.clip_annotations) }
def regCps (st : Stores) (d : Doc) : Except Err Stores := do
  return { st with cps := ← addAll (·.uuid) (fun _ o => decCP st o) st.cps (lst d.clip_predictions) }
def regMatches (st : Stores) (d : Doc) : Except Err Stores := do
  return { st with ms := ← addAll (·.uuid) (fun _ o => pure (decMatch st o)) st.ms (lst d.«matches») }

/-- `RecordingSetAdapter.to_soundevent` -/
def loadRecordings (d : Doc) (dir : Option PPath) : Except Err (Stores × List Recording) := do
  let st ← regTags {} d
  let st ← regUsers st d
  let recs ← strict d.recordings          -- `recordings` is a required field of the schema
  let (rs, out) ← convAll (·.uuid) (fun _ o => pure (decRecording st dir o)) st.recs recs
  return ({ st with recs := rs }, out)

/-- `AnnotationSetAdapter.to_soundevent` -/
def loadAnnotations (d : Doc) (dir : Option PPath) : Except Err (Stores × List ClipAnnotation) := do
  let st ← regUsers {} d
  let st ← regTags st d
  let st ← regRecs st dir d
  let st ← regClips st d
  let st ← regSes st d
  let st ← regSeqs st d
  let st ← regSeas st d
  let st ← regSqas st d
  let (cas, out) ← convAll (·.uuid) (fun _ o => decCA st o) st.cas (lst d.clip_annotations)
  return ({ st with cas := cas }, out)

/-- `PredictionSetAdapter.to_soundevent` -/
def loadPredictions (d : Doc) (dir : Option PPath) : Except Err (Stores × List ClipPrediction) := do
  let st ← regTags {} d
  let st ← regUsers st d
  let st ← regRecs st dir d
  let st ← regSes st d
  let st ← regSeqs st d
  let st ← regClips st d
  let st ← regSeps st d
  let st ← regSqps st d
  let (cps, out) ← convAll (·.uuid) (fun _ o => decCP st o) st.cps (lst d.clip_predictions)
  return ({ st with cps := cps }, out)

/-- `to_soundevent(aoef_object, audio_dir)`: the adapter is chosen by `collection_type` -/
def load (d : Doc) (dir : Option PPath) : Except Err Collection := do
  match d.collection_type with
  | "recording_set" =>
    let (_, rs) ← loadRecordings d dir
    return .recordingSet ⟨d.uuid, rs, d.created_on.getD nowTok⟩
  | "dataset" =>
    let name ← strict d.name
    let (_, rs) ← loadRecordings d dir
    return .dataset ⟨d.uuid, rs, d.created_on.getD nowTok, name, d.description⟩
  | "annotation_set" =>
    let (_, cas) ← loadAnnotations d dir
    return .annotationSet ⟨d.uuid, cas, d.created_on.getD nowTok⟩
  | "annotation_project" =>
    let name ← strict d.name
    let (st, cas) ← loadAnnotations d dir
    let (_, tasks) ← convAll (·.uuid) (fun _ o => decTask st o) [] (lst d.tasks)
    return .annotationProject ⟨d.uuid, cas, d.created_on.getD nowTok, name, d.description,
      d.instructions, decTags st d.project_tags, tasks⟩
  | "evaluation_set" =>
    let name ← strict d.name
    let (st, cas) ← loadAnnotations d dir
    return .evaluationSet ⟨d.uuid, cas, d.created_on.getD nowTok, name, d.description,
      decTags st d.evaluation_tags⟩
  | "prediction_set" =>
    let (_, cps) ← loadPredictions d dir
    return .predictionSet ⟨d.uuid, cps, d.created_on.getD nowTok⟩
  | "model_run" =>
    let name ← strict d.name
    let (_, cps) ← loadPredictions d dir
    return .modelRun ⟨d.uuid, cps, d.created_on.getD nowTok, name, d.version, d.description⟩
  | "evaluation" =>
    let task ← strict d.evaluation_task
    let st ← regUsers {} d
    let st ← regTags st d
    let st ← regRecs st dir d
    let st ← regSes st d
    let st ← regSeqs st d
    let st ← regClips st d
    let st ← regSeas st d
    let st ← regSqas st d
    let st ← regCas st d
    let st ← regSeps st d
    let st ← regSqps st d
    let st ← regCps st d
    let st ← regMatches st d
    let (_, ces) ← convAll (·.uuid) (fun _ o => decCE st o) [] (lst d.clip_evaluations)
    return .evaluation ⟨d.uuid, d.created_on.getD nowTok, task, ces, items d.metrics, d.score⟩
  | _ => .error .notImpl

end SE.Aoef
