/-
  C01 / C02 — the reference graph of a collection and the well-formedness predicate of the
  round-trip theorems.

  * `children o` : the objects `o` refers to directly; `roots c` : the objects a collection
    lists itself; `Reachable c o` : `o` is reachable from the roots along `children`.
  * `WF c` : the hypothesis of C01 / C02 — the explicit, decidable (`wfB`) statement of what
    sharing by reference and the property's quantifier guarantee:
      - coherence: two reachable objects of one kind with one key (uuid) are equal,
      - feature labels are distinct within each feature list,
      - the collection's own member lists have pairwise distinct uuids.
-/
import SoundeventModel.Aoef.Closure
namespace SE.Aoef

/-- direct references of an object -/
def children : Obj → List Obj
  | .user _ => []
  | .tag _ => []
  | .recording r => tagsAll r.tags ++ notesAll r.notes ++ r.owners.map .user
  | .clip c => [.recording c.recording]
  | .soundEvent s => [.recording s.recording]
  | .sequence s =>
      s.node.sound_events.map .soundEvent ++ (match s.parent with | some p => [.sequence p] | none => [])
  | .seAnn a => [.soundEvent a.sound_event] ++ notesAll a.notes ++ tagsAll a.tags ++ optUser a.created_by
  | .seqAnn a => [.sequence a.sequence] ++ notesAll a.notes ++ tagsAll a.tags ++ optUser a.created_by
  | .clipAnn a =>
      [.clip a.clip] ++ tagsAll a.tags ++ a.sound_events.map .seAnn ++ a.sequences.map .seqAnn
        ++ notesAll a.notes
  | .sePred p => [.soundEvent p.sound_event] ++ ptagsAll p.tags
  | .seqPred p => [.sequence p.sequence] ++ ptagsAll p.tags
  | .clipPred p =>
      [.clip p.clip] ++ p.sound_events.map .sePred ++ p.sequences.map .seqPred ++ ptagsAll p.tags
  | .task t => t.status_badges.flatMap badgeAll ++ [.clip t.clip]
  | .mtch m =>
      (match m.source with | some p => [.sePred p] | none => [])
        ++ (match m.target with | some a => [.seAnn a] | none => [])
  | .clipEval e => [.clipAnn e.annotations, .clipPred e.predictions] ++ e.«matches».map .mtch

/-- the objects a collection lists itself -/
def Collection.roots : Collection → List Obj
  | .recordingSet x => x.recordings.map .recording
  | .dataset x => x.recordings.map .recording
  | .annotationSet x => x.clip_annotations.map .clipAnn
  | .annotationProject x =>
      x.tasks.map .task ++ tagsAll x.annotation_tags ++ x.clip_annotations.map .clipAnn
  | .evaluationSet x => x.clip_annotations.map .clipAnn ++ tagsAll x.evaluation_tags
  | .predictionSet x => x.clip_predictions.map .clipPred
  | .modelRun x => x.clip_predictions.map .clipPred
  | .evaluation x => x.clip_evaluations.map .clipEval

/-- `o` is reachable from `r` along direct references -/
inductive ReachFrom : Obj → Obj → Prop
  | refl (o : Obj) : ReachFrom o o
  | step {r m o : Obj} : ReachFrom r m → o ∈ children m → ReachFrom r o

def Reachable (c : Collection) (o : Obj) : Prop := ∃ r ∈ c.roots, ReachFrom r o

/-- every feature list of an object (a dict in the document) -/
def Obj.featureLists : Obj → List (List Feature)
  | .recording r => [r.features]
  | .clip c => [c.features]
  | .soundEvent s => [s.features]
  | .sequence s => [s.node.features]
  | .clipPred p => [p.features]
  | .mtch m => [m.metrics]
  | .clipEval e => [e.metrics]
  | _ => []

def Collection.ownFeatureLists : Collection → List (List Feature)
  | .evaluation x => [x.metrics]
  | _ => []

/-- uuids of the collection's own member lists -/
def Collection.memberKeys : Collection → List (List Atom)
  | .recordingSet x => [x.recordings.map (·.uuid)]
  | .dataset x => [x.recordings.map (·.uuid)]
  | .annotationSet x => [x.clip_annotations.map (·.uuid)]
  | .annotationProject x => [x.clip_annotations.map (·.uuid), x.tasks.map (·.uuid)]
  | .evaluationSet x => [x.clip_annotations.map (·.uuid)]
  | .predictionSet x => [x.clip_predictions.map (·.uuid)]
  | .modelRun x => [x.clip_predictions.map (·.uuid)]
  | .evaluation x => [x.clip_evaluations.map (·.uuid)]

/-- objects of one kind with one key are equal -/
def CoherentBy {α κ} (key : α → κ) (xs : List α) : Prop :=
  ∀ x ∈ xs, ∀ y ∈ xs, key x = key y → x = y

structure WF (c : Collection) : Prop where
  users : CoherentBy (·.uuid) (usersOf c.trav)
  recs : CoherentBy (·.uuid) (recsOf c.trav)
  clips : CoherentBy (·.uuid) (clipsOf c.trav)
  ses : CoherentBy (·.uuid) (sesOf c.trav)
  seqs : CoherentBy (·.uuid) (seqsOf c.trav)
  seas : CoherentBy (·.uuid) (seasOf c.trav)
  sqas : CoherentBy (·.uuid) (sqasOf c.trav)
  cas : CoherentBy (·.uuid) (casOf c.trav)
  seps : CoherentBy (·.uuid) (sepsOf c.trav)
  sqps : CoherentBy (·.uuid) (sqpsOf c.trav)
  cps : CoherentBy (·.uuid) (cpsOf c.trav)
  tasks : CoherentBy (·.uuid) (tasksOf c.trav)
  ms : CoherentBy (·.uuid) (matchesOf c.trav)
  ces : CoherentBy (·.uuid) (cesOf c.trav)
  features : ∀ o ∈ c.trav, ∀ fs ∈ o.featureLists, (fs.map (·.key)).Nodup
  ownFeatures : ∀ fs ∈ c.ownFeatureLists, (fs.map (·.key)).Nodup
  members : ∀ ks ∈ c.memberKeys, ks.Nodup

/-! executable version (evaluated by the harness on every generated input) -/
def coherentByB {α κ} [DecidableEq α] [DecidableEq κ] (key : α → κ) (xs : List α) : Bool :=
  xs.all fun x => xs.all fun y => key x ≠ key y || x == y

def wfB (c : Collection) : Bool :=
  let os := c.trav
  coherentByB (·.uuid) (usersOf os) && coherentByB (·.uuid) (recsOf os)
  && coherentByB (·.uuid) (clipsOf os) && coherentByB (·.uuid) (sesOf os)
  && coherentByB (·.uuid) (seqsOf os) && coherentByB (·.uuid) (seasOf os)
  && coherentByB (·.uuid) (sqasOf os) && coherentByB (·.uuid) (casOf os)
  && coherentByB (·.uuid) (sepsOf os) && coherentByB (·.uuid) (sqpsOf os)
  && coherentByB (·.uuid) (cpsOf os) && coherentByB (·.uuid) (tasksOf os)
  && coherentByB (·.uuid) (matchesOf os) && coherentByB (·.uuid) (cesOf os)
  && os.all (fun o => o.featureLists.all fun fs => nodupB (fs.map (·.key)))
  && c.ownFeatureLists.all (fun fs => nodupB (fs.map (·.key)))
  && c.memberKeys.all nodupB

/-! relocation of the audio paths: the collection `load (save c A) B` is `c` with every recording's
    path mapped -/
def Recording.mapPath (f : Paths.PPath → Paths.PPath) (r : Recording) : Recording := { r with path := f r.path }
def Clip.mapPath (f : Paths.PPath → Paths.PPath) (c : Clip) : Clip := { c with recording := c.recording.mapPath f }
def SoundEvent.mapPath (f : Paths.PPath → Paths.PPath) (s : SoundEvent) : SoundEvent := { s with recording := s.recording.mapPath f }
def SeqNode.mapPath (f : Paths.PPath → Paths.PPath) (n : SeqNode) : SeqNode := { n with sound_events := n.sound_events.map (·.mapPath f) }
def Sequence.mapPath (f : Paths.PPath → Paths.PPath) (s : Sequence) : Sequence := ⟨s.node.mapPath f, s.ancestors.map (·.mapPath f)⟩
def SoundEventAnnotation.mapPath (f : Paths.PPath → Paths.PPath) (a : SoundEventAnnotation) : SoundEventAnnotation :=
  { a with sound_event := a.sound_event.mapPath f }
def SequenceAnnotation.mapPath (f : Paths.PPath → Paths.PPath) (a : SequenceAnnotation) : SequenceAnnotation :=
  { a with sequence := a.sequence.mapPath f }
def ClipAnnotation.mapPath (f : Paths.PPath → Paths.PPath) (a : ClipAnnotation) : ClipAnnotation :=
  { a with clip := a.clip.mapPath f, sound_events := a.sound_events.map (·.mapPath f),
           sequences := a.sequences.map (·.mapPath f) }
def SoundEventPrediction.mapPath (f : Paths.PPath → Paths.PPath) (p : SoundEventPrediction) : SoundEventPrediction :=
  { p with sound_event := p.sound_event.mapPath f }
def SequencePrediction.mapPath (f : Paths.PPath → Paths.PPath) (p : SequencePrediction) : SequencePrediction :=
  { p with sequence := p.sequence.mapPath f }
def ClipPrediction.mapPath (f : Paths.PPath → Paths.PPath) (p : ClipPrediction) : ClipPrediction :=
  { p with clip := p.clip.mapPath f, sound_events := p.sound_events.map (·.mapPath f),
           sequences := p.sequences.map (·.mapPath f) }
def AnnotationTask.mapPath (f : Paths.PPath → Paths.PPath) (t : AnnotationTask) : AnnotationTask := { t with clip := t.clip.mapPath f }
def Match.mapPath (f : Paths.PPath → Paths.PPath) (m : Match) : Match :=
  { m with source := m.source.map (·.mapPath f), target := m.target.map (·.mapPath f) }
def ClipEvaluation.mapPath (f : Paths.PPath → Paths.PPath) (e : ClipEvaluation) : ClipEvaluation :=
  { e with annotations := e.annotations.mapPath f, predictions := e.predictions.mapPath f,
           «matches» := e.«matches».map (·.mapPath f) }

def Collection.mapPath (f : Paths.PPath → Paths.PPath) : Collection → Collection
  | .recordingSet x => .recordingSet { x with recordings := x.recordings.map (·.mapPath f) }
  | .dataset x => .dataset { x with recordings := x.recordings.map (·.mapPath f) }
  | .annotationSet x => .annotationSet { x with clip_annotations := x.clip_annotations.map (·.mapPath f) }
  | .annotationProject x =>
      .annotationProject { x with clip_annotations := x.clip_annotations.map (·.mapPath f),
                                  tasks := x.tasks.map (·.mapPath f) }
  | .evaluationSet x => .evaluationSet { x with clip_annotations := x.clip_annotations.map (·.mapPath f) }
  | .predictionSet x => .predictionSet { x with clip_predictions := x.clip_predictions.map (·.mapPath f) }
  | .modelRun x => .modelRun { x with clip_predictions := x.clip_predictions.map (·.mapPath f) }
  | .evaluation x => .evaluation { x with clip_evaluations := x.clip_evaluations.map (·.mapPath f) }

/-- the path a recording at `p` has after saving under `sd` and loading under `ld` -/
def relocated (sd ld : Option Paths.PPath) (p : Paths.PPath) : Paths.PPath :=
  match storedPath sd p with
  | .ok q => loadedPath ld q
  | .error _ => p

/-- `load (save c)` iterated `n` times: save under `sd`, load under `ld` -/
def cycles (sd ld : Option Paths.PPath) : Nat → Collection → Except Err Collection
  | 0, c => .ok c
  | n + 1, c => do
    let d ← save c sd
    let c' ← load d ld
    cycles sd ld n c'

end SE.Aoef
