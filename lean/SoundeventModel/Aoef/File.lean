/-
  C01 — the file-level decisions of `soundevent.io.load` / `soundevent.io.aoef.load` around the
  document: format inference, existence, suffix, requested type, version.  The order of the tests
  is the code's (which error is raised when several apply).
-/
import SoundeventModel.Aoef.Valid
namespace SE.Aoef

def AOEF_VERSION : String := "1.1.0"

inductive FileErr
  | notFound     -- FileNotFoundError
  | invalid      -- ValueError
  deriving DecidableEq, Repr

def FileErr.name : FileErr → String
  | .notFound => "crash:FileNotFoundError"
  | .invalid => "invalid"

structure LoadRequest where
  fileExists : Bool
  suffixJson : Bool               -- `Path(path).suffix == ".json"`
  format : Option String          -- the `format` argument (`None`: infer)
  reqType : Option String         -- the `type` argument
  version : String                -- `version` of the file
  docType : String                -- `data.collection_type` of the file
  deriving Repr

/-- `soundevent.io.load(path, audio_dir, format, type)` up to the call of `to_soundevent` -/
def loadGate (r : LoadRequest) : Except FileErr Unit := do
  -- loader.load: infer the format from the suffix when none is given
  let fmt ← match r.format with
    | some f => pure f
    | none => if r.suffixJson then pure "aoef" else .error .invalid
  if fmt ≠ "aoef" then .error .invalid
  -- aoef.load
  if !r.fileExists then .error .notFound
  if !r.suffixJson then .error .invalid
  match r.reqType with
  | some t => if r.docType ≠ t then .error .invalid
  | none => pure ()
  if r.version ≠ AOEF_VERSION then .error .invalid
  pure ()

/-- the whole of `io.load` on a file whose `data` parses to `d` -/
def loadFile (r : LoadRequest) (d : Doc) (dir : Option Paths.PPath) : Except FileErr Collection := do
  loadGate r
  match loadChecked d dir with
  | .ok c => pure c
  | .error _ => .error .invalid

/-! ### the file-level decisions of `soundevent.io.save` (added by the C01 review) -/

structure SaveRequest where
  suffixJson : Bool               -- `Path(path).suffix == ".json"`
  format : Option String          -- the `format` argument (`None`: infer from the suffix)
  deriving Repr

/-- `soundevent.io.save(obj, path, audio_dir, format)` up to the call of `to_aeof`: the format is
    inferred from the suffix only when none is given; an explicit `"aoef"` writes to any file name -/
def saveGate (r : SaveRequest) : Except FileErr Unit := do
  let fmt ← match r.format with
    | some f => pure f
    | none => if r.suffixJson then pure "aoef" else .error .invalid
  if fmt ≠ "aoef" then .error .invalid
  pure ()

/-- what a save followed by a load *of the same file with the same `format` argument* does before
    any document is looked at -/
def saveLoadGate (suffixJson : Bool) (format : Option String) (docType version : String) :
    Except FileErr Unit := do
  saveGate ⟨suffixJson, format⟩
  loadGate ⟨true, suffixJson, format, none, version, docType⟩

end SE.Aoef
