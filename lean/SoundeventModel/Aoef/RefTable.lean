/-
  C02 — the *reference table* of the AOEF document schema.

  `refs d k` (Closure.lean) is what the closure theorems quantify over: "every identifier
  mentioned anywhere in the document".  Whether that really is *every* mention is a fact about the
  declared fields of the `…Object` classes.  This file states it as a table: one row per
  reference-carrying field of the schema —

      owner   the top-level field of the document that holds the objects (or the field itself for
              the two document-level tag lists),
      path    the dotted path of the field inside one object of that list,
      idty    "uuid" | "int" — the declared type of the identifiers found there,
      kind    the kind of object the identifiers name,
      get     the accessor on the model's `Doc`.

  * `Proofs/C02.lean` proves `refs d k` is exactly the union of the rows of kind `k`
    (`C02_refs_are_the_rows`), so "closed" speaks about every row, and only about rows.
  * On every run the harness re-extracts the (owner, path, idty) triples from the *type
    annotations of the declared fields* of all `…Object` classes reachable from the eight collection
    schemas and the obligation `refRowNames = [...]` is discharged by `decide +kernel` (Tie 1): a
    reference field added to, dropped from or moved in a schema breaks it before anything runs.
  * Per collection schema the extracted key list must satisfy `schemaClosed` (every row whose
    owner the schema declares has the definition list of its kind declared too) and
    `defListsOf keys` must be the definition lists the extraction found.
  * The accessors are validated against a schema-driven scan of the real documents on every case
    (Tie 2, op `closure`: `rows`).
-/
import SoundeventModel.Aoef.Fields
namespace SE.Aoef

structure RefRow where
  owner : String
  path : String
  idty : String
  kind : Kind
  get : Doc → List String

def noteRefs {α} (xs : Option (List α)) (notes : α → Option (List NoteObj)) : List String :=
  (lst xs).flatMap (fun a => noteUsers (notes a))

def refRows : List RefRow := [
  -- users
  ⟨"recordings", "notes.created_by", "uuid", .user, fun d => noteRefs d.recordings (·.notes)⟩,
  ⟨"recordings", "owners", "uuid", .user, fun d => (lst d.recordings).flatMap (fun r => lst r.owners)⟩,
  ⟨"sound_event_annotations", "notes.created_by", "uuid", .user,
    fun d => noteRefs d.sound_event_annotations (·.notes)⟩,
  ⟨"sound_event_annotations", "created_by", "uuid", .user,
    fun d => (lst d.sound_event_annotations).flatMap (fun a => a.created_by.toList)⟩,
  ⟨"sequence_annotations", "notes.created_by", "uuid", .user,
    fun d => noteRefs d.sequence_annotations (·.notes)⟩,
  ⟨"sequence_annotations", "created_by", "uuid", .user,
    fun d => (lst d.sequence_annotations).flatMap (fun a => a.created_by.toList)⟩,
  ⟨"clip_annotations", "notes.created_by", "uuid", .user, fun d => noteRefs d.clip_annotations (·.notes)⟩,
  ⟨"tasks", "status_badges.owner", "uuid", .user,
    fun d => (lst d.tasks).flatMap (fun t => (lst t.status_badges).filterMap (·.owner))⟩,
  -- tags
  ⟨"recordings", "tags", "int", .tag, fun d => (lst d.recordings).flatMap (fun r => tagRefs r.tags)⟩,
  ⟨"sound_event_annotations", "tags", "int", .tag,
    fun d => (lst d.sound_event_annotations).flatMap (fun a => tagRefs a.tags)⟩,
  ⟨"sequence_annotations", "tags", "int", .tag,
    fun d => (lst d.sequence_annotations).flatMap (fun a => tagRefs a.tags)⟩,
  ⟨"clip_annotations", "tags", "int", .tag, fun d => (lst d.clip_annotations).flatMap (fun a => tagRefs a.tags)⟩,
  ⟨"sound_event_predictions", "tags", "int", .tag,
    fun d => (lst d.sound_event_predictions).flatMap (fun p => ptagRefs p.tags)⟩,
  ⟨"sequence_predictions", "tags", "int", .tag,
    fun d => (lst d.sequence_predictions).flatMap (fun p => ptagRefs p.tags)⟩,
  ⟨"clip_predictions", "tags", "int", .tag, fun d => (lst d.clip_predictions).flatMap (fun p => ptagRefs p.tags)⟩,
  ⟨"project_tags", "", "int", .tag, fun d => tagRefs d.project_tags⟩,
  ⟨"evaluation_tags", "", "int", .tag, fun d => tagRefs d.evaluation_tags⟩,
  -- recordings
  ⟨"clips", "recording", "uuid", .recording, fun d => (lst d.clips).map (·.recording)⟩,
  ⟨"sound_events", "recording", "uuid", .recording, fun d => (lst d.sound_events).map (·.recording)⟩,
  -- clips
  ⟨"clip_annotations", "clip", "uuid", .clip, fun d => (lst d.clip_annotations).map (·.clip)⟩,
  ⟨"clip_predictions", "clip", "uuid", .clip, fun d => (lst d.clip_predictions).map (·.clip)⟩,
  ⟨"tasks", "clip", "uuid", .clip, fun d => (lst d.tasks).map (·.clip)⟩,
  -- sound events
  ⟨"sequences", "sound_events", "uuid", .soundEvent, fun d => (lst d.sequences).flatMap (·.sound_events)⟩,
  ⟨"sound_event_annotations", "sound_event", "uuid", .soundEvent,
    fun d => (lst d.sound_event_annotations).map (·.sound_event)⟩,
  ⟨"sound_event_predictions", "sound_event", "uuid", .soundEvent,
    fun d => (lst d.sound_event_predictions).map (·.sound_event)⟩,
  -- sequences
  ⟨"sequences", "parent", "uuid", .sequence, fun d => (lst d.sequences).filterMap (·.parent)⟩,
  ⟨"sequence_annotations", "sequence", "uuid", .sequence, fun d => (lst d.sequence_annotations).map (·.sequence)⟩,
  ⟨"sequence_predictions", "sequence", "uuid", .sequence, fun d => (lst d.sequence_predictions).map (·.sequence)⟩,
  -- annotations and predictions
  ⟨"clip_annotations", "sound_events", "uuid", .seAnn,
    fun d => (lst d.clip_annotations).flatMap (fun a => lst a.sound_events)⟩,
  ⟨"matches", "target", "uuid", .seAnn, fun d => (lst d.«matches»).filterMap (·.target)⟩,
  ⟨"clip_annotations", "sequences", "uuid", .seqAnn,
    fun d => (lst d.clip_annotations).flatMap (fun a => lst a.sequences)⟩,
  ⟨"clip_evaluations", "annotations", "uuid", .clipAnn, fun d => (lst d.clip_evaluations).map (·.annotations)⟩,
  ⟨"clip_predictions", "sound_events", "uuid", .sePred,
    fun d => (lst d.clip_predictions).flatMap (fun p => lst p.sound_events)⟩,
  ⟨"matches", "source", "uuid", .sePred, fun d => (lst d.«matches»).filterMap (·.source)⟩,
  ⟨"clip_predictions", "sequences", "uuid", .seqPred,
    fun d => (lst d.clip_predictions).flatMap (fun p => lst p.sequences)⟩,
  ⟨"clip_evaluations", "predictions", "uuid", .clipPred, fun d => (lst d.clip_evaluations).map (·.predictions)⟩,
  ⟨"clip_evaluations", "matches", "uuid", .mtch,
    fun d => (lst d.clip_evaluations).flatMap (fun e => lst e.«matches»)⟩]

/-- the rows of one kind -/
def rowsOf (k : Kind) : List RefRow := refRows.filter (fun r => r.kind == k)

/-- every identifier the rows of kind `k` find in a document -/
def rowRefs (d : Doc) (k : Kind) : List String := (rowsOf k).flatMap (fun r => r.get d)

/-- `owner/path/idty` of every row, sorted: what the regenerated obligation compares with the
    extraction from the declared fields -/
def RefRow.name (r : RefRow) : String := s!"{r.owner}/{r.path}/{r.idty}"
def refRowNames : List String := sortStrings (refRows.map (·.name))

/-- the identifier type of a kind's definition list -/
def Kind.idty : Kind → String
  | .tag => "int"
  | _ => "uuid"

/-- every row's identifier type is the one of the kind it points to (a uuid field never names a
    tag, an integer list never names a uuid-keyed object) -/
def rowsWellTyped : Bool := refRows.all (fun r => r.idty == r.kind.idty)

/-- the definition lists among the keys a collection schema declares -/
def defListsOf (keys : List String) : List String :=
  (Kind.all.map (·.name)).filter (fun n => keys.contains n)

/-- **well-formedness of a collection schema** (given by the keys it declares): a schema that can
    hold objects with a reference field declares the definition list those references point to -/
def schemaClosed (keys : List String) : Bool :=
  refRows.all (fun r => !keys.contains r.owner || keys.contains r.kind.name)

/-- a document populates only fields its schema declares -/
def Doc.within (d : Doc) (keys : List String) : Prop :=
  (∀ r ∈ refRows, r.owner ∉ keys → r.get d = []) ∧ (∀ k : Kind, k.name ∉ keys → defs d k = [])

/-- executable twin of `Doc.within` -/
def Doc.withinB (d : Doc) (keys : List String) : Bool :=
  refRows.all (fun r => keys.contains r.owner || (r.get d).isEmpty)
  && Kind.all.all (fun k => keys.contains k.name || (defs d k).isEmpty)

end SE.Aoef
