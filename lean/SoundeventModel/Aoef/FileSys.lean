/-
  C01 — the state carried between calls of `io.save` / `io.load` is the file system.

  A file system is a map `path → content`; what a path holds is either an AOEF document that parses
  to a `Doc` (with the `version` of its wrapper), or something else (`junk`: text that is not an AOEF
  document — invalid JSON, JSON of another shape, an empty file).  `io.save` **overwrites**: the
  content of the target after a successful save is a function of the saved object only
  (`Path.write_text` truncates), whatever the path held before; a save that fails (a recording
  outside the audio directory: `to_aeof` raises before anything is written) leaves the file system
  as it was.  `io.load` reads the content the path has *now*.

  Directories are not modelled (`save` creates a missing parent; a path is just a key).
-/
import SoundeventModel.Aoef.File
import SoundeventModel.History
namespace SE.Aoef.FS
open SE SE.Aoef

/-- what a path holds -/
inductive Content
  | doc (d : Doc)          -- an AOEF file of the supported version whose `data` parses to `d`
  | junk (s : String)      -- anything else (the text is irrelevant: it is never a valid AOEF document)

/-- the one-cell-per-path file system -/
def FileSys := String → Option Content

def empty : FileSys := fun _ => none

def read (p : String) (fs : FileSys) : Option Content := fs p

/-- writing **replaces** the content of `p` and touches nothing else -/
def write (p : String) (x : Content) (fs : FileSys) : FileSys := fun q => if q = p then some x else fs q

def remove (p : String) (fs : FileSys) : FileSys := fun q => if q = p then none else fs q

/-- the calls of a history -/
inductive Cmd
  | save (p : String) (c : Collection) (sd : Option Paths.PPath)    -- `io.save(c, p, audio_dir=sd)`
  | load (p : String) (ld : Option Paths.PPath)                     -- `io.load(p, audio_dir=ld)`
  | put (p : String) (x : Content)                                  -- somebody else writes the file
  | rm (p : String)                                                 -- somebody else removes it

/-- what a call answers -/
inductive Out
  | done                                   -- `save` / `put` / `rm` returned
  | failed (e : Err)                       -- `save` raised (nothing was written)
  | loaded (r : Except Err Collection)     -- `load` returned / raised
  | notFound                               -- `load`: FileNotFoundError

/-- the path a command writes to (`none`: it writes nothing) -/
def Cmd.target : Cmd → Option String
  | .save p _ _ => some p
  | .put p _ => some p
  | .rm p => some p
  | .load _ _ => none

/-- one call against the file system, for a given way `w` of writing a text to a path -/
def execW (w : String → Content → FileSys → FileSys) (fs : FileSys) : Cmd → FileSys × Out
  | .save p c sd =>
    match Aoef.save c sd with
    | .ok d => (w p (.doc d) fs, .done)
    | .error e => (fs, .failed e)
  | .load p ld =>
    match read p fs with
    | none => (fs, .notFound)
    | some (.junk _) => (fs, .loaded (.error .invalid))
    | some (.doc d) => (fs, .loaded (Aoef.load d ld))
  | .put p x => (write p x fs, .done)
  | .rm p => (remove p fs, .done)

/-- one call of the real code: `save` writes with `Path.write_text`, which replaces the content -/
def exec : FileSys → Cmd → FileSys × Out := execW write

/-! ### the unit of the property: one save followed by one fresh load of that file -/

structure SaveLoad where
  path : String
  c : Collection
  sd : Option Paths.PPath
  ld : Option Paths.PPath

/-- save then load against whatever the file system holds -/
def slStepW (w : String → Content → FileSys → FileSys) (fs : FileSys) (x : SaveLoad) :
    FileSys × Except Err Collection :=
  match execW w fs (.save x.path x.c x.sd) with
  | (fs1, .done) =>
    match (execW w fs1 (.load x.path x.ld)).2 with
    | .loaded r => (fs1, r)
    | _ => (fs1, .error .invalid)
  | (fs1, .failed e) => (fs1, .error e)
  | (fs1, _) => (fs1, .error .invalid)

def slStep : FileSys → SaveLoad → FileSys × Except Err Collection := slStepW write

/-- the pure model of the same call: no file system at all -/
def slPure (x : SaveLoad) : Except Err Collection :=
  match Aoef.save x.c x.sd with
  | .ok d => Aoef.load d x.ld
  | .error e => .error e

/-- a writer that does **not** truncate (`os.open(path, O_WRONLY | O_CREAT)`): when the path holds a
    longer text the old tail stays behind and the file is no AOEF document any more.  `len` is the
    length of the text of a content. -/
def writeNoTrunc (len : Content → Nat) (p : String) (x : Content) (fs : FileSys) : FileSys :=
  match fs p with
  | some old => if len x < len old then write p (.junk "new text + old tail") fs else write p x fs
  | none => write p x fs

end SE.Aoef.FS
