/-
  C01 / C02 — `soundevent.io.aoef.adapters.DataAdapter`, operationally: the three lookup tables
  of an adapter and its methods `get_id`, `to_aoef`, `to_soundevent`, `from_id`, `values`, as a
  state machine.  `Save.lean` and `Load.lean` use the *declarative* reading of these tables
  (`dedupBy` of what was converted, `addAll` of what was registered); Proofs/Lemmas/AoefAdapter
  proves that reading from this operational model, and the harness drives the real `UserAdapter`
  and `TagAdapter` through random operation sequences against it (op `adapter_ops` of C02).

  κ : key of a sound-event object (`_get_soundevent_key`: uuid, or (label, value) for tags)
  ι : AOEF id (`get_new_id`: the uuid, or `len(self._mapping)` for tags)
  σ : sound-event object,  ω : AOEF object
-/
import SoundeventModel.Aoef.Load
namespace SE.Aoef

structure Adapter (κ ι σ ω : Type) where
  mapping : List (κ × ι) := []        -- `_mapping`
  seStore : List (ι × σ) := []        -- `_soundevent_store`
  aoefStore : List (ι × ω) := []      -- `_aoef_store`
  deriving Repr

namespace Adapter
variable {κ ι σ ω : Type} [BEq κ] [BEq ι]

/-- the behaviour an adapter class supplies -/
structure Spec (κ ι σ ω : Type) where
  seKey : σ → κ                               -- `_get_soundevent_key`
  aoefKey : ω → ι                             -- `_get_aoef_key`
  newId : Adapter κ ι σ ω → σ → ι             -- `get_new_id`
  assembleAoef : σ → ι → ω                    -- `assemble_aoef` (leaf adapters: no nested conversion)
  assembleSe : ω → σ                          -- `assemble_soundevent`

def putNew {α β} [BEq α] (tbl : List (α × β)) (k : α) (v : β) : List (α × β) :=
  match List.lookup k tbl with
  | some _ => tbl
  | none => tbl ++ [(k, v)]

/-- `get_id` -/
def getId (sp : Spec κ ι σ ω) (a : Adapter κ ι σ ω) (obj : σ) : ι × Adapter κ ι σ ω :=
  let k := sp.seKey obj
  let a1 : Adapter κ ι σ ω :=
    match List.lookup k a.mapping with
    | some _ => a
    | none => { a with mapping := a.mapping ++ [(k, sp.newId a obj)] }
  match List.lookup k a1.mapping with
  | some id => (id, { a1 with seStore := putNew a1.seStore id obj })
  | none => (sp.newId a obj, a1)      -- unreachable: the key was just inserted

/-- `to_aoef` -/
def toAoef (sp : Spec κ ι σ ω) (a : Adapter κ ι σ ω) (obj : σ) : ω × Adapter κ ι σ ω :=
  let (id, a1) := getId sp a obj
  let a2 : Adapter κ ι σ ω :=
    match List.lookup id a1.aoefStore with
    | some _ => a1
    | none => { a1 with aoefStore := a1.aoefStore ++ [(id, sp.assembleAoef obj id)] }
  let a3 := { a2 with seStore := putNew a2.seStore id obj }
  ((List.lookup id a3.aoefStore).getD (sp.assembleAoef obj id), a3)

/-- `to_soundevent` -/
def toSoundevent (sp : Spec κ ι σ ω) (a : Adapter κ ι σ ω) (o : ω) : σ × Adapter κ ι σ ω :=
  let id := sp.aoefKey o
  let a1 : Adapter κ ι σ ω :=
    match List.lookup id a.seStore with
    | some _ => a
    | none => { a with seStore := a.seStore ++ [(id, sp.assembleSe o)] }
  let a2 := { a1 with aoefStore := putNew a1.aoefStore id o }
  ((List.lookup id a2.seStore).getD (sp.assembleSe o), a2)

/-- `from_id` -/
def fromId (a : Adapter κ ι σ ω) (id : ι) : Option σ := List.lookup id a.seStore

/-- `values` -/
def values (a : Adapter κ ι σ ω) : Option (List ω) :=
  if a.aoefStore.isEmpty then none else some (a.aoefStore.map (·.2))

/-- converting a list of objects in order -/
def toAoefAll (sp : Spec κ ι σ ω) (a : Adapter κ ι σ ω) (xs : List σ) : List ω × Adapter κ ι σ ω :=
  xs.foldl (fun (acc : List ω × Adapter κ ι σ ω) x =>
    let (o, a') := toAoef sp acc.2 x
    (acc.1 ++ [o], a')) ([], a)

def toSoundeventAll (sp : Spec κ ι σ ω) (a : Adapter κ ι σ ω) (os : List ω) : List σ × Adapter κ ι σ ω :=
  os.foldl (fun (acc : List σ × Adapter κ ι σ ω) o =>
    let (s, a') := toSoundevent sp acc.2 o
    (acc.1 ++ [s], a')) ([], a)

end Adapter

/-- `UserAdapter` -/
def userSpec : Adapter.Spec Atom Atom User UserObj where
  seKey := (·.uuid)
  aoefKey := (·.uuid)
  newId := fun _ u => u.uuid
  assembleAoef := fun u _ => encUser u
  assembleSe := decUser

/-- `TagAdapter`: keyed by (label, value), ids allocated densely from the size of the key table -/
def tagSpec : Adapter.Spec Tag Nat Tag TagObj where
  seKey := id
  aoefKey := (·.id)
  newId := fun a _ => a.mapping.length
  assembleAoef := fun t i => ⟨i, t.key, t.value⟩
  assembleSe := decTag

/-- an operation of the adapter protocol (for the operation-sequence correspondence) -/
inductive AdOp (σ ω ι : Type)
  | toAoef (x : σ)
  | toSe (o : ω)
  | fromId (i : ι)
  | values
  | getId (x : σ)

end SE.Aoef
