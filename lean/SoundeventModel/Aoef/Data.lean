/-
  C01 / C02 / C18 — the data classes of `soundevent.data` that AOEF stores, as plain Lean values.

  * One structure per data class with exactly the declared fields (the table obligation
    `FieldsAgree`, regenerated from `model_fields` on every run, compares the names).
  * Numbers, UUIDs, timestamps, e-mail addresses, enum members and free text are *atoms*
    (`String`): the adapters only copy and compare them.  The two places where the code inspects
    a value (`time_expansion != 1.0`, the audio path) are modelled explicitly.
  * A term is modelled by its label (the property permits exactly this reduction; the generators
    use simple-label terms, `term_from_key (key_from_term t) = t`).
  * Python objects are referenced, Lean values are embedded: sharing of an object is equality of
    values; the coherence predicate `WF` (Save.lean) says that objects of one kind with one key
    are equal, which is what sharing by reference guarantees.
  * `Sequence` is the only recursive class (`parent : Optional[Sequence]`): a sequence with its
    chain of ancestors is a non-empty list of nodes — `node` and `ancestors = [parent,
    grandparent, …]`.
-/
import Lean.Data.Json
import SoundeventModel.Paths
namespace SE.Aoef
open Lean SE.Paths

abbrev Atom := String

/-- the token the harness sends for the float `1.0` (canonical `repr`) -/
def oneTok : Atom := "1.0"

instance : ToJson PPath := ⟨fun p => Json.str (render p)⟩
instance : FromJson PPath := ⟨fun j => do return parse (← j.getStr?)⟩

structure User where
  uuid : Atom
  username : Option Atom := none
  email : Option Atom := none
  name : Option Atom := none
  institution : Option Atom := none
  deriving DecidableEq, Repr, Inhabited, ToJson, FromJson

/-- `Tag(term, value)` with the term reduced to its label (`key_from_term`) -/
structure Tag where
  key : String
  value : String
  deriving DecidableEq, Repr, Inhabited, ToJson, FromJson

/-- `Feature(term, value)` with the term reduced to its label -/
structure Feature where
  key : String
  value : Atom
  deriving DecidableEq, Repr, Inhabited, ToJson, FromJson

structure Note where
  uuid : Atom
  message : Atom
  created_by : Option User := none
  is_issue : Bool := false
  created_on : Atom
  deriving DecidableEq, Repr, Inhabited, ToJson, FromJson

structure Recording where
  uuid : Atom
  path : PPath
  duration : Atom
  channels : Atom
  samplerate : Atom
  time_expansion : Atom := oneTok
  hash : Option Atom := none
  date : Option Atom := none
  time : Option Atom := none
  latitude : Option Atom := none
  longitude : Option Atom := none
  license : Option Atom := none
  owners : List User := []
  rights : Option Atom := none
  tags : List Tag := []
  features : List Feature := []
  notes : List Note := []
  deriving DecidableEq, Repr, Inhabited, ToJson, FromJson

structure Clip where
  uuid : Atom
  recording : Recording
  start_time : Atom
  end_time : Atom
  features : List Feature := []
  deriving DecidableEq, Repr, Inhabited, ToJson, FromJson

structure SoundEvent where
  uuid : Atom
  geometry : Option Atom := none     -- canonical text of the geometry (copied wholesale, see C03)
  recording : Recording
  features : List Feature := []
  deriving DecidableEq, Repr, Inhabited, ToJson, FromJson

/-- one node of a sequence chain: the fields of `Sequence` except `parent` -/
structure SeqNode where
  uuid : Atom
  sound_events : List SoundEvent := []
  features : List Feature := []
  deriving DecidableEq, Repr, Inhabited

structure Sequence where
  node : SeqNode
  ancestors : List SeqNode := []      -- parent, grandparent, …
  deriving DecidableEq, Repr, Inhabited

def Sequence.uuid (s : Sequence) : Atom := s.node.uuid
def Sequence.parent (s : Sequence) : Option Sequence :=
  match s.ancestors with
  | [] => none
  | a :: as => some ⟨a, as⟩

/-- JSON of a sequence in the nested form of the Python class: `parent` is a sequence or null -/
def seqToJson : SeqNode → List SeqNode → Json
  | n, anc =>
    Json.mkObj [("uuid", toJson n.uuid), ("sound_events", toJson n.sound_events),
                ("features", toJson n.features),
                ("parent", match anc with
                           | [] => Json.null
                           | a :: as => seqToJson a as)]

instance : ToJson Sequence := ⟨fun s => seqToJson s.node s.ancestors⟩

partial def seqFromJson (j : Json) : Except String Sequence := do
  let uuid ← j.getObjValAs? Atom "uuid"
  let ses ← j.getObjValAs? (List SoundEvent) "sound_events"
  let fs ← j.getObjValAs? (List Feature) "features"
  let node : SeqNode := ⟨uuid, ses, fs⟩
  match j.getObjVal? "parent" with
  | .ok .null | .error _ => return ⟨node, []⟩
  | .ok pj =>
    let p ← seqFromJson pj
    return ⟨node, p.node :: p.ancestors⟩

instance : FromJson Sequence := ⟨seqFromJson⟩

structure SoundEventAnnotation where
  uuid : Atom
  sound_event : SoundEvent
  notes : List Note := []
  tags : List Tag := []
  created_by : Option User := none
  created_on : Atom
  deriving DecidableEq, Repr, Inhabited, ToJson, FromJson

structure SequenceAnnotation where
  uuid : Atom
  sequence : Sequence
  notes : List Note := []
  tags : List Tag := []
  created_by : Option User := none
  created_on : Atom
  deriving DecidableEq, Repr, Inhabited, ToJson, FromJson

structure ClipAnnotation where
  uuid : Atom
  clip : Clip
  sound_events : List SoundEventAnnotation := []
  sequences : List SequenceAnnotation := []
  tags : List Tag := []
  notes : List Note := []
  created_on : Atom
  deriving DecidableEq, Repr, Inhabited, ToJson, FromJson

structure StatusBadge where
  state : Atom
  owner : Option User := none
  created_on : Atom
  deriving DecidableEq, Repr, Inhabited, ToJson, FromJson

structure AnnotationTask where
  uuid : Atom
  clip : Clip
  status_badges : List StatusBadge := []
  created_on : Atom
  deriving DecidableEq, Repr, Inhabited, ToJson, FromJson

structure PredictedTag where
  tag : Tag
  score : Atom
  deriving DecidableEq, Repr, Inhabited, ToJson, FromJson

structure SoundEventPrediction where
  uuid : Atom
  sound_event : SoundEvent
  score : Atom
  tags : List PredictedTag := []
  deriving DecidableEq, Repr, Inhabited, ToJson, FromJson

structure SequencePrediction where
  uuid : Atom
  sequence : Sequence
  score : Atom
  tags : List PredictedTag := []
  deriving DecidableEq, Repr, Inhabited, ToJson, FromJson

structure ClipPrediction where
  uuid : Atom
  clip : Clip
  sound_events : List SoundEventPrediction := []
  sequences : List SequencePrediction := []
  tags : List PredictedTag := []
  features : List Feature := []
  deriving DecidableEq, Repr, Inhabited, ToJson, FromJson

structure Match where
  uuid : Atom
  source : Option SoundEventPrediction := none
  target : Option SoundEventAnnotation := none
  affinity : Atom
  score : Option Atom := none
  metrics : List Feature := []
  deriving DecidableEq, Repr, Inhabited, ToJson, FromJson

structure ClipEvaluation where
  uuid : Atom
  annotations : ClipAnnotation
  predictions : ClipPrediction
  «matches» : List Match := []
  metrics : List Feature := []
  score : Option Atom := none
  deriving DecidableEq, Repr, Inhabited, ToJson, FromJson

/-! ### the eight collection classes -/

structure RecordingSet where
  uuid : Atom
  recordings : List Recording := []
  created_on : Atom
  deriving DecidableEq, Repr, Inhabited, ToJson, FromJson

structure Dataset where
  uuid : Atom
  recordings : List Recording := []
  created_on : Atom
  name : Atom
  description : Option Atom := none
  deriving DecidableEq, Repr, Inhabited, ToJson, FromJson

structure AnnotationSet where
  uuid : Atom
  clip_annotations : List ClipAnnotation := []
  created_on : Atom
  deriving DecidableEq, Repr, Inhabited, ToJson, FromJson

structure AnnotationProject where
  uuid : Atom
  clip_annotations : List ClipAnnotation := []
  created_on : Atom
  name : Atom
  description : Option Atom := none
  instructions : Option Atom := none
  annotation_tags : List Tag := []
  tasks : List AnnotationTask := []
  deriving DecidableEq, Repr, Inhabited, ToJson, FromJson

structure EvaluationSet where
  uuid : Atom
  clip_annotations : List ClipAnnotation := []
  created_on : Atom
  name : Atom
  description : Option Atom := none
  evaluation_tags : List Tag := []
  deriving DecidableEq, Repr, Inhabited, ToJson, FromJson

structure PredictionSet where
  uuid : Atom
  clip_predictions : List ClipPrediction := []
  created_on : Atom
  deriving DecidableEq, Repr, Inhabited, ToJson, FromJson

structure ModelRun where
  uuid : Atom
  clip_predictions : List ClipPrediction := []
  created_on : Atom
  name : Atom
  version : Option Atom := none
  description : Option Atom := none
  deriving DecidableEq, Repr, Inhabited, ToJson, FromJson

structure Evaluation where
  uuid : Atom
  created_on : Atom
  evaluation_task : Atom
  clip_evaluations : List ClipEvaluation := []
  metrics : List Feature := []
  score : Option Atom := none
  deriving DecidableEq, Repr, Inhabited, ToJson, FromJson

inductive Collection
  | recordingSet (x : RecordingSet)
  | dataset (x : Dataset)
  | annotationSet (x : AnnotationSet)
  | annotationProject (x : AnnotationProject)
  | evaluationSet (x : EvaluationSet)
  | predictionSet (x : PredictionSet)
  | modelRun (x : ModelRun)
  | evaluation (x : Evaluation)
  deriving DecidableEq, Repr, Inhabited

/-- the `collection_type` discriminator the most specific adapter writes -/
def Collection.typeName : Collection → String
  | .recordingSet _ => "recording_set"
  | .dataset _ => "dataset"
  | .annotationSet _ => "annotation_set"
  | .annotationProject _ => "annotation_project"
  | .evaluationSet _ => "evaluation_set"
  | .predictionSet _ => "prediction_set"
  | .modelRun _ => "model_run"
  | .evaluation _ => "evaluation"

def Collection.toJsonC : Collection → Json
  | .recordingSet x => toJson x
  | .dataset x => toJson x
  | .annotationSet x => toJson x
  | .annotationProject x => toJson x
  | .evaluationSet x => toJson x
  | .predictionSet x => toJson x
  | .modelRun x => toJson x
  | .evaluation x => toJson x

/-- `{"type": <collection_type>, "value": <fields>}` -/
instance : ToJson Collection :=
  ⟨fun c => Json.mkObj [("type", Json.str c.typeName), ("value", c.toJsonC)]⟩

instance : FromJson Collection := ⟨fun j => do
  let ty ← j.getObjValAs? String "type"
  let v ← j.getObjVal? "value"
  match ty with
  | "recording_set" => return .recordingSet (← fromJson? v)
  | "dataset" => return .dataset (← fromJson? v)
  | "annotation_set" => return .annotationSet (← fromJson? v)
  | "annotation_project" => return .annotationProject (← fromJson? v)
  | "evaluation_set" => return .evaluationSet (← fromJson? v)
  | "prediction_set" => return .predictionSet (← fromJson? v)
  | "model_run" => return .modelRun (← fromJson? v)
  | "evaluation" => return .evaluation (← fromJson? v)
  | _ => throw s!"unknown collection type {ty}"⟩

/-! ### The universal object type and the traversal

`Obj` is the sum of the fifteen kinds of objects that get an identity in a document.  `…All x`
lists `x` and everything reachable from it in *post-order* (everything an object refers to comes
before the object, a sequence's parent before the sequence) — the order in which
`DataAdapter.to_aoef` completes objects.  Objects may occur several times; the top-level lists
of a document are the first-wins de-duplication by key. -/

inductive Obj
  | user (x : User)
  | tag (x : Tag)
  | recording (x : Recording)
  | clip (x : Clip)
  | soundEvent (x : SoundEvent)
  | sequence (x : Sequence)
  | seAnn (x : SoundEventAnnotation)
  | seqAnn (x : SequenceAnnotation)
  | clipAnn (x : ClipAnnotation)
  | sePred (x : SoundEventPrediction)
  | seqPred (x : SequencePrediction)
  | clipPred (x : ClipPrediction)
  | task (x : AnnotationTask)
  | mtch (x : Match)
  | clipEval (x : ClipEvaluation)
  deriving DecidableEq, Repr, Inhabited

def optUser (u : Option User) : List Obj := u.toList.map .user
def noteAll (n : Note) : List Obj := optUser n.created_by
def notesAll (ns : List Note) : List Obj := ns.flatMap noteAll
def tagsAll (ts : List Tag) : List Obj := ts.map .tag
def ptagsAll (ts : List PredictedTag) : List Obj := ts.map (fun p => .tag p.tag)

def recAll (r : Recording) : List Obj :=
  tagsAll r.tags ++ notesAll r.notes ++ r.owners.map .user ++ [.recording r]

def clipAll (c : Clip) : List Obj := recAll c.recording ++ [.clip c]

def seAll (s : SoundEvent) : List Obj := recAll s.recording ++ [.soundEvent s]

/-- parent chain first (root … parent), then the node's sound events, then the sequence -/
def seqAllAux : SeqNode → List SeqNode → List Obj
  | n, [] => n.sound_events.flatMap seAll ++ [.sequence ⟨n, []⟩]
  | n, a :: as => seqAllAux a as ++ n.sound_events.flatMap seAll ++ [.sequence ⟨n, a :: as⟩]

def seqAll (s : Sequence) : List Obj := seqAllAux s.node s.ancestors

def seaAll (a : SoundEventAnnotation) : List Obj :=
  seAll a.sound_event ++ notesAll a.notes ++ tagsAll a.tags ++ optUser a.created_by ++ [.seAnn a]

def sqaAll (a : SequenceAnnotation) : List Obj :=
  seqAll a.sequence ++ notesAll a.notes ++ tagsAll a.tags ++ optUser a.created_by ++ [.seqAnn a]

def caAll (a : ClipAnnotation) : List Obj :=
  clipAll a.clip ++ tagsAll a.tags ++ a.sound_events.flatMap seaAll ++ a.sequences.flatMap sqaAll
    ++ notesAll a.notes ++ [.clipAnn a]

def sepAll (p : SoundEventPrediction) : List Obj :=
  seAll p.sound_event ++ ptagsAll p.tags ++ [.sePred p]

def sqpAll (p : SequencePrediction) : List Obj :=
  seqAll p.sequence ++ ptagsAll p.tags ++ [.seqPred p]

def cpAll (p : ClipPrediction) : List Obj :=
  clipAll p.clip ++ p.sound_events.flatMap sepAll ++ p.sequences.flatMap sqpAll ++ ptagsAll p.tags
    ++ [.clipPred p]

def badgeAll (b : StatusBadge) : List Obj := optUser b.owner

def taskAll (t : AnnotationTask) : List Obj :=
  t.status_badges.flatMap badgeAll ++ clipAll t.clip ++ [.task t]

def matchAll (m : Match) : List Obj :=
  (match m.source with | some p => sepAll p | none => [])
    ++ (match m.target with | some a => seaAll a | none => []) ++ [.mtch m]

def ceAll (e : ClipEvaluation) : List Obj :=
  caAll e.annotations ++ cpAll e.predictions ++ e.«matches».flatMap matchAll ++ [.clipEval e]

/-- every object reachable from a collection, in completion order (with repetitions) -/
def Collection.trav : Collection → List Obj
  | .recordingSet x => x.recordings.flatMap recAll
  | .dataset x => x.recordings.flatMap recAll
  | .annotationSet x => x.clip_annotations.flatMap caAll
  | .annotationProject x =>
      x.tasks.flatMap taskAll ++ tagsAll x.annotation_tags ++ x.clip_annotations.flatMap caAll
  | .evaluationSet x => x.clip_annotations.flatMap caAll ++ tagsAll x.evaluation_tags
  | .predictionSet x => x.clip_predictions.flatMap cpAll
  | .modelRun x => x.clip_predictions.flatMap cpAll
  | .evaluation x => x.clip_evaluations.flatMap ceAll

/-! per-kind projections of a traversal -/
def usersOf (os : List Obj) : List User := os.filterMap fun | .user x => some x | _ => none
def tagsOf (os : List Obj) : List Tag := os.filterMap fun | .tag x => some x | _ => none
def recsOf (os : List Obj) : List Recording := os.filterMap fun | .recording x => some x | _ => none
def clipsOf (os : List Obj) : List Clip := os.filterMap fun | .clip x => some x | _ => none
def sesOf (os : List Obj) : List SoundEvent := os.filterMap fun | .soundEvent x => some x | _ => none
def seqsOf (os : List Obj) : List Sequence := os.filterMap fun | .sequence x => some x | _ => none
def seasOf (os : List Obj) : List SoundEventAnnotation := os.filterMap fun | .seAnn x => some x | _ => none
def sqasOf (os : List Obj) : List SequenceAnnotation := os.filterMap fun | .seqAnn x => some x | _ => none
def casOf (os : List Obj) : List ClipAnnotation := os.filterMap fun | .clipAnn x => some x | _ => none
def sepsOf (os : List Obj) : List SoundEventPrediction := os.filterMap fun | .sePred x => some x | _ => none
def sqpsOf (os : List Obj) : List SequencePrediction := os.filterMap fun | .seqPred x => some x | _ => none
def cpsOf (os : List Obj) : List ClipPrediction := os.filterMap fun | .clipPred x => some x | _ => none
def tasksOf (os : List Obj) : List AnnotationTask := os.filterMap fun | .task x => some x | _ => none
def matchesOf (os : List Obj) : List Match := os.filterMap fun | .mtch x => some x | _ => none
def cesOf (os : List Obj) : List ClipEvaluation := os.filterMap fun | .clipEval x => some x | _ => none

end SE.Aoef
