/-
  C18 — sessions: several saves and loads in one process, over named live objects and named files.

  `save` and `load` of the model are pure functions (`Collection → Option PPath → Except Err Doc`,
  `Doc → Option PPath → Except Err Collection`).  The real functions run in a process and write to a
  file system: the same target path is used again, an object that was saved is changed and saved again,
  a loaded object is changed and saved back to the file it came from, a save fails after an earlier one
  succeeded.  A *session* is such a sequence of steps; the state it runs in has two finite maps:

    * `objs`  : the content each live object carries *now* (a step may replace it: built afresh by
                whatever construction path, changed by assignment / `model_copy(update=…)`, loaded),
    * `files` : the document each file holds (the file-system cell: a successful save replaces the
                whole content, whatever the file held before; a failing save does not touch it); an
                in-memory document object (`to_aeof`'s result, a parsed file) is such a cell too.

  Only this is modelled of the file system: whole-file replacement on success, nothing on failure,
  reads do not write.
-/
import SoundeventModel.Aoef.Reach
import SoundeventModel.History
namespace SE.Aoef.Session
open SE SE.Paths SE.Aoef

/-- finite maps as association lists, the newest binding first -/
def get {α : Type} : List (String × α) → String → Option α
  | [], _ => none
  | (k', v) :: m, k => if k' = k then some v else get m k

def put {α : Type} (m : List (String × α)) (k : String) (v : α) : List (String × α) := (k, v) :: m

structure State where
  objs : List (String × Collection)
  files : List (String × Doc)

def State.empty : State := ⟨[], []⟩

inductive Step
  /-- the live object `k` carries the content `c` from now on (a fresh object built by some
      construction path, or an object rebuilt after an edit) -/
  | put (k : String) (c : Collection)
  /-- every recording of the live object `k` whose path is `src` is at `dst` from now on (assignment
      to `Recording.path`, `model_copy(update={"path": …})`) -/
  | move (k : String) (src dst : PPath)
  /-- `save(objs[k], file, audio_dir=dir)` -/
  | save (k file : String) (dir : Option PPath)
  /-- `objs[into] = load(file, audio_dir=dir)` -/
  | load (file : String) (dir : Option PPath) (into : String)
  /-- the document held by the cell `src` is put into the cell `dst` as it is: an in-memory document
      written out (`write_text(doc.model_dump_json())`), a file parsed into an in-memory document
      (`AOEFObject.model_validate_json(text)`).  In-memory documents are cells like files: `to_aeof` is a
      save to such a cell, `to_soundevent` a load from it -/
  | copy (src dst : String)
  /-- something the model does not see (a returned object changed in place by the caller) -/
  | skip
  deriving Inhabited

inductive Out
  /-- the recordings `(uuid, path)` reachable from the object the step produced -/
  | recs (xs : List (String × PPath))
  /-- the `(uuid, path)` entries of `data.recordings` of the document the step wrote -/
  | stored (xs : List (String × PPath))
  | fail (e : Err)
  /-- the step names an object / a file that does not exist in this session -/
  | missing
  | nothing
  deriving DecidableEq, Repr, Inhabited

/-- every recording reachable from a collection: `(uuid, path)`, one entry per uuid -/
def recPaths (c : Collection) : List (String × PPath) :=
  (dedupBy (·.uuid) (recsOf c.trav)).map fun r => (r.uuid, r.path)

/-- the `(uuid, path)` entries of the recording table of a document -/
def storedOf (d : Doc) : List (String × PPath) := (lst d.recordings).map fun r => (r.uuid, r.path)

def moved (src dst p : PPath) : PPath := if p = src then dst else p

def step (s : State) : Step → State × Out
  | .put k c => ({ s with objs := put s.objs k c }, .recs (recPaths c))
  | .move k src dst =>
    match get s.objs k with
    | none => (s, .missing)
    | some c => ({ s with objs := put s.objs k (c.mapPath (moved src dst)) },
                 .recs (recPaths (c.mapPath (moved src dst))))
  | .save k f dir =>
    match get s.objs k with
    | none => (s, .missing)
    | some c =>
      match Aoef.save c dir with
      | .ok d => ({ s with files := put s.files f d }, .stored (storedOf d))
      | .error e => (s, .fail e)
  | .load f dir into =>
    match get s.files f with
    | none => (s, .missing)
    | some d =>
      match Aoef.load d dir with
      | .ok c => ({ s with objs := put s.objs into c }, .recs (recPaths c))
      | .error e => (s, .fail e)
  | .copy src dst =>
    match get s.files src with
    | none => (s, .missing)
    | some d => ({ s with files := put s.files dst d }, .stored (storedOf d))
  | .skip => (s, .nothing)

/-- the outputs of a whole session -/
def run (s : State) (steps : List Step) : List Out := History.runS step s steps

/-- the state a session ends in -/
def after (s : State) (steps : List Step) : State := History.stateAfter step s steps

/-- the step writes to the cell `f` (a save to it, or a copy into it) -/
def Step.savesTo (f : String) : Step → Bool
  | .save _ g _ => g == f
  | .copy _ g => g == f
  | _ => false

end SE.Aoef.Session
