/-
  C01 / C02 / C18 — `soundevent.io.aoef.to_aeof`: the document a collection is written to.

  Every `DataAdapter` keeps a first-wins table keyed by uuid (tags: by `(label, value)`, with a
  dense integer id allocated at first sight).  `values()` of an adapter is therefore the list of
  the distinct objects of its kind that were converted, i.e. the first-wins de-duplication
  (`dedupBy`) of the traversal `Collection.trav` restricted to that kind; an empty table gives
  `None` (`listOpt`).  Each object is encoded by its `assemble_aoef`: nested objects by key,
  tags by id, feature lists as dicts, `x if x else None` as the code writes it.

  The order of a top-level list is the completion order of the conversions (post-order); the
  property does not pin it (only "parent before child" for sequences) and the correspondence
  does not compare it.
-/
import SoundeventModel.Aoef.Doc
namespace SE.Aoef
open SE.Paths

/-- first-wins de-duplication by key, keeping the order of first occurrences -/
def dedupBy {α κ} [DecidableEq κ] (key : α → κ) : List α → List α
  | [] => []
  | x :: xs => x :: (dedupBy key xs).filter (fun y => key y ≠ key x)

/-- no element occurs twice (executable) -/
def nodupB {α} [BEq α] : List α → Bool
  | [] => true
  | x :: xs => !xs.contains x && nodupB xs

/-- the tag table: distinct tags in order of first conversion; a tag's id is its index -/
def tagTable (os : List Obj) : List Tag := dedupBy id (tagsOf os)

def tagId (tids : List Tag) (t : Tag) : Nat := tids.idxOf t

def encUser (u : User) : UserObj := ⟨u.uuid, u.username, u.email, u.name, u.institution⟩

def encTags (tids : List Tag) : List TagObj := tids.zipIdx.map fun (t, i) => ⟨i, t.key, t.value⟩

def encNote (n : Note) : NoteObj :=
  ⟨n.uuid, n.message, n.created_by.map (·.uuid), n.is_issue, some n.created_on⟩

/-- `Path(obj.path).relative_to(audio_dir)` when an audio directory is given -/
def storedPath (dir : Option PPath) (p : PPath) : Except Err PPath :=
  match dir with
  | none => .ok p
  | some d => relativeTo p d

def encRecording (tids : List Tag) (dir : Option PPath) (r : Recording) : Except Err RecordingObj := do
  let path ← storedPath dir r.path
  return {
    uuid := r.uuid, path := path, duration := r.duration, channels := r.channels,
    samplerate := r.samplerate,
    time_expansion := if r.time_expansion ≠ oneTok then some r.time_expansion else none,
    hash := r.hash, date := r.date, time := r.time, latitude := r.latitude,
    longitude := r.longitude,
    tags := listOpt (r.tags.map (tagId tids)),
    features := dictOpt r.features,
    notes := listOpt (r.notes.map encNote),
    owners := some (r.owners.map (·.uuid)),
    rights := r.rights,
    license := r.license }

def encClip (c : Clip) : ClipObj :=
  ⟨c.uuid, c.recording.uuid, c.start_time, c.end_time, dictOpt c.features⟩

def encSoundEvent (s : SoundEvent) : SoundEventObj :=
  ⟨s.uuid, s.recording.uuid, s.geometry, dictOpt s.features⟩

def encSequence (s : Sequence) : SequenceObj :=
  ⟨s.node.uuid, s.node.sound_events.map (·.uuid), dictOpt s.node.features,
   s.ancestors.head?.map (·.uuid)⟩

def encSEA (tids : List Tag) (a : SoundEventAnnotation) : SoundEventAnnotationObj :=
  ⟨a.uuid, a.sound_event.uuid, listOpt (a.notes.map encNote), some (a.tags.map (tagId tids)),
   a.created_by.map (·.uuid), some a.created_on⟩

def encSQA (tids : List Tag) (a : SequenceAnnotation) : SequenceAnnotationObj :=
  ⟨a.uuid, a.sequence.uuid, listOpt (a.notes.map encNote), listOpt (a.tags.map (tagId tids)),
   a.created_by.map (·.uuid), some a.created_on⟩

def encCA (tids : List Tag) (a : ClipAnnotation) : ClipAnnotationsObj :=
  ⟨a.uuid, a.clip.uuid, listOpt (a.tags.map (tagId tids)),
   listOpt (a.sound_events.map (·.uuid)), listOpt (a.sequences.map (·.uuid)),
   listOpt (a.notes.map encNote), some a.created_on⟩

def encBadge (b : StatusBadge) : StatusBadgeObj :=
  ⟨b.state, b.owner.map (·.uuid), some b.created_on⟩

def encTask (t : AnnotationTask) : AnnotationTaskObj :=
  ⟨t.uuid, t.clip.uuid, listOpt (t.status_badges.map encBadge), some t.created_on⟩

def encPTags (tids : List Tag) (ts : List PredictedTag) : Option (List ScoredTag) :=
  listOpt (ts.map fun p => ⟨tagId tids p.tag, p.score⟩)

def encSEP (tids : List Tag) (p : SoundEventPrediction) : SoundEventPredictionObj :=
  ⟨p.uuid, p.sound_event.uuid, p.score, encPTags tids p.tags⟩

def encSQP (tids : List Tag) (p : SequencePrediction) : SequencePredictionObj :=
  ⟨p.uuid, p.sequence.uuid, p.score, encPTags tids p.tags⟩

/-- `features` is written even when empty (`if obj.features is not None`) -/
def encCP (tids : List Tag) (p : ClipPrediction) : ClipPredictionsObj :=
  ⟨p.uuid, p.clip.uuid, listOpt (p.sound_events.map (·.uuid)), listOpt (p.sequences.map (·.uuid)),
   encPTags tids p.tags, some (dictOf p.features)⟩

def encMatch (m : Match) : MatchObj :=
  ⟨m.uuid, m.source.map (·.uuid), m.target.map (·.uuid), m.affinity, m.score, dictOpt m.metrics⟩

def encCE (e : ClipEvaluation) : ClipEvaluationObj :=
  ⟨e.uuid, e.annotations.uuid, e.predictions.uuid, listOpt (e.«matches».map (·.uuid)),
   dictOpt e.metrics, e.score⟩

/-- the top-level lists that `values()` of the shared sub-adapters yield -/
structure Shared where
  users : Option (List UserObj)
  tags : Option (List TagObj)
  recordings : List RecordingObj
  clips : Option (List ClipObj)
  sound_events : Option (List SoundEventObj)
  sequences : Option (List SequenceObj)

def shared (os : List Obj) (dir : Option PPath) : Except Err Shared := do
  let tids := tagTable os
  let recs ← (dedupBy (·.uuid) (recsOf os)).mapM (encRecording tids dir)
  return {
    users := listOpt ((dedupBy (·.uuid) (usersOf os)).map encUser),
    tags := listOpt (encTags tids),
    recordings := recs,
    clips := listOpt ((dedupBy (·.uuid) (clipsOf os)).map encClip),
    sound_events := listOpt ((dedupBy (·.uuid) (sesOf os)).map encSoundEvent),
    sequences := listOpt ((dedupBy (·.uuid) (seqsOf os)).map encSequence) }

def annotationLists (os : List Obj) (tids : List Tag) :
    Option (List SoundEventAnnotationObj) × Option (List SequenceAnnotationObj) :=
  (listOpt ((dedupBy (·.uuid) (seasOf os)).map (encSEA tids)),
   listOpt ((dedupBy (·.uuid) (sqasOf os)).map (encSQA tids)))

def predictionLists (os : List Obj) (tids : List Tag) :
    Option (List SoundEventPredictionObj) × Option (List SequencePredictionObj) :=
  (listOpt ((dedupBy (·.uuid) (sepsOf os)).map (encSEP tids)),
   listOpt ((dedupBy (·.uuid) (sqpsOf os)).map (encSQP tids)))

/-- the annotation-set part shared by annotation sets, projects and evaluation sets -/
def annotationDoc (ty : String) (uuid created_on : Atom) (cas : List ClipAnnotation)
    (os : List Obj) (dir : Option PPath) : Except Err Doc := do
  let sh ← shared os dir
  let tids := tagTable os
  let (seas, sqas) := annotationLists os tids
  return {
    collection_type := ty, uuid := uuid, created_on := some created_on,
    users := sh.users, tags := sh.tags, recordings := listOpt sh.recordings, clips := sh.clips,
    sound_events := sh.sound_events, sequences := sh.sequences,
    sound_event_annotations := seas, sequence_annotations := sqas,
    clip_annotations := some (cas.map (encCA tids)) }

def predictionDoc (ty : String) (uuid created_on : Atom) (cps : List ClipPrediction)
    (os : List Obj) (dir : Option PPath) : Except Err Doc := do
  let sh ← shared os dir
  let tids := tagTable os
  let (seps, sqps) := predictionLists os tids
  return {
    collection_type := ty, uuid := uuid, created_on := some created_on,
    users := sh.users, tags := sh.tags, recordings := listOpt sh.recordings, clips := sh.clips,
    sound_events := sh.sound_events, sequences := sh.sequences,
    sound_event_predictions := seps, sequence_predictions := sqps,
    clip_predictions := some (cps.map (encCP tids)) }

def recordingDoc (ty : String) (uuid created_on : Atom) (recs : List Recording)
    (os : List Obj) (dir : Option PPath) : Except Err Doc := do
  let tids := tagTable os
  -- every recording of the set is converted (this is what fails outside the audio directory)
  let rs ← recs.mapM (encRecording tids dir)
  return {
    collection_type := ty, uuid := uuid, created_on := some created_on,
    users := listOpt ((dedupBy (·.uuid) (usersOf os)).map encUser),
    tags := listOpt (encTags tids),
    recordings := some rs }

/-- `to_aeof(obj, audio_dir).data` — fails as a whole (`ValueError`) when a recording lies outside
    the audio directory -/
def save (c : Collection) (dir : Option PPath) : Except Err Doc :=
  let os := c.trav
  match c with
  | .recordingSet x => recordingDoc "recording_set" x.uuid x.created_on x.recordings os dir
  | .dataset x => do
    let d ← recordingDoc "dataset" x.uuid x.created_on x.recordings os dir
    return { d with name := some x.name, description := x.description }
  | .annotationSet x => annotationDoc "annotation_set" x.uuid x.created_on x.clip_annotations os dir
  | .annotationProject x => do
    let d ← annotationDoc "annotation_project" x.uuid x.created_on x.clip_annotations os dir
    return { d with
      name := some x.name, description := x.description, instructions := x.instructions,
      project_tags := listOpt (x.annotation_tags.map (tagId (tagTable os))),
      tasks := some (x.tasks.map encTask) }
  | .evaluationSet x => do
    let d ← annotationDoc "evaluation_set" x.uuid x.created_on x.clip_annotations os dir
    return { d with
      name := some x.name, description := x.description,
      evaluation_tags := listOpt (x.evaluation_tags.map (tagId (tagTable os))) }
  | .predictionSet x => predictionDoc "prediction_set" x.uuid x.created_on x.clip_predictions os dir
  | .modelRun x => do
    let d ← predictionDoc "model_run" x.uuid x.created_on x.clip_predictions os dir
    return { d with name := some x.name, version := x.version, description := x.description }
  | .evaluation x => do
    let sh ← shared os dir
    let tids := tagTable os
    let (seas, sqas) := annotationLists os tids
    let (seps, sqps) := predictionLists os tids
    return {
      collection_type := "evaluation", uuid := x.uuid, created_on := some x.created_on,
      evaluation_task := some x.evaluation_task,
      users := sh.users, tags := sh.tags, recordings := listOpt sh.recordings, clips := sh.clips,
      sound_events := sh.sound_events, sequences := sh.sequences,
      sound_event_annotations := seas, sequence_annotations := sqas,
      clip_annotations := listOpt ((dedupBy (·.uuid) (casOf os)).map (encCA tids)),
      sound_event_predictions := seps, sequence_predictions := sqps,
      clip_predictions := listOpt ((dedupBy (·.uuid) (cpsOf os)).map (encCP tids)),
      clip_evaluations := listOpt ((dedupBy (·.uuid) (cesOf os)).map encCE),
      «matches» := listOpt ((dedupBy (·.uuid) (matchesOf os)).map encMatch),
      metrics := dictOpt x.metrics, score := x.score }

end SE.Aoef
