/-
  C01 / C02 / C18 — the AOEF document: one structure per `…Object` class of
  `soundevent.io.aoef`, with the declared fields (compared with `model_fields` by the
  regenerated obligation `FieldsAgree`).  Optional fields are `Option`s: `none` is a key that
  `model_dump_json(exclude_none=True)` does not write, `some []` is a written empty list.

  A `Dict[str, float]` is the list of its items in insertion order (`Dict`); `dictOf` builds it
  from a feature list with Python's semantics (a repeated key keeps its first position and takes
  the last value).
-/
import SoundeventModel.Aoef.Data
namespace SE.Aoef
open Lean SE.Paths

abbrev Dict := List Feature

/-- `{key_from_term(f.term): f.value for f in fs}` -/
def dictSet (d : Dict) (k : String) (v : Atom) : Dict :=
  if d.any (·.key == k) then d.map (fun e => if e.key == k then ⟨k, v⟩ else e) else d ++ [⟨k, v⟩]

def dictOf (fs : List Feature) : Dict := fs.foldl (fun d f => dictSet d f.key f.value) []

/-- `d if fs else None` -/
def dictOpt (fs : List Feature) : Option Dict := if fs.isEmpty then none else some (dictOf fs)

/-- `xs if xs else None` -/
def listOpt {α} (xs : List α) : Option (List α) := if xs.isEmpty then none else some xs

structure UserObj where
  uuid : Atom
  username : Option Atom := none
  email : Option Atom := none
  name : Option Atom := none
  institution : Option Atom := none
  deriving DecidableEq, Repr, Inhabited, ToJson, FromJson

structure TagObj where
  id : Nat
  key : String
  value : String
  deriving DecidableEq, Repr, Inhabited, ToJson, FromJson

structure NoteObj where
  uuid : Atom
  message : Atom
  created_by : Option Atom := none
  is_issue : Bool := false
  created_on : Option Atom := none
  deriving DecidableEq, Repr, Inhabited, ToJson, FromJson

structure RecordingObj where
  uuid : Atom
  path : PPath
  duration : Atom
  channels : Atom
  samplerate : Atom
  time_expansion : Option Atom := none
  hash : Option Atom := none
  date : Option Atom := none
  time : Option Atom := none
  latitude : Option Atom := none
  longitude : Option Atom := none
  tags : Option (List Nat) := none
  features : Option Dict := none
  notes : Option (List NoteObj) := none
  owners : Option (List Atom) := none
  rights : Option Atom := none
  license : Option Atom := none
  deriving DecidableEq, Repr, Inhabited, ToJson, FromJson

structure ClipObj where
  uuid : Atom
  recording : Atom
  start_time : Atom
  end_time : Atom
  features : Option Dict := none
  deriving DecidableEq, Repr, Inhabited, ToJson, FromJson

structure SoundEventObj where
  uuid : Atom
  recording : Atom
  geometry : Option Atom := none
  features : Option Dict := none
  deriving DecidableEq, Repr, Inhabited, ToJson, FromJson

structure SequenceObj where
  uuid : Atom
  sound_events : List Atom
  features : Option Dict := none
  parent : Option Atom := none
  deriving DecidableEq, Repr, Inhabited, ToJson, FromJson

structure SoundEventAnnotationObj where
  uuid : Atom
  sound_event : Atom
  notes : Option (List NoteObj) := none
  tags : Option (List Nat) := none
  created_by : Option Atom := none
  created_on : Option Atom := none
  deriving DecidableEq, Repr, Inhabited, ToJson, FromJson

structure SequenceAnnotationObj where
  uuid : Atom
  sequence : Atom
  notes : Option (List NoteObj) := none
  tags : Option (List Nat) := none
  created_by : Option Atom := none
  created_on : Option Atom := none
  deriving DecidableEq, Repr, Inhabited, ToJson, FromJson

structure ClipAnnotationsObj where
  uuid : Atom
  clip : Atom
  tags : Option (List Nat) := none
  sound_events : Option (List Atom) := none
  sequences : Option (List Atom) := none
  notes : Option (List NoteObj) := none
  created_on : Option Atom := none
  deriving DecidableEq, Repr, Inhabited, ToJson, FromJson

structure StatusBadgeObj where
  state : Atom
  owner : Option Atom := none
  created_on : Option Atom := none
  deriving DecidableEq, Repr, Inhabited, ToJson, FromJson

structure AnnotationTaskObj where
  uuid : Atom
  clip : Atom
  status_badges : Option (List StatusBadgeObj) := none
  created_on : Option Atom := none
  deriving DecidableEq, Repr, Inhabited, ToJson, FromJson

/-- `Tuple[int, float]` -/
structure ScoredTag where
  id : Nat
  score : Atom
  deriving DecidableEq, Repr, Inhabited, ToJson, FromJson

structure SoundEventPredictionObj where
  uuid : Atom
  sound_event : Atom
  score : Atom
  tags : Option (List ScoredTag) := none
  deriving DecidableEq, Repr, Inhabited, ToJson, FromJson

structure SequencePredictionObj where
  uuid : Atom
  sequence : Atom
  score : Atom
  tags : Option (List ScoredTag) := none
  deriving DecidableEq, Repr, Inhabited, ToJson, FromJson

structure ClipPredictionsObj where
  uuid : Atom
  clip : Atom
  sound_events : Option (List Atom) := none
  sequences : Option (List Atom) := none
  tags : Option (List ScoredTag) := none
  features : Option Dict := none
  deriving DecidableEq, Repr, Inhabited, ToJson, FromJson

structure MatchObj where
  uuid : Atom
  source : Option Atom := none
  target : Option Atom := none
  affinity : Atom
  score : Option Atom := none
  metrics : Option Dict := none
  deriving DecidableEq, Repr, Inhabited, ToJson, FromJson

structure ClipEvaluationObj where
  uuid : Atom
  annotations : Atom
  predictions : Atom
  «matches» : Option (List Atom) := none
  metrics : Option Dict := none
  score : Option Atom := none
  deriving DecidableEq, Repr, Inhabited, ToJson, FromJson

/-- The `data` member of an AOEF file: the union of the eight `…Object` schemas (a field that a
    schema does not declare is `none`; `Doc.keys` lists the declared ones per type). -/
structure Doc where
  collection_type : String
  uuid : Atom
  created_on : Option Atom := none
  users : Option (List UserObj) := none
  tags : Option (List TagObj) := none
  recordings : Option (List RecordingObj) := none
  clips : Option (List ClipObj) := none
  sound_events : Option (List SoundEventObj) := none
  sequences : Option (List SequenceObj) := none
  sound_event_annotations : Option (List SoundEventAnnotationObj) := none
  sequence_annotations : Option (List SequenceAnnotationObj) := none
  clip_annotations : Option (List ClipAnnotationsObj) := none
  sound_event_predictions : Option (List SoundEventPredictionObj) := none
  sequence_predictions : Option (List SequencePredictionObj) := none
  clip_predictions : Option (List ClipPredictionsObj) := none
  clip_evaluations : Option (List ClipEvaluationObj) := none
  «matches» : Option (List MatchObj) := none
  tasks : Option (List AnnotationTaskObj) := none
  project_tags : Option (List Nat) := none
  evaluation_tags : Option (List Nat) := none
  name : Option Atom := none
  description : Option Atom := none
  instructions : Option Atom := none
  version : Option Atom := none
  evaluation_task : Option Atom := none
  metrics : Option Dict := none
  score : Option Atom := none
  deriving DecidableEq, Repr, Inhabited, ToJson, FromJson

def baseKeysRS : List String := ["uuid", "collection_type", "created_on", "recordings", "tags", "users"]
def baseKeysAS : List String :=
  ["uuid", "collection_type", "users", "tags", "recordings", "sound_events", "sequences", "clips",
   "sound_event_annotations", "sequence_annotations", "clip_annotations", "created_on"]
def baseKeysPS : List String :=
  ["uuid", "created_on", "collection_type", "users", "tags", "recordings", "sound_events", "sequences",
   "clips", "sound_event_predictions", "sequence_predictions", "clip_predictions"]

/-- the fields the `…Object` schema of each collection type declares -/
def Doc.keys : String → List String
  | "recording_set" => baseKeysRS
  | "dataset" => baseKeysRS ++ ["name", "description"]
  | "annotation_set" => baseKeysAS
  | "annotation_project" => baseKeysAS ++ ["name", "description", "instructions", "project_tags", "tasks"]
  | "evaluation_set" => baseKeysAS ++ ["name", "description", "evaluation_tags"]
  | "prediction_set" => baseKeysPS
  | "model_run" => baseKeysPS ++ ["name", "version", "description"]
  | "evaluation" =>
      ["uuid", "collection_type", "created_on", "evaluation_task", "users", "tags", "recordings", "clips",
       "sound_events", "sequences", "sound_event_annotations", "sequence_annotations", "clip_annotations",
       "sound_event_predictions", "sequence_predictions", "clip_predictions", "clip_evaluations",
       "metrics", "score", "matches"]
  | _ => []

end SE.Aoef
