/-
  C01 — field names of the model structures, read off their `ToJson` instances, for the
  regenerated obligation `FieldsAgree`: on every run the field names of every data class and of
  every AOEF object class are re-extracted from the code (`model_fields`) and an obligation
  `fieldsOf "<Class>" = [...]` is discharged by `decide +kernel`.  A field added to a schema or
  dropped from an object class breaks it before anything is executed.
-/
import SoundeventModel.Aoef.Reach
namespace SE.Aoef
open Lean

def keyList (j : Json) : List String :=
  match j with
  | .obj kvs => kvs.toList.map (·.1)
  | _ => []

def insertSorted (x : String) : List String → List String
  | [] => [x]
  | y :: ys => if x ≤ y then x :: y :: ys else y :: insertSorted x ys
def sortStrings (xs : List String) : List String := xs.foldr insertSorted []

/-- sorted field names of the model structure of a class (data classes by their Python name,
    object classes as `<Name>Object`) -/
def fieldsOf : String → List String
  | "User" => keyList (toJson (default : User))
  | "Tag" => keyList (toJson (default : Tag))
  | "Feature" => keyList (toJson (default : Feature))
  | "Note" => keyList (toJson (default : Note))
  | "Recording" => keyList (toJson (default : Recording))
  | "Clip" => keyList (toJson (default : Clip))
  | "SoundEvent" => keyList (toJson (default : SoundEvent))
  | "Sequence" => keyList (toJson (default : Sequence))
  | "SoundEventAnnotation" => keyList (toJson (default : SoundEventAnnotation))
  | "SequenceAnnotation" => keyList (toJson (default : SequenceAnnotation))
  | "ClipAnnotation" => keyList (toJson (default : ClipAnnotation))
  | "StatusBadge" => keyList (toJson (default : StatusBadge))
  | "AnnotationTask" => keyList (toJson (default : AnnotationTask))
  | "PredictedTag" => keyList (toJson (default : PredictedTag))
  | "SoundEventPrediction" => keyList (toJson (default : SoundEventPrediction))
  | "SequencePrediction" => keyList (toJson (default : SequencePrediction))
  | "ClipPrediction" => keyList (toJson (default : ClipPrediction))
  | "Match" => keyList (toJson (default : Match))
  | "ClipEvaluation" => keyList (toJson (default : ClipEvaluation))
  | "RecordingSet" => keyList (toJson (default : RecordingSet))
  | "Dataset" => keyList (toJson (default : Dataset))
  | "AnnotationSet" => keyList (toJson (default : AnnotationSet))
  | "AnnotationProject" => keyList (toJson (default : AnnotationProject))
  | "EvaluationSet" => keyList (toJson (default : EvaluationSet))
  | "PredictionSet" => keyList (toJson (default : PredictionSet))
  | "ModelRun" => keyList (toJson (default : ModelRun))
  | "Evaluation" => keyList (toJson (default : Evaluation))
  | "UserObject" => keyList (toJson (default : UserObj))
  | "TagObject" => keyList (toJson (default : TagObj))
  | "NoteObject" => keyList (toJson (default : NoteObj))
  | "RecordingObject" => keyList (toJson (default : RecordingObj))
  | "ClipObject" => keyList (toJson (default : ClipObj))
  | "SoundEventObject" => keyList (toJson (default : SoundEventObj))
  | "SequenceObject" => keyList (toJson (default : SequenceObj))
  | "SoundEventAnnotationObject" => keyList (toJson (default : SoundEventAnnotationObj))
  | "SequenceAnnotationObject" => keyList (toJson (default : SequenceAnnotationObj))
  | "ClipAnnotationsObject" => keyList (toJson (default : ClipAnnotationsObj))
  | "StatusBadgeObject" => keyList (toJson (default : StatusBadgeObj))
  | "AnnotationTaskObject" => keyList (toJson (default : AnnotationTaskObj))
  | "SoundEventPredictionObject" => keyList (toJson (default : SoundEventPredictionObj))
  | "SequencePredictionObject" => keyList (toJson (default : SequencePredictionObj))
  | "ClipPredictionsObject" => keyList (toJson (default : ClipPredictionsObj))
  | "MatchObject" => keyList (toJson (default : MatchObj))
  | "ClipEvaluationObject" => keyList (toJson (default : ClipEvaluationObj))
  | "RecordingSetObject" => sortStrings (Doc.keys "recording_set")
  | "DatasetObject" => sortStrings (Doc.keys "dataset")
  | "AnnotationSetObject" => sortStrings (Doc.keys "annotation_set")
  | "AnnotationProjectObject" => sortStrings (Doc.keys "annotation_project")
  | "EvaluationSetObject" => sortStrings (Doc.keys "evaluation_set")
  | "PredictionSetObject" => sortStrings (Doc.keys "prediction_set")
  | "ModelRunObject" => sortStrings (Doc.keys "model_run")
  | "EvaluationObject" => sortStrings (Doc.keys "evaluation")
  | _ => []

/-- every key `save` can write for a collection type is declared by the schema of that type
    (checked for each type by `decide` in Proofs/C01) -/
def docFieldNames : List String :=
  ["collection_type", "uuid", "created_on", "users", "tags", "recordings", "clips", "sound_events", "sequences",
   "sound_event_annotations", "sequence_annotations", "clip_annotations", "sound_event_predictions",
   "sequence_predictions", "clip_predictions", "clip_evaluations", "matches", "tasks", "project_tags",
   "evaluation_tags", "name", "description", "instructions", "version", "evaluation_task", "metrics", "score"]

end SE.Aoef
