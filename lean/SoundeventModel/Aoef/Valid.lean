/-
  C01 / C04 — the relational validators of the data classes (`SoundeventModel/Relational.lean`,
  property C04) evaluated on the objects of a collection: what pydantic checks when the loader
  constructs a `Match`, a `ClipEvaluation` or an `AnnotationProject`.  `loadChecked` is the
  loader followed by these checks (every failure is a `ValueError` / `ValidationError`, i.e.
  `invalid`, whichever comes first).
-/
import SoundeventModel.Aoef.Reach
import SoundeventModel.Relational
namespace SE.Aoef
open SE.Relational

def matchValid (m : Match) : Bool := matchSidesOk (m.source.map (·.uuid)) (m.target.map (·.uuid))

def clipEvalValid (e : ClipEvaluation) : Bool :=
  e.«matches».all matchValid
  && clipEvalOk e.annotations.clip.uuid e.predictions.clip.uuid
      (e.annotations.sound_events.map (·.uuid)) (e.predictions.sound_events.map (·.uuid))
      (e.«matches».map fun m => (m.source.map (·.uuid), m.target.map (·.uuid)))

/-- the after-validators of the collection classes and of everything they construct -/
def Collection.validB : Collection → Bool
  | .annotationProject x =>
      projectOk (x.tasks.map (·.clip.uuid)) (x.clip_annotations.map (·.clip.uuid))
  | .evaluation x => x.clip_evaluations.all clipEvalValid
  | _ => true

def loadChecked (d : Doc) (dir : Option Paths.PPath) : Except Err Collection := do
  let c ← load d dir
  if c.validB then pure c else .error .invalid

end SE.Aoef
