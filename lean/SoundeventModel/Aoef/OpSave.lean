/-
  C02 — `soundevent.io.aoef`, the save path *operationally*: the mutable adapter objects as a
  state machine, in the code's own call order.

  `Save.lean` is the declarative reading ("each top-level list is the first-wins de-duplication of
  the post-order traversal restricted to one kind").  Here every adapter is a table in insertion
  order (`SaveSt`), `DataAdapter.to_aoef` is `viaStore` (look the id up; only when it is absent
  run `assemble_aoef` — which recursively converts the objects referred to, in the order in which
  the code evaluates them — and then store the result), and each collection adapter's `to_aoef`
  converts its members and only then reads `values()` of the sub-adapters (`opSave`).
  Proofs/C02Refine.lean proves `opSave c dir = save c dir` for coherent collections.

  Conventions
    * `Op α` = `StateT SaveSt (Except Err) α`; the only failing step is `relative_to` of a recording
      outside the audio directory (`ValueError`).
    * `to_aoef` returns the *stored* object (`return self._aoef_store[obj_id]`); callers take its
      `.uuid` / `.id` (`op…Id`).
    * keyword arguments of the `…Object(...)` constructor calls are evaluated in source order, which
      fixes the order of the nested conversions in each `assemble_aoef`.
-/
import SoundeventModel.Aoef.Save
namespace SE.Aoef
open SE.Paths

/-- `d[k] = v` on an insertion-ordered table: a present key keeps its position -/
def dictPut {κ β : Type} [BEq κ] (tbl : List (κ × β)) (k : κ) (v : β) : List (κ × β) :=
  match tbl.lookup k with
  | some _ => tbl.map (fun e => if e.1 == k then (k, v) else e)
  | none => tbl ++ [(k, v)]

/-- `DataAdapter.values()`: `None` for an empty table, else the stored objects in insertion order -/
def tblValues {κ β : Type} (tbl : List (κ × β)) : Option (List β) := listOpt (tbl.map (·.2))

/-- one table per adapter (`_aoef_store`; for tags also `_mapping`, which allocates the ids) -/
structure SaveSt where
  users : List (Atom × UserObj) := []
  tagMap : List (Tag × Nat) := []                 -- TagAdapter._mapping : (label, value) -> id
  tags : List (Nat × TagObj) := []                -- TagAdapter._aoef_store
  recordings : List (Atom × RecordingObj) := []
  clips : List (Atom × ClipObj) := []
  soundEvents : List (Atom × SoundEventObj) := []
  sequences : List (Atom × SequenceObj) := []
  seas : List (Atom × SoundEventAnnotationObj) := []
  sqas : List (Atom × SequenceAnnotationObj) := []
  cas : List (Atom × ClipAnnotationsObj) := []
  seps : List (Atom × SoundEventPredictionObj) := []
  sqps : List (Atom × SequencePredictionObj) := []
  cps : List (Atom × ClipPredictionsObj) := []
  tasks : List (Atom × AnnotationTaskObj) := []
  matches_ : List (Atom × MatchObj) := []
  ces : List (Atom × ClipEvaluationObj) := []
  deriving Repr, Inhabited

abbrev Op := StateT SaveSt (Except Err)

/-- `DataAdapter.to_aoef` of a uuid-keyed adapter whose table is the field `get` / `set`:
    an object whose id is already stored is returned as stored — it is not re-assembled and its
    sub-objects are not visited; otherwise `assemble_aoef` runs (with all its nested conversions)
    and only then the result is stored. -/
def viaStore {ω : Type} (get : SaveSt → List (Atom × ω)) (set : SaveSt → List (Atom × ω) → SaveSt)
    (id : Atom) (assemble : Op ω) : Op ω := fun st =>
  match (get st).lookup id with
  | some o => .ok (o, st)
  | none =>
    match assemble st with
    | .ok (o, st1) => .ok (o, set st1 (dictPut (get st1) id o))
    | .error e => .error e

/-- `[f(x) for x in xs]` -/
def opList {α β : Type} (f : α → Op β) : List α → Op (List β)
  | [] => pure []
  | x :: xs => do
    let y ← f x
    let ys ← opList f xs
    pure (y :: ys)

/-- `f(x) if x is not None else None` -/
def opOpt {α β : Type} (f : α → Op β) : Option α → Op (Option β)
  | none => pure none
  | some x => do
    let y ← f x
    pure (some y)

/-- a step that may raise and does not touch the tables -/
def opLift {α : Type} (e : Except Err α) : Op α := fun st =>
  match e with
  | .ok a => .ok (a, st)
  | .error err => .error err

/-! ### leaf adapters -/

/-- `UserAdapter.to_aoef` -/
def opUser (u : User) : Op UserObj :=
  viaStore (·.users) (fun st t => { st with users := t }) u.uuid
    (pure ⟨u.uuid, u.username, u.email, u.name, u.institution⟩)

def opUserId (u : User) : Op Atom := do
  let o ← opUser u
  pure o.uuid

/-- `TagAdapter.to_aoef`: `get_id` allocates `len(self._mapping)` for a new (label, value) key;
    the object is assembled and stored when the id is not yet in `_aoef_store` -/
def opTag (t : Tag) : Op TagObj := fun st =>
  let (id, st1) :=
    match st.tagMap.lookup t with
    | some i => (i, st)
    | none => (st.tagMap.length, { st with tagMap := st.tagMap ++ [(t, st.tagMap.length)] })
  match st1.tags.lookup id with
  | some o => .ok (o, st1)
  | none =>
    let o : TagObj := ⟨id, t.key, t.value⟩
    .ok (o, { st1 with tags := dictPut st1.tags id o })

def opTagId (t : Tag) : Op Nat := do
  let o ← opTag t
  pure o.id

/-- `NoteAdapter.to_aoef` (no table: converts the author, returns the note object) -/
def opNote (n : Note) : Op NoteObj := do
  let u ← opOpt opUserId n.created_by
  pure ⟨n.uuid, n.message, u, n.is_issue, some n.created_on⟩

/-- `(tag.id, predicted_tag.score)` -/
def opPTag (p : PredictedTag) : Op ScoredTag := do
  let i ← opTagId p.tag
  pure ⟨i, p.score⟩

/-! ### object adapters -/

/-- `RecordingAdapter`: tags, then notes, then owners, then `relative_to` (may raise), then store -/
def opRecording (dir : Option PPath) (r : Recording) : Op RecordingObj :=
  viaStore (·.recordings) (fun st t => { st with recordings := t }) r.uuid do
    let tags ← opList opTagId r.tags
    let notes ← opList opNote r.notes
    let owners ← opList opUserId r.owners
    let path ← opLift (storedPath dir r.path)
    pure {
      uuid := r.uuid, path := path, duration := r.duration, channels := r.channels,
      samplerate := r.samplerate,
      time_expansion := if r.time_expansion ≠ oneTok then some r.time_expansion else none,
      hash := r.hash, date := r.date, time := r.time, latitude := r.latitude,
      longitude := r.longitude,
      tags := listOpt tags,
      features := dictOpt r.features,
      notes := listOpt notes,
      owners := some owners,
      rights := r.rights,
      license := r.license }

def opRecordingId (dir : Option PPath) (r : Recording) : Op Atom := do
  let o ← opRecording dir r
  pure o.uuid

/-- `ClipAdapter` -/
def opClip (dir : Option PPath) (c : Clip) : Op ClipObj :=
  viaStore (·.clips) (fun st t => { st with clips := t }) c.uuid do
    let r ← opRecordingId dir c.recording
    pure ⟨c.uuid, r, c.start_time, c.end_time, dictOpt c.features⟩

def opClipId (dir : Option PPath) (c : Clip) : Op Atom := do
  let o ← opClip dir c
  pure o.uuid

/-- `SoundEventAdapter` -/
def opSoundEvent (dir : Option PPath) (s : SoundEvent) : Op SoundEventObj :=
  viaStore (·.soundEvents) (fun st t => { st with soundEvents := t }) s.uuid do
    let r ← opRecordingId dir s.recording
    pure ⟨s.uuid, r, s.geometry, dictOpt s.features⟩

def opSoundEventId (dir : Option PPath) (s : SoundEvent) : Op Atom := do
  let o ← opSoundEvent dir s
  pure o.uuid

/-- `SequenceAdapter`: the parent is converted first (by the same adapter: structural recursion on
    the ancestor chain), then the sound events, then the sequence is stored -/
def opSeqAux (dir : Option PPath) : SeqNode → List SeqNode → Op SequenceObj
  | n, [] =>
    viaStore (·.sequences) (fun st t => { st with sequences := t }) n.uuid do
      let ses ← opList (opSoundEventId dir) n.sound_events
      pure ⟨n.uuid, ses, dictOpt n.features, none⟩
  | n, a :: as =>
    viaStore (·.sequences) (fun st t => { st with sequences := t }) n.uuid do
      let p ← opSeqAux dir a as
      let ses ← opList (opSoundEventId dir) n.sound_events
      pure ⟨n.uuid, ses, dictOpt n.features, some p.uuid⟩

def opSequence (dir : Option PPath) (s : Sequence) : Op SequenceObj := opSeqAux dir s.node s.ancestors

def opSequenceId (dir : Option PPath) (s : Sequence) : Op Atom := do
  let o ← opSequence dir s
  pure o.uuid

/-- `SoundEventAnnotationAdapter`: sound event, notes, tags (always written), author -/
def opSEA (dir : Option PPath) (a : SoundEventAnnotation) : Op SoundEventAnnotationObj :=
  viaStore (·.seas) (fun st t => { st with seas := t }) a.uuid do
    let se ← opSoundEventId dir a.sound_event
    let notes ← opList opNote a.notes
    let tags ← opList opTagId a.tags
    let u ← opOpt opUserId a.created_by
    pure ⟨a.uuid, se, listOpt notes, some tags, u, some a.created_on⟩

def opSEAId (dir : Option PPath) (a : SoundEventAnnotation) : Op Atom := do
  let o ← opSEA dir a
  pure o.uuid

/-- `SequenceAnnotationAdapter` -/
def opSQA (dir : Option PPath) (a : SequenceAnnotation) : Op SequenceAnnotationObj :=
  viaStore (·.sqas) (fun st t => { st with sqas := t }) a.uuid do
    let sq ← opSequenceId dir a.sequence
    let notes ← opList opNote a.notes
    let tags ← opList opTagId a.tags
    let u ← opOpt opUserId a.created_by
    pure ⟨a.uuid, sq, listOpt notes, listOpt tags, u, some a.created_on⟩

def opSQAId (dir : Option PPath) (a : SequenceAnnotation) : Op Atom := do
  let o ← opSQA dir a
  pure o.uuid

/-- `ClipAnnotationsAdapter`: clip, tags, sound-event annotations, sequence annotations, notes -/
def opCA (dir : Option PPath) (a : ClipAnnotation) : Op ClipAnnotationsObj :=
  viaStore (·.cas) (fun st t => { st with cas := t }) a.uuid do
    let c ← opClipId dir a.clip
    let tags ← opList opTagId a.tags
    let seas ← opList (opSEAId dir) a.sound_events
    let sqas ← opList (opSQAId dir) a.sequences
    let notes ← opList opNote a.notes
    pure ⟨a.uuid, c, listOpt tags, listOpt seas, listOpt sqas, listOpt notes, some a.created_on⟩

def opCAId (dir : Option PPath) (a : ClipAnnotation) : Op Atom := do
  let o ← opCA dir a
  pure o.uuid

/-- `SoundEventPredictionAdapter` -/
def opSEP (dir : Option PPath) (p : SoundEventPrediction) : Op SoundEventPredictionObj :=
  viaStore (·.seps) (fun st t => { st with seps := t }) p.uuid do
    let se ← opSoundEventId dir p.sound_event
    let tags ← opList opPTag p.tags
    pure ⟨p.uuid, se, p.score, listOpt tags⟩

def opSEPId (dir : Option PPath) (p : SoundEventPrediction) : Op Atom := do
  let o ← opSEP dir p
  pure o.uuid

/-- `SequencePredictionAdapter` -/
def opSQP (dir : Option PPath) (p : SequencePrediction) : Op SequencePredictionObj :=
  viaStore (·.sqps) (fun st t => { st with sqps := t }) p.uuid do
    let sq ← opSequenceId dir p.sequence
    let tags ← opList opPTag p.tags
    pure ⟨p.uuid, sq, p.score, listOpt tags⟩

def opSQPId (dir : Option PPath) (p : SequencePrediction) : Op Atom := do
  let o ← opSQP dir p
  pure o.uuid

/-- `ClipPredictionsAdapter`: clip, sound-event predictions, sequence predictions, tags; `features`
    is written even when empty -/
def opCP (dir : Option PPath) (p : ClipPrediction) : Op ClipPredictionsObj :=
  viaStore (·.cps) (fun st t => { st with cps := t }) p.uuid do
    let c ← opClipId dir p.clip
    let seps ← opList (opSEPId dir) p.sound_events
    let sqps ← opList (opSQPId dir) p.sequences
    let tags ← opList opPTag p.tags
    pure ⟨p.uuid, c, listOpt seps, listOpt sqps, listOpt tags, some (dictOf p.features)⟩

def opCPId (dir : Option PPath) (p : ClipPrediction) : Op Atom := do
  let o ← opCP dir p
  pure o.uuid

/-- `owner = user_adapter.to_aoef(badge.owner).uuid if badge.owner is not None else None` -/
def opBadge (b : StatusBadge) : Op StatusBadgeObj := do
  let u ← opOpt opUserId b.owner
  pure ⟨b.state, u, some b.created_on⟩

/-- `AnnotationTaskAdapter`: first a loop converting the badge owners, then the clip, then the
    badge objects (which convert the — already stored — owners again) -/
def opTask (dir : Option PPath) (t : AnnotationTask) : Op AnnotationTaskObj :=
  viaStore (·.tasks) (fun st tb => { st with tasks := tb }) t.uuid do
    let _ ← opList (fun b => opOpt opUserId b.owner) t.status_badges
    let c ← opClipId dir t.clip
    let badges ← opList opBadge t.status_badges
    pure ⟨t.uuid, c, listOpt badges, some t.created_on⟩

/-- `MatchAdapter`: source prediction, then target annotation -/
def opMatch (dir : Option PPath) (m : Match) : Op MatchObj :=
  viaStore (·.matches_) (fun st t => { st with matches_ := t }) m.uuid do
    let src ← opOpt (opSEPId dir) m.source
    let tgt ← opOpt (opSEAId dir) m.target
    pure ⟨m.uuid, src, tgt, m.affinity, m.score, dictOpt m.metrics⟩

def opMatchId (dir : Option PPath) (m : Match) : Op Atom := do
  let o ← opMatch dir m
  pure o.uuid

/-- `ClipEvaluationAdapter`: annotations, predictions, matches -/
def opCE (dir : Option PPath) (e : ClipEvaluation) : Op ClipEvaluationObj :=
  viaStore (·.ces) (fun st t => { st with ces := t }) e.uuid do
    let a ← opCAId dir e.annotations
    let p ← opCPId dir e.predictions
    let ms ← opList (opMatchId dir) e.«matches»
    pure ⟨e.uuid, a, p, listOpt ms, dictOpt e.metrics, e.score⟩

/-! ### collection adapters

Each one converts the members (filling the tables) and only then reads `values()` of its
sub-adapters; member lists are written as returned by the per-member conversions. -/

/-- the fields every annotation-set-like document reads from the tables -/
def annotationFields (st : SaveSt) (d : Doc) : Doc :=
  { d with
    users := tblValues st.users, tags := tblValues st.tags, recordings := tblValues st.recordings,
    clips := tblValues st.clips, sound_events := tblValues st.soundEvents,
    sequences := tblValues st.sequences,
    sound_event_annotations := tblValues st.seas, sequence_annotations := tblValues st.sqas }

def predictionFields (st : SaveSt) (d : Doc) : Doc :=
  { d with
    users := tblValues st.users, tags := tblValues st.tags, recordings := tblValues st.recordings,
    clips := tblValues st.clips, sound_events := tblValues st.soundEvents,
    sequences := tblValues st.sequences,
    sound_event_predictions := tblValues st.seps, sequence_predictions := tblValues st.sqps }

/-- `RecordingSetAdapter.to_aoef` -/
def opRecordingSetDoc (ty : String) (uuid created_on : Atom) (recs : List Recording)
    (dir : Option PPath) : Op Doc := do
  let rs ← opList (opRecording dir) recs
  let st ← get
  pure { collection_type := ty, uuid := uuid, created_on := some created_on,
         users := tblValues st.users, tags := tblValues st.tags, recordings := some rs }

/-- `AnnotationSetAdapter.to_aoef` -/
def opAnnotationSetDoc (ty : String) (uuid created_on : Atom) (cas : List ClipAnnotation)
    (dir : Option PPath) : Op Doc := do
  let out ← opList (opCA dir) cas
  let st ← get
  pure (annotationFields st
    { collection_type := ty, uuid := uuid, created_on := some created_on,
      clip_annotations := some out })

/-- `PredictionSetAdapter.to_aoef` -/
def opPredictionSetDoc (ty : String) (uuid created_on : Atom) (cps : List ClipPrediction)
    (dir : Option PPath) : Op Doc := do
  let out ← opList (opCP dir) cps
  let st ← get
  pure (predictionFields st
    { collection_type := ty, uuid := uuid, created_on := some created_on,
      clip_predictions := some out })

def opSaveM (c : Collection) (dir : Option PPath) : Op Doc :=
  match c with
  | .recordingSet x => opRecordingSetDoc "recording_set" x.uuid x.created_on x.recordings dir
  | .dataset x => do
    -- `super().to_aoef(obj)`, then the same fields plus name and description
    let d ← opRecordingSetDoc "dataset" x.uuid x.created_on x.recordings dir
    pure { d with name := some x.name, description := x.description }
  | .annotationSet x => opAnnotationSetDoc "annotation_set" x.uuid x.created_on x.clip_annotations dir
  | .annotationProject x => do
    -- tasks, then project tags, then `super().to_aoef(obj)`; the lists are read afterwards
    let tasks ← opList (opTask dir) x.tasks
    let ptags ← opList opTagId x.annotation_tags
    let d ← opAnnotationSetDoc "annotation_project" x.uuid x.created_on x.clip_annotations dir
    let st ← get
    pure (annotationFields st
      { d with name := some x.name, description := x.description, instructions := x.instructions,
               project_tags := listOpt ptags, tasks := some tasks })
  | .evaluationSet x => do
    -- `super().to_aoef(obj)`, then the evaluation tags, and only then `values()` of the tables
    let d ← opAnnotationSetDoc "evaluation_set" x.uuid x.created_on x.clip_annotations dir
    let etags ← opList opTagId x.evaluation_tags
    let st ← get
    pure (annotationFields st
      { d with name := some x.name, description := x.description,
               evaluation_tags := listOpt etags })
  | .predictionSet x => opPredictionSetDoc "prediction_set" x.uuid x.created_on x.clip_predictions dir
  | .modelRun x => do
    let d ← opPredictionSetDoc "model_run" x.uuid x.created_on x.clip_predictions dir
    let st ← get
    pure (predictionFields st
      { d with name := some x.name, version := x.version, description := x.description })
  | .evaluation x => do
    let _ ← opList (opCE dir) x.clip_evaluations
    let st ← get
    pure (predictionFields st (annotationFields st
      { collection_type := "evaluation", uuid := x.uuid, created_on := some x.created_on,
        evaluation_task := some x.evaluation_task,
        clip_annotations := tblValues st.cas, clip_predictions := tblValues st.cps,
        clip_evaluations := tblValues st.ces, «matches» := tblValues st.matches_,
        metrics := dictOpt x.metrics, score := x.score }))

/-- `to_aeof(obj, audio_dir).data`, operationally: fresh adapters, then the collection adapter -/
def opSave (c : Collection) (dir : Option PPath) : Except Err Doc :=
  match opSaveM c dir {} with
  | .ok (d, _) => .ok d
  | .error e => .error e

/-- The evaluation-set writer as it was before the repair: `values()` of the tag adapter is read
    *before* the evaluation tags are converted (all other lists as in `opSave`). -/
def opSaveEarlyTags (x : EvaluationSet) (dir : Option PPath) : Except Err Doc :=
  let m : Op Doc := do
    let d ← opAnnotationSetDoc "evaluation_set" x.uuid x.created_on x.clip_annotations dir
    let early ← get
    let etags ← opList opTagId x.evaluation_tags
    let st ← get
    pure { annotationFields st
            { d with name := some x.name, description := x.description,
                     evaluation_tags := listOpt etags }
           with tags := tblValues early.tags }
  match m {} with
  | .ok (d, _) => .ok d
  | .error e => .error e

end SE.Aoef
