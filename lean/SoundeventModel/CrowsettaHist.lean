/-
  C10, histories and construction paths (HISTORIES.md).

  * `Hist`: a store semantics of consecutive imports in one process.  `data.Tag` is an ordinary mutable
    object: a caller may edit the tags of an annotation it got back (`annotation.tags[0].value = …`).
    The model of the code that exists: every tag the cascade *builds* (`data.Tag(term=…, value=label)`,
    rungs term_mapping / explicit term / key_mapping / key / fallback) is a freshly allocated object.
    `Hist.run` interprets a history of calls and in-place edits on a store of tag cells; the value
    semantics `Hist.pureRun` applies every call as the pure function `labelToTags` and every edit to
    the edited result only.  `Proofs/C10.lean` proves that they agree (`C10_history_value_semantics`),
    which is what the harness observes on the real objects (op `tag_history`).
    With `tag_fn` / `tag_mapping` the returned tags are the caller's own objects (not allocated by the
    converter): such option records are outside this model (`ownTags`), the driver refuses them.
  * `signatures`, `bindCall`: the positional-or-keyword parameters of the eleven public converters in
    their documented order, and Python's binding of a call that passes the first values positionally
    and the others by keyword.  The table is re-extracted from the source on every run (Tie 1); the
    harness calls every converter with every split between positional and keyword passing.
-/
import SoundeventModel.Crowsetta
namespace SE.Crowsetta

/-! ## positional signatures -/

/-- a public converter and its positional-or-keyword parameters, in order -/
structure Sig where
  fn : String
  params : List String
  deriving DecidableEq, Repr, Inhabited

def signatures : List Sig := [
  ⟨"label_to_tags", ["label", "tag_fn", "tag_mapping", "term_mapping", "key_mapping", "key", "term", "fallback",
                     "empty_labels"]⟩,
  ⟨"label_from_tag", ["tag", "label_fn", "label_mapping", "value_only", "separator"]⟩,
  ⟨"label_from_tags", ["tags", "seq_label_fn", "select_by_key", "index", "separator", "empty_label"]⟩,
  ⟨"segment_to_annotation", ["segment", "recording", "adjust_time_expansion", "notes", "created_by"]⟩,
  ⟨"segment_from_annotation", ["obj", "cast_to_segment"]⟩,
  ⟨"bbox_to_annotation", ["bbox", "recording", "adjust_time_expansion", "notes", "created_by"]⟩,
  ⟨"bbox_from_annotation", ["obj", "cast_to_bbox", "raise_on_time_geometries"]⟩,
  ⟨"sequence_to_annotations", ["sequence", "recording", "adjust_time_expansion", "created_by"]⟩,
  ⟨"sequence_from_annotations", ["annotations", "cast_to_segment", "ignore_errors"]⟩,
  ⟨"annotation_to_clip_annotation", ["annot", "recording", "tags", "notes", "adjust_time_expansion", "created_by",
                                     "recording_kwargs"]⟩,
  ⟨"annotation_from_clip_annotation", ["annot", "annot_path", "annotation_fmt", "ignore_errors", "cast_geometry"]⟩]

/-- Python's binding of the call `f(v₀, …, v_{k-1}, **kw)` against the parameter list: value `i` goes to
    parameter `i`; more values than parameters, or a keyword that names a parameter already bound
    positionally, is a `TypeError` (`none`) -/
def bindCall {α} (params : List String) (pos : List α) (kw : List (String × α)) : Option (List (String × α)) :=
  if pos.length ≤ params.length ∧ kw.all (fun p => !(params.take pos.length).contains p.1) then
    some (params.zip pos ++ kw)
  else none

/-- the call that passes the first `k` values positionally and the others by keyword, in the table's order -/
def splitCall {α} (params : List String) (vals : List α) (k : Nat) : Option (List (String × α)) :=
  bindCall params (vals.take k) ((params.zip vals).drop k)

namespace Hist

/-! ## the store of tag objects -/

/-- `tag.value = v` -/
def setValue (v : String) (t : Tag) : Tag := { t with value := v }

/-- the tags an importer builds for elements with these labels, in order (`label_to_tags`: one label;
    a sequence: the labels of its segments; an annotation: boxes, then the segments of each sequence) -/
def callVals (o : LabelOpts) (labels : List String) : Except Err (List Tag) :=
  (labels.mapM (labelToTags o)).map List.flatten

/-- the cascade builds every tag it returns (no `tag_fn`, no `tag_mapping`: those hand back the caller's objects) -/
def ownTags (o : LabelOpts) : Bool := o.tagFn.isNone && o.tagMapping.isNone

/-- one event of a history, as the caller sees it -/
inductive Ev
  | call (o : LabelOpts) (labels : List String)
  | edit (k a : Nat) (v : String)          -- in place: the `a`-th tag of the result of call `k` gets value `v`

/-- the tag cells of one result: a contiguous block of addresses -/
structure Block where
  base : Nat
  len : Nat
  deriving DecidableEq, Repr

/-- the store: tag cells by address, the next free address, one block per call (`none`: the call raised) -/
structure St where
  heap : Nat → Tag := fun _ => default
  next : Nat := 0
  results : List (Option Block) := []

/-- allocation: `ts` is written to the addresses `next, next + 1, …` -/
def alloc (heap : Nat → Tag) (next : Nat) (ts : List Tag) : Nat → Tag :=
  fun a => if next ≤ a then (ts[a - next]?).getD (heap a) else heap a

/-- in place update of one cell -/
def write (heap : Nat → Tag) (addr : Nat) (f : Tag → Tag) : Nat → Tag :=
  fun a => if a = addr then f (heap a) else heap a

def step (s : St) : Ev → St
  | .call o ls =>
    match callVals o ls with
    | .ok ts => { heap := alloc s.heap s.next ts, next := s.next + ts.length,
                  results := s.results ++ [some ⟨s.next, ts.length⟩] }
    | .error _ => { s with results := s.results ++ [none] }
  | .edit k a v =>
    match s.results[k]? with
    | some (some b) => if a < b.len then { s with heap := write s.heap (b.base + a) (setValue v) } else s
    | _ => s

def run (evs : List Ev) : St := evs.foldl step {}

/-- what the caller reads from the result of call `k` -/
def St.cells (s : St) (k : Nat) : Option (List Tag) :=
  match s.results[k]? with
  | some (some b) => some ((List.range b.len).map (fun i => s.heap (b.base + i)))
  | _ => none

/-! ## the value semantics: calls are pure, edits are local to the edited result -/

def modifyAt {α} (f : α → α) : List α → Nat → List α
  | [], _ => []
  | x :: xs, 0 => f x :: xs
  | x :: xs, n + 1 => x :: modifyAt f xs n

def pureStep (rs : List (Option (List Tag))) : Ev → List (Option (List Tag))
  | .call o ls => rs ++ [(callVals o ls).toOption]
  | .edit k a v => modifyAt (Option.map (fun ts => modifyAt (setValue v) ts a)) rs k

def pureRun (evs : List Ev) : List (Option (List Tag)) := evs.foldl pureStep []

/-- the reads of a whole history: after every event, what the caller sees in every result so far -/
def trace (evs : List Ev) : List (List (Option (List Tag))) :=
  (List.range evs.length).map (fun n =>
    let s := run (evs.take (n + 1))
    (List.range s.results.length).map s.cells)

end Hist
end SE.Crowsetta
